(* Theory/DirectiveCodec.v -- from_lines (to_lines d) = d for MergeDirective2 under the
   executable guard dir_ok; _verify_patch; v4 record names; record integrity (C40). *)
From Coq Require Import String Ascii ZArith NArith List Bool Lia.
From BV Require Import Lib.Bytes Lib.Obs Model.OsUtils Theory.OsUtilsDate Model.Directive
  Theory.DirectiveRio Theory.DirectiveStanza Theory.DirectiveDate.
Import ListNotations.
Open Scope N_scope.

(* ------------------------------------------------------------------ *)
(* 1. payload lines                                                    *)
(* ------------------------------------------------------------------ *)
Lemma splitlines_aux_concat : forall n s cur, (length s <= n)%nat ->
  concat (splitlines_aux cur s) = rev cur ++ s.
Proof.
  induction n as [|n IH]; intros s cur Hn.
  - destruct s; [|cbn in Hn; lia]. cbn. destruct cur; cbn; rewrite ?app_nil_r; reflexivity.
  - destruct s as [|c t].
    + cbn. destruct cur; cbn; rewrite ?app_nil_r; reflexivity.
    + cbn [length] in Hn. cbn [splitlines_aux].
      destruct (c =? LF) eqn:Elf.
      * cbn [concat]. rewrite IH by lia. cbn [rev app]. rewrite <- !app_assoc. reflexivity.
      * destruct (c =? CR) eqn:Ecr.
        -- destruct t as [|d t'].
           ++ cbn [concat]. rewrite app_nil_r. reflexivity.
           ++ destruct (d =? LF) eqn:Ed.
              ** cbn [concat]. cbn [length] in Hn. rewrite IH by lia.
                 cbn [rev app]. rewrite <- !app_assoc. reflexivity.
              ** cbn [concat]. rewrite IH by lia.
                 cbn [rev app]. rewrite <- !app_assoc. reflexivity.
        -- rewrite IH by lia. cbn [rev]. rewrite <- app_assoc. reflexivity.
Qed.

Lemma splitlines_concat s : concat (splitlines s) = s.
Proof. unfold splitlines. rewrite (splitlines_aux_concat (length s)) by lia. reflexivity. Qed.

Definition no_marker (ls : list bytes) : bool := forallb (fun l => negb (prefixb BEGIN_BUNDLE l)) ls.

Lemma take_patch_none : forall ls acc, no_marker ls = true -> take_patch acc ls = (rev acc ++ ls, None).
Proof.
  induction ls as [|l ls IH]; intros acc H.
  - cbn. rewrite app_nil_r. reflexivity.
  - cbn [no_marker forallb] in H. apply andb_true_iff in H. destruct H as [Hl Hr].
    apply negb_true_iff in Hl. cbn [take_patch]. rewrite Hl.
    rewrite IH by exact Hr. cbn [rev]. rewrite <- app_assoc. reflexivity.
Qed.

Lemma take_patch_marker : forall ls acc m rest,
  no_marker ls = true -> prefixb BEGIN_BUNDLE m = true ->
  take_patch acc (ls ++ m :: rest) = (rev acc ++ ls, Some (m, rest)).
Proof.
  induction ls as [|l ls IH]; intros acc m rest H Hm.
  - cbn [app take_patch]. rewrite Hm, app_nil_r. reflexivity.
  - cbn [no_marker forallb] in H. apply andb_true_iff in H. destruct H as [Hl Hr].
    apply negb_true_iff in Hl. cbn [app take_patch]. rewrite Hl.
    rewrite IH by assumption. cbn [rev]. rewrite <- app_assoc. reflexivity.
Qed.

Definition payload_ok (d : directive) : bool :=
  match d_patch d with Some p => no_marker (splitlines p) | None => true end.

Definition parse_payload (rest : list bytes) : rres (option bytes * option bytes) :=
  match rest with
  | [] => ROk (None, None)
  | start :: more =>
      if prefixb BEGIN_PATCH start then
        match take_patch [] more with
        | (pl, None) => ROk (Some (concat pl), None)
        | (pl, Some (_, bl)) => ROk (Some (concat pl), Some (concat bl))
        end
      else if prefixb BEGIN_BUNDLE start then ROk (None, Some (concat more))
      else RErr "IllegalMergeDirectivePayload"
  end.

Lemma parse_payload_lines d :
  payload_ok d = true -> parse_payload (payload_lines d) = ROk (d_patch d, d_bundle d).
Proof.
  unfold payload_ok, payload_lines. intros H.
  destruct (d_patch d) as [p|]; destruct (d_bundle d) as [b|].
  - cbn [app parse_payload].
    change (prefixb BEGIN_PATCH (BEGIN_PATCH ++ [LF])) with true. cbv iota.
    rewrite take_patch_marker by (try exact H; reflexivity).
    cbn [rev app]. rewrite !splitlines_concat. reflexivity.
  - cbn [app parse_payload]. rewrite app_nil_r.
    change (prefixb BEGIN_PATCH (BEGIN_PATCH ++ [LF])) with true. cbv iota.
    rewrite take_patch_none by exact H. cbn [rev app]. rewrite splitlines_concat. reflexivity.
  - cbn [app parse_payload].
    change (prefixb BEGIN_PATCH (BEGIN_BUNDLE ++ [LF])) with false.
    change (prefixb BEGIN_BUNDLE (BEGIN_BUNDLE ++ [LF])) with true. cbv iota.
    rewrite splitlines_concat. reflexivity.
  - reflexivity.
Qed.

(* ------------------------------------------------------------------ *)
(* 2. the directive round trip                                         *)
(* ------------------------------------------------------------------ *)
Definition sha_ok (d : directive) : bool :=
  match d_testament_sha1 d with Some s => all_ascii s | None => false end.

Definition dir_ok (d : directive) : bool :=
  date_ok (d_time d) (d_timezone d) && (d_nanos d =? 0)%Z && ctor_ok d && sha_ok d && payload_ok d
  && match format_patch_date (d_time d) (d_timezone d) with
     | Some ts => stanza_ok (stanza_of d ts)
     | None => false
     end.

Lemma from_lines_header rest :
  from_lines ((HASH :: SP :: FORMAT2 ++ [LF]) :: rest) = from_lines2 rest.
Proof.
  cbn [from_lines].
  change (prefixb HEADER_PREFIX (HASH :: SP :: FORMAT2 ++ [LF])) with true. cbv iota.
  change (rstrip (skipn 2 (HASH :: SP :: FORMAT2 ++ [LF]))) with FORMAT2.
  change (bytes_eqb FORMAT2 FORMAT2) with true. reflexivity.
Qed.

Lemma from_lines2_unfold st rest :
  from_lines2 (to_patch_lines st ++ TERMINATOR :: rest) =
  match read_patch_stanza (to_patch_lines st ++ TERMINATOR :: rest) with
  | (RErr e, _) => RErr e
  | (ROk None, _) => RErr "AttributeError"
  | (ROk (Some st), rest) =>
      bind (parse_payload rest) (fun pb =>
      match sget K_TIMESTAMP st with
      | None => RErr "TypeError"
      | Some ts =>
          match parse_patch_date ts with
          | None => RErr "ValueError"
          | Some (time, timezone) =>
              match sget K_REVISION_ID st, sget K_BASE_REVISION_ID st with
              | Some rid, Some brid =>
                  match sget K_TESTAMENT_SHA1 st with
                  | None => RErr "TypeError"
                  | Some sha =>
                  if all_ascii sha then
                    match sget K_TARGET_BRANCH st with
                    | None => RErr "TypeError"
                    | Some tb =>
                        let sb := sget K_SOURCE_BRANCH st in
                        match sb, snd pb with
                        | None, None => RErr "NoMergeSource"
                        | _, _ =>
                            ROk {| d_revision_id := rid; d_testament_sha1 := Some sha;
                                   d_time := time; d_nanos := 0; d_timezone := timezone;
                                   d_target_branch := tb; d_source_branch := sb;
                                   d_message := sget K_MESSAGE st; d_base_revision_id := brid;
                                   d_patch := fst pb; d_bundle := snd pb |}
                        end
                    end
                  else RErr "UnicodeEncodeError"
                  end
              | _, _ => RErr "KeyError"
              end
          end
      end)
  end.
Proof. reflexivity. Qed.

Theorem directive_roundtrip d :
  dir_ok d = true -> exists ls, to_lines d = ROk ls /\ from_lines ls = ROk d.
Proof.
  unfold dir_ok. intros H.
  apply andb_true_iff in H. destruct H as [H Hst].
  apply andb_true_iff in H. destruct H as [H Hpay].
  apply andb_true_iff in H. destruct H as [H Hsha].
  apply andb_true_iff in H. destruct H as [H Hctor].
  apply andb_true_iff in H. destruct H as [Hdate Hns].
  apply Z.eqb_eq in Hns.
  destruct (date_roundtrip _ _ Hdate) as [ts [Hfmt Hparse]].
  rewrite Hfmt in Hst.
  unfold to_lines. rewrite Hfmt. eexists. split; [reflexivity|].
  unfold head_lines. cbn [app]. rewrite from_lines_header.
  rewrite <- app_assoc. cbn [app].
  rewrite from_lines2_unfold, read_patch_stanza_roundtrip by exact Hst.
  rewrite parse_payload_lines by exact Hpay. cbn [bind fst snd].
  destruct d as [rid sha t ns tz tb sb msg brid pa bu].
  unfold sha_ok, ctor_ok in *. cbn [d_testament_sha1 d_source_branch d_bundle d_time d_timezone d_nanos] in *.
  destruct sha as [sha|]; [|discriminate].
  unfold stanza_of.
  cbn [d_revision_id d_target_branch d_testament_sha1 d_source_branch d_message d_base_revision_id opt_item app].
  subst ns.
  destruct sb as [sb|]; destruct msg as [msg|]; cbn [opt_item app];
    (* the key lookups compute on the concrete tags *)
    repeat (cbn [sget];
            repeat match goal with
                   | |- context [bytes_eqb ?a ?b] =>
                       let v := eval vm_compute in (bytes_eqb a b) in change (bytes_eqb a b) with v
                   end; cbv iota);
    rewrite Hparse; rewrite Hsha; try reflexivity;
    destruct bu; try discriminate; reflexivity.
Qed.

(* ---- the guard is needed: one witness per excluded class (each is accepted by the
        constructor and by to_lines, and read back differently or not at all) ---- *)
Definition base_directive : directive :=
  {| d_revision_id := asc "rev-1"; d_testament_sha1 := Some (asc "0123abcd");
     d_time := 1700000000; d_nanos := 0; d_timezone := 3600;
     d_target_branch := asc "http://example.com/trunk";
     d_source_branch := Some (asc "http://example.com/feature"); d_message := Some (asc "fix");
     d_base_revision_id := asc "null:"; d_patch := None; d_bundle := None |}.
Definition with_message (m : bytes) : directive :=
  {| d_revision_id := asc "rev-1"; d_testament_sha1 := Some (asc "0123abcd");
     d_time := 1700000000; d_nanos := 0; d_timezone := 3600;
     d_target_branch := asc "http://example.com/trunk";
     d_source_branch := Some (asc "http://example.com/feature"); d_message := Some m;
     d_base_revision_id := asc "null:"; d_patch := None; d_bundle := None |}.
Definition with_zone (ns tz : Z) : directive :=
  {| d_revision_id := asc "rev-1"; d_testament_sha1 := Some (asc "0123abcd");
     d_time := 1700000000; d_nanos := ns; d_timezone := tz;
     d_target_branch := asc "http://example.com/trunk";
     d_source_branch := Some (asc "http://example.com/feature"); d_message := Some (asc "fix");
     d_base_revision_id := asc "null:"; d_patch := None; d_bundle := None |}.
Definition with_payload (p b : option bytes) : directive :=
  {| d_revision_id := asc "rev-1"; d_testament_sha1 := Some (asc "0123abcd");
     d_time := 1700000000; d_nanos := 0; d_timezone := 3600;
     d_target_branch := asc "http://example.com/trunk";
     d_source_branch := Some (asc "http://example.com/feature"); d_message := Some (asc "fix");
     d_base_revision_id := asc "null:"; d_patch := p; d_bundle := b |}.

Definition roundtrips (d : directive) : bool :=
  match to_lines d with
  | ROk ls => match from_lines ls with
              | ROk d' => obs_eqb (odirective d') (odirective d)
              | RErr _ => false
              end
  | RErr _ => false
  end.
Definition serialises (d : directive) : bool :=
  ctor_ok d && match to_lines d with ROk _ => true | RErr _ => false end.

Example dir_ok_example : dir_ok base_directive = true /\ roundtrips base_directive = true.
Proof. split; vm_compute; reflexivity. Qed.

(* a long multi-line unicode message with trailing blanks and a windows path that fits a line *)
Example dir_ok_example_long :
  dir_ok (with_message (asc "caf" ++ [195; 169] ++ asc " " ++ repeat 120 70 ++ asc " x-y/z  " ++ [LF]
                        ++ asc "C:\dir\file" ++ [LF; 9] ++ asc "tab ")) = true.
Proof. vm_compute. reflexivity. Qed.

Lemma roundtrip_refuted_cr :
  serialises (with_message (asc "a" ++ [CR])) = true /\ roundtrips (with_message (asc "a" ++ [CR])) = false.
Proof. split; vm_compute; reflexivity. Qed.
Lemma roundtrip_refuted_backslash :
  let d := with_message (repeat 120 58 ++ [BSL] ++ asc "yyyy") in
  serialises d = true /\ roundtrips d = false.
Proof. split; vm_compute; reflexivity. Qed.
(* regression (parse_patch_date repaired 2026-09-22): a negative half-hour zone is inside the guard *)
Example roundtrip_negative_minutes :
  dir_ok (with_zone 0 (-12600)) = true /\ roundtrips (with_zone 0 (-12600)) = true.
Proof. split; vm_compute; reflexivity. Qed.
Lemma roundtrip_refuted_subsecond :
  serialises (with_zone 750000000 3600) = true /\ roundtrips (with_zone 750000000 3600) = false.
Proof. split; vm_compute; reflexivity. Qed.
Lemma roundtrip_refuted_marker :
  let d := with_payload (Some (asc "a" ++ [LF] ++ BEGIN_BUNDLE ++ [LF] ++ asc "b" ++ [LF])) (Some (asc "QUJD")) in
  serialises d = true /\ roundtrips d = false.
Proof. split; vm_compute; reflexivity. Qed.

(* read back from a file (LF-split text): also a patch without final newline before a bundle *)
Definition roundtrips_text (d : directive) : bool :=
  match to_lines d with
  | ROk ls => match from_text (concat ls) with
              | ROk d' => obs_eqb (odirective d') (odirective d)
              | RErr _ => false
              end
  | RErr _ => false
  end.
Lemma text_roundtrip_refuted_no_final_newline :
  let d := with_payload (Some (asc "abc")) (Some (asc "QUJD")) in
  dir_ok d = true /\ roundtrips d = true /\ roundtrips_text d = false.
Proof. repeat split; vm_compute; reflexivity. Qed.
Example text_roundtrip_example :
  roundtrips_text (with_payload (Some (asc "+a" ++ [CR; LF] ++ asc "-b" ++ [CR] ++ asc "c" ++ [LF])) (Some (asc "QUJD"))) = true.
Proof. vm_compute. reflexivity. Qed.

(* ------------------------------------------------------------------ *)
(* 3. _verify_patch                                                    *)
(* ------------------------------------------------------------------ *)
Definition is_blank (c : N) : bool := (c =? SP) || (c =? CR) || (c =? LF).
Definition strip_ws (s : bytes) : bytes := filter (fun c => negb (is_blank c)) s.

Lemma strip_ws_app a b : strip_ws (a ++ b) = strip_ws a ++ strip_ws b.
Proof. unfold strip_ws. apply filter_app. Qed.

Lemma strip_ws_norm_eol : forall n s, (length s <= n)%nat -> strip_ws (norm_eol s) = strip_ws s.
Proof.
  induction n as [|n IH]; intros s Hn.
  - destruct s; [reflexivity|cbn in Hn; lia].
  - destruct s as [|c t]; [reflexivity|]. cbn [length] in Hn. cbn [norm_eol].
    destruct (c =? CR) eqn:Ec.
    + apply N.eqb_eq in Ec. subst c.
      destruct t as [|d t'].
      * reflexivity.
      * destruct (d =? LF) eqn:Ed.
        -- apply N.eqb_eq in Ed. subst d. cbn [length] in Hn.
           change (strip_ws (LF :: norm_eol t')) with (strip_ws (norm_eol t')).
           change (strip_ws (CR :: LF :: t')) with (strip_ws t'). apply IH. lia.
        -- change (strip_ws (LF :: norm_eol (d :: t'))) with (strip_ws (norm_eol (d :: t'))).
           change (strip_ws (CR :: d :: t')) with (strip_ws (d :: t')). apply IH. cbn [length] in *. lia.
    + unfold strip_ws. cbn [filter]. fold (strip_ws (norm_eol t)). fold (strip_ws t).
      rewrite IH by lia. reflexivity.
Qed.

Lemma strip_ws_blanks pending : forallb (N.eqb SP) pending = true -> strip_ws pending = [].
Proof.
  induction pending as [|c p IH]; intros H; [reflexivity|].
  cbn [forallb] in H. apply andb_true_iff in H. destruct H as [Hc Hp].
  apply N.eqb_eq in Hc. subst c. change (strip_ws (SP :: p)) with (strip_ws p). apply IH. exact Hp.
Qed.

Lemma strip_ws_trailing : forall s pending, forallb (N.eqb SP) pending = true ->
  strip_ws (strip_trailing_ws pending s) = strip_ws s.
Proof.
  induction s as [|c t IH]; intros pending Hp.
  - cbn [strip_trailing_ws]. apply strip_ws_blanks. exact Hp.
  - cbn [strip_trailing_ws]. destruct (c =? SP) eqn:Es.
    + apply N.eqb_eq in Es. subst c. rewrite IH by (cbn [forallb]; rewrite Hp; reflexivity). reflexivity.
    + destruct (c =? LF) eqn:El.
      * apply N.eqb_eq in El. subst c.
        change (strip_ws (LF :: strip_trailing_ws [] t)) with (strip_ws (strip_trailing_ws [] t)).
        change (strip_ws (LF :: t)) with (strip_ws t). apply IH. reflexivity.
      * rewrite strip_ws_app, (strip_ws_blanks pending Hp). cbn [app].
        unfold strip_ws. cbn [filter]. fold (strip_ws (strip_trailing_ws [] t)). fold (strip_ws t).
        rewrite IH by reflexivity. reflexivity.
Qed.

Lemma strip_ws_norm_patch s : strip_ws (norm_patch s) = strip_ws s.
Proof.
  unfold norm_patch. rewrite strip_ws_trailing by reflexivity.
  apply (strip_ws_norm_eol (length s)). lia.
Qed.

Lemma bytes_eqb_eq a : forall b, bytes_eqb a b = true -> a = b.
Proof.
  induction a as [|x a IH]; intros [|y b] H; try discriminate; [reflexivity|].
  unfold bytes_eqb in H. fold (bytes_eqb a b) in H.
  apply andb_true_iff in H. destruct H as [Hx Hr]. apply N.eqb_eq in Hx. subst y.
  f_equal. apply IH. exact Hr.
Qed.
Lemma bytes_eqb_refl a : bytes_eqb a a = true.
Proof.
  induction a as [|x a IH]; [reflexivity|].
  unfold bytes_eqb. fold (bytes_eqb a a). rewrite N.eqb_refl, IH. reflexivity.
Qed.

(* any difference outside blanks / line ends is detected *)
Theorem verify_detects stored calculated :
  strip_ws stored <> strip_ws calculated -> verify_patch stored calculated = false.
Proof.
  intros H. unfold verify_patch.
  destruct (bytes_eqb (norm_patch calculated) (norm_patch stored)) eqn:E; [|reflexivity].
  apply bytes_eqb_eq in E. exfalso. apply H.
  rewrite <- (strip_ws_norm_patch stored), <- (strip_ws_norm_patch calculated), E. reflexivity.
Qed.

Lemma verify_same p : verify_patch p p = true.
Proof. unfold verify_patch. apply bytes_eqb_refl. Qed.

Lemma strip_ws_set_byte p i old new :
  nth_error p i = Some old -> is_blank old = false -> is_blank new = false -> old <> new ->
  strip_ws (set_byte i new p) <> strip_ws p.
Proof.
  intros Hnth Ho Hn Hne. unfold set_byte.
  destruct (nth_error_split p i Hnth) as [l1 [l2 [Hp Hl]]].
  subst p i. rewrite firstn_app_exact, skipn_app_exact.
  rewrite !strip_ws_app.
  assert (H1 : strip_ws (new :: l2) = new :: strip_ws l2) by (unfold strip_ws; cbn [filter]; rewrite Hn; reflexivity).
  assert (H2 : strip_ws (old :: l2) = old :: strip_ws l2) by (unfold strip_ws; cbn [filter]; rewrite Ho; reflexivity).
  rewrite H1, H2. intros Heq. apply app_inv_head in Heq. injection Heq as Heq. congruence.
Qed.

(* changing one non-blank byte of the stored patch into another non-blank byte makes
   verification against the recomputed patch fail *)
Theorem tamper_byte_detected p i old new :
  nth_error p i = Some old -> is_blank old = false -> is_blank new = false -> old <> new ->
  maybe_verify (Some (set_byte i new p)) p = "failed"%string.
Proof.
  intros. unfold maybe_verify. rewrite verify_detects; [reflexivity|].
  apply strip_ws_set_byte with (old := old); assumption.
Qed.

(* ... but blanks and line ends are outside the comparison *)
Lemma tamper_blank_refuted :
  exists p i new, set_byte i new p <> p /\ maybe_verify (Some (set_byte i new p)) p = "verified"%string.
Proof.
  exists (asc "a " ++ [LF] ++ asc "b" ++ [LF]), 1%nat, CR. split; [discriminate|reflexivity].
Qed.

(* ------------------------------------------------------------------ *)
(* 4. record integrity over an abstract hash                           *)
(* ------------------------------------------------------------------ *)
Section Hash.
  Variable H : bytes -> bytes.
  Lemma record_ok_same text : record_ok H text (H text) = true.
  Proof. unfold record_ok. apply bytes_eqb_refl. Qed.
  (* H is assumed collision-free on the two texts compared *)
  Lemma record_tamper_detected text text' :
    (text' <> text -> H text' <> H text) -> text' <> text ->
    install_record H text' (H text) = RErr "BadBundle".
  Proof.
    intros Hcf Hne. unfold install_record, record_ok.
    destruct (bytes_eqb (H text') (H text)) eqn:E; [|reflexivity].
    apply bytes_eqb_eq in E. exfalso. exact (Hcf Hne E).
  Qed.
End Hash.

(* ------------------------------------------------------------------ *)
(* 5. v4 record names                                                  *)
(* ------------------------------------------------------------------ *)
Definition starts_slash (s : bytes) : bool := match s with c :: _ => c =? SLASH | [] => false end.

Lemma decode_go_esc : forall x cur acc rest,
  decode_go cur acc (esc_slash x ++ rest) = decode_go (rev x ++ cur) acc rest.
Proof.
  induction x as [|c x IH]; intros cur acc rest; [reflexivity|].
  change (esc_slash (c :: x)) with ((if c =? SLASH then [SLASH; SLASH] else [c]) ++ esc_slash x).
  destruct (c =? SLASH) eqn:E.
  - apply N.eqb_eq in E. subst c. cbn [app decode_go]. change (SLASH =? SLASH) with true. cbv iota.
    rewrite IH. cbn [rev]. rewrite <- app_assoc. reflexivity.
  - cbn [app decode_go]. rewrite E. rewrite IH. cbn [rev]. rewrite <- app_assoc. reflexivity.
Qed.

Lemma starts_slash_esc x : starts_slash (esc_slash x) = starts_slash x.
Proof.
  destruct x as [|c x]; [reflexivity|].
  change (esc_slash (c :: x)) with ((if c =? SLASH then [SLASH; SLASH] else [c]) ++ esc_slash x).
  unfold starts_slash at 2.
  destruct (c =? SLASH) eqn:E; [reflexivity|]. cbn [app starts_slash]. exact E.
Qed.

(* the later names must not start with '/', and only the last may be empty *)
Fixpoint names_ok (later : list bytes) : bool :=
  match later with
  | [] => true
  | [n] => negb (starts_slash n)
  | n :: rest => negb (starts_slash n) && match n with [] => false | _ => true end && names_ok rest
  end.

Lemma decode_go_names : forall later n0 cur acc,
  names_ok later = true ->
  decode_go cur acc (esc_slash n0 ++ flat_map (fun n => SLASH :: esc_slash n) later)
  = rev acc ++ (rev cur ++ n0) :: later.
Proof.
  induction later as [|n later IH]; intros n0 cur acc Hok.
  - cbn [flat_map]. rewrite decode_go_esc. cbn [decode_go].
    rewrite rev_app_distr, rev_involutive. cbn [rev]. reflexivity.
  - cbn [flat_map]. rewrite decode_go_esc.
    assert (Hn : starts_slash n = false /\ (later = [] \/ (n <> [] /\ names_ok later = true))).
    { destruct later as [|m later'].
      - cbn in Hok. apply negb_true_iff in Hok. split; [exact Hok|left; reflexivity].
      - cbn [names_ok] in Hok. apply andb_true_iff in Hok. destruct Hok as [Hok Hrest].
        apply andb_true_iff in Hok. destruct Hok as [Hs Hne]. apply negb_true_iff in Hs.
        split; [exact Hs|right]. split; [destruct n; [discriminate|discriminate]|exact Hrest]. }
    destruct Hn as [Hs Hcase].
    (* the separator: a single '/' because the next byte is not '/' *)
    assert (Hsep : forall tail, starts_slash tail = false ->
              decode_go (rev n0 ++ cur) acc (SLASH :: tail) = decode_go [] (rev (rev n0 ++ cur) :: acc) tail).
    { intros tail Ht. cbn [decode_go]. change (SLASH =? SLASH) with true. cbv iota.
      destruct tail as [|d t']; [reflexivity|]. cbn in Ht. rewrite Ht. reflexivity. }
    destruct Hcase as [-> | [Hne Hrest]].
    + cbn [flat_map]. rewrite app_nil_r.
      rewrite Hsep by (rewrite starts_slash_esc; exact Hs).
      rewrite <- (app_nil_r (esc_slash n)), decode_go_esc. cbn [decode_go].
      rewrite app_nil_r, rev_involutive, rev_app_distr, rev_involutive. cbn [rev].
      rewrite <- app_assoc. reflexivity.
    + change ((SLASH :: esc_slash n) ++ flat_map (fun n1 : bytes => SLASH :: esc_slash n1) later)
        with (SLASH :: (esc_slash n ++ flat_map (fun n1 : bytes => SLASH :: esc_slash n1) later)).
      rewrite Hsep.
      * rewrite IH by exact Hrest. cbn [rev]. rewrite rev_app_distr, rev_involutive.
        rewrite <- app_assoc. reflexivity.
      * destruct n as [|c n']; [congruence|].
        change (esc_slash (c :: n')) with ((if c =? SLASH then [SLASH; SLASH] else [c]) ++ esc_slash n').
        cbn in Hs. rewrite Hs. cbn [app starts_slash]. exact Hs.
Qed.

Lemma join_slash_flat : forall later n0,
  join [SLASH] (map esc_slash (n0 :: later)) = esc_slash n0 ++ flat_map (fun n => SLASH :: esc_slash n) later.
Proof.
  induction later as [|n later IH]; intros n0.
  - cbn. rewrite app_nil_r. reflexivity.
  - specialize (IH n). cbn [map] in *.
    change (join [SLASH] (esc_slash n0 :: esc_slash n :: map esc_slash later))
      with (esc_slash n0 ++ [SLASH] ++ join [SLASH] (esc_slash n :: map esc_slash later)).
    rewrite IH. reflexivity.
Qed.

Theorem decode_names_roundtrip n0 later :
  names_ok later = true ->
  decode_names (join [SLASH] (map esc_slash (n0 :: later))) = n0 :: later.
Proof.
  intros H. unfold decode_names. rewrite join_slash_flat, decode_go_names by exact H. reflexivity.
Qed.

Lemma record_name_refuted :
  exists r f, encode_name (asc "file") (Some r) (Some f) = ROk (asc "file/r1///x") /\
              decode_name (asc "file/r1///x") <> (asc "file", Some r, Some f).
Proof. exists (asc "r1"), (asc "/x"). split; [reflexivity|discriminate]. Qed.
