(* Theory/SmartAdd.v -- proofs about Model/SmartAdd.v (C11). *)
From Coq Require Import NArith List Bool String Lia.
From BV Require Import Lib.Bytes Lib.DirTree Model.CleanTree Model.SmartAdd.
Import ListNotations.

(* ---- prefixes -------------------------------------------------------- *)

Lemma prefixes_from_spec p : forall pre a,
  In a (prefixes_from pre p) <-> exists s, s <> [] /\ a = pre ++ s /\ is_prefix s p = true.
Proof.
  induction p as [|c r IH]; intros pre a; simpl.
  - split; [intros []|]. intros (s & Hs & _ & H). destruct s; [congruence|discriminate].
  - rewrite IH. split.
    + intros [<-|(s & Hs & -> & H)].
      * exists [c]. repeat split; [discriminate|]. simpl. rewrite name_eqb_refl. reflexivity.
      * exists (c :: s). repeat split; [discriminate|rewrite <- app_assoc; reflexivity|].
        simpl. rewrite name_eqb_refl. exact H.
    + intros (s & Hs & -> & H). destruct s as [|x s]; [congruence|].
      simpl in H. apply andb_true_iff in H as [E H]. apply name_eqb_eq in E. subst x.
      destruct s as [|y s]; [left; reflexivity|right].
      exists (y :: s). repeat split; [discriminate|rewrite <- app_assoc; reflexivity|exact H].
Qed.

Lemma prefixes_spec p a : In a (prefixes p) <-> a <> [] /\ is_prefix a p = true.
Proof.
  unfold prefixes. rewrite prefixes_from_spec. split.
  - intros (s & Hs & -> & H). auto.
  - intros (Ha & H). exists a. auto.
Qed.

Lemma is_versioned_In i q : q <> [] -> (is_versioned i q = true <-> In q (paths_of i)).
Proof. intros H. destruct q; [congruence|]. unfold is_versioned. apply mem_path_In. Qed.

(* ---- phase 1, bzr ---------------------------------------------------- *)

Lemma add_path_paths t i p q :
  In q (paths_of (add_path t i p)) <->
  In q (paths_of i) \/ (is_versioned i q = false /\ In q (prefixes p)).
Proof.
  unfold add_path, paths_of. rewrite map_app, in_app_iff, map_map. cbn [fst]. rewrite map_id.
  rewrite filter_In, negb_true_iff. tauto.
Qed.

Lemma add_path_incl t i p : incl i (add_path t i p).
Proof. unfold add_path. apply incl_appl, incl_refl. Qed.

Lemma add_path_new t i p e : In e (add_path t i p) -> In e i \/ is_versioned i (fst e) = false.
Proof.
  unfold add_path. rewrite in_app_iff, in_map_iff. intros [H|(a & <- & H)]; [left; exact H|right].
  apply filter_In in H as [_ H]. apply negb_true_iff in H. exact H.
Qed.

Lemma fold_add_path_paths t named : forall i q,
  q <> [] ->
  (In q (paths_of (fold_left (add_path t) named i)) <->
   In q (paths_of i) \/ exists p, In p named /\ is_prefix q p = true).
Proof.
  induction named as [|p r IH]; intros i q Hq; simpl.
  - split; [auto|intros [H|(p & [] & _)]; exact H].
  - rewrite IH by assumption. rewrite add_path_paths, prefixes_spec. split.
    + intros [[H|(_ & _ & H)]|(p' & H1 & H2)]; eauto.
    + intros [H|(p' & [<-|H1] & H2)]; eauto.
      destruct (is_versioned i q) eqn:E.
      * left; left. apply is_versioned_In; assumption.
      * left; right. auto.
Qed.

Lemma fold_add_path_incl t named : forall i, incl i (fold_left (add_path t) named i).
Proof.
  induction named as [|p r IH]; intros i; simpl; [apply incl_refl|].
  eapply incl_tran; [apply add_path_incl|apply IH].
Qed.

Lemma is_versioned_mono i j q : incl i j -> is_versioned i q = true -> is_versioned j q = true.
Proof.
  intros Hs. destruct q as [|c q]; [reflexivity|]. unfold is_versioned. rewrite !mem_path_In.
  unfold paths_of. rewrite !in_map_iff. intros (e & <- & H). exists e. auto.
Qed.

Lemma fold_add_path_new t named : forall i e,
  In e (fold_left (add_path t) named i) -> In e i \/ is_versioned i (fst e) = false.
Proof.
  induction named as [|p r IH]; intros i e; simpl; [auto|].
  intros H. apply IH in H as [H|H].
  - apply add_path_new in H. exact H.
  - right. destruct (is_versioned i (fst e)) eqn:E; [|reflexivity].
    rewrite (is_versioned_mono i (add_path t i p) _ (add_path_incl t i p) E) in H. discriminate.
Qed.

(* ---- phase 1, git ---------------------------------------------------- *)

Definition is_nondir (t : node) (p : path) : Prop :=
  exists n, lookup p t = Some n /\ is_dir n = false.

Lemma add_file_git_paths t i p q :
  In q (paths_of (add_file_git t i p)) <-> In q (paths_of i) \/ (q = p /\ is_nondir t p).
Proof.
  unfold add_file_git, is_nondir.
  destruct (lookup p t) as [n|] eqn:E.
  - destruct n as [| b | cs].
    + destruct (mem_path p (paths_of i)) eqn:M.
      * split; [auto|]. intros [H|[-> _]]; [exact H|apply mem_path_In; exact M].
      * unfold paths_of. rewrite map_app, in_app_iff. simpl. split.
        -- intros [H|[<-|[]]]; [auto|right; split; [reflexivity|eexists; split; reflexivity]].
        -- intros [H|[-> _]]; auto.
    + destruct (mem_path p (paths_of i)) eqn:M.
      * split; [auto|]. intros [H|[-> _]]; [exact H|apply mem_path_In; exact M].
      * unfold paths_of. rewrite map_app, in_app_iff. simpl. split.
        -- intros [H|[<-|[]]]; [auto|right; split; [reflexivity|eexists; split; reflexivity]].
        -- intros [H|[-> _]]; auto.
    + split; [auto|]. intros [H|[_ (n & [= <-] & Hd)]]; [exact H|discriminate].
  - split; [auto|]. intros [H|[_ (n & Hn & _)]]; [exact H|discriminate].
Qed.

Lemma add_file_git_incl t i p : incl i (add_file_git t i p).
Proof.
  unfold add_file_git. destruct (lookup p t) as [[| |]|]; try apply incl_refl;
    destruct (mem_path p (paths_of i)); try apply incl_refl; apply incl_appl, incl_refl.
Qed.

Lemma add_file_git_new t i p e : In e (add_file_git t i p) -> In e i \/ mem_path (fst e) (paths_of i) = false.
Proof.
  unfold add_file_git. destruct (lookup p t) as [[| |]|]; auto;
    destruct (mem_path p (paths_of i)) eqn:M; auto; rewrite in_app_iff;
    (intros [H|[<-|[]]]; [left; exact H|right; exact M]).
Qed.

Lemma fold_add_file_git_paths t named : forall i q,
  In q (paths_of (fold_left (add_file_git t) named i)) <->
  In q (paths_of i) \/ (In q named /\ is_nondir t q).
Proof.
  induction named as [|p r IH]; intros i q; simpl.
  - split; [auto|intros [H|[[] _]]; exact H].
  - rewrite IH, add_file_git_paths. split.
    + intros [[H|[-> H]]|[H1 H2]]; auto.
    + intros [H|[[<-|H1] H2]]; auto.
Qed.

Lemma fold_add_file_git_incl t named : forall i, incl i (fold_left (add_file_git t) named i).
Proof.
  induction named as [|p r IH]; intros i; simpl; [apply incl_refl|].
  eapply incl_tran; [apply add_file_git_incl|apply IH].
Qed.

Lemma mem_path_mono (i j : inv) q : incl i j -> mem_path q (paths_of i) = true -> mem_path q (paths_of j) = true.
Proof.
  intros Hs. rewrite !mem_path_In. unfold paths_of. rewrite !in_map_iff.
  intros (e & <- & H). exists e. auto.
Qed.

Lemma fold_add_file_git_new t named : forall i e,
  In e (fold_left (add_file_git t) named i) -> In e i \/ mem_path (fst e) (paths_of i) = false.
Proof.
  induction named as [|p r IH]; intros i e; simpl; [auto|].
  intros H. apply IH in H as [H|H].
  - apply add_file_git_new in H. exact H.
  - right. destruct (mem_path (fst e) (paths_of i)) eqn:E; [|reflexivity].
    rewrite (mem_path_mono i _ _ (add_file_git_incl t i p) E) in H. discriminate.
Qed.

(* ---- walks whose state is constant below the start ------------------- *)

Section ConstState.
  Context {S A : Type} (visit : S -> path -> node -> list A * option S) (s0 : S).
  Hypothesis Hconst : forall q n s', snd (visit s0 q n) = Some s' -> s' = s0.

  Lemma reach_const_state sfx : forall q n s' n',
    reach visit s0 q n sfx = Some (s', n') -> s' = s0.
  Proof.
    induction sfx as [|c r IH]; intros q n s' n'; simpl; [intros [= <- _]; reflexivity|].
    destruct (snd (visit s0 q n)) as [s1|] eqn:E; [|discriminate].
    apply Hconst in E. subst s1.
    destruct n as [| |cs]; try discriminate.
    destruct (find_child c cs); [apply IH|discriminate].
  Qed.

  (* the walk gets to q ++ sfx iff that path exists and every directory on the way is entered *)
  Lemma reach_const_iff sfx : forall q n n',
    reach visit s0 q n sfx = Some (s0, n') <->
    lookup sfx n = Some n' /\
    forall a b m, sfx = a ++ b -> b <> [] -> lookup a n = Some m -> snd (visit s0 (q ++ a) m) <> None.
  Proof.
    induction sfx as [|c r IH]; intros q n n'.
    - simpl. split.
      + intros [= ->]. split; [reflexivity|]. intros a b m E Hb. destruct a; destruct b; try discriminate. congruence.
      + intros [[= ->] _]. reflexivity.
    - cbn [reach lookup]. split.
      + intros H. destruct (snd (visit s0 q n)) as [s1|] eqn:E; [|discriminate].
        pose proof (Hconst _ _ _ E) as ->.
        destruct n as [| |cs]; try discriminate.
        destruct (find_child c cs) as [ch|] eqn:F; [|discriminate].
        apply IH in H as [H1 H2]. split; [assumption|].
        intros a b m Eab Hb Hl. destruct a as [|x a].
        * simpl in Hl. injection Hl as <-. rewrite app_nil_r. rewrite E. discriminate.
        * simpl in Eab. injection Eab as <- Eab. cbn [lookup] in Hl. rewrite F in Hl.
          specialize (H2 a b m Eab Hb Hl). rewrite <- app_assoc in H2. exact H2.
      + intros [H1 H2].
        destruct n as [| |cs]; try discriminate.
        destruct (find_child c cs) as [ch|] eqn:F; [|discriminate].
        assert (snd (visit s0 q (Dir cs)) <> None) as E.
        { specialize (H2 [] (c :: r) (Dir cs) eq_refl). rewrite app_nil_r in H2.
          apply H2; [discriminate|reflexivity]. }
        destruct (snd (visit s0 q (Dir cs))) as [s1|] eqn:E1; [|congruence].
        pose proof (Hconst _ _ _ E1) as ->.
        apply IH. split; [assumption|]. intros a b m Eab Hb Hl.
        rewrite <- app_assoc. apply (H2 (c :: a) b m); [simpl; congruence|assumption|].
        cbn [lookup]. rewrite F. exact Hl.
  Qed.
End ConstState.

(* ---- bzr: the recursive part ----------------------------------------- *)

Section Bzr.
  Variables (t : node) (vs1 : inv) (ign rel : list path).
  Let visit := bzr_add_visit vs1 ign rel.

  (* q = d ++ sfx is added by the walk that starts at the directory d *)
  Definition eligible_bzr (d q : path) : Prop :=
    exists sfx nd n',
      q = d ++ sfx /\ lookup d t = Some nd /\ lookup sfx nd = Some n' /\
      bzr_emits vs1 ign rel q n' = true /\
      forall a b m, sfx = a ++ b -> b <> [] -> lookup a nd = Some m ->
                    bzr_enters vs1 ign rel (d ++ a) m = true.

  Lemma bzr_visit_const q n s' : snd (visit tt q n) = Some s' -> s' = tt.
  Proof. destruct s'; reflexivity. Qed.

  Lemma bzr_walk_from_spec d e :
    wf_node t = true ->
    (In e (walk_from visit t d) <->
     eligible_bzr d (fst e) /\ kind_at (fst e) t = Some (snd e)).
  Proof.
    intros Hw. unfold walk_from. destruct (lookup d t) as [nd|] eqn:Hd.
    2:{ split; [intros []|]. intros [(sfx & nd & n' & _ & H & _) _]. congruence. }
    pose proof (wf_lookup d t nd Hw Hd) as Hwd.
    rewrite (walk_spec visit nd tt d e Hwd). split.
    - intros (sfx & [] & n' & Hr & Hv).
      apply (reach_const_iff visit tt bzr_visit_const) in Hr as [Hl He].
      unfold visit, bzr_add_visit in Hv. simpl in Hv.
      destruct (bzr_emits vs1 ign rel (d ++ sfx) n') eqn:Em; [|destruct Hv].
      destruct Hv as [<-|[]]. simpl. split.
      + exists sfx, nd, n'. repeat split; auto.
        intros a b m Eab Hb Hm. specialize (He a b m Eab Hb Hm).
        unfold visit, bzr_add_visit in He. simpl in He.
        destruct (bzr_enters vs1 ign rel (d ++ a) m); [reflexivity|congruence].
      + unfold kind_at. rewrite lookup_app, Hd, Hl. reflexivity.
    - intros [(sfx & nd' & n' & Eq & Hd' & Hl & Em & He) Hk].
      rewrite Hd in Hd'. injection Hd' as <-.
      exists sfx, tt, n'. split.
      + apply (reach_const_iff visit tt bzr_visit_const). split; [assumption|].
        intros a b m Eab Hb Hm. unfold visit, bzr_add_visit. simpl.
        rewrite (He a b m Eab Hb Hm). discriminate.
      + unfold visit, bzr_add_visit. simpl. rewrite <- Eq, Em. left.
        destruct e as [q k]. simpl in *. f_equal.
        unfold kind_at in Hk. rewrite Eq, lookup_app, Hd, Hl in Hk. simpl in Hk. congruence.
  Qed.
End Bzr.

(* ---- bzr: the whole ---------------------------------------------------- *)

Definition vs1_of (t : node) (vs : inv) (named : list path) : inv := fold_left (add_path t) named vs.

Theorem bzr_exact_set t vs ign confl named recurse after q :
  wf_node t = true ->
  smart_add_bzr t vs ign confl named recurse = Ok after ->
  q <> [] ->
  (In q (paths_of after) <->
   In q (paths_of vs) \/
   (exists p, In p named /\ is_prefix q p = true) \/
   (recurse = true /\
    exists d, In d (bzr_roots t vs named) /\
              eligible_bzr t (vs1_of t vs named) ign (related confl) d q)).
Proof.
  intros Hw H Hq. unfold smart_add_bzr in H.
  destruct (first_error_bzr t named); [discriminate|]. injection H as <-.
  fold (vs1_of t vs named). unfold paths_of at 1. rewrite map_app, in_app_iff.
  fold (paths_of (vs1_of t vs named)). unfold vs1_of at 1.
  rewrite (fold_add_path_paths t named vs q Hq). fold (vs1_of t vs named).
  destruct recurse.
  - rewrite in_map_iff. split.
    + intros [[H|H]|((q' & k) & <- & H)]; auto. right; right. split; [reflexivity|].
      apply in_flat_map in H as (d & Hd & H). exists d. split; [assumption|].
      apply bzr_walk_from_spec in H; [|assumption]. apply H.
    + intros [H|[H|(_ & d & Hd & He)]]; auto. right.
      assert (exists k, kind_at q t = Some k) as (k & Hk).
      { destruct He as (sfx & nd & n' & -> & H1 & H2 & _). unfold kind_at.
        rewrite lookup_app, H1, H2. simpl. eauto. }
      exists (q, k). split; [reflexivity|]. apply in_flat_map. exists d. split; [assumption|].
      apply bzr_walk_from_spec; auto.
  - simpl. split; [intros [[H|H]|[]]; auto|].
    intros [H|[H|(H & _)]]; auto. discriminate.
Qed.

Theorem bzr_existing_untouched t vs ign confl named recurse after :
  wf_node t = true ->
  smart_add_bzr t vs ign confl named recurse = Ok after ->
  incl vs after /\
  forall e, In e after -> In (fst e) (paths_of vs) -> In e vs.
Proof.
  intros Hw H. unfold smart_add_bzr in H.
  destruct (first_error_bzr t named); [discriminate|]. injection H as <-.
  fold (vs1_of t vs named). split.
  - apply incl_appl. apply fold_add_path_incl.
  - intros e He Hv. apply in_app_or in He as [He|He].
    + apply fold_add_path_new in He as [He|He]; [assumption|exfalso].
      destruct e as [[|c q] k]; simpl in *; [discriminate|].
      apply mem_path_In in Hv. unfold is_versioned in He. congruence.
    + exfalso. destruct recurse; [|destruct He].
      apply in_flat_map in He as (d & _ & He).
      apply bzr_walk_from_spec in He as [(sfx & nd & n' & _ & _ & _ & Em & _) _]; [|assumption].
      unfold bzr_emits in Em. apply andb_true_iff in Em as [Em _]. apply andb_true_iff in Em as [_ Em].
      apply negb_true_iff in Em.
      assert (is_versioned (vs1_of t vs named) (fst e) = true) as X; [|congruence].
      apply (is_versioned_mono vs); [apply fold_add_path_incl|].
      destruct (fst e); [reflexivity|]. unfold is_versioned. apply mem_path_In. assumption.
Qed.

Theorem bzr_fails_iff t vs ign confl named recurse :
  (exists e, smart_add_bzr t vs ign confl named recurse = Fail e) <->
  exists p, In p named /\ (root_control n_bzr p = true \/ lookup p t = None).
Proof.
  unfold smart_add_bzr. split.
  - intros (e & H). destruct (first_error_bzr t named) as [e'|] eqn:E; [|discriminate]. clear H.
    induction named as [|p r IH]; [discriminate|]. simpl in E.
    destruct (root_control n_bzr p) eqn:C; [exists p; split; [left; reflexivity|auto]|].
    destruct (lookup p t) eqn:L; [|exists p; split; [left; reflexivity|auto]].
    destruct (IH E) as (p' & H1 & H2). exists p'. split; [right; assumption|assumption].
  - intros (p & Hin & Hp).
    assert (first_error_bzr t named <> None) as E.
    { induction named as [|p' r IH]; [destruct Hin|]. simpl.
      destruct (root_control n_bzr p') eqn:C; [discriminate|].
      destruct (lookup p' t) eqn:L; [|discriminate].
      destruct Hin as [->|Hin]; [destruct Hp; congruence|auto]. }
    destruct (first_error_bzr t named) as [e|]; [eauto|congruence].
Qed.

(* ---- which directories are walked (bzr) ------------------------------ *)

Lemma insert_by_In {A} (key : A -> bytes) x y l : In y (insert_by key x l) <-> y = x \/ In y l.
Proof.
  induction l as [|z r IH]; simpl; [intuition|].
  destruct (bytes_ltb (key z) (key x)); simpl; rewrite ?IH; intuition.
Qed.

Lemma sort_by_In {A} (key : A -> bytes) y l : In y (sort_by key l) <-> In y l.
Proof.
  induction l as [|x r IH]; simpl; [reflexivity|]. rewrite insert_by_In, IH. intuition.
Qed.

Lemma dedupe_adj_In l : forall y, In y (dedupe_adj l) <-> In y l.
Proof.
  induction l as [|x r IH]; intros y; [reflexivity|].
  destruct r as [|z r']; [reflexivity|].
  change (dedupe_adj (x :: z :: r')) with (if path_eqb x z then dedupe_adj (z :: r') else x :: dedupe_adj (z :: r')).
  destruct (path_eqb x z) eqn:E.
  - apply path_eqb_eq in E. subst z. rewrite IH. simpl. intuition.
  - simpl In at 1. rewrite IH. simpl. intuition.
Qed.

Lemma gather_sub l : forall prev y, In y (gather prev l) -> In y l.
Proof.
  induction l as [|p r IH]; intros prev y; simpl; [auto|].
  rewrite in_app_iff. intros [H|H]; [|right; eapply IH; exact H].
  destruct (match prev with None => true | Some d => negb (is_prefix d p || is_prefix p d) end);
    [destruct H as [<-|[]]; left; reflexivity|destruct H].
Qed.

Definition antichain (l : list path) : Prop :=
  forall x y, In x l -> In y l -> x <> y -> is_prefix x y = false.

Lemma gather_all l : forall prev,
  (forall x y, In x l -> (In y l \/ prev = Some y) -> x <> y -> is_prefix x y = false /\ is_prefix y x = false) ->
  forall x, In x l -> In x (gather prev l) \/ prev = Some x.
Proof.
  induction l as [|p r IH]; intros prev H x Hx; [destruct Hx|].
  assert (In p (gather prev (p :: r)) \/ prev = Some p) as Hp.
  { simpl. destruct prev as [d|]; [|left; apply in_or_app; left; left; reflexivity].
    destruct (path_eq_dec p d) as [->|Hne]; [right; reflexivity|left].
    destruct (H p d (or_introl eq_refl) (or_intror eq_refl) Hne) as [H1 H2].
    rewrite H1, H2. simpl. left; reflexivity. }
  destruct Hx as [<-|Hx]; [exact Hp|].
  destruct (IH (Some p)) with (x := x) as [H1|H1]; auto.
  - intros a b Ha Hb Hne. apply H; [right; assumption| |assumption].
    destruct Hb as [Hb|Hb]; [left; right; assumption|injection Hb as <-; left; left; reflexivity].
  - left. simpl. apply in_or_app. right. exact H1.
  - injection H1 as <-. exact Hp.
Qed.

Theorem walked_roots_sub t named d : In d (walked_roots t named) -> In d (named_dirs t named).
Proof.
  unfold walked_roots. intros H. apply gather_sub in H.
  apply (proj1 (dedupe_adj_In _ _)) in H. apply (proj1 (sort_by_In _ _ _)) in H. exact H.
Qed.

Theorem walked_roots_all t named d :
  antichain (named_dirs t named) -> In d (named_dirs t named) -> In d (walked_roots t named).
Proof.
  intros Ha Hd. unfold walked_roots.
  set (l := dedupe_adj (sort_by pstr (named_dirs t named))).
  assert (forall y, In y l <-> In y (named_dirs t named)) as Hl.
  { intros y. unfold l. rewrite dedupe_adj_In, sort_by_In. reflexivity. }
  destruct (gather_all l None) with (x := d) as [H|H]; [|apply Hl; assumption|assumption|discriminate].
  intros x y Hx [Hy|Hy] Hne; [|discriminate].
  apply Hl in Hx, Hy. split; apply Ha; auto.
Qed.

Lemma treeref_marks_sound t vs0 named : forall i conv e,
  In e (treeref_marks t vs0 i conv named) -> snd e = true -> tree_ref_root t vs0 (fst e) = true.
Proof.
  induction named as [|p r IH]; intros i conv e; simpl; [intros []|].
  rewrite in_app_iff. intros [H|[<-|[]]] Hb; [eapply IH; eassumption|].
  simpl in *. apply andb_true_iff in Hb. tauto.
Qed.

Lemma treeref_blocked_sound t vs named d :
  treeref_blocked t vs named d = true -> tree_ref_root t vs d = true.
Proof.
  unfold treeref_blocked.
  destruct (find (fun e => path_eqb d (fst e)) (treeref_marks t vs vs [] named)) as [e|] eqn:F; [|discriminate].
  apply find_some in F as [Hin He]. apply path_eqb_eq in He. subst d.
  intros Hb. eapply treeref_marks_sound; eassumption.
Qed.

(* ---- git: the recursive part ----------------------------------------- *)

Section Git.
  Variables (t : node) (ix1 : inv) (ign rel : list path).
  Let visit := git_add_visit ix1 ign rel.

  (* q = d ++ c :: r is added by the walk that starts at the named directory d *)
  Definition eligible_git (d q : path) : Prop :=
    exists nd c ch r n',
      q = d ++ c :: r /\ lookup d t = Some nd /\ git_enters ign true d nd = true /\
      find_child c (kids nd) = Some ch /\ lookup r ch = Some n' /\
      git_emits ix1 ign rel false q n' = true /\
      forall a b m, r = a ++ b -> b <> [] -> lookup a ch = Some m ->
                    git_enters ign false ((d ++ [c]) ++ a) m = true.

  Lemma git_visit_const q n s' : snd (visit false q n) = Some s' -> s' = false.
  Proof.
    unfold visit, git_add_visit. simpl. destruct (git_enters ign false q n); congruence.
  Qed.

  Lemma git_walk_from_spec d e :
    wf_node t = true ->
    (In e (walk_from_git visit t d) <->
     eligible_git d (fst e) /\ kind_at (fst e) t = Some (snd e)).
  Proof.
    intros Hw. unfold walk_from_git. destruct (lookup d t) as [nd|] eqn:Hd.
    2:{ split; [intros []|]. intros [(nd & c & ch & r & n' & _ & H & _) _]. congruence. }
    pose proof (wf_lookup d t nd Hw Hd) as Hwd.
    rewrite (walk_spec visit nd true d e Hwd). split.
    - intros (sfx & s' & n' & Hr & Hv).
      destruct sfx as [|c r].
      { simpl in Hr. injection Hr as <- <-. unfold visit, git_add_visit in Hv. simpl in Hv.
        unfold git_emits in Hv. simpl in Hv. destruct Hv. }
      cbn [reach] in Hr. unfold visit at 1, git_add_visit in Hr. simpl in Hr.
      destruct (git_enters ign true d nd) eqn:Et; [|discriminate].
      destruct nd as [| |cs]; try discriminate.
      destruct (find_child c cs) as [ch|] eqn:F; [|discriminate].
      pose proof (reach_const_state visit false git_visit_const _ _ _ _ _ Hr) as ->.
      apply (reach_const_iff visit false git_visit_const) in Hr as [Hl He].
      unfold visit, git_add_visit in Hv. simpl in Hv.
      destruct (git_emits ix1 ign rel false (d ++ c :: r) n') eqn:Em; [|destruct Hv].
      destruct Hv as [<-|[]]. simpl. split.
      + exists (Dir cs), c, ch, r, n'. repeat split; auto.
        intros a b m Eab Hb Hm. specialize (He a b m Eab Hb Hm).
        unfold visit, git_add_visit in He. simpl in He.
        destruct (git_enters ign false ((d ++ [c]) ++ a) m); [reflexivity|congruence].
      + unfold kind_at. rewrite lookup_app, Hd. cbn [lookup]. rewrite F, Hl. reflexivity.
    - intros [(nd' & c & ch & r & n' & Eq & Hd' & Et & F & Hl & Em & He) Hk].
      rewrite Hd in Hd'. injection Hd' as <-.
      exists (c :: r), false, n'. split.
      + cbn [reach]. unfold visit at 1, git_add_visit. simpl. rewrite Et.
        destruct nd as [| |cs]; try discriminate. simpl in F. rewrite F.
        apply (reach_const_iff visit false git_visit_const). split; [assumption|].
        intros a b m Eab Hb Hm. unfold visit, git_add_visit. simpl.
        rewrite (He a b m Eab Hb Hm). discriminate.
      + unfold visit, git_add_visit. simpl. rewrite <- Eq, Em. left.
        destruct e as [q k]. simpl in *. f_equal.
        unfold kind_at in Hk. rewrite Eq, lookup_app, Hd in Hk.
        destruct nd as [| |cs]; try discriminate. simpl in F. cbn [lookup] in Hk.
        rewrite F, Hl in Hk. simpl in Hk. congruence.
  Qed.
End Git.

Definition ix1_of (t : node) (ix : inv) (named : list path) : inv := fold_left (add_file_git t) named ix.

Theorem git_exact_set t ix ign confl named recurse after q :
  wf_node t = true ->
  smart_add_git t ix ign confl named recurse = Ok after ->
  (In q (paths_of after) <->
   In q (paths_of ix) \/
   (In q named /\ is_nondir t q) \/
   (recurse = true /\
    exists d, In d (named_dirs t named) /\
              eligible_git t (ix1_of t ix named) ign (related confl) d q)).
Proof.
  intros Hw H. unfold smart_add_git in H.
  destruct (first_error_git t named); [discriminate|]. injection H as <-.
  fold (ix1_of t ix named). unfold paths_of at 1. rewrite map_app, in_app_iff.
  fold (paths_of (ix1_of t ix named)). unfold ix1_of at 1.
  rewrite (fold_add_file_git_paths t named ix q). fold (ix1_of t ix named).
  destruct recurse.
  - rewrite in_map_iff. split.
    + intros [[H|H]|((q' & k) & <- & H)]; auto. right; right. split; [reflexivity|].
      apply in_flat_map in H as (d & Hd & H). exists d. split; [assumption|].
      apply git_walk_from_spec in H; [|assumption]. apply H.
    + intros [H|[H|(_ & d & Hd & He)]]; auto. right.
      assert (exists k, kind_at q t = Some k) as (k & Hk).
      { destruct He as (nd & c & ch & r & n' & -> & H1 & _ & F & H2 & _). unfold kind_at.
        rewrite lookup_app, H1. destruct nd as [| |cs]; try discriminate. simpl in F.
        cbn [lookup]. rewrite F, H2. simpl. eauto. }
      exists (q, k). split; [reflexivity|]. apply in_flat_map. exists d. split; [assumption|].
      apply git_walk_from_spec; auto.
  - simpl. split; [intros [[H|H]|[]]; auto|].
    intros [H|[H|(H & _)]]; auto. discriminate.
Qed.

Theorem git_existing_untouched t ix ign confl named recurse after :
  wf_node t = true ->
  smart_add_git t ix ign confl named recurse = Ok after ->
  incl ix after /\
  forall e, In e after -> In (fst e) (paths_of ix) -> In e ix.
Proof.
  intros Hw H. unfold smart_add_git in H.
  destruct (first_error_git t named); [discriminate|]. injection H as <-.
  fold (ix1_of t ix named). split.
  - apply incl_appl. apply fold_add_file_git_incl.
  - intros e He Hv. apply in_app_or in He as [He|He].
    + apply fold_add_file_git_new in He as [He|He]; [assumption|exfalso].
      apply mem_path_In in Hv. congruence.
    + exfalso. destruct recurse; [|destruct He].
      apply in_flat_map in He as (d & _ & He).
      apply git_walk_from_spec in He as [(nd & c & ch & r & n' & _ & _ & _ & _ & _ & Em & _) _]; [|assumption].
      unfold git_emits in Em. apply andb_true_iff in Em as [Em _]. apply andb_true_iff in Em as [_ Em].
      apply negb_true_iff in Em.
      assert (mem_path (fst e) (paths_of (ix1_of t ix named)) = true) as X; [|congruence].
      apply (mem_path_mono ix); [apply fold_add_file_git_incl|]. apply mem_path_In. assumption.
Qed.

(* ---- refutation: naming one more directory versions fewer files ------- *)

Definition nm' (l : list N) : name := l.
(* a/.bzr/branch-format (a nested tree), a/b/x *)
Definition shadow_tree : node :=
  Dir [(n_bzr, Dir []);
       (nm' [97], Dir [(n_bzr, Dir [(n_branch_format, File)]);
                      (nm' [98], Dir [(nm' [120], File)])])]%N.
Definition p_a : path := [nm' [97]]%N.
Definition p_ab : path := [nm' [97]; nm' [98]]%N.
Definition p_abx : path := [nm' [97]; nm' [98]; nm' [120]]%N.

Lemma shadow_refuted :
  wf_node shadow_tree = true /\
  (exists after, smart_add_bzr shadow_tree [] [] [] [p_ab] true = Ok after /\ In p_abx (paths_of after)) /\
  (exists after, smart_add_bzr shadow_tree [] [] [] [p_a; p_ab] true = Ok after /\
                 ~ In p_abx (paths_of after) /\ In p_ab (named_dirs shadow_tree [p_a; p_ab])).
Proof.
  split; [reflexivity|]. split.
  - eexists. split; [vm_compute; reflexivity|]. vm_compute. tauto.
  - eexists. split; [vm_compute; reflexivity|]. split; [|vm_compute; tauto].
    vm_compute. intros [H|[H|[]]]; discriminate.
Qed.
