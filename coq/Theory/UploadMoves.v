(* Theory/UploadMoves.v -- C43, part 1: sequential renames realise a
   SIMULTANEOUS move of sub-trees (the crux of rename staging), and the
   deferred rmdirs succeed.  Pure file-system level: any remote, any lists. *)
From Coq Require Import NArith List Bool Arith Lia.
From BV Require Import Lib.Bytes Lib.FS43.
Import ListNotations.
Open Scope list_scope.

(* a move: source, target, optional content written to the source first
   (upload_file(old_path) before rename_remote) *)
Record mv := mkmv { m_a : path; m_b : path; m_put : option (bytes * bool) }.

Definition exec_mv (m : mv) (f : fs) : res fs :=
  match (match m_put m with
         | Some (c, x) => t_put (m_a m) c x f
         | None => Ok f
         end) with
  | Ok f1 => t_rename (m_a m) (m_b m) f1
  | Er e => Er e
  end.

Fixpoint moves (ml : list mv) (f : fs) : fs * option err :=
  match ml with
  | [] => (f, None)
  | m :: ml' => match exec_mv m f with
                | Ok f' => moves ml' f'
                | Er e => (f, Some e)
                end
  end.

(* what ends up at  target ++ s *)
Definition src (h : path -> option node) (m : mv) (s : path) : option node :=
  match s, m_put m with
  | [], Some (c, x) => Some (File c x)
  | _, _ => h (m_a m ++ s)
  end.

Fixpoint find_tgt (ml : list mv) (p : path) : option (mv * path) :=
  match ml with
  | [] => None
  | m :: ml' => match under (m_b m) p with
                | Some s => Some (m, s)
                | None => find_tgt ml' p
                end
  end.

Definition ex_src (ml : list mv) (p : path) : bool :=
  existsb (fun m => prefixb (m_a m) p) ml.

(* the simultaneous move, as a closed form on lookup functions *)
Definition moved (ml : list mv) (h : path -> option node) (p : path) : option node :=
  match find_tgt ml p with
  | Some (m, s) => src h m s
  | None => if ex_src ml p then None else h p
  end.

(* x is prefix-incomparable with every element of l *)
Definition incomp (x y : path) : Prop := prefixb x y = false /\ prefixb y x = false.
Fixpoint anti (l : list path) : Prop :=
  match l with
  | [] => True
  | x :: l' => (forall y, In y l' -> incomp x y) /\ anti l'
  end.

Record moves_pre (ml : list mv) (f : fs) : Prop := {
  mp_src : forall m, In m ml -> exists nd, look f (m_a m) = Some nd /\
              (m_put m <> None -> nd <> Dir /\ parent_ok f (m_a m) = true);
  mp_anti_a : anti (map m_a ml);
  mp_anti_b : anti (map m_b ml);
  mp_ab : forall m m', In m ml -> In m' ml -> incomp (m_a m) (m_b m');
  mp_free : forall m s, In m ml -> look f (m_b m ++ s) = None;
  mp_par : forall m, In m ml -> parent_ok f (m_b m) = true /\
              forall m', In m' ml -> prefixb (m_a m') (parent (m_b m)) = false
}.

Lemma prefixb_trans a b c : prefixb a b = true -> prefixb b c = true -> prefixb a c = true.
Proof.
  intros H1 H2. apply prefixb_true in H1 as (s & ->). apply prefixb_true in H2 as (t & ->).
  rewrite <- app_assoc. apply prefixb_app.
Qed.

(* if a is a prefix of b ++ s then a and b are comparable *)
Lemma prefix_of_app_comparable a b s :
  prefixb a (b ++ s) = true -> prefixb a b = true \/ prefixb b a = true.
Proof.
  intros H. apply prefixb_true in H as (t & E). symmetry in E.
  destruct (prefix_comparable _ _ _ _ E) as [(u & ->)|(u & ->)].
  - right. apply prefixb_app.
  - left. apply prefixb_app.
Qed.

Lemma incomp_not_under a b s : incomp a b -> prefixb a (b ++ s) = false.
Proof.
  intros [H1 H2]. destruct (prefixb a (b ++ s)) eqn:E; [|reflexivity].
  apply prefix_of_app_comparable in E as [E|E]; congruence.
Qed.

Lemma under_prefixb_false a p : prefixb a p = false -> under a p = None.
Proof. unfold prefixb. destruct (under a p); simpl; congruence. Qed.

Lemma parent_prefix (b : path) : exists t, b = parent b ++ t.
Proof.
  destruct (path_snoc_cases b) as [->|(q & x & ->)].
  - exists []. reflexivity.
  - rewrite parent_snoc. eauto.
Qed.

(* a prefix of the parent is a prefix of the path *)
Lemma prefix_parent_prefix a b : prefixb a (parent b) = true -> prefixb a b = true.
Proof.
  intros H. destruct (parent_prefix b) as (t & E). rewrite E.
  eapply prefixb_trans; [exact H|apply prefixb_app].
Qed.

Lemma parent_ok_ext f g p :
  (parent p <> [] -> look f (parent p) = look g (parent p)) ->
  parent_ok f p = parent_ok g p.
Proof.
  unfold parent_ok. destruct (parent p); [reflexivity|]. intros H. rewrite H; [reflexivity|discriminate].
Qed.

Lemma find_tgt_None_anti ml b s :
  (forall m, In m ml -> incomp b (m_b m)) -> find_tgt ml (b ++ s) = None.
Proof.
  induction ml as [|m ml IH]; intros H; simpl; [reflexivity|].
  rewrite under_prefixb_false.
  - apply IH. intros m' I. apply H. right; exact I.
  - apply incomp_not_under. destruct (H m (or_introl eq_refl)) as [A B]. split; assumption.
Qed.

Lemma ex_src_false_intro ml p :
  (forall m, In m ml -> prefixb (m_a m) p = false) -> ex_src ml p = false.
Proof.
  intros H. unfold ex_src. destruct (existsb _ ml) eqn:E; [|reflexivity].
  apply existsb_exists in E as (m & I & P). rewrite (H m I) in P. discriminate.
Qed.

Lemma ex_src_false ml p m : ex_src ml p = false -> In m ml -> prefixb (m_a m) p = false.
Proof.
  intros H I. unfold ex_src in H.
  destruct (prefixb (m_a m) p) eqn:E; [|reflexivity].
  assert (existsb (fun m => prefixb (m_a m) p) ml = true) as C
    by (apply existsb_exists; eauto). congruence.
Qed.

Lemma find_tgt_In ml p m s : find_tgt ml p = Some (m, s) -> In m ml /\ p = m_b m ++ s.
Proof.
  induction ml as [|m0 ml IH]; simpl; [discriminate|].
  destruct (under (m_b m0) p) as [s0|] eqn:E.
  - intros H; inversion H; subst. apply under_Some in E. auto.
  - intros H. destruct (IH H). auto.
Qed.

(* one move *)
Lemma exec_mv_ok m f :
  dom_ok f ->
  (exists nd, look f (m_a m) = Some nd /\
              (m_put m <> None -> nd <> Dir /\ parent_ok f (m_a m) = true)) ->
  incomp (m_a m) (m_b m) ->
  look f (m_b m) = None ->
  parent_ok f (m_b m) = true ->
  prefixb (m_a m) (parent (m_b m)) = false ->
  exists f', exec_mv m f = Ok f' /\ dom_ok f' /\
             forall p, look f' p = moved [m] (look f) p.
Proof.
  intros D (nd & La & Hput) [Iab Iba] Lb Pb Ppar.
  assert (m_a m <> m_b m) as NE.
  { intros E. rewrite E in Iab. rewrite prefixb_refl in Iab. discriminate. }
  unfold exec_mv.
  (* the optional put *)
  assert (exists f1, (match m_put m with Some (c, x) => t_put (m_a m) c x f | None => Ok f end) = Ok f1
                     /\ dom_ok f1
                     /\ (forall q, look f1 q = if path_eqb q (m_a m)
                                               then src (look f) m [] else look f q)) as (f1 & E1 & D1 & L1).
  { destruct (m_put m) as [[c x]|] eqn:Ep.
    - destruct Hput as [ND PO]; [discriminate|].
      unfold t_put. rewrite PO. simpl. rewrite La.
      exists (fs_set (m_a m) (File c x) f). split; [destruct nd; congruence|].
      split; [apply dom_ok_set; exact D|].
      intros q. rewrite look_set. unfold src. rewrite Ep. reflexivity.
    - exists f. split; [reflexivity|]. split; [exact D|].
      intros q. unfold src. rewrite Ep, app_nil_r.
      destruct (path_eqb_spec q (m_a m)) as [->|]; reflexivity. }
  rewrite E1.
  assert (look f1 (m_a m) <> None) as La1.
  { rewrite L1, path_eqb_refl. unfold src. destruct (m_put m) as [[c x]|]; [discriminate|].
    rewrite app_nil_r, La. discriminate. }
  assert (look f1 (m_b m) = None) as Lb1.
  { rewrite L1, path_eqb_neq by congruence. exact Lb. }
  assert (parent_ok f1 (m_b m) = true) as Pb1.
  { rewrite <- Pb. apply parent_ok_ext. intros _.
    rewrite L1. rewrite path_eqb_neq; [reflexivity|].
    intros E. rewrite E, prefixb_refl in Ppar. discriminate. }
  unfold t_rename. destruct (look f1 (m_a m)) as [na|] eqn:Lna; [|congruence].
  rewrite (path_eqb_neq _ _ NE), Pb1, Iab, Lb1. simpl.
  exists (fs_move (m_a m) (m_b m) f1).
  split; [destruct na; reflexivity|]. split; [apply dom_ok_move; exact D1|].
  intros p. rewrite look_move. unfold moved. simpl.
  destruct (under (m_b m) p) as [s|] eqn:Eu.
  - rewrite L1. destruct s as [|y s].
    + rewrite app_nil_r, path_eqb_refl. reflexivity.
    + rewrite path_eqb_neq.
      * unfold src. destruct (m_put m) as [[c x]|]; reflexivity.
      * intros E. rewrite <- (app_nil_r (m_a m)) in E at 2. apply app_inv_head in E. discriminate.
  - unfold ex_src. simpl. rewrite orb_false_r.
    destruct (prefixb (m_a m) p) eqn:Ea; [reflexivity|].
    rewrite L1. rewrite path_eqb_neq; [reflexivity|].
    intros ->. rewrite prefixb_refl in Ea. discriminate.
Qed.

Lemma moved_cons m ml h p :
  (forall m', In m' ml -> incomp (m_b m) (m_b m')) ->
  (forall m', In m' ml -> incomp (m_a m') (m_b m)) ->
  (forall m', In m' ml -> incomp (m_a m) (m_a m')) ->
  (forall m', In m' ml -> incomp (m_a m') (m_b m') /\ incomp (m_a m) (m_b m')) ->
  (forall m', In m' ml -> incomp (m_b m) (m_a m')) ->
  moved ml (moved [m] h) p = moved (m :: ml) h p.
Proof.
  intros Hbb Hab Haa Hab' Hba.
  unfold moved at 1 3. simpl find_tgt.
  destruct (under (m_b m) p) as [s|] eqn:Eu.
  - (* p below the first target *)
    apply under_Some in Eu. subst p.
    rewrite find_tgt_None_anti by (intros m' I; apply Hbb; exact I).
    rewrite ex_src_false_intro.
    + unfold moved. simpl. rewrite under_app. reflexivity.
    + intros m' I. apply incomp_not_under. apply Hab; exact I.
  - destruct (find_tgt ml p) as [[m' s]|] eqn:Ef.
    + apply find_tgt_In in Ef as [I ->].
      unfold src. destruct s as [|y s], (m_put m') as [[c x]|]; try reflexivity.
      all: unfold moved; simpl.
      all: rewrite under_prefixb_false
        by (apply incomp_not_under; destruct (Hba m' I); split; assumption).
      all: unfold ex_src; simpl; rewrite orb_false_r.
      all: rewrite incomp_not_under by (apply Haa; exact I); reflexivity.
    + unfold ex_src at 2. simpl. fold (ex_src ml p).
      destruct (ex_src ml p) eqn:Ex; [rewrite orb_true_r; reflexivity|].
      rewrite orb_false_r. unfold moved. simpl. rewrite Eu.
      unfold ex_src. simpl. rewrite orb_false_r. reflexivity.
Qed.

Lemma anti_In l x y : anti (x :: l) -> In y l -> incomp x y.
Proof. intros [H _] I. apply H; exact I. Qed.

(* THE CRUX: executing the moves one after the other realises the
   simultaneous move [moved]. *)
Theorem moves_simultaneous ml : forall f,
  dom_ok f -> moves_pre ml f ->
  exists f', moves ml f = (f', None) /\ dom_ok f' /\
             forall p, look f' p = moved ml (look f) p.
Proof.
  induction ml as [|m ml IH]; intros f D P.
  - exists f. split; [reflexivity|]. split; [exact D|]. intros p. reflexivity.
  - destruct P as [Psrc Pa Pb Pab Pfree Ppar].
    assert (In m (m :: ml)) as Im by (left; reflexivity).
    destruct (exec_mv_ok m f D (Psrc m Im) (Pab m m Im Im)) as (f1 & E1 & D1 & L1).
    { rewrite <- (app_nil_r (m_b m)). apply Pfree; exact Im. }
    { apply Ppar; exact Im. }
    { apply Ppar; [exact Im|exact Im]. }
    simpl in Pa, Pb. destruct Pa as [Pa1 Pa2], Pb as [Pb1 Pb2].
    assert (forall m', In m' ml -> incomp (m_a m) (m_a m')) as Haa
      by (intros m' I; apply Pa1; apply in_map; exact I).
    assert (forall m', In m' ml -> incomp (m_b m) (m_b m')) as Hbb
      by (intros m' I; apply Pb1; apply in_map; exact I).
    (* looks of f1 at paths that are not involved in the first move *)
    assert (forall q, prefixb (m_a m) q = false -> prefixb (m_b m) q = false ->
                      look f1 q = look f q) as Same.
    { intros q Ha Hb. rewrite L1. unfold moved. simpl.
      rewrite (under_prefixb_false _ _ Hb). unfold ex_src. simpl. rewrite Ha. reflexivity. }
    assert (moves_pre ml f1) as P1.
    { constructor.
      - intros m' I. destruct (Psrc m' (or_intror I)) as (nd & La & Hp).
        exists nd. split.
        + rewrite Same; [exact La| |].
          * apply (Haa m' I).
          * destruct (Pab m' m (or_intror I) Im) as [A B]. exact B.
        + intros NP. destruct (Hp NP) as [ND PO]. split; [exact ND|].
          rewrite <- PO. apply parent_ok_ext. intros _.
          apply Same.
          * destruct (prefixb (m_a m) (parent (m_a m'))) eqn:E; [|reflexivity].
            apply prefix_parent_prefix in E. destruct (Haa m' I). congruence.
          * destruct (prefixb (m_b m) (parent (m_a m'))) eqn:E; [|reflexivity].
            apply prefix_parent_prefix in E.
            destruct (Pab m' m (or_intror I) Im). congruence.
      - exact Pa2.
      - exact Pb2.
      - intros m1 m2 I1 I2. apply Pab; right; assumption.
      - intros m' s I. rewrite Same.
        + apply Pfree; right; exact I.
        + apply incomp_not_under. apply Pab; [exact Im|right; exact I].
        + apply incomp_not_under. apply Hbb; exact I.
      - intros m' I. destruct (Ppar m' (or_intror I)) as [PO NU]. split.
        + rewrite <- PO. apply parent_ok_ext. intros _.
          apply Same.
          * apply NU; exact Im.
          * destruct (prefixb (m_b m) (parent (m_b m'))) eqn:E; [|reflexivity].
            apply prefix_parent_prefix in E. destruct (Hbb m' I). congruence.
        + intros m2 I2. apply NU; right; exact I2. }
    destruct (IH f1 D1 P1) as (f' & E' & D' & L').
    exists f'. split; [simpl; rewrite E1; exact E'|]. split; [exact D'|].
    intros p. rewrite L'.
    assert (forall h1 h2, (forall q, h1 q = h2 q) -> forall q, moved ml h1 q = moved ml h2 q) as Ext.
    { intros h1 h2 Hh q. unfold moved. destruct (find_tgt ml q) as [[m' s]|].
      - unfold src. destruct s, (m_put m') as [[c x]|]; auto.
      - destruct (ex_src ml q); auto. }
    rewrite (Ext _ _ L1).
    apply moved_cons.
    + exact Hbb.
    + intros m' I. apply Pab; [right; exact I|exact Im].
    + exact Haa.
    + intros m' I. split; apply Pab; try (right; exact I); exact Im.
    + intros m' I. destruct (Pab m' m (or_intror I) Im) as [A B]. split; assumption.
Qed.

(* ---------- deferred deletions ---------- *)
Fixpoint rmdirs' (l : list path) (f : fs) : fs * option err :=
  match l with
  | [] => (f, None)
  | p :: l' => match t_rmdir p f with
               | Ok f' => rmdirs' l' f'
               | Er e => (f, Some e)
               end
  end.

(* every directory of l exists and everything below it is either absent or
   an EARLIER element of l (children are removed before their parents) *)
Theorem rmdirs_ok l : forall f,
  dom_ok f -> NoDup l ->
  (forall d, In d l -> look f d = Some Dir) ->
  (forall l1 d l2, l = l1 ++ d :: l2 ->
     forall x s, look f (d ++ x :: s) = None \/ In (d ++ x :: s) l1) ->
  exists f', rmdirs' l f = (f', None) /\ dom_ok f' /\
             forall p, look f' p = if existsb (path_eqb p) l then None else look f p.
Proof.
  induction l as [|d l IH]; intros f D ND HD HC.
  - exists f. split; [reflexivity|]. split; [exact D|]. reflexivity.
  - simpl. unfold t_rmdir. rewrite (HD d (or_introl eq_refl)).
    rewrite has_child_false_intro.
    2:{ intros x s. destruct (HC [] d l eq_refl x s) as [H|[]]. exact H. }
    inversion ND as [|? ? NI ND']; subst.
    destruct (IH (fs_del d f)) as (f' & E & D' & L').
    + apply dom_ok_del; exact D.
    + exact ND'.
    + intros d' I. rewrite look_del. rewrite path_eqb_neq; [apply HD; right; exact I|].
      intros ->. contradiction.
    + intros l1 d' l2 El x s. rewrite look_del.
      destruct (path_eqb_spec (d' ++ x :: s) d) as [_|NE]; [left; reflexivity|].
      destruct (HC (d :: l1) d' l2) with (x := x) (s := s) as [H|[H|H]].
      * rewrite El. reflexivity.
      * left; exact H.
      * congruence.
      * right; exact H.
    + exists f'. split; [exact E|]. split; [exact D'|].
      intros p. rewrite L'. rewrite look_del.
      destruct (path_eqb_spec p d) as [->|NE]; simpl.
      * destruct (existsb (path_eqb d) l); reflexivity.
      * reflexivity.
Qed.

Lemma moved_ext ml h1 h2 : (forall q, h1 q = h2 q) -> forall q, moved ml h1 q = moved ml h2 q.
Proof.
  intros Hh q. unfold moved. destruct (find_tgt ml q) as [[m' s]|].
  - unfold src. destruct s, (m_put m') as [[c x]|]; auto.
  - destruct (ex_src ml q); auto.
Qed.

(* ---------- moves interleaved with deletions of leaves ---------- *)
(* (the repaired rename loop removes a renamed entry whose kind or symlink
   target changed at its old path, between the staging renames) *)
Lemma incomp_sym a b : incomp a b -> incomp b a.
Proof. intros [A B]. split; assumption. Qed.

Lemma moves_pre_step m ml f f1 :
  moves_pre (m :: ml) f -> (forall q, look f1 q = moved [m] (look f) q) -> moves_pre ml f1.
Proof.
  intros [Psrc Pa Pb Pab Pfree Ppar] L1.
  assert (In m (m :: ml)) as Im by (left; reflexivity).
  simpl in Pa, Pb. destruct Pa as [Pa1 Pa2], Pb as [Pb1 Pb2].
  assert (forall m', In m' ml -> incomp (m_a m) (m_a m')) as Haa
    by (intros m' I; apply Pa1; apply in_map; exact I).
  assert (forall m', In m' ml -> incomp (m_b m) (m_b m')) as Hbb
    by (intros m' I; apply Pb1; apply in_map; exact I).
  assert (forall q, prefixb (m_a m) q = false -> prefixb (m_b m) q = false ->
                    look f1 q = look f q) as Same.
  { intros q Ha Hb. rewrite L1. unfold moved. simpl.
    rewrite (under_prefixb_false _ _ Hb). unfold ex_src. simpl. rewrite Ha. reflexivity. }
  constructor.
  - intros m' I. destruct (Psrc m' (or_intror I)) as (nd & La & Hp).
    exists nd. split.
    + rewrite Same; [exact La| |].
      * apply (Haa m' I).
      * destruct (Pab m' m (or_intror I) Im) as [A B]. exact B.
    + intros NP. destruct (Hp NP) as [ND PO]. split; [exact ND|].
      rewrite <- PO. apply parent_ok_ext. intros _.
      apply Same.
      * destruct (prefixb (m_a m) (parent (m_a m'))) eqn:E; [|reflexivity].
        apply prefix_parent_prefix in E. destruct (Haa m' I). congruence.
      * destruct (prefixb (m_b m) (parent (m_a m'))) eqn:E; [|reflexivity].
        apply prefix_parent_prefix in E.
        destruct (Pab m' m (or_intror I) Im). congruence.
  - exact Pa2.
  - exact Pb2.
  - intros m1 m2 I1 I2. apply Pab; right; assumption.
  - intros m' s I. rewrite Same.
    + apply Pfree; right; exact I.
    + apply incomp_not_under. apply Pab; [exact Im|right; exact I].
    + apply incomp_not_under. apply Hbb; exact I.
  - intros m' I. destruct (Ppar m' (or_intror I)) as [PO NU]. split.
    + rewrite <- PO. apply parent_ok_ext. intros _.
      apply Same.
      * apply NU; exact Im.
      * destruct (prefixb (m_b m) (parent (m_b m'))) eqn:E; [|reflexivity].
        apply prefix_parent_prefix in E. destruct (Hbb m' I). congruence.
    + intros m2 I2. apply NU; right; exact I2.
Qed.

Inductive item := IMv (m : mv) | IRm (a : path) (isdir : bool).

Definition exec_item (it : item) (f : fs) : res fs :=
  match it with
  | IMv m => exec_mv m f
  | IRm a true => t_rmdir a f
  | IRm a false => t_delete a f
  end.

Fixpoint run_items (l : list item) (f : fs) : fs * option err :=
  match l with
  | [] => (f, None)
  | it :: l' => match exec_item it f with
                | Ok f' => run_items l' f'
                | Er e => (f, Some e)
                end
  end.

Fixpoint mvs_of (l : list item) : list mv :=
  match l with [] => [] | IMv m :: r => m :: mvs_of r | IRm _ _ :: r => mvs_of r end.
Fixpoint rms_of (l : list item) : list path :=
  match l with [] => [] | IMv _ :: r => rms_of r | IRm a _ :: r => a :: rms_of r end.

(* h without the sub-trees rooted at rl *)
Definition cut (rl : list path) (h : path -> option node) (p : path) : option node :=
  if existsb (fun a => prefixb a p) rl then None else h p.

Record rm_ok (f : fs) (ml : list mv) (a : path) (isdir : bool) : Prop := {
  ro_node : exists nd, look f a = Some nd /\ (isdir = true <-> nd = Dir);
  ro_leaf : forall x s, look f (a ++ x :: s) = None;
  ro_inc : forall m, In m ml -> incomp a (m_a m) /\ incomp a (m_b m) /\
                                prefixb a (parent (m_b m)) = false
}.

Lemma cut_ext rl h1 h2 q : h1 q = h2 q -> cut rl h1 q = cut rl h2 q.
Proof. intros H. unfold cut. destruct (existsb _ rl); auto. Qed.

Lemma cut_false rl p : (forall a, In a rl -> prefixb a p = false) ->
  existsb (fun a => prefixb a p) rl = false.
Proof.
  intros H. destruct (existsb _ rl) eqn:E; [|reflexivity].
  apply existsb_exists in E as (a & I & P). rewrite (H a I) in P. discriminate.
Qed.

Lemma cut_moved1 rl m h q :
  (forall a, In a rl -> incomp a (m_a m) /\ incomp a (m_b m)) ->
  cut rl (moved [m] h) q = moved [m] (cut rl h) q.
Proof.
  intros H. unfold cut, moved, ex_src. simpl. rewrite orb_false_r.
  destruct (under (m_b m) q) as [s|] eqn:Eu.
  - apply under_Some in Eu. subst q.
    rewrite cut_false by (intros a I; apply incomp_not_under; apply (H a I)).
    unfold src. destruct s as [|y s], (m_put m) as [[c x]|]; try reflexivity.
    all: rewrite cut_false by (intros a I; apply incomp_not_under; apply (H a I)); reflexivity.
  - destruct (existsb (fun a => prefixb a q) rl); destruct (prefixb (m_a m) q); reflexivity.
Qed.

Lemma prefixb_parent_self a x : parent x = a -> x <> [] -> prefixb a x = true.
Proof.
  intros E N. destruct (path_parent_last x N) as (y & H). rewrite E in H. rewrite H. apply prefixb_app.
Qed.

Lemma moves_pre_del ml f a :
  moves_pre ml f ->
  (forall m, In m ml -> incomp a (m_a m) /\ incomp a (m_b m) /\ prefixb a (parent (m_b m)) = false) ->
  moves_pre ml (fs_del a f).
Proof.
  intros [Psrc Pa Pb Pab Pfree Ppar] H.
  assert (forall q, prefixb a q = false -> look (fs_del a f) q = look f q) as Same.
  { intros q P. rewrite look_del. rewrite path_eqb_neq; [reflexivity|].
    intros ->. rewrite prefixb_refl in P. discriminate. }
  constructor; auto.
  - intros m I. destruct (Psrc m I) as (nd & La & Hp). destruct (H m I) as ([A1 A2] & _ & _).
    exists nd. split; [rewrite Same; assumption|].
    intros NP. destruct (Hp NP) as [ND PO]. split; [exact ND|].
    rewrite <- PO. apply parent_ok_ext. intros PN. apply Same.
    destruct (prefixb a (parent (m_a m))) eqn:E; [|reflexivity].
    apply prefix_parent_prefix in E. congruence.
  - intros m s I. rewrite look_del. destruct (path_eqb _ _); [reflexivity|apply Pfree; exact I].
  - intros m I. destruct (Ppar m I) as [PO NU]. destruct (H m I) as (_ & _ & A3). split; [|exact NU].
    rewrite <- PO. apply parent_ok_ext. intros _. apply Same. exact A3.
Qed.

Theorem mixed_simultaneous items : forall f,
  dom_ok f -> moves_pre (mvs_of items) f -> NoDup (rms_of items) ->
  (forall a d, In (IRm a d) items -> rm_ok f (mvs_of items) a d) ->
  exists f', run_items items f = (f', None) /\ dom_ok f' /\
             forall p, look f' p = moved (mvs_of items) (cut (rms_of items) (look f)) p.
Proof.
  induction items as [|[m|a d] items IH]; intros f D P ND R.
  - exists f. split; [reflexivity|]. split; [exact D|]. intros p. reflexivity.
  - (* a move *)
    simpl mvs_of in *. simpl rms_of in *.
    pose proof P as P0. destruct P as [Psrc Pa Pb Pab Pfree Ppar].
    assert (In m (m :: mvs_of items)) as Im by (left; reflexivity).
    destruct (exec_mv_ok m f D (Psrc m Im) (Pab m m Im Im)) as (f1 & E1 & D1 & L1).
    { rewrite <- (app_nil_r (m_b m)). apply Pfree; exact Im. }
    { apply Ppar; exact Im. }
    { apply Ppar; [exact Im|exact Im]. }
    pose proof (moves_pre_step m _ f f1 P0 L1) as P1.
    assert (forall q, prefixb (m_a m) q = false -> prefixb (m_b m) q = false ->
                      look f1 q = look f q) as Same.
    { intros q Ha Hb. rewrite L1. unfold moved. simpl.
      rewrite (under_prefixb_false _ _ Hb). unfold ex_src. simpl. rewrite Ha. reflexivity. }
    assert (forall a d, In (IRm a d) items -> incomp a (m_a m) /\ incomp a (m_b m)) as RI.
    { intros a d I. destruct (R a d (or_intror I)) as [_ _ RI]. destruct (RI m Im) as (A & B & _). auto. }
    destruct (IH f1 D1 P1 ND) as (f' & E' & D' & L').
    { intros a d I. destruct (R a d (or_intror I)) as [(nd & Ln & Hd) RL RI']. destruct (RI a d I) as [A B].
      constructor.
      - exists nd. split; [|exact Hd]. rewrite Same; [exact Ln|apply A|apply B].
      - intros x s. rewrite Same; [apply RL| |]; apply incomp_not_under; apply incomp_sym; assumption.
      - intros m' I'. apply RI'. right; exact I'. }
    exists f'. split; [simpl; rewrite E1; exact E'|]. split; [exact D'|].
    intros p. rewrite L'.
    rewrite (moved_ext _ _ (moved [m] (cut (rms_of items) (look f)))).
    + simpl in Pa, Pb. destruct Pa as [Pa1 _], Pb as [Pb1 _].
      apply moved_cons.
      * intros m' I. apply Pb1; apply in_map; exact I.
      * intros m' I. apply Pab; [right; exact I|exact Im].
      * intros m' I. apply Pa1; apply in_map; exact I.
      * intros m' I. split; apply Pab; try (right; exact I); exact Im.
      * intros m' I. destruct (Pab m' m (or_intror I) Im) as [A B]. split; assumption.
    + intros q. rewrite (cut_ext _ _ _ _ (L1 q)). apply cut_moved1.
      intros a I.
      assert (exists d, In (IRm a d) items) as (d & Id).
      { clear - I. induction items as [|[m'|a' d'] items IHi]; simpl in *; [destruct I| |].
        - destruct (IHi I) as (d & H). exists d. right; exact H.
        - destruct I as [->|I]; [exists d'; left; reflexivity|].
          destruct (IHi I) as (d & H). exists d. right; exact H. }
      apply (RI a d Id).
  - (* a deletion *)
    simpl mvs_of in *. simpl rms_of in *.
    destruct (R a d (or_introl eq_refl)) as [(nd & Ln & Hd) RL RI].
    inversion ND as [|? ? NI ND']; subst.
    assert (exec_item (IRm a d) f = Ok (fs_del a f)) as E1.
    { simpl. destruct d.
      - assert (nd = Dir) as -> by (apply Hd; reflexivity).
        unfold t_rmdir. rewrite Ln. rewrite has_child_false_intro by exact RL. reflexivity.
      - unfold t_delete. rewrite Ln. destruct nd; try reflexivity.
        assert (false = true) as C by (apply Hd; reflexivity). discriminate. }
    destruct (IH (fs_del a f)) as (f' & E' & D' & L').
    + apply dom_ok_del; exact D.
    + apply moves_pre_del; assumption.
    + exact ND'.
    + intros a' d' I. destruct (R a' d' (or_intror I)) as [(nd' & Ln' & Hd') RL' RI'].
      assert (a' <> a) as NE.
      { intros ->. apply NI. clear - I. induction items as [|[m'|a2 d2] items IHi]; simpl in *; [destruct I| |].
        - destruct I as [C|I]; [discriminate|auto].
        - destruct I as [C|I]; [inversion C; left; reflexivity|right; auto]. }
      constructor.
      * exists nd'. split; [|exact Hd']. rewrite look_del, path_eqb_neq by exact NE. exact Ln'.
      * intros x s. rewrite look_del. destruct (path_eqb _ _); [reflexivity|apply RL'].
      * exact RI'.
    + exists f'. split; [simpl exec_item in E1; simpl; rewrite E1; exact E'|]. split; [exact D'|].
      intros p. rewrite L'. apply moved_ext. intros q. unfold cut. simpl.
      destruct (existsb (fun a0 => prefixb a0 q) (rms_of items)); [rewrite orb_true_r; reflexivity|].
      rewrite orb_false_r.
      destruct (prefixb a q) eqn:Pq.
      * apply prefixb_true in Pq as (s & ->). destruct s as [|x s].
        -- rewrite app_nil_r, path_eqb_refl. reflexivity.
        -- destruct (path_eqb _ _); [reflexivity|apply RL].
      * rewrite path_eqb_neq; [reflexivity|]. intros ->. rewrite prefixb_refl in Pq. discriminate.
Qed.
