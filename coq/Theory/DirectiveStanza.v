(* Theory/DirectiveStanza.v -- read_patch_stanza (to_patch_lines st ++ blank :: rest) = (st, rest)
   under the executable guard stanza_ok (C40). *)
From Coq Require Import String Ascii ZArith NArith List Bool Lia.
From BV Require Import Lib.Bytes Lib.Obs Model.OsUtils Theory.OsUtilsDate Model.Directive Theory.DirectiveRio.
Import ListNotations.
Open Scope N_scope.

(* ------------------------------------------------------------------ *)
(* 1. trim_newline, find_colon_sp                                      *)
(* ------------------------------------------------------------------ *)
Lemma ends_with_cons c x (s : bytes) : s <> [] -> ends_with c (x :: s) = ends_with c s.
Proof.
  intros H. unfold ends_with. cbn [rev].
  destruct (rev s) as [|y r] eqn:E.
  - exfalso. apply H. rewrite <- (rev_involutive s), E. reflexivity.
  - reflexivity.
Qed.

Lemma trim_newline_body b :
  b <> [] -> ends_with LF b = false -> ends_with CR b = false -> trim_newline (b ++ [LF]) = b.
Proof.
  induction b as [|c b IH]; intros Hne Hlf Hcr; [congruence|].
  destruct b as [|d b'].
  - unfold ends_with in Hlf, Hcr. cbn [rev app] in Hlf, Hcr.
    cbn [app trim_newline]. change ((LF =? LF) || (LF =? CR)) with true. cbn iota.
    rewrite Hlf, Hcr. reflexivity.
  - rewrite ends_with_cons in Hlf, Hcr by discriminate.
    change ((c :: d :: b') ++ [LF]) with (c :: ((d :: b') ++ [LF])).
    cbn [trim_newline]. fold (trim_newline ((d :: b') ++ [LF])).
    rewrite IH by (try discriminate; assumption). reflexivity.
Qed.

Lemma tag_char_not c x : tag_char c = true -> tag_char x = false -> (c =? x) = false.
Proof.
  intros Hc Hx. destruct (c =? x) eqn:E; [|reflexivity].
  apply N.eqb_eq in E. subst. congruence.
Qed.

Lemma find_colon_sp_tag tag v :
  forallb tag_char tag = true -> find_colon_sp (tag ++ COLON :: SP :: v) = Some (length tag).
Proof.
  induction tag as [|c t IH]; intros H.
  - reflexivity.
  - cbn [forallb] in H. apply andb_true_iff in H. destruct H as [Hc Ht].
    change ((c :: t) ++ COLON :: SP :: v) with (c :: (t ++ COLON :: SP :: v)).
    cbn [find_colon_sp]. fold (find_colon_sp (t ++ COLON :: SP :: v)).
    destruct (t ++ COLON :: SP :: v) as [|d r] eqn:E.
    + destruct t; discriminate.
    + rewrite (tag_char_not c COLON Hc eq_refl). cbn [andb].
      rewrite IH by exact Ht. reflexivity.
Qed.

(* ------------------------------------------------------------------ *)
(* 2. feeding the bodies of an item                                    *)
(* ------------------------------------------------------------------ *)
Definition push (st : rstate) (it : bytes * bytes) : rstate :=
  {| r_done := match r_cur st with Some c => c :: r_done st | None => r_done st end;
     r_cur := Some it |}.

Fixpoint feed_all (st : rstate) (bodies : list bytes) : option rstate :=
  match bodies with
  | [] => Some st
  | b :: bs => match feed st (b ++ [LF]) with
               | FCont st1 => feed_all st1 bs
               | _ => None
               end
  end.

Lemma feed_all_app st a b :
  feed_all st (a ++ b) = match feed_all st a with Some s1 => feed_all s1 b | None => None end.
Proof.
  revert st. induction a as [|x a IH]; intros st; [reflexivity|].
  cbn [app feed_all]. destruct (feed st (x ++ [LF])); try reflexivity. apply IH.
Qed.

Definition clean_end (b : bytes) : Prop := ends_with LF b = false /\ ends_with CR b = false.

Lemma body_ok_clean b : body_ok b = true -> clean_end b /\ b <> [].
Proof.
  unfold body_ok. intros H.
  apply andb_true_iff in H. destruct H as [H Hne].
  apply andb_true_iff in H. destruct H as [H _].
  apply andb_true_iff in H. destruct H as [Hlf Hcr].
  apply negb_true_iff in Hlf, Hcr.
  split; [split; [apply ends_with_absent; exact Hlf|exact Hcr]|].
  destruct b; [discriminate|discriminate].
Qed.

Lemma feed_first st tag v0 :
  valid_tag tag = true -> clean_end (tag ++ COLON :: SP :: v0) ->
  feed st ((tag ++ COLON :: SP :: v0) ++ [LF]) = FCont (push st (tag, v0)).
Proof.
  intros Hv [Hlf Hcr]. unfold feed.
  assert (Hne : tag ++ COLON :: SP :: v0 <> []) by (destruct tag; discriminate).
  rewrite trim_newline_body by assumption.
  destruct tag as [|c t]; [discriminate|].
  unfold valid_tag in Hv.
  assert (Hc : tag_char c = true) by (cbn [forallb] in Hv; apply andb_true_iff in Hv; apply Hv).
  change ((c :: t) ++ COLON :: SP :: v0) with (c :: (t ++ COLON :: SP :: v0)).
  cbv beta iota zeta.
  rewrite (tag_char_not c TAB Hc eq_refl).
  change (c :: (t ++ COLON :: SP :: v0)) with ((c :: t) ++ COLON :: SP :: v0).
  rewrite find_colon_sp_tag by exact Hv.
  rewrite firstn_app_exact.
  unfold valid_tag. rewrite Hv.
  replace (length (c :: t) + 2)%nat with (length ((c :: t) ++ [COLON; SP])) by (rewrite app_length; reflexivity).
  change ((c :: t) ++ COLON :: SP :: v0) with ((c :: t) ++ [COLON; SP] ++ v0).
  rewrite app_assoc, skipn_app_exact. reflexivity.
Qed.

Lemma feed_cont st tag v vi :
  r_cur st = Some (tag, v) -> clean_end (TAB :: vi) ->
  feed st ((TAB :: vi) ++ [LF]) =
  FCont {| r_done := r_done st; r_cur := Some (tag, v ++ LF :: vi) |}.
Proof.
  intros Hcur [Hlf Hcr]. unfold feed.
  rewrite trim_newline_body by (try discriminate; assumption).
  cbv beta iota zeta.
  change (TAB =? TAB) with true. cbv iota. rewrite Hcur. reflexivity.
Qed.

Lemma feed_conts : forall vs st tag v,
  r_cur st = Some (tag, v) ->
  forallb body_ok (map (fun x => TAB :: x) vs) = true ->
  feed_all st (map (fun x => TAB :: x) vs) =
  Some {| r_done := r_done st; r_cur := Some (tag, v ++ flat_map (fun x => LF :: x) vs) |}.
Proof.
  induction vs as [|vi vs IH]; intros st tag v Hcur Hok.
  - cbn [map feed_all flat_map]. rewrite app_nil_r. destruct st as [dn cu]. cbn in *. subst. reflexivity.
  - cbn [map forallb] in Hok. apply andb_true_iff in Hok. destruct Hok as [Hb Hrest].
    cbn [map feed_all].
    rewrite (feed_cont st tag v vi Hcur) by (apply body_ok_clean; exact Hb).
    rewrite (IH _ tag (v ++ LF :: vi)) by (try reflexivity; exact Hrest).
    cbn [r_done flat_map]. rewrite <- app_assoc. reflexivity.
Qed.

(* split1 LF / join with LF *)
Lemma split1_aux_unsplit : forall s cur,
  match split1_aux LF cur s with
  | [] => False
  | v0 :: vs => v0 ++ flat_map (fun x => LF :: x) vs = rev cur ++ s
  end.
Proof.
  induction s as [|c s IH]; intros cur.
  - cbn. rewrite !app_nil_r. reflexivity.
  - cbn [split1_aux]. destruct (c =? LF) eqn:E.
    + apply N.eqb_eq in E. subst c. specialize (IH []).
      destruct (split1_aux LF [] s) as [|w ws]; [contradiction|].
      cbn [flat_map]. cbn [rev app] in IH. rewrite <- IH. reflexivity.
    + specialize (IH (c :: cur)).
      destruct (split1_aux LF (c :: cur) s) as [|w ws]; [contradiction|].
      rewrite IH. cbn [rev]. rewrite <- app_assoc. reflexivity.
Qed.

Definition item_ok (it : bytes * bytes) : bool :=
  valid_tag (fst it) && forallb body_ok (rio_item_bodies it).

Lemma feed_item st it :
  item_ok it = true -> feed_all st (rio_item_bodies it) = Some (push st it).
Proof.
  destruct it as [tag v]. unfold item_ok, rio_item_bodies. cbn [fst snd].
  intros H. apply andb_true_iff in H. destruct H as [Hv Hok].
  pose proof (split1_aux_unsplit v []) as Hs. unfold split1 in *.
  destruct (split1_aux LF [] v) as [|v0 vs]; [contradiction|].
  cbn [rev app] in Hs.
  cbn [forallb] in Hok. apply andb_true_iff in Hok. destruct Hok as [Hb0 Hrest].
  cbn [feed_all].
  rewrite feed_first by (try exact Hv; apply body_ok_clean; exact Hb0).
  rewrite (feed_conts vs _ tag v0) by (try reflexivity; exact Hrest).
  unfold push. cbn [r_done r_cur]. rewrite Hs. reflexivity.
Qed.

Lemma feed_items : forall items st,
  forallb item_ok items = true ->
  feed_all st (rio_bodies items) = Some (fold_left push items st).
Proof.
  induction items as [|it items IH]; intros st H; [reflexivity|].
  cbn [forallb] in H. apply andb_true_iff in H. destruct H as [Hi Hr].
  unfold rio_bodies. cbn [flat_map]. rewrite feed_all_app, feed_item by exact Hi.
  cbn [fold_left]. apply IH. exact Hr.
Qed.

Definition all_items (st : rstate) : stanza :=
  rev (r_done st) ++ match r_cur st with Some it => [it] | None => [] end.

Lemma all_items_push st it : all_items (push st it) = all_items st ++ [it].
Proof.
  unfold all_items, push. cbn [r_done r_cur].
  destruct (r_cur st) as [c|]; [cbn [rev]; reflexivity|rewrite app_nil_r; reflexivity].
Qed.

Lemma fold_push_items : forall items st,
  all_items (fold_left push items st) = all_items st ++ items.
Proof.
  induction items as [|it items IH]; intros st; [cbn; rewrite app_nil_r; reflexivity|].
  cbn [fold_left]. rewrite IH, all_items_push, <- app_assoc. reflexivity.
Qed.

Lemma fold_push_cur : forall items st it, exists c, r_cur (fold_left push (it :: items) st) = Some c.
Proof.
  intros items. induction items as [|x items IH] using rev_ind; intros st it.
  - cbn. eexists. reflexivity.
  - change (it :: items ++ [x]) with ((it :: items) ++ [x]). rewrite fold_left_app. cbn. eexists. reflexivity.
Qed.

Lemma r_finish_all st c : r_cur st = Some c -> r_finish st = Some (all_items st).
Proof. unfold r_finish, all_items. intros ->. cbn [rev]. reflexivity. Qed.

(* ------------------------------------------------------------------ *)
(* 3. the reading loop                                                 *)
(* ------------------------------------------------------------------ *)
Lemma read_bodies : forall bodies st n more st',
  forallb body_ok bodies = true -> feed_all st bodies = Some st' ->
  read_stanza_loop (length bodies + n) st (flat_map wrap_body bodies ++ more)
  = read_stanza_loop n st' more.
Proof.
  induction bodies as [|b bs IH]; intros st n more st' Hok Hfeed.
  - cbn in Hfeed. injection Hfeed as <-. reflexivity.
  - cbn [forallb] in Hok. apply andb_true_iff in Hok. destruct Hok as [Hb Hbs].
    cbn [feed_all] in Hfeed.
    cbn [length flat_map Nat.add read_stanza_loop].
    rewrite <- app_assoc, wrap_body_read by exact Hb.
    destruct (feed st (b ++ [LF])) as [|st1|e]; try discriminate.
    apply IH; assumption.
Qed.

Lemma wrap_loop_nonempty f line : line <> [] -> wrap_loop (S f) line <> [].
Proof.
  intros H. destruct line as [|c l]; [congruence|].
  cbn [wrap_loop]. destruct (split_piece (c :: l)) as [part rest].
  destruct rest; [destruct (ends_with SP (esc_cr part))|]; discriminate.
Qed.

Lemma wrap_body_length b : b <> [] -> (1 <= length (wrap_body b))%nat.
Proof.
  intros H. unfold wrap_body.
  assert (He : esc_bs b <> []).
  { destruct b as [|c b]; [congruence|].
    change (esc_bs (c :: b)) with ((if c =? BSL then [BSL; BSL] else [c]) ++ esc_bs b).
    destruct (c =? BSL); discriminate. }
  pose proof (wrap_loop_nonempty (length (esc_bs b)) (esc_bs b) He) as Hn.
  destruct (wrap_loop (S (length (esc_bs b))) (esc_bs b)); [congruence|cbn; lia].
Qed.

Lemma wrap_bodies_length : forall bodies,
  forallb body_ok bodies = true -> (length bodies <= length (flat_map wrap_body bodies))%nat.
Proof.
  induction bodies as [|b bs IH]; intros H; [cbn; lia|].
  cbn [forallb] in H. apply andb_true_iff in H. destruct H as [Hb Hbs].
  cbn [flat_map length]. rewrite app_length.
  pose proof (wrap_body_length b (proj2 (body_ok_clean b Hb))). specialize (IH Hbs). lia.
Qed.

Definition stanza_ok (st : stanza) : bool :=
  forallb item_ok st && match st with [] => false | _ => true end.

Lemma item_bodies_ok : forall items,
  forallb item_ok items = true -> forallb body_ok (rio_bodies items) = true.
Proof.
  induction items as [|it items IH]; intros H; [reflexivity|].
  cbn [forallb] in H. apply andb_true_iff in H. destruct H as [Hi Hr].
  unfold rio_bodies. cbn [flat_map]. rewrite forallb_app.
  apply andb_true_iff. split; [|apply IH; exact Hr].
  unfold item_ok in Hi. apply andb_true_iff in Hi. apply Hi.
Qed.

Theorem read_patch_stanza_roundtrip st rest :
  stanza_ok st = true ->
  read_patch_stanza (to_patch_lines st ++ TERMINATOR :: rest) = (ROk (Some st), rest).
Proof.
  unfold stanza_ok. intros H. apply andb_true_iff in H. destruct H as [Hitems Hne].
  pose proof (item_bodies_ok st Hitems) as Hbodies.
  pose proof (wrap_bodies_length _ Hbodies) as Hlen.
  unfold read_patch_stanza, to_patch_lines.
  set (bodies := rio_bodies st) in *.
  rewrite app_length. cbn [length].
  replace (S (length (flat_map wrap_body bodies) + S (length rest)))
    with (length bodies + S (S (length (flat_map wrap_body bodies) - length bodies + length rest)))%nat by lia.
  rewrite (read_bodies bodies r_init _ _ (fold_left push st r_init) Hbodies (feed_items st r_init Hitems)).
  cbn [read_stanza_loop].
  change (patch_next None (TERMINATOR :: rest)) with (Some (@ROk bytes [LF], rest)).
  change (feed (fold_left push st r_init) [LF]) with FStop.
  destruct st as [|it items]; [discriminate|].
  destruct (fold_push_cur items r_init it) as [c Hc].
  rewrite (r_finish_all _ c Hc), fold_push_items. reflexivity.
Qed.
