(* Theory/Transform14.v -- lemmas about the transform model of C14 (Model/Transform14.v). *)
From Coq Require Import List Bool Arith NArith ZArith String Lia.
From BV Require Import Lib.Bytes Lib.Obs Model.Transform14.
Import ListNotations.
Open Scope list_scope.
Open Scope nat_scope.

(* ------------------------------------------------------------------ small facts *)
Lemma flat_map_nil_inv {A B} (f : A -> list B) (l : list A) :
  flat_map f l = [] -> forall a, In a l -> f a = [].
Proof.
  induction l as [|x l IH]; simpl; intros H a Ha; [contradiction|].
  apply app_eq_nil in H. destruct H as [H1 H2].
  destruct Ha as [->|Ha]; [exact H1|exact (IH H2 a Ha)].
Qed.

Lemma aget_In {V} (k : nat) (v : V) (l : list (nat * V)) : aget k l = Some v -> In (k, v) l.
Proof.
  induction l as [|[k' v'] l IH]; simpl; [discriminate|].
  destruct (Nat.eqb k' k) eqn:E.
  - intros H. injection H as ->. apply Nat.eqb_eq in E. subst. now left.
  - intros H. right. exact (IH H).
Qed.

Lemma ahas_false_aget {V} (k : nat) (l : list (nat * V)) : ahas k l = false -> aget k l = None.
Proof. unfold ahas. destruct (aget k l); [discriminate|reflexivity]. Qed.

Lemma aget_app_new {V} (k : nat) (v : V) (l : list (nat * V)) :
  aget k l = None -> aget k (l ++ [(k, v)]) = Some v.
Proof.
  induction l as [|[k' v'] l IH]; simpl.
  - intros _. now rewrite Nat.eqb_refl.
  - destruct (Nat.eqb k' k); [discriminate|exact IH].
Qed.

Lemma memn_In (k : nat) (l : list nat) : memn k l = true <-> In k l.
Proof.
  unfold memn. rewrite existsb_exists. split.
  - intros [x [Hx E]]. apply Nat.eqb_eq in E. now subst.
  - intros H. exists k. split; [exact H|apply Nat.eqb_refl].
Qed.

Lemma memn_addn_same (k : nat) (l : list nat) : memn k (addn k l) = true.
Proof.
  unfold addn. destruct (memn k l) eqn:E; [exact E|].
  apply memn_In. apply in_or_app. right. now left.
Qed.

Lemma adel_keys_subset {V} (k x : nat) (l : list (nat * V)) :
  In x (map fst (adel k l)) -> In x (map fst l).
Proof.
  induction l as [|[k' v'] l IH]; simpl; [tauto|].
  destruct (Nat.eqb k' k); simpl; [tauto|].
  intros [H|H]; [now left|right; exact (IH H)].
Qed.

Lemma adel_notin {V} (k : nat) (l : list (nat * V)) :
  NoDup (map fst l) -> ~ In k (map fst (adel k l)).
Proof.
  induction l as [|[k' v'] l IH]; simpl; intros ND; [tauto|].
  inversion ND as [|? ? Hn ND']; subst.
  destruct (Nat.eqb k' k) eqn:E.
  - apply Nat.eqb_eq in E. subst. exact Hn.
  - simpl. intros [H|H].
    + subst. rewrite Nat.eqb_refl in E. discriminate.
    + exact (IH ND' H).
Qed.

(* ------------------------------------------------------------------ the resolve loop *)
Section Resolve.
Variable base : list bnode.

Lemma resolve_clean_no_conflicts : forall fuel t acc t' newc,
  resolve base fuel t acc = Clean t' newc -> raw_conflicts base t' = Ok [].
Proof.
  induction fuel as [|f IH]; cbn [resolve]; intros t acc t' newc H; [discriminate|].
  destruct (raw_conflicts base t) as [cs|e] eqn:E; [|discriminate].
  destruct cs as [|c cs].
  - injection H as <- _. exact E.
  - destruct (conflict_pass base (c :: cs) t []) as [[t1 n1]|e] eqn:P; [|discriminate].
    exact (IH _ _ _ _ H).
Qed.

(* the number of resolution passes actually run *)
Fixpoint passes (fuel : nat) (t : tt) : nat :=
  match fuel with
  | 0 => 0
  | S f => match raw_conflicts base t with
           | Ok (c :: cs) => match conflict_pass base (c :: cs) t [] with
                             | Ok (t', _) => S (passes f t')
                             | Er _ => 1
                             end
           | _ => 0
           end
  end.
Lemma passes_le : forall fuel t, passes fuel t <= fuel.
Proof.
  induction fuel as [|f IH]; cbn [passes]; intros t; [lia|].
  destruct (raw_conflicts base t) as [[|c cs]|e]; try lia.
  destruct (conflict_pass base (c :: cs) t []) as [[t' n]|e]; [specialize (IH t')|]; lia.
Qed.

(* MalformedTransform is raised only after all the passes were used *)
Lemma resolve_malformed_all_passes : forall fuel t acc,
  resolve base fuel t acc = Malformed -> passes fuel t = fuel.
Proof.
  induction fuel as [|f IH]; cbn [resolve passes]; intros t acc H; [reflexivity|].
  destruct (raw_conflicts base t) as [[|c cs]|e]; try discriminate.
  destruct (conflict_pass base (c :: cs) t []) as [[t' n]|e]; [|discriminate].
  f_equal. exact (IH _ _ H).
Qed.
End Resolve.

(* ------------------------------------------------------------------ resolvers remove their conflict *)
Section Resolvers.
Variable base : list bnode.

(* resolve_versioning_no_contents: cancel_versioning *)
Lemma cancel_versioning_removes : forall t t' x,
  NoDup (map fst (new_id t)) ->
  op_cancel_versioning x t = Ok t' ->
  ~ In (CVersioningNoContents x) (improper_versioning base t').
Proof.
  intros t t' x ND H. unfold op_cancel_versioning in H.
  destruct (ahas x (new_id t)); [|discriminate]. injection H as <-.
  unfold improper_versioning. simpl. intros HI.
  apply in_flat_map in HI. destruct HI as [[y f] [Hy Hc]]. simpl in Hc.
  destruct (final_kind base _ y); [contradiction|].
  destruct Hc as [Hc|[]]. injection Hc as ->.
  apply (adel_notin x (new_id t) ND). apply in_map_iff. exists (x, f). split; [reflexivity|exact Hy].
Qed.

(* resolve_duplicate_id: unversion_file(old) *)
Lemma unversion_removes_duplicate_id : forall t old y,
  ~ In (CDuplicateId old y) (duplicate_ids base (op_unversion old t)).
Proof.
  intros t old y HI. unfold duplicate_ids in HI.
  apply in_flat_map in HI. destruct HI as [[z f] [Hz Hc]]. simpl in Hc.
  destruct (tid_of_fid base f) as [o|] eqn:Ho; [|contradiction].
  destruct (existsb (fun r => onat_eqb (tree_file_id base r) (Some f)) (addn old (removed_id t))) eqn:Ex; [contradiction|].
  destruct Hc as [Hc|[]]. injection Hc as -> ->.
  unfold tid_of_fid in Ho. apply find_some in Ho. destruct Ho as [_ Ho].
  assert (existsb (fun r => onat_eqb (tree_file_id base r) (Some f)) (addn old (removed_id t)) = true) as Hx.
  { apply existsb_exists. exists old. split; [|exact Ho].
    apply memn_In. apply memn_addn_same. }
  rewrite Hx in Ex. discriminate.
Qed.

(* resolve_missing_parent, "Created directory": create_directory *)
Lemma create_directory_removes_missing_parent : forall t t' x bp,
  op_create KDir [] x t = Ok t' ->
  ~ In (CMissingParent x) (parent_type_conflicts base t' bp).
Proof.
  intros t t' x bp H. unfold op_create in H.
  destruct (ahas x (new_contents t)) eqn:A; [discriminate|]. injection H as <-.
  intros HI. unfold parent_type_conflicts in HI.
  apply in_flat_map in HI. destruct HI as [[p cs] [_ Hc]]. simpl in Hc.
  destruct p as [p|]; [|contradiction].
  destruct (existsb _ cs); [|contradiction].
  destruct (final_kind base _ p) as [[|]|] eqn:K; try contradiction.
  - destruct Hc as [Hc|[]]. discriminate.
  - destruct Hc as [Hc|[]]. injection Hc as ->.
    unfold final_kind in K. simpl in K.
    erewrite aget_app_new in K by (apply ahas_false_aget; exact A). discriminate.
Qed.

(* resolve_unversioned_parent: version_file *)
Lemma version_file_removes_unversioned_parent : forall t t' x f bp,
  op_version_file x f t = Ok t' ->
  ~ In (CUnversionedParent x) (unversioned_parents base t' bp).
Proof.
  intros t t' x f bp H. unfold op_version_file in H.
  destruct (ahas x (new_id t)) eqn:A; [discriminate|].
  destruct (existsb (fun kv : tid * nat => Nat.eqb (snd kv) f) (new_id t)); [discriminate|]. injection H as <-.
  intros HI. unfold unversioned_parents in HI.
  apply in_flat_map in HI. destruct HI as [[p cs] [_ Hc]]. simpl in Hc.
  destruct p as [p|]; [|contradiction].
  destruct (versioned base _ p) eqn:V; [contradiction|].
  destruct (existsb _ cs); [|contradiction].
  destruct Hc as [Hc|[]]. injection Hc as ->.
  unfold versioned, final_file_id in V. simpl in V.
  erewrite aget_app_new in V by (apply ahas_false_aget; exact A). discriminate.
Qed.
End Resolvers.

(* ------------------------------------------------------------------ preview structure = applied structure *)
Section Apply.
Variable base : list bnode.

(* base trees: the parent of an entry is an entry *)
Definition wf_parents : Prop :=
  forall x b, nth_error base x = Some b -> x <> 0 -> b_parent b < List.length base.

Lemma no_overwrite_removed : forall t p k,
  overwrite_conflicts base t = [] ->
  ahas p (new_contents t) = true -> tree_kind base p = Some k ->
  memn p (removed_contents t) = true.
Proof.
  intros t p k H A K. unfold ahas in A.
  destruct (aget p (new_contents t)) as [v|] eqn:G; [|discriminate].
  apply aget_In in G.
  pose proof (flat_map_nil_inv _ _ H (p, v) G) as Hf. simpl in Hf.
  rewrite K in Hf. destruct (memn p (removed_contents t)); [reflexivity|discriminate].
Qed.

Lemma no_late_failure_parent : forall t y p,
  late_failure base t = false ->
  y < List.length base -> y <> 0 ->
  memn y (removed_contents t) = false -> path_changed t y = false ->
  tree_parent base y = Some p -> memn p (removed_contents t) = false.
Proof.
  intros t y p H Hy Hy0 R PC TP. unfold late_failure in H.
  destruct (memn p (removed_contents t)) eqn:M; [|reflexivity].
  assert (existsb (fun y => negb (Nat.eqb y 0) && negb (memn y (removed_contents t))
                            && negb (path_changed t y)
                            && match tree_parent base y with
                               | Some p => memn p (removed_contents t) | None => false end)
                  (seq 0 (List.length base)) = true) as Hx.
  { apply existsb_exists. exists y. split; [apply in_seq; lia|].
    rewrite R, PC, TP, M. destruct (Nat.eqb y 0) eqn:E; [apply Nat.eqb_eq in E; contradiction|reflexivity]. }
  rewrite Hx in H. discriminate.
Qed.

(* the structure the preview shows for a trans id: (node of the final parent, final name) and final kind *)
Definition preview_container (t : tt) (x : tid) : option (option phys * name) :=
  match final_parent base t x with
  | Some p => match tid_node base t p with Some c => Some (Some c, final_name base t x) | None => None end
  | None => None
  end.

(* Every trans id that has contents in the preview is, after apply, the node the model of apply puts
   into the node of its final parent under its final name, with the final kind. *)
Theorem nodes_agree : forall t x k,
  wf_parents ->
  overwrite_conflicts base t = [] ->
  late_failure base t = false ->
  x <> 0 ->
  final_kind base t x = Some k ->
  exists n, tid_node base t x = Some n
            /\ node_kind base t n = Some k
            /\ container base t n = preview_container t x.
Proof.
  intros t x k WF OW LF X0 FK.
  unfold final_kind in FK. unfold tid_node.
  destruct (aget x (new_contents t)) as [[k' c]|] eqn:G.
  - (* new contents: the limbo node *)
    injection FK as ->.
    assert (ahas x (new_contents t) = true) as A by (unfold ahas; now rewrite G).
    rewrite A. exists (true, x). split; [reflexivity|]. split.
    + unfold node_kind. simpl. now rewrite G.
    + unfold container, preview_container. simpl. reflexivity.
  - assert (ahas x (new_contents t) = false) as A by (unfold ahas; now rewrite G).
    rewrite A.
    destruct (memn x (removed_contents t)) eqn:R; [discriminate|].
    unfold tree_kind in FK.
    destruct (nth_error base x) as [b|] eqn:NB; [|discriminate]. simpl in FK. injection FK as <-.
    assert (x < List.length base) as XL by (apply nth_error_Some; now rewrite NB).
    assert (is_tree base x = true) as IT by (unfold is_tree; now apply Nat.ltb_lt).
    rewrite IT. exists (false, x). split; [reflexivity|]. split.
    + unfold node_kind, tree_kind. simpl. now rewrite NB.
    + unfold container, preview_container. simpl.
      destruct (Nat.eqb x 0) eqn:E0; [apply Nat.eqb_eq in E0; contradiction|].
      rewrite R.
      destruct (path_changed t x) eqn:PC; [reflexivity|].
      (* not renamed: stays in its physical parent, which is the node of its final parent *)
      unfold path_changed in PC. apply orb_false_elim in PC. destruct PC as [PN PP].
      unfold final_parent, final_name.
      rewrite (ahas_false_aget _ _ PP), (ahas_false_aget _ _ PN).
      unfold tree_parent at 1 2. rewrite E0, NB. simpl.
      set (p := b_parent b).
      assert (p < List.length base) as PL by (exact (WF x b NB X0)).
      assert (memn p (removed_contents t) = false) as RP.
      { apply (no_late_failure_parent t x p LF XL X0 R).
        - unfold path_changed. now rewrite PN, PP.
        - unfold tree_parent. now rewrite E0, NB. }
      unfold tid_node.
      destruct (ahas p (new_contents t)) eqn:AP.
      * destruct (nth_error base p) as [bp|] eqn:NP.
        -- assert (tree_kind base p = Some (b_kind bp)) as KP by (unfold tree_kind; now rewrite NP).
           rewrite (no_overwrite_removed t p _ OW AP KP) in RP. discriminate.
        -- apply nth_error_None in NP. lia.
      * rewrite RP.
        assert (is_tree base p = true) as ITP by (unfold is_tree; now apply Nat.ltb_lt).
        rewrite ITP. unfold tree_name. now rewrite NB.
Qed.

(* content and executable bit: what get_file / is_executable show for a trans id that is a file in the
   preview is exactly what the node apply leaves for it holds (no hypothesis: since 2ecf5bb the preview
   reads limbo for new contents and the ORIGINAL tree at the OLD path otherwise, and _set_mode /
   _set_executability give the installed node the same mode) *)
Theorem content_exec_agree : forall t x,
  final_kind base t x = Some KFile ->
  exists n, tid_node base t x = Some n
            /\ preview_content base t x = map Z.of_N (node_content base t n)
            /\ preview_exec base t x = node_exec base t n.
Proof.
  intros t x FK. unfold final_kind in FK. unfold tid_node.
  destruct (aget x (new_contents t)) as [[k c]|] eqn:G.
  - injection FK as ->.
    assert (ahas x (new_contents t) = true) as A by (unfold ahas; now rewrite G).
    rewrite A. exists (true, x). split; [reflexivity|]. split.
    + unfold preview_content, node_content. simpl. now rewrite G.
    + unfold preview_exec, node_exec, tid_node. simpl. rewrite A.
      destruct (aget x (new_exec t)) as [e|]; [|reflexivity].
      unfold onat_eqb. simpl. now rewrite Nat.eqb_refl.
  - assert (ahas x (new_contents t) = false) as A by (unfold ahas; now rewrite G).
    rewrite A.
    destruct (memn x (removed_contents t)) eqn:R; [discriminate|].
    unfold tree_kind in FK.
    destruct (nth_error base x) as [b|] eqn:NB; [|discriminate]. simpl in FK.
    assert (x < List.length base) as XL by (apply nth_error_Some; now rewrite NB).
    assert (is_tree base x = true) as IT by (unfold is_tree; now apply Nat.ltb_lt).
    rewrite IT. exists (false, x). split; [reflexivity|]. split.
    + unfold preview_content, node_content. simpl. rewrite G, R, NB.
      injection FK as FK. now rewrite FK.
    + unfold preview_exec, node_exec, tid_node. simpl. rewrite A, R, IT, NB.
      destruct (aget x (new_exec t)) as [e|]; [|reflexivity].
      unfold onat_eqb. simpl. now rewrite Nat.eqb_refl.
Qed.
End Apply.

(* ------------------------------------------------------------------ inventory entries *)
Section Inventory.
Variable base : list bnode.

(* InventoryPreviewTree._make_inv_entries for one trans id *)
Definition preview_inv_entry (t : tt) (x : tid) : option (fid * ient) :=
  match final_file_id base t x with
  | None => None
  | Some f =>
      match (match final_kind base t x with
             | Some k => Some k
             | None => option_map i_kind (base_inv_entry base f)
             end) with
      | None => None
      | Some k => Some (f, mkI (match final_parent base t x with
                                | Some p => final_file_id base t p
                                | None => None
                                end) (final_name base t x) k)
      end
  end.

(* every entry the inventory delta writes is the entry the preview shows for that trans id *)
Lemma delta_adds_are_preview_entries : forall t f e,
  In (f, e) (delta_adds base t) <->
  exists x, In x (inventory_altered base t) /\ preview_inv_entry t x = Some (f, e).
Proof.
  intros t f e. unfold delta_adds. rewrite in_flat_map. split.
  - intros [x [Hx Hc]]. exists x. split; [exact Hx|].
    unfold preview_inv_entry.
    destruct (final_file_id base t x) as [g|]; [|contradiction].
    destruct (match final_kind base t x with
              | Some k => Some k | None => option_map i_kind (base_inv_entry base g) end) as [k|];
      [|contradiction].
    destruct Hc as [Hc|[]]. now rewrite Hc.
  - intros [x [Hx Hp]]. exists x. split; [exact Hx|].
    unfold preview_inv_entry in Hp.
    destruct (final_file_id base t x) as [g|]; [|discriminate].
    destruct (match final_kind base t x with
              | Some k => Some k | None => option_map i_kind (base_inv_entry base g) end) as [k|];
      [|discriminate].
    injection Hp as <- <-. now left.
Qed.
End Inventory.

(* ------------------------------------------------------------------ the OLD preview accessors (before 2ecf5bb)
   kept only to document the repaired defect: get_file / is_executable looked the NEW path up in the OLD
   tree when the change record said "content unchanged". *)
Section OldPreview.
Variable base : list bnode.
Definition opath_eqb_old (a : option (list name)) (b : list name) : bool :=
  match a with Some p => path_eqb p b | None => false end.
Definition base_at_old (p : list name) : option bnode :=
  match find (fun x => opath_eqb_old (base_path base x) p) (seq 0 (List.length base)) with
  | Some x => nth_error base x
  | None => None
  end.
Definition affected_old (t : tt) : list tid :=
  filter (fun x => memn x (removed_id t) || ahas x (new_id t) || memn x (removed_contents t)
                   || ahas x (new_contents t) || ahas x (new_exec t) || ahas x (new_name t)
                   || ahas x (new_parent t)) (seq 0 (next_id t)).
Definition content_change_old (t : tt) (f : fid) : bool :=
  let from := find (fun x => onat_eqb (tree_file_id base x) (Some f)) (affected_old t) in
  let to := find (fun x => onat_eqb (final_file_id base t x) (Some f)) (affected_old t) in
  match from, to with
  | None, None => false
  | _, _ =>
      let from' := match from with Some x => x | None => match to with Some y => y | None => 0 end end in
      let to' := match to with Some y => y | None => from' end in
      negb (okind_eqb (tree_kind base from') (final_kind base t to'))
      || (okind_eqb (final_kind base t to') (Some KFile)
          && (negb (Nat.eqb to' from') || ahas to' (new_contents t)))
  end.
Definition preview_content_old (t : tt) (y : tid) (p : list name) : list Z :=
  if match final_file_id base t y with Some f => content_change_old t f | None => false end
  then match aget y (new_contents t) with
       | Some (KFile, c) => map Z.of_N c
       | _ => unreadable
       end
  else match base_at_old p with
       | Some b => match b_kind b with KFile => map Z.of_N (b_content b) | KDir => unreadable end
       | None => unreadable
       end.
Definition preview_exec_old (t : tt) (y : tid) (p : list name) : bool :=
  match aget y (new_exec t) with
  | Some b => b
  | None => match base_at_old p with
            | Some b => match b_kind b with KFile => b_exec b | KDir => false end
            | None => false
            end
  end.
End OldPreview.

(* ------------------------------------------------------------------ witnesses *)
Definition w_base : list bnode :=
  [root_node;
   mkB 0 [97]%N KFile [65]%N true (Some 1);      (* a, executable, "A" *)
   mkB 0 [100]%N KDir [] false (Some 2);         (* d/ *)
   mkB 2 [120]%N KFile [88]%N false (Some 3);    (* d/x *)
   mkB 0 [98]%N KFile [66]%N false (Some 4)].    (* b *)
(* swap a and b *)
Definition w_swap : list op := [OAdjust [98]%N 0 1; OAdjust [97]%N 0 4].
(* delete_contents(d); create_directory(d) -- d keeps its child x *)
Definition w_replace : list op := [ODelete 2; OCreateDir 2].
(* two new directories, each the parent of the other *)
Definition w_loop : list op := [ONewDir [112]%N 0 (Some 10); ONewDir [113]%N 5 (Some 11); OAdjust [112]%N 6 5].
(* a versioned file in a new unversioned directory (ValueError before 4df7934, resolved since) *)
Definition w_unv : list op := [ONewDir [112]%N 0 None; ONewFile [102]%N 5 [70]%N (Some 12) None].
(* the same inside a parent loop of two NEW directories (RecursionError between 4df7934 and 3ace332; now the
   directory gets its id and the loop itself raises KeyError: known finding C14-resolve-keyerror) *)
Definition w_unv_loop : list op := [ONewDir [112]%N 0 None; ONewDir [113]%N 5 (Some 11); OAdjust [112]%N 6 5].
(* an unversioned TREE directory with a versioned child, moved into itself: resolved since 3ace332 *)
Definition w_base_u : list bnode :=
  [root_node; mkB 0 [117]%N KDir [] false None; mkB 0 [98]%N KFile [66]%N false (Some 4)].
Definition w_unv_selfloop : list op := [OAdjust [98]%N 1 2; OAdjust [117]%N 1 1].
(* a child below a file that was versioned in this transform *)
Definition w_dupkey : list op := [ONewFile [107]%N 0 [75]%N (Some 14) None; ONewFile [99]%N 5 [67]%N (Some 15) None].
(* a duplicate name, resolved by "Moved existing file to" *)
Definition w_dup : list op := [ONewFile [97]%N 0 [78]%N (Some 13) None].
(* nothing but conflicts that have no resolver *)
Definition w_exec : list op := [OExec (Some true) 2].

Definition w_state (ops : list op) : tt :=
  match run_ops w_base 0 ops (init_tt w_base) with inl t => t | inr _ => init_tt w_base end.
