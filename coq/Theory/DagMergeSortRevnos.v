(* Theory/DagMergeSortRevnos.v -- the dotted revnos assigned by
   Lib/DagMergeSort.merge_sort are pairwise distinct, and a development line
   (b, k, 1), (b, k, 2), ... is a chain of left-hand parents -- for every graph.

     merge_sorted_revnos_NoDup   NoDup (ms_revnos (merge_sorted g tip))
     merge_sorted_same_line      entries numbered (a,k,x) and (a,k,y), x <= y: the first is
                                 on the left-hand history of the second

   The invariant [rev_inv] of the scheduling state:
     - the revnos scheduled so far are distinct;
     - a scheduled (a, k, _) has k <= revno_to_branch_count[a];
     - once anything is scheduled the root counter exists;
     - the left-hand parent of every scheduled node has lost its first-child flag;
     - every scheduled revno either ends in 1 (a root or a new branch) or is the
       successor of the revno of the node's left-hand parent;
     - every revno ends in a number >= 1.
   A new revno is fresh because: a new branch number exceeds the counter; the
   first root needs an empty schedule; a successor revno r.(n+1) could only belong
   to another first child of the same parent, and the flag is taken once. *)
From Coq Require Import List Arith Bool Lia.
From BV Require Import Lib.Dag Theory.DagFacts Lib.DagMergeSort Theory.DagMergeSortFacts
                       Theory.DagMergeSortMainline.
Import ListNotations.

(* ---- revno_succ ------------------------------------------------------------------ *)

Lemma last_ge1_nonempty (r : revno) : 1 <= last r 0 -> r <> [].
Proof. intros H ->. cbn in H. lia. Qed.

Lemma succ_last r : last (revno_succ r) 0 = S (last r 0).
Proof. unfold revno_succ. apply last_last. Qed.

Lemma succ_inj r r' : r <> [] -> r' <> [] -> revno_succ r = revno_succ r' -> r = r'.
Proof.
  intros N N' H. unfold revno_succ in H. apply app_inj_tail in H as [H1 H2].
  injection H2 as H2.
  rewrite (app_removelast_last 0 N), (app_removelast_last 0 N'), H1, H2. reflexivity.
Qed.

Lemma succ_three r a k x : revno_succ r = [a; k; x] -> exists x0, r = [a; k; x0] /\ x = S x0.
Proof.
  unfold revno_succ. destruct r as [|r0 [|r1 [|r2 [|r3 r]]]]; cbn.
  - discriminate.
  - discriminate.
  - discriminate.
  - intros H. injection H as <- <- <-. eexists. split; reflexivity.
  - intros H. injection H as _ _ _ H. destruct r; discriminate.
Qed.

Lemma nodup_revno_entry (l : list ms_entry) e1 e2 :
  NoDup (ms_revnos l) -> In e1 l -> In e2 l -> e_revno e1 = e_revno e2 -> e1 = e2.
Proof.
  induction l as [|x l IH]; intros ND H1 H2 E; [contradiction|].
  cbn [ms_revnos map] in ND. inversion ND as [|? ? Hn ND']; subst.
  destruct H1 as [->|H1], H2 as [->|H2]; [reflexivity | | |apply IH; assumption].
  - exfalso. apply Hn. rewrite E. apply in_map. exact H2.
  - exfalso. apply Hn. rewrite <- E. apply in_map. exact H1.
Qed.

(* ---- the invariant ----------------------------------------------------------------- *)

Record rev_inv (g : dag) (st : ms_state) : Prop := {
  ri_nodup : NoDup (ms_revnos (ms_sched st));
  ri_counts : forall e a k x, In e (ms_sched st) -> e_revno e = [a; k; x] ->
              exists c, nlookup a (ms_counts st) = Some c /\ k <= c;
  ri_root : ms_sched st <> [] -> nlookup 0 (ms_counts st) <> None;
  ri_claimed : forall e p, In e (ms_sched st) -> left_parent g (e_id e) = Some p -> In p (ms_claimed st);
  ri_succ : forall e, In e (ms_sched st) ->
            last (e_revno e) 0 = 1 \/
            exists ep, In ep (ms_sched st) /\ left_parent g (e_id e) = Some (e_id ep) /\
                       e_revno e = revno_succ (e_revno ep);
  ri_last : forall e, In e (ms_sched st) -> 1 <= last (e_revno e) 0
}.

(* what a visit (or a sequence of visits) does to the state *)
Definition rev_step (g : dag) (st st' : ms_state) : Prop :=
  rev_inv g st' /\
  (forall x, In x (ms_claimed st) -> In x (ms_claimed st')) /\
  exists new, ms_sched st' = new ++ ms_sched st /\
    forall e q, In e new -> left_parent g (e_id e) = Some q -> In q (ms_claimed st) ->
                last (e_revno e) 0 = 1.

Lemma rev_step_refl g st : rev_inv g st -> rev_step g st st.
Proof. intros I. split; [exact I|]. split; [auto|]. exists []. split; [reflexivity | intros e q []]. Qed.

Lemma rev_step_trans g st1 st2 st3 : rev_step g st1 st2 -> rev_step g st2 st3 -> rev_step g st1 st3.
Proof.
  intros [I2 [C12 [n1 [E1 V1]]]] [I3 [C23 [n2 [E2 V2]]]].
  split; [exact I3|]. split; [intros x H; apply C23, C12, H|].
  exists (n2 ++ n1). split; [rewrite E2, E1, app_assoc; reflexivity|].
  intros e q He Hq Hc. apply in_app_or in He as [He|He].
  - apply (V2 e q He Hq). apply C12. exact Hc.
  - apply (V1 e q He Hq Hc).
Qed.

Lemma rev_inv_claim g lp st : rev_inv g st -> rev_step g st (claim lp st).
Proof.
  intros [A B C D E F].
  split; [|split; [intros x H; apply claim_claimed; exact H|exists []; split; [rewrite claim_sched; reflexivity | intros e q []]]].
  split; rewrite ?claim_sched, ?claim_counts; try assumption.
  intros e p He Hp. apply claim_claimed. apply (D e p He Hp).
Qed.

(* ---- number_node ---------------------------------------------------------------------- *)

Lemma number_node_last fc pr counts : (forall r, pr = Some r -> 1 <= last r 0) ->
  1 <= last (fst (number_node fc pr counts)) 0.
Proof.
  intros H. unfold number_node. destruct pr as [r|].
  - destruct fc; cbn [fst]; [rewrite succ_last; lia | cbn; lia].
  - cbn [fst]. destruct (match nlookup 0 counts with None => 0 | Some c => S c end =? 0); cbn; lia.
Qed.

Lemma number_node_not_first pr counts : last (fst (number_node false pr counts)) 0 = 1.
Proof.
  unfold number_node. destruct pr as [r|]; cbn [fst]; [reflexivity|].
  destruct (match nlookup 0 counts with None => 0 | Some c => S c end =? 0); reflexivity.
Qed.

Lemma number_node_root fc counts : last (fst (number_node fc None counts)) 0 = 1.
Proof.
  unfold number_node. cbn [fst].
  destruct (match nlookup 0 counts with None => 0 | Some c => S c end =? 0); reflexivity.
Qed.

(* ---- pop_node keeps the invariant ------------------------------------------------------- *)

Lemma pop_rev g y d st st2 new :
  let lp := left_parent g y in
  rev_inv g st -> rev_inv g st2 ->
  ms_sched st2 = new ++ ms_sched st ->
  (forall x, In x (ms_claimed (claim lp st)) -> In x (ms_claimed st2)) ->
  (forall e q, In e new -> left_parent g (e_id e) = Some q -> In q (ms_claimed (claim lp st)) ->
               last (e_revno e) 0 = 1) ->
  rev_inv g (pop_node y d lp (is_first_child lp st) st2).
Proof.
  intros lp I0 I2 En Cl V. rewrite pop_node_eq.
  set (pr := match lp with Some p => assigned_revno st2 p | None => None end).
  set (fc := is_first_child lp st).
  set (nn := number_node fc pr (ms_counts st2)).
  destruct I2 as [ND CT RT CM SU LA].
  (* facts about the parent's entry *)
  assert (Hpr : forall r, pr = Some r -> exists p ep, lp = Some p /\ In ep (ms_sched st2) /\ e_id ep = p /\ e_revno ep = r).
  { intros r Hr. unfold pr in Hr. destruct lp as [p|]; [|discriminate].
    destruct (assigned_entry st2 p r Hr) as [ep [A [B C]]]. exists p, ep. repeat split; assumption. }
  assert (Hlast : 1 <= last (fst nn) 0).
  { apply number_node_last. intros r Hr. destruct (Hpr r Hr) as [p [ep [_ [A [_ <-]]]]]. apply (LA ep A). }
  (* freshness of the new revno *)
  assert (Fresh : ~ In (fst nn) (ms_revnos (ms_sched st2))).
  { intros X. apply in_map_iff in X as [e [Er He]].
    unfold nn, number_node in Er. destruct pr as [r|] eqn:Epr.
    - destruct (Hpr r eq_refl) as [p [ep [Elp [Hep [Eip Erp]]]]].
      destruct fc eqn:Efc; cbn [fst] in Er.
      + (* a second first child of p *)
        assert (Nr : r <> []) by (apply last_ge1_nonempty; rewrite <- Erp; apply (LA ep Hep)).
        destruct (SU e He) as [L1|[ep' [Hep' [Hlp' Es]]]].
        * rewrite Er, succ_last in L1. assert (1 <= last r 0) by (rewrite <- Erp; apply (LA ep Hep)). lia.
        * assert (Nr' : e_revno ep' <> []) by (apply last_ge1_nonempty; apply (LA ep' Hep')).
          rewrite Er in Es. apply (succ_inj r (e_revno ep') Nr Nr') in Es.
          assert (ep = ep') by (apply (nodup_revno_entry _ ep ep' ND Hep Hep'); congruence). subst ep'.
          rewrite Eip in Hlp'.
          (* e has left parent p *)
          assert (Nc : ~ In p (ms_claimed st)).
          { unfold fc, is_first_child in Efc. rewrite Elp in Efc. apply negb_true_iff in Efc.
            apply memb_false. exact Efc. }
          rewrite En in He. apply in_app_or in He as [He|He].
          -- assert (L1 : last (e_revno e) 0 = 1).
             { apply (V e p He Hlp'). rewrite Elp. cbn [claim ms_claimed]. apply In_add. left. reflexivity. }
             rewrite Er, succ_last in L1. assert (1 <= last r 0) by (rewrite <- Erp; apply (LA ep Hep)). lia.
          -- apply Nc. apply (ri_claimed g st I0 e p He Hlp').
      + (* a new branch: its number exceeds the counter *)
        destruct (CT e (hd 0 r) _ 1 He Er) as [c [Hc Hk]].
        rewrite Hc in Hk. lia.
    - cbn [fst] in Er. destruct (nlookup 0 (ms_counts st2)) as [c|] eqn:Ec.
      + cbn [Nat.eqb] in Er. destruct (CT e 0 (S c) 1 He Er) as [c' [Hc Hk]]. rewrite Ec in Hc. injection Hc as <-. lia.
      + apply RT; [intros E0; rewrite E0 in He; contradiction | reflexivity]. }
  split; cbn [ms_sched ms_claimed ms_counts].
  - (* NoDup *) cbn [ms_revnos map e_revno snd]. constructor; [exact Fresh | exact ND].
  - (* counts *)
    assert (Mono : forall a c, nlookup a (ms_counts st2) = Some c -> exists c', nlookup a (snd nn) = Some c' /\ c <= c').
    { intros a c Hc. unfold nn, number_node. destruct pr as [r|].
      - destruct fc; cbn [snd]; [exists c; split; [exact Hc | lia]|].
        rewrite nlookup_nset. destruct (hd 0 r =? a) eqn:E; [|exists c; split; [exact Hc | lia]].
        apply Nat.eqb_eq in E. subst a. rewrite Hc. eexists. split; [reflexivity | lia].
      - cbn [snd]. rewrite nlookup_nset. destruct (0 =? a) eqn:E; [|exists c; split; [exact Hc | lia]].
        apply Nat.eqb_eq in E. subst a. rewrite Hc. eexists. split; [reflexivity | lia]. }
    intros e a k x [<-|He] Er.
    + cbn [e_revno snd] in Er. unfold nn, number_node in Er |- *. destruct pr as [r|] eqn:Epr.
      * destruct fc; cbn [fst snd] in *.
        -- destruct (succ_three r a k x Er) as [x0 [Hr _]].
           destruct (Hpr r eq_refl) as [p [ep [_ [Hep [_ Erp]]]]].
           apply (CT ep a k x0 Hep). congruence.
        -- injection Er as <- <- <-. rewrite nlookup_nset, Nat.eqb_refl. eexists. split; [reflexivity | lia].
      * cbn [fst snd] in *. destruct (nlookup 0 (ms_counts st2)) as [c|]; cbn [Nat.eqb] in Er; [|discriminate].
        injection Er as <- <- <-. rewrite nlookup_nset. cbn [Nat.eqb]. eexists. split; [reflexivity | lia].
    + destruct (CT e a k x He Er) as [c [Hc Hk]]. destruct (Mono a c Hc) as [c' [Hc' Hle]].
      exists c'. split; [exact Hc' | lia].
  - (* root counter *)
    intros _. unfold nn. destruct pr as [r|] eqn:Epr.
    + apply number_node_counts0. apply RT.
      destruct (Hpr r eq_refl) as [p [ep [_ [Hep _]]]]. intros E0. rewrite E0 in Hep. contradiction.
    + unfold number_node. cbn [snd]. rewrite nlookup_nset. cbn. discriminate.
  - (* claimed *)
    intros e p [<-|He] Hp; [|apply (CM e p He Hp)].
    cbn [e_id fst] in Hp. apply Cl. fold lp in Hp. rewrite Hp. cbn [claim ms_claimed]. apply In_add. left. reflexivity.
  - (* successor form *)
    intros e [<-|He].
    + cbn [e_revno snd e_id fst]. unfold nn. destruct pr as [r|] eqn:Epr.
      * destruct fc eqn:Efc; [|left; apply number_node_not_first].
        right. destruct (Hpr r eq_refl) as [p [ep [Elp [Hep [Eip Erp]]]]].
        exists ep. split; [right; exact Hep|]. split; [fold lp; rewrite Elp, Eip; reflexivity|].
        unfold number_node. cbn [fst]. rewrite Erp. reflexivity.
      * left. apply number_node_root.
    + destruct (SU e He) as [L1|[ep [Hep [Hlp Es]]]]; [left; exact L1|].
      right. exists ep. split; [right; exact Hep | split; assumption].
  - (* last *)
    intros e [<-|He]; [exact Hlast | apply (LA e He)].
Qed.

(* ---- visits keep the invariant ------------------------------------------------------------- *)

Lemma fold_rev g f :
  (forall y d st, rev_inv g st -> rev_step g st (ms_visit g f y d st)) ->
  forall plan st, rev_inv g st -> rev_step g st (fold_left (ms_descend g f) plan st).
Proof.
  intros IH. induction plan as [|[q d] plan IHp]; intros st I; cbn [fold_left]; [apply rev_step_refl; exact I|].
  assert (S1 : rev_step g st (ms_descend g f st (q, d))).
  { unfold ms_descend. cbn [fst snd]. destruct (completed st q || ghost g q); [apply rev_step_refl; exact I | apply IH; exact I]. }
  eapply rev_step_trans; [exact S1 | apply IHp; apply S1].
Qed.

Theorem visit_rev g : forall f y d st, rev_inv g st -> rev_step g st (ms_visit g f y d st).
Proof.
  induction f as [|f IH]; intros y d st I; [apply rev_step_refl; exact I|].
  rewrite ms_visit_S. set (lp := left_parent g y).
  pose proof (rev_inv_claim g lp st I) as S0.
  pose proof (fold_rev g f IH (visit_plan (parents g y) d) (claim lp st) (proj1 S0)) as S1.
  set (st2 := fold_left (ms_descend g f) (visit_plan (parents g y) d) (claim lp st)) in *.
  destruct S1 as [I2 [C2 [new [En V]]]].
  assert (En' : ms_sched st2 = new ++ ms_sched st) by (rewrite En, claim_sched; reflexivity).
  pose proof (pop_rev g y d st st2 new I I2 En' C2 V) as I3. fold lp in I3.
  split; [exact I3|]. split.
  - intros x Hx. rewrite pop_node_claimed. apply C2. apply claim_claimed. exact Hx.
  - destruct (pop_node_sched y d lp (is_first_child lp st) st2) as [rv Ep].
    exists ((y, d, rv) :: new). split; [rewrite Ep, En'; reflexivity|].
    intros e q [<-|He] Hq Hc.
    + (* y itself: its left-hand parent had been claimed, so y is not a first child *)
      cbn [e_id fst] in Hq. cbn [e_revno snd].
      rewrite pop_node_eq in Ep. cbn [ms_sched] in Ep. injection Ep as Ep. rewrite <- Ep.
      assert (Efc : is_first_child lp st = false).
      { unfold is_first_child. fold lp in Hq. rewrite Hq. apply negb_false_iff. apply memb_In. exact Hc. }
      rewrite Efc. apply number_node_not_first.
    + apply (V e q He Hq). apply claim_claimed. exact Hc.
Qed.

Lemma rev_inv_init g : rev_inv g ms_init.
Proof.
  split; cbn; try contradiction; try (intros; contradiction); try constructor.
  all: intros H; exfalso; apply H; reflexivity.
Qed.

Lemma merge_sorted_rev_inv g (t : revid) : t < length g ->
  exists st, merge_sorted g (Some t) = ms_sched st /\ rev_inv g st.
Proof.
  intros L. unfold merge_sorted, present. rewrite (proj2 (Nat.ltb_lt t (length g)) L).
  eexists. split; [reflexivity|]. apply (visit_rev g (S t) t 0 ms_init (rev_inv_init g)).
Qed.

(* the dotted revnos of a merge-sorted list are pairwise distinct *)
Theorem merge_sorted_revnos_NoDup g tip : NoDup (ms_revnos (merge_sorted g tip)).
Proof.
  destruct tip as [t|]; [|constructor].
  destruct (Nat.lt_ge_cases t (length g)) as [L|G].
  - destruct (merge_sorted_rev_inv g t L) as [st [E I]]. rewrite E. apply (ri_nodup g st I).
  - unfold merge_sorted, present. rewrite (proj2 (Nat.ltb_ge t (length g)) G). constructor.
Qed.

(* ---- development lines are chains of left-hand parents ---------------------------------------- *)

Lemma left_parent_lefthand g z p : wf_dag g = true -> z < length g -> left_parent g z = Some p ->
  lefthand g z = z :: lefthand g p.
Proof.
  intros W L H. rewrite (lefthand_unfold g z W L). unfold left_parent in H.
  destruct (parents g z) as [|q qs]; [discriminate|]. destruct (present g q); [|discriminate].
  injection H as ->. reflexivity.
Qed.

Theorem merge_sorted_same_line g (t : revid) : wf_dag g = true -> t < length g ->
  forall es ee a k x y, In es (merge_sorted g (Some t)) -> In ee (merge_sorted g (Some t)) ->
  e_revno es = [a; k; x] -> e_revno ee = [a; k; y] -> x <= y ->
  In (e_id es) (lefthand g (e_id ee)).
Proof.
  intros W L es ee a k x y Hes Hee Ers Ere Le.
  assert (Pres : forall e, In e (merge_sorted g (Some t)) -> e_id e < length g).
  { intros e He. apply (merge_sorted_ids g t (e_id e) W L). unfold ms_ids. apply in_map. exact He. }
  destruct (merge_sorted_rev_inv g t L) as [st [E I]]. rewrite E in *.
  remember (y - x) as n eqn:En. revert ee y Hee Ere Le En.
  induction n as [|n IH]; intros ee y Hee Ere Le En.
  - assert (y = x) by lia. subst y.
    assert (es = ee) by (apply (nodup_revno_entry _ es ee (ri_nodup g st I) Hes Hee); congruence).
    subst ee. apply In_lefthand_self.
  - destruct (ri_succ g st I ee Hee) as [L1|[ep [Hep [Hlp Es]]]].
    + rewrite Ere in L1. cbn in L1. subst y.
      assert (1 <= last (e_revno es) 0) by (apply (ri_last g st I es Hes)). rewrite Ers in H. cbn in H. lia.
    + rewrite Ere in Es. symmetry in Es. destruct (succ_three _ a k y Es) as [y0 [Erp Ey]].
      rewrite (left_parent_lefthand g (e_id ee) (e_id ep) W (Pres ee Hee) Hlp). right.
      apply (IH ep y0 Hep Erp); lia.
Qed.
