(* Theory/SmartCk.v -- ChunkedBodyDecoder (C29, C30). *)
From Coq Require Import String ZArith NArith Bool List Lia.
From BV Require Import Lib.Bytes Model.Smart Theory.SmartNum Theory.SmartSeg Theory.SmartLP.
Import ListNotations.
Open Scope N_scope.

Lemma bytes_eqb_true a b : bytes_eqb a b = true -> a = b.
Proof.
  unfold bytes_eqb. revert b; induction a as [|x a IH]; intros [|y b] H; try discriminate; [reflexivity|].
  apply andb_prop in H. destruct H as [H1 H2]. apply N.eqb_eq in H1. subst y. f_equal. apply IH. exact H2.
Qed.
Lemma bytes_eqb_refl a : bytes_eqb a a = true.
Proof. unfold bytes_eqb. induction a as [|x a IH]; [reflexivity|]. rewrite N.eqb_refl. exact IH. Qed.

Lemma ck_body_ext rec1 rec2 m buf :
  (forall m' buf', (ck_mu m' buf' < ck_mu m buf)%nat -> rec1 m' buf' = rec2 m' buf') ->
  ck_body rec1 m buf = ck_body rec2 m buf.
Proof.
  intros H. destruct m as [|err chunks|l cur err chunks|err chunks u|e]; cbn [ck_body]; try reflexivity.
  - unfold find_nl. destruct (find_byte NL buf) as [[line rest]|] eqn:E; [|reflexivity].
    apply find_byte_length in E. destruct (bytes_eqb line CHUNKED); [|reflexivity].
    apply H. unfold ck_mu. lia.
  - unfold find_nl. destruct (find_byte NL buf) as [[line rest]|] eqn:E; [|reflexivity].
    apply find_byte_length in E.
    destruct (bytes_eqb line ERR); [apply H; unfold ck_mu; lia|].
    destruct (bytes_eqb line END_); [reflexivity|].
    destruct (parse_hex line); [apply H; unfold ck_mu; lia|reflexivity].
  - destruct (l <=? N.of_nat (length buf)); [|reflexivity].
    destruct (ck_push _ err chunks) as [e' c']. apply H. unfold ck_mu. rewrite skipn_length. lia.
Qed.

Lemma ck_run_eq m buf : ck_run m buf = ck_body ck_run m buf.
Proof. exact (run_eq ck_mode ck_body ck_mu ck_body_ext m buf). Qed.

Lemma ck_run_app : forall n m buf b, (ck_mu m buf < n)%nat ->
  ck_run (fst (ck_run m buf)) (snd (ck_run m buf) ++ b) = ck_run m (buf ++ b).
Proof.
  induction n as [|n IH]; intros m buf b Hn; [lia|].
  rewrite (ck_run_eq m (buf ++ b)).
  remember (ck_run m buf) as r eqn:Er. rewrite ck_run_eq in Er.
  destruct m as [|err chunks|l cur err chunks|err chunks u|e]; cbn [ck_body] in *.
  - unfold find_nl in *. destruct (find_byte NL buf) as [[line rest]|] eqn:E.
    + rewrite (find_byte_app_some _ _ _ _ b E). pose proof (find_byte_length _ _ _ _ E) as HL.
      destruct (bytes_eqb line CHUNKED).
      * subst r. apply IH. unfold ck_mu in *. lia.
      * subst r. cbn [fst snd app]. rewrite ck_run_eq. reflexivity.
    + subst r. cbn [fst snd]. rewrite ck_run_eq. reflexivity.
  - unfold find_nl in *. destruct (find_byte NL buf) as [[line rest]|] eqn:E.
    + rewrite (find_byte_app_some _ _ _ _ b E). pose proof (find_byte_length _ _ _ _ E) as HL.
      destruct (bytes_eqb line ERR); [subst r; apply IH; unfold ck_mu in *; lia|].
      destruct (bytes_eqb line END_).
      * subst r. cbn [fst snd app]. rewrite ck_run_eq. reflexivity.
      * destruct (parse_hex line).
        -- subst r. apply IH. unfold ck_mu in *. lia.
        -- subst r. cbn [fst snd app]. rewrite ck_run_eq. reflexivity.
    + subst r. cbn [fst snd]. rewrite ck_run_eq. reflexivity.
  - rewrite app_length. destruct (l <=? N.of_nat (length buf)) eqn:E.
    + apply N.leb_le in E.
      assert (E' : (l <=? N.of_nat (length buf + length b)) = true) by (apply N.leb_le; lia).
      rewrite E'. rewrite firstn_app_le by lia. rewrite skipn_app_le by lia.
      destruct (ck_push (cur ++ firstn (N.to_nat l) buf) err chunks) as [e' c'].
      subst r. apply IH. unfold ck_mu in *. rewrite skipn_length. lia.
    + apply N.leb_gt in E. subst r. cbn [fst snd app]. rewrite ck_run_eq. cbn [ck_body].
      destruct (l - N.of_nat (length buf) <=? N.of_nat (length b)) eqn:E2.
      * apply N.leb_le in E2.
        assert (E' : (l <=? N.of_nat (length buf + length b)) = true) by (apply N.leb_le; lia).
        rewrite E'. rewrite firstn_app_ge by lia. rewrite skipn_app_ge by lia.
        replace (N.to_nat l - length buf)%nat with (N.to_nat (l - N.of_nat (length buf))) by lia.
        rewrite <- app_assoc. reflexivity.
      * apply N.leb_gt in E2.
        assert (E' : (l <=? N.of_nat (length buf + length b)) = false) by (apply N.leb_gt; lia).
        rewrite E'. rewrite <- app_assoc. do 2 f_equal. lia.
  - subst r. cbn [fst snd app]. rewrite ck_run_eq. cbn [ck_body]. rewrite app_assoc. reflexivity.
  - subst r. cbn [fst snd app]. rewrite ck_run_eq. reflexivity.
Qed.

(* segmentation independence of ChunkedBodyDecoder.accept_bytes, every state *)
Theorem ck_accept_app s a b : ck_accept (ck_accept s a) b = ck_accept s (a ++ b).
Proof.
  unfold ck_accept. rewrite app_assoc.
  apply (ck_run_app (S (ck_mu (fst s) (snd s ++ a)))). lia.
Qed.

(* ------------------------------------------------- whole lines and chunks *)

Lemma NL_not_hex : is_hex_char NL = false. Proof. reflexivity. Qed.

Lemma ck_header rest : ck_run CkHeader (CHUNKED ++ NL :: rest) = ck_run (CkLength None []) rest.
Proof.
  rewrite ck_run_eq. cbn [ck_body]. unfold find_nl.
  rewrite (find_byte_first NL CHUNKED rest eq_refl). reflexivity.
Qed.

Lemma ck_err_line err chunks rest :
  ck_run (CkLength err chunks) (ERR ++ NL :: rest) = ck_run (CkLength (Some []) chunks) rest.
Proof.
  rewrite ck_run_eq. cbn [ck_body]. unfold find_nl.
  rewrite (find_byte_first NL ERR rest eq_refl). reflexivity.
Qed.

Lemma ck_end_line err chunks rest :
  ck_run (CkLength err chunks) (END_ ++ NL :: rest) = (CkDone err chunks rest, []).
Proof.
  rewrite ck_run_eq. cbn [ck_body]. unfold find_nl.
  rewrite (find_byte_first NL END_ rest eq_refl). reflexivity.
Qed.

Lemma print_hex_not_ERR n : bytes_eqb (print_hex n) ERR = false.
Proof.
  destruct (bytes_eqb (print_hex n) ERR) eqn:E; [|reflexivity].
  apply bytes_eqb_true in E. pose proof (print_hex_chars n) as H. rewrite E in H. discriminate.
Qed.
Lemma print_hex_not_END n : bytes_eqb (print_hex n) END_ = false.
Proof.
  destruct (bytes_eqb (print_hex n) END_) eqn:E; [|reflexivity].
  apply bytes_eqb_true in E. pose proof (print_hex_chars n) as H. rewrite E in H. discriminate.
Qed.

Lemma ck_length_line n err chunks rest :
  ck_run (CkLength err chunks) (print_hex n ++ NL :: rest) = ck_run (CkChunk n [] err chunks) rest.
Proof.
  rewrite ck_run_eq. cbn [ck_body]. unfold find_nl.
  rewrite (find_byte_first NL (print_hex n) rest (print_hex_no NL n NL_not_hex)).
  rewrite print_hex_not_ERR, print_hex_not_END, parse_print_hex. reflexivity.
Qed.

Lemma ck_chunk c err chunks rest :
  ck_run (CkLength err chunks) (encode_chunk c ++ rest) =
  ck_run (CkLength (fst (ck_push c err chunks)) (snd (ck_push c err chunks))) rest.
Proof.
  unfold encode_chunk. rewrite <- !app_assoc. cbn [app]. rewrite ck_length_line.
  rewrite ck_run_eq. cbn [ck_body]. rewrite app_length.
  assert (E : (N.of_nat (length c) <=? N.of_nat (length c + length rest)) = true) by (apply N.leb_le; lia).
  rewrite E, Nat2N.id. rewrite firstn_app_ge by lia. rewrite skipn_app_ge by lia.
  rewrite Nat.sub_diag. cbn [firstn skipn app]. rewrite app_nil_r.
  destruct (ck_push c err chunks). reflexivity.
Qed.

Lemma ck_chunks_plain cs : forall chunks rest,
  ck_run (CkLength None chunks) (encode_chunks cs ++ rest) = ck_run (CkLength None (chunks ++ cs)) rest.
Proof.
  induction cs as [|c cs IH]; intros chunks rest; cbn [encode_chunks map concat app].
  - rewrite app_nil_r. reflexivity.
  - rewrite <- app_assoc. rewrite ck_chunk. cbn [ck_push fst snd].
    change (concat (map encode_chunk cs)) with (encode_chunks cs). rewrite IH, <- app_assoc. reflexivity.
Qed.

Lemma ck_chunks_error cs : forall e chunks rest,
  ck_run (CkLength (Some e) chunks) (encode_chunks cs ++ rest) = ck_run (CkLength (Some (e ++ cs)) chunks) rest.
Proof.
  induction cs as [|c cs IH]; intros e chunks rest; cbn [encode_chunks map concat app].
  - rewrite app_nil_r. reflexivity.
  - rewrite <- app_assoc. rewrite ck_chunk. cbn [ck_push fst snd].
    change (concat (map encode_chunk cs)) with (encode_chunks cs). rewrite IH, <- app_assoc. reflexivity.
Qed.

(* the single-segment round trip, with and without an error after the chunks *)
Theorem ck_roundtrip_one cs err tail :
  ck_accept ck_init (encode_stream cs err ++ tail) = (CkDone err cs tail, []).
Proof.
  unfold ck_accept, ck_init, encode_stream. cbn [fst snd].
  rewrite <- !app_assoc. cbn [app]. rewrite ck_header, ck_chunks_plain. cbn [app].
  destruct err as [args|].
  - rewrite <- !app_assoc. cbn [app]. rewrite ck_err_line, ck_chunks_error. cbn [app].
    apply ck_end_line.
  - cbn [app]. apply ck_end_line.
Qed.

Lemma encode_stream_nonempty cs err : encode_stream cs err <> [].
Proof. unfold encode_stream. discriminate. Qed.

(* C29, streamed bodies: any segmentation; an error after k chunks is decoded as
   the k chunks followed by the same error tuple *)
Theorem ck_decode_encode_any_segmentation cs err tail segs :
  concat segs = encode_stream cs err ++ tail ->
  fold_left ck_accept segs ck_init = (CkDone err cs tail, []).
Proof.
  intros H. destruct segs as [|seg segs].
  - cbn [concat] in H. symmetry in H. apply app_eq_nil in H. destruct H as [H _].
    exfalso. exact (encode_stream_nonempty cs err H).
  - rewrite (fold_accept_init _ ck_accept ck_accept_app). cbn [concat] in H |- *. rewrite H.
    apply ck_roundtrip_one.
Qed.

(* ----------------------------------------------------------------- C30 *)

Inductive ck_block := BChunk (c : bytes) | BErr.
Definition ck_encb (b : ck_block) : bytes :=
  match b with BChunk c => encode_chunk c | BErr => ERR ++ [NL] end.
Definition ck_fin : bytes := END_ ++ [NL].
Definition ck_bnd (s : ck_state) : Prop := exists err chunks, s = (CkLength err chunks, []).

Definition ck_blocks (cs : list bytes) (err : option (list bytes)) : list ck_block :=
  map BChunk cs ++ match err with Some args => BErr :: map BChunk args | None => [] end.

Lemma encode_stream_blocks cs err :
  encode_stream cs err = CHUNKED ++ [NL] ++ concat (map ck_encb (ck_blocks cs err)) ++ ck_fin.
Proof.
  unfold encode_stream, ck_blocks, encode_chunks, ck_fin. do 2 f_equal.
  rewrite map_app, concat_app, map_map. cbn [ck_encb]. rewrite <- app_assoc. f_equal.
  destruct err as [args|]; cbn [map concat app ck_encb]; [|reflexivity].
  rewrite map_map. cbn [ck_encb]. rewrite <- !app_assoc. reflexivity.
Qed.

Lemma ck_settled_line err chunks p :
  memb NL p = false -> ck_run (CkLength err chunks) p = (CkLength err chunks, p).
Proof.
  intros H. rewrite ck_run_eq. cbn [ck_body]. unfold find_nl. rewrite (find_byte_absent _ _ H). reflexivity.
Qed.

Lemma memb_app_l b (p l : bytes) : memb b (p ++ l) = false -> memb b p = false.
Proof. unfold memb. rewrite existsb_app. intros H. apply orb_false_elim in H. tauto. Qed.

Lemma ck_line_hint err chunks (p : bytes) (k : nat) :
  (1 <= k)%nat -> (2 <= length p + k)%nat ->
  (0 < ck_hint (CkLength err chunks, p) <= Z.of_nat k)%Z \/ (p = [] /\ (0 < ck_hint (CkLength err chunks, p) <= 2)%Z).
Proof. intros H1 H2. destruct p; [right|left]; cbn [ck_hint fst snd]; [split; [reflexivity|lia]|lia]. Qed.

Lemma ck_full s b : ck_bnd s -> True -> ck_bnd (ck_accept s (ck_encb b)).
Proof.
  intros [err [chunks ->]] _. unfold ck_accept. cbn [fst snd app].
  destruct b as [c|]; cbn [ck_encb].
  - rewrite <- (app_nil_r (encode_chunk c)), ck_chunk.
    rewrite ck_settled_line by reflexivity. eexists; eexists; reflexivity.
  - cbn [app]. change (69 :: 82 :: 82 :: [NL]) with (ERR ++ NL :: []). rewrite ck_err_line.
    rewrite ck_settled_line by reflexivity. eexists; eexists; reflexivity.
Qed.

(* inside a line of the stream (no "\n" received yet) *)
Lemma ck_in_line err chunks (line p r : bytes) :
  memb NL line = false -> p ++ r = line ++ [NL] -> r <> [] ->
  ck_finished (ck_accept (CkLength err chunks, []) p) = false /\
  (0 < ck_hint (ck_accept (CkLength err chunks, []) p) <= Z.of_nat (length r + (if p then 1 else 0)))%Z.
Proof.
  intros Hl Hs Hr. unfold ck_accept. cbn [fst snd app].
  assert (Hp : memb NL p = false).
  { destruct r as [|c r] using rev_ind; [congruence|]. clear IHr.
    rewrite app_assoc in Hs. apply app_inj_tail in Hs. destruct Hs as [Hs _].
    rewrite <- Hs in Hl. exact (memb_app_l _ _ _ Hl). }
  rewrite (ck_settled_line _ _ _ Hp). split; [reflexivity|].
  destruct p; cbn [ck_hint fst snd]; destruct r; try congruence; cbn [length]; lia.
Qed.

Lemma ck_in_data err chunks (c l r : bytes) : c = l ++ r -> r <> [] ->
  ck_finished (ck_accept (CkLength err chunks, []) ((print_hex (N.of_nat (length c)) ++ [NL]) ++ l)) = false /\
  (0 < ck_hint (ck_accept (CkLength err chunks, []) ((print_hex (N.of_nat (length c)) ++ [NL]) ++ l))
     <= Z.of_nat (length r + 4))%Z.
Proof.
  intros H2 Hr. unfold ck_accept. cbn [fst snd app]. rewrite <- app_assoc. cbn [app].
  rewrite ck_length_line, ck_run_eq. cbn [ck_body].
  assert (Hc : length c = (length l + length r)%nat) by (rewrite H2, app_length; reflexivity).
  assert (Hr' : (1 <= length r)%nat) by (destruct r; [congruence|cbn [length]; lia]).
  assert (E : (N.of_nat (length c) <=? N.of_nat (length l)) = false) by (apply N.leb_gt; lia).
  rewrite E. cbn [ck_finished ck_hint fst]. split; [reflexivity|lia].
Qed.

Lemma ck_part s b p r : ck_bnd s -> True -> p ++ r = ck_encb b -> r <> [] ->
  ck_finished (ck_accept s p) = false /\ (0 < ck_hint (ck_accept s p) <= Z.of_nat (length r + 4))%Z.
Proof.
  intros [err [chunks ->]] _ Hs Hr. destruct b as [c|]; cbn [ck_encb] in Hs.
  - unfold encode_chunk in Hs.
    rewrite app_assoc in Hs. apply app_eq_app in Hs. destruct Hs as [l [[H1 H2]|[H1 H2]]].
    + (* p = digits ++ "\n" ++ l : inside the chunk data *)
      subst p. apply ck_in_data; assumption.
    + destruct l as [|x l].
      * (* exactly the length line *)
        rewrite app_nil_r in H1. cbn [app] in H2. subst p r.
        rewrite <- (app_nil_r (print_hex _ ++ [NL])). apply ck_in_data; [reflexivity|exact Hr].
      * (* still in the length line *)
        destruct (ck_in_line err chunks (print_hex (N.of_nat (length c))) p (x :: l)
                    (print_hex_no NL _ NL_not_hex) (eq_sym H1) ltac:(discriminate)) as [Hf Hh].
        split; [exact Hf|]. subst r. rewrite app_length. destruct p; lia.
  - destruct (ck_in_line err chunks ERR p r eq_refl Hs Hr) as [Hf Hh].
    split; [exact Hf|]. destruct p; lia.
Qed.

Lemma ck_fin_part s p r : ck_bnd s -> p ++ r = ck_fin -> r <> [] ->
  ck_finished (ck_accept s p) = false /\ (0 < ck_hint (ck_accept s p) <= Z.of_nat (length r))%Z.
Proof.
  intros [err [chunks ->]] Hs Hr.
  destruct (ck_in_line err chunks END_ p r eq_refl Hs Hr) as [Hf Hh].
  split; [exact Hf|]. destruct p as [|x p]; [|lia].
  cbn [app] in Hs. subst r. cbn in *. lia.
Qed.

Theorem ck_prefix_ok cs err p q :
  p ++ q = encode_stream cs err -> q <> [] ->
  ck_finished (ck_accept ck_init p) = false /\
  (0 < ck_hint (ck_accept ck_init p) <= Z.of_nat (length q))%Z.
Proof.
  rewrite encode_stream_blocks. intros Hs Hq.
  rewrite app_assoc in Hs. apply app_eq_app in Hs. destruct Hs as [l [[H1 H2]|[H1 H2]]].
  - (* past the header line *)
    subst p. rewrite <- (ck_accept_app ck_init).
    assert (Hb : ck_bnd (ck_accept ck_init (CHUNKED ++ [NL]))).
    { exists None, []. unfold ck_accept, ck_init. cbn [fst snd app].
      change (99 :: 104 :: 117 :: 110 :: 107 :: 101 :: 100 :: [NL]) with (CHUNKED ++ NL :: []).
      rewrite ck_header. apply ck_settled_line. reflexivity. }
    apply (blocks_prefix_ok ck_state ck_accept ck_accept_app ck_hint ck_finished ck_block ck_encb ck_fin ck_bnd 4
             (fun _ => True) ltac:(cbn; lia) ck_full ck_part ck_fin_part (ck_blocks cs err) _ l q Hb);
      [apply Forall_forall; intros; exact I|symmetry; exact H2|exact Hq].
  - (* inside "chunked\n" *)
    destruct l as [|c l].
    + rewrite app_nil_r in H1. cbn [app] in H2. subst q p.
      unfold ck_accept, ck_init. cbn [fst snd app].
      change (99 :: 104 :: 117 :: 110 :: 107 :: 101 :: 100 :: [NL]) with (CHUNKED ++ NL :: []).
      rewrite ck_header, ck_settled_line by reflexivity.
      split; [reflexivity|]. cbn [ck_hint fst snd]. rewrite app_length. cbn. lia.
    + unfold ck_accept, ck_init. cbn [fst snd app].
      assert (Hp : memb NL p = false).
      { assert (Hx : memb NL (removelast (CHUNKED ++ [NL])) = false) by reflexivity.
        rewrite H1 in Hx. rewrite removelast_app in Hx by discriminate. exact (memb_app_l _ _ _ Hx). }
      rewrite ck_run_eq. cbn [ck_body]. unfold find_nl. rewrite (find_byte_absent _ _ Hp).
      split; [reflexivity|]. cbn [ck_hint fst snd].
      apply (f_equal (@length N)) in H1. rewrite !app_length in H1. cbn [length app CHUNKED] in H1.
      subst q. rewrite app_length. cbn [length]. lia.
Qed.

Lemma ck_init_ok cs err :
  ck_finished ck_init = false /\ (0 < ck_hint ck_init <= Z.of_nat (length (encode_stream cs err)))%Z.
Proof.
  split; [reflexivity|]. unfold encode_stream. rewrite app_length. cbn [ck_hint ck_init fst snd length CHUNKED]. cbn [app length]. lia.
Qed.

Lemma ck_done_ok cs err : ck_finished (ck_accept ck_init (encode_stream cs err)) = true.
Proof. rewrite <- (app_nil_r (encode_stream cs err)), ck_roundtrip_one. reflexivity. Qed.
