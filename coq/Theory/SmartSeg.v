(* Theory/SmartSeg.v -- decoder-independent facts (C29, C30):
   - the state loop of _StatefulDecoder.accept_bytes does not depend on fuel;
   - a decoder whose accept satisfies  accept (accept s a) b = accept s (a ++ b)
     is insensitive to the segmentation of the byte stream;
   - the hint invariant along block-structured messages;
   - the hint-driven read loop never over-asks and stops at the message end. *)
From Coq Require Import String ZArith NArith Bool List Lia.
From BV Require Import Lib.Bytes Model.Smart.
Import ListNotations.

Section LoopFacts.
  Variable M : Type.
  Variable body : (M -> bytes -> M * bytes) -> M -> bytes -> M * bytes.
  Variable mu : M -> bytes -> nat.
  (* the state function only continues the loop on a smaller measure *)
  Hypothesis body_ext : forall rec1 rec2 m buf,
      (forall m' buf', (mu m' buf' < mu m buf)%nat -> rec1 m' buf' = rec2 m' buf') ->
      body rec1 m buf = body rec2 m buf.

  Lemma loop_stable : forall f1 f2 m buf,
      (mu m buf < f1)%nat -> (mu m buf < f2)%nat -> loop M body f1 m buf = loop M body f2 m buf.
  Proof.
    induction f1 as [|f1 IH]; intros f2 m buf H1 H2; [lia|].
    destruct f2 as [|f2]; [lia|]. cbn [loop]. apply body_ext.
    intros m' buf' Hlt. apply IH; lia.
  Qed.

  Lemma run_eq m buf : run M body mu m buf = body (run M body mu) m buf.
  Proof.
    unfold run at 1. cbn [loop]. apply body_ext. intros m' buf' Hlt.
    unfold run. apply loop_stable; lia.
  Qed.
End LoopFacts.

Section Seg.
  Variable St : Type.
  Variable accept : St -> bytes -> St.
  Hypothesis accept_app : forall s a b, accept (accept s a) b = accept s (a ++ b).

  Lemma fold_accept : forall segs s a,
      fold_left accept segs (accept s a) = accept s (a ++ concat segs).
  Proof.
    induction segs as [|seg segs IH]; intros s a; cbn [fold_left concat].
    - rewrite app_nil_r. reflexivity.
    - rewrite accept_app, IH, app_assoc. reflexivity.
  Qed.

  (* any segmentation with at least one segment = one big segment *)
  Lemma fold_accept_init : forall seg segs s,
      fold_left accept (seg :: segs) s = accept s (concat (seg :: segs)).
  Proof. intros. cbn [fold_left concat]. apply fold_accept. Qed.

  (* ---- the hint invariant, given per-prefix facts for one message [enc] *)
  Variable hint : St -> Z.
  Variable finished : St -> bool.
  Variable init : St.
  Variable enc : bytes.
  Hypothesis prefix_ok : forall p q, p ++ q = enc -> q <> [] ->
      finished (accept init p) = false /\ (0 < hint (accept init p) <= Z.of_nat (length q))%Z.
  Hypothesis init_ok : finished init = false /\ (0 < hint init <= Z.of_nat (length enc))%Z.
  Hypothesis done_ok : finished (accept init enc) = true.

  Theorem hint_any_segmentation : forall segs q,
      concat segs ++ q = enc -> q <> [] ->
      finished (fold_left accept segs init) = false /\
      (0 < hint (fold_left accept segs init) <= Z.of_nat (length q))%Z.
  Proof.
    intros [|seg segs] q Hcat Hq.
    - cbn [concat app] in Hcat. subst q. cbn [fold_left]. exact init_ok.
    - rewrite fold_accept_init. apply prefix_ok; assumption.
  Qed.

  Theorem finished_iff_consumed : forall segs q,
      concat segs ++ q = enc ->
      (finished (fold_left accept segs init) = true <-> q = []).
  Proof.
    intros segs q Hcat. split.
    - intros Hf. destruct q as [|c q]; [reflexivity|].
      destruct (hint_any_segmentation segs (c :: q) Hcat ltac:(discriminate)) as [Hnf _].
      congruence.
    - intros ->. rewrite app_nil_r in Hcat. destruct segs as [|seg segs].
      + cbn [concat] in Hcat. subst enc. destruct init_ok as [_ Hh]. cbn [length] in Hh. lia.
      + rewrite fold_accept_init. pose proof done_ok as D. rewrite <- Hcat in D. exact D.
  Qed.

  (* ---- the read loop of the pipe medium / client: reads of 1..hint bytes *)
  Definition rl_inv (s : St) (q : bytes) : Prop :=
    (s = init /\ q = enc) \/ (exists p, s = accept init p /\ p ++ q = enc).

  Lemma rl_inv_unfinished s q : rl_inv s q -> q <> [] ->
      finished s = false /\ (0 < hint s <= Z.of_nat (length q))%Z.
  Proof.
    intros [[-> ->]|[p [-> Hp]]] Hq; [exact init_ok|apply prefix_ok; assumption].
  Qed.

  Lemma rl_inv_finished s : rl_inv s [] -> finished s = true.
  Proof.
    intros [[-> Henc]|[p [-> Hp]]].
    - destruct init_ok as [_ Hh]. rewrite <- Henc in Hh. cbn [length] in Hh. lia.
    - rewrite app_nil_r in Hp. subst p. exact done_ok.
  Qed.

  Lemma rl_amount_bounds k h : (0 < h)%Z -> (1 <= rl_amount k h)%nat /\ (Z.of_nat (rl_amount k h) <= h)%Z.
  Proof.
    intros Hh. unfold rl_amount. destruct (k =? 0)%N; [lia|].
    pose proof (Z.mod_pos_bound (Z.of_N (k - 1)) h Hh). lia.
  Qed.

  Lemma rl_inv_step s q n : rl_inv s q -> rl_inv (accept s (firstn n q)) (skipn n q).
  Proof.
    intros [[-> ->]|[p [-> Hp]]]; right.
    - exists (firstn n enc). split; [reflexivity|apply firstn_skipn].
    - exists (p ++ firstn n q). split; [apply accept_app|].
      rewrite <- app_assoc, firstn_skipn. exact Hp.
  Qed.

  Theorem read_loop_never_blocks : forall pol s q, rl_inv s q ->
      match read_loop St accept hint finished pol s q with
      | RlFinished s' left_over => left_over = [] /\ finished s' = true
      | RlWouldBlock _ _ _ => False
      | RlOutOfPolicy _ remaining => (length pol < length q)%nat /\ remaining <> []
      end.
  Proof.
    induction pol as [|k pol IH]; intros s q Hinv; cbn [read_loop].
    - destruct q as [|c q].
      + rewrite (rl_inv_finished s Hinv). split; [reflexivity|apply rl_inv_finished; assumption].
      + destruct (rl_inv_unfinished s (c :: q) Hinv ltac:(discriminate)) as [Hnf _].
        rewrite Hnf. split; [cbn [length]; lia|discriminate].
    - destruct q as [|c q].
      + rewrite (rl_inv_finished s Hinv). split; [reflexivity|apply rl_inv_finished; assumption].
      + destruct (rl_inv_unfinished s (c :: q) Hinv ltac:(discriminate)) as [Hnf [Hh1 Hh2]].
        rewrite Hnf.
        destruct (Z.of_nat (length (c :: q)) <? hint s)%Z eqn:E; [apply Z.ltb_lt in E; lia|].
        destruct (rl_amount_bounds k (hint s) Hh1) as [Hn1 _]. set (n := rl_amount k (hint s)) in *.
        specialize (IH _ _ (rl_inv_step s (c :: q) n Hinv)).
        destruct (read_loop St accept hint finished pol (accept s (firstn n (c :: q))) (skipn n (c :: q)))
          as [s' lo|s' a av|s' rem]; [exact IH|exact IH|].
        destruct IH as [IH1 IH2]. split; [|exact IH2].
        rewrite skipn_length in IH1. cbn [length] in *. lia.
  Qed.

  (* with enough policy entries the loop terminates having read exactly the message *)
  Corollary read_loop_finishes : forall pol, (length enc <= length pol)%nat ->
      exists s', read_loop St accept hint finished pol init enc = RlFinished s' [] /\ finished s' = true.
  Proof.
    intros pol Hlen.
    pose proof (read_loop_never_blocks pol init enc (or_introl (conj eq_refl eq_refl))) as H.
    destruct (read_loop St accept hint finished pol init enc) as [s' lo|s' a av|s' rem].
    - destruct H as [-> Hf]. exists s'. split; [reflexivity|exact Hf].
    - contradiction.
    - destruct H as [H _]. lia.
  Qed.
End Seg.

(* ---- block-structured messages: [concat (map encb bs) ++ fin].  After every
   whole block the decoder is at a boundary state; inside a block the hint may
   look [look] bytes beyond the block, and [fin] is at least that long. *)
Section Blocks.
  Variable St : Type.
  Variable accept : St -> bytes -> St.
  Hypothesis accept_app : forall s a b, accept (accept s a) b = accept s (a ++ b).
  Variable hint : St -> Z.
  Variable finished : St -> bool.
  Variable B : Type.
  Variable encb : B -> bytes.
  Variable fin : bytes.
  Variable bnd : St -> Prop.
  Variable look : nat.
  Variable okb : B -> Prop.          (* well-formedness of a block (e.g. length < 2^32) *)
  Hypothesis look_fin : (look <= length fin)%nat.
  Hypothesis full : forall s b, bnd s -> okb b -> bnd (accept s (encb b)).
  Hypothesis part : forall s b p r, bnd s -> okb b -> p ++ r = encb b -> r <> [] ->
      finished (accept s p) = false /\ (0 < hint (accept s p) <= Z.of_nat (length r + look))%Z.
  Hypothesis fin_part : forall s p r, bnd s -> p ++ r = fin -> r <> [] ->
      finished (accept s p) = false /\ (0 < hint (accept s p) <= Z.of_nat (length r))%Z.

  Theorem blocks_prefix_ok : forall bs s p r, bnd s -> Forall okb bs ->
      p ++ r = concat (map encb bs) ++ fin -> r <> [] ->
      finished (accept s p) = false /\ (0 < hint (accept s p) <= Z.of_nat (length r))%Z.
  Proof.
    induction bs as [|b bs IH]; intros s p r Hb Hok Hsplit Hr; cbn [map concat] in Hsplit.
    - cbn [app] in Hsplit. apply fin_part; assumption.
    - inversion Hok as [|? ? Hokb Hokbs]; subst.
      rewrite <- app_assoc in Hsplit.
      apply app_eq_app in Hsplit. destruct Hsplit as [l [[H1 H2]|[H1 H2]]].
      + (* p reaches beyond block b *)
        subst p. rewrite <- accept_app.
        apply IH; [apply full; assumption|exact Hokbs|symmetry; exact H2|exact Hr].
      + (* the split point is inside (or at the end of) block b *)
        destruct l as [|c l].
        * rewrite app_nil_r in H1. cbn [app] in H2. subst r.
          rewrite <- H1, <- (app_nil_r (encb b)), <- accept_app.
          apply IH; [apply full; assumption|exact Hokbs|reflexivity|exact Hr].
        * destruct (part s b p (c :: l) Hb Hokb (eq_sym H1) ltac:(discriminate)) as [Hf [Hh1 Hh2]].
          split; [exact Hf|]. subst r. rewrite app_length, app_length.
          assert (look <= length (concat (map encb bs)) + length fin)%nat by lia. lia.
  Qed.
End Blocks.
