(* Theory/Jail.v -- proofs about Model/Jail.v (C31). *)
From Coq Require Import NArith List Bool String Lia.
From BV Require Import Lib.Bytes Lib.Obs Model.Jail.
Import ListNotations.
Open Scope N_scope.

(* ---------- generic ---------- *)
Lemma bytes_eqb_true a b : bytes_eqb a b = true -> a = b.
Proof.
  revert b; induction a as [|x a IH]; intros [|y b] H; simpl in H; try discriminate; auto.
  apply andb_true_iff in H as [H1 H2]. apply N.eqb_eq in H1. subst. f_equal. apply IH. exact H2.
Qed.

Lemma bytes_eqb_refl a : bytes_eqb a a = true.
Proof. induction a as [|x a IH]; simpl; auto. rewrite N.eqb_refl. exact IH. Qed.

(* induction that may skip two elements (the %XY scanners recurse that way) *)
Lemma skip2_ind (P : bytes -> Prop) :
  P [] ->
  (forall c t, P t -> (forall a b r, t = a :: b :: r -> P r) -> P (c :: t)) ->
  forall s, P s.
Proof.
  intros H0 Hs s.
  assert (H : P s /\ P (tl s) /\ P (tl (tl s))).
  { induction s as [|c t IH]; simpl; [auto|].
    destruct IH as (I1 & I2 & I3). split; [|auto].
    apply Hs; [exact I1|]. intros a b r E. subst t. exact I3. }
  apply H.
Qed.

Lemma prefixb_app p s : prefixb p s = true -> s = p ++ skipn (List.length p) s.
Proof.
  revert s; induction p as [|x p IH]; intros s H; simpl; [reflexivity|].
  destruct s as [|y s]; simpl in H; [discriminate|].
  apply andb_true_iff in H as [H1 H2]. apply N.eqb_eq in H1. subst. f_equal. apply IH, H2.
Qed.

Lemma wf_skipn n s : wf_bytes s = true -> wf_bytes (skipn n s) = true.
Proof.
  revert s; induction n as [|n IH]; intros s H; [exact H|].
  destruct s as [|c s]; [exact H|]. simpl. apply IH.
  unfold wf_bytes in H. simpl in H. apply andb_true_iff in H. apply H.
Qed.

(* ---------- split / join ---------- *)
Definition noslash (g : bytes) : bool := forallb (fun c => negb (c =? SLASH)) g.

Lemma split_cons s : exists g gs, split_slash s = g :: gs.
Proof.
  induction s as [|c r IH]; simpl; [eauto|].
  destruct (c =? SLASH); [eauto|]. destruct IH as (g & gs & E). rewrite E. eauto.
Qed.

Lemma split_noslash s : Forall (fun g => noslash g = true) (split_slash s).
Proof.
  induction s as [|c r IH]; simpl; [repeat constructor|].
  destruct (c =? SLASH) eqn:E; [constructor; [reflexivity|exact IH]|].
  destruct (split_slash r) as [|g gs]; [repeat constructor; simpl; rewrite E; reflexivity|].
  inversion IH; subst. constructor; [|assumption]. simpl. rewrite E. assumption.
Qed.

Lemma split_app_noslash p s :
  noslash p = true ->
  split_slash (p ++ s) = match split_slash s with g :: gs => (p ++ g) :: gs | [] => [p] end.
Proof.
  induction p as [|c p IH]; intros H; simpl.
  - destruct (split_cons s) as (g & gs & E). rewrite E. reflexivity.
  - simpl in H. apply andb_true_iff in H as [H1 H2]. apply negb_true_iff in H1. rewrite H1.
    rewrite (IH H2). destruct (split_cons s) as (g & gs & E). rewrite E. reflexivity.
Qed.

Lemma split_noslash_single p : noslash p = true -> split_slash p = [p].
Proof.
  intros H. rewrite <- (app_nil_r p) at 1. rewrite (split_app_noslash p [] H). simpl.
  rewrite app_nil_r. reflexivity.
Qed.

Lemma split_join l :
  l <> [] -> Forall (fun g => noslash g = true) l -> split_slash (join_slash l) = l.
Proof.
  induction l as [|p l IH]; intros Hn H; [congruence|].
  inversion H as [|? ? Hp Hl]; subst. destruct l as [|q l].
  - simpl. apply split_noslash_single, Hp.
  - change (join_slash (p :: q :: l)) with (p ++ [SLASH] ++ join_slash (q :: l)).
    rewrite (split_app_noslash _ _ Hp). simpl app. cbn [split_slash].
    rewrite N.eqb_refl. rewrite app_nil_r. rewrite IH; [reflexivity|discriminate|exact Hl].
Qed.

Lemma split_wf s : wf_bytes s = true -> Forall (fun g => wf_bytes g = true) (split_slash s).
Proof.
  unfold wf_bytes. induction s as [|c r IH]; simpl; intros H; [repeat constructor|].
  apply andb_true_iff in H as [H1 H2]. specialize (IH H2).
  destruct (c =? SLASH); [constructor; [reflexivity|exact IH]|].
  destruct (split_slash r) as [|g gs]; [repeat constructor; simpl; rewrite H1; reflexivity|].
  inversion IH; subst. constructor; [|assumption]. simpl. rewrite H1. assumption.
Qed.

(* ---------- canonical percent escapes ---------- *)
(* every '%' starts an upper-case escape of a byte outside urlutils.escape's safe set *)
Fixpoint pct_ok (s : bytes) : bool :=
  match s with
  | [] => true
  | c :: t =>
      if c =? PCT then
        match t with
        | a :: b :: r =>
            match hexval a, hexval b with
            | Some x, Some y =>
                negb (safe (16 * x + y)) && (upc a =? a) && (upc b =? b) && pct_ok r
            | _, _ => false
            end
        | _ => false
        end
      else pct_ok t
  end.

Definition segok (g : bytes) : bool := pct_ok g && noslash g && negb (bytes_eqb g dotdot).

Lemma segok_inv g : segok g = true -> pct_ok g = true /\ noslash g = true /\ g <> dotdot.
Proof.
  unfold segok. intros H. apply andb_true_iff in H as [H H3]. apply andb_true_iff in H as [H1 H2].
  repeat split; auto. intros ->. discriminate.
Qed.

Lemma segok_intro g : pct_ok g = true -> noslash g = true -> g <> dotdot -> segok g = true.
Proof.
  intros H1 H2 H3. unfold segok. rewrite H1, H2. simpl. apply negb_true_iff.
  destruct (bytes_eqb g dotdot) eqn:E; [|reflexivity]. apply bytes_eqb_true in E. contradiction.
Qed.

Lemma safe_unreserved v : safe v = false -> unreserved v = false /\ v <> SLASH /\ v <> DOT.
Proof.
  unfold safe. intros H. apply orb_false_iff in H as [H1 H2]. repeat split; auto.
  - apply N.eqb_neq, H2.
  - intros ->. discriminate.
Qed.

Lemma hexval_not_special a x : hexval a = Some x -> a <> PCT /\ a <> SLASH /\ x < 16.
Proof.
  unfold hexval, rng. intros H.
  destruct ((48 <=? a) && (a <=? 57)) eqn:E1.
  { apply andb_true_iff in E1 as [A B]. apply N.leb_le in A, B. inversion H; subst.
    unfold PCT, SLASH. repeat split; lia. }
  destruct ((65 <=? a) && (a <=? 70)) eqn:E2.
  { apply andb_true_iff in E2 as [A B]. apply N.leb_le in A, B. inversion H; subst.
    unfold PCT, SLASH. repeat split; lia. }
  destruct ((97 <=? a) && (a <=? 102)) eqn:E3; [|discriminate].
  apply andb_true_iff in E3 as [A B]. apply N.leb_le in A, B. inversion H; subst.
  unfold PCT, SLASH. repeat split; lia.
Qed.

Lemma normpct_id : forall s, pct_ok s = true -> normpct s = s.
Proof.
  apply (skip2_ind (fun s => pct_ok s = true -> normpct s = s)); [reflexivity|].
  intros c t IHt IHr H. cbn [pct_ok normpct] in *.
  destruct (c =? PCT) eqn:E; [|f_equal; apply IHt, H].
  destruct t as [|a [|b r]]; try discriminate.
  destruct (hexval a) as [x|]; [|discriminate]. destruct (hexval b) as [y|]; [|discriminate].
  apply andb_true_iff in H as [H H4]. apply andb_true_iff in H as [H H3].
  apply andb_true_iff in H as [H1 H2]. apply negb_true_iff in H1.
  destruct (safe_unreserved _ H1) as (U & _ & _). rewrite U.
  apply N.eqb_eq in H2, H3, E. rewrite H2, H3, E. do 3 f_equal. exact (IHr a b r eq_refl H4).
Qed.

Lemma pct_ok_tail c t : pct_ok (c :: t) = true -> pct_ok t = true.
Proof.
  cbn [pct_ok]. destruct (c =? PCT); [|auto].
  destruct t as [|a [|b r]]; try discriminate.
  destruct (hexval a) as [x|] eqn:Ha; [|discriminate]. destruct (hexval b) as [y|] eqn:Hb; [|discriminate].
  intros H. apply andb_true_iff in H as [_ H4].
  destruct (hexval_not_special _ _ Ha) as (A & _ & _). destruct (hexval_not_special _ _ Hb) as (B & _ & _).
  cbn [pct_ok]. apply N.eqb_neq in A, B. rewrite A, B. exact H4.
Qed.

Lemma pct_ok_skipn n s : pct_ok s = true -> pct_ok (skipn n s) = true.
Proof.
  revert s; induction n as [|n IH]; intros s H; [exact H|].
  destruct s as [|c s]; [exact H|]. simpl. apply IH. eapply pct_ok_tail, H.
Qed.

Lemma pct_ok_split : forall s, pct_ok s = true -> Forall (fun g => pct_ok g = true) (split_slash s).
Proof.
  apply (skip2_ind (fun s => pct_ok s = true -> Forall (fun g => pct_ok g = true) (split_slash s)));
    [repeat constructor|].
  intros c t IHt IHr H. cbn [pct_ok] in H. cbn [split_slash].
  destruct (c =? PCT) eqn:E.
  - destruct t as [|a [|b r]]; try discriminate.
    destruct (hexval a) as [x|] eqn:Ha; [|discriminate]. destruct (hexval b) as [y|] eqn:Hb; [|discriminate].
    apply N.eqb_eq in E. subst c.
    destruct (hexval_not_special _ _ Ha) as (_ & A & _). destruct (hexval_not_special _ _ Hb) as (_ & B & _).
    apply N.eqb_neq in A, B. cbn [split_slash]. change (PCT =? SLASH) with false. cbv iota. rewrite A, B.
    pose proof H as H'. apply andb_true_iff in H' as [_ H4].
    specialize (IHr a b r eq_refl H4). destruct (split_cons r) as (g & gs & Es).
    rewrite Es in IHr |- *. inversion IHr; subst. constructor; [|assumption].
    cbn [pct_ok]. change (PCT =? PCT) with true. cbv iota. rewrite Ha, Hb.
    apply andb_true_iff in H as [H _]. rewrite H. assumption.
  - specialize (IHt H). destruct (c =? SLASH); [constructor; [reflexivity|exact IHt]|].
    destruct (split_slash t) as [|g gs].
    + constructor; [|constructor]. cbn [pct_ok]. rewrite E. reflexivity.
    + inversion IHt; subst. constructor; [|assumption]. cbn [pct_ok]. rewrite E. assumption.
Qed.

(* ---------- decoding canonical escapes ---------- *)
Lemma decode_app : forall a b, pct_ok a = true -> pct_decode (a ++ b) = pct_decode a ++ pct_decode b.
Proof.
  intros a b. revert a.
  apply (skip2_ind (fun a => pct_ok a = true -> pct_decode (a ++ b) = pct_decode a ++ pct_decode b));
    [reflexivity|].
  intros c t IHt IHr H. cbn [pct_ok] in H.
  destruct (c =? PCT) eqn:E.
  - destruct t as [|a' [|b' r]]; try discriminate.
    cbn [app pct_decode]. rewrite E.
    destruct (hexval a') as [x|]; [|discriminate]. destruct (hexval b') as [y|]; [|discriminate].
    apply andb_true_iff in H as [_ H4]. cbn [app]. f_equal. exact (IHr a' b' r eq_refl H4).
  - cbn [app pct_decode]. rewrite E. cbn [app]. f_equal. apply IHt, H.
Qed.

Lemma decode_slash s : pct_decode (SLASH :: s) = SLASH :: pct_decode s.
Proof. reflexivity. Qed.

Lemma decode_join l :
  Forall (fun g => pct_ok g = true) l -> pct_decode (join_slash l) = join_slash (map pct_decode l).
Proof.
  induction l as [|p l IH]; intros H; [reflexivity|].
  inversion H as [|? ? Hp Hl]; subst. destruct l as [|q l]; [reflexivity|].
  change (join_slash (p :: q :: l)) with (p ++ SLASH :: join_slash (q :: l)).
  rewrite (decode_app _ _ Hp), decode_slash, (IH Hl). reflexivity.
Qed.

Lemma decode_noslash : forall g, pct_ok g = true -> noslash g = true -> noslash (pct_decode g) = true.
Proof.
  apply (skip2_ind (fun g => pct_ok g = true -> noslash g = true -> noslash (pct_decode g) = true));
    [reflexivity|].
  intros c t IHt IHr H N. cbn [pct_ok] in H. cbn [pct_decode]. simpl in N.
  apply andb_true_iff in N as [N1 N2].
  destruct (c =? PCT) eqn:E; [|simpl; rewrite N1; apply IHt; assumption].
  destruct t as [|a [|b r]]; try discriminate.
  destruct (hexval a) as [x|]; [|discriminate]. destruct (hexval b) as [y|]; [|discriminate].
  apply andb_true_iff in H as [H H4]. apply andb_true_iff in H as [H _].
  apply andb_true_iff in H as [H1 _]. apply negb_true_iff in H1.
  destruct (safe_unreserved _ H1) as (_ & S & _). apply N.eqb_neq in S.
  simpl in N2. apply andb_true_iff in N2 as [_ N2]. apply andb_true_iff in N2 as [_ N2].
  unfold noslash. cbn [forallb]. rewrite S. cbn [negb andb]. exact (IHr a b r eq_refl H4 N2).
Qed.

(* one decoded byte per token; an escape never yields '.' *)
Lemma decode_head c t :
  pct_ok (c :: t) = true ->
  (c <> PCT /\ pct_decode (c :: t) = c :: pct_decode t /\ pct_ok t = true) \/
  (exists v r, v <> DOT /\ pct_decode (c :: t) = v :: pct_decode r /\ pct_ok r = true /\ c = PCT).
Proof.
  intros H. cbn [pct_ok] in H. cbn [pct_decode].
  destruct (c =? PCT) eqn:E.
  - right. destruct t as [|a [|b r]]; try discriminate.
    destruct (hexval a) as [x|]; [|discriminate]. destruct (hexval b) as [y|]; [|discriminate].
    apply andb_true_iff in H as [H H4]. apply andb_true_iff in H as [H _].
    apply andb_true_iff in H as [H1 _]. apply negb_true_iff in H1.
    destruct (safe_unreserved _ H1) as (_ & _ & D). apply N.eqb_eq in E.
    exists (16 * x + y), r. auto.
  - left. apply N.eqb_neq in E. auto.
Qed.

Lemma decode_nil g : pct_ok g = true -> pct_decode g = [] -> g = [].
Proof.
  destruct g as [|c t]; [reflexivity|]. intros H D.
  destruct (decode_head _ _ H) as [(_ & E & _)|(v & r & _ & E & _)]; rewrite E in D; discriminate.
Qed.

Lemma decode_dotdot g : pct_ok g = true -> pct_decode g = dotdot -> g = dotdot.
Proof.
  intros H D. destruct g as [|c t]; [discriminate|].
  destruct (decode_head _ _ H) as [(_ & E & H')|(v & r & Nv & E & _)]; rewrite E in D;
    inversion D as [[D1 D2]]; [|exfalso; apply Nv; exact D1].
  destruct t as [|c2 t2]; [discriminate|].
  destruct (decode_head _ _ H') as [(_ & E2 & H'')|(v & r & Nv & E2 & _)]; rewrite E2 in D2;
    inversion D2 as [[D3 D4]]; [|exfalso; apply Nv; exact D3].
  rewrite (decode_nil _ H'' D4). reflexivity.
Qed.

(* ---------- escape ---------- *)
Lemma hexU_ok d : d < 16 -> hexval (hexU d) = Some d /\ upc (hexU d) = hexU d /\ hexU d <> SLASH.
Proof.
  intros H.
  assert (E : d = 0 \/ d = 1 \/ d = 2 \/ d = 3 \/ d = 4 \/ d = 5 \/ d = 6 \/ d = 7 \/ d = 8 \/ d = 9 \/
              d = 10 \/ d = 11 \/ d = 12 \/ d = 13 \/ d = 14 \/ d = 15) by lia.
  repeat (destruct E as [E|E]; [subst; repeat split; discriminate|]).
  subst; repeat split; discriminate.
Qed.

Lemma esc_byte_facts b :
  wf_byte b = true ->
  (safe b = true /\ esc_byte b = [b] /\ b <> PCT) \/
  (safe b = false /\ exists h l, esc_byte b = [PCT; h; l] /\ h <> SLASH /\ l <> SLASH /\
      forall r, pct_ok (PCT :: h :: l :: r) = pct_ok r /\ pct_decode (PCT :: h :: l :: r) = b :: pct_decode r).
Proof.
  intros W. unfold wf_byte in W. apply N.ltb_lt in W. unfold esc_byte.
  destruct (safe b) eqn:S.
  - left. repeat split; auto. intros ->. discriminate.
  - right. split; [reflexivity|]. exists (hexU (b / 16)), (hexU (b mod 16)).
    assert (Hh : b / 16 < 16) by (apply N.div_lt_upper_bound; lia).
    assert (Hl : b mod 16 < 16) by (apply N.mod_lt; lia).
    destruct (hexU_ok _ Hh) as (A1 & A2 & A3). destruct (hexU_ok _ Hl) as (B1 & B2 & B3).
    repeat split; auto.
    + cbn [pct_ok]. change (PCT =? PCT) with true. cbv iota. rewrite A1, B1.
      rewrite <- (N.div_mod b 16) by lia. rewrite S, A2, B2, !N.eqb_refl. reflexivity.
    + cbn [pct_decode]. change (PCT =? PCT) with true. cbv iota. rewrite A1, B1.
      rewrite <- (N.div_mod b 16) by lia. reflexivity.
Qed.

Lemma escape_cons b s : escape (b :: s) = esc_byte b ++ escape s.
Proof. reflexivity. Qed.

Lemma escape_pct_ok s : wf_bytes s = true -> pct_ok (escape s) = true.
Proof.
  unfold wf_bytes. induction s as [|b s IH]; intros W; [reflexivity|].
  simpl in W. apply andb_true_iff in W as [W1 W2]. rewrite escape_cons.
  destruct (esc_byte_facts b W1) as [(_ & E & N)|(_ & h & l & E & _ & _ & F)]; rewrite E; simpl app.
  - cbn [pct_ok]. apply N.eqb_neq in N. rewrite N. auto.
  - rewrite (proj1 (F _)). auto.
Qed.

Lemma decode_escape s : wf_bytes s = true -> pct_decode (escape s) = s.
Proof.
  unfold wf_bytes. induction s as [|b s IH]; intros W; [reflexivity|].
  simpl in W. apply andb_true_iff in W as [W1 W2]. rewrite escape_cons.
  destruct (esc_byte_facts b W1) as [(_ & E & N)|(_ & h & l & E & _ & _ & F)]; rewrite E; simpl app.
  - cbn [pct_decode]. apply N.eqb_neq in N. rewrite N. f_equal. auto.
  - rewrite (proj2 (F _)). f_equal. auto.
Qed.

Lemma escape_noslash s : wf_bytes s = true -> noslash s = true -> noslash (escape s) = true.
Proof.
  unfold wf_bytes. induction s as [|b s IH]; intros W N; [reflexivity|].
  simpl in W, N. apply andb_true_iff in W as [W1 W2]. apply andb_true_iff in N as [N1 N2].
  rewrite escape_cons. unfold noslash. rewrite forallb_app. fold (noslash (escape s)).
  rewrite (IH W2 N2), andb_true_r.
  destruct (esc_byte_facts b W1) as [(_ & E & _)|(_ & h & l & E & Hh & Hl & _)]; rewrite E; simpl.
  - rewrite N1. reflexivity.
  - apply N.eqb_neq in Hh, Hl. rewrite Hh, Hl. reflexivity.
Qed.

Lemma split_escape s :
  wf_bytes s = true -> split_slash (escape s) = map escape (split_slash s).
Proof.
  unfold wf_bytes. induction s as [|b s IH]; intros W; [reflexivity|].
  simpl in W. apply andb_true_iff in W as [W1 W2]. specialize (IH W2).
  rewrite escape_cons. cbn [split_slash].
  destruct (b =? SLASH) eqn:Eb.
  - apply N.eqb_eq in Eb. subst b. change (esc_byte SLASH) with [SLASH]. simpl app.
    cbn [split_slash]. rewrite N.eqb_refl. simpl. rewrite IH. reflexivity.
  - assert (Hn : noslash (esc_byte b) = true).
    { destruct (esc_byte_facts b W1) as [(_ & E & _)|(_ & h & l & E & Hh & Hl & _)]; rewrite E; simpl.
      - rewrite Eb. reflexivity.
      - apply N.eqb_neq in Hh, Hl. rewrite Hh, Hl. reflexivity. }
    rewrite (split_app_noslash _ _ Hn), IH.
    destruct (split_cons s) as (g & gs & E). rewrite E. cbn [map]. rewrite escape_cons. reflexivity.
Qed.

Lemma escape_cons_inv g c t :
  wf_bytes g = true -> escape g = c :: t -> c <> PCT -> exists g', g = c :: g' /\ escape g' = t /\ wf_bytes g' = true.
Proof.
  unfold wf_bytes. destruct g as [|b g]; [discriminate|]. intros W E N.
  simpl in W. apply andb_true_iff in W as [W1 W2]. rewrite escape_cons in E.
  destruct (esc_byte_facts b W1) as [(_ & E1 & _)|(_ & h & l & E1 & _)]; rewrite E1 in E;
    simpl in E; inversion E; subst; [eauto|congruence].
Qed.

Lemma escape_dotdot g : wf_bytes g = true -> escape g = dotdot -> g = dotdot.
Proof.
  intros W E.
  destruct (escape_cons_inv _ _ _ W E) as (g1 & -> & E1 & W1); [discriminate|].
  destruct (escape_cons_inv _ _ _ W1 E1) as (g2 & -> & E2 & W2); [discriminate|].
  destruct g2 as [|b g2]; [reflexivity|]. exfalso.
  unfold wf_bytes in W2. simpl in W2. apply andb_true_iff in W2 as [Wb _]. rewrite escape_cons in E2.
  destruct (esc_byte_facts b Wb) as [(_ & E3 & _)|(_ & h & l & E3 & _)]; rewrite E3 in E2; discriminate.
Qed.

Lemma segok_escape g :
  wf_bytes g = true -> noslash g = true -> g <> dotdot -> segok (escape g) = true.
Proof.
  intros W N D. apply segok_intro.
  - apply escape_pct_ok, W.
  - apply escape_noslash; assumption.
  - intros E. apply D, escape_dotdot; assumption.
Qed.

(* ---------- joinpath ---------- *)
Section JoinInv.
  Variable Q : bytes -> Prop.
  Definition Q' (g : bytes) : Prop := Q g /\ g <> dotdot.

  Lemma joinpath_chunks_inv chunks :
    forall rp rp', Forall Q' rp -> Forall Q chunks ->
                   joinpath_chunks rp chunks = Ok rp' -> Forall Q' rp'.
  Proof.
    induction chunks as [|c cs IH]; intros rp rp' Hrp Hc H; simpl in H.
    - inversion H; subst. exact Hrp.
    - inversion Hc as [|? ? Hq Hcs]; subst.
      destruct (bytes_eqb c [DOT]); [eapply IH; eassumption|].
      destruct (bytes_eqb c dotdot) eqn:E.
      + destruct rp as [|h t]; [discriminate|]. inversion Hrp; subst.
        destruct h; [destruct t; [discriminate|]|]; eapply IH; eassumption.
      + eapply IH; [|eassumption|eassumption]. constructor; [|assumption]. split; [assumption|].
        intros ->. discriminate.
  Qed.
End JoinInv.

(* ---------- resolve / pathfilter ---------- *)
Lemma resolve_aux_in x segs : forall acc, In x (resolve_aux acc segs) -> In x acc \/ In x segs.
Proof.
  induction segs as [|g r IH]; intros acc H; simpl in H.
  - left. apply in_rev. exact H.
  - destruct (bytes_eqb g dotdot).
    + destruct (IH _ H) as [A|A]; [|right; right; exact A].
      left. destruct acc; [destruct A|right; exact A].
    + destruct (bytes_eqb g [DOT] || bytes_eqb g []).
      * destruct (IH _ H) as [A|A]; [left; exact A|right; right; exact A].
      * destruct (IH _ H) as [A|A]; [|right; right; exact A].
        destruct A as [A|A]; [right; left; exact A|left; exact A].
Qed.

Lemma map_normpct_id l : Forall (fun g => segok g = true) l -> map normpct l = l.
Proof.
  induction 1 as [|g l Hg _ IH]; [reflexivity|]. simpl. rewrite IH.
  destruct (segok_inv _ Hg) as (P & _). rewrite (normpct_id _ P). reflexivity.
Qed.

Lemma pf_segs_ok s :
  Forall (fun g => segok g = true) (split_slash s) -> Forall (fun g => segok g = true) (pf_segs s).
Proof.
  intros H. unfold pf_segs, resolve. rewrite (map_normpct_id _ H).
  apply Forall_forall. intros x Hx. destruct (resolve_aux_in _ _ _ Hx) as [[]|A].
  eapply Forall_forall in H; eassumption.
Qed.

Lemma segok_noslash_all l :
  Forall (fun g => segok g = true) l -> Forall (fun g => noslash g = true) l.
Proof. apply Forall_impl. intros g H. apply (segok_inv _ H). Qed.

Lemma split_join_ok l :
  Forall (fun g => segok g = true) l -> Forall (fun g => segok g = true) (split_slash (join_slash l)).
Proof.
  intros H. destruct l as [|p l]; [repeat constructor|].
  rewrite split_join; [exact H|discriminate|apply segok_noslash_all, H].
Qed.

(* ---------- the OS sees no '..' ---------- *)
Lemma no_dotdot_inside segs : ~ In dotdot segs -> stays_inside segs = true.
Proof.
  unfold stays_inside. intros H.
  assert (G : forall d, exists d', depth_walk d segs = Some d').
  { induction segs as [|g r IH]; intros d; simpl; [eauto|].
    destruct (bytes_eqb g dotdot) eqn:E.
    - apply bytes_eqb_true in E. exfalso. apply H. left. exact E.
    - destruct (bytes_eqb g [DOT] || bytes_eqb g []); apply IH; intros A; apply H; right; exact A. }
  destruct (G 0%nat) as (d' & E). rewrite E. reflexivity.
Qed.

Lemma local_open_ok (exp : bytes -> bytes) (bp : bytes) l segs :
  Forall (fun g => segok g = true) l ->
  local_open (join_slash l) = Ok segs -> ~ In dotdot segs.
Proof.
  intros H. unfold local_open, unescape.
  destruct (non_ascii (join_slash l)); [discriminate|].
  assert (Hraw : ~ In dotdot (split_slash (join_slash l))).
  { intros A. pose proof (split_join_ok _ H) as F. eapply Forall_forall in F; [|exact A]. discriminate. }
  destruct (utf8_valid (pct_decode (join_slash l))); intros E; inversion E; subst; [|exact Hraw].
  destruct l as [|p l]; [simpl; intros [A|[]]; discriminate|].
  assert (Hp : Forall (fun g => pct_ok g = true) (p :: l)).
  { eapply Forall_impl; [|exact H]. intros g G. apply (segok_inv _ G). }
  rewrite (decode_join _ Hp). rewrite split_join.
  - intros A. apply in_map_iff in A as (g & Dg & Ig).
    eapply Forall_forall in H; [|exact Ig]. destruct (segok_inv _ H) as (P & _ & N).
    apply N, decode_dotdot; assumption.
  - discriminate.
  - apply Forall_forall. intros x A. apply in_map_iff in A as (g & <- & Ig).
    eapply Forall_forall in H; [|exact Ig]. destruct (segok_inv _ H) as (P & N & _).
    apply decode_noslash; assumption.
Qed.

(* ---------- translate_client_path ---------- *)
(* what joinpath returns, split into segments, given a property Q of the chunks *)
Lemma joinpath_root_segs (Q : bytes -> Prop) path rel :
  Q [] -> Forall Q (split_slash path) ->
  joinpath_root path = Ok rel -> starts_slash rel = true ->
  exists rest, rel = SLASH :: rest /\ Forall (fun g => Q g /\ g <> dotdot) (split_slash rest).
Proof.
  intros Q0 Hc. unfold joinpath_root.
  destruct (joinpath_chunks _ _) as [rp|e] eqn:E; [|discriminate].
  assert (Hrp : Forall (Q' Q) rp).
  { eapply joinpath_chunks_inv; [|exact Hc|exact E].
    destruct (starts_slash path); repeat constructor; auto. discriminate. }
  assert (Hns : Forall (fun g => noslash g = true) (split_slash path)) by apply split_noslash.
  assert (Hrpn : Forall (fun g => noslash g = true) rp).
  { eapply (joinpath_chunks_inv (fun g => noslash g = true)) in E; [| |exact Hns].
    - eapply Forall_impl; [|exact E]. intros g G. apply G.
    - destruct (starts_slash path); repeat constructor; discriminate. }
  intros Hrel Hs.
  assert (G : rel = SLASH :: [] \/ (rel = join_slash (rev rp))).
  { destruct rp as [|h t]; [inversion Hrel; auto|]. destruct h; [destruct t|]; inversion Hrel; auto. }
  destruct G as [G|G]; subst rel.
  - exists []. split; [reflexivity|]. repeat constructor; auto. discriminate.
  - destruct (join_slash (rev rp)) as [|c rest] eqn:J; [discriminate|].
    simpl in Hs. apply N.eqb_eq in Hs. subst c. exists rest. split; [reflexivity|].
    assert (S : split_slash (SLASH :: rest) = rev rp).
    { rewrite <- J. apply split_join.
      - intros R. rewrite R in J. discriminate.
      - apply Forall_rev, Hrpn. }
    cbn [split_slash] in S. rewrite N.eqb_refl in S.
    assert (F : Forall (Q' Q) (rev rp)) by apply Forall_rev, Hrp.
    rewrite <- S in F. inversion F; assumption.
Qed.

Lemma dot_segok : segok [DOT] = true.
Proof. reflexivity. Qed.

Lemma translate_plain_ok rcp p rel :
  wf_bytes p = true -> translate_plain rcp p = Ok rel ->
  Forall (fun g => segok g = true) (split_slash rel).
Proof.
  intros W. unfold translate_plain.
  destruct (negb (utf8_valid p)); [discriminate|].
  set (cp := if starts_slash p then p else SLASH :: p).
  assert (Wcp : wf_bytes cp = true) by (unfold cp; destruct (starts_slash p); [exact W|exact W]).
  destruct (bytes_eqb (cp ++ [SLASH]) (norm_rcp rcp)).
  { intros E; inversion E; subst. repeat constructor. }
  destruct (prefixb (norm_rcp rcp) cp); [|discriminate].
  destruct (joinpath_root _) as [r|e] eqn:J; [|discriminate].
  destruct (starts_slash r) eqn:S; [|discriminate]. cbn [negb]. intros E; inversion E; subst rel.
  assert (Hch : Forall (fun g => wf_bytes g = true /\ noslash g = true)
                       (split_slash (skipn (List.length (norm_rcp rcp)) cp))).
  { apply Forall_forall; intros x Hx; split.
    - pose proof (split_wf _ (wf_skipn (List.length (norm_rcp rcp)) _ Wcp)) as A.
      eapply Forall_forall in A; [exact A|exact Hx].
    - pose proof (split_noslash (skipn (List.length (norm_rcp rcp)) cp)) as A.
      eapply Forall_forall in A; [exact A|exact Hx]. }
  destruct (joinpath_root_segs (fun g => wf_bytes g = true /\ noslash g = true) _ _
              (conj eq_refl eq_refl) Hch J S) as (rest & -> & F).
  assert (Wr : wf_bytes (DOT :: SLASH :: rest) = true).
  { unfold wf_bytes. simpl. clear - F.
    assert (G : forall s, Forall (fun g => wf_bytes g = true) (split_slash s) -> forallb wf_byte s = true).
    { induction s as [|c s IH]; [reflexivity|]. cbn [split_slash]. intros A.
      destruct (c =? SLASH) eqn:E.
      - inversion A; subst. simpl. apply N.eqb_eq in E. subst. rewrite IH by assumption. reflexivity.
      - destruct (split_slash s) as [|g gs] eqn:Es.
        + destruct (split_cons s) as (? & ? & ?). congruence.
        + inversion A as [|? ? A1 A2]; subst. unfold wf_bytes in A1. simpl in A1.
          apply andb_true_iff in A1 as [A1 A3]. simpl. rewrite A1. apply IH. constructor; assumption. }
    apply G. eapply Forall_impl; [|exact F]. intros g A. apply A. }
  change (DOT :: escape (SLASH :: rest)) with (escape (DOT :: SLASH :: rest)).
  rewrite (split_escape _ Wr). cbn [split_slash].
  change (DOT =? SLASH) with false. cbv iota. rewrite N.eqb_refl. cbn [map].
  constructor; [reflexivity|].
  apply Forall_forall. intros x Hx. apply in_map_iff in Hx as (y & <- & Hy).
  eapply Forall_forall in F; [|exact Hy]. destruct F as ((A & B) & C).
  apply segok_escape; assumption.
Qed.

Lemma decode_wf : forall s, wf_bytes s = true -> wf_bytes (pct_decode s) = true.
Proof.
  unfold wf_bytes.
  apply (skip2_ind (fun s => forallb wf_byte s = true -> forallb wf_byte (pct_decode s) = true));
    [reflexivity|].
  intros c t IHt IHr W. cbn [forallb] in W. apply andb_true_iff in W as [W1 W2].
  assert (Hdef : forallb wf_byte (c :: pct_decode t) = true).
  { cbn [forallb]. rewrite W1. apply IHt, W2. }
  cbn [pct_decode]. destruct (c =? PCT); [|exact Hdef].
  destruct t as [|a [|b r]]; try exact Hdef.
  destruct (hexval a) as [x|] eqn:Ha; [|exact Hdef]. destruct (hexval b) as [y|] eqn:Hb; [|exact Hdef].
  destruct (hexval_not_special _ _ Ha) as (_ & _ & X). destruct (hexval_not_special _ _ Hb) as (_ & _ & Y).
  cbn [forallb] in W2 |- *. apply andb_true_iff in W2 as [_ W2]. apply andb_true_iff in W2 as [_ W2].
  rewrite (IHr a b r eq_refl W2), andb_true_r. unfold wf_byte. apply N.ltb_lt. lia.
Qed.

(* ---------- the whole trip ---------- *)
Section Trip.
  Variable expander : bytes -> bytes.
  Variable base_path : bytes.

  Definition with_slash (e : bytes) : bytes := if ends_slash e then e else e ++ [SLASH].

  (* the userdir expander hypothesis: when the expansion of a harmless path
     falls below base_path, what remains is harmless *)
  Definition expander_harmless : Prop :=
    forall p r, Forall (fun g => segok g = true) (split_slash p) ->
                (exists t, p = TILDE :: t) ->
                with_slash (expander p) = base_path ++ r ->
                Forall (fun g => segok g = true) (split_slash r).

  Hypothesis Hexp : expander_harmless.

  Lemma expand_userdirs_ok p :
    Forall (fun g => segok g = true) (split_slash p) ->
    Forall (fun g => segok g = true) (split_slash (expand_userdirs expander base_path p)).
  Proof.
    intros H. unfold expand_userdirs. destruct p as [|c t]; [exact H|].
    destruct (c =? TILDE) eqn:Ec; [|exact H].
    fold (with_slash (expander (c :: t))).
    destruct (prefixb base_path (with_slash (expander (c :: t)))) eqn:E; [|exact H].
    apply (Hexp (c :: t)); [exact H| |apply prefixb_app, E].
    apply N.eqb_eq in Ec. subst c. eauto.
  Qed.

  Lemma reached_ok rel :
    Forall (fun g => segok g = true) (split_slash rel) ->
    exists l, reached expander base_path rel = join_slash l /\ Forall (fun g => segok g = true) l.
  Proof.
    intros H. unfold reached, pf_norm. eexists. split; [reflexivity|].
    apply pf_segs_ok, expand_userdirs_ok, split_join_ok, pf_segs_ok, H.
  Qed.

  Lemma trip_ok rel segs :
    Forall (fun g => segok g = true) (split_slash rel) ->
    local_open (reached expander base_path rel) = Ok segs ->
    ~ In dotdot segs /\ stays_inside segs = true.
  Proof.
    intros H E. destruct (reached_ok _ H) as (l & R & F). rewrite R in E.
    pose proof (local_open_ok expander base_path _ _ F E) as N. split; [exact N|].
    apply no_dotdot_inside, N.
  Qed.

  Theorem plain_inside_root rcp p segs :
    wf_bytes p = true ->
    resolve_plain expander base_path rcp p = Ok segs ->
    ~ In dotdot segs /\ stays_inside segs = true.
  Proof.
    intros W. unfold resolve_plain.
    destruct (translate_plain rcp p) as [rel|e] eqn:T; [|discriminate].
    apply trip_ok. eapply translate_plain_ok; eassumption.
  Qed.

  (* ----- VFS verbs (current translation): no guard needed ----- *)
  Theorem vfs_inside_root rcp p segs :
    wf_bytes p = true ->
    resolve_vfs expander base_path rcp p = Ok segs ->
    ~ In dotdot segs /\ stays_inside segs = true.
  Proof.
    intros W. unfold resolve_vfs, translate_vfs.
    destruct (negb (utf8_valid p)); [discriminate|].
    unfold unescape. destruct (non_ascii p); [discriminate|].
    destruct (utf8_valid (pct_decode p)).
    - destruct (translate_plain rcp (pct_decode p)) as [rel|e] eqn:T; [|discriminate].
      apply trip_ok. eapply translate_plain_ok; [apply decode_wf, W|exact T].
    - destruct (translate_plain rcp p) as [rel|e] eqn:T; [|discriminate].
      apply trip_ok. eapply translate_plain_ok; [exact W|exact T].
  Qed.
End Trip.

(* ---------- the OLD translation (before 54ddefb) is refuted, whatever the expander and base_path ---------- *)
(* "..%2Fsecret/x" *)
Definition witness_sep : bytes := [46;46;37;50;70;115;101;99;114;101;116;47;120].
(* "%%%332E%%%332E/secret/x" : no encoded separator, a triply nested encoded dot *)
Definition witness_dot : bytes :=
  [37;37;37;51;51;50;69;37;37;37;51;51;50;69;47;115;101;99;114;101;116;47;120].
Definition escaped_segs : list bytes := [dotdot; [115;101;99;114;101;116]; [120]].

Lemma old_vfs_refuted_sep expander base_path :
  resolve_vfs_old expander base_path [SLASH] witness_sep = Ok escaped_segs /\
  stays_inside escaped_segs = false /\ wf_bytes witness_sep = true.
Proof. repeat split; vm_compute; reflexivity. Qed.

Lemma old_vfs_refuted_dot expander base_path :
  resolve_vfs_old expander base_path [SLASH] witness_dot = Ok escaped_segs /\
  stays_inside escaped_segs = false /\ wf_bytes witness_dot = true.
Proof. repeat split; vm_compute; reflexivity. Qed.

(* the plain verbs reject neither witness but keep them inside *)
Lemma plain_on_witness expander base_path :
  resolve_plain expander base_path [SLASH] witness_sep
  = Ok [[46;46;37;50;70;115;101;99;114;101;116]; [120]].
Proof. vm_compute. reflexivity. Qed.

(* the current translation on the two old witnesses: the first is rejected, the
   second is a harmless literal file name below the served directory *)
Lemma vfs_on_old_witnesses expander base_path :
  resolve_vfs expander base_path [SLASH] witness_sep = Fail "InvalidURLJoin" /\
  resolve_vfs expander base_path [SLASH] witness_dot
  = Ok [[37;37;51;50;69;37;37;51;50;69]; [115;101;99;114;101;116]; [120]].
Proof. split; vm_compute; reflexivity. Qed.

(* ---------- non-vacuity ---------- *)
(* "a%20b/%C3%A9/../~x/f" is served as  a b/~x/f *)
Definition vfs_example : bytes :=
  [97;37;50;48;98;47;37;67;51;37;65;57;47;46;46;47;126;120;47;102].
Lemma vfs_example_ok expander base_path :
  wf_bytes vfs_example = true /\
  resolve_vfs expander base_path [SLASH] vfs_example
  = Ok [[97;32;98]; [126;120]; [102]].
Proof. split; vm_compute; reflexivity. Qed.

(* posixpath.expanduser over an empty user database, any absolute base_path *)
Lemma expander_harmless_nohomes bp : expander_harmless (expanduser []) (SLASH :: bp).
Proof.
  intros p r _ (t & ->) E. exfalso. revert E. unfold with_slash, expanduser.
  change (TILDE =? TILDE) with true. cbv iota. destruct (span_noslash t) as (name & rest).
  cbn [lookup]. destruct (ends_slash (TILDE :: t)); simpl; intros E; inversion E.
Qed.

(* ---------- _pre_open_hook ---------- *)
Lemma seg_prefix_app a : forall b, seg_prefix a b = true -> exists r, b = a ++ r.
Proof.
  induction a as [|x a IH]; intros b H; [exists b; reflexivity|].
  destruct b as [|y b]; [discriminate|]. simpl in H. apply andb_true_iff in H as [H1 H2].
  apply bytes_eqb_true in H1. subst y. destruct (IH _ H2) as (r & ->). exists r. reflexivity.
Qed.

Lemma pre_open_inside l url :
  pre_open_hook (Some l) url = true ->
  exists a r, In a l /\ fst a = fst url /\ snd url = snd a ++ r.
Proof.
  unfold pre_open_hook, url_under. intros H. apply existsb_exists in H as (a & Ia & H).
  apply andb_true_iff in H as [H1 H2]. apply N.eqb_eq in H1.
  destruct (seg_prefix_app _ _ H2) as (r & E). eauto.
Qed.

Lemma pre_open_outside_fails l url :
  (forall a, In a l -> fst a <> fst url \/ forall r, snd url <> snd a ++ r) ->
  pre_open_hook (Some l) url = false.
Proof.
  intros H. destruct (pre_open_hook (Some l) url) eqn:E; [|reflexivity]. exfalso.
  destruct (pre_open_inside _ _ E) as (a & r & Ia & F & S).
  destruct (H a Ia) as [A|A]; [exact (A F)|exact (A r S)].
Qed.

(* ---------- bare backing transport ---------- *)
Lemma join_split s : join_slash (split_slash s) = s.
Proof.
  induction s as [|c r IH]; [reflexivity|]. cbn [split_slash].
  destruct (split_cons r) as (g & gs & E). rewrite E in *.
  destruct (c =? SLASH) eqn:Ec.
  - apply N.eqb_eq in Ec. subst c. change (join_slash ([] :: g :: gs)) with ([] ++ [SLASH] ++ join_slash (g :: gs)).
    rewrite IH. reflexivity.
  - destruct gs as [|g2 gs]; [unfold join_slash in *; simpl in *; rewrite IH; reflexivity|].
    change (join_slash ((c :: g) :: g2 :: gs)) with ((c :: g) ++ [SLASH] ++ join_slash (g2 :: gs)).
    change (join_slash (g :: g2 :: gs)) with (g ++ [SLASH] ++ join_slash (g2 :: gs)) in IH.
    simpl. simpl in IH. rewrite IH. reflexivity.
Qed.

Theorem bare_inside_root vfs rcp p segs :
  wf_bytes p = true -> resolve_bare vfs rcp p = Ok segs ->
  ~ In dotdot segs /\ stays_inside segs = true.
Proof.
  intros W. unfold resolve_bare.
  assert (K : forall rel, Forall (fun g => segok g = true) (split_slash rel) ->
              local_open rel = Ok segs -> ~ In dotdot segs /\ stays_inside segs = true).
  { intros rel F E. rewrite <- (join_split rel) in E.
    pose proof (local_open_ok (fun x => x) [] _ _ F E) as N. split; [exact N|apply no_dotdot_inside, N]. }
  destruct vfs.
  - unfold translate_vfs. destruct (negb (utf8_valid p)); [discriminate|].
    unfold unescape. destruct (non_ascii p); [discriminate|].
    destruct (utf8_valid (pct_decode p)).
    + destruct (translate_plain rcp (pct_decode p)) as [rel|e] eqn:T; [|discriminate].
      apply K. eapply translate_plain_ok; [apply decode_wf, W|exact T].
    + destruct (translate_plain rcp p) as [rel|e] eqn:T; [|discriminate].
      apply K. eapply translate_plain_ok; [exact W|exact T].
  - destruct (translate_plain rcp p) as [rel|e] eqn:T; [|discriminate].
    apply K. eapply translate_plain_ok; [exact W|exact T].
Qed.

(* ---------- the jail is per thread ---------- *)
Lemma jail_frame ops : forall s t roots u,
  jget t s = Some roots ->
  (forall o, In o ops -> jop_thread o <> t) ->
  exists l, jail_run s (ops ++ [JOpen t u]) = l ++ [pre_open_hook (Some roots) u].
Proof.
  induction ops as [|o ops IH]; intros s t roots u G H.
  - exists []. simpl. rewrite G. reflexivity.
  - assert (Ho : jop_thread o <> t) by (apply H; left; reflexivity).
    assert (H' : forall o', In o' ops -> jop_thread o' <> t) by (intros o' I; apply H; right; exact I).
    destruct o as [t' r|t'|t' u']; simpl in Ho; cbn [app jail_run].
    + apply IH; [|exact H']. cbn [jget]. destruct (t =? t') eqn:E; [apply N.eqb_eq in E; congruence|exact G].
    + apply IH; [|exact H']. cbn [jget]. destruct (t =? t') eqn:E; [apply N.eqb_eq in E; congruence|exact G].
    + destruct (IH s t roots u G H') as (l & E). rewrite E. eexists (_ :: l). reflexivity.
Qed.
