(* Theory/ConflictStanza.v -- lemmas for C20 (model: Model/ConflictStanza.v). *)
From Coq Require Import NArith List Bool String Ascii Permutation Lia.
From BV Require Import Lib.Bytes Lib.Obs Model.ConflictStanza.
Import ListNotations.
Open Scope N_scope.

(* ---------- byte-string equality ---------- *)
Lemma beq_refl (x : bytes) : bytes_eqb x x = true.
Proof. induction x as [|a x IH]; simpl; [reflexivity|]. rewrite N.eqb_refl. exact IH. Qed.

Lemma beq_eq (x y : bytes) : bytes_eqb x y = true <-> x = y.
Proof.
  split; [|intros ->; apply beq_refl].
  revert y; induction x as [|a x IH]; intros [|b y] H; simpl in H; try discriminate; [reflexivity|].
  apply andb_true_iff in H as [H1 H2]. apply N.eqb_eq in H1. subst b. f_equal. apply IH. exact H2.
Qed.

Lemma in_bytes_In x l : in_bytes x l = true <-> In x l.
Proof.
  unfold in_bytes. rewrite existsb_exists. split.
  - intros [y [Hy He]]. apply beq_eq in He. subst y. exact Hy.
  - intros H. exists x. split; [exact H|apply beq_refl].
Qed.

Lemma list_prefixb_spec a : forall b, list_prefixb a b = true <-> exists rest, b = a ++ rest.
Proof.
  induction a as [|x a IH]; intros b; simpl.
  - split; [intros _; exists b; reflexivity|reflexivity].
  - destruct b as [|y b].
    + split; [discriminate|]. intros [r Hr]. discriminate.
    + rewrite andb_true_iff, beq_eq, IH. split.
      * intros [-> [r ->]]. exists r. reflexivity.
      * intros [r Hr]. injection Hr as -> ->. split; [reflexivity|]. exists r. reflexivity.
Qed.

(* ---------- stanza round trip ---------- *)
Definition rio_opt (o : option bytes) : option bytes :=
  match o with Some v => Some (rio_value v) | None => None end.
(* what one conflict looks like after a trip through the conflicts file *)
Definition rio_conflict (c : conflict) : conflict :=
  match c with
  | CText p f => CText (rio_value p) (rio_opt f)
  | CPath k p cp f => CPath k (rio_value p) (rio_opt cp) (rio_opt f)
  | CHandled k a p f => CHandled k (rio_value a) (rio_value p) (rio_opt f)
  | CHandledPath k a p cp f cf =>
      CHandledPath k (rio_value a) (rio_value p) (rio_opt cp) (rio_opt f) (rio_opt cf)
  end.

Lemma stanza_roundtrip c s : as_stanza c = Some s -> of_stanza s = FOk c.
Proof.
  destruct c as [p f|k p cp f|k a p f|k a p cp f cf]; simpl; intros H.
  - injection H as <-. destruct f; reflexivity.
  - injection H as <-. destruct k, cp, f; reflexivity.
  - injection H as <-. destruct k, f; reflexivity.
  - destruct cp as [cpv|]; [|discriminate]. injection H as <-.
    destruct k, f, cf; reflexivity.
Qed.

Lemma stanza_rio_roundtrip c s : as_stanza c = Some s -> of_stanza (rio_stanza s) = FOk (rio_conflict c).
Proof.
  destruct c as [p f|k p cp f|k a p f|k a p cp f cf]; simpl; intros H.
  - injection H as <-. destruct f; reflexivity.
  - injection H as <-. destruct k, cp, f; reflexivity.
  - injection H as <-. destruct k, f; reflexivity.
  - destruct cp as [cpv|]; [|discriminate]. injection H as <-.
    destruct k, f, cf; reflexivity.
Qed.

Lemma as_stanza_none_iff c : as_stanza c = None <-> writable c = false.
Proof.
  destruct c as [p f|k p cp f|k a p f|k a p cp f cf]; simpl; try (split; discriminate).
  destruct cp; split; try discriminate; reflexivity.
Qed.

Lemma writable_as_stanza c : writable c = true -> exists s, as_stanza c = Some s.
Proof.
  intros H. destruct (as_stanza c) eqn:E; [eexists; reflexivity|].
  apply as_stanza_none_iff in E. congruence.
Qed.

(* ---------- persistence ---------- *)
Lemma persist_spec cs :
  forallb writable cs = true -> persist cs = Some (map rio_conflict cs).
Proof.
  unfold persist. induction cs as [|c cs IH]; simpl; intros H; [reflexivity|].
  apply andb_true_iff in H as [Hc Hcs]. specialize (IH Hcs).
  destruct (writable_as_stanza c Hc) as [s Hs]. rewrite Hs.
  destruct (to_stanzas cs) as [ss|] eqn:E; [|discriminate].
  simpl. rewrite (stanza_rio_roundtrip c s Hs). rewrite IH. reflexivity.
Qed.

Lemma to_stanzas_unwritable cs : forallb writable cs = false -> to_stanzas cs = None.
Proof.
  induction cs as [|c cs IH]; simpl; intros H; [discriminate|].
  apply andb_false_iff in H as [Hc|Hcs].
  - apply as_stanza_none_iff in Hc. rewrite Hc. reflexivity.
  - rewrite (IH Hcs). destruct (as_stanza c); reflexivity.
Qed.

Lemma persist_unwritable cs : forallb writable cs = false -> persist cs = None.
Proof. intros H. unfold persist. rewrite (to_stanzas_unwritable cs H). reflexivity. Qed.

Lemma rio_safe_id v : rio_safe v = true -> rio_value v = v.
Proof. unfold rio_safe. apply beq_eq. Qed.
Lemma opt_safe_id o : opt_safe o = true -> rio_opt o = o.
Proof. destruct o; simpl; [|reflexivity]. intros H. rewrite (rio_safe_id _ H). reflexivity. Qed.

Lemma rio_conflict_safe c : conflict_safe c = true -> rio_conflict c = c.
Proof.
  unfold conflict_safe. rewrite !andb_true_iff. intros [[[[Hp Hf] Hcp] Hcf] Ha].
  destruct c as [p f|k p cp f|k a p f|k a p cp f cf]; simpl in *;
    repeat match goal with
           | H : rio_safe _ = true |- _ => rewrite (rio_safe_id _ H); clear H
           | H : opt_safe _ = true |- _ => rewrite (opt_safe_id _ H); clear H
           end; reflexivity.
Qed.

Lemma map_rio_conflict_safe cs : forallb conflict_safe cs = true -> map rio_conflict cs = cs.
Proof.
  induction cs as [|c cs IH]; simpl; intros H; [reflexivity|].
  apply andb_true_iff in H as [Hc Hcs]. rewrite (rio_conflict_safe c Hc), (IH Hcs). reflexivity.
Qed.

Lemma persist_roundtrip_guarded cs :
  forallb writable cs = true -> forallb conflict_safe cs = true -> persist cs = Some cs.
Proof. intros Hw Hs. rewrite (persist_spec cs Hw), (map_rio_conflict_safe cs Hs). reflexivity. Qed.

Lemma persist_refuted :
  exists c, writable c = true /\ persist [c] <> Some [c].
Proof. exists (CText [120; 13] None). split; [reflexivity|]. vm_compute. discriminate. Qed.

(* ---------- selection ---------- *)
Section SelectFacts.
Variable path2id : bytes -> option bytes.
Variable paths : list bytes.
Variable recurse : bool.
Local Notation sel := (selected path2id paths recurse).

Lemma select_loop_spec cs : forall new s,
  select_loop path2id paths recurse cs new s =
  (new ++ filter (fun c => negb (sel c)) cs, s ++ filter sel cs).
Proof.
  induction cs as [|c cs IH]; intros new s; simpl.
  - rewrite !app_nil_r. reflexivity.
  - destruct (selected path2id paths recurse c) eqn:E; rewrite IH; simpl;
      rewrite <- app_assoc; reflexivity.
Qed.

Lemma select_conflicts_filter cs :
  select_conflicts path2id paths recurse cs = (filter (fun c => negb (sel c)) cs, filter sel cs).
Proof. unfold select_conflicts. rewrite select_loop_spec. reflexivity. Qed.

Lemma filter_partition_perm {A} (f : A -> bool) l :
  Permutation l (filter (fun x => negb (f x)) l ++ filter f l).
Proof.
  induction l as [|x l IH]; simpl; [constructor|].
  destruct (f x); simpl.
  - apply Permutation_cons_app. exact IH.
  - constructor. exact IH.
Qed.

(* the documented rule, as a proposition *)
Definition inside (d p : bytes) : Prop := exists rest, components p = components d ++ rest.
Definition path_matches (p : bytes) : Prop :=
  In p paths \/ (recurse = true /\ exists d, In d paths /\ inside d p).
Definition id_matches (i : bytes) : Prop := exists p, In p paths /\ path2id p = Some i.
Definition matches (c : conflict) : Prop :=
  path_matches (path_of c)
  \/ (exists p, cpath_of c = Some p /\ path_matches p)
  \/ (exists i, fid_of c = Some i /\ id_matches i)
  \/ (exists i, cfid_of c = Some i /\ id_matches i).

Lemma is_inside_spec d p : is_inside d p = true <-> inside d p.
Proof. unfold is_inside, inside. apply list_prefixb_spec. Qed.

Lemma path_hit_spec p : path_hit paths recurse p = true <-> path_matches p.
Proof.
  unfold path_hit, path_matches. rewrite orb_true_iff, andb_true_iff, in_bytes_In.
  unfold is_inside_any. rewrite existsb_exists.
  split; (intros [H|[Hr [d [Hd Hi]]]]; [left; exact H|right; split; [exact Hr|]; exists d; split; [exact Hd|]]);
    apply is_inside_spec; exact Hi.
Qed.

Lemma ids_spec i : In i (ids path2id paths) <-> id_matches i.
Proof.
  unfold ids, id_matches. rewrite in_flat_map. split.
  - intros [p [Hp Hi]]. exists p. split; [exact Hp|].
    destruct (path2id p); simpl in Hi; [|contradiction]. destruct Hi as [->|[]]. reflexivity.
  - intros [p [Hp Hi]]. exists p. split; [exact Hp|]. rewrite Hi. left. reflexivity.
Qed.

Lemma opt_path_hit_spec o :
  opt_path_hit paths recurse o = true <-> exists p, o = Some p /\ path_matches p.
Proof.
  destruct o as [p|]; simpl.
  - rewrite path_hit_spec. split; [intros H; exists p; split; [reflexivity|exact H]|].
    intros [q [Hq Hm]]. injection Hq as ->. exact Hm.
  - split; [discriminate|]. intros [p [Hp _]]. discriminate.
Qed.

Lemma opt_id_hit_spec o :
  opt_id_hit path2id paths o = true <-> exists i, o = Some i /\ id_matches i.
Proof.
  destruct o as [i|]; simpl.
  - rewrite in_bytes_In, ids_spec. split; [intros H; exists i; split; [reflexivity|exact H]|].
    intros [j [Hj Hm]]. injection Hj as ->. exact Hm.
  - split; [discriminate|]. intros [p [Hp _]]. discriminate.
Qed.

Lemma selected_spec c : sel c = true <-> matches c.
Proof.
  unfold sel, selected, matches.
  rewrite !orb_true_iff, path_hit_spec, opt_path_hit_spec, !opt_id_hit_spec. tauto.
Qed.

Theorem select_partition cs new s :
  select_conflicts path2id paths recurse cs = (new, s) ->
  new = filter (fun c => negb (sel c)) cs /\ s = filter sel cs
  /\ Permutation cs (new ++ s)
  /\ (forall c, In c s <-> In c cs /\ matches c)
  /\ (forall c, In c new <-> In c cs /\ ~ matches c).
Proof.
  rewrite select_conflicts_filter. intros H. injection H as <- <-.
  split; [reflexivity|]. split; [reflexivity|]. split; [apply filter_partition_perm|]. split.
  - intros c. rewrite filter_In, selected_spec. reflexivity.
  - intros c. rewrite filter_In, negb_true_iff, <- selected_spec.
    rewrite not_true_iff_false. reflexivity.
Qed.
End SelectFacts.

(* resolve(done) keeps exactly the rest *)
Lemma forallb_filter {A} (f g : A -> bool) l : forallb f l = true -> forallb f (filter g l) = true.
Proof.
  induction l as [|x l IH]; simpl; [reflexivity|]. intros H. apply andb_true_iff in H as [Hx Hl].
  destruct (g x); simpl; [rewrite Hx|]; auto.
Qed.

Lemma writable_rio c : writable (rio_conflict c) = writable c.
Proof. destruct c as [| | |k a p [cp|] f cf]; reflexivity. Qed.

Lemma resolve_done_spec path2id paths recurse cs :
  forallb writable cs = true ->
  resolve_done path2id paths recurse cs =
  Some (map rio_conflict
            (filter (fun c => negb (selected path2id paths recurse c)) (map rio_conflict cs))).
Proof.
  intros Hw. unfold resolve_done. rewrite (persist_spec cs Hw), select_conflicts_filter. simpl.
  apply persist_spec. apply forallb_filter.
  rewrite forallb_forall in *. intros c Hc. apply in_map_iff in Hc as [c0 [<- Hc0]].
  rewrite writable_rio. apply Hw. exact Hc0.
Qed.

Lemma resolve_done_guarded path2id paths recurse cs :
  forallb writable cs = true -> forallb conflict_safe cs = true ->
  resolve_done path2id paths recurse cs =
  Some (filter (fun c => negb (selected path2id paths recurse c)) cs).
Proof.
  intros Hw Hs. rewrite (resolve_done_spec _ _ _ _ Hw), (map_rio_conflict_safe cs Hs).
  apply f_equal. apply map_rio_conflict_safe. apply forallb_filter. exact Hs.
Qed.

(* ---------- merge-modified hashes ---------- *)
Section MMFacts.
Variable path2id id2path : bytes -> option bytes.
Variable sha1_of : bytes -> bytes.
Hypothesis inv : forall p i, path2id p = Some i -> id2path i = Some p.
Hypothesis ids_safe : forall p i, path2id p = Some i -> rio_safe i = true.

Definition mm_keep (ph : bytes * bytes) : bool :=
  match path2id (fst ph) with Some _ => bytes_eqb (snd ph) (sha1_of (fst ph)) | None => false end.

Lemma aset_fresh k v l : ~ In k (map fst l) -> aset k v l = l ++ [(k, v)].
Proof.
  induction l as [|[k' v'] l IH]; simpl; intros H; [reflexivity|].
  destruct (bytes_eqb k' k) eqn:E.
  - apply beq_eq in E. exfalso. apply H. left. exact E.
  - rewrite IH; [reflexivity|]. intros H'. apply H. right. exact H'.
Qed.

Lemma mm_read_spec d : forall acc,
  NoDup (map fst acc ++ map fst d) ->
  (forall p h, In (p, h) d -> rio_safe h = true) ->
  mm_read id2path sha1_of
          (map (fun ih => (rio_value (fst ih), rio_value (snd ih))) (mm_stanzas path2id d)) acc
  = acc ++ filter mm_keep d.
Proof.
  induction d as [|[p h] d IH]; intros acc Hnd Hh; simpl.
  - rewrite app_nil_r. reflexivity.
  - assert (Hd : NoDup (map fst acc ++ map fst d)).
    { simpl in Hnd. apply NoDup_remove_1 in Hnd. exact Hnd. }
    assert (Hh' : forall p0 h0, In (p0, h0) d -> rio_safe h0 = true).
    { intros p0 h0 H0. apply (Hh p0 h0). right. exact H0. }
    unfold mm_keep at 1. simpl.
    destruct (path2id p) as [i|] eqn:Ep; simpl.
    + rewrite (rio_safe_id i (ids_safe p i Ep)), (inv p i Ep).
      rewrite (rio_safe_id h (Hh p h (or_introl eq_refl))).
      destruct (bytes_eqb h (sha1_of p)) eqn:Eh.
      * rewrite aset_fresh.
        -- rewrite IH; [rewrite <- app_assoc; reflexivity| |exact Hh'].
           rewrite map_app. simpl. rewrite <- app_assoc. simpl. exact Hnd.
        -- simpl in Hnd. apply NoDup_remove_2 in Hnd. intros H. apply Hnd. apply in_or_app. left. exact H.
      * apply IH; assumption.
    + apply IH; assumption.
Qed.

Theorem merge_modified_roundtrip d :
  NoDup (map fst d) ->
  (forall p h, In (p, h) d -> rio_safe h = true) ->
  merge_modified_rt path2id id2path sha1_of d = filter mm_keep d.
Proof.
  intros Hnd Hh. unfold merge_modified_rt. rewrite mm_read_spec; [reflexivity| |exact Hh]. exact Hnd.
Qed.
End MMFacts.

(* ---------- non-vacuity examples ---------- *)
Example ex_stanza :
  as_stanza (CHandledPath KDuplicateEntry (s2b "Moved existing file to") (s2b "a/b") (Some (s2b "a/b.moved"))
                          (Some (s2b "id-1")) None)
  = Some [(T_path, s2b "a/b"); (T_type, s2b "duplicate"); (T_file_id, s2b "id-1");
          (T_action, s2b "Moved existing file to"); (T_conflict_path, s2b "a/b.moved")].
Proof. reflexivity. Qed.

Example ex_select :
  select_conflicts (fun p => if bytes_eqb p (s2b "d") then Some (s2b "d-id") else None)
                   [s2b "d"] true
                   [CText (s2b "a") None; CText (s2b "d/x") None; CText (s2b "dx") None;
                    CPath KPath (s2b "q") None (Some (s2b "d-id"))]
  = ([CText (s2b "a") None; CText (s2b "dx") None],
     [CText (s2b "d/x") None; CPath KPath (s2b "q") None (Some (s2b "d-id"))]).
Proof. reflexivity. Qed.
