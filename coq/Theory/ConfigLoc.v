(* Theory/ConfigLoc.v -- proofs about the location-section model (Model/ConfigLoc.v). *)
From Coq Require Import NArith Bool String Ascii PeanoNat List Lia Permutation Sorted.
From BV Require Import Lib.Bytes Lib.Obs Model.Fnmatch Theory.Fnmatch Model.ConfigLoc.
Import ListNotations.
Open Scope list_scope.
Open Scope N_scope.

(* one location segment matches one section-name segment *)
Definition fnm (l s : str) : Prop := fnmatch l s = true.

(* ---- A. matching is a segment-wise prefix match ------------------------------------ *)
Lemma zip_all_firstn : forall f lp sp, (length sp <= length lp)%nat ->
  (zip_all f lp sp = true <-> Forall2 (fun l s => f l s = true) (firstn (length sp) lp) sp).
Proof.
  intros f lp; induction lp as [|a lp IH]; intros sp Hl.
  - destruct sp; [cbn; split; intros; [constructor|reflexivity] | cbn in Hl; lia].
  - destruct sp as [|b sp].
    + cbn. split; intros; [constructor|reflexivity].
    + cbn [zip_all length firstn]. rewrite andb_true_iff. cbn in Hl. rewrite IH by lia.
      split.
      * intros [H1 H2]; constructor; auto.
      * intro H; inversion H; subst; auto.
Qed.

Lemma Forall2_length : forall {A B} {R : A -> B -> Prop} {l1 l2},
  Forall2 R l1 l2 -> length l1 = length l2.
Proof. intros A B R l1 l2 H; induction H; cbn; congruence. Qed.

Lemma skipn_app_exact : forall {A} (pre suf : list A) n,
  n = length pre -> skipn n (pre ++ suf) = suf.
Proof.
  intros A pre suf n ->. rewrite skipn_app, skipn_all, Nat.sub_diag. reflexivity.
Qed.

Lemma firstn_app_exact : forall {A} (pre suf : list A) n,
  n = length pre -> firstn n (pre ++ suf) = pre.
Proof.
  intros A pre suf n ->. rewrite firstn_app, firstn_all, Nat.sub_diag. cbn. apply app_nil_r.
Qed.

Theorem sec_match_spec : forall lp sp,
  sec_match lp sp = true <-> exists pre suf, lp = pre ++ suf /\ Forall2 fnm pre sp.
Proof.
  intros lp sp; unfold sec_match. rewrite andb_true_iff, Nat.leb_le. split.
  - intros [Hl Hz]. apply zip_all_firstn in Hz; [|exact Hl].
    exists (firstn (length sp) lp), (skipn (length sp) lp).
    split; [symmetry; apply firstn_skipn|exact Hz].
  - intros (pre & suf & -> & HF). pose proof (Forall2_length HF) as Hlen.
    assert (Hle : (length sp <= length (pre ++ suf))%nat) by (rewrite app_length; lia).
    split; [exact Hle|].
    apply zip_all_firstn; [exact Hle|].
    rewrite firstn_app_exact by (symmetry; exact Hlen). exact HF.
Qed.

Lemma extra_of_app : forall pre suf sp,
  length pre = length sp -> extra_of (pre ++ suf) sp = join [cSL] suf.
Proof.
  intros pre suf sp H. unfold extra_of. rewrite skipn_app_exact by (symmetry; exact H). reflexivity.
Qed.

(* _iter_for_location_by_parts yields exactly the sections whose parts match a
   prefix of the location's parts, with the joined unmatched suffix and the
   number of matched parts *)
Theorem iter_spec : forall secs loc sec extra n,
  In (sec, extra, n) (iter_for_location_by_parts secs loc) <->
  In sec secs /\
  exists pre suf, parts loc = pre ++ suf /\ Forall2 fnm pre (parts sec) /\
                  extra = join [cSL] suf /\ n = length pre.
Proof.
  intros secs loc sec extra n. unfold iter_for_location_by_parts. rewrite in_flat_map. split.
  - intros (s & Hin & H). destruct (sec_match (parts loc) (parts s)) eqn:E; [|contradiction].
    destruct H as [H|[]]. injection H as -> <- <-.
    apply sec_match_spec in E. destruct E as (pre & suf & Hp & HF).
    split; [exact Hin|]. exists pre, suf. pose proof (Forall2_length HF) as Hl.
    repeat split; auto; try (symmetry; exact Hl).
    rewrite Hp. apply extra_of_app. exact Hl.
  - intros (Hin & pre & suf & Hp & HF & -> & ->). exists sec. split; [exact Hin|].
    assert (E : sec_match (parts loc) (parts sec) = true)
      by (apply sec_match_spec; exists pre, suf; auto).
    rewrite E. left. pose proof (Forall2_length HF) as Hl.
    rewrite Hp, extra_of_app by exact Hl. rewrite Hl. reflexivity.
Qed.

(* ... in the order of the input (the file order of the store) *)
Theorem iter_order : forall secs loc,
  map (fun t => fst (fst t)) (iter_for_location_by_parts secs loc) =
  filter (fun sec => sec_match (parts loc) (parts sec)) secs.
Proof.
  intros secs loc; unfold iter_for_location_by_parts.
  induction secs as [|s secs IH]; [reflexivity|].
  cbn [flat_map filter]. destruct (sec_match (parts loc) (parts s)); cbn; rewrite IH; reflexivity.
Qed.

(* glob-free section names: plain prefix on parts *)
Lemma Forall2_fnm_plain : forall sp, Forall (fun s => plain s = true) sp ->
  forall pre, Forall2 fnm pre sp <-> pre = sp.
Proof.
  induction sp as [|s sp IH]; intros Hp pre.
  - split; [intro H; inversion H; reflexivity|intros ->; constructor].
  - inversion Hp as [|? ? Hs Hp']; subst. split.
    + intro H; inversion H as [|l ? pre' ? Hm HF]; subst.
      apply (fnmatch_plain l s Hs) in Hm. apply IH in HF; [|exact Hp']. subst; reflexivity.
    + intros ->. constructor; [apply (fnmatch_plain s s Hs); reflexivity|].
      apply IH; [exact Hp'|reflexivity].
Qed.

Theorem sec_match_plain : forall lp sp, Forall (fun s => plain s = true) sp ->
  (sec_match lp sp = true <-> exists suf, lp = sp ++ suf).
Proof.
  intros lp sp Hp. rewrite sec_match_spec. split.
  - intros (pre & suf & -> & HF). apply Forall2_fnm_plain in HF; [|exact Hp]. subst. eauto.
  - intros (suf & ->). exists sp, suf. split; [reflexivity|].
    apply Forall2_fnm_plain; [exact Hp|reflexivity].
Qed.

(* ---- the sort key is a strict weak order --------------------------------------------- *)
Lemma str_ltb_irrefl : forall a, str_ltb a a = false.
Proof.
  induction a as [|x a IH]; [reflexivity|].
  cbn [str_ltb]. rewrite N.ltb_irrefl, N.eqb_refl, IH. reflexivity.
Qed.

Lemma str_ltb_cons : forall x a y b,
  str_ltb (x :: a) (y :: b) = (x <? y) || ((x =? y) && str_ltb a b).
Proof. reflexivity. Qed.

Lemma str_ltb_asym : forall a b, str_ltb a b = true -> str_ltb b a = false.
Proof.
  induction a as [|x a IH]; intros [|y b] H; try reflexivity; try discriminate.
  rewrite str_ltb_cons in *.
  destruct (N.ltb_spec x y), (N.ltb_spec y x), (N.eqb_spec x y), (N.eqb_spec y x);
    try lia; cbn in *; try discriminate; auto.
Qed.

Lemma str_ltb_negtrans : forall a b c,
  str_ltb a b = false -> str_ltb b c = false -> str_ltb a c = false.
Proof.
  induction a as [|x a IH]; intros [|y b] [|z c] H1 H2; try reflexivity; try discriminate.
  rewrite str_ltb_cons in *.
  destruct (N.ltb_spec x y), (N.ltb_spec y z), (N.ltb_spec x z),
           (N.eqb_spec x y), (N.eqb_spec y z), (N.eqb_spec x z);
    try lia; cbn in *; try discriminate; eauto.
Qed.

Lemma key_ltb_irrefl : forall a, key_ltb a a = false.
Proof.
  intros [n s]; unfold key_ltb; cbn [fst snd].
  rewrite Nat.ltb_irrefl, Nat.eqb_refl, str_ltb_irrefl. reflexivity.
Qed.

Lemma key_ltb_asym : forall a b, key_ltb a b = true -> key_ltb b a = false.
Proof.
  intros [n s] [m t]; unfold key_ltb; cbn [fst snd]. intro H.
  destruct (Nat.ltb_spec n m), (Nat.ltb_spec m n), (Nat.eqb_spec n m), (Nat.eqb_spec m n);
    try lia; cbn in *; try discriminate; auto using str_ltb_asym.
Qed.

Lemma key_ltb_negtrans : forall a b c,
  key_ltb a b = false -> key_ltb b c = false -> key_ltb a c = false.
Proof.
  intros [n s] [m t] [k u]; unfold key_ltb; cbn [fst snd]. intros H1 H2.
  destruct (Nat.ltb_spec n m), (Nat.ltb_spec m k), (Nat.ltb_spec n k),
           (Nat.eqb_spec n m), (Nat.eqb_spec m k), (Nat.eqb_spec n k);
    try lia; cbn in *; try discriminate; eauto using str_ltb_negtrans.
Qed.

(* [ge_key a b]: a is at least as specific as b *)
Definition ge_key (a b : nat * lsection) : Prop := key_ltb a b = false.

Lemma insert_desc_In : forall x l y, In y (insert_desc x l) <-> y = x \/ In y l.
Proof.
  intros x l y; induction l as [|z l IH]; cbn.
  - intuition.
  - destruct (key_ltb x z); cbn; [rewrite IH|]; intuition.
Qed.

Lemma insert_desc_perm : forall x l, Permutation (insert_desc x l) (x :: l).
Proof.
  intros x l; induction l as [|z l IH]; cbn; [reflexivity|].
  destruct (key_ltb x z); [|reflexivity].
  rewrite IH. apply perm_swap.
Qed.

Lemma insert_desc_sorted : forall x l,
  StronglySorted ge_key l -> StronglySorted ge_key (insert_desc x l).
Proof.
  intros x l; induction l as [|y l IH]; intro Hs.
  - cbn. constructor; constructor.
  - cbn. inversion Hs as [|? ? Hs' Hall]; subst. destruct (key_ltb x y) eqn:E.
    + constructor; [apply IH; exact Hs'|].
      rewrite Forall_forall in *. intros z Hz. apply insert_desc_In in Hz. destruct Hz as [->|Hz].
      * apply key_ltb_asym; exact E.
      * apply Hall; exact Hz.
    + constructor; [exact Hs|]. constructor; [exact E|].
      rewrite Forall_forall in *. intros z Hz.
      eapply key_ltb_negtrans; [exact E|apply Hall; exact Hz].
Qed.

Theorem sort_desc_perm : forall l, Permutation (sort_desc l) l.
Proof.
  induction l as [|x l IH]; [reflexivity|].
  cbn. rewrite insert_desc_perm. constructor. exact IH.
Qed.

Theorem sort_desc_sorted : forall l, StronglySorted ge_key (sort_desc l).
Proof.
  induction l as [|x l IH]; cbn; [constructor|]. apply insert_desc_sorted; exact IH.
Qed.

Lemma sorted_split : forall {A} (R : A -> A -> Prop) l1 x l2,
  StronglySorted R (l1 ++ x :: l2) -> Forall (fun y => R y x) l1 /\ Forall (R x) l2.
Proof.
  intros A R l1; induction l1 as [|y l1 IH]; intros x l2 H.
  - cbn in H. inversion H; subst. split; [constructor|assumption].
  - cbn in H. inversion H as [|? ? Hs Hall]; subst.
    destruct (IH _ _ Hs) as [H1 H2]. split; [|exact H2].
    constructor; [|exact H1].
    rewrite Forall_forall in Hall. apply Hall. apply in_or_app. right; left; reflexivity.
Qed.

(* ---- generic facts about the cut and the first hit --------------------------------- *)
Lemma first_some_spec : forall {A B} (f : A -> option B) l v,
  first_some f l = Some v <->
  exists l1 x l2, l = l1 ++ x :: l2 /\ f x = Some v /\ Forall (fun y => f y = None) l1.
Proof.
  intros A B f l v; induction l as [|a l IH]; cbn.
  - split; [discriminate|]. intros (l1 & x & l2 & H & _). destruct l1; discriminate.
  - destruct (f a) eqn:E.
    + split.
      * intro H; injection H as ->. exists [], a, l. repeat split; auto.
      * intros (l1 & x & l2 & H & Hx & Hn). destruct l1 as [|y l1].
        -- injection H as -> ->. congruence.
        -- injection H as -> ->. inversion Hn; congruence.
    + rewrite IH. split.
      * intros (l1 & x & l2 & -> & Hx & Hn). exists (a :: l1), x, l2. repeat split; auto.
      * intros (l1 & x & l2 & H & Hx & Hn). destruct l1 as [|y l1].
        -- injection H as -> ->. congruence.
        -- injection H as -> ->. inversion Hn; subst. exists l1, x, l2. repeat split; auto.
Qed.

Lemma first_some_none : forall {A B} (f : A -> option B) l,
  first_some f l = None <-> Forall (fun y => f y = None) l.
Proof.
  intros A B f l; induction l as [|a l IH]; cbn.
  - split; auto.
  - destruct (f a) eqn:E.
    + split; [discriminate|]. intro H; inversion H; congruence.
    + rewrite IH. split; [intro H; constructor; auto|intro H; inversion H; auto].
Qed.

Section Env.
  Variable url_join : str -> str -> str.
  Variable url_basename : str -> str.

  Notation locals := (locals url_basename).
  Notation expand_locals := (expand_locals url_basename).
  Notation lsec_get := (lsec_get url_join url_basename).
  Notation ls_get := (ls_get url_join url_basename).
  Notation get_matching_sections := (get_matching_sections url_basename).
  Notation ignores := (ignores url_join url_basename).
  Notation take_visible := (take_visible url_join url_basename).
  Notation sorted_sections := (sorted_sections url_basename).
  Notation get_sections := (get_sections url_join url_basename).
  Notation resolve_loc := (resolve_loc url_join url_basename).
  Notation stack_get := (stack_get url_join url_basename).
  Notation stack_get_bool := (stack_get_bool url_join url_basename).

  (* ---- B. LocationSection.get ------------------------------------------------------ *)
  Lemma str_eqb_eq : forall a b, str_eqb a b = true <-> a = b.
  Proof.
    induction a as [|x a IH]; intros [|y b]; cbn; split; intro H;
      try reflexivity; try discriminate.
    - apply andb_true_iff in H. destruct H as [H1 H2]. apply N.eqb_eq in H1. apply IH in H2.
      subst; reflexivity.
    - injection H as -> ->. rewrite N.eqb_refl. apply IH. reflexivity.
  Qed.

  Lemma lookup_key_bound : forall k o v, lookup k o = Some v -> (length k <= key_bound o)%nat.
  Proof.
    intros k o v; induction o as [|[k' v'] o IH]; cbn; [discriminate|].
    destruct (str_eqb k k') eqn:E.
    - apply str_eqb_eq in E. subst. intros _. apply Nat.le_max_l.
    - intro H. etransitivity; [apply IH; exact H|apply Nat.le_max_r].
  Qed.

  (* more fuel never changes the result once the names have outgrown every key *)
  Lemma lsec_get_fuel_step : forall ls f name,
    (key_bound (ls_opts ls) < length name + f)%nat ->
    lsec_get (S f) ls name = lsec_get f ls name.
  Proof.
    intros ls f; induction f as [|f IH]; intros name H.
    - cbn. destruct (lookup name (ls_opts ls)) eqn:E; [|reflexivity].
      apply lookup_key_bound in E. lia.
    - change (lsec_get (S (S f)) ls name) with
        (match lookup name (ls_opts ls) with
         | None => None
         | Some v =>
             Some (expand_locals ls
                     match lsec_get (S f) ls (name ++ policy_suffix) with
                     | Some p => if str_eqb p appendpath then url_join v (ls_extra ls) else v
                     | None => v
                     end)
         end).
      rewrite IH; [reflexivity|]. rewrite app_length. cbn. lia.
  Qed.

  Theorem lsec_get_fuel_enough : forall ls name f,
    (get_fuel ls <= f)%nat -> lsec_get f ls name = ls_get ls name.
  Proof.
    intros ls name f H. unfold ConfigLoc.ls_get.
    induction H as [|f H IH]; [reflexivity|].
    rewrite lsec_get_fuel_step; [exact IH|]. unfold get_fuel in H. lia.
  Qed.

  (* the defining equation of LocationSection.get, free of fuel *)
  Theorem ls_get_eq : forall ls name,
    ls_get ls name =
    match lookup name (ls_opts ls) with
    | None => None
    | Some v =>
        Some (expand_locals ls
                match ls_get ls (name ++ policy_suffix) with
                | Some p => if str_eqb p appendpath then url_join v (ls_extra ls) else v
                | None => v
                end)
    end.
  Proof.
    intros ls name.
    rewrite <- (lsec_get_fuel_enough ls name (S (get_fuel ls))) by lia.
    rewrite <- (lsec_get_fuel_enough ls (name ++ policy_suffix) (get_fuel ls)) by lia.
    reflexivity.
  Qed.

  (* text without '{' is not touched by the local expansion *)
  Definition key_starts_brace (kv : str * str) : bool :=
    match fst kv with c :: _ => c =? 123 | [] => false end.

  Lemma find_prefix_none : forall (L : list (str * str)) c v,
    forallb key_starts_brace L = true -> (c =? 123) = false ->
    find (fun kv => prefixb (fst kv) (c :: v)) L = None.
  Proof.
    induction L as [|[k w] L IH]; intros c v HL Hc; [reflexivity|].
    cbn [forallb] in HL. apply andb_true_iff in HL. destruct HL as [Hk HL].
    unfold key_starts_brace in Hk. cbn [fst] in Hk. destruct k as [|k0 k]; [discriminate|].
    apply N.eqb_eq in Hk. subst k0.
    cbn [find fst prefixb]. rewrite N.eqb_sym, Hc. cbn [andb]. apply IH; assumption.
  Qed.

  Lemma expand_aux_no_brace : forall ls v,
    memb 123 v = false -> expand_aux (locals ls) 0 v = v.
  Proof.
    intros ls v; induction v as [|c v IH]; intro H; [reflexivity|].
    unfold memb in H. cbn [existsb] in H. apply orb_false_iff in H. destruct H as [Hc Hv].
    cbn [expand_aux].
    rewrite find_prefix_none; [|reflexivity|rewrite N.eqb_sym; exact Hc].
    f_equal. apply IH. exact Hv.
  Qed.

  Theorem expand_locals_no_brace : forall ls v, memb 123 v = false -> expand_locals ls v = v.
  Proof. intros; apply expand_aux_no_brace; assumption. Qed.

  (* the three references expand to the unmatched suffix, its basename, the branch name *)
  Theorem expand_relpath : forall ls, expand_locals ls (lit "{relpath}") = ls_extra ls.
  Proof. intro ls. unfold ConfigLoc.expand_locals. cbn. apply app_nil_r. Qed.
  Theorem expand_basename : forall ls,
    expand_locals ls (lit "{basename}") = url_basename (ls_extra ls).
  Proof. intro ls. unfold ConfigLoc.expand_locals. cbn. apply app_nil_r. Qed.
  Theorem expand_branchname : forall ls, expand_locals ls (lit "{branchname}") = ls_branch ls.
  Proof. intro ls. unfold ConfigLoc.expand_locals. cbn. apply app_nil_r. Qed.

  (* a value under the appendpath policy: url_join(value, extra_path), nothing else *)
  Theorem ls_get_appendpath : forall ls name v,
    lookup name (ls_opts ls) = Some v ->
    ls_get ls (name ++ policy_suffix) = Some appendpath ->
    ls_get ls name = Some (expand_locals ls (url_join v (ls_extra ls))).
  Proof.
    intros ls name v Hl Hp. rewrite ls_get_eq, Hl, Hp.
    assert (E : str_eqb appendpath appendpath = true) by (apply str_eqb_eq; reflexivity).
    rewrite E. reflexivity.
  Qed.

  Theorem ls_get_nopolicy : forall ls name v,
    lookup name (ls_opts ls) = Some v ->
    lookup (name ++ policy_suffix) (ls_opts ls) = None ->
    ls_get ls name = Some (expand_locals ls v).
  Proof.
    intros ls name v Hl Hp. rewrite ls_get_eq, Hl.
    rewrite (ls_get_eq ls (name ++ policy_suffix)), Hp. reflexivity.
  Qed.

  Theorem ls_get_undefined : forall ls name,
    lookup name (ls_opts ls) = None <-> ls_get ls name = None.
  Proof.
    intros ls name. rewrite ls_get_eq. destruct (lookup name (ls_opts ls)); split; intro H;
      try reflexivity; discriminate.
  Qed.

  (* ---- C. the matching sections ---------------------------------------------------- *)
  Definition named_matching (st : store) (location : str) : list (nat * lsection) :=
    flat_map (fun so =>
                let sp := parts (fst so) in
                if sec_match (parts location) sp
                then [(length sp, mkLS (fst so) (snd so) (extra_of (parts location) sp)
                                       (url_basename location))]
                else [])
             (st_named st).

  Lemma get_matching_sections_eq : forall st location,
    get_matching_sections st location =
    (match st_noname st with Some o => [(O, mkLS [] o location [])] | None => [] end)
      ++ named_matching st location.
  Proof. reflexivity. Qed.

  (* the "resync" loop of _get_matching_sections pairs the names filtered by
     _iter_for_location_by_parts with their sections, in order *)
  Theorem named_matching_iter : forall st location,
    map (fun p => (ls_id (snd p), ls_extra (snd p), fst p)) (named_matching st location) =
    iter_for_location_by_parts (map fst (st_named st)) location.
  Proof.
    intros st location. unfold named_matching, iter_for_location_by_parts.
    induction (st_named st) as [|[i o] l IH]; [reflexivity|].
    cbn [flat_map map fst snd]. destruct (sec_match (parts location) (parts i)).
    - cbn. rewrite IH. reflexivity.
    - cbn. exact IH.
  Qed.

  (* every named matching section: its parts match a prefix of the location's
     parts, its extra_path is the joined unmatched suffix, its options are the
     store's *)
  Theorem named_matching_spec : forall st location n s,
    In (n, s) (named_matching st location) ->
    In (ls_id s, ls_opts s) (st_named st) /\
    exists pre suf, parts location = pre ++ suf /\ Forall2 fnm pre (parts (ls_id s)) /\
                    ls_extra s = join [cSL] suf /\ n = length pre /\
                    ls_branch s = url_basename location.
  Proof.
    intros st location n s H. unfold named_matching in H. apply in_flat_map in H.
    destruct H as ([i o] & Hin & H). cbn [fst snd] in H.
    destruct (sec_match (parts location) (parts i)) eqn:E; [|contradiction].
    destruct H as [H|[]]. injection H as <- <-. cbn [ls_id ls_opts ls_extra ls_branch].
    split; [exact Hin|]. apply sec_match_spec in E. destruct E as (pre & suf & Hp & HF).
    pose proof (Forall2_length HF) as Hl.
    exists pre, suf. repeat split; auto.
    - rewrite Hp. apply extra_of_app; exact Hl.
  Qed.

  Theorem named_matching_complete : forall st location i o pre suf,
    In (i, o) (st_named st) -> parts location = pre ++ suf -> Forall2 fnm pre (parts i) ->
    In (length pre, mkLS i o (join [cSL] suf) (url_basename location)) (named_matching st location).
  Proof.
    intros st location i o pre suf Hin Hp HF. unfold named_matching. apply in_flat_map.
    exists (i, o). split; [exact Hin|]. cbn [fst snd].
    assert (E : sec_match (parts location) (parts i) = true)
      by (apply sec_match_spec; exists pre, suf; auto).
    rewrite E. left. pose proof (Forall2_length HF) as Hl.
    rewrite Hp, extra_of_app by exact Hl. rewrite Hl. reflexivity.
  Qed.

  (* ---- D. order, cut, first hit ------------------------------------------------------ *)
  (* the visible sections are the longest prefix of the specificity order that
     contains no section with a true ignore_parents *)
  Theorem take_visible_spec : forall l,
    exists rest, l = take_visible l ++ rest /\
                 Forall (fun s => ignores s = false) (take_visible l) /\
                 (rest = [] \/ exists r rest', rest = r :: rest' /\ ignores r = true).
  Proof.
    induction l as [|s l IH].
    - exists []. repeat split; auto. constructor.
    - cbn [ConfigLoc.take_visible]. destruct (ignores s) eqn:E.
      + exists (s :: l). repeat split; [constructor|]. right. exists s, l. auto.
      + destruct IH as (rest & H1 & H2 & H3). exists rest. repeat split.
        * cbn. f_equal. exact H1.
        * constructor; assumption.
        * exact H3.
  Qed.

  Theorem get_sections_spec : forall st location,
    exists rest, sorted_sections st location = get_sections st location ++ rest /\
                 Forall (fun s => ignores s = false) (get_sections st location) /\
                 (rest = [] \/ exists r rest', rest = r :: rest' /\ ignores r = true).
  Proof. intros; apply take_visible_spec. Qed.

  Theorem sorted_sections_perm : forall st location,
    Permutation (sorted_sections st location) (map snd (get_matching_sections st location)).
  Proof.
    intros. unfold ConfigLoc.sorted_sections. apply Permutation_map. apply sort_desc_perm.
  Qed.

  (* soundness: the value comes from a matching, visible section that defines the
     option, and every strictly more specific matching section neither defines
     it nor has ignore_parents set *)
  Theorem most_specific_wins : forall st location name v,
    resolve_loc st location name = Some v ->
    exists n s,
      In (n, s) (get_matching_sections st location) /\
      ls_get s name = Some v /\ ignores s = false /\
      forall n' s', In (n', s') (get_matching_sections st location) ->
                    key_ltb (n, s) (n', s') = true ->
                    ls_get s' name = None /\ ignores s' = false.
  Proof.
    intros st location name v H. unfold ConfigLoc.resolve_loc in H.
    apply first_some_spec in H. destruct H as (l1 & s & l2 & Hsplit & Hs & Hnone).
    destruct (get_sections_spec st location) as (rest & Hsorted & Hvis & _).
    rewrite Hsplit in Hsorted, Hvis.
    unfold ConfigLoc.sorted_sections in Hsorted.
    set (L := sort_desc (get_matching_sections st location)) in *.
    assert (HL : StronglySorted ge_key L) by apply sort_desc_sorted.
    assert (HP : Permutation L (get_matching_sections st location)) by apply sort_desc_perm.
    rewrite <- app_assoc in Hsorted. cbn [app] in Hsorted.
    (* split L along the split of its projection *)
    destruct (map_eq_app _ _ _ _ Hsorted) as (L1 & Lr & HLeq & HL1 & HLr).
    destruct Lr as [|[n s0] L2]; [discriminate|]. cbn [map snd] in HLr. injection HLr as -> HL2.
    exists n, s. rewrite HLeq in HL, HP.
    apply Forall_app in Hvis. destruct Hvis as [Hvis1 Hvis2]. inversion Hvis2 as [|? ? Hsi _]; subst.
    repeat split; auto.
    - eapply Permutation_in; [exact HP|]. apply in_or_app. right; left; reflexivity.
    - destruct (sorted_split _ _ _ _ HL) as [_ Hafter].
      assert (Hin1 : In (n', s') L1).
      { apply (Permutation_in _ (Permutation_sym HP)) in H. apply in_app_or in H.
        destruct H as [H|[H|H]]; [exact H| |].
        - injection H as <- <-. rewrite key_ltb_irrefl in H0. discriminate.
        - rewrite Forall_forall in Hafter. specialize (Hafter _ H). unfold ge_key in Hafter.
          congruence. }
      rewrite Forall_forall in Hnone. apply Hnone.
      apply (in_map snd) in Hin1. exact Hin1.
    - destruct (sorted_split _ _ _ _ HL) as [_ Hafter].
      assert (Hin1 : In (n', s') L1).
      { apply (Permutation_in _ (Permutation_sym HP)) in H. apply in_app_or in H.
        destruct H as [H|[H|H]]; [exact H| |].
        - injection H as <- <-. rewrite key_ltb_irrefl in H0. discriminate.
        - rewrite Forall_forall in Hafter. specialize (Hafter _ H). unfold ge_key in Hafter.
          congruence. }
      rewrite Forall_forall in Hvis1. apply Hvis1.
      apply (in_map snd) in Hin1. exact Hin1.
  Qed.

  Lemma first_some_visible : forall name v l1 s l2,
    Forall (fun x => ignores x = false /\ (ls_get x name = None \/ ls_get x name = Some v)) l1 ->
    ignores s = false -> ls_get s name = Some v ->
    first_some (fun x => ls_get x name) (take_visible (l1 ++ s :: l2)) = Some v.
  Proof.
    intros name v l1 s l2 H Hi Hs. induction l1 as [|x l1 IH].
    - cbn [app ConfigLoc.take_visible]. rewrite Hi. cbn [first_some]. rewrite Hs. reflexivity.
    - inversion H as [|? ? [Hx1 Hx2] H']; subst.
      cbn [app ConfigLoc.take_visible]. rewrite Hx1. cbn [first_some].
      destruct Hx2 as [Hx2|Hx2]; rewrite Hx2; [apply IH; exact H'|reflexivity].
  Qed.

  (* completeness: a matching section that defines the option, is not cut, and
     is not preceded (in specificity) by another definition or an ignore_parents
     section gives the value *)
  Theorem most_specific_wins_complete : forall st location name v n s,
    In (n, s) (get_matching_sections st location) ->
    ls_get s name = Some v -> ignores s = false ->
    (forall n' s', In (n', s') (get_matching_sections st location) ->
                   key_ltb (n', s') (n, s) = false ->
                   ignores s' = false /\ (ls_get s' name = None \/ ls_get s' name = Some v)) ->
    resolve_loc st location name = Some v.
  Proof.
    intros st location name v n s Hin Hs Hi Hall.
    unfold ConfigLoc.resolve_loc, ConfigLoc.get_sections, ConfigLoc.sorted_sections.
    set (L := sort_desc (get_matching_sections st location)).
    assert (HL : StronglySorted ge_key L) by apply sort_desc_sorted.
    assert (HP : Permutation L (get_matching_sections st location)) by apply sort_desc_perm.
    apply (Permutation_in _ (Permutation_sym HP)) in Hin.
    apply in_split in Hin. destruct Hin as (L1 & L2 & HLeq).
    rewrite HLeq in HL |- *. rewrite map_app. cbn [map snd].
    apply first_some_visible; auto.
    destruct (sorted_split _ _ _ _ HL) as [Hbefore _].
    rewrite Forall_forall in *. intros x Hx. apply in_map_iff in Hx.
    destruct Hx as ([n' s'] & <- & Hx). cbn [snd].
    apply (Hall n' s').
    - eapply Permutation_in; [exact HP|]. rewrite HLeq. apply in_or_app. left; exact Hx.
    - apply Hbefore; exact Hx.
  Qed.

  Theorem resolve_none : forall st location name,
    resolve_loc st location name = None <->
    Forall (fun s => ls_get s name = None) (get_sections st location).
  Proof. intros; apply first_some_none. Qed.

  (* ignore_parents: a matching section with a true ignore_parents hides itself
     and everything that is not more specific: the value never comes from it,
     and the section it comes from is at least as specific *)
  Theorem ignore_parents_cut : forall st location name v n0 s0,
    resolve_loc st location name = Some v ->
    In (n0, s0) (get_matching_sections st location) -> ignores s0 = true ->
    exists n s, In (n, s) (get_matching_sections st location) /\
                ls_get s name = Some v /\ s <> s0 /\ key_ltb (n, s) (n0, s0) = false.
  Proof.
    intros st location name v n0 s0 H Hin Hi.
    destruct (most_specific_wins _ _ _ _ H) as (n & s & Hs & Hv & Hsi & Hall).
    exists n, s. repeat split; auto.
    - intros ->. congruence.
    - destruct (key_ltb (n, s) (n0, s0)) eqn:E; [|reflexivity].
      destruct (Hall _ _ Hin E) as [_ Hc]. congruence.
  Qed.

  (* ... in particular an ignore_parents in the single most specific matching
     section hides every section: no option resolves at that location *)
  Theorem ignore_parents_top : forall st location name n0 s0,
    In (n0, s0) (get_matching_sections st location) -> ignores s0 = true ->
    (forall n s, In (n, s) (get_matching_sections st location) ->
                 (n, s) <> (n0, s0) -> key_ltb (n, s) (n0, s0) = true) ->
    resolve_loc st location name = None.
  Proof.
    intros st location name n0 s0 Hin Hi Hmax.
    destruct (resolve_loc st location name) as [v|] eqn:E; [|reflexivity].
    destruct (most_specific_wins _ _ _ _ E) as (n & s & Hs & Hv & Hsi & Hall).
    assert (Hne : (n, s) <> (n0, s0)) by (intro Heq; injection Heq as -> ->; congruence).
    destruct (Hall _ _ Hin (Hmax _ _ Hs Hne)) as [_ Hc]. congruence.
  Qed.
End Env.

(* ---- E. a location and the section named after it ------------------------------------ *)
(* LocationStack(location) stores into the section NAMED [location]; that section
   is found again only if the name, read as a glob, matches the location *)
Theorem self_match_plain : forall loc,
  Forall (fun s => plain s = true) (parts loc) ->
  sec_match (parts loc) (parts loc) = true /\ extra_of (parts loc) (parts loc) = [].
Proof.
  intros loc Hp. split.
  - apply sec_match_plain; [exact Hp|]. exists []. symmetry; apply app_nil_r.
  - unfold extra_of. rewrite skipn_all. reflexivity.
Qed.

Theorem self_match_refuted :
  exists loc, sec_match (parts loc) (parts loc) = false /\
              stack_get simple_join simple_basename
                        (mk_store None [(loc, [(lit "foo", lit "x")])]) loc None (lit "foo") = None.
Proof. exists (lit "/a/[!a]"). vm_compute. split; reflexivity. Qed.

Example self_match_example :
  let loc := lit "/home/me/proj" in
  forallb plain (parts loc) = true /\
  stack_get simple_join simple_basename
            (mk_store None [(loc, [(lit "foo", lit "x")])]) loc None (lit "foo") = Some (lit "x").
Proof. vm_compute. split; reflexivity. Qed.

(* the documented example: /a, /a/b, /a/* at location /a/b/c -- "/a/b" and "/a/*"
   tie on the number of parts; the greater id ("/a/b" > "/a/*") comes first *)
Example order_example :
  map (fun s => ls_id s)
      (get_sections simple_join simple_basename
         (mk_store (Some [(lit "foo", lit "0")])
                   [(lit "/a", [(lit "foo", lit "1")]); (lit "/a/b", [(lit "foo", lit "2")]);
                    (lit "/a/*", [(lit "foo", lit "3")]); (lit "/b", [(lit "foo", lit "4")])])
         (lit "/a/b/c"))
  = [lit "/a/b"; lit "/a/*"; lit "/a"; []].
Proof. vm_compute. reflexivity. Qed.

Example ignore_parents_example :
  let st := mk_store (Some [(lit "foo", lit "0")])
                     [(lit "/a", [(lit "foo", lit "1")]);
                      (lit "/a/b", [(lit "ignore_parents", lit "true"); (lit "foo", lit "2")]);
                      (lit "/a/b/c", [(lit "bar", lit "3")])] in
  map (fun s => ls_id s) (get_sections simple_join simple_basename st (lit "/a/b/c/d")) = [lit "/a/b/c"]
  /\ resolve_loc simple_join simple_basename st (lit "/a/b/c/d") (lit "foo") = None
  /\ resolve_loc simple_join simple_basename st (lit "/a/b/c/d") (lit "bar") = Some (lit "3").
Proof. vm_compute. repeat split; reflexivity. Qed.

Example appendpath_example :
  let st := mk_store None
                     [(lit "/a", [(lit "foo", lit "base"); (lit "foo:policy", lit "appendpath");
                                  (lit "bar", lit "{relpath}|{basename}|{branchname}")])] in
  resolve_loc simple_join simple_basename st (lit "/a/b/c") (lit "foo") = Some (lit "base/b/c") /\
  resolve_loc simple_join simple_basename st (lit "/a/b/c") (lit "bar") = Some (lit "b/c|c|c").
Proof. vm_compute. split; reflexivity. Qed.

(* StartingPathMatcher is NOT a component-wise matcher: "/a" selects "/ab" *)
Theorem spm_not_componentwise :
  exists st loc id extra,
    In (id, extra) (spm_sections st loc) /\ sec_match (parts loc) (parts id) = false.
Proof.
  exists (mk_store None [(lit "/a", [])]), (lit "/ab"), (lit "/a"), [].
  vm_compute. split; [left; reflexivity|reflexivity].
Qed.
