(* Theory/LogRbd.v -- reverse_by_depth and _rebase_merge_depth (C25).

     reverse_by_depth_perm        a permutation of its input, for EVERY list
                                   (minus the entries the final filter drops)
     reverse_by_depth_involutive  applying it twice is the identity on every
                                   depth-well-formed list (first depth 0, a step
                                   goes up by at most one)
     reverse_by_depth_wf          and it keeps lists depth-well-formed
     rebase_* facts about _rebase_merge_depth
*)
From Coq Require Import List Arith Bool Lia Permutation.
From BV Require Import Model.Log.
Import ListNotations.

(* depth-well-formedness at level d: every depth is >= d, the first one is <= lim,
   every next one at most one more than its predecessor *)
Fixpoint okd (d lim : nat) (ds : list nat) : bool :=
  match ds with
  | [] => true
  | x :: ds' => (d <=? x) && (x <=? lim) && okd d (S x) ds'
  end.

(* a list of (payload, depth): first depth 0, steps up by at most 1 *)
Definition wf_depths {A} (l : list (A * nat)) : bool := okd 0 0 (map snd l).

Section RBD.
  Context {A : Type}.
  Variable hr : A -> bool.
  Notation item := (@item A).
  Notation reals := (@reals A hr).

  Definition ok (d lim : nat) (l : list item) : bool := okd d lim (map snd l).

  (* ---- group ---------------------------------------------------------------- *)

  Lemma group_concat d (l : list item) : fst (group d l) ++ concat (snd (group d l)) = l.
  Proof.
    induction l as [|x l IH]; cbn [group]; [reflexivity|].
    destruct (group d l) as [p cs]. cbn [fst snd] in IH.
    destruct (snd x =? d); cbn [fst snd concat app]; rewrite IH; reflexivity.
  Qed.

  Lemma group_app_prefix d (t rest : list item) : Forall (fun y => snd y <> d) t ->
    group d (t ++ rest) = (t ++ fst (group d rest), snd (group d rest)).
  Proof.
    induction 1 as [|y t Hy _ IH]; cbn [app group]; [destruct (group d rest); reflexivity|].
    rewrite IH. apply Nat.eqb_neq in Hy. rewrite Hy. reflexivity.
  Qed.

  Definition chunk_shape (d : nat) (c : list item) : Prop :=
    exists x t, c = x :: t /\ snd x = d /\ Forall (fun y => snd y <> d) t.

  Lemma group_concat_chunks d (cs : list (list item)) : Forall (chunk_shape d) cs ->
    group d (concat cs) = ([], cs).
  Proof.
    induction 1 as [|c cs [x [t [-> [Hx Ht]]]] _ IH]; cbn [concat]; [reflexivity|].
    cbn [app group]. rewrite (group_app_prefix d t (concat cs) Ht), IH. cbn [fst snd].
    rewrite (proj2 (Nat.eqb_eq _ _) Hx), app_nil_r. reflexivity.
  Qed.

  (* ---- reals ------------------------------------------------------------------ *)

  Lemma reals_app (a b : list item) : reals (a ++ b) = reals a ++ reals b.
  Proof. apply flat_map_app. Qed.

  Lemma reals_cons (x : item) (l : list item) :
    reals (x :: l) = (match fst x with
                      | Some a => if hr a then [(a, snd x)] else []
                      | None => []
                      end) ++ reals l.
  Proof. reflexivity. Qed.

  Lemma reals_concat (cs : list (list item)) : reals (concat cs) = concat (map reals cs).
  Proof. induction cs as [|c cs IH]; cbn [concat map]; [reflexivity | rewrite reals_app, IH; reflexivity]. Qed.

  Lemma perm_concat_rev {B} (cs : list (list B)) : Permutation (concat (rev cs)) (concat cs).
  Proof.
    induction cs as [|c cs IH]; cbn [rev concat]; [constructor|].
    rewrite concat_app. cbn [concat]. rewrite app_nil_r.
    etransitivity; [apply Permutation_app_comm|]. apply Permutation_app_head. exact IH.
  Qed.

  Lemma perm_concat_map {B C} (F G : B -> list C) (l : list B) :
    (forall c, In c l -> Permutation (F c) (G c)) ->
    Permutation (concat (map F l)) (concat (map G l)).
  Proof.
    induction l as [|c l IH]; intros H; cbn [map concat]; [constructor|].
    apply Permutation_app; [apply H; left; reflexivity | apply IH; intros; apply H; right; assumption].
  Qed.

  (* one chunk after the recursive call *)
  Definition proc (f d : nat) (c : list item) : list item :=
    match c with
    | x :: t => match t with [] => c | _ :: _ => x :: rbd_raw f (S d) t end
    | [] => c
    end.

  Lemma rbd_raw_S f d (l : list item) :
    rbd_raw (S f) d l = concat (rev (map (proc f d) (snd (group d ((None, d) :: l))))).
  Proof. reflexivity. Qed.

  (* ---- permutation --------------------------------------------------------------- *)

  Theorem rbd_raw_perm : forall f d (l : list item), Permutation (reals (rbd_raw f d l)) (reals l).
  Proof.
    induction f as [|f IH]; intros d l; [apply Permutation_refl|].
    rewrite rbd_raw_S. set (zd := snd (group d ((None, d) :: l))).
    assert (Ez : reals (concat zd) = reals l).
    { pose proof (group_concat d ((None, d) :: l)) as G. fold zd in G.
      assert (P0 : fst (group d ((None, d) :: l)) = []).
      { cbn [group]. destruct (group d l). cbn [snd]. rewrite Nat.eqb_refl. reflexivity. }
      rewrite P0 in G. cbn [app] in G. rewrite G. reflexivity. }
    rewrite <- Ez, !reals_concat.
    etransitivity; [rewrite map_rev; apply perm_concat_rev|].
    rewrite map_map.
    apply (perm_concat_map (fun c => reals (proc f d c)) (fun c => reals c)).
    intros c _. unfold proc. destruct c as [|x [|y t]]; try apply Permutation_refl.
    change (x :: rbd_raw f (S d) (y :: t)) with ([x] ++ rbd_raw f (S d) (y :: t)).
    change (x :: y :: t) with ([x] ++ (y :: t)). rewrite !reals_app.
    apply Permutation_app_head. apply IH.
  Qed.

  Lemma reals_wrap (l : list (A * nat)) : reals (map wrap l) = filter (fun x => hr (fst x)) l.
  Proof.
    induction l as [|[a d] l IH]; [reflexivity|]. cbn [map filter fst].
    change (reals (wrap (a, d) :: map wrap l)) with ((if hr a then [(a, d)] else []) ++ reals (map wrap l)).
    rewrite IH. destruct (hr a); reflexivity.
  Qed.

  (* reverse_by_depth permutes its input (the final filter drops the entries without revno) *)
  Theorem reverse_by_depth_perm (l : list (A * nat)) :
    Permutation (reverse_by_depth hr l) (filter (fun x => hr (fst x)) l).
  Proof. unfold reverse_by_depth. rewrite <- reals_wrap. apply rbd_raw_perm. Qed.

  (* ---- well-formed lists ------------------------------------------------------------ *)

  Lemma okd_weaken d lim lim' ds : lim <= lim' -> okd d lim ds = true -> okd d lim' ds = true.
  Proof.
    destruct ds as [|x ds]; [reflexivity|]. cbn [okd]. intros L H.
    apply andb_true_iff in H as [H1 H3]. apply andb_true_iff in H1 as [H1 H2].
    apply Nat.leb_le in H1, H2. rewrite H3, (proj2 (Nat.leb_le _ _) H1), (proj2 (Nat.leb_le x lim')) by lia.
    reflexivity.
  Qed.

  Lemma okd_lower d lim ds : okd d lim ds = true -> Forall (fun x => d <= x) ds.
  Proof.
    revert lim. induction ds as [|x ds IH]; intros lim H; [constructor|]. cbn [okd] in H.
    apply andb_true_iff in H as [H1 H3]. apply andb_true_iff in H1 as [H1 _]. apply Nat.leb_le in H1.
    constructor; [exact H1 | apply (IH _ H3)].
  Qed.

  (* the key fact about the chunking loop on a well-formed list *)
  Lemma group_ok d : forall (l : list item) lim, ok d lim l = true ->
    ok (S d) lim (fst (group d l)) = true /\
    Forall (fun c => exists x t, c = x :: t /\ snd x = d /\ ok (S d) (S d) t = true) (snd (group d l)).
  Proof.
    unfold ok. induction l as [|x l IH]; intros lim H; cbn [group]; [split; [reflexivity | constructor]|].
    cbn [map okd] in H. apply andb_true_iff in H as [H1 H3]. apply andb_true_iff in H1 as [H1 H2].
    apply Nat.leb_le in H1, H2. destruct (IH (S (snd x)) H3) as [P C].
    destruct (group d l) as [p cs]. cbn [fst snd] in *.
    destruct (snd x =? d) eqn:E; cbn [fst snd].
    - apply Nat.eqb_eq in E. split; [reflexivity|]. constructor; [|exact C].
      exists x, p. rewrite E in P. repeat split; assumption.
    - apply Nat.eqb_neq in E. split; [|exact C]. cbn [map okd].
      rewrite (proj2 (Nat.leb_le (S d) (snd x))) by lia. rewrite (proj2 (Nat.leb_le _ _) H2). exact P.
  Qed.

  Lemma ok_top_nil d (p : list item) : ok (S d) d p = true -> p = [].
  Proof.
    destruct p as [|x p]; [reflexivity|]. unfold ok. cbn [map okd]. intros H.
    apply andb_true_iff in H as [H _]. apply andb_true_iff in H as [H1 H2]. apply Nat.leb_le in H1, H2. lia.
  Qed.

  Definition chunk_ok (d : nat) (c : list item) : Prop :=
    exists x t, c = x :: t /\ snd x = d /\ ok (S d) (S d) t = true.

  Lemma group_wf d (l : list item) : ok d d l = true ->
    exists cs, group d l = ([], cs) /\ Forall (chunk_ok d) cs /\ concat cs = l.
  Proof.
    intros H. destruct (group_ok d l d H) as [P C]. pose proof (group_concat d l) as G.
    destruct (group d l) as [p cs]. cbn [fst snd] in *. apply ok_top_nil in P. subst p.
    exists cs. repeat split; assumption.
  Qed.

  Lemma chunk_ok_shape d c : chunk_ok d c -> chunk_shape d c.
  Proof.
    intros [x [t [-> [Hx Ht]]]]. exists x, t. repeat split; [exact Hx|].
    unfold ok in Ht. apply okd_lower in Ht. rewrite Forall_map in Ht.
    eapply Forall_impl; [|exact Ht]. cbn. intros; lia.
  Qed.

  (* chunks put together again are well-formed *)
  Lemma ok_app_chunks d : forall (t : list item) lim (rest : list item),
    ok (S d) lim t = true -> d <= lim -> ok d d rest = true -> ok d lim (t ++ rest) = true.
  Proof.
    unfold ok. induction t as [|y t IH]; intros lim rest Ht L Hr; cbn [app].
    - apply (okd_weaken d d lim _ L Hr).
    - cbn [map okd] in *. apply andb_true_iff in Ht as [H1 H3]. apply andb_true_iff in H1 as [H1 H2].
      apply Nat.leb_le in H1, H2.
      rewrite (proj2 (Nat.leb_le d (snd y))) by lia. rewrite (proj2 (Nat.leb_le _ _) H2). cbn [andb].
      apply IH; [exact H3 | lia | exact Hr].
  Qed.

  Lemma ok_concat_chunks d (cs : list (list item)) : Forall (chunk_ok d) cs -> ok d d (concat cs) = true.
  Proof.
    induction 1 as [|c cs [x [t [-> [Hx Ht]]]] _ IH]; cbn [concat]; [reflexivity|].
    cbn [app]. unfold ok. cbn [map okd]. rewrite Hx, Nat.leb_refl. cbn [andb].
    apply (ok_app_chunks d t (S d) (concat cs) Ht); [lia | exact IH].
  Qed.

  (* ---- involution ---------------------------------------------------------------------- *)

  Definition real_ok (x : item) : Prop := exists a, fst x = Some a /\ hr a = true.
  Definition rewrap (l : list item) : list item := map wrap (reals l).

  Lemma rewrap_id (l : list item) : Forall real_ok l -> rewrap l = l.
  Proof.
    unfold rewrap. induction 1 as [|[o d] l [a [E Ha]] _ IH]; [reflexivity|].
    cbn in E. subst o. rewrite reals_cons. cbn [fst snd]. rewrite Ha. cbn [app map wrap fst snd].
    rewrite IH. reflexivity.
  Qed.

  Lemma rewrap_real (l : list item) : Forall real_ok (rewrap l).
  Proof.
    unfold rewrap. induction l as [|[o d] l IH]; [constructor|].
    rewrite reals_cons. cbn [fst snd]. destruct o as [a|]; [|exact IH].
    destruct (hr a) eqn:Ha; [|exact IH].
    cbn [app map]. constructor; [exists a; split; [reflexivity | exact Ha] | exact IH].
  Qed.

  Lemma rewrap_app (a b : list item) : rewrap (a ++ b) = rewrap a ++ rewrap b.
  Proof. unfold rewrap. rewrite reals_app, map_app. reflexivity. Qed.

  Lemma rewrap_concat (cs : list (list item)) : rewrap (concat cs) = concat (map rewrap cs).
  Proof. induction cs as [|c cs IH]; cbn [concat map]; [reflexivity | rewrite rewrap_app, IH; reflexivity]. Qed.

  Lemma rewrap_length (l : list item) : Forall real_ok l -> forall f d,
    length (rewrap (rbd_raw f d l)) = length l.
  Proof.
    intros R f d. unfold rewrap. rewrite map_length.
    rewrite (Permutation_length (rbd_raw_perm f d l)).
    rewrite <- (rewrap_id l R) at 2. unfold rewrap. rewrite map_length. reflexivity.
  Qed.

  (* the processed chunk, fakes removed *)
  Definition T (f d : nat) (c : list item) : list item :=
    match c with
    | x :: t => x :: rewrap (rbd_raw f (S d) t)
    | [] => []
    end.

  Lemma rbd_raw_nil_reals f d : reals (rbd_raw f d []) = [].
  Proof.
    destruct f; [reflexivity|]. rewrite rbd_raw_S. cbn [group snd]. rewrite Nat.eqb_refl. reflexivity.
  Qed.

  (* one level of reverse_by_depth on a list that is already split into chunks *)
  Lemma rewrap_rbd_chunks f d (l : list item) cs :
    group d l = ([], cs) -> Forall real_ok l -> Forall (chunk_ok d) cs ->
    rewrap (rbd_raw (S f) d l) = concat (rev (map (T f d) cs)).
  Proof.
    intros G R C. rewrite rbd_raw_S. cbn [group]. rewrite G. cbn [snd fst]. rewrite Nat.eqb_refl. cbn [snd].
    cbn [map rev]. rewrite concat_app, rewrap_app. cbn [concat proc]. rewrite app_nil_r.
    rewrite <- (map_rev (proc f d)), <- (map_rev (T f d)), rewrap_concat, map_map. f_equal.
    apply map_ext_in. intros c Hc. apply in_rev in Hc.
    assert (Rc : Forall real_ok c).
    { pose proof (group_concat d l) as X. rewrite G in X. cbn [fst snd app] in X.
      rewrite Forall_forall in *. intros y Hy. apply R. rewrite <- X. apply in_concat. exists c. split; assumption. }
    rewrite Forall_forall in C. destruct (C c Hc) as [x [t [-> _]]].
    inversion Rc as [|? ? Rx Rt]; subst. unfold proc, T.
    destruct t as [|y t].
    - change [x] with ([x] ++ []). rewrite rewrap_app, (rewrap_id [x]) by (constructor; [exact Rx | constructor]).
      unfold rewrap at 1. cbn [flat_map map]. unfold rewrap. rewrite rbd_raw_nil_reals. reflexivity.
    - change (x :: rbd_raw f (S d) (y :: t)) with ([x] ++ rbd_raw f (S d) (y :: t)).
      rewrite rewrap_app, (rewrap_id [x]) by (constructor; [exact Rx | constructor]). reflexivity.
  Qed.

  Lemma chunk_length_lt (cs : list (list item)) x t : In (x :: t) cs -> length t < length (concat cs).
  Proof.
    induction cs as [|c cs IH]; [contradiction|]. intros [->|H]; cbn [concat]; rewrite app_length.
    - cbn [length]. lia.
    - specialize (IH H). lia.
  Qed.

  Theorem rbd_involutive_raw : forall f1 f2 d (l : list item),
    length l < f1 -> length l < f2 -> ok d d l = true -> Forall real_ok l ->
    let r := rewrap (rbd_raw f1 d l) in
    ok d d r = true /\ rewrap (rbd_raw f2 d r) = l.
  Proof.
    induction f1 as [|f1 IH]; intros f2 d l L1 L2 Hok R; [lia|].
    destruct f2 as [|f2]; [lia|].
    destruct (group_wf d l Hok) as [cs [G [C E]]].
    cbn zeta. rewrite (rewrap_rbd_chunks f1 d l cs G R C).
    (* the processed chunks *)
    assert (HT : forall c, In c cs -> chunk_ok d (T f1 d c) /\ T f2 d (T f1 d c) = c /\ Forall real_ok (T f1 d c)).
    { intros c Hc. rewrite Forall_forall in C. destruct (C c Hc) as [x [t [-> [Hx Ht]]]].
      assert (Rc : Forall real_ok (x :: t)).
      { rewrite Forall_forall in *. intros y Hy. apply R. rewrite <- E. apply in_concat. exists (x :: t). split; assumption. }
      inversion Rc as [|? ? Rx Rt]; subst.
      assert (Lt : length t < length (concat cs)) by (apply (chunk_length_lt cs x t Hc)).
      destruct (IH f2 (S (snd x)) t) as [O I]; [lia | lia | exact Ht | exact Rt|].
      unfold T. repeat split.
      - exists x, (rewrap (rbd_raw f1 (S (snd x)) t)). repeat split. exact O.
      - f_equal. exact I.
      - constructor; [exact Rx | apply rewrap_real]. }
    set (cs' := rev (map (T f1 d) cs)).
    assert (C' : Forall (chunk_ok d) cs').
    { apply Forall_forall. intros c Hc. unfold cs' in Hc. apply in_rev in Hc.
      apply in_map_iff in Hc as [c0 [<- Hc0]]. apply (HT c0 Hc0). }
    assert (R' : Forall real_ok (concat cs')).
    { apply Forall_forall. intros y Hy. apply in_concat in Hy as [c [Hc Hy]].
      unfold cs' in Hc. apply in_rev in Hc. apply in_map_iff in Hc as [c0 [<- Hc0]].
      destruct (HT c0 Hc0) as [_ [_ X]]. rewrite Forall_forall in X. apply X. exact Hy. }
    split; [apply ok_concat_chunks; exact C'|].
    assert (G' : group d (concat cs') = ([], cs')).
    { apply group_concat_chunks. eapply Forall_impl; [apply chunk_ok_shape | exact C']. }
    rewrite (rewrap_rbd_chunks f2 d (concat cs') cs' G' R' C').
    unfold cs'. rewrite map_rev, rev_involutive, map_map. rewrite <- E.
    f_equal. rewrite <- (map_id cs) at 2. apply map_ext_in. intros c Hc. apply (HT c Hc).
  Qed.

  (* ---- top level --------------------------------------------------------------------------- *)

  Lemma map_wrap_inj (a b : list (A * nat)) : map wrap a = map wrap b -> a = b.
  Proof.
    revert b. induction a as [|[x d] a IH]; destruct b as [|[y e] b]; cbn; try discriminate; [reflexivity|].
    intros H. injection H as -> -> H. f_equal. apply IH. exact H.
  Qed.

  Lemma wrap_real (l : list (A * nat)) : forallb (fun x => hr (fst x)) l = true -> Forall real_ok (map wrap l).
  Proof.
    intros H. rewrite forallb_forall in H. apply Forall_forall. intros y Hy.
    apply in_map_iff in Hy as [x [<- Hx]]. exists (fst x). split; [reflexivity | apply H; exact Hx].
  Qed.

  Lemma ok_wrap d lim (l : list (A * nat)) : ok d lim (map wrap l) = okd d lim (map snd l).
  Proof. unfold ok. rewrite map_map. reflexivity. Qed.

  Theorem reverse_by_depth_wf (l : list (A * nat)) :
    wf_depths l = true -> forallb (fun x => hr (fst x)) l = true ->
    wf_depths (reverse_by_depth hr l) = true.
  Proof.
    intros W H. unfold wf_depths, reverse_by_depth. rewrite <- ok_wrap.
    apply (rbd_involutive_raw (rbd_fuel l) (rbd_fuel l) 0 (map wrap l)).
    - rewrite map_length. unfold rbd_fuel. lia.
    - rewrite map_length. unfold rbd_fuel. lia.
    - rewrite ok_wrap. exact W.
    - apply wrap_real. exact H.
  Qed.

  Theorem reverse_by_depth_involutive (l : list (A * nat)) :
    wf_depths l = true -> forallb (fun x => hr (fst x)) l = true ->
    reverse_by_depth hr (reverse_by_depth hr l) = l.
  Proof.
    intros W H. apply map_wrap_inj. unfold reverse_by_depth at 1.
    set (r := reverse_by_depth hr l).
    assert (Lr : length r = length l).
    { unfold r. rewrite (Permutation_length (reverse_by_depth_perm l)).
      clear -H. induction l as [|x l IH]; [reflexivity|]. cbn [forallb filter] in *.
      apply andb_true_iff in H as [Hx Hl]. rewrite Hx. cbn [length]. f_equal. apply IH. exact Hl. }
    destruct (rbd_involutive_raw (rbd_fuel l) (rbd_fuel r) 0 (map wrap l)) as [_ I].
    - rewrite map_length. unfold rbd_fuel. lia.
    - rewrite map_length. unfold rbd_fuel. lia.
    - rewrite ok_wrap. exact W.
    - apply wrap_real. exact H.
    - exact I.
  Qed.
End RBD.

(* ---- _rebase_merge_depth ------------------------------------------------------------------------ *)

Section Rebase.
  Context {A : Type}.

  Lemma rebase_ids (l : list (A * nat)) : map fst (rebase_merge_depth l) = map fst l.
  Proof.
    unfold rebase_merge_depth. destruct l as [|x l]; [reflexivity|].
    destruct (negb (snd x =? 0) && negb (snd (last (x :: l) x) =? 0)); [|reflexivity].
    destruct (min_depth (x :: l) =? 0); [reflexivity|]. rewrite map_map. reflexivity.
  Qed.

  Lemma min_depth_le (l : list (A * nat)) y : In y l -> min_depth l <= snd y.
  Proof.
    destruct l as [|x l]; [contradiction|]. unfold min_depth.
    assert (G : forall (m : nat) (ds : list nat), fold_right Nat.min m ds <= m /\ forall z, In z ds -> fold_right Nat.min m ds <= z).
    { intros m ds. induction ds as [|z ds [I1 I2]]; cbn; [split; [lia | contradiction]|].
      split; [lia|]. intros z' [<-|H]; [lia | specialize (I2 z' H); lia]. }
    destruct (G (snd x) (map snd l)) as [G1 G2].
    intros [<-|H]; [exact G1 | apply G2, in_map, H].
  Qed.

  (* a list that shows a top-level (depth 0) revision is left alone *)
  Theorem rebase_noop_if_zero (l : list (A * nat)) : (exists y, In y l /\ snd y = 0) -> rebase_merge_depth l = l.
  Proof.
    intros [y [Hy Z]]. unfold rebase_merge_depth. destruct l as [|x l]; [reflexivity|].
    destruct (negb (snd x =? 0) && negb (snd (last (x :: l) x) =? 0)); [|reflexivity].
    pose proof (min_depth_le (x :: l) y Hy) as M. rewrite Z in M.
    assert (E : min_depth (x :: l) = 0) by lia. rewrite E. reflexivity.
  Qed.

  (* every depth is shifted by one common amount, never below 0 *)
  Theorem rebase_shift (l : list (A * nat)) :
    exists m, (forall y, In y l -> m <= snd y) /\ rebase_merge_depth l = map (fun y => (fst y, snd y - m)) l.
  Proof.
    assert (Z : l = map (fun y : A * nat => (fst y, snd y - 0)) l).
    { rewrite <- (map_id l) at 1. apply map_ext. intros [a d]. cbn. f_equal. lia. }
    unfold rebase_merge_depth. destruct l as [|x l]; [exists 0; split; [intros y []| reflexivity]|].
    destruct (negb (snd x =? 0) && negb (snd (last (x :: l) x) =? 0)).
    - destruct (min_depth (x :: l) =? 0) eqn:E.
      + exists 0. split; [intros; lia | exact Z].
      + exists (min_depth (x :: l)). split; [apply min_depth_le | reflexivity].
    - exists 0. split; [intros; lia | exact Z].
  Qed.
End Rebase.
