(* Theory/DagMergeSortFacts.v -- facts about Lib/DagMergeSort.merge_sort, for
   every well-formed graph (no size bound):

     visit_extends        a visit only PREPENDS entries, all at least as deep as the visit
     merge_sorted_ids     the merge-sorted list contains exactly the present ancestors of the tip
     merge_sorted_NoDup   ... each once
     merge_sorted_perm    hence it is a permutation of the present part of Dag.ancestors
     depth0_is_lefthand   its depth-0 entries are the left-hand history, newest first
     merge_sorted_steps   it starts at depth 0 and a depth step goes up by at most one
   (the numbering of the left-hand history is in Theory/DagMergeSortMainline.v)
*)
From Coq Require Import List Arith Bool Lia Permutation.
From BV Require Import Lib.Dag Theory.DagFacts Lib.DagMergeSort.
Import ListNotations.

Lemma ms_visit_S g f n depth st :
  ms_visit g (S f) n depth st =
  pop_node n depth (left_parent g n) (is_first_child (left_parent g n) st)
           (fold_left (ms_descend g f) (visit_plan (parents g n) depth) (claim (left_parent g n) st)).
Proof. reflexivity. Qed.

Lemma claim_sched lp st : ms_sched (claim lp st) = ms_sched st.
Proof. destruct lp; reflexivity. Qed.
Lemma claim_counts lp st : ms_counts (claim lp st) = ms_counts st.
Proof. destruct lp; reflexivity. Qed.

Lemma pop_node_sched n d lp fc st :
  exists rv, ms_sched (pop_node n d lp fc st) = (n, d, rv) :: ms_sched st.
Proof.
  unfold pop_node. destruct (number_node _ _ _) as [rv c]. exists rv. reflexivity.
Qed.

Lemma pop_node_claimed n d lp fc st : ms_claimed (pop_node n d lp fc st) = ms_claimed st.
Proof. unfold pop_node. destruct (number_node _ _ _) as [rv c]. reflexivity. Qed.

(* ---- a visit prepends, at its depth or deeper ------------------------------ *)

Definition extends (d : nat) (st st' : ms_state) : Prop :=
  exists new, ms_sched st' = new ++ ms_sched st /\ Forall (fun e => d <= e_depth e) new.

Lemma extends_refl d st : extends d st st.
Proof. exists []. split; [reflexivity | constructor]. Qed.

Lemma extends_trans d d' st1 st2 st3 : d <= d' ->
  extends d st1 st2 -> extends d' st2 st3 -> extends d st1 st3.
Proof.
  intros L [n1 [E1 F1]] [n2 [E2 F2]]. exists (n2 ++ n1). split.
  - rewrite E2, E1, app_assoc. reflexivity.
  - apply Forall_app. split; [|exact F1].
    eapply Forall_impl; [|exact F2]. cbn. intros; lia.
Qed.

Lemma plan_depths ps depth q d : In (q, d) (visit_plan ps depth) -> depth <= d /\ In q ps.
Proof.
  destruct ps as [|p rest]; cbn; [contradiction|].
  intros [E|H].
  - injection E as <- <-. split; [lia | left; reflexivity].
  - apply in_map_iff in H as [x [E Hx]]. injection E as <- <-.
    split; [lia | right; apply in_rev; exact Hx].
Qed.

Lemma fold_extends g f depth :
  (forall n d st, extends d st (ms_visit g f n d st)) ->
  forall plan st, (forall q d, In (q, d) plan -> depth <= d) ->
  extends depth st (fold_left (ms_descend g f) plan st).
Proof.
  intros IH. induction plan as [|[q d] plan IHp]; intros st Hd; cbn [fold_left].
  - apply extends_refl.
  - eapply (extends_trans depth depth); [lia | | apply IHp; intros; eapply Hd; right; eassumption].
    unfold ms_descend. cbn [fst snd].
    destruct (completed st q || ghost g q); [apply extends_refl|].
    eapply (extends_trans depth d); [apply (Hd q d); left; reflexivity | apply extends_refl | apply IH].
Qed.

Theorem visit_extends g : forall f n d st, extends d st (ms_visit g f n d st).
Proof.
  induction f as [|f IH]; intros n d st; [apply extends_refl|].
  rewrite ms_visit_S.
  set (lp := left_parent g n).
  pose proof (fold_extends g f d IH (visit_plan (parents g n) d) (claim lp st)) as X.
  destruct X as [new [E F]]; [intros q d' H; apply (plan_depths _ _ _ _ H)|].
  destruct (pop_node_sched n d lp (is_first_child lp st)
             (fold_left (ms_descend g f) (visit_plan (parents g n) d) (claim lp st))) as [rv Ep].
  exists ((n, d, rv) :: new). split.
  - rewrite Ep, E, claim_sched. reflexivity.
  - constructor; [cbn; lia | exact F].
Qed.

(* ---- the depth-first search completes exactly the ancestry ----------------- *)

Definition ids (st : ms_state) : list revid := ms_ids (ms_sched st).

Lemma sched_find_In r s : (exists e, sched_find r s = Some e) <-> In r (ms_ids s).
Proof.
  induction s as [|e s IH]; cbn.
  - split; [intros [e H]; discriminate | contradiction].
  - destruct (e_id e =? r) eqn:E.
    + apply Nat.eqb_eq in E. split; [intros _; left; exact E | intros _; eexists; reflexivity].
    + apply Nat.eqb_neq in E. rewrite IH. split; [intros H; right; exact H | intros [H|H]; [contradiction | exact H]].
Qed.

Lemma completed_In st r : completed st r = true <-> In r (ids st).
Proof.
  unfold completed, ids. rewrite <- sched_find_In.
  destruct (sched_find r (ms_sched st)); split; try discriminate; try (intros; reflexivity).
  - intros _. eexists; reflexivity.
  - intros [e H]; discriminate.
Qed.

Lemma completed_false st r : completed st r = false <-> ~ In r (ids st).
Proof. rewrite <- completed_In. destruct (completed st r); split; congruence. Qed.

(* the invariant of the scheduled list *)
Record dfs_inv (g : dag) (st : ms_state) : Prop := {
  inv_nodup : NoDup (ids st);
  inv_present : forall x, In x (ids st) -> x < length g;
  inv_closed : forall x p, In x (ids st) -> In p (parents g x) -> p < length g -> In p (ids st)
}.

(* what one visit (or a sequence of visits below [bound]) establishes *)
Record dfs_step (g : dag) (bound : nat) (roots : list revid) (st st' : ms_state) : Prop := {
  step_inv : dfs_inv g st';
  step_mono : forall x, In x (ids st) -> In x (ids st');
  step_new : forall x, In x (ids st') -> In x (ids st) \/ (x < bound /\ exists r, In r roots /\ reach g x r)
}.

Lemma ids_claim lp st : ids (claim lp st) = ids st.
Proof. unfold ids. rewrite claim_sched. reflexivity. Qed.

Lemma dfs_inv_claim g lp st : dfs_inv g st -> dfs_inv g (claim lp st).
Proof. intros [A B C]. split; rewrite ?ids_claim; assumption. Qed.

Lemma dfs_step_refl g bound roots st : dfs_inv g st -> dfs_step g bound roots st st.
Proof. intros I. split; [exact I | auto | auto]. Qed.

Lemma fold_dfs g f bound :
  (forall n d st, n < f -> n < length g -> dfs_inv g st -> ~ In n (ids st) ->
     dfs_step g (S n) [n] st (ms_visit g f n d st) /\ In n (ids (ms_visit g f n d st))) ->
  forall plan st, dfs_inv g st ->
  (forall q d, In (q, d) plan -> (q < bound /\ q < f) \/ length g <= q) ->
  let st' := fold_left (ms_descend g f) plan st in
  dfs_step g bound (map fst plan) st st' /\
  (forall q d, In (q, d) plan -> q < length g -> In q (ids st')).
Proof.
  intros IH. induction plan as [|[q d] plan IHp]; intros st I Hq; cbn [fold_left].
  - split; [apply dfs_step_refl; exact I | intros q d []].
  - set (s1 := ms_descend g f st (q, d)).
    assert (H1 : dfs_step g bound [q] st s1 /\ (q < length g -> In q (ids s1))).
    { unfold s1, ms_descend. cbn [fst snd].
      destruct (completed st q) eqn:C; cbn [orb].
      - split; [apply dfs_step_refl; exact I | intros _; apply completed_In; exact C].
      - unfold ghost, present. destruct (q <? length g) eqn:P; cbn [negb].
        + apply Nat.ltb_lt in P. apply completed_false in C.
          destruct (Hq q d (or_introl eq_refl)) as [[Hb Hf]|G]; [|lia].
          destruct (IH q d st Hf P I C) as [[SI SM SN] Hin].
          split; [|intros _; exact Hin].
          split; [exact SI | exact SM |].
          intros x Hx. destruct (SN x Hx) as [O|[Lx [r [[<-|[]] R]]]]; [left; exact O|].
          right. split; [lia | exists q; split; [left; reflexivity | exact R]].
        + apply Nat.ltb_ge in P. split; [apply dfs_step_refl; exact I | intros; lia]. }
    destruct H1 as [[SI SM SN] Hin1].
    destruct (IHp s1 SI) as [[TI TM TN] Hin2]; [intros q' d' H; apply (Hq q' d'); right; exact H|].
    split.
    + split; [exact TI | intros x Hx; apply TM, SM, Hx |].
      intros x Hx. destruct (TN x Hx) as [O|[Lx [r [Hr R]]]].
      * destruct (SN x O) as [O'|[Lx [r [[<-|[]] R]]]]; [left; exact O'|].
        right. split; [exact Lx | exists q; split; [left; reflexivity | exact R]].
      * right. split; [exact Lx | exists r; split; [right; exact Hr | exact R]].
    + intros q' d' [E|H] P.
      * injection E as <- <-. apply TM, Hin1, P.
      * apply (Hin2 q' d' H P).
Qed.

Lemma ids_pop n d lp fc st : ids (pop_node n d lp fc st) = n :: ids st.
Proof.
  unfold ids. destruct (pop_node_sched n d lp fc st) as [rv E]. rewrite E. reflexivity.
Qed.

Theorem visit_dfs g : wf_dag g = true -> forall f n d st,
  n < f -> n < length g -> dfs_inv g st -> ~ In n (ids st) ->
  dfs_step g (S n) [n] st (ms_visit g f n d st) /\ In n (ids (ms_visit g f n d st)).
Proof.
  intros W. induction f as [|f IH]; intros n d st Lf Ln I Hn; [lia|].
  rewrite ms_visit_S. set (lp := left_parent g n).
  set (plan := visit_plan (parents g n) d).
  assert (Hplan : forall q d', In (q, d') plan -> (q < n /\ q < f) \/ length g <= q).
  { intros q d' H. apply plan_depths in H as [_ H].
    destruct (wf_parents g n q W H) as [L|G]; [left; lia | right; exact G]. }
  destruct (fold_dfs g f n IH plan (claim lp st) (dfs_inv_claim g lp st I) Hplan) as [[SI SM SN] Hin].
  set (st2 := fold_left (ms_descend g f) plan (claim lp st)) in *.
  rewrite ids_claim in *.
  assert (Hfresh : ~ In n (ids st2)).
  { intros H. destruct (SN n H) as [O|[L _]]; [exact (Hn O) | lia]. }
  split; [|rewrite ids_pop; left; reflexivity].
  split.
  - destruct SI as [A B C]. split; rewrite ids_pop.
    + constructor; assumption.
    + intros x [<-|H]; [exact Ln | apply B, H].
    + intros x p [<-|H] Hp Lp.
      * right. assert (Hpl : exists d', In (p, d') plan).
        { unfold plan, visit_plan. destruct (parents g n) as [|p0 rest]; [contradiction|].
          destruct Hp as [<-|Hp]; [exists d; left; reflexivity|].
          exists (S d). right. apply in_map_iff. exists p. split; [reflexivity | apply in_rev in Hp; exact Hp]. }
        destruct Hpl as [d' Hd']. apply (Hin p d' Hd' Lp).
      * right. apply (C x p H Hp Lp).
  - intros x Hx. rewrite ids_pop. right. apply SM. exact Hx.
  - intros x. rewrite ids_pop. intros [<-|H].
    + right. split; [lia | exists n; split; [left; reflexivity | apply reach_refl]].
    + destruct (SN x H) as [O|[L [r [Hr R]]]]; [left; exact O|].
      right. split; [lia|]. exists n. split; [left; reflexivity|].
      apply in_map_iff in Hr as [[q d'] [E Hq]]. cbn in E. subst q.
      apply plan_depths in Hq as [_ Hq]. eapply reach_step; eassumption.
Qed.

Lemma dfs_inv_init g : dfs_inv g ms_init.
Proof. split; cbn; [constructor | contradiction | contradiction]. Qed.

Lemma closed_reach g st : wf_dag g = true -> dfs_inv g st ->
  forall r a, reach g a r -> In r (ids st) -> a < length g -> In a (ids st).
Proof.
  intros W [A B C] r a R. induction R as [r|a p r Hp R IH]; intros Hr La; [exact Hr|].
  destruct (Nat.lt_ge_cases p (length g)) as [Lp|Gp].
  - apply IH; [apply (C r p Hr Hp Lp) | exact La].
  - apply (reach_ghost g a p Gp) in R. lia.
Qed.

(* the merge-sorted list of a tip contains exactly its present ancestors *)
Theorem merge_sorted_ids g (t : revid) x : wf_dag g = true -> t < length g ->
  (In x (ms_ids (merge_sorted g (Some t))) <-> reach g x t /\ x < length g).
Proof.
  intros W L. unfold merge_sorted, present. rewrite (proj2 (Nat.ltb_lt t (length g)) L).
  destruct (visit_dfs g W (S t) t 0 ms_init (Nat.lt_succ_diag_r t) L (dfs_inv_init g) (fun H => H))
    as [[SI SM SN] Hin].
  fold (ids (ms_visit g (S t) t 0 ms_init)). split.
  - intros H. destruct (SN x H) as [[]|[_ [r [[<-|[]] R]]]]. split; [exact R | apply (inv_present g _ SI x H)].
  - intros [R Lx]. apply (closed_reach g _ W SI t x R Hin Lx).
Qed.

Theorem merge_sorted_NoDup g tip : wf_dag g = true -> NoDup (ms_ids (merge_sorted g tip)).
Proof.
  intros W. destruct tip as [t|]; [|constructor]. unfold merge_sorted, present.
  destruct (t <? length g) eqn:P; [|constructor]. apply Nat.ltb_lt in P.
  destruct (visit_dfs g W (S t) t 0 ms_init (Nat.lt_succ_diag_r t) P (dfs_inv_init g) (fun H => H))
    as [[SI _ _] _].
  apply (inv_nodup g _ SI).
Qed.

(* Dag.ancestors never lists a revision twice *)
Lemma NoDup_add x l : NoDup l -> NoDup (add x l).
Proof.
  intros N. unfold add. destruct (memb x l) eqn:E; [exact N|].
  constructor; [apply memb_false; exact E | exact N].
Qed.
Lemma NoDup_union a b : NoDup b -> NoDup (union a b).
Proof. intros N. induction a as [|x a IH]; cbn; [exact N | apply NoDup_add, IH]. Qed.
Lemma NoDup_close_down g : forall n s, NoDup s -> NoDup (close_down g n s).
Proof.
  induction n as [|n IH]; intros s N; cbn; [exact N|].
  apply IH. destruct (memb n s); [apply NoDup_union; exact N | exact N].
Qed.
Lemma NoDup_ancestors g t : NoDup (ancestors g [t]).
Proof. apply NoDup_close_down. constructor; [intros [] | constructor]. Qed.

(* every (present) revision of the tip's ancestry exactly once *)
Theorem merge_sorted_perm g (t : revid) : wf_dag g = true -> t < length g ->
  Permutation (ms_ids (merge_sorted g (Some t))) (filter (present g) (ancestors g [t])).
Proof.
  intros W L. apply NoDup_Permutation.
  - apply merge_sorted_NoDup; exact W.
  - apply NoDup_filter, NoDup_ancestors.
  - intros x. rewrite (merge_sorted_ids g t x W L), filter_In, (ancestors_spec g [t] x W).
    unfold present. rewrite Nat.ltb_lt. split.
    + intros [R Lx]. split; [exists t; split; [left; reflexivity | exact R] | exact Lx].
    + intros [[s [[<-|[]] R]] Lx]. split; assumption.
Qed.

(* ---- depth 0 = the left-hand history ----------------------------------------- *)

Definition depth0 (l : list ms_entry) : list ms_entry := filter (fun e => e_depth e =? 0) l.

Lemma depth0_deeper new : Forall (fun e => 1 <= e_depth e) new -> depth0 new = [].
Proof.
  induction 1 as [|e new H _ IH]; cbn; [reflexivity|].
  destruct (e_depth e =? 0) eqn:E; [apply Nat.eqb_eq in E; lia | exact IH].
Qed.

Lemma fold_extends_deeper g f plan st :
  (forall q d, In (q, d) plan -> 1 <= d) ->
  exists new, ms_sched (fold_left (ms_descend g f) plan st) = new ++ ms_sched st /\
              Forall (fun e => 1 <= e_depth e) new.
Proof.
  intros H. apply (fold_extends g f 1 (visit_extends g f) plan st H).
Qed.

Lemma lefthand_present_parent g n p rest : wf_dag g = true -> n < length g ->
  parents g n = p :: rest -> lefthand_present g n = true ->
  p < length g /\ p < n /\ lefthand_present g p = true.
Proof.
  intros W L E P. unfold lefthand_present in *. rewrite (lefthand_unfold g n W L), E in P.
  cbn [forallb] in P. apply andb_true_iff in P as [_ P].
  assert (Pp : present g p = true).
  { rewrite forallb_forall in P. apply P, In_lefthand_self. }
  unfold present in Pp. apply Nat.ltb_lt in Pp.
  assert (Hp : In p (parents g n)) by (rewrite E; left; reflexivity).
  destruct (wf_parents g n p W Hp) as [Lt|G]; [|lia].
  repeat split; assumption.
Qed.

(* visiting n at depth 0 from an empty schedule: the depth-0 entries are the
   left-hand history of n *)
Lemma visit_depth0 g : wf_dag g = true -> forall f n st,
  n < f -> n < length g -> lefthand_present g n = true -> ms_sched st = [] ->
  map e_id (depth0 (ms_sched (ms_visit g f n 0 st))) = lefthand g n.
Proof.
  intros W. induction f as [|f IH]; intros n st Lf Ln P E0; [lia|].
  rewrite ms_visit_S. set (lp := left_parent g n).
  destruct (pop_node_sched n 0 lp (is_first_child lp st)
             (fold_left (ms_descend g f) (visit_plan (parents g n) 0) (claim lp st))) as [rv Ep].
  rewrite Ep. cbn [depth0 filter e_depth fst snd Nat.eqb map e_id].
  rewrite (lefthand_unfold g n W Ln). f_equal.
  destruct (parents g n) as [|p rest] eqn:Eps; cbn [visit_plan fold_left].
  - rewrite claim_sched, E0. reflexivity.
  - destruct (lefthand_present_parent g n p rest W Ln Eps P) as [Lp [Lt Pp]].
    set (s0 := claim lp st).
    assert (E1 : ms_sched s0 = []) by (unfold s0; rewrite claim_sched; exact E0).
    set (s1 := ms_descend g f s0 (p, 0)).
    assert (Hs1 : s1 = ms_visit g f p 0 s0).
    { unfold s1, ms_descend. cbn [fst snd]. unfold completed. rewrite E1. cbn [sched_find orb].
      unfold ghost, present. rewrite (proj2 (Nat.ltb_lt p (length g)) Lp). reflexivity. }
    destruct (fold_extends_deeper g f (map (fun q => (q, 1)) (rev rest)) s1) as [new [En Fn]].
    { intros q d H. apply in_map_iff in H as [x [Ex _]]. injection Ex as _ <-. lia. }
    fold (depth0 (ms_sched (fold_left (ms_descend g f) (map (fun q => (q, 1)) (rev rest)) s1))).
    rewrite En. unfold depth0. rewrite filter_app. fold (depth0 new). rewrite (depth0_deeper new Fn).
    cbn [app]. rewrite Hs1. apply IH; [lia | exact Lp | exact Pp | exact E1].
Qed.

Theorem depth0_is_lefthand g (t : revid) : wf_dag g = true -> t < length g -> lefthand_present g t = true ->
  map e_id (depth0 (merge_sorted g (Some t))) = lefthand g t.
Proof.
  intros W L P. unfold merge_sorted, present. rewrite (proj2 (Nat.ltb_lt t (length g)) L).
  apply (visit_depth0 g W (S t) t ms_init); [lia | exact L | exact P | reflexivity].
Qed.

(* ---- depths go up by at most one per step ----------------------------------------- *)

Fixpoint steps (l : list ms_entry) : Prop :=
  match l with
  | [] => True
  | e :: l' => match l' with
               | [] => True
               | e' :: _ => e_depth e' <= S (e_depth e)
               end /\ steps l'
  end.

Definition top_le (k : nat) (st : ms_state) : Prop :=
  match ms_sched st with [] => True | h :: _ => e_depth h <= k end.

Lemma top_le_mono k k' st : k <= k' -> top_le k st -> top_le k' st.
Proof. unfold top_le. destruct (ms_sched st); [trivial | lia]. Qed.

Lemma fold_steps g f depth :
  (forall n d st, n < f -> steps (ms_sched st) -> top_le (S d) st ->
     steps (ms_sched (ms_visit g f n d st)) /\ top_le d (ms_visit g f n d st)) ->
  forall plan st,
  (forall q d, In (q, d) plan -> depth <= d <= S depth /\ (q < f \/ length g <= q)) ->
  steps (ms_sched st) -> top_le (S depth) st ->
  steps (ms_sched (fold_left (ms_descend g f) plan st)) /\
  top_le (S depth) (fold_left (ms_descend g f) plan st).
Proof.
  intros IH. induction plan as [|[q d] plan IHp]; intros st Hp S0 T0; cbn [fold_left]; [split; assumption|].
  destruct (Hp q d (or_introl eq_refl)) as [[D1 D2] Hq].
  assert (X : steps (ms_sched (ms_descend g f st (q, d))) /\ top_le (S depth) (ms_descend g f st (q, d))).
  { unfold ms_descend. cbn [fst snd]. destruct (completed st q); cbn [orb]; [split; assumption|].
    unfold ghost, present. destruct (q <? length g) eqn:P; cbn [negb]; [|split; assumption].
    apply Nat.ltb_lt in P. destruct Hq as [Hq|Hq]; [|lia].
    destruct (IH q d st Hq S0 (top_le_mono (S depth) (S d) st ltac:(lia) T0)) as [A B].
    split; [exact A | apply (top_le_mono d (S depth)); [lia | exact B]]. }
  destruct X as [S1 T1]. apply IHp; [intros q' d' H; apply Hp; right; exact H | exact S1 | exact T1].
Qed.

Lemma visit_steps g : wf_dag g = true -> forall f n d st,
  n < f -> steps (ms_sched st) -> top_le (S d) st ->
  steps (ms_sched (ms_visit g f n d st)) /\ top_le d (ms_visit g f n d st).
Proof.
  intros W. induction f as [|f IH]; intros n d st Lf S0 T0; [lia|].
  rewrite ms_visit_S. set (lp := left_parent g n). set (plan := visit_plan (parents g n) d).
  destruct (fold_steps g f d IH plan (claim lp st)) as [S1 T1].
  - intros q d' H. unfold plan in H. destruct (plan_depths _ _ _ _ H) as [D Hq].
    split.
    + split; [exact D|]. unfold visit_plan in H. destruct (parents g n) as [|p rest]; [contradiction|].
      destruct H as [E|H]; [injection E as _ <-; lia|].
      apply in_map_iff in H as [x [E _]]. injection E as _ <-. lia.
    + destruct (wf_parents g n q W Hq) as [L|G]; [left; lia | right; exact G].
  - rewrite claim_sched. exact S0.
  - unfold top_le. rewrite claim_sched. exact T0.
  - set (st2 := fold_left (ms_descend g f) plan (claim lp st)) in *.
    destruct (pop_node_sched n d lp (is_first_child lp st) st2) as [rv E].
    unfold top_le. rewrite E. split; [|cbn; lia].
    cbn [steps]. split; [|exact S1]. unfold top_le in T1. destruct (ms_sched st2); [trivial | exact T1].
Qed.

(* the merge-sorted list starts at depth 0 and a step goes up by at most one *)
Theorem merge_sorted_steps g (t : revid) : wf_dag g = true -> t < length g ->
  steps (merge_sorted g (Some t)) /\
  match merge_sorted g (Some t) with [] => False | h :: _ => e_depth h = 0 end.
Proof.
  intros W L. unfold merge_sorted, present. rewrite (proj2 (Nat.ltb_lt t (length g)) L).
  destruct (visit_steps g W (S t) t 0 ms_init (Nat.lt_succ_diag_r t) I I) as [A B].
  split; [exact A|]. unfold top_le in B.
  rewrite ms_visit_S in *.
  destruct (pop_node_sched t 0 (left_parent g t) (is_first_child (left_parent g t) ms_init)
     (fold_left (ms_descend g t) (visit_plan (parents g t) 0) (claim (left_parent g t) ms_init))) as [rv E].
  rewrite E. reflexivity.
Qed.
