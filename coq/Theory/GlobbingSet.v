(* Theory/GlobbingSet.v -- Globster / ExceptionGlobster / _OrderedGlobster for every batch size,
   over an abstract regex engine that satisfies the alternation contract. *)
From Coq Require Import NArith List Bool Arith Lia.
From BV Require Import Model.Globbing Theory.GlobbingRe Theory.GlobbingTr.
Import ListNotations.

Section Sets.
  Variable normalize : str -> str.
  Variable engine : kind -> list str -> str -> option nat.
  (* hits k p name : the single-pattern regex  prefix_k(?:(translator_k(p)))$  matches name *)
  Variable hits : kind -> str -> str -> Prop.

  (* The alternation contract of Python's re for  prefix(?:(A1)|...|(An))$ :
     lastindex designates an alternative that matches on its own; no match only if none does. *)
  Hypothesis eng_some : forall k pats name li,
    engine k pats name = Some li -> exists p, nth_error pats (li - 1) = Some p /\ hits k p name.
  Hypothesis eng_none : forall k pats name,
    engine k pats name = None -> forall p, In p pats -> ~ hits k p name.

  Notation match_batch := (match_batch engine).
  Notation globster_match := (globster_match engine).
  Notation globster := (globster normalize engine).
  Notation ordered_globster := (ordered_globster normalize engine).
  Notation exc_match := (exc_match normalize engine).

  Lemma match_batch_some name b p :
    match_batch name b = Some p -> In p (snd b) /\ hits (fst b) p name.
  Proof.
    unfold Globbing.match_batch. destruct (engine (fst b) (snd b) name) as [li|] eqn:E; [|discriminate].
    intros Hn. destruct (eng_some _ _ _ _ E) as (q & Hq & Hh).
    rewrite Hq in Hn. injection Hn as <-. split; [eapply nth_error_In; exact Hq|exact Hh].
  Qed.

  Lemma match_batch_none name b :
    match_batch name b = None -> forall p, In p (snd b) -> ~ hits (fst b) p name.
  Proof.
    unfold Globbing.match_batch. destruct (engine (fst b) (snd b) name) as [li|] eqn:E.
    - intros Hn. destruct (eng_some _ _ _ _ E) as (q & Hq & _). congruence.
    - intros _. eapply eng_none; exact E.
  Qed.

  Lemma gmatch_some bs name p :
    globster_match bs name = Some p ->
    exists l1 b l2, bs = l1 ++ b :: l2 /\ In p (snd b) /\ hits (fst b) p name /\
                    forall b', In b' l1 -> forall q, In q (snd b') -> ~ hits (fst b') q name.
  Proof.
    unfold Globbing.globster_match. intros H.
    destruct (first_some_split _ _ _ H) as (l1 & b & l2 & -> & Hb & Hn).
    exists l1, b, l2. split; [reflexivity|].
    destruct (match_batch_some _ _ _ Hb) as [Hin Hh]. split; [exact Hin|]. split; [exact Hh|].
    intros b' Hb' q Hq. eapply match_batch_none; [apply Hn; exact Hb'|exact Hq].
  Qed.

  Lemma gmatch_none bs name :
    globster_match bs name = None <->
    forall b, In b bs -> forall q, In q (snd b) -> ~ hits (fst b) q name.
  Proof.
    unfold Globbing.globster_match. rewrite first_some_none. split.
    - intros H b Hb q Hq. eapply match_batch_none; [apply H; exact Hb|exact Hq].
    - intros H b Hb. destruct (Globbing.match_batch engine name b) as [p|] eqn:E; [|reflexivity].
      exfalso. destruct (match_batch_some _ _ _ E) as [Hin Hh]. exact (H b Hb p Hin Hh).
  Qed.

  (* ---- batching ---- *)

  Lemma chunk_concat k : (0 < k)%nat -> forall fuel l, (length l <= fuel)%nat -> concat (chunk k fuel l) = l.
  Proof.
    intros Hk. induction fuel as [|f IH]; intros l Hl.
    - destruct l; [reflexivity|simpl in Hl; lia].
    - destruct l as [|x l]; [reflexivity|].
      cbn [chunk concat]. rewrite IH; [apply firstn_skipn|].
      rewrite skipn_length. simpl length in *. lia.
  Qed.

  Lemma chunk_in k : forall fuel l c p, In c (chunk k fuel l) -> In p c -> In p l.
  Proof.
    induction fuel as [|f IH]; intros l c p Hc Hp; [destruct Hc|].
    destruct l as [|x l]; [destruct Hc|]. cbn [chunk] in Hc. destruct Hc as [<-|Hc].
    - rewrite <- (firstn_skipn k (x :: l)). apply in_or_app; left; exact Hp.
    - rewrite <- (firstn_skipn k (x :: l)). apply in_or_app; right. eapply IH; eassumption.
  Qed.

  Lemma kind_eqb_eq a b : kind_eqb a b = true <-> a = b.
  Proof. destruct a, b; simpl; split; congruence. Qed.

  Lemma build_in k ps b p :
    In b (build normalize k ps) -> In p (snd b) -> In p (map normalize ps) /\ fst b = identify p.
  Proof.
    unfold build. intros Hb Hp. apply in_flat_map in Hb. destruct Hb as (kd & _ & Hb).
    unfold add_patterns in Hb. apply in_map_iff in Hb. destruct Hb as (c & <- & Hc). simpl in *.
    pose proof (chunk_in _ _ _ _ _ Hc Hp) as Hf. apply filter_In in Hf. destruct Hf as [Hin Hk].
    split; [exact Hin|]. apply kind_eqb_eq in Hk. symmetry; exact Hk.
  Qed.

  Lemma build_cover k ps p : (0 < k)%nat ->
    In p (map normalize ps) -> exists b, In b (build normalize k ps) /\ In p (snd b) /\ fst b = identify p.
  Proof.
    intros Hk Hin. unfold build.
    set (l := filter (fun q => kind_eqb (identify q) (identify p)) (map normalize ps)).
    assert (Hl : In p l) by (apply filter_In; split; [exact Hin|apply kind_eqb_eq; reflexivity]).
    rewrite <- (chunk_concat k Hk (length l) l (le_n _)) in Hl.
    apply in_concat in Hl. destruct Hl as (c & Hc & Hp).
    exists (identify p, c). split; [|split; [exact Hp|reflexivity]].
    apply in_flat_map. exists (identify p). split; [destruct (identify p); simpl; auto|].
    unfold add_patterns. apply in_map. exact Hc.
  Qed.

  (* ---- Globster ---- *)

  Theorem globster_sound k ps name p :
    globster k ps name = Some p -> In p (map normalize ps) /\ hits (identify p) p name.
  Proof.
    unfold Globbing.globster. intros H.
    destruct (gmatch_some _ _ _ H) as (l1 & b & l2 & Hbs & Hin & Hh & _).
    assert (Hb : In b (build normalize k ps)) by (rewrite Hbs; apply in_or_app; right; left; reflexivity).
    destruct (build_in _ _ _ _ Hb Hin) as [Hp Hk]. rewrite <- Hk. auto.
  Qed.

  Theorem globster_none k ps name : (0 < k)%nat ->
    (globster k ps name = None <-> forall p, In p (map normalize ps) -> ~ hits (identify p) p name).
  Proof.
    intros Hk. unfold Globbing.globster. rewrite gmatch_none. split.
    - intros H p Hp. destruct (build_cover k ps p Hk Hp) as (b & Hb & Hin & Hf).
      rewrite <- Hf. exact (H b Hb p Hin).
    - intros H b Hb q Hq. destruct (build_in _ _ _ _ Hb Hq) as [Hp Hf]. rewrite Hf. exact (H q Hp).
  Qed.

  (* whether a name is ignored does not depend on the batch size *)
  Theorem batch_independent k k' ps name : (0 < k)%nat -> (0 < k')%nat ->
    (globster k ps name = None <-> globster k' ps name = None).
  Proof.
    intros Hk Hk'. rewrite (globster_none k ps name Hk), (globster_none k' ps name Hk'). reflexivity.
  Qed.

  (* ---- _OrderedGlobster: the first pattern (in list order) that matches ---- *)

  Theorem ordered_first ps name p :
    ordered_globster ps name = Some p ->
    exists l1 l2, map normalize ps = l1 ++ p :: l2 /\ hits (identify p) p name /\
                  forall q, In q l1 -> ~ hits (identify q) q name.
  Proof.
    unfold Globbing.ordered_globster, ordered_build. intros H.
    destruct (gmatch_some _ _ _ H) as (l1 & b & l2 & Hbs & Hin & Hh & Hn).
    apply map_eq_app in Hbs. destruct Hbs as (m1 & m2 & Hm & Hl1 & Hm2).
    destruct m2 as [|q m2]; [discriminate|]. simpl in Hm2. injection Hm2 as Hb Hl2.
    subst b. simpl in Hin, Hh. destruct Hin as [->|[]].
    exists m1, m2. split; [exact Hm|]. split; [exact Hh|].
    intros q' Hq'. apply (Hn (identify q', [q'])); [|left; reflexivity].
    rewrite <- Hl1. apply (in_map (fun p0 => (identify p0, [p0]))). exact Hq'.
  Qed.

  Theorem ordered_none ps name :
    ordered_globster ps name = None <-> forall p, In p (map normalize ps) -> ~ hits (identify p) p name.
  Proof.
    unfold Globbing.ordered_globster, ordered_build. rewrite gmatch_none. split.
    - intros H p Hp. apply (H (identify p, [p])); [|left; reflexivity].
      apply (in_map (fun p0 => (identify p0, [p0]))). exact Hp.
    - intros H b Hb q Hq. apply in_map_iff in Hb. destruct Hb as (p & <- & Hp).
      simpl in Hq. destruct Hq as [<-|[]]. simpl. exact (H p Hp).
  Qed.

  (* ---- ExceptionGlobster ---- *)

  Definition some_hit (l : list str) (name : str) : Prop :=
    exists p, In p (map normalize l) /\ hits (identify p) p name.

  Lemma some_hit_dec k l name : (0 < k)%nat ->
    (globster k l name = None /\ ~ some_hit l name) \/
    (exists p, globster k l name = Some p /\ In p (map normalize l) /\ hits (identify p) p name).
  Proof.
    intros Hk. destruct (Globbing.globster normalize engine k l name) as [p|] eqn:E.
    - right. exists p. split; [reflexivity|]. eapply globster_sound; exact E.
    - left. split; [reflexivity|]. intros (p & Hp & Hh). exact (proj1 (globster_none k l name Hk) E p Hp Hh).
  Qed.

  Definition nonempty_all (l : list str) : bool :=
    forallb (fun p => match p with [] => false | _ :: _ => true end) l.

  Lemma truthy_some l p : nonempty_all l = true -> In p l -> truthy (Some p) = true.
  Proof.
    unfold nonempty_all. rewrite forallb_forall. intros H Hin. specialize (H p Hin).
    destruct p; [discriminate|reflexivity].
  Qed.

  (* '!!' patterns win, then '!' patterns veto, then the plain patterns decide.
     Guard: no '!'/'!!' pattern normalizes to the empty string (Python truthiness of ''). *)
  Theorem exceptions k ps name : (0 < k)%nat ->
    let '(i0, i1, i2) := split_exc ps in
    nonempty_all (map normalize i1) = true -> nonempty_all (map normalize i2) = true ->
    (some_hit i2 name ->
       exists p, exc_match k ps name = Some ([cBang; cBang] ++ p) /\ In p (map normalize i2)
                 /\ hits (identify p) p name) /\
    (~ some_hit i2 name -> some_hit i1 name -> exc_match k ps name = None) /\
    (~ some_hit i2 name -> ~ some_hit i1 name -> exc_match k ps name = globster k i0 name).
  Proof.
    intros Hk. unfold Globbing.exc_match.
    destruct (split_exc ps) as [[i0 i1] i2]. intros Hn1 Hn2.
    destruct (some_hit_dec k i2 name Hk) as [[E2 N2]|(p2 & E2 & Hin2 & Hh2)]; rewrite E2.
    - simpl truthy. cbn iota.
      split; [intros H; contradiction|].
      destruct (some_hit_dec k i1 name Hk) as [[E1 N1]|(p1 & E1 & Hin1 & Hh1)]; rewrite E1.
      + simpl. split; [intros _ H; contradiction|]. intros _ _. reflexivity.
      + rewrite (truthy_some _ _ Hn1 Hin1). split; [reflexivity|]. intros _ H. exfalso. apply H. exists p1. auto.
    - rewrite (truthy_some _ _ Hn2 Hin2).
      split; [intros _; exists p2; auto|].
      split; intros H; exfalso; apply H; exists p2; auto.
  Qed.
End Sets.

(* ------------------------------------------------------------------ *)
(* the model's own engine satisfies the contract (so the hypotheses are satisfiable) *)

Definition re_hits (k : kind) (p name : str) : Prop := hit (prefix_re k) (compile k p) name.

Lemma bt_engine_some k pats name li :
  bt_engine k pats name = Some li -> exists p, nth_error pats (li - 1) = Some p /\ re_hits k p name.
Proof.
  unfold bt_engine. intros H. destruct (bt_some _ _ _ _ H) as (_ & a & Hn & Hh).
  rewrite nth_error_map in Hn. destruct (nth_error pats (li - 1)) as [p|]; [|discriminate].
  injection Hn as <-. exists p. auto.
Qed.

Lemma bt_engine_none k pats name :
  bt_engine k pats name = None -> forall p, In p pats -> ~ re_hits k p name.
Proof.
  unfold bt_engine. intros H p Hin. apply (bt_none _ _ _ H). apply in_map. exact Hin.
Qed.

(* refutation of the unguarded exception rule: pattern '!' (empty after the mark) *)
Lemma exceptions_unguarded_refuted :
  exists ps name,
    let '(i0, i1, i2) := split_exc ps in
    (exists p, In p (map normalize_pattern i1) /\ re_hits (identify p) p name) /\
    globster normalize_pattern bt_engine 99 i2 name = None /\
    exc_match normalize_pattern bt_engine 99 ps name <> None.
Proof.
  exists [[33]; [42]], []. cbn [split_exc]. split; [|split].
  - exists []. split; [left; reflexivity|]. unfold re_hits. apply hit_run. vm_compute. reflexivity.
  - vm_compute. reflexivity.
  - vm_compute. discriminate.
Qed.

(* ------------------------------------------------------------------ *)
(* the documented semantics, for any engine that satisfies the contract w.r.t. the
   single-pattern regexes of the model *)

Section Doc.
  Variable normalize : str -> str.
  Variable engine : kind -> list str -> str -> option nat.
  Hypothesis eng_some : forall k pats name li,
    engine k pats name = Some li -> exists p, nth_error pats (li - 1) = Some p /\ re_hits k p name.
  Hypothesis eng_none : forall k pats name,
    engine k pats name = None -> forall p, In p pats -> ~ re_hits k p name.

  Lemma hits_glob p name : wf_pat p = true ->
    (re_hits (identify p) p name <-> glob_match p name = true).
  Proof. intros Hw. apply pattern_correct. apply wf_pat_not_re; exact Hw. Qed.

  Theorem match_sound_complete k ps name : (0 < k)%nat ->
    forallb wf_pat (map normalize ps) = true ->
    (forall p, globster normalize engine k ps name = Some p ->
               In p (map normalize ps) /\ glob_match p name = true) /\
    (globster normalize engine k ps name = None <->
     forall p, In p (map normalize ps) -> glob_match p name = false).
  Proof.
    intros Hk Hwf. rewrite forallb_forall in Hwf. split.
    - intros p H. destruct (globster_sound normalize engine re_hits eng_some eng_none k ps name p H) as [Hin Hh].
      split; [exact Hin|]. apply (hits_glob p name (Hwf p Hin)). exact Hh.
    - rewrite (globster_none normalize engine re_hits eng_some eng_none k ps name Hk). split.
      + intros H p Hin. destruct (glob_match p name) eqn:E; [|reflexivity].
        exfalso. apply (H p Hin). apply (hits_glob p name (Hwf p Hin)). exact E.
      + intros H p Hin Hh. apply (hits_glob p name (Hwf p Hin)) in Hh. rewrite (H p Hin) in Hh. discriminate.
  Qed.

  Definition some_glob (l : list str) (name : str) : Prop :=
    exists p, In p (map normalize l) /\ glob_match p name = true.

  Lemma some_hit_glob l name : forallb wf_pat (map normalize l) = true ->
    (some_hit normalize re_hits l name <-> some_glob l name).
  Proof.
    intros Hwf. rewrite forallb_forall in Hwf. unfold some_hit, some_glob. split.
    - intros (p & Hin & Hh). exists p. split; [exact Hin|]. apply (hits_glob p name (Hwf p Hin)). exact Hh.
    - intros (p & Hin & Hh). exists p. split; [exact Hin|]. apply (hits_glob p name (Hwf p Hin)). exact Hh.
  Qed.

  Theorem exceptions_doc k ps name : (0 < k)%nat ->
    let '(i0, i1, i2) := split_exc ps in
    forallb wf_pat (map normalize i1) = true -> forallb wf_pat (map normalize i2) = true ->
    nonempty_all (map normalize i1) = true -> nonempty_all (map normalize i2) = true ->
    (some_glob i2 name ->
       exists p, exc_match normalize engine k ps name = Some ([cBang; cBang] ++ p)
                 /\ In p (map normalize i2) /\ glob_match p name = true) /\
    (~ some_glob i2 name -> some_glob i1 name -> exc_match normalize engine k ps name = None) /\
    (~ some_glob i2 name -> ~ some_glob i1 name ->
       exc_match normalize engine k ps name = globster normalize engine k i0 name).
  Proof.
    intros Hk.
    pose proof (exceptions normalize engine re_hits eng_some eng_none k ps name Hk) as H.
    destruct (split_exc ps) as [[i0 i1] i2]. intros Hw1 Hw2 Hn1 Hn2.
    destruct (H Hn1 Hn2) as (Ha & Hb & Hc).
    pose proof (some_hit_glob i1 name Hw1) as E1. pose proof (some_hit_glob i2 name Hw2) as E2.
    split; [|split].
    - intros Hg. apply E2 in Hg. destruct (Ha Hg) as (p & He & Hin & Hh). exists p. split; [exact He|].
      split; [exact Hin|]. rewrite forallb_forall in Hw2. apply (hits_glob p name (Hw2 p Hin)). exact Hh.
    - intros Hn2' Hg1. apply Hb; [intros X; apply Hn2'; apply E2; exact X|apply E1; exact Hg1].
    - intros Hn2' Hn1'. apply Hc; [intros X; apply Hn2'; apply E2; exact X|intros X; apply Hn1'; apply E1; exact X].
  Qed.
End Doc.

(* lastindex is A matching alternative, not necessarily the FIRST pattern of the list that
   matches: the extension prefix  (?:.*\.)  is tried greedily first *)
Lemma first_alternative_refuted :
  exists pats name p1,
    nth_error pats 0 = Some p1 /\ re_hits KExt p1 name /\ bt_engine KExt pats name = Some 2%nat.
Proof.
  (* "*.b.c", "*.c"  on  "a.b.c" *)
  exists [[42; 46; 98; 46; 99]; [42; 46; 99]]%N, [97; 46; 98; 46; 99]%N, [42; 46; 98; 46; 99]%N.
  split; [reflexivity|]. split; [|vm_compute; reflexivity].
  unfold re_hits. apply hit_run. vm_compute. reflexivity.
Qed.

(* non-trivial instances of the hypotheses: five patterns, batch sizes 2 and 99 *)
Example globster_example :
  let ps := [[42; 46; 111]; [102; 111; 111]; [97; 47; 42; 42; 47; 98]; [42; 46; 112; 121; 91; 99; 111; 93]; [63; 120]]%N in
  (* "*.o" "foo" "a/**/b" "*.py[co]" "?x"   on   "a/x/y/b" , "d/m.pyc", "d/m.py" *)
  globster normalize_pattern bt_engine 2 ps [97; 47; 120; 47; 121; 47; 98]%N = Some [97; 47; 42; 42; 47; 98]%N /\
  globster normalize_pattern bt_engine 99 ps [97; 47; 120; 47; 121; 47; 98]%N = Some [97; 47; 42; 42; 47; 98]%N /\
  globster normalize_pattern bt_engine 2 ps [100; 47; 109; 46; 112; 121; 99]%N = Some [42; 46; 112; 121; 91; 99; 111; 93]%N /\
  globster normalize_pattern bt_engine 2 ps [100; 47; 109; 46; 112; 121]%N = None /\
  forallb wf_pat (map normalize_pattern ps) = true.
Proof. vm_compute. repeat split; reflexivity. Qed.
