(* Theory/OsUtilsExamples.v -- the hypotheses of the C47 theorems are satisfiable by
   non-trivial values, and the functions do what the examples in the sources say. *)
From Coq Require Import String Ascii ZArith NArith List Bool.
From BV Require Import Lib.Bytes Lib.Obs Model.OsUtils Theory.OsUtilsPath Theory.OsUtilsLines Theory.OsUtilsDate.
Import ListNotations.
Open Scope N_scope.

Definition s (x : string) : bytes := asc x.

(* osutils.minimum_path_selection(['a/b', 'a/b/c', 'a-b', 'ab', 'c/d', 'c']) *)
Example min_sel_example :
  sort_bytes (minimum_path_selection [s "a/b"; s "a/b/c"; s "a-b"; s "ab"; s "c/d"; s "c"; s "a/b/"])
  = [s "a-b"; s "a/b"; s "ab"; s "c"].
Proof. vm_compute. reflexivity. Qed.

Example is_inside_examples :
  is_inside (s "src") (s "src/foo.c") = true /\ is_inside (s "src") (s "srccontrol") = false /\
  is_inside (s "") (s "foo.c") = true /\ is_inside (s "foo.c") (s "foo.c") = true /\
  is_inside (s "foo.c") (s "") = false.
Proof. vm_compute. auto. Qed.

Example normalised_example :
  normalised (s "a/bc/d.e") = true /\ normalised (s "a//b") = false /\ normalised (s "./a") = false /\
  normalised (s "a/") = false /\ normalised (s "/a") = false /\ normalised (s "a/../b") = false /\
  splitpath (s "a/bc/d.e") = Ok [s "a"; s "bc"; s "d.e"] /\
  forallb valid_seg [s "a"; s "bc"; s "d.e"] = true /\
  joinpath [s "a"; s "bc"; s "d.e"] = Ok (s "a/bc/d.e").
Proof. vm_compute. repeat split; reflexivity. Qed.

Example lines_example :
  split_lines [97; 10; 10; 98] = [[97; 10]; [10]; [98]] /\
  chunks_to_lines [[97]; []; [10; 10; 98]] = [[97; 10]; [10]; [98]] /\
  core_chunks_to_lines [[97]; []; [10; 10; 98]] = [[97; 10]; [10]; [98]] /\
  lines_wf [[97; 10]; [10]; [98]].
Proof.
  repeat split; try (vm_compute; reflexivity).
  apply wf_cons; [exists [97]; auto|]. apply wf_cons; [exists []; auto|].
  apply wf_last. split; [discriminate|reflexivity].
Qed.

Example date_example :
  format_highres_date 10 0 (-12600) = Some (s "Wed 1969-12-31 20:30:10.000000000 -0330") /\
  format_highres_date (-2) 500000000 0 = Some (s "Wed 1969-12-31 23:59:58.500000000 +0000") /\
  format_highres_date 1 1000000000 0 = Some (s "Thu 1970-01-01 00:00:02.000000000 +0000").
Proof. vm_compute. auto. Qed.
