(* Theory/Reconf52Revs.v -- C52: no revision stored anywhere in the world is lost by a completed
   reconfiguration (a repository is always fetched from before it is destroyed); the revisions
   reachable from the tip and the pending merges of a kept tree stay in the branch's repository. *)
From Coq Require Import List Bool Arith String Lia.
Import ListNotations.
From BV Require Import Lib.Obs Lib.Dag Theory.DagFacts Model.Reconf52 Theory.Reconf52Base Theory.Reconf52Wf
     Theory.Reconf52.
Open Scope string_scope.
Open Scope nat_scope.
Open Scope list_scope.

Definition rest (w : world) : list revid :=
  orevs (w_outer w) ++ own_revs (w_inner w) ++ own_revs (w_sib w) ++ own_revs (w_far w).
Lemma all_revs_rest w : all_revs w = orevs (w_repo w) ++ rest w.
Proof. reflexivity. Qed.

Lemma incl_union_r (a b : list revid) : incl b (union a b).
Proof. intros x Hx. apply In_union. right. exact Hx. Qed.
Lemma incl_union_l (a b : list revid) : incl a (union a b).
Proof. intros x Hx. apply In_union. left. exact Hx. Qed.

Ltac wf_split H := unfold plan_wf in H; repeat (apply andb_prop in H; destruct H as [H ?]).

Lemma wf_crp p w : plan_wf p w = true -> p_create_repository p = true ->
  w_repo w = None /\ p_destroy_repository p = false.
Proof.
  intros H Hc. wf_split H.
  match goal with Hx : implb (p_create_repository p) _ = true |- _ =>
    rewrite Hc in Hx; cbn in Hx; apply andb_prop in Hx; destruct Hx as [A B] end.
  apply negb_true_iff in A, B. split; [|exact B]. destruct (w_repo w); [discriminate A|reflexivity].
Qed.

Lemma wf_drp p w : plan_wf p w = true -> p_destroy_repository p = true ->
  is_some (w_repo w) = true /\ p_create_branch p = false /\ p_create_repository p = false
  /\ (p_create_reference p = true -> match w_repo w with Some r => r_shared r = false | None => False end).
Proof.
  intros H Hd. pose proof H as H'. wf_split H.
  match goal with Hx : implb (p_destroy_repository p) _ = true |- _ =>
    rewrite Hd in Hx; cbn in Hx; apply andb_prop in Hx; destruct Hx as [A B] end.
  apply negb_true_iff in B. split; [exact A|]. split; [exact B|]. split.
  - destruct (p_create_repository p) eqn:E; [|reflexivity].
    destruct (wf_crp _ _ H' E) as [_ C]. congruence.
  - intros Hc.
    match goal with Hx : implb (p_destroy_repository p && p_create_reference p) _ = true |- _ =>
      rewrite Hd, Hc in Hx; cbn in Hx end.
    destruct (w_repo w) as [r|]; [|discriminate A].
    match goal with Hx : negb (r_shared r) = true |- _ => apply negb_true_iff in Hx; exact Hx end.
Qed.

Lemma own_revs_oown a b : oown a = oown b -> own_revs a = own_revs b.
Proof.
  destruct a as [[? ? ?]|], b as [[? ? ?]|]; cbn; intros H; try discriminate H; [injection H as ->|]; reflexivity.
Qed.

Section Revs.
Variables (p : plan) (w0 : world) (nb : option loc).
Hypothesis Hwf : plan_wf p w0 = true.

Definition Inv3 (j : nat) (w : world) : Prop :=
  (j = 0 -> w = w0)
  /\ (j <= 3 -> p_destroy_repository p = true -> w_repo w = w_repo w0)
  /\ incl (all_revs w0) (all_revs w)
  /\ (4 <= j -> j <= 11 -> p_destroy_repository p = true -> incl (orevs (w_repo w)) (rest w)).

Lemma same_revs w1 w2 :
  w_repo w2 = w_repo w1 -> w_outer w2 = w_outer w1 ->
  own_revs (w_inner w2) = own_revs (w_inner w1) -> own_revs (w_sib w2) = own_revs (w_sib w1) ->
  own_revs (w_far w2) = own_revs (w_far w1) ->
  all_revs w2 = all_revs w1 /\ rest w2 = rest w1.
Proof. intros A B C D E. unfold all_revs, rest. rewrite A, B, C, D, E. auto. Qed.

(* a step that changes no repository content keeps the invariant (stages 4..10) *)
Lemma Inv3_keep j w1 w2 : 4 <= j -> j <= 10 -> Inv3 j w1 ->
  w_repo w2 = w_repo w1 -> all_revs w2 = all_revs w1 -> rest w2 = rest w1 -> Inv3 (S j) w2.
Proof.
  intros L1 L2 (I0 & I1 & I2 & I3) A B C. split; [lia|]. split; [lia|]. split; [rewrite B; exact I2|].
  intros _ _ Hd. rewrite A, C. apply I3; [lia|lia|exact Hd].
Qed.

Lemma rest_set_other w l o (Hl : get_other w l = Some o) rs x :
  In x (rest w) \/ In x rs ->
  In x (rest (set_other w l (mkOB (o_tip o) (o_tags o) (Some (union rs (match o_own o with Some y => y | None => [] end)))))).
Proof.
  unfold rest. intros H.
  destruct l as [|[|[|l]]]; cbn in Hl; try discriminate Hl; cbn [set_other w_outer w_inner w_sib w_far own_revs o_own];
    rewrite Hl in H; cbn [own_revs] in H; rewrite !in_app_iff in *; rewrite In_union; tauto.
Qed.

Lemma place_repo_add_mono w l o rs w' :
  place_repo_add w l o rs = Some w' -> get_other w l = Some o -> incl (all_revs w) (all_revs w').
Proof.
  unfold place_repo_add. intros Ep Eo.
  destruct (place_repo w l o) as [[|[|k]]|]; [| | |discriminate Ep].
  - injection Ep as <-.
    assert (Hr : w_repo (set_other w l (mkOB (o_tip o) (o_tags o) (Some (union rs (match o_own o with Some y => y | None => [] end)))))
                 = w_repo w) by (destruct l as [|[|[|l]]]; reflexivity).
    intros x Hx. rewrite all_revs_rest in *. rewrite Hr.
    apply in_app_or in Hx. apply in_or_app. destruct Hx as [Hx|Hx]; [left; exact Hx|right].
    apply rest_set_other; [exact Eo|left; exact Hx].
  - destruct (w_repo w) as [r|] eqn:Er; [|discriminate Ep]. injection Ep as <-.
    intros x Hx. unfold all_revs in *. cbn [set_repo w_repo w_outer w_inner w_sib w_far orevs add_revs r_revs].
    rewrite Er in Hx. cbn [orevs] in Hx. apply in_app_or in Hx. apply in_or_app.
    destruct Hx as [Hx|Hx]; [left; apply In_union; right; exact Hx|right; exact Hx].
  - destruct (w_outer w) as [r|] eqn:Eou; [|discriminate Ep]. injection Ep as <-.
    intros x Hx. unfold all_revs in *. cbn [set_outer w_repo w_outer w_inner w_sib w_far orevs add_revs r_revs].
    rewrite Eou in Hx. cbn [orevs] in Hx. rewrite !in_app_iff in *. rewrite In_union. tauto.
Qed.

Lemma Inv3_step j s w1 w2 :
  nth_error (steps nb p w0) j = Some s -> Inv3 j w1 -> s w1 = Ok w2 -> Inv3 (S j) w2.
Proof.
  intros Hn HI Hs. apply steps_cases in Hn.
  destruct Hn as [[-> ->]|[[-> ->]|[[-> ->]|[[-> ->]|[[-> ->]|[[-> ->]|[[-> ->]|[[-> ->]|[[-> ->]|[[-> ->]|[[-> ->]|[[-> ->]|[-> ->]]]]]]]]]]]]].
  - (* create_repository *)
    destruct HI as (I0 & I1 & I2 & I3). specialize (I0 eq_refl). subst w1.
    unfold step_create_repository in Hs. split; [lia|]. destruct (p_create_repository p) eqn:Ec.
    + destruct (wf_crp _ _ Hwf Ec) as [Hn Hd]. injection Hs as <-.
      split; [intros _ Hd'; congruence|]. split; [|intros; lia].
      rewrite !all_revs_rest. cbn [set_repo w_repo]. rewrite Hn. cbn [orevs app].
      intros x Hx. apply in_or_app. right. exact Hx.
    + injection Hs as <-. split; [auto|]. split; [exact I2|intros; lia].
  - (* fetch_referenced *)
    destruct HI as (I0 & I1 & I2 & I3). split; [lia|].
    unfold step_fetch_referenced in Hs.
    destruct (p_create_branch p) eqn:Ecb.
    2:{ injection Hs as <-. split; [intros _ Hd; apply I1; [lia|exact Hd]|]. split; [exact I2|intros; lia]. }
    split.
    { intros _ Hd. destruct (wf_drp _ _ Hwf Hd) as (_ & C & _). congruence. }
    split; [|intros; lia].
    destruct (refd_of w0) as [[l o]|]; [|injection Hs as <-; exact I2].
    destruct (place_revs w0 l o); [|discriminate Hs].
    destruct (loc_repo_add w1 _) as [w3|] eqn:El; [|discriminate Hs]. injection Hs as <-.
    intros x Hx. specialize (I2 x Hx). revert El. unfold loc_repo_add.
    destruct (w_repo w1) as [r|] eqn:Er; [|destruct (w_outer w1) as [r|] eqn:Eo; [|discriminate]];
      intros El; injection El as <-; unfold all_revs in *;
      cbn [set_repo set_outer w_repo w_outer w_inner w_sib w_far orevs add_revs r_revs];
      rewrite ?Er, ?Eo in I2; cbn [orevs app] in I2.
    + apply in_app_or in I2. apply in_or_app. destruct I2 as [I2|I2]; [left; apply In_union; right; exact I2|right; exact I2].
    + rewrite Er. cbn [orevs app]. apply in_app_or in I2. apply in_or_app.
      destruct I2 as [I2|I2]; [left; apply In_union; right; exact I2|right; exact I2].
  - (* open_reference *)
    pose proof (s3_frame p w0 nb w1) as F. rewrite (ok_world _ _ _ Hs) in F. subst w2.
    destruct HI as (I0 & I1 & I2 & I3). split; [lia|]. split; [intros _ Hd; apply I1; [lia|exact Hd]|].
    split; [exact I2|intros; lia].
  - (* destroy_repository_fetch: everything the doomed repository holds is copied first *)
    destruct HI as (I0 & I1 & I2 & I3). split; [lia|]. split; [intros; lia|].
    unfold step_destroy_repository_fetch in Hs.
    destruct (p_destroy_repository p) eqn:Ed.
    2:{ split; [|intros _ _ Hd; discriminate Hd].
        destruct (p_create_reference p && is_some (local_of w0)); [|injection Hs as <-; exact I2].
        destruct (select_bind w0 nb) as [l|]; [|discriminate Hs].
        destruct (get_other w1 l) as [o|] eqn:Eo; [|discriminate Hs].
        destruct (place_repo_add w1 l o _) as [w3|] eqn:Ep; [|discriminate Hs]. injection Hs as <-.
        intros x Hx. apply (place_repo_add_mono _ _ _ _ _ Ep Eo). apply I2. exact Hx. }
    specialize (I1 ltac:(lia) eq_refl).
    destruct (wf_drp _ _ Hwf Ed) as (Hsome & _ & _ & Hunsh).
    assert (Hall : incl (orevs (w_repo w1)) (orevs (find_repo w1))).
    { unfold find_repo. destruct (w_repo w1); cbn; [apply incl_refl|intros x []]. }
    destruct (p_create_reference p) eqn:Ecr.
    + destruct (select_bind w0 nb) as [l|]; [|discriminate Hs].
      destruct (get_other w1 l) as [o|] eqn:Eo; [|discriminate Hs].
      destruct (place_repo_add w1 l o _) as [w3|] eqn:Ep; [|discriminate Hs]. injection Hs as <-.
      unfold place_repo_add in Ep. destruct (place_repo w1 l o) as [[|[|k]]|] eqn:Epl; [| | |discriminate Ep].
      * injection Ep as <-.
        assert (Hr : w_repo (set_other w1 l (mkOB (o_tip o) (o_tags o) (Some (union (orevs (find_repo w1)) (match o_own o with Some y => y | None => [] end)))))
                     = w_repo w1) by (destruct l as [|[|[|l]]]; reflexivity).
        split.
        -- intros x Hx. specialize (I2 x Hx). rewrite all_revs_rest in *. rewrite Hr.
           apply in_app_or in I2. apply in_or_app. destruct I2 as [I2|I2]; [left; exact I2|right].
           apply rest_set_other; [exact Eo|left; exact I2].
        -- intros _ _ _. rewrite Hr. intros x Hx. apply rest_set_other; [exact Eo|right; apply Hall; exact Hx].
      * exfalso. unfold place_repo in Epl. destruct (o_own o); [discriminate Epl|].
        specialize (Hunsh eq_refl). rewrite <- I1 in Hunsh.
        destruct l as [|[|[|l]]]; try discriminate Epl.
        -- destruct (w_repo w1) as [r|]; [|contradiction]. rewrite Hunsh in Epl. discriminate Epl.
        -- destruct (w_outer w1); discriminate Epl.
      * destruct (w_outer w1) as [r|] eqn:Eou; [|discriminate Ep]. injection Ep as <-.
        split.
        -- intros x Hx. specialize (I2 x Hx). unfold all_revs in *.
           cbn [set_outer w_repo w_outer w_inner w_sib w_far orevs add_revs r_revs]. rewrite Eou in I2. cbn [orevs] in I2.
           rewrite !in_app_iff in *. rewrite In_union. tauto.
        -- intros _ _ _ x Hx. unfold rest. cbn [set_outer w_repo w_outer w_inner w_sib w_far orevs add_revs r_revs].
           apply in_or_app. left. apply In_union. left. apply Hall. exact Hx.
    + destruct (w_outer w1) as [r|] eqn:Eou; [|discriminate Hs]. injection Hs as <-.
      split.
      * intros x Hx. specialize (I2 x Hx). unfold all_revs in *.
        cbn [set_outer w_repo w_outer w_inner w_sib w_far orevs add_revs r_revs]. rewrite Eou in I2. cbn [orevs] in I2.
        rewrite !in_app_iff in *. rewrite In_union. tauto.
      * intros _ _ _ x Hx. unfold rest. cbn [set_outer w_repo w_outer w_inner w_sib w_far orevs add_revs r_revs].
        apply in_or_app. left. apply In_union. left. apply Hall. exact Hx.
  - (* destroy_reference *)
    pose proof (s5a_frame p w1) as F. rewrite (ok_world _ _ _ Hs) in F. cbn in F.
    destruct F as (_ & Fr & Fo & _ & Fi & Fs & Ff).
    destruct (same_revs w1 w2 Fr Fo) as [A B]; try (rewrite ?Fi, ?Fs, ?Ff; reflexivity).
    apply (Inv3_keep 4 w1 w2); auto; lia.
  - (* destroy_branch *)
    pose proof (s5b_frame p w0 nb w1) as F. rewrite (ok_world _ _ _ Hs) in F. cbn in F.
    destruct F as (_ & Fr & Fo & _ & _ & Fown).
    destruct (same_revs w1 w2 Fr Fo) as [A B];
      try (apply own_revs_oown; [exact (Fown 0) || exact (Fown 1) || exact (Fown 2)]).
    apply (Inv3_keep 5 w1 w2); auto; lia.
  - (* create_branch *)
    pose proof (s5c_frame p w0 w1) as F. rewrite (ok_world _ _ _ Hs) in F. cbn in F.
    destruct F as (_ & Fr & Fo & _ & Fi & Fs & Ff).
    destruct (same_revs w1 w2 Fr Fo) as [A B]; try (rewrite ?Fi, ?Fs, ?Ff; reflexivity).
    apply (Inv3_keep 6 w1 w2); auto; lia.
  - (* create_reference *)
    pose proof (s5d_frame p w0 nb w1) as F. rewrite (ok_world _ _ _ Hs) in F. cbn in F.
    destruct F as (_ & Fr & Fo & _ & Fi & Fs & Ff).
    destruct (same_revs w1 w2 Fr Fo) as [A B]; try (rewrite ?Fi, ?Fs, ?Ff; reflexivity).
    apply (Inv3_keep 7 w1 w2); auto; lia.
  - (* trees *)
    pose proof (s6_frame p w1) as F. rewrite (ok_world _ _ _ Hs) in F. cbn in F.
    destruct F as (_ & Fr & Fo & _ & Fi & Fs & Ff).
    destruct (same_revs w1 w2 Fr Fo) as [A B]; try (rewrite ?Fi, ?Fs, ?Ff; reflexivity).
    apply (Inv3_keep 8 w1 w2); auto; lia.
  - (* unbind *)
    pose proof (s7_frame p w1) as F. rewrite (ok_world _ _ _ Hs) in F. cbn in F.
    destruct F as (_ & Fr & Fo & _ & Fi & Fs & Ff).
    destruct (same_revs w1 w2 Fr Fo) as [A B]; try (rewrite ?Fi, ?Fs, ?Ff; reflexivity).
    apply (Inv3_keep 9 w1 w2); auto; lia.
  - (* bind *)
    pose proof (s8_frame p w0 nb w1) as F. rewrite (ok_world _ _ _ Hs) in F. cbn in F.
    destruct F as (_ & Fr & Fo & _ & Fi & Fs & Ff).
    destruct (same_revs w1 w2 Fr Fo) as [A B]; try (rewrite ?Fi, ?Fs, ?Ff; reflexivity).
    apply (Inv3_keep 10 w1 w2); auto; lia.
  - (* destroy_repository: its content is elsewhere by now *)
    destruct HI as (I0 & I1 & I2 & I3). split; [lia|]. split; [intros; lia|]. split; [|intros; lia].
    unfold step_destroy_repository in Hs. destruct (p_destroy_repository p) eqn:Ed; [|injection Hs as <-; exact I2].
    destruct (w_repo w1) eqn:Er; [|discriminate Hs]. injection Hs as <-.
    specialize (I3 ltac:(lia) ltac:(lia) eq_refl). rewrite ?Er in I3.
    intros x Hx. specialize (I2 x Hx). rewrite (all_revs_rest w1) in I2. rewrite ?Er in I2.
    rewrite all_revs_rest. cbn [set_repo w_repo orevs app].
    change (rest (set_repo w1 None)) with (rest w1).
    apply in_app_or in I2. destruct I2 as [I2|I2]; [apply I3; exact I2|exact I2].
  - (* repository_trees *)
    destruct HI as (I0 & I1 & I2 & I3). split; [lia|]. split; [intros; lia|]. split; [|intros; lia].
    pose proof (s10_frame p w1) as F. rewrite (ok_world _ _ _ Hs) in F. cbn in F.
    destruct F as (_ & _ & _ & Fi & Fs & Ff & Fr & Fo & _).
    unfold all_revs in *. rewrite Fr, Fo, Fi, Fs, Ff. exact I2.
Qed.

Lemma apply_no_loss force w' : apply force nb p w0 = Ok w' -> incl (all_revs w0) (all_revs w').
Proof.
  intros H. apply (apply_ok_inv Inv3 force nb p w0 w') in H; [exact (proj1 (proj2 (proj2 H)))| |exact Inv3_step].
  split; [auto|]. split; [auto|]. split; [apply incl_refl|intros; lia].
Qed.
End Revs.

Theorem no_revision_lost t force nb w w' :
  reconfigure t force nb w = Ok w' -> forall r, In r (all_revs w) -> In r (all_revs w').
Proof.
  intros H r Hr. unfold reconfigure in H. destruct (factory w t) as [p|e] eqn:Hf; [|discriminate H].
  exact (apply_no_loss p w nb (factory_wf _ _ _ Hf) force w' H r Hr).
Qed.

(* ---- the revisions reachable from the tip stay in the branch's repository ------------------------
   Proved for every reconfiguration after which the location holds a branch of its own (a kept local
   branch, or a branch created from a reference); see notes/C52.md for the two remaining cases. *)
Section Ancestry.
Variables (p : plan) (w0 : world) (nb : option loc) (tp : option revid).
Hypothesis Hwf : plan_wf p w0 = true.
Hypothesis Hncr : p_create_reference p = false.
Hypothesis Htip : eff_tip w0 = Some tp.
Hypothesis Hown : has_local w0 = true \/ p_create_branch p = true.

(* what must stay visible: the tip's ancestry, and the pending merges of a tree that is kept *)
Definition P0 : list revid := filter (fun m => memb m (eff_revs w0)) (pending_of p w0).
Definition R0 : list revid := fetched (w_g w0) (eff_revs w0) tp ++ P0.

Lemma pend_fetch_self g src ms x : In x ms -> memb x src = true -> In x (pend_fetch g src ms).
Proof.
  intros Hx Hm. unfold pend_fetch. apply in_flat_map. exists x. split; [exact Hx|]. rewrite Hm.
  unfold fetched. apply filter_In. split; [|exact Hm].
  unfold ancestors. apply close_down_incl. left. reflexivity.
Qed.

Lemma R0_in g src t x : g = w_g w0 -> src = eff_revs w0 -> t = tp ->
  In x R0 -> In x (fetched g src t ++ pend_fetch g src (pending_of p w0)).
Proof.
  intros -> -> -> Hx. unfold R0 in Hx. apply in_app_or in Hx. apply in_or_app.
  destruct Hx as [Hx|Hx]; [left; exact Hx|right].
  unfold P0 in Hx. apply filter_In in Hx. destruct Hx as [Hx Hm]. apply pend_fetch_self; assumption.
Qed.
Definition Q (w : world) : Prop := incl R0 (orevs (find_repo w)).

Definition Inv4 (j : nat) (w : world) : Prop :=
  (j = 0 -> w = w0)
  /\ w_g w = w_g w0
  /\ (has_local w0 = true -> Q w)
  /\ (p_create_branch p = true -> 2 <= j -> Q w)
  /\ (4 <= j -> j <= 11 -> p_destroy_repository p = true ->
      is_some (w_outer w) = true /\ incl (orevs (w_repo w)) (orevs (w_outer w))).

Lemma Inv4_keep j w1 w2 : 4 <= j -> j <= 10 -> Inv4 j w1 ->
  w_g w2 = w_g w1 -> w_repo w2 = w_repo w1 -> w_outer w2 = w_outer w1 -> Inv4 (S j) w2.
Proof.
  intros L1 L2 (I0 & Ig & I1 & I2 & I3) G A B.
  assert (F : find_repo w2 = find_repo w1) by (unfold find_repo; rewrite A, B; reflexivity).
  split; [lia|]. split; [congruence|]. unfold Q. rewrite F.
  split; [exact I1|]. split; [intros H _; apply I2; [exact H|lia]|].
  intros _ _ Hd. rewrite A, B. apply I3; [lia|lia|exact Hd].
Qed.

Lemma wf_db : p_destroy_branch p = false.
Proof.
  destruct (p_destroy_branch p) eqn:E; [|reflexivity]. pose proof Hwf as H. wf_split H.
  match goal with Hx : implb (p_destroy_branch p) _ = true |- _ => rewrite E, Hncr in Hx; cbn in Hx; discriminate Hx end.
Qed.

Lemma wf_cb_nolocal : p_create_branch p = true -> has_local w0 = false /\ p_destroy_repository p = false.
Proof.
  intros E. pose proof Hwf as H. wf_split H. split.
  - match goal with Hx : implb (p_create_branch p) _ = true |- _ => rewrite E in Hx; cbn in Hx;
      repeat (apply andb_prop in Hx; destruct Hx as [Hx ?]) end.
    match goal with Hy : negb (has_local w0) = true |- _ => apply negb_true_iff in Hy; exact Hy end.
  - destruct (p_destroy_repository p) eqn:Ed; [|reflexivity].
    destruct (wf_drp _ _ Hwf Ed) as (_ & C & _). congruence.
Qed.

Lemma Inv4_step j s w1 w2 :
  nth_error (steps nb p w0) j = Some s -> Inv4 j w1 -> s w1 = Ok w2 -> Inv4 (S j) w2.
Proof.
  intros Hn HI Hs. apply steps_cases in Hn.
  destruct Hn as [[-> ->]|[[-> ->]|[[-> ->]|[[-> ->]|[[-> ->]|[[-> ->]|[[-> ->]|[[-> ->]|[[-> ->]|[[-> ->]|[[-> ->]|[[-> ->]|[-> ->]]]]]]]]]]]]].
  - (* create_repository *)
    destruct HI as (I0 & Ig & I1 & I2 & I3). specialize (I0 eq_refl). subst w1.
    unfold step_create_repository in Hs. split; [lia|]. destruct (p_create_repository p) eqn:Ec.
    + injection Hs as <-. split; [reflexivity|]. split; [|split; [intros; lia|intros; lia]].
      intros Hl. unfold Q, find_repo. cbn [set_repo w_repo orevs r_revs]. rewrite wf_db. cbn [negb andb].
      unfold has_local in Hl. rewrite Hl. cbn [andb].
      intros x Hx. apply In_union. left. apply R0_in; [reflexivity| |  |exact Hx];
        unfold eff_tip, eff_revs, local_of in *; destruct (w_branch w0) as [|b|l]; try discriminate Hl;
        [reflexivity|injection Htip as <-; reflexivity].
    + injection Hs as <-. split; [reflexivity|]. split; [exact I1|]. split; [intros; lia|intros; lia].
  - (* fetch_referenced *)
    destruct HI as (I0 & Ig & I1 & I2 & I3). split; [lia|].
    unfold step_fetch_referenced in Hs.
    destruct (p_create_branch p) eqn:Ecb.
    2:{ injection Hs as <-. split; [exact Ig|]. split; [exact I1|]. split; [intros H; discriminate H|intros; lia]. }
    destruct (wf_cb_nolocal Ecb) as [Hnl _].
    assert (Href : exists l o, refd_of w0 = Some (l, o)).
    { unfold eff_tip, refd_of, has_local, local_of in *. destruct (w_branch w0) as [|b|l]; try discriminate.
      destruct (get_other w0 l) as [o|]; [eauto|discriminate]. }
    destruct Href as (l & o & Href). rewrite Href in Hs.
    destruct (place_revs w0 l o) as [src|] eqn:Epr; [|discriminate Hs].
    destruct (loc_repo_add w1 _) as [w3|] eqn:El; [|discriminate Hs]. injection Hs as <-.
    pose proof (loc_repo_add_frame _ _ _ El) as (Fg & _).
    split; [congruence|]. split; [intros H; congruence|]. split; [|intros; lia].
    intros _ _. unfold Q.
    assert (Er : eff_revs w0 = src /\ tp = o_tip o).
    { unfold eff_revs, eff_tip, refd_of in *. destruct (w_branch w0) as [|b|l']; try discriminate.
      destruct (get_other w0 l') as [o'|]; [|discriminate]. injection Href as -> ->. rewrite Epr.
      injection Htip as <-. auto. }
    destruct Er as [Er1 Er2]. rewrite Ig in El.
    revert El. unfold loc_repo_add, find_repo.
    destruct (w_repo w1) as [r|] eqn:Erp; [|destruct (w_outer w1) as [r|]; [|discriminate]];
      intros El; injection El as <-; cbn [set_repo set_outer w_repo w_outer orevs add_revs r_revs];
      rewrite ?Erp; cbn [orevs add_revs r_revs];
      intros x Hx; apply In_union; left;
      (apply R0_in; [reflexivity|symmetry; exact Er1|symmetry; exact Er2|exact Hx]).
  - (* open_reference *)
    pose proof (s3_frame p w0 nb w1) as F. rewrite (ok_world _ _ _ Hs) in F. subst w2.
    destruct HI as (I0 & Ig & I1 & I2 & I3). split; [lia|]. split; [exact Ig|]. split; [exact I1|].
    split; [intros H _; apply I2; [exact H|lia]|intros; lia].
  - (* destroy_repository_fetch *)
    destruct HI as (I0 & Ig & I1 & I2 & I3). split; [lia|].
    unfold step_destroy_repository_fetch in Hs.
    destruct (p_destroy_repository p) eqn:Ed.
    2:{ rewrite Hncr in Hs. cbn [andb] in Hs. injection Hs as <-.
        split; [exact Ig|]. split; [exact I1|]. split; [intros H _; apply I2; [exact H|lia]|].
        intros _ _ Hd; discriminate Hd. }
    rewrite Hncr in Hs.
    destruct (w_outer w1) as [r|] eqn:Eou; [|discriminate Hs]. injection Hs as <-.
    assert (Fr : find_repo (set_outer w1 (Some (add_revs (orevs (find_repo w1)) r))) = find_repo w1 \/
                 (w_repo w1 = None)).
    { unfold find_repo. cbn [set_outer w_repo]. destruct (w_repo w1); auto. }
    split; [exact Ig|]. split.
    + intros H. specialize (I1 H). unfold Q in *. destruct Fr as [Fr|Fr]; [rewrite Fr; exact I1|].
      unfold find_repo in *. cbn [set_outer w_repo w_outer]. rewrite Fr in *. rewrite Eou in I1.
      cbn [orevs add_revs r_revs] in *. intros x Hx. apply In_union. right. apply I1. exact Hx.
    + split.
      * intros H. destruct (wf_cb_nolocal H) as [_ C]. congruence.
      * intros _ _ _. cbn [set_outer w_repo w_outer is_some orevs add_revs r_revs]. split; [reflexivity|].
        intros x Hx. apply In_union. left. unfold find_repo. destruct (w_repo w1); [exact Hx|destruct Hx].
  - (* destroy_reference *)
    pose proof (s5a_frame p w1) as F. rewrite (ok_world _ _ _ Hs) in F. cbn in F.
    destruct F as (Fg & Fr & Fo & _). apply (Inv4_keep 4 w1 w2); auto; lia.
  - (* destroy_branch *)
    pose proof (s5b_frame p w0 nb w1) as F. rewrite (ok_world _ _ _ Hs) in F. cbn in F.
    destruct F as (Fg & Fr & Fo & _). apply (Inv4_keep 5 w1 w2); auto; lia.
  - (* create_branch *)
    pose proof (s5c_frame p w0 w1) as F. rewrite (ok_world _ _ _ Hs) in F. cbn in F.
    destruct F as (Fg & Fr & Fo & _). apply (Inv4_keep 6 w1 w2); auto; lia.
  - (* create_reference *)
    pose proof (s5d_frame p w0 nb w1) as F. rewrite (ok_world _ _ _ Hs) in F. cbn in F.
    destruct F as (Fg & Fr & Fo & _). apply (Inv4_keep 7 w1 w2); auto; lia.
  - (* trees *)
    pose proof (s6_frame p w1) as F. rewrite (ok_world _ _ _ Hs) in F. cbn in F.
    destruct F as (Fg & Fr & Fo & _). apply (Inv4_keep 8 w1 w2); auto; lia.
  - (* unbind *)
    pose proof (s7_frame p w1) as F. rewrite (ok_world _ _ _ Hs) in F. cbn in F.
    destruct F as (Fg & Fr & Fo & _). apply (Inv4_keep 9 w1 w2); auto; lia.
  - (* bind *)
    pose proof (s8_frame p w0 nb w1) as F. rewrite (ok_world _ _ _ Hs) in F. cbn in F.
    destruct F as (Fg & Fr & Fo & _). apply (Inv4_keep 10 w1 w2); auto; lia.
  - (* destroy_repository *)
    destruct HI as (I0 & Ig & I1 & I2 & I3). split; [lia|].
    pose proof (s9_frame p w1) as F. rewrite (ok_world _ _ _ Hs) in F. cbn in F. destruct F as (Fg & Fo & _).
    split; [congruence|].
    unfold step_destroy_repository in Hs. destruct (p_destroy_repository p) eqn:Ed.
    2:{ injection Hs as <-. split; [exact I1|]. split; [intros H _; apply I2; [exact H|lia]|intros; lia]. }
    destruct (w_repo w1) as [r|] eqn:Er; [|discriminate Hs]. injection Hs as <-.
    destruct (I3 ltac:(lia) ltac:(lia) eq_refl) as [Hou Hin]. cbn [orevs] in Hin.
    assert (HQ : Q w1 -> Q (set_repo w1 None)).
    { unfold Q, find_repo. cbn [set_repo w_repo w_outer]. rewrite Er. cbn [orevs].
      intros H x Hx. destruct (w_outer w1); [|discriminate Hou]. cbn [orevs] in *. apply Hin, H, Hx. }
    split; [intros H; apply HQ, I1, H|]. split; [intros H _; apply HQ, I2; [exact H|lia]|intros; lia].
  - (* repository_trees *)
    destruct HI as (I0 & Ig & I1 & I2 & I3). split; [lia|].
    pose proof (s10_frame p w1) as F. rewrite (ok_world _ _ _ Hs) in F. cbn in F.
    destruct F as (Fg & _ & _ & _ & _ & _ & Fr & Fo & Fs).
    assert (E : orevs (find_repo w2) = orevs (find_repo w1)).
    { unfold find_repo. destruct (w_repo w2), (w_repo w1); cbn in *; try discriminate Fs; auto. }
    split; [congruence|]. unfold Q. rewrite E. split; [exact I1|]. split; [intros H _; apply I2; [exact H|lia]|intros; lia].
Qed.

Lemma apply_ancestry force w' : apply force nb p w0 = Ok w' -> Q w'.
Proof.
  intros H. apply (apply_ok_inv Inv4 force nb p w0 w') in H; [| |exact Inv4_step].
  - destruct H as (_ & _ & I1 & I2 & _). destruct Hown as [Hl|Hc]; [apply I1; exact Hl|apply I2; [exact Hc|lia]].
  - split; [auto|]. split; [auto|]. split; [|split; [intros; lia|intros; lia]].
    intros Hl. unfold Q, R0, P0. unfold has_local, local_of, eff_revs in *.
    destruct (w_branch w0); try discriminate Hl. intros x Hx. apply in_app_or in Hx. destruct Hx as [Hx|Hx].
    + unfold fetched in Hx.
      destruct tp; [|destruct Hx]. apply filter_In in Hx. destruct Hx as [_ Hx]. apply memb_In. exact Hx.
    + apply filter_In in Hx. destruct Hx as [_ Hx]. apply memb_In. exact Hx.
Qed.
End Ancestry.

(* Both the ancestry of the tip and the pending merges of a tree that is kept.  Proved for every
   reconfiguration after which the location holds a branch of its own. *)
Theorem preserves_ancestry_partial t force nb w w' p tp :
  factory w t = inl p -> p_create_reference p = false ->
  has_local w = true \/ p_create_branch p = true ->
  reconfigure t force nb w = Ok w' -> eff_tip w = Some tp ->
  forall r, In r (fetched (w_g w) (eff_revs w) tp)
            \/ (In r (pending_of p w) /\ In r (eff_revs w)) -> In r (eff_revs w').
Proof.
  intros Hf Hn Ho H Ht r Hr. unfold reconfigure in H. rewrite Hf in H.
  pose proof (factory_wf _ _ _ Hf) as Hwf.
  assert (Hr' : In r (R0 p w tp)).
  { unfold R0, P0. apply in_or_app. destruct Hr as [Hr|[Hr1 Hr2]]; [left; exact Hr|right].
    apply filter_In. split; [exact Hr1|apply memb_In; exact Hr2]. }
  pose proof (apply_ancestry p w nb tp Hwf Hn Ht Ho force w' H r Hr') as HQ.
  destruct (apply_final p w nb force w' H) as (Hb & _).
  unfold eff_revs. rewrite Hb. cbn [branch_at]. unfold B11, B10, B8. rewrite Hn.
  assert (Hk : match B7 p w with BRef _ => False | _ => True end).
  { unfold B7, B6, B5, new_branch. destruct (p_create_branch p) eqn:Ecb; [exact I|].
    destruct Ho as [Hl|Hc]; [|discriminate Hc].
    unfold has_local, local_of in Hl. destruct (w_branch w) as [|b|l]; try discriminate Hl.
    destruct (p_destroy_branch p), (p_destroy_reference p); exact I. }
  destruct (B7 p w) as [|b|l]; [| |contradiction];
    destruct (p_unbind p), (p_bind p); cbn; exact HQ.
Qed.

(* in particular: the pending merges of a kept working tree stay available to its branch *)
Theorem pending_merges_kept_partial t force nb w w' p tp tr :
  factory w t = inl p -> p_create_reference p = false ->
  has_local w = true \/ p_create_branch p = true ->
  reconfigure t force nb w = Ok w' -> eff_tip w = Some tp ->
  w_tree w = Some tr -> p_destroy_tree p = false ->
  forall m, In m (List.tl (t_parents tr)) -> In m (eff_revs w) -> In m (eff_revs w').
Proof.
  intros Hf Hn Ho H Ht Htr Hd m Hm Hm2.
  apply (preserves_ancestry_partial t force nb w w' p tp Hf Hn Ho H Ht). right. split; [|exact Hm2].
  unfold pending_of. rewrite Htr, Hd. exact Hm.
Qed.
