(* Theory/PyDictFacts.v -- facts about the association-list dicts of Lib/PyDict.v. *)
From Coq Require Import List Bool Permutation.
From BV Require Import Lib.PyDict.
Import ListNotations.

Section Facts.
Variables K V : Type.
Variable K_eqb : K -> K -> bool.
Hypothesis K_eqb_spec : forall x y, K_eqb x y = true <-> x = y.

Notation get := (dict_get K_eqb).
Notation set := (dict_set K_eqb).
Notation mem := (dict_mem K_eqb).

Lemma K_eqb_refl k : K_eqb k k = true.
Proof. apply K_eqb_spec; reflexivity. Qed.

Lemma K_eqb_neq x y : x <> y -> K_eqb x y = false.
Proof.
  intros H. destruct (K_eqb x y) eqn:E; [|reflexivity].
  apply K_eqb_spec in E. contradiction.
Qed.

Lemma K_eq_dec (x y : K) : {x = y} + {x <> y}.
Proof.
  destruct (K_eqb x y) eqn:E.
  - left. apply K_eqb_spec; exact E.
  - right. intros H. apply K_eqb_spec in H. congruence.
Qed.

Lemma get_set_same (d : dict K V) k v : get (set d k v) k = Some v.
Proof.
  induction d as [|[k' v'] d IH]; cbn [dict_set dict_get].
  - rewrite K_eqb_refl; reflexivity.
  - destruct (K_eqb k k') eqn:E; cbn [dict_get]; rewrite E; [reflexivity|exact IH].
Qed.

Lemma get_set_other (d : dict K V) k v n : n <> k -> get (set d k v) n = get d n.
Proof.
  intros Hn. induction d as [|[k' v'] d IH]; cbn [dict_set dict_get].
  - rewrite (K_eqb_neq _ _ Hn); reflexivity.
  - destruct (K_eqb k k') eqn:E; cbn [dict_get].
    + apply K_eqb_spec in E; subst k'. rewrite (K_eqb_neq _ _ Hn); reflexivity.
    + destruct (K_eqb n k'); [reflexivity|exact IH].
Qed.

Lemma mem_get (d : dict K V) k : mem d k = true <-> get d k <> None.
Proof. unfold dict_mem. destruct (get d k); split; congruence. Qed.

Lemma get_none_keys (d : dict K V) k : get d k = None <-> ~ In k (map fst d).
Proof.
  induction d as [|[k' v'] d IH]; cbn [dict_get map fst In].
  - split; [intros _ []|reflexivity].
  - destruct (K_eqb k k') eqn:E.
    + apply K_eqb_spec in E; subst. split; [discriminate|]. intros H; exfalso; apply H; left; reflexivity.
    + rewrite IH. split.
      * intros H [H1|H1]; [subst; rewrite K_eqb_refl in E; discriminate|exact (H H1)].
      * intros H H1; apply H; right; exact H1.
Qed.

Lemma get_some_in (d : dict K V) k v : get d k = Some v -> In (k, v) d.
Proof.
  induction d as [|[k' v'] d IH]; cbn [dict_get In]; [discriminate|].
  destruct (K_eqb k k') eqn:E.
  - apply K_eqb_spec in E; subst. intros H; inversion H; left; reflexivity.
  - intros H; right; exact (IH H).
Qed.

Lemma in_get (d : dict K V) k v : NoDup (map fst d) -> In (k, v) d -> get d k = Some v.
Proof.
  induction d as [|[k' v'] d IH]; cbn [map fst In dict_get]; intros Hnd Hin; [contradiction|].
  inversion Hnd as [|? ? Hk Hnd']; subst.
  destruct Hin as [Hin|Hin].
  - inversion Hin; subst. rewrite K_eqb_refl; reflexivity.
  - destruct (K_eqb k k') eqn:E.
    + apply K_eqb_spec in E; subst. exfalso; apply Hk. apply in_map_iff. exists (k', v); split; [reflexivity|exact Hin].
    + exact (IH Hnd' Hin).
Qed.

Lemma get_in_iff (d : dict K V) k v : NoDup (map fst d) -> (get d k = Some v <-> In (k, v) d).
Proof. intros H; split; [apply get_some_in|apply in_get; exact H]. Qed.

Lemma keys_set (d : dict K V) k v :
  map fst (set d k v) = if mem d k then map fst d else map fst d ++ [k].
Proof.
  unfold dict_mem. induction d as [|[k' v'] d IH]; cbn [dict_set dict_get map fst app]; [reflexivity|].
  destruct (K_eqb k k') eqn:E; cbn [map fst]; [reflexivity|].
  rewrite IH. destruct (get d k); reflexivity.
Qed.

Lemma NoDup_set (d : dict K V) k v : NoDup (map fst d) -> NoDup (map fst (set d k v)).
Proof.
  intros H. rewrite keys_set. destruct (mem d k) eqn:E; [exact H|].
  assert (Hn : get d k = None).
  { unfold dict_mem in E. destruct (get d k); [discriminate|reflexivity]. }
  apply get_none_keys in Hn.
  apply (Permutation_NoDup (l := k :: map fst d)).
  - apply Permutation_cons_append.
  - constructor; assumption.
Qed.

(* two association lists with the same entries denote the same finite map *)
Lemma get_perm (d d' : dict K V) k :
  NoDup (map fst d) -> Permutation d' d -> get d' k = get d k.
Proof.
  intros Hnd Hp.
  assert (Hnd' : NoDup (map fst d')).
  { apply (Permutation_NoDup (l := map fst d)); [|exact Hnd]. apply Permutation_map, Permutation_sym, Hp. }
  destruct (get d k) as [v|] eqn:G.
  - apply in_get; [exact Hnd'|]. apply (Permutation_in _ (Permutation_sym Hp)). apply get_some_in; exact G.
  - apply get_none_keys. apply get_none_keys in G. intros Hin; apply G.
    apply (Permutation_in _ (Permutation_map fst Hp)); exact Hin.
Qed.

Lemma update_get (d e : dict K V) k :
  NoDup (map fst e) ->
  get (dict_update K_eqb d e) k = match get e k with Some v => Some v | None => get d k end.
Proof.
  unfold dict_update. revert d. induction e as [|[k' v'] e IH]; intros d Hnd; cbn [fold_left dict_get fst snd map] in *.
  - reflexivity.
  - inversion Hnd as [|? ? Hk Hnd']; subst. rewrite (IH _ Hnd').
    destruct (K_eqb k k') eqn:E.
    + apply K_eqb_spec in E; subst k'.
      assert (G : get e k = None) by (apply get_none_keys; exact Hk).
      rewrite G. apply get_set_same.
    + destruct (get e k); [reflexivity|]. apply get_set_other.
      intros ->. rewrite K_eqb_refl in E; discriminate.
Qed.

End Facts.
