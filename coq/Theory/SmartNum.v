(* Theory/SmartNum.v -- number printing/parsing, find_byte, be32: round trips
   used by the smart-protocol theorems (C29, C30). *)
From Coq Require Import String ZArith NArith Bool List Lia.
From BV Require Import Lib.Bytes Model.Smart.
Import ListNotations.
Open Scope N_scope.

(* ------------------------------------------------------------- digits *)

Lemma parse_digits_app base dig a b acc :
  parse_digits base dig (a ++ b) acc =
  match parse_digits base dig a acc with
  | Some v => parse_digits base dig b v
  | None => None
  end.
Proof.
  revert acc; induction a as [|c a IH]; intros acc; cbn [app parse_digits]; [reflexivity|].
  destruct (dig c); [apply IH|reflexivity].
Qed.

Lemma to_digits_length_ge base f q l : (S (length l) <= length (to_digits base f q l))%nat.
Proof.
  revert q l; induction f as [|f IHf]; intros q l; cbn [to_digits]; [cbn [length]; lia|].
  destruct (q <? base); [cbn [length]; lia|].
  specialize (IHf (q / base) (q mod base :: l)). cbn [length] in IHf. lia.
Qed.

(* value of the printed digits, for any fuel *)
Lemma to_digits_value base dig chr f :
  2 <= base ->
  (forall d, d < base -> dig (chr d) = Some d) ->
  forall n acc v,
    Forall (fun d => d < base) (to_digits base f n acc) ->
    parse_digits base dig (map chr (to_digits base f n acc)) v =
    parse_digits base dig (map chr acc) (v * base ^ N.of_nat (length (to_digits base f n acc) - length acc) + n).
Proof.
  intros Hb2 Hd. induction f as [|f IH]; intros n acc v Hall.
  - cbn [to_digits] in *. cbn [map parse_digits length].
    inversion Hall as [|? ? Hn _]; subst.
    rewrite (Hd n Hn).
    replace (S (length acc) - length acc)%nat with 1%nat by lia.
    f_equal. change (N.of_nat 1) with 1. rewrite N.pow_1_r. reflexivity.
  - cbn [to_digits] in *. destruct (n <? base) eqn:E.
    + cbn [map parse_digits length].
      inversion Hall as [|? ? Hn _]; subst.
      rewrite (Hd n Hn).
      replace (S (length acc) - length acc)%nat with 1%nat by lia.
      f_equal. change (N.of_nat 1) with 1. rewrite N.pow_1_r. reflexivity.
    + rewrite (IH _ _ v Hall). cbn [map parse_digits].
      assert (Hm : n mod base < base).
      { apply N.mod_lt. lia. }
      rewrite (Hd _ Hm). f_equal.
      pose proof (to_digits_length_ge base f (n / base) (n mod base :: acc)) as Hlen.
      cbn [length] in *.
      set (L := length (to_digits base f (n / base) (n mod base :: acc))) in *.
      replace (N.of_nat (L - length acc)) with (N.succ (N.of_nat (L - S (length acc)))) by lia.
      rewrite N.pow_succ_r'.
      assert (Hb : base <> 0) by lia.
      pose proof (N.div_mod n base Hb) as Hdm.
      nia.
Qed.

Lemma to_digits_small base f : 2 <= base ->
  forall n acc, n < base ^ N.of_nat (S f) -> Forall (fun d => d < base) acc ->
                Forall (fun d => d < base) (to_digits base f n acc).
Proof.
  intros Hb. induction f as [|f IH]; intros n acc Hn Hacc; cbn [to_digits].
  - constructor; [|assumption]. change (N.of_nat 1) with 1 in Hn. rewrite N.pow_1_r in Hn. exact Hn.
  - destruct (n <? base) eqn:E.
    + constructor; [apply N.ltb_lt; exact E|assumption].
    + apply IH.
      * apply N.div_lt_upper_bound; [lia|].
        replace (N.of_nat (S (S f))) with (N.succ (N.of_nat (S f))) in Hn by lia.
        rewrite N.pow_succ_r' in Hn. exact Hn.
      * constructor; [apply N.mod_lt; lia|assumption].
Qed.

Lemma to_digits_nonempty base f n acc : to_digits base f n acc <> [].
Proof.
  revert n acc; induction f as [|f IH]; intros n acc; cbn [to_digits]; [discriminate|].
  destruct (n <? base); [discriminate|apply IH].
Qed.

Lemma digits_of_small base n : 2 <= base -> Forall (fun d => d < base) (digits_of base n).
Proof.
  intros Hb. unfold digits_of. apply to_digits_small; [assumption| |constructor].
  rewrite Nat2N.inj_succ, N2Nat.id.
  pose proof (N.size_gt n) as Hs.
  assert (2 ^ N.size n <= base ^ N.size n) by (apply N.pow_le_mono_l; exact Hb).
  assert (base ^ N.size n <= base ^ N.succ (N.size n)) by (apply N.pow_le_mono_r; lia).
  lia.
Qed.

Section Radix.
  Variables (base : N) (dig : N -> option N) (chr : N -> N).
  Hypothesis base_ge : 2 <= base.
  Hypothesis dig_chr : forall d, d < base -> dig (chr d) = Some d.

  Lemma parse_print n : parse_num base dig (map chr (digits_of base n)) = Some n.
  Proof.
    unfold parse_num.
    destruct (map chr (digits_of base n)) eqn:E.
    - apply map_eq_nil in E. unfold digits_of in E. exfalso. exact (to_digits_nonempty _ _ _ _ E).
    - rewrite <- E. unfold digits_of.
      rewrite (to_digits_value base dig chr _ base_ge dig_chr n [] 0).
      + cbn [map parse_digits]. f_equal.
      + apply digits_of_small; assumption.
  Qed.
End Radix.

Lemma dec_digit_char d : d < 10 -> dec_digit (dec_char d) = Some d.
Proof.
  intros H. unfold dec_digit, dec_char.
  assert (E : (48 <=? 48 + d) && (48 + d <=? 57) = true).
  { apply andb_true_intro; split; apply N.leb_le; lia. }
  rewrite E. f_equal. lia.
Qed.

Lemma hex_digit_char d : d < 16 -> hex_digit (hex_char d) = Some d.
Proof.
  intros H. unfold hex_digit, hex_char.
  destruct (d <? 10) eqn:E.
  - apply N.ltb_lt in E.
    assert (E1 : (48 <=? 48 + d) && (48 + d <=? 57) = true).
    { apply andb_true_intro; split; apply N.leb_le; lia. }
    rewrite E1. f_equal. lia.
  - apply N.ltb_ge in E.
    assert (E1 : (48 <=? 87 + d) && (87 + d <=? 57) = false).
    { apply andb_false_intro2. apply N.leb_gt. lia. }
    assert (E2 : (97 <=? 87 + d) && (87 + d <=? 102) = true).
    { apply andb_true_intro; split; apply N.leb_le; lia. }
    rewrite E1, E2. f_equal. lia.
Qed.

Theorem parse_print_dec n : parse_dec (print_dec n) = Some n.
Proof. apply parse_print; [lia|exact dec_digit_char]. Qed.
Theorem parse_print_hex n : parse_hex (print_hex n) = Some n.
Proof. apply parse_print; [lia|exact hex_digit_char]. Qed.

(* printed numbers contain only digit characters: in particular no "\n", ",", and
   they are not "ERR"/"END" *)
Definition is_dec_char (c : N) : bool := (48 <=? c) && (c <=? 57).
Definition is_hex_char (c : N) : bool := is_dec_char c || ((97 <=? c) && (c <=? 102)).

Lemma print_dec_chars n : forallb is_dec_char (print_dec n) = true.
Proof.
  unfold print_dec. apply forallb_forall. intros c Hc. apply in_map_iff in Hc.
  destruct Hc as [d [<- Hd]].
  pose proof (digits_of_small 10 n ltac:(lia)) as Hall.
  rewrite Forall_forall in Hall. specialize (Hall d Hd).
  unfold is_dec_char, dec_char. apply andb_true_intro; split; apply N.leb_le; lia.
Qed.

Lemma print_hex_chars n : forallb is_hex_char (print_hex n) = true.
Proof.
  unfold print_hex. apply forallb_forall. intros c Hc. apply in_map_iff in Hc.
  destruct Hc as [d [<- Hd]].
  pose proof (digits_of_small 16 n ltac:(lia)) as Hall.
  rewrite Forall_forall in Hall. specialize (Hall d Hd).
  unfold is_hex_char, is_dec_char, hex_char.
  destruct (d <? 10) eqn:E.
  - apply N.ltb_lt in E. apply orb_true_intro; left.
    apply andb_true_intro; split; apply N.leb_le; lia.
  - apply N.ltb_ge in E. apply orb_true_intro; right.
    apply andb_true_intro; split; apply N.leb_le; lia.
Qed.

Lemma print_dec_nonempty n : print_dec n <> [].
Proof.
  unfold print_dec, digits_of. intros E. apply map_eq_nil in E. exact (to_digits_nonempty _ _ _ _ E).
Qed.
Lemma print_hex_nonempty n : print_hex n <> [].
Proof.
  unfold print_hex, digits_of. intros E. apply map_eq_nil in E. exact (to_digits_nonempty _ _ _ _ E).
Qed.

(* ---------------------------------------------------------- find_byte *)

Lemma find_byte_app_some b s l r t :
  find_byte b s = Some (l, r) -> find_byte b (s ++ t) = Some (l, r ++ t).
Proof.
  revert l r; induction s as [|c s IH]; intros l r H; cbn [find_byte app] in *; [discriminate|].
  destruct (c =? b); [inversion H; reflexivity|].
  destruct (find_byte b s) as [[l' r']|]; [|discriminate].
  inversion H; subst. rewrite (IH _ _ eq_refl). reflexivity.
Qed.

Lemma find_byte_none_app b s t :
  find_byte b s = None ->
  find_byte b (s ++ t) = match find_byte b t with Some (l, r) => Some (s ++ l, r) | None => None end.
Proof.
  induction s as [|c s IH]; intros H; cbn [find_byte app] in *.
  - destruct (find_byte b t) as [[l r]|]; reflexivity.
  - destruct (c =? b); [discriminate|].
    destruct (find_byte b s) as [[l' r']|]; [discriminate|].
    rewrite (IH eq_refl). destruct (find_byte b t) as [[l r]|]; reflexivity.
Qed.

Lemma find_byte_absent b s : memb b s = false -> find_byte b s = None.
Proof.
  unfold memb. induction s as [|c s IH]; intros H; cbn [find_byte existsb] in *; [reflexivity|].
  apply orb_false_elim in H. destruct H as [H1 H2].
  rewrite N.eqb_sym, H1, (IH H2). reflexivity.
Qed.

(* the first occurrence: a prefix without b, then b *)
Lemma find_byte_first b s t : memb b s = false -> find_byte b (s ++ b :: t) = Some (s, t).
Proof.
  intros H. rewrite (find_byte_none_app _ _ _ (find_byte_absent _ _ H)).
  cbn [find_byte]. rewrite N.eqb_refl, app_nil_r. reflexivity.
Qed.

Lemma find_byte_length b s l r : find_byte b s = Some (l, r) -> length s = S (length l + length r).
Proof.
  revert l r; induction s as [|c s IH]; intros l r H; cbn [find_byte] in H; [discriminate|].
  destruct (c =? b); [inversion H; subst; reflexivity|].
  destruct (find_byte b s) as [[l' r']|]; [|discriminate].
  inversion H; subst. cbn [length]. rewrite (IH _ _ eq_refl). reflexivity.
Qed.

Lemma memb_forallb_false b (p : N -> bool) s :
  p b = false -> forallb p s = true -> memb b s = false.
Proof.
  intros Hb. unfold memb. induction s as [|c s IH]; intros H; cbn [forallb existsb] in *; [reflexivity|].
  apply andb_prop in H. destruct H as [H1 H2].
  rewrite (IH H2), orb_false_r. destruct (b =? c) eqn:E; [|reflexivity].
  apply N.eqb_eq in E. subst. congruence.
Qed.

Lemma print_dec_no b n : is_dec_char b = false -> memb b (print_dec n) = false.
Proof. intros H. exact (memb_forallb_false b _ _ H (print_dec_chars n)). Qed.
Lemma print_hex_no b n : is_hex_char b = false -> memb b (print_hex n) = false.
Proof. intros H. exact (memb_forallb_false b _ _ H (print_hex_chars n)). Qed.

(* ---------------------------------------------------------------- be32 *)

Ltac Zify.zify_post_hook ::= Z.to_euclidean_division_equations.

Lemma be32_roundtrip n : n < 4294967296 -> be32_dec (be32_enc n) = n.
Proof. intros H. unfold be32_enc, be32_dec. lia. Qed.

Lemma be32_length n : length (be32_enc n) = 4%nat.
Proof. reflexivity. Qed.
