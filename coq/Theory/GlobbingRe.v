(* Theory/GlobbingRe.v -- the regex layer of Model/Globbing.v:
   - a match consumes a prefix of the input                         (M_suffix)
   - the executable backtracking matcher computes exactly [M]       (run_correct; the fuel
     [length w] of the star loop suffices)
   - the model's engine satisfies the alternation contract          (bt_some, bt_none) *)
From Coq Require Import NArith List Bool Arith Relations Lia.
From BV Require Import Model.Globbing.
Import ListNotations.
Local Open Scope N_scope.

Lemma M_suffix : forall r s w w', M r s w w' -> exists p, w = p ++ w'.
Proof.
  induction r as [|e c| |neg body|a IHa b IHb|a IHa|a IHa|a IHa|a IHa|a IHa|]; simpl; intros s w w' H.
  - subst; exists []; reflexivity.
  - subst; exists [c]; reflexivity.
  - destruct H as (c & -> & _); exists [c]; reflexivity.
  - destruct H as (c & -> & _); exists [c]; reflexivity.
  - destruct H as (w1 & H1 & H2).
    destruct (IHa _ _ _ H1) as (p1 & ->). destruct (IHb _ _ _ H2) as (p2 & ->).
    exists (p1 ++ p2). rewrite app_assoc; reflexivity.
  - induction H as [x|x y z Hxy Hyz IH].
    + exists []; reflexivity.
    + destruct (IHa _ _ _ Hxy) as (p1 & ->). destruct IH as (p2 & ->).
      exists (p1 ++ p2). rewrite app_assoc; reflexivity.
  - destruct H as [H| ->]; [eapply IHa; exact H | exists []; reflexivity].
  - destruct H as [-> _]; exists []; reflexivity.
  - eapply IHa; exact H.
  - eapply IHa; exact H.
  - destruct H as [-> _]; exists []; reflexivity.
Qed.

Lemma app_same_length_nil : forall (p w : str), length (p ++ w) = length w -> p = [].
Proof.
  intros p w H. rewrite app_length in H. destruct p; [reflexivity|simpl in H; lia].
Qed.

Lemma star_run_sound (f : str -> list str) (R : str -> str -> Prop) :
  (forall w w', In w' (f w) -> R w w') ->
  forall fuel w w', In w' (star_run f fuel w) -> clos_refl_trans_1n str R w w'.
Proof.
  intros Hf. induction fuel as [|n IH]; simpl; intros w w' Hin.
  - destruct Hin as [<-|[]]. constructor.
  - apply in_app_or in Hin. destruct Hin as [Hin|[<-|[]]]; [|constructor].
    apply in_flat_map in Hin. destruct Hin as (w1 & Hw1 & Hin).
    destruct (Nat.ltb (length w1) (length w)); [|destruct Hin].
    eapply Relation_Operators.rt1n_trans; [apply Hf; exact Hw1 | apply IH; exact Hin].
Qed.

Lemma star_run_complete (f : str -> list str) (R : str -> str -> Prop) :
  (forall w w', R w w' -> In w' (f w)) ->
  (forall w w', R w w' -> exists p, w = p ++ w') ->
  forall w w', clos_refl_trans_1n str R w w' ->
  forall fuel, (length w <= fuel)%nat -> In w' (star_run f fuel w).
Proof.
  intros Hf Hsuf w w' Hc.
  induction Hc as [x|x y z Hxy Hyz IH]; intros fuel Hfuel.
  - destruct fuel; simpl; [left; reflexivity|apply in_or_app; right; left; reflexivity].
  - destruct (Hsuf _ _ Hxy) as (p & Hp).
    destruct p as [|c p].
    + simpl in Hp. subst y. apply IH; exact Hfuel.
    + assert (Hlt : (length y < length x)%nat) by (subst x; simpl; rewrite app_length; lia).
      destruct fuel as [|n]; [lia|]. simpl.
      apply in_or_app; left. apply in_flat_map. exists y. split; [apply Hf; exact Hxy|].
      apply Nat.ltb_lt in Hlt. rewrite Hlt. apply IH. apply Nat.ltb_lt in Hlt. lia.
Qed.

Lemma eol_ok_iff w : eol_ok w = true <-> w = [].
Proof. unfold eol_ok. destruct w; split; congruence. Qed.

Theorem run_correct : forall r s w w', In w' (run r s w) <-> M r s w w'.
Proof.
  induction r as [|e c| |neg body|a IHa b IHb|a IHa|a IHa|a IHa|a IHa|a IHa|]; intros s w w'; simpl.
  - split; [intros [<-|[]]; reflexivity | intros ->; left; reflexivity].
  - destruct w as [|x w0]; [split; [intros []|discriminate]|].
    destruct (N.eqb_spec x c) as [->|Hne].
    + split; [intros [<-|[]]; reflexivity | intros H; injection H as <-; left; reflexivity].
    + split; [intros []|intros H; injection H as H1 H2; congruence].
  - destruct w as [|x w0]; [split; [intros []|intros (c & H & _); discriminate]|].
    destruct (s || negb (x =? cNL)) eqn:E.
    + split; [intros [<-|[]]; exists x; split; [reflexivity|exact E]
             |intros (c & H & Hc); injection H as <- <-; left; reflexivity].
    + split; [intros []|intros (c & H & Hc)]. injection H as <- <-. congruence.
  - destruct w as [|x w0]; [split; [intros []|intros (c & H & _); discriminate]|].
    destruct (set_mem neg body x) eqn:E.
    + split; [intros [<-|[]]; exists x; split; [reflexivity|exact E]
             |intros (c & H & Hc); injection H as <- <-; left; reflexivity].
    + split; [intros []|intros (c & H & Hc)]. injection H as <- <-. congruence.
  - rewrite in_flat_map. split.
    + intros (w1 & H1 & H2). exists w1. split; [apply IHa; exact H1|apply IHb; exact H2].
    + intros (w1 & H1 & H2). exists w1. split; [apply IHa; exact H1|apply IHb; exact H2].
  - split.
    + apply star_run_sound. intros x y Hxy. apply IHa; exact Hxy.
    + intros Hc. eapply star_run_complete; [| |exact Hc|apply le_n].
      * intros x y Hxy. apply IHa; exact Hxy.
      * intros x y Hxy. eapply M_suffix; exact Hxy.
  - rewrite in_app_iff. split.
    + intros [H|[<-|[]]]; [left; apply IHa; exact H|right; reflexivity].
    + intros [H| ->]; [left; apply IHa; exact H|right; left; reflexivity].
  - destruct (run a s w) as [|y l] eqn:E.
    + split.
      * intros [<-|[]]. split; [reflexivity|]. intros (w2 & H2). apply IHa in H2. rewrite E in H2. exact H2.
      * intros [-> _]. left; reflexivity.
    + split; [intros []|]. intros [_ Hn]. apply Hn. exists y. apply IHa. rewrite E. left; reflexivity.
  - apply IHa.
  - apply IHa.
  - pose proof (eol_ok_iff w) as He. destruct (eol_ok w).
    + split; [intros [<-|[]]; split; [reflexivity|apply He; reflexivity]|intros [-> _]; left; reflexivity].
    + split; [intros []|]. intros [_ H]. apply He in H. discriminate.
Qed.

(* ------------------------------------------------------------------ *)
(* [hit] unfolded *)

Lemma hit_iff pre a w :
  hit pre a w <-> exists w1, M pre false w w1 /\ M a false w1 [].
Proof.
  unfold hit; simpl. split.
  - intros (w' & w1 & H1 & w2 & H2 & -> & ->). exists w1. auto.
  - intros (w1 & H1 & H2). exists [], w1. split; [exact H1|]. exists []. auto.
Qed.


(* ------------------------------------------------------------------ *)
(* first_some, first_alt, the engine contract for the model's matcher *)

Lemma first_some_split {A B} (f : A -> option B) l y :
  first_some f l = Some y ->
  exists l1 x l2, l = l1 ++ x :: l2 /\ f x = Some y /\ forall z, In z l1 -> f z = None.
Proof.
  induction l as [|x l IH]; simpl; [discriminate|].
  destruct (f x) eqn:E.
  - intros H; injection H as ->. exists [], x, l. split; [reflexivity|]. split; [exact E|intros z []].
  - intros H. destruct (IH H) as (l1 & x0 & l2 & -> & Hx & Hn).
    exists (x :: l1), x0, l2. split; [reflexivity|]. split; [exact Hx|].
    intros z [<-|Hz]; [exact E|apply Hn; exact Hz].
Qed.

Lemma first_some_none {A B} (f : A -> option B) l :
  first_some f l = None <-> forall x, In x l -> f x = None.
Proof.
  induction l as [|x l IH]; simpl.
  - split; [intros _ x []|reflexivity].
  - destruct (f x) eqn:E.
    + split; [discriminate|]. intros H. rewrite <- E. apply H. left; reflexivity.
    + rewrite IH. split.
      * intros H z [<-|Hz]; [exact E|apply H; exact Hz].
      * intros H z Hz. apply H. right; exact Hz.
Qed.

Lemma first_alt_some alts : forall i w1 li,
  first_alt alts i w1 = Some li ->
  exists j a, li = S (i + j) /\ nth_error alts j = Some a /\ existsb eol_ok (run a false w1) = true.
Proof.
  induction alts as [|a t IH]; simpl; intros i w1 li H; [discriminate|].
  destruct (existsb eol_ok (run a false w1)) eqn:E.
  - injection H as <-. exists 0%nat, a. rewrite Nat.add_0_r. auto.
  - destruct (IH _ _ _ H) as (j & a' & -> & Hn & He).
    exists (S j), a'. split; [f_equal; lia|]. auto.
Qed.

Lemma first_alt_none alts : forall i w1,
  first_alt alts i w1 = None -> forall a, In a alts -> existsb eol_ok (run a false w1) = false.
Proof.
  induction alts as [|a t IH]; simpl; intros i w1 H a' Hin; [destruct Hin|].
  destruct (existsb eol_ok (run a false w1)) eqn:E; [discriminate|].
  destruct Hin as [<-|Hin]; [exact E|eapply IH; eassumption].
Qed.

Lemma alt_hit pre a w w1 :
  M pre false w w1 -> existsb eol_ok (run a false w1) = true -> hit pre a w.
Proof.
  intros H1 He. apply existsb_exists in He. destruct He as (w2 & Hin & Hok).
  apply eol_ok_iff in Hok. subst w2.
  apply hit_iff. exists w1. split; [exact H1|apply run_correct; exact Hin].
Qed.

(* lastindex designates an alternative whose single-pattern regex matches *)
Theorem bt_some pre alts w li :
  bt_lastindex pre alts w = Some li ->
  (1 <= li)%nat /\ exists a, nth_error alts (li - 1) = Some a /\ hit pre a w.
Proof.
  unfold bt_lastindex. intros H.
  destruct (first_some_split _ _ _ H) as (l1 & w1 & l2 & Hl & Hf & _).
  destruct (first_alt_some _ _ _ _ Hf) as (j & a & -> & Hn & He).
  split; [lia|]. exists a. split; [replace (S (0 + j) - 1)%nat with j by lia; exact Hn|].
  eapply alt_hit; [|exact He]. apply run_correct. rewrite Hl. apply in_or_app; right; left; reflexivity.
Qed.

(* no match of the joined regex: no alternative matches on its own *)
Theorem bt_none pre alts w :
  bt_lastindex pre alts w = None -> forall a, In a alts -> ~ hit pre a w.
Proof.
  unfold bt_lastindex. intros H a Hin Hh.
  apply hit_iff in Hh. destruct Hh as (w1 & H1 & H2).
  rewrite first_some_none in H. specialize (H w1 (proj2 (run_correct _ _ _ _) H1)).
  pose proof (first_alt_none _ _ _ H a Hin) as Hf.
  assert (Ht : existsb eol_ok (run a false w1) = true).
  { apply existsb_exists. exists []. split; [apply run_correct; exact H2|reflexivity]. }
  congruence.
Qed.

(* and conversely: if some alternative matches on its own, the joined regex matches *)
Corollary bt_complete pre alts w a :
  In a alts -> hit pre a w -> exists li, bt_lastindex pre alts w = Some li.
Proof.
  intros Hin Hh. destruct (bt_lastindex pre alts w) as [li|] eqn:E; [exists li; reflexivity|].
  exfalso. eapply bt_none; eassumption.
Qed.
