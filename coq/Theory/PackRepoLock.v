(* Theory/PackRepoLock.v -- C28 for the hand model of PackRepository's lock counting
   (Model/ReentrantRun.v: pr_step). *)
From Coq Require Import ZArith List String Bool Lia.
From BV Require Import Lib.Obs Lib.PyImp Model.ReentrantRun.
Import ListNotations.
Open Scope Z_scope.

Definition pr_inv (s : prs) : Prop := 0 <= wlc s /\ 0 <= cfc s /\ (0 < wlc s -> cfc s = 0).

Fixpoint pr_steps (ops : list op) (s : prs) (evs : list string) : prs * list string :=
  match ops with
  | [] => (s, evs)
  | o :: ops' => let '(s', _, ev) := pr_step o s in pr_steps ops' s' (evs ++ ev)
  end.

Definition pr_balance (evs : list string) : Z :=
  fold_right (fun e acc => (if String.eqb e "lock_read" then 1 else 0)
                           - (if String.eqb e "unlock" then 1 else 0) + acc) 0 evs.

Lemma pr_balance_app a b : pr_balance (a ++ b) = pr_balance a + pr_balance b.
Proof. unfold pr_balance. induction a as [|e a IH]; cbn [fold_right app]; lia. Qed.

Definition held01 (c : Z) : Z := if c =? 0 then 0 else 1.

Ltac zcases :=
  repeat match goal with
         | |- context[Z.eqb ?x ?y] => destruct (Z.eqb_spec x y)
         | |- context[Z.leb ?x ?y] => destruct (Z.leb_spec x y)
         end.

Lemma pr_step_inv o s :
  pr_inv s ->
  let '(s', _, ev) := pr_step o s in
  pr_inv s' /\ pr_balance ev = held01 (cfc s') - held01 (cfc s).
Proof.
  intros (Hw & Hc & Hx). destruct s as [w c]. cbn [wlc cfc] in *.
  unfold pr_inv, held01.
  destruct o as [|tok|]; unfold pr_step, pr_locked; cbn [wlc cfc]; zcases;
    cbn [negb andb orb wlc cfc pr_balance fold_right String.eqb Ascii.eqb Bool.eqb]; zcases;
    repeat split; try lia.
Qed.

(* any call sequence: control_files' physical lock is held exactly while its count is positive;
   a repository write lock (wlc) never touches it *)
Theorem pr_physical_iff_counted ops : forall s evs,
  pr_inv s -> pr_balance evs = held01 (cfc s) ->
  let '(s', evs') := pr_steps ops s evs in
  pr_inv s' /\ pr_balance evs' = held01 (cfc s').
Proof.
  induction ops as [|o ops IH]; intros s evs HI Hb; cbn [pr_steps]; [split; assumption|].
  pose proof (pr_step_inv o s HI) as H. destruct (pr_step o s) as [[s' out] ev].
  destruct H as [HI' Hev]. apply IH; [exact HI'|]. rewrite pr_balance_app. lia.
Qed.

Lemma pr_write_after_read_refused w c tok :
  w = 0 -> 1 <= c ->
  pr_step (LockWrite tok) {| wlc := w; cfc := c |} = ({| wlc := w; cfc := c |}, PrErr "ReadOnlyError", []).
Proof.
  intros -> Hc. unfold pr_step, pr_locked. cbn [wlc cfc].
  destruct (Z.leb_spec 1 c); [reflexivity|lia].
Qed.

Lemma pr_over_unlock_refused :
  pr_step Unlock {| wlc := 0; cfc := 0 |} = ({| wlc := 0; cfc := 0 |}, PrErr "LockNotHeld", []).
Proof. reflexivity. Qed.

Lemma pr_write_lock_no_physical w c tok s' out ev :
  pr_step (LockWrite tok) {| wlc := w; cfc := c |} = (s', out, ev) -> ev = [].
Proof.
  unfold pr_step. destruct (_ && _); intros H; injection H as _ _ H; symmetry; exact H.
Qed.
