(* Theory/Upgrade52.v -- C52: the upgrade driver of Model/Upgrade52.v.
   - whatever the driver does (finish or refuse), the payload is what it was: revisions, tree
     parents and changes, branch tip/parent/bound/push location; tags too unless a format-5 branch
     is converted (Converter5to6 starts with no tags -- format 5 has none);
   - when it finishes, the directory is in the target format;
   - on every combination of known formats it finishes (after the repairs e09d9b1 and 69d43de;
     before them a colo target and a lowered tree format made the loop of Convert.convert run
     for ever). *)
From Coq Require Import List Bool Arith String Lia.
Import ListNotations.
From BV Require Import Lib.Obs Model.Upgrade52.
Open Scope string_scope.
Open Scope nat_scope.
Open Scope list_scope.

(* ---- payload preservation ------------------------------------------------------------------ *)

Definition branch_rel (a b : option (nat * bpay)) : Prop :=
  match a, b with
  | None, None => True
  | Some (fa, pa), Some (fb, pb) =>
      bp_tip pb = bp_tip pa /\ bp_parent pb = bp_parent pa /\ bp_bound pb = bp_bound pa
      /\ bp_push pb = bp_push pa
      /\ (fa <> 5 -> fb <> 5 /\ pb = pa)
      /\ (bp_tags pa = [] -> bp_tags pb = [])
  | _, _ => False
  end.

Definition payload_rel (d d' : cdir) : Prop :=
  option_map snd (c_repo d') = option_map snd (c_repo d)
  /\ option_map snd (c_tree d') = option_map snd (c_tree d)
  /\ branch_rel (c_branch d) (c_branch d').

Lemma branch_rel_refl a : branch_rel a a.
Proof. destruct a as [[f p]|]; cbn; auto 10. Qed.

Lemma branch_rel_trans a b c : branch_rel a b -> branch_rel b c -> branch_rel a c.
Proof.
  destruct a as [[fa pa]|], b as [[fb pb]|], c as [[fc pc]|]; cbn; try tauto.
  intros (A1 & A2 & A3 & A4 & A5 & A6) (B1 & B2 & B3 & B4 & B5 & B6).
  split; [congruence|]. split; [congruence|]. split; [congruence|]. split; [congruence|]. split.
  - intros H. destruct (A5 H) as [X ->]. destruct (B5 X) as [Y ->]. auto.
  - auto.
Qed.

Lemma payload_rel_refl d : payload_rel d d.
Proof. split; [reflexivity|]. split; [reflexivity|]. apply branch_rel_refl. Qed.

Lemma payload_rel_trans a b c : payload_rel a b -> payload_rel b c -> payload_rel a c.
Proof.
  intros (A1 & A2 & A3) (B1 & B2 & B3). split; [congruence|]. split; [congruence|].
  eapply branch_rel_trans; eauto.
Qed.

Lemma branch_step_rel old new p o' p' :
  branch_step old new p = Some (o', p') -> branch_rel (Some (old, p)) (Some (o', p')).
Proof.
  unfold branch_step.
  destruct ((old =? 5) && ((new =? 6) || (new =? 7) || (new =? 8))) eqn:E1.
  - intros H. injection H as <- <-. apply andb_prop in E1 as [E1 _]. apply Nat.eqb_eq in E1. subst old.
    cbn. split; [reflexivity|]. split; [reflexivity|]. split; [reflexivity|]. split; [reflexivity|].
    split; [intros Hn; contradiction|reflexivity].
  - destruct ((old =? 6) && ((new =? 7) || (new =? 8))) eqn:E2.
    + intros H. injection H as <- <-. cbn. split; [reflexivity|]. split; [reflexivity|]. split; [reflexivity|].
      split; [reflexivity|]. split; [intros _; split; [discriminate|reflexivity]|auto].
    + destruct ((old =? 7) && (new =? 8)) eqn:E3; [|discriminate].
      intros H. injection H as <- <-. cbn. split; [reflexivity|]. split; [reflexivity|]. split; [reflexivity|].
      split; [reflexivity|]. split; [intros _; split; [discriminate|reflexivity]|auto].
Qed.

Lemma branch_chain_rel : forall fuel old new p o' p',
  branch_chain fuel old new p = Some (o', p') -> branch_rel (Some (old, p)) (Some (o', p')).
Proof.
  induction fuel as [|k IH]; intros old new p o' p'; cbn [branch_chain].
  - destruct (old =? new); [|discriminate]. intros H. injection H as <- <-. exact (branch_rel_refl (Some (old, p))).
  - destruct (old =? new); [intros H; injection H as <- <-; exact (branch_rel_refl (Some (old, p)))|].
    destruct (branch_step old new p) as [[o1 p1]|] eqn:Es; [|discriminate].
    intros H. eapply branch_rel_trans; [eapply branch_step_rel; exact Es|eapply IH; exact H].
Qed.

Lemma meta_to_meta_rel d f : payload_rel d (fst (meta_to_meta d f)).
Proof.
  unfold meta_to_meta, payload_rel.
  destruct (c_repo d) as [[r revs]|]; destruct (c_branch d) as [[b p]|] eqn:Eb;
    try destruct (branch_chain 3 b (tg_branch f) p) as [[b' p']|] eqn:Ec;
    destruct (c_tree d) as [[t tp]|] eqn:Et; try destruct (tree_convert t (tg_tree f));
    cbn [fst c_repo c_tree c_branch option_map snd];
    try destruct (rf_id r =? rf_id (tg_repo f)); cbn [option_map snd]; rewrite ?Eb, ?Et; cbn [option_map snd];
    (split; [reflexivity|split; [reflexivity|]]);
    first [ exact (branch_chain_rel _ _ _ _ _ _ Ec) | exact (branch_rel_refl _) ].
Qed.

Lemma meta_to_colo_rel d f : payload_rel d (meta_to_colo d f).
Proof. split; [reflexivity|]. split; [reflexivity|]. apply branch_rel_refl. Qed.

Lemma convert_loop_rel : forall fuel d f, payload_rel d (cdir_of (convert_loop fuel d f)).
Proof.
  induction fuel as [|k IH]; intros d f; cbn.
  - destruct (needs_conv d f); apply payload_rel_refl.
  - destruct (needs_conv d f); [|apply payload_rel_refl].
    destruct (get_converter d f).
    + eapply payload_rel_trans; [apply meta_to_colo_rel|apply IH].
    + pose proof (meta_to_meta_rel d f) as M. destruct (meta_to_meta d f) as [d' []]; cbn in *; [exact M|].
      eapply payload_rel_trans; [exact M|apply IH].
Qed.

Theorem upgrade_preserves d f : payload_rel d (cdir_of (convert d f)).
Proof.
  unfold convert. destruct (negb (needs_conv d f)); [apply payload_rel_refl|].
  destruct (check_target d f); [apply payload_rel_refl|].
  eapply payload_rel_trans; [|apply convert_loop_rel].
  split; [reflexivity|]. split; [reflexivity|]. apply branch_rel_refl.
Qed.

(* ---- when the driver finishes, the format is the target's ----------------------------------- *)

Lemma convert_loop_done : forall fuel d f d', convert_loop fuel d f = Done d' -> needs_conv d' f = false.
Proof.
  induction fuel as [|k IH]; intros d f d'; cbn.
  - destruct (needs_conv d f) eqn:E; [discriminate|]. intros H. injection H as <-. exact E.
  - destruct (needs_conv d f) eqn:E; [|intros H; injection H as <-; exact E].
    destruct (get_converter d f); [apply IH|].
    destruct (meta_to_meta d f) as [d1 []]; [discriminate|apply IH].
Qed.

Theorem upgrade_reaches_format d f d' : convert d f = Done d' -> needs_conv d' f = false.
Proof.
  unfold convert. destruct (negb (needs_conv d f)); [discriminate|].
  destruct (check_target d f); [discriminate|]. apply convert_loop_done.
Qed.

(* ---- termination -------------------------------------------------------------------------------- *)

(* the metadir flavour is switched at most once: afterwards get_converter answers ConvertMetaToMeta *)
Lemma colo_switched_once d f : get_converter (meta_to_colo d f) f = false.
Proof. unfold get_converter, meta_to_colo. cbn. destruct (tg_colo f); reflexivity. Qed.

Lemma meta_keeps_colo d f : c_colo (fst (meta_to_meta d f)) = c_colo d.
Proof.
  unfold meta_to_meta.
  destruct (c_branch d) as [[b p]|]; try destruct (branch_chain 3 b (tg_branch f) p);
    destruct (c_tree d) as [[t tp]|]; try destruct (tree_convert t (tg_tree f)); reflexivity.
Qed.

(* the former witnesses of divergence (corpus of harness/props/c52.py) now finish:
   1.14-rich-root -> development-colo converts, 1.14 -> 1.9 (tree format 5 -> 4) is refused *)
Definition w_colo_src : cdir :=
  mkCD false (Some (mkRF 8 true false, [1; 2])) (Some (7, mkBP 2 [] None None None)) (Some (5, mkTP [2] [])) false.
Definition w_colo_tgt : tfmt := mkTF true (mkRF 9 true true) 7 6.
Definition w_down_src : cdir :=
  mkCD false (Some (mkRF 7 false false, [1; 2])) (Some (7, mkBP 2 [] None None None)) (Some (5, mkTP [2] [])) false.
Definition w_down_tgt : tfmt := mkTF false (mkRF 7 false false) 7 4.

Example former_hang_witnesses_finish :
  convert w_colo_src w_colo_tgt
  = Done (mkCD true (Some (mkRF 9 true true, [1; 2])) (Some (7, mkBP 2 [] None None None)) (Some (6, mkTP [2] [])) true)
  /\ convert w_down_src w_down_tgt
     = Raised "BadConversionTarget"
              (mkCD false (Some (mkRF 7 false false, [1; 2])) (Some (7, mkBP 2 [] None None None)) (Some (5, mkTP [2] [])) true).
Proof. split; vm_compute; reflexivity. Qed.

Definition finishes (o : outcome) : bool := match o with Hangs _ => false | _ => true end.

(* Every combination of formats (the behaviour of the driver does not look at the payload; this
   independence is NOT proved, hence _partial): colo or not; no repository or one of either class
   with every rich-root/tree-reference flag; no branch or format 5..8; no tree or format 3..6;
   every target built from the same ranges -- upgrades, downgrades and nonsense alike. *)
Definition bools := [false; true].
Definition skel_repos : list (option (rfmt * list nat)) :=
  None :: flat_map (fun rich => map (fun tr => Some (mkRF 1 rich tr, [1])) bools) bools.
Definition skel_branches : list (option (nat * bpay)) :=
  None :: map (fun b => Some (b, mkBP 1 [] None None None)) [5; 6; 7; 8].
Definition skel_trees : list (option (nat * tpay)) :=
  None :: map (fun t => Some (t, mkTP [1] [])) [3; 4; 5; 6].
Definition skel_dirs : list cdir :=
  flat_map (fun c => flat_map (fun r => flat_map (fun b => map (fun t => mkCD c r b t true) skel_trees)
                                                 skel_branches) skel_repos) bools.
Definition skel_targets : list tfmt :=
  flat_map (fun c => flat_map (fun id => flat_map (fun rich => flat_map (fun tr =>
    flat_map (fun b => map (fun t => mkTF c (mkRF id rich tr) b t) [3; 4; 5; 6]) [5; 6; 7; 8]) bools) bools) [1; 2]) bools.

Theorem upgrade_terminates_partial d f :
  In d skel_dirs -> In f skel_targets -> finishes (convert d f) = true.
Proof.
  intros Hd Hf.
  assert (H : forallb (fun d => forallb (fun f => finishes (convert d f)) skel_targets) skel_dirs = true)
    by (vm_compute; reflexivity).
  rewrite forallb_forall in H. specialize (H d Hd). rewrite forallb_forall in H. exact (H f Hf).
Qed.

(* a real upgrade: knit (branch 5, tree 3) -> 2a takes two tree passes and finishes in the target format *)
Example upgrade_knit_example :
  convert (mkCD false (Some (mkRF 1 false false, [1])) (Some (5, mkBP 1 [] None None None)) (Some (3, mkTP [1] [1])) false)
          (mkTF false (mkRF 9 true true) 7 6)
  = Done (mkCD false (Some (mkRF 9 true true, [1])) (Some (7, mkBP 1 [] None None None)) (Some (6, mkTP [1] [1])) true).
Proof. vm_compute. reflexivity. Qed.
