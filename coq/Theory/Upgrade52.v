(* Theory/Upgrade52.v -- C52: the upgrade driver of Model/Upgrade52.v.
   - whatever the driver does (finish, refuse, run out of fuel), the payload is what it was:
     revisions, tree parents and changes, branch tip/parent/bound location; tags and push location
     too unless a format-5 branch is converted (Converter5to6 resets tags -- format 5 has none --
     and stores "" as push location);
   - when it finishes, the directory is in the target format;
   - it does not always finish: two families of inputs on which the loop of Convert.convert
     provably never ends (any fuel), and a guard under which it does. *)
From Coq Require Import List Bool Arith String Lia.
Import ListNotations.
From BV Require Import Lib.Obs Model.Upgrade52.
Open Scope string_scope.
Open Scope nat_scope.
Open Scope list_scope.

(* ---- payload preservation ------------------------------------------------------------------ *)

Definition branch_rel (a b : option (nat * bpay)) : Prop :=
  match a, b with
  | None, None => True
  | Some (fa, pa), Some (fb, pb) =>
      bp_tip pb = bp_tip pa /\ bp_parent pb = bp_parent pa /\ bp_bound pb = bp_bound pa
      /\ (fa <> 5 -> fb <> 5 /\ pb = pa)
      /\ (bp_tags pa = [] -> bp_tags pb = [])
      /\ (forall l, bp_push pa = Some l -> bp_push pb = Some l)
  | _, _ => False
  end.

Definition payload_rel (d d' : cdir) : Prop :=
  option_map snd (c_repo d') = option_map snd (c_repo d)
  /\ option_map snd (c_tree d') = option_map snd (c_tree d)
  /\ branch_rel (c_branch d) (c_branch d').

Lemma branch_rel_refl a : branch_rel a a.
Proof. destruct a as [[f p]|]; cbn; auto 10. Qed.

Lemma branch_rel_trans a b c : branch_rel a b -> branch_rel b c -> branch_rel a c.
Proof.
  destruct a as [[fa pa]|], b as [[fb pb]|], c as [[fc pc]|]; cbn; try tauto.
  intros (A1 & A2 & A3 & A4 & A5 & A6) (B1 & B2 & B3 & B4 & B5 & B6).
  repeat split; try congruence.
  - destruct (A4 H) as [X _]. destruct (B4 X) as [Y _]. exact Y.
  - destruct (A4 H) as [X ->]. destruct (B4 X) as [_ ->]. reflexivity.
  - auto.
  - intros l Hl. apply B6, A6, Hl.
Qed.

Lemma payload_rel_refl d : payload_rel d d.
Proof. repeat split. apply branch_rel_refl. Qed.

Lemma payload_rel_trans a b c : payload_rel a b -> payload_rel b c -> payload_rel a c.
Proof.
  intros (A1 & A2 & A3) (B1 & B2 & B3). repeat split; try congruence.
  eapply branch_rel_trans; eauto.
Qed.

Lemma branch_step_rel old new p o' p' :
  branch_step old new p = Some (o', p') -> branch_rel (Some (old, p)) (Some (o', p')).
Proof.
  unfold branch_step.
  destruct ((old =? 5) && ((new =? 6) || (new =? 7) || (new =? 8))) eqn:E1.
  - intros H. injection H as <- <-. apply andb_prop in E1 as [E1 _]. apply Nat.eqb_eq in E1. subst old.
    cbn. split; [reflexivity|]. split; [reflexivity|]. split; [reflexivity|].
    split; [intros Hn; contradiction|]. split; [reflexivity|]. intros l ->. reflexivity.
  - destruct ((old =? 6) && ((new =? 7) || (new =? 8))) eqn:E2.
    + intros H. injection H as <- <-. cbn. split; [reflexivity|]. split; [reflexivity|]. split; [reflexivity|].
      split; [intros _; split; [discriminate|reflexivity]|]. split; auto.
    + destruct ((old =? 7) && (new =? 8)) eqn:E3; [|discriminate].
      intros H. injection H as <- <-. cbn. split; [reflexivity|]. split; [reflexivity|]. split; [reflexivity|].
      split; [intros _; split; [discriminate|reflexivity]|]. split; auto.
Qed.

Lemma branch_chain_rel : forall fuel old new p o' p',
  branch_chain fuel old new p = Some (o', p') -> branch_rel (Some (old, p)) (Some (o', p')).
Proof.
  induction fuel as [|k IH]; intros old new p o' p'; cbn [branch_chain].
  - destruct (old =? new); [|discriminate]. intros H. injection H as <- <-. exact (branch_rel_refl (Some (old, p))).
  - destruct (old =? new); [intros H; injection H as <- <-; exact (branch_rel_refl (Some (old, p)))|].
    destruct (branch_step old new p) as [[o1 p1]|] eqn:Es; [|discriminate].
    intros H. eapply branch_rel_trans; [eapply branch_step_rel; exact Es|eapply IH; exact H].
Qed.

Lemma meta_to_meta_rel d f : payload_rel d (fst (meta_to_meta d f)).
Proof.
  unfold meta_to_meta, payload_rel.
  destruct (c_repo d) as [[r revs]|]; destruct (c_branch d) as [[b p]|] eqn:Eb;
    try destruct (branch_chain 3 b (tg_branch f) p) as [[b' p']|] eqn:Ec;
    destruct (c_tree d) as [[t tp]|]; cbn [fst c_repo c_tree c_branch option_map snd];
    try destruct (rf_id r =? rf_id (tg_repo f)); cbn [option_map snd]; rewrite ?Eb;
    (split; [reflexivity|split; [reflexivity|]]);
    first [ exact (branch_chain_rel _ _ _ _ _ _ Ec) | exact (branch_rel_refl _) ].
Qed.

Lemma meta_to_colo_rel d f : payload_rel d (meta_to_colo d f).
Proof. repeat split. apply branch_rel_refl. Qed.

Lemma convert_loop_rel : forall fuel d f, payload_rel d (cdir_of (convert_loop fuel d f)).
Proof.
  induction fuel as [|k IH]; intros d f; cbn.
  - destruct (needs_conv d f); apply payload_rel_refl.
  - destruct (needs_conv d f); [|apply payload_rel_refl].
    destruct (get_converter d f).
    + eapply payload_rel_trans; [apply meta_to_colo_rel|apply IH].
    + pose proof (meta_to_meta_rel d f) as M. destruct (meta_to_meta d f) as [d' []]; cbn in *; [exact M|].
      eapply payload_rel_trans; [exact M|apply IH].
Qed.

Theorem upgrade_preserves d f : payload_rel d (cdir_of (convert d f)).
Proof.
  unfold convert. destruct (negb (needs_conv d f)); [apply payload_rel_refl|].
  destruct (check_target d f); [apply payload_rel_refl|].
  eapply payload_rel_trans; [|apply convert_loop_rel]. repeat split. apply branch_rel_refl.
Qed.

(* the part of the branch payload that Converter5to6 does NOT carry over *)
Theorem upgrade_push_location_refuted :
  exists d f p p', c_branch d = Some (5, p) /\ c_branch (cdir_of (convert d f)) = Some (7, p')
                   /\ bp_push p = None /\ bp_push p' = Some 0.
Proof.
  exists (mkCD false (Some (mkRF 1 false false, [1])) (Some (5, mkBP 1 [] None None None)) None false),
         (mkTF false (mkRF 9 true true) 7 6).
  eexists. eexists. vm_compute. repeat split.
Qed.

(* ---- when the driver finishes, the format is the target's ----------------------------------- *)

Lemma convert_loop_done : forall fuel d f d', convert_loop fuel d f = Done d' -> needs_conv d' f = false.
Proof.
  induction fuel as [|k IH]; intros d f d'; cbn.
  - destruct (needs_conv d f) eqn:E; [discriminate|]. intros H. injection H as <-. exact E.
  - destruct (needs_conv d f) eqn:E; [|intros H; injection H as <-; exact E].
    destruct (get_converter d f); [apply IH|].
    destruct (meta_to_meta d f) as [d1 []]; [discriminate|apply IH].
Qed.

Theorem upgrade_reaches_format d f d' : convert d f = Done d' -> needs_conv d' f = false.
Proof.
  unfold convert. destruct (negb (needs_conv d f)); [discriminate|].
  destruct (check_target d f); [discriminate|]. apply convert_loop_done.
Qed.

(* ---- divergence ------------------------------------------------------------------------------- *)

(* a colo target: get_converter answers ConvertMetaToColo for ever *)
Lemma colo_loop_hangs d f :
  tg_colo f = true -> c_colo d = true -> needs_conv d f = true ->
  forall fuel, convert_loop fuel d f = Hangs d.
Proof.
  intros Hf Hd Hn. induction fuel as [|k IH]; cbn; rewrite Hn; [reflexivity|].
  unfold get_converter. rewrite Hf.
  replace (meta_to_colo d f) with d; [exact IH|].
  unfold meta_to_colo. rewrite Hf, <- Hd. destruct d; reflexivity.
Qed.

Theorem upgrade_colo_diverges d f :
  tg_colo f = true -> needs_conv (meta_to_colo d f) f = true ->
  forall fuel, exists d', convert_loop fuel d f = Hangs d'.
Proof.
  intros Hf Hn fuel. destruct fuel as [|k]; cbn.
  - assert (E : needs_conv d f = true).
    { unfold needs_conv, meta_to_colo in *. cbn in Hn. rewrite Hf in *. cbn in Hn.
      destruct (c_colo d); cbn; [exact Hn|reflexivity]. }
    rewrite E. eauto.
  - assert (E : needs_conv d f = true).
    { unfold needs_conv, meta_to_colo in *. cbn in Hn. rewrite Hf in *. cbn in Hn.
      destruct (c_colo d); cbn; [exact Hn|reflexivity]. }
    rewrite E. unfold get_converter. rewrite Hf.
    rewrite (colo_loop_hangs (meta_to_colo d f) f Hf); [eauto| |exact Hn].
    unfold meta_to_colo. cbn. exact Hf.
Qed.

(* a ConvertMetaToMeta pass that changes nothing although a conversion is still needed *)
Lemma stuck_loop_hangs d f :
  get_converter d f = false -> meta_to_meta d f = (d, false) -> needs_conv d f = true ->
  forall fuel, convert_loop fuel d f = Hangs d.
Proof.
  intros Hg Hm Hn. induction fuel as [|k IH]; cbn; rewrite Hn; [reflexivity|]. rewrite Hg, Hm. exact IH.
Qed.

(* witnesses replayed on the real code (corpus of harness/props/c52.py): 1.14-rich-root -> development-colo,
   1.14 -> 1.9 (working tree format 5 -> 4) *)
Definition w_colo_src : cdir :=
  mkCD false (Some (mkRF 8 true false, [1; 2])) (Some (7, mkBP 2 [] None None None)) (Some (5, mkTP [2] [])) true.
Definition w_colo_tgt : tfmt := mkTF true (mkRF 9 true true) 7 6.
Definition w_down_src : cdir :=
  mkCD false (Some (mkRF 7 false false, [1; 2])) (Some (7, mkBP 2 [] None None None)) (Some (5, mkTP [2] [])) true.
Definition w_down_tgt : tfmt := mkTF false (mkRF 7 false false) 7 4.

Theorem upgrade_terminates_refuted :
  (forall fuel, exists d', convert_loop fuel w_colo_src w_colo_tgt = Hangs d')
  /\ (forall fuel, convert_loop fuel w_down_src w_down_tgt = Hangs w_down_src).
Proof.
  split.
  - apply upgrade_colo_diverges; reflexivity.
  - apply stuck_loop_hangs; reflexivity.
Qed.

(* ---- termination under an executable guard ---------------------------------------------------- *)

Definition in_range (lo hi x : nat) : bool := (lo <=? x) && (x <=? hi).

(* known formats; not a colo target; the working tree format is not lowered (6 -> 5 happens to work) *)
Definition upgrade_guard (d : cdir) (f : tfmt) : bool :=
  negb (tg_colo f)
  && in_range 5 8 (tg_branch f) && in_range 3 6 (tg_tree f)
  && match c_branch d with Some (b, _) => in_range 5 8 b | None => true end
  && match c_tree d with
     | Some (t, _) => in_range 3 6 t && ((t <=? tg_tree f) || ((t =? 6) && (tg_tree f =? 5)))
     | None => true
     end.

Definition finishes (o : outcome) : bool := match o with Hangs _ => false | _ => true end.

(* Every combination of formats (the behaviour of the driver does not look at the payload; this
   independence is NOT proved, hence _partial): colo or not; no repository or one of either class
   with every rich-root/tree-reference flag; no branch or format 5..8; no tree or format 3..6;
   every target built from the same ranges. *)
Definition bools := [false; true].
Definition skel_repos : list (option (rfmt * list nat)) :=
  None :: flat_map (fun rich => map (fun tr => Some (mkRF 1 rich tr, [1])) bools) bools.
Definition skel_branches : list (option (nat * bpay)) :=
  None :: map (fun b => Some (b, mkBP 1 [] None None None)) [5; 6; 7; 8].
Definition skel_trees : list (option (nat * tpay)) :=
  None :: map (fun t => Some (t, mkTP [1] [])) [3; 4; 5; 6].
Definition skel_dirs : list cdir :=
  flat_map (fun c => flat_map (fun r => flat_map (fun b => map (fun t => mkCD c r b t true) skel_trees)
                                                 skel_branches) skel_repos) bools.
Definition skel_targets : list tfmt :=
  flat_map (fun c => flat_map (fun id => flat_map (fun rich => flat_map (fun tr =>
    flat_map (fun b => map (fun t => mkTF c (mkRF id rich tr) b t) [3; 4; 5; 6]) [5; 6; 7; 8]) bools) bools) [1; 2]) bools.

Theorem upgrade_terminates_guarded_partial d f :
  In d skel_dirs -> In f skel_targets -> upgrade_guard d f = true -> finishes (convert d f) = true.
Proof.
  intros Hd Hf.
  assert (H : forallb (fun d => forallb (fun f => implb (upgrade_guard d f) (finishes (convert d f))) skel_targets)
                      skel_dirs = true) by (vm_compute; reflexivity).
  rewrite forallb_forall in H. specialize (H d Hd). rewrite forallb_forall in H. specialize (H f Hf).
  intros Hg. rewrite Hg in H. exact H.
Qed.

(* conversely, on the same domain, whenever the driver hangs the guard is false *)
Theorem upgrade_hang_iff_guard_partial d f :
  In d skel_dirs -> In f skel_targets -> in_range 5 8 (tg_branch f) = true ->
  finishes (convert d f) = false -> upgrade_guard d f = false.
Proof.
  intros Hd Hf _ Hh. destruct (upgrade_guard d f) eqn:E; [|reflexivity].
  rewrite (upgrade_terminates_guarded_partial d f Hd Hf E) in Hh. discriminate Hh.
Qed.

(* the guard is satisfiable by a real upgrade: knit (branch 5, tree 3) -> 2a *)
Example upgrade_guard_example :
  upgrade_guard (mkCD false (Some (mkRF 1 false false, [1])) (Some (5, mkBP 1 [] None None None)) (Some (3, mkTP [1] [1])) false)
                (mkTF false (mkRF 9 true true) 7 6) = true.
Proof. reflexivity. Qed.
