(* Theory/UploadRenames.v -- C43, part 3: rename_remote staging through
   temporaries followed by finish_renames realises the simultaneous renaming
   [ren_formP] (swaps, cycles, chains, directories with their content). *)
From Coq Require Import NArith List Bool Arith Lia.
From BV Require Import Lib.Bytes Lib.FS43 Model.Upload Theory.UploadMoves Theory.UploadPhases.
Import ListNotations.
Open Scope list_scope.

Definition put_of (c : change) : option (bytes * bool) :=
  if reupload c
  then Some (text_of (enode (c_new c)), exec_of (enode (c_new c)))
  else None.

Definition oldp (kc : nat * change) : path := epath (c_old (snd kc)).
Definition newp (kc : nat * change) : path := epath (c_new (snd kc)).
Definition stageP (kc : nat * change) : mv := mkmv (oldp kc) [Tmp (fst kc)] (put_of (snd kc)).
Definition finP (kc : nat * change) : mv := mkmv [Tmp (fst kc)] (newp kc) None.
Definition numbered (n : nat) (l : list change) : list (nat * change) :=
  combine (seq n (length l)) l.
Definition is_dir_node (n : node) : bool := match n with Dir => true | _ => false end.

(* the renamed changes that are really renamed on the remote / re-created *)
Definition moves_of (l : list change) : list change := filter (fun c => negb (recreate c)) l.
Definition recs_of (l : list change) : list change := filter recreate l.

Definition ren_cmd (c : change) : list cmd :=
  if recreate c
  then [match enode (c_old c) with
        | Dir => DeleteDirMaybe (epath (c_old c))
        | _ => DeleteFile (epath (c_old c))
        end]
  else (match put_of c with
        | Some (t, x) => [UploadFile (epath (c_old c)) t x]
        | None => []
        end) ++ [RenameRemote (epath (c_old c)) (epath (c_new c))].

Lemma cmds_renamed_noign new l : tign new = [] -> cmds_renamed new l = flat_map ren_cmd l.
Proof.
  intros H. unfold cmds_renamed. apply flat_map_ext. intros c.
  unfold both_ignored. rewrite !is_ignored_nil by exact H. simpl. unfold ren_cmd, put_of.
  destruct (recreate c); [reflexivity|]. destruct (reupload c); reflexivity.
Qed.

Lemma numbered_cons n c l : numbered n (c :: l) = (n, c) :: numbered (S n) l.
Proof. reflexivity. Qed.

(* the rename loop as a list of moves (old_i -> tmp_i) and leaf deletions *)
Fixpoint mixed (n : nat) (l : list change) : list item :=
  match l with
  | [] => []
  | c :: r => if recreate c
              then IRm (epath (c_old c)) (is_dir_node (enode (c_old c))) :: mixed n r
              else IMv (stageP (n, c)) :: mixed (S n) r
  end.

Lemma mvs_of_mixed l : forall n, mvs_of (mixed n l) = map stageP (numbered n (moves_of l)).
Proof.
  induction l as [|c l IH]; intros n; simpl; [reflexivity|].
  unfold moves_of in *. simpl filter. destruct (recreate c); simpl negb; cbv iota; [apply IH|].
  rewrite numbered_cons. simpl. rewrite IH. reflexivity.
Qed.

Lemma rms_of_mixed l : forall n, rms_of (mixed n l) = map (fun c => epath (c_old c)) (recs_of l).
Proof.
  induction l as [|c l IH]; intros n; simpl; [reflexivity|].
  unfold recs_of in *. simpl. destruct (recreate c); simpl; [rewrite IH; reflexivity|apply IH].
Qed.

Lemma run_stage : forall l u f',
  run_items (mixed (ntmp u) l) (ufs u) = (f', None) ->
  run (flat_map ren_cmd l) u =
  (mkust f' (pdel u)
         (pren u ++ map (fun m => (m_a m, m_b m)) (map finP (numbered (ntmp u) (moves_of l))))
         (ntmp u + length (moves_of l)), None).
Proof.
  induction l as [|c l IH]; intros u f' H.
  - simpl in *. inversion H; subst. destruct u; simpl. rewrite app_nil_r, Nat.add_0_r. reflexivity.
  - simpl mixed in H. simpl flat_map. unfold ren_cmd at 1. unfold moves_of. simpl filter.
    destruct (recreate c) eqn:RC; simpl negb; cbv iota.
    + (* re-created: removed at its old path *)
      simpl in H.
      assert (exists u1, run [match enode (c_old c) with
                              | Dir => DeleteDirMaybe (epath (c_old c))
                              | _ => DeleteFile (epath (c_old c)) end] u = (u1, None)
                         /\ run_items (mixed (ntmp u1) l) (ufs u1) = (f', None)
                         /\ pdel u1 = pdel u /\ ntmp u1 = ntmp u /\ pren u1 = pren u)
        as (u1 & R1 & H1 & D1 & N1 & P1).
      { destruct (enode (c_old c)); simpl in *.
        - destruct (t_delete (epath (c_old c)) (ufs u)) as [f1|] eqn:E; [|discriminate].
          eexists. split; [reflexivity|]. simpl. auto.
        - destruct (t_rmdir (epath (c_old c)) (ufs u)) as [f1|] eqn:E; [|discriminate].
          eexists. split; [reflexivity|]. simpl. auto.
        - destruct (t_delete (epath (c_old c)) (ufs u)) as [f1|] eqn:E; [|discriminate].
          eexists. split; [reflexivity|]. simpl. auto. }
      rewrite run_app, R1. rewrite (IH u1 f' H1). rewrite D1, N1, P1. reflexivity.
    + simpl in H.
      destruct (exec_mv (stageP (ntmp u, c)) (ufs u)) as [f1|e] eqn:E; [|discriminate].
      unfold exec_mv in E. simpl in E.
      assert (exists u1, run ((match put_of c with
                               | Some (t, x) => [UploadFile (epath (c_old c)) t x]
                               | None => [] end) ++
                              [RenameRemote (epath (c_old c)) (epath (c_new c))]) u = (u1, None)
                         /\ ufs u1 = f1 /\ pdel u1 = pdel u /\ ntmp u1 = S (ntmp u)
                         /\ pren u1 = pren u ++ [([Tmp (ntmp u)], epath (c_new c))])
        as (u1 & R1 & F1 & D1 & N1 & P1).
      { unfold oldp in E. simpl in E.
        destruct (put_of c) as [[t x]|].
        - destruct (t_put (epath (c_old c)) t x (ufs u)) as [fp|] eqn:Ep; [|discriminate].
          simpl. rewrite Ep. simpl. rewrite E. eexists. split; [reflexivity|]. simpl. auto.
        - simpl. rewrite E. eexists. split; [reflexivity|]. simpl. auto. }
      rewrite run_app, R1.
      rewrite (IH u1 f').
      * rewrite numbered_cons. simpl. rewrite D1, N1, P1, <- app_assoc. simpl.
        unfold moves_of, newp. simpl. f_equal. f_equal. lia.
      * rewrite N1, F1. exact H.
Qed.

Lemma renames_moves prs f :
  renames (map (fun m => (m_a m, m_b m)) (map finP prs)) f = moves (map finP prs) f.
Proof.
  revert f; induction prs as [|kc prs IH]; intros f; simpl; [reflexivity|].
  unfold exec_mv. simpl. destruct (t_rename _ _ f); [apply IH|reflexivity].
Qed.

(* ---------- the closed form of stage ; finish ---------- *)
Fixpoint find_newP (prs : list (nat * change)) (p : path) : option ((nat * change) * path) :=
  match prs with
  | [] => None
  | kc :: r => match under (newp kc) p with
               | Some s => Some (kc, s)
               | None => find_newP r p
               end
  end.

Definition ex_old (prs : list (nat * change)) (p : path) : bool :=
  existsb (fun kc => prefixb (oldp kc) p) prs.

Definition ren_formP (prs : list (nat * change)) (h : path -> option node) (p : path) : option node :=
  match find_newP prs p with
  | Some (kc, s) => src h (stageP kc) s
  | None => if ex_old prs p then None else h p
  end.

Definition tmp_hd (p : path) : bool := match p with Tmp _ :: _ => true | _ => false end.

Lemma find_tgt_fin prs p :
  find_tgt (map finP prs) p =
  match find_newP prs p with Some (kc, s) => Some (finP kc, s) | None => None end.
Proof.
  induction prs as [|kc prs IH]; simpl; [reflexivity|].
  destruct (under (newp kc) p); [reflexivity|exact IH].
Qed.

Lemma find_tgt_stg_tmp prs k s :
  find_tgt (map stageP prs) (Tmp k :: s) =
  match find (fun kc => Nat.eqb (fst kc) k) prs with
  | Some kc => Some (stageP kc, s)
  | None => None
  end.
Proof.
  induction prs as [|kc prs IH]; simpl; [reflexivity|].
  destruct (Nat.eqb (fst kc) k); [reflexivity|exact IH].
Qed.

Lemma find_tgt_stg_clean prs p : tmp_hd p = false -> find_tgt (map stageP prs) p = None.
Proof.
  intros H. induction prs as [|kc prs IH]; simpl; [reflexivity|].
  destruct p as [|[] p]; simpl in *; try discriminate; exact IH.
Qed.

Lemma ex_src_fin_clean prs p : tmp_hd p = false -> ex_src (map finP prs) p = false.
Proof.
  intros H. apply ex_src_false_intro. intros m I. apply in_map_iff in I as (kc & <- & _).
  simpl. destruct p as [|[] p]; simpl in *; try discriminate; reflexivity.
Qed.

Lemma ex_src_stg prs p : ex_src (map stageP prs) p = ex_old prs p.
Proof.
  unfold ex_src, ex_old. induction prs as [|kc prs IH]; simpl; [reflexivity|].
  rewrite IH. reflexivity.
Qed.

Lemma find_key (prs : list (nat * change)) kc :
  NoDup (map fst prs) -> In kc prs ->
  find (fun kc' => Nat.eqb (fst kc') (fst kc)) prs = Some kc.
Proof.
  induction prs as [|x prs IH]; intros ND I; [destruct I|].
  simpl. inversion ND as [|? ? NI ND']; subst.
  destruct I as [->|I].
  - rewrite Nat.eqb_refl. reflexivity.
  - destruct (Nat.eqb_spec (fst x) (fst kc)) as [E|_]; [|auto].
    exfalso. apply NI. rewrite E. apply in_map; exact I.
Qed.

Lemma find_newP_In prs p kc s : find_newP prs p = Some (kc, s) -> In kc prs /\ p = newp kc ++ s.
Proof.
  induction prs as [|x prs IH]; simpl; [discriminate|].
  destruct (under (newp x) p) as [s0|] eqn:E.
  - intros H; inversion H; subst. apply under_Some in E. auto.
  - intros H. destruct (IH H). auto.
Qed.

Lemma find_newP_None prs p kc : find_newP prs p = None -> In kc prs -> prefixb (newp kc) p = false.
Proof.
  induction prs as [|x prs IH]; simpl; [intros _ []|].
  destruct (under (newp x) p) as [s0|] eqn:E; [discriminate|].
  intros H [->|I]; [|auto]. unfold prefixb. rewrite E. reflexivity.
Qed.

Lemma src_noput h kc s : src h (finP kc) s = h (Tmp (fst kc) :: s).
Proof. unfold src. simpl. destruct s; reflexivity. Qed.

Theorem stage_finish_form prs h :
  NoDup (map fst prs) ->
  (forall kc, In kc prs -> clean_hd (oldp kc) = true /\ clean_hd (newp kc) = true) ->
  (forall k s, h (Tmp k :: s) = None) ->
  forall p, moved (map finP prs) (moved (map stageP prs) h) p = ren_formP prs h p.
Proof.
  intros ND CL TF p. unfold moved at 1. rewrite find_tgt_fin. unfold ren_formP.
  destruct (find_newP prs p) as [[kc s]|] eqn:EF.
  - apply find_newP_In in EF as [I ->]. rewrite src_noput.
    unfold moved. rewrite find_tgt_stg_tmp, (find_key _ _ ND I). reflexivity.
  - destruct (tmp_hd p) eqn:TH.
    + destruct p as [|[] p]; simpl in TH; try discriminate.
      assert (ex_old prs (Tmp k :: p) = false) as EO.
      { unfold ex_old. destruct (existsb _ prs) eqn:E; [|reflexivity].
        apply existsb_exists in E as (kc & I & P).
        rewrite clean_not_under_tmp in P by (apply CL; exact I). discriminate. }
      rewrite EO, TF.
      destruct (ex_src (map finP prs) (Tmp k :: p)) eqn:EX; [reflexivity|].
      unfold moved. rewrite find_tgt_stg_tmp.
      destruct (find _ prs) as [kc|] eqn:Fk.
      * exfalso. apply find_some in Fk as [I E]. apply Nat.eqb_eq in E.
        assert (prefixb (m_a (finP kc)) (Tmp k :: p) = true) as P.
        { unfold prefixb. simpl. rewrite E, Nat.eqb_refl. reflexivity. }
        rewrite (ex_src_false _ _ (finP kc) EX) in P; [discriminate|apply in_map; exact I].
      * rewrite ex_src_stg, EO. apply TF.
    + rewrite ex_src_fin_clean by exact TH.
      unfold moved. rewrite find_tgt_stg_clean by exact TH. rewrite ex_src_stg. reflexivity.
Qed.
