(* Theory/Reconf52Pres.v -- C52: a completed reconfiguration preserves the branch tip, the working
   tree and (when the tags of the location and of the new reference do not clash) the tags. *)
From Coq Require Import List Bool Arith String Lia.
Import ListNotations.
From BV Require Import Lib.Obs Lib.Dag Theory.DagFacts Model.Reconf52 Theory.Reconf52Base Theory.Reconf52Wf
     Theory.Reconf52.
Open Scope string_scope.
Open Scope nat_scope.
Open Scope list_scope.

Lemma opt_nat_eqb_eq a b : opt_nat_eqb a b = true -> a = b.
Proof.
  destruct a, b; cbn; intros H; try discriminate H; auto. apply Nat.eqb_eq in H. congruence.
Qed.

Lemma apply_ok_check force nb p w w' : apply force nb p w = Ok w' -> force = false -> check p w nb = None.
Proof.
  unfold apply. intros H ->. destruct (check p w nb); [discriminate H|reflexivity].
Qed.

(* ---- the tip --------------------------------------------------------------------------------- *)

Lemma tip_pure p w nb tp :
  plan_wf p w = true -> check p w nb = None ->
  efft (w_branch w) (tips0 w) = Some tp -> efft (B11 p w nb) (tips0 w) = Some tp.
Proof.
  destruct p as [un bi dr cr db cb dt ct crp drp rt].
  unfold plan_wf, check, B11, B10, B8, B7, B6, B5, new_branch, bind_b, unbind_b, has_local, has_ref, lri_of,
         local_of, refd_of, l8, tips0.
  cbn [p_unbind p_bind p_destroy_reference p_create_reference p_destroy_branch p_create_branch
       p_destroy_tree p_create_tree p_create_repository p_destroy_repository].
  destruct (w_branch w) as [|b|l]; cbn [efft is_some]; intros Hwf Hck Ht; [discriminate Ht| |].
  - (* a local branch *)
    destruct dr, db, cb, cr, un, bi; cbn in Hwf; try discriminate Hwf; cbn; try exact Ht;
      try (rewrite !andb_false_r in Hwf; discriminate Hwf).
    all: destruct (dt && match w_tree w with Some t => tree_has_changes t | None => false end);
      try discriminate Hck.
    all: destruct (select_bind w nb) as [l|]; try discriminate Hck.
    all: destruct (get_other w l) as [o|] eqn:Eo; try discriminate Hck.
    all: destruct (opt_nat_eqb (o_tip o) (b_tip b)) eqn:Eq; try discriminate Hck.
    all: apply opt_nat_eqb_eq in Eq; cbn; congruence.
  - (* a branch reference *)
    destruct (get_other w l) as [o|] eqn:Eo; cbn [is_some] in *.
    + destruct dr, db, cb, cr, un, bi; cbn in Hwf; try discriminate Hwf; cbn; try exact Ht;
        try (rewrite !andb_false_r in Hwf; discriminate Hwf).
      all: cbn in Ht; unfold otip; rewrite ?Eo; cbn; exact Ht.
    + cbn in Ht. discriminate Ht.
Qed.

Lemma efft_ext b f g : (forall l : loc, f l = g l) -> efft b f = efft b g.
Proof. intros E. destruct b; cbn; auto. Qed.

Theorem preserves_tip t nb w w' tp :
  reconfigure t false nb w = Ok w' -> eff_tip w = Some tp -> eff_tip w' = Some tp.
Proof.
  intros H Ht. unfold reconfigure in H. destruct (factory w t) as [p|e] eqn:Hf; [|discriminate H].
  pose proof (factory_wf _ _ _ Hf) as Hwf.
  pose proof (apply_ok_check _ _ _ _ _ H eq_refl) as Hck.
  destruct (apply_final p w nb false w' H) as (Hb & Htips & _ & _).
  rewrite eff_tip_efft in *. rewrite Hb. cbn [branch_at].
  rewrite (efft_ext _ _ (tips0 w)) by (intros l; apply Htips).
  apply tip_pure; assumption.
Qed.

(* ---- the working tree -------------------------------------------------------------------------- *)

Lemma wf_create_tree p w : plan_wf p w = true -> p_create_tree p = true -> is_some (w_tree w) = false.
Proof.
  unfold plan_wf. intros H Hc. repeat (apply andb_prop in H; destruct H as [H ?]).
  match goal with Hx : implb (p_create_tree p) _ = true |- _ =>
    rewrite Hc in Hx; cbn in Hx; apply negb_true_iff in Hx; exact Hx end.
Qed.

Theorem preserves_tree t force nb w w' tr :
  reconfigure t force nb w = Ok w' -> w_tree w = Some tr ->
  w_tree w' = Some tr \/ (w_tree w' = None /\ (force = false -> tree_has_changes tr = false)).
Proof.
  intros H Htr. unfold reconfigure in H. destruct (factory w t) as [p|e] eqn:Hf; [|discriminate H].
  pose proof (factory_wf _ _ _ Hf) as Hwf.
  destruct (apply_final p w nb force w' H) as (_ & _ & Ht & _).
  unfold tree_at in Ht. cbn [Nat.leb] in Ht. unfold T9 in Ht. rewrite Ht.
  destruct (p_create_tree p) eqn:Ect.
  - pose proof (wf_create_tree _ _ Hwf Ect) as Hn. rewrite Htr in Hn. discriminate Hn.
  - destruct (p_destroy_tree p) eqn:Edt; [right|left; exact Htr]. split; [reflexivity|]. intros ->.
    pose proof (apply_ok_check _ _ _ _ _ H eq_refl) as Hck. unfold check in Hck.
    rewrite Edt, Htr in Hck. cbn [andb] in Hck.
    destruct (tree_has_changes tr); [discriminate Hck|reflexivity].
Qed.

(* ---- tags ---------------------------------------------------------------------------------------- *)

Lemma tag_lookup_app n a b :
  tag_lookup n (a ++ b) = match tag_lookup n a with Some r => Some r | None => tag_lookup n b end.
Proof.
  induction a as [|[k r] a IH]; cbn; [reflexivity|]. destruct (n =? k); auto.
Qed.

Lemma tag_lookup_merge n src dst :
  tag_lookup n (merge_tags src dst) =
  match tag_lookup n dst with Some r => Some r | None => tag_lookup n src end.
Proof.
  unfold merge_tags. rewrite tag_lookup_app. destruct (tag_lookup n dst) as [r|] eqn:Ed; [reflexivity|].
  induction src as [|[k r0] src IH]; cbn; [reflexivity|].
  destruct (tag_lookup k dst) as [r1|] eqn:Ek; cbn.
  - destruct (n =? k) eqn:E; [|exact IH]. apply Nat.eqb_eq in E. subst k. congruence.
  - destruct (n =? k); [reflexivity|exact IH].
Qed.

Lemma filter_true {A} (l : list A) : filter (fun _ => true) l = l.
Proof. induction l; cbn; congruence. Qed.

Lemma tag_lookup_merge_nil n src : tag_lookup n (merge_tags src []) = tag_lookup n src.
Proof. rewrite tag_lookup_merge. reflexivity. Qed.

Lemma tag_lookup_In n r d : tag_lookup n d = Some r -> In (n, r) d.
Proof.
  induction d as [|[k r0] d IH]; cbn; [discriminate|].
  destruct (n =? k) eqn:E; intros H.
  - apply Nat.eqb_eq in E. injection H as <-. subst k. left. reflexivity.
  - right. apply IH. exact H.
Qed.

(* every tag of src either is absent from dst or has the same value there *)
Definition tags_compatible (src dst : tagd) : bool :=
  forallb (fun q => match tag_lookup (fst q) dst with None => true | Some r => r =? snd q end) src.

Lemma compatible_merge n r src dst :
  tags_compatible src dst = true -> tag_lookup n src = Some r -> tag_lookup n (merge_tags src dst) = Some r.
Proof.
  intros Hc Hl. rewrite tag_lookup_merge. destruct (tag_lookup n dst) as [r'|] eqn:Ed; [|exact Hl].
  unfold tags_compatible in Hc. rewrite forallb_forall in Hc.
  specialize (Hc (n, r) (tag_lookup_In _ _ _ Hl)). cbn in Hc. rewrite Ed in Hc.
  apply Nat.eqb_eq in Hc. congruence.
Qed.

(* the executable guard: to_lightweight_checkout merges the location's tags into the reference *)
Definition no_tag_clash (t : target) (nb : option loc) (w : world) : bool :=
  match t, local_of w, select_bind w nb with
  | TLightweight, Some b, Some l =>
      match get_other w l with Some o => tags_compatible (b_tags b) (o_tags o) | None => true end
  | _, _, _ => true
  end.

Definition tags_of (b : branch_st) (otg : loc -> option tagd) : tagd :=
  match b with
  | BLocal x => b_tags x
  | BRef l => match otg l with Some d => d | None => [] end
  | BNone => []
  end.
Lemma eff_tags_tags_of w : eff_tags w = tags_of (w_branch w) (fun l => otags (get_other w l)).
Proof. unfold eff_tags, tags_of, otags. destruct (w_branch w) as [|b|l]; auto. destruct (get_other w l); auto. Qed.
Lemma tags_of_ext b f g : (forall l : loc, f l = g l) -> tags_of b f = tags_of b g.
Proof. intros E. destruct b; cbn; auto. rewrite E. reflexivity. Qed.

Lemma tags_pure p w nb n r :
  plan_wf p w = true ->
  (p_create_reference p = true ->
   match local_of w, select_bind w nb with
   | Some b, Some l => match get_other w l with Some o => tags_compatible (b_tags b) (o_tags o) = true | None => True end
   | _, _ => True
   end) ->
  (p_create_reference p = true -> select_bind w nb <> None /\ is_some (tips0 w (l8 w nb)) = true) ->
  tag_lookup n (tags_of (w_branch w) (fun l => otags (get_other w l))) = Some r ->
  tag_lookup n (tags_of (B11 p w nb) (tags_at p w nb true)) = Some r.
Proof.
  destruct p as [un bi dr cr db cb dt ct crp drp rt].
  unfold tags_at, plan_wf, B11, B10, B8, B7, B6, B5, new_branch, bind_b, unbind_b, has_local, has_ref, lri_of,
         local_of, refd_of, l8, tips0.
  cbn [p_unbind p_bind p_destroy_reference p_create_reference p_destroy_branch p_create_branch
       p_destroy_tree p_create_tree p_create_repository p_destroy_repository andb].
  destruct (w_branch w) as [|b|l]; cbn [tags_of is_some]; intros Hwf Hg Hex Ht; [discriminate Ht| |].
  - destruct dr, db, cb, cr, un, bi; cbn in Hwf; try discriminate Hwf; cbn; try exact Ht;
      try (rewrite !andb_false_r in Hwf; discriminate Hwf).
    all: specialize (Hg eq_refl); destruct (Hex eq_refl) as [Hsel Hex']; clear Hex; rename Hex' into Hex.
    all: destruct (select_bind w nb) as [l|]; [|congruence]; cbn in *.
    all: try (rewrite Nat.eqb_refl).
    all: unfold otip, otags in *.
    all: try (destruct (get_other w l) as [o|] eqn:Eo; cbn in *; [apply compatible_merge; assumption | discriminate Hex]).
  - destruct (get_other w l) as [o|] eqn:Eo; cbn [is_some] in *.
    + destruct dr, db, cb, cr, un, bi; cbn in Hwf; try discriminate Hwf; cbn; try exact Ht;
        try (rewrite !andb_false_r in Hwf; discriminate Hwf).
      all: try (unfold otags in *; rewrite ?Eo in *; cbn in *; rewrite ?tag_lookup_merge_nil, ?filter_true; exact Ht).
    + cbn in Ht. discriminate Ht.
Qed.

Lemma factory_cr w t p : factory w t = inl p -> p_create_reference p = true -> t = TLightweight.
Proof.
  intros Hf Hcr. destruct t; try reflexivity; exfalso.
  - unfold factory in Hf. cbn [wants] in Hf.
    destruct (plan_changes (facts_of w) false true false false) as [p0|] eqn:Ep; [|discriminate Hf].
    destruct (changes_planned p0); [|discriminate Hf]. injection Hf as ->.
    unfold plan_changes in Ep. cbn in Ep. injection Ep as <-. cbn in Hcr. rewrite andb_false_r in Hcr. discriminate Hcr.
  - unfold factory in Hf. cbn [wants] in Hf.
    destruct (plan_changes (facts_of w) true true false false) as [p0|] eqn:Ep; [|discriminate Hf].
    destruct (changes_planned p0); [|discriminate Hf]. injection Hf as ->.
    unfold plan_changes in Ep. cbn in Ep. injection Ep as <-. cbn in Hcr. rewrite andb_false_r in Hcr. discriminate Hcr.
  - unfold factory in Hf. cbn [wants] in Hf.
    destruct (plan_changes (facts_of w) true true true false) as [p0|] eqn:Ep; [|discriminate Hf].
    destruct (changes_planned p0); [|discriminate Hf]. injection Hf as ->.
    unfold plan_changes in Ep. cbn in Ep. injection Ep as <-. cbn in Hcr. rewrite andb_false_r in Hcr. discriminate Hcr.
  - unfold factory in Hf. cbn in Hf. destruct (is_some (w_repo w)); cbn in Hf; try discriminate Hf.
    injection Hf as <-. discriminate Hcr.
  - unfold factory in Hf. cbn in Hf. destruct (is_some (w_repo w)); cbn in Hf; try discriminate Hf.
    injection Hf as <-. discriminate Hcr.
  - unfold factory in Hf. destruct (find_repo w) as [r0|]; [|discriminate Hf].
    destruct (negb (r_shared r0)); [discriminate Hf|]. destruct (Bool.eqb with_trees (r_trees r0)); [discriminate Hf|].
    injection Hf as <-. discriminate Hcr.
Qed.

Theorem preserves_tags_guarded t force nb w w' n r :
  reconfigure t force nb w = Ok w' -> no_tag_clash t nb w = true ->
  tag_lookup n (eff_tags w) = Some r -> tag_lookup n (eff_tags w') = Some r.
Proof.
  intros H Hg Ht. unfold reconfigure in H. destruct (factory w t) as [p|e] eqn:Hf; [|discriminate H].
  pose proof (factory_wf _ _ _ Hf) as Hwf.
  destruct (apply_final2 p w nb force w' H) as [(Hb & _ & _ & Htg) H5].
  rewrite eff_tags_tags_of in *. rewrite Hb. cbn [branch_at].
  rewrite (tags_of_ext _ _ (tags_at p w nb true)) by (intros l; apply Htg).
  apply tags_pure; try assumption.
  - intros Hcr. pose proof (factory_cr _ _ _ Hf Hcr) as ->. unfold no_tag_clash in Hg.
    destruct (local_of w) as [b|]; [|exact I]. destruct (select_bind w nb) as [l|]; [|exact I].
    destruct (get_other w l); [exact Hg|exact I].
  - intros Hcr. apply H5; [lia|exact Hcr].
Qed.
