(* Theory/CommitSel.v -- lemmas about Model/CommitSel.v (C01). *)
From Coq Require Import List NArith Bool Lia String.
From BV Require Import Lib.Obs Lib.Tree01 Model.CommitSel.
Import ListNotations.
Open Scope list_scope.

(* ------------------------------------------------------------------ *)
(* A. inventory deltas *)

Definition has_id (i : fid) (d : list item) : bool := existsb (fun it => N.eqb (it_id it) i) d.
Definition has_cid (i : fid) (cs : list change) : bool := existsb (fun c => N.eqb (c_id c) i) cs.

Lemma lookup_apply_item_same : forall t it, lookup (apply_item t it) (it_id it) = it_entry it.
Proof.
  intros t it; unfold apply_item.
  destruct (it_entry it); [apply lookup_insert_same | apply lookup_remove_same].
Qed.

Lemma lookup_apply_item_other : forall t it k, it_id it <> k -> lookup (apply_item t it) k = lookup t k.
Proof.
  intros t it k H; unfold apply_item.
  destruct (it_entry it); [apply lookup_insert_other | apply lookup_remove_other]; assumption.
Qed.

Lemma lookup_apply_raw : forall (g : fid -> option entry) d t i,
  Forall (fun it => it_entry it = g (it_id it)) d ->
  lookup (apply_raw d t) i = if has_id i d then g i else lookup t i.
Proof.
  intros g d; induction d as [|it d IH]; intros t i HF; [reflexivity|].
  inversion HF as [|? ? Hit HF']; subst.
  unfold apply_raw; simpl. fold (apply_raw d (apply_item t it)).
  rewrite IH by assumption.
  destruct (N.eqb (it_id it) i) eqn:E; simpl.
  - apply N.eqb_eq in E; subst i.
    destruct (has_id (it_id it) d); [reflexivity|].
    rewrite lookup_apply_item_same. assumption.
  - destruct (has_id i d); [reflexivity|].
    apply lookup_apply_item_other. intro H; subst; rewrite N.eqb_refl in E; discriminate.
Qed.

Lemma dict_put_in : forall d x c, In c (dict_put d x) -> In c d \/ c = x.
Proof.
  induction d as [|y r IH]; intros x c H; simpl in H.
  - destruct H as [H|[]]; right; congruence.
  - destruct (N.eqb (c_id y) (c_id x)).
    + destruct H as [H|H]; [right; congruence | left; right; assumption].
    + destruct H as [H|H]; [left; left; assumption|].
      apply IH in H as [H|H]; [left; right; assumption | right; assumption].
Qed.

Lemma dict_put_has : forall d x i, has_cid i (dict_put d x) = has_cid i d || N.eqb (c_id x) i.
Proof.
  induction d as [|y r IH]; intros x i; simpl.
  - apply orb_comm.
  - destruct (N.eqb (c_id y) (c_id x)) eqn:E; simpl.
    + apply N.eqb_eq in E. rewrite E.
      destruct (N.eqb (c_id x) i), (has_cid i r); reflexivity.
    + fold (has_cid i (dict_put r x)). rewrite IH. fold (has_cid i r). apply orb_assoc.
Qed.

Lemma fold_dict_in : forall cs d c, In c (fold_left dict_put cs d) -> In c d \/ In c cs.
Proof.
  induction cs as [|x cs IH]; intros d c H; simpl in H; [left; assumption|].
  apply IH in H as [H|H]; [|right; right; assumption].
  apply dict_put_in in H as [H|H]; [left; assumption | right; left; congruence].
Qed.

Lemma fold_dict_has : forall cs d i, has_cid i (fold_left dict_put cs d) = has_cid i d || has_cid i cs.
Proof.
  induction cs as [|x cs IH]; intros d i; simpl; [symmetry; apply orb_false_r|].
  rewrite IH, dict_put_has. fold (has_cid i cs). rewrite orb_assoc. reflexivity.
Qed.

Lemma has_id_record : forall cs i, has_id i (record cs) = has_cid i cs.
Proof.
  intros cs i. unfold record, to_dict.
  assert (H : forall l, has_id i (map item_of l) = has_cid i l).
  { induction l as [|c l IHl]; simpl; [reflexivity|]. rewrite IHl. reflexivity. }
  rewrite H, fold_dict_has. reflexivity.
Qed.

Lemma record_Forall : forall (P : item -> Prop) cs,
  (forall c, In c cs -> P (item_of c)) -> Forall P (record cs).
Proof.
  intros P cs H. unfold record. apply Forall_forall. intros it Hin.
  apply in_map_iff in Hin as [c [<- Hc]].
  unfold to_dict in Hc. apply fold_dict_in in Hc as [[]|Hc]. apply H; assumption.
Qed.

Lemma lookup_fold_remove : forall l t i,
  lookup (fold_left remove l t) i = if memN i l then None else lookup t i.
Proof.
  induction l as [|j l IH]; intros w i; simpl; [reflexivity|].
  rewrite IH. destruct (N.eqb i j) eqn:E; simpl.
  - apply N.eqb_eq in E; subst j. rewrite lookup_remove_same. destruct (memN i l); reflexivity.
  - rewrite lookup_remove_other; [reflexivity|]. intro; subst; rewrite N.eqb_refl in E; discriminate.
Qed.

(* ------------------------------------------------------------------ *)
(* B. where the changes come from *)

Section Trees.
Variables basis wt : tree.

Definition from_trees (c : change) : Prop := c = mk_change basis wt (c_id c).

Lemma all_changes_from : forall c, In c (all_changes basis wt) -> from_trees c.
Proof.
  intros c H. unfold all_changes in H. apply in_map_iff in H as [i [<- _]]. reflexivity.
Qed.

Lemma iter_changes_sub : forall S l c,
  iter_changes basis wt S = ICOk l -> In c l -> In c (all_changes basis wt).
Proof.
  intros S l c H Hin. unfold iter_changes in H.
  destruct (forallb _ _); [|discriminate]. injection H as <-.
  apply in_app_or in Hin as [Hin|Hin]; [unfold phase1 in Hin | unfold phase2 in Hin];
    apply filter_In in Hin as [Hin _]; assumption.
Qed.

Lemma selected_changes_from : forall S excl cs c,
  selected_changes basis wt S excl = Some cs -> In c cs -> from_trees c.
Proof.
  intros S excl cs c H Hin. unfold selected_changes in H.
  destruct (iter_changes basis wt S) as [l|] eqn:E; [|discriminate]. injection H as <-.
  unfold filter_excluded in Hin. apply filter_In in Hin as [Hin _].
  apply all_changes_from. eapply iter_changes_sub; eassumption.
Qed.

Lemma entry_clean_self : forall e, e_missing e = false ->
  entry_eqb (mkE (e_parent e) (e_name e) (e_kind e) (e_content e) (eff_exec e) false) e = true.
Proof.
  intros e Hm. unfold entry_eqb, eff_exec; simpl. rewrite Hm.
  rewrite !N.eqb_refl. destruct (e_kind e); simpl; try reflexivity.
  destruct (e_exec e); reflexivity.
Qed.

Lemma fic_one_item : forall c c', from_trees c -> In c' (fic_one c) ->
  c_id c' = c_id c /\ it_entry (item_of c') = committed_entry (lookup wt (c_id c)).
Proof.
  intros c c' Hf Hin. unfold fic_one in Hin.
  assert (Hnew : c_newe c = lookup wt (c_id c)) by (unfold from_trees in Hf; rewrite Hf; reflexivity).
  rewrite <- Hnew. unfold item_of.
  destruct (is_missing c) eqn:Em.
  - unfold is_missing in Em. destruct (c_newe c) as [e|] eqn:En; [|discriminate].
    simpl in Hin. destruct (c_olde c) eqn:Eo; simpl in Hin; [|destruct Hin].
    destruct Hin as [<-|[]]. simpl. rewrite Em. split; reflexivity.
  - assert (Hc : c' = c).
    { destruct (c_olde c), (c_newe c); simpl in Hin; try (destruct Hin as [H|[]]; congruence). destruct Hin. }
    subst c'. split; [reflexivity|].
    unfold is_missing in Em. destruct (c_newe c) as [e|]; simpl; [|reflexivity].
    rewrite Em. reflexivity.
Qed.

Lemma fic_has : forall cs i, has_cid i (filter_iter_changes cs) = true -> has_cid i cs = true.
Proof.
  intros cs i H. unfold has_cid in *. apply existsb_exists in H as [c' [Hin E]].
  unfold filter_iter_changes in Hin. apply in_flat_map in Hin as [c [Hc Hin]].
  apply existsb_exists. exists c. split; [assumption|].
  unfold fic_one in Hin.
  destruct (is_missing c); simpl in Hin;
    destruct (c_olde c); try destruct (c_newe c); simpl in Hin;
    try (destruct Hin as [<-|[]]; assumption); destruct Hin.
Qed.

Lemma fic_dropped : forall cs i, (forall c, In c cs -> from_trees c) ->
  has_cid i cs = true -> has_cid i (filter_iter_changes cs) = false ->
  lookup basis i = None /\ committed_entry (lookup wt i) = None.
Proof.
  intros cs i Hf H Hno. unfold has_cid in H. apply existsb_exists in H as [c [Hin E]].
  apply N.eqb_eq in E.
  assert (Hd : fic_one c = []).
  { destruct (fic_one c) as [|c' r] eqn:Ef; [reflexivity|]. exfalso.
    assert (Hin' : In c' (fic_one c)) by (rewrite Ef; left; reflexivity).
    destruct (fic_one_item c c' (Hf c Hin) Hin') as [Hid _].
    assert (has_cid i (filter_iter_changes cs) = true).
    { apply existsb_exists. exists c'. split.
      - unfold filter_iter_changes. apply in_flat_map. exists c. split; assumption.
      - rewrite Hid, E. apply N.eqb_refl. }
    congruence. }
  pose proof (Hf c Hin) as Hc. unfold from_trees in Hc. rewrite E in Hc.
  assert (Hold : c_olde c = lookup basis i) by (rewrite Hc; reflexivity).
  assert (Hnew : c_newe c = lookup wt i) by (rewrite Hc; reflexivity).
  unfold fic_one in Hd. rewrite <- Hold, <- Hnew.
  destruct (is_missing c) eqn:Em.
  - simpl in Hd. destruct (c_olde c); [discriminate|]. split; [reflexivity|].
    unfold is_missing in Em. destruct (c_newe c) as [e|]; [|reflexivity]. simpl. rewrite Em. reflexivity.
  - destruct (c_olde c); [destruct (c_newe c); discriminate|].
    destruct (c_newe c); [discriminate|]. split; reflexivity.
Qed.

(* the committed tree, id by id: the ids of the changes that reach the builder carry the
   working-tree entry, every other id keeps the basis entry *)
Theorem commit_lookup : forall S excl t wt',
  commit basis wt S excl = COk t wt' ->
  exists cs, selected_changes basis wt (option_map min_sel S) (min_sel excl) = Some cs /\
    (forall i, lookup t i = subst_lookup basis wt (fun j => has_cid j cs) i) /\
    (forall i, lookup wt' i = if memN i (deleted_ids cs) then None else lookup wt i).
Proof.
  intros S excl t wt' H. unfold commit in H.
  destruct (selected_changes basis wt (option_map min_sel S) (min_sel excl)) as [cs|] eqn:Es; [|discriminate].
  destruct (apply_delta basis (record (filter_iter_changes cs))) as [r|] eqn:Ea; [|discriminate].
  injection H as <- <-. exists cs. split; [reflexivity|]. split.
  - intros i. unfold apply_delta in Ea.
    destruct (_ && _ && _ && _); [|discriminate]. injection Ea as <-.
    assert (Hf : forall c, In c cs -> from_trees c) by (intros c Hc; eapply selected_changes_from; eassumption).
    rewrite (lookup_apply_raw (fun j => committed_entry (lookup wt j))).
    + rewrite has_id_record. unfold subst_lookup.
      destruct (has_cid i (filter_iter_changes cs)) eqn:E1.
      * rewrite (fic_has _ _ E1). reflexivity.
      * destruct (has_cid i cs) eqn:E2; [|reflexivity].
        destruct (fic_dropped cs i Hf E2 E1) as [-> ->]. reflexivity.
    + apply record_Forall. intros c' Hc'. unfold filter_iter_changes in Hc'.
      apply in_flat_map in Hc' as [c [Hc Hin]].
      destruct (fic_one_item c c' (Hf c Hc) Hin) as [Hid He].
      rewrite He. unfold item_of at 1; simpl. rewrite Hid. reflexivity.
  - intros i. apply lookup_fold_remove.
Qed.

End Trees.

(* ------------------------------------------------------------------ *)
(* C. after the commit: selected ids are clean, the rest is still pending *)

Lemma has_cid_in : forall i cs, has_cid i cs = true -> exists c, In c cs /\ c_id c = i.
Proof.
  intros i cs H. apply existsb_exists in H as [c [Hin E]]. apply N.eqb_eq in E. eauto.
Qed.

Lemma in_has_cid : forall c cs, In c cs -> has_cid (c_id c) cs = true.
Proof. intros c cs H. apply existsb_exists. exists c. split; [assumption|apply N.eqb_refl]. Qed.

Lemma memN_deleted : forall i cs, memN i (deleted_ids cs) = true ->
  exists c, In c cs /\ is_missing c = true /\ c_id c = i.
Proof.
  intros i cs H. unfold memN, deleted_ids in H. apply existsb_exists in H as [j [Hin E]].
  apply N.eqb_eq in E; subst j. apply in_map_iff in Hin as [c [Hid Hin]].
  apply filter_In in Hin as [Hin Hm]. eauto.
Qed.

Lemma deleted_memN : forall c cs, In c cs -> is_missing c = true -> memN (c_id c) (deleted_ids cs) = true.
Proof.
  intros c cs Hin Hm. unfold memN, deleted_ids. apply existsb_exists. exists (c_id c).
  split; [|apply N.eqb_refl]. apply in_map. apply filter_In. split; assumption.
Qed.

Theorem commit_post : forall basis wt S excl t wt',
  commit basis wt S excl = COk t wt' ->
  exists cs, selected_changes basis wt (option_map min_sel S) (min_sel excl) = Some cs /\
    forall i, (has_cid i cs = true -> changed t wt' i = false) /\
              (has_cid i cs = false -> changed t wt' i = changed basis wt i).
Proof.
  intros basis wt S excl t wt' H.
  destruct (commit_lookup basis wt S excl t wt' H) as [cs [Hs [Ht Hw]]].
  exists cs. split; [assumption|]. intros i.
  assert (Hf : forall c, In c cs -> from_trees basis wt c)
    by (intros c Hc; eapply selected_changes_from; eassumption).
  split; intros Hi; unfold changed; rewrite Ht, Hw; unfold subst_lookup; rewrite Hi.
  - destruct (has_cid_in i cs Hi) as [c [Hin Hid]].
    pose proof (Hf c Hin) as Hc. unfold from_trees in Hc. rewrite Hid in Hc.
    destruct (memN i (deleted_ids cs)) eqn:Ed.
    + destruct (memN_deleted i cs Ed) as [c2 [Hin2 [Hm2 Hid2]]].
      pose proof (Hf c2 Hin2) as Hc2. unfold from_trees in Hc2. rewrite Hid2 in Hc2.
      unfold is_missing in Hm2. rewrite Hc2 in Hm2. simpl in Hm2.
      destruct (lookup wt i) as [e|]; [|discriminate]. simpl. rewrite Hm2. reflexivity.
    + destruct (lookup wt i) as [e|] eqn:El; simpl; [|reflexivity].
      destruct (e_missing e) eqn:Em.
      * exfalso. assert (is_missing c = true) by (unfold is_missing; rewrite Hc; simpl; rewrite El; assumption).
        pose proof (deleted_memN c cs Hin H0) as Hd. rewrite Hid in Hd. congruence.
      * simpl. rewrite entry_clean_self by assumption. reflexivity.
  - destruct (memN i (deleted_ids cs)) eqn:Ed; [|reflexivity].
    exfalso. destruct (memN_deleted i cs Ed) as [c2 [Hin2 [_ Hid2]]].
    pose proof (in_has_cid c2 cs Hin2) as Hh. rewrite Hid2 in Hh. congruence.
Qed.

(* ------------------------------------------------------------------ *)
(* D. minimum_path_selection does not change what is inside *)

Lemma is_inside_shorter : forall q d, is_inside q d = true -> path_eqb q d = false ->
  List.length q < List.length d.
Proof.
  induction q as [|x q IH]; intros d Hi Hne; destruct d as [|y d]; simpl in *; try discriminate; try lia.
  apply andb_true_iff in Hi as [E Hi]. rewrite E in Hne. simpl in Hne.
  specialize (IH d Hi Hne). lia.
Qed.

Lemma min_sel_has : forall l n d, List.length d <= n -> In d l ->
  exists d', In d' (min_sel l) /\ is_inside d' d = true.
Proof.
  intros l n; induction n as [|n IH]; intros d Hlen Hin.
  - destruct d; [|simpl in Hlen; lia].
    exists []. split; [|reflexivity]. unfold min_sel. apply filter_In. split; [assumption|].
    apply negb_true_iff. apply not_true_iff_false. intro H.
    apply existsb_exists in H as [q [_ Hq]]. apply andb_true_iff in Hq as [Hq1 Hq2].
    destruct q; [discriminate|discriminate].
  - destruct (existsb (fun q => is_inside q d && negb (path_eqb q d)) l) eqn:E.
    + apply existsb_exists in E as [q [Hq Hc]]. apply andb_true_iff in Hc as [Hc1 Hc2].
      apply negb_true_iff in Hc2. pose proof (is_inside_shorter q d Hc1 Hc2) as Hl.
      destruct (IH q ltac:(lia) Hq) as [d' [Hd' Hi]].
      exists d'. split; [assumption|]. eapply is_inside_trans; eassumption.
    + exists d. split; [|apply is_inside_refl]. unfold min_sel. apply filter_In.
      split; [assumption|]. rewrite E. reflexivity.
Qed.

Theorem min_sel_inside : forall l p, is_inside_any (min_sel l) p = is_inside_any l p.
Proof.
  intros l p. destruct (is_inside_any l p) eqn:E.
  - unfold is_inside_any in E. apply existsb_exists in E as [d [Hd Hi]].
    destruct (min_sel_has l (List.length d) d (le_n _) Hd) as [d' [Hd' Hi']].
    apply existsb_exists. exists d'. split; [assumption|]. eapply is_inside_trans; eassumption.
  - apply not_true_iff_false. intro H. unfold is_inside_any in H.
    apply existsb_exists in H as [d [Hd Hi]]. unfold min_sel in Hd. apply filter_In in Hd as [Hd _].
    assert (is_inside_any l p = true) by (apply existsb_exists; eauto). congruence.
Qed.

(* ------------------------------------------------------------------ *)
(* E. under the guard, the committed ids are exactly the selected ones *)

Section Closed.
Variables basis wt : tree.
Variables P E : list path.
Let cs0 := all_changes basis wt.

Hypothesis G1 : forall c, In c cs0 -> both_paths_agree P c = true.
Hypothesis G2 : forall c n, In c cs0 -> c_changed c = true -> hit P c = true -> c_newp c = Some n ->
  forallb (good_path P cs0) (proper_prefixes n) = true.

Definition iia_equiv (P' : list path) := forall p, is_inside_any P' p = is_inside_any P p.

Lemma hit_equiv : forall P' c, iia_equiv P' -> hit P' c = hit P c.
Proof.
  intros P' c H. unfold hit, oinside. destruct (c_oldp c), (c_newp c); rewrite ?H; reflexivity.
Qed.

Lemma agree_both : forall c o n, In c cs0 -> c_oldp c = Some o -> c_newp c = Some n -> hit P c = true ->
  is_inside_any P o = true /\ is_inside_any P n = true.
Proof.
  intros c o n Hin Ho Hn Hh. pose proof (G1 c Hin) as Hg. unfold both_paths_agree in Hg.
  rewrite Ho, Hn in Hg. apply Bool.eqb_prop in Hg. unfold hit in Hh. rewrite Ho, Hn in Hh. simpl in Hh.
  rewrite Hg in Hh. rewrite Hg. destruct (is_inside_any P n); [split; reflexivity|discriminate].
Qed.

Lemma other_ends_inside : forall P' c q, iia_equiv P' -> In c cs0 -> In q (other_ends P' c) ->
  is_inside_any P q = true.
Proof.
  intros P' c q He Hin Hq. unfold other_ends in Hq. rewrite (hit_equiv P' c He) in Hq.
  destruct (hit P c) eqn:Hh; simpl in Hq; [|destruct Hq].
  destruct (relocated c); [|destruct Hq].
  destruct (c_oldp c) as [o|] eqn:Ho; [|destruct Hq]. destruct (c_newp c) as [n|] eqn:Hn; [|destruct Hq].
  destruct (agree_both c o n Hin Ho Hn Hh) as [H1 H2].
  destruct Hq as [<-|[<-|[]]]; assumption.
Qed.

Lemma closure_equiv : forall n P', iia_equiv P' -> iia_equiv (search_closure n cs0 P').
Proof.
  induction n as [|n IH]; intros P' He; simpl; [assumption|].
  apply IH. intro p. rewrite is_inside_any_app, He.
  destruct (is_inside_any P p) eqn:Ep; [reflexivity|]. simpl.
  apply not_true_iff_false. intro H. unfold is_inside_any in H at 1.
  apply existsb_exists in H as [d [Hd Hi]]. apply in_flat_map in Hd as [c [Hc Hd]].
  pose proof (other_ends_inside P' c d He Hc Hd) as Hq.
  pose proof (is_inside_any_trans P d p Hq Hi). congruence.
Qed.

Lemma phase1_eq : phase1 cs0 P = filter (fun c => c_changed c && hit P c) cs0.
Proof.
  unfold phase1. apply filter_ext. intro c. f_equal. apply hit_equiv.
  apply closure_equiv. intro p; reflexivity.
Qed.

Lemma good_use : forall q c, good_path P cs0 q = true -> In c cs0 ->
  (c_oldp c = Some q \/ c_newp c = Some q) ->
  hit P c = true \/ (c_changed c = false /\ c_oldp c = c_newp c).
Proof.
  intros q c Hg Hin Hq. unfold good_path in Hg. rewrite forallb_forall in Hg. specialize (Hg c Hin).
  assert (Hc : opath_eqb (c_oldp c) (Some q) || opath_eqb (c_newp c) (Some q) = true).
  { apply orb_true_iff. destruct Hq as [Hq|Hq]; [left|right]; apply opath_eqb_eq; assumption. }
  rewrite Hc in Hg. apply orb_true_iff in Hg as [Hg|Hg]; [left; assumption|right].
  apply andb_true_iff in Hg as [H1 H2]. apply negb_true_iff in H1. apply opath_eqb_eq in H2. split; assumption.
Qed.

Lemma good_of_inside : forall q, is_inside_any P q = true -> good_path P cs0 q = true.
Proof.
  intros q Hq. unfold good_path. apply forallb_forall. intros c _.
  destruct (opath_eqb (c_oldp c) (Some q) || opath_eqb (c_newp c) (Some q)) eqn:Ec; [|reflexivity].
  apply orb_true_iff. left. unfold hit. apply orb_true_iff.
  apply orb_true_iff in Ec as [Ec|Ec]; apply opath_eqb_eq in Ec; rewrite Ec; [left|right]; exact Hq.
Qed.

Lemma memP_In : forall q Q, memP q Q = true -> In q Q.
Proof.
  intros q Q H. unfold memP in H. apply existsb_exists in H as [q' [Hin Hq]].
  apply path_eqb_eq in Hq. subst. assumption.
Qed.

Definition Qgood (Q : list path) := forall q, In q Q -> good_path P cs0 q = true.

Lemma step_good : forall Q, Qgood Q -> Qgood (parents_step cs0 Q).
Proof.
  intros Q HQ q Hq. unfold parents_step in Hq.
  apply in_app_or in Hq as [Hq|Hq]; [apply HQ; assumption|].
  apply in_app_or in Hq as [Hq|Hq]; apply in_flat_map in Hq as [c [Hc Hq]].
  - destruct (c_oldp c) as [o|] eqn:Ho; [|destruct Hq]. destruct (c_newp c) as [n|] eqn:Hn; [|destruct Hq].
    destruct (memP o Q && negb (path_eqb o n)) eqn:Em; [|destruct Hq].
    destruct Hq as [<-|[]]. apply andb_true_iff in Em as [Em1 Em2]. apply negb_true_iff in Em2.
    pose proof (HQ o (memP_In o Q Em1)) as Hgo.
    destruct (good_use o c Hgo Hc (or_introl Ho)) as [Hh|[_ Heq]].
    + apply good_of_inside. apply (agree_both c o n Hc Ho Hn Hh).
    + rewrite Ho, Hn in Heq. injection Heq as ->. rewrite path_eqb_refl in Em2. discriminate.
  - destruct (c_newp c) as [n|] eqn:Hn; [|destruct Hq].
    destruct (memP n Q && c_changed c) eqn:Em; [|destruct Hq].
    apply andb_true_iff in Em as [Em1 Em2].
    pose proof (HQ n (memP_In n Q Em1)) as Hgn.
    destruct (good_use n c Hgn Hc (or_intror Hn)) as [Hh|[Hch _]]; [|congruence].
    pose proof (G2 c n Hc Em2 Hh Hn) as Hall. rewrite forallb_forall in Hall. apply Hall. assumption.
Qed.

Lemma closure_good : forall n Q, Qgood Q -> Qgood (parents_closure n cs0 Q).
Proof.
  induction n as [|n IH]; intros Q HQ; simpl; [assumption|]. apply IH. apply step_good. assumption.
Qed.

Lemma seed_good : Qgood (parents_seed (phase1 cs0 P)).
Proof.
  intros q Hq. unfold parents_seed in Hq. apply in_flat_map in Hq as [c [Hc Hq]].
  rewrite phase1_eq in Hc. apply filter_In in Hc as [Hc Hf]. apply andb_true_iff in Hf as [Hch Hh].
  destruct (c_newp c) as [n|] eqn:Hn; [|destruct Hq].
  pose proof (G2 c n Hc Hch Hh Hn) as Hall. rewrite forallb_forall in Hall. apply Hall. assumption.
Qed.

Lemma phase2_hit : forall c, In c (phase2 cs0 (phase1 cs0 P)) ->
  In c cs0 /\ c_changed c = true /\ hit P c = true.
Proof.
  intros c Hc. unfold phase2 in Hc. apply filter_In in Hc as [Hc Hf].
  apply andb_true_iff in Hf as [Hch Hon]. split; [assumption|]. split; [assumption|].
  pose proof (closure_good (Datatypes.S (List.length cs0)) _ seed_good) as HQ.
  apply orb_true_iff in Hon as [Hon|Hon].
  - unfold onpath in Hon. destruct (c_newp c) as [n|] eqn:Hn; [|discriminate].
    destruct (good_use n c (HQ n (memP_In _ _ Hon)) Hc (or_intror Hn)) as [Hh|[Hx _]]; [assumption|congruence].
  - apply andb_true_iff in Hon as [Hon _]. unfold onpath in Hon.
    destruct (c_oldp c) as [o|] eqn:Ho; [|discriminate].
    destruct (good_use o c (HQ o (memP_In _ _ Hon)) Hc (or_introl Ho)) as [Hh|[Hx _]]; [assumption|congruence].
Qed.

Definition fsel (c : change) : bool :=
  c_changed c && hit P c && negb (oinside E (c_oldp c) || oinside E (c_newp c)).

Lemma filter_excluded_eq : forall l,
  filter_excluded E l = filter (fun c => negb (oinside E (c_oldp c) || oinside E (c_newp c))) l.
Proof.
  intros l. unfold filter_excluded. apply filter_ext. intro c.
  destruct (oinside E (c_oldp c)), (oinside E (c_newp c)); reflexivity.
Qed.

Lemma filter_filter_and : forall (A : Type) (f g : A -> bool) l,
  filter g (filter f l) = filter (fun x => f x && g x) l.
Proof.
  intros A f g l; induction l as [|x l IH]; simpl; [reflexivity|].
  destruct (f x); simpl; [destruct (g x); rewrite IH; reflexivity | assumption].
Qed.

Lemma has_cid_filter_map : forall (g : change -> bool) l i,
  has_cid i (filter g (map (mk_change basis wt) l)) = memN i l && g (mk_change basis wt i).
Proof.
  intros g l i; induction l as [|j l IH]; simpl; [reflexivity|].
  destruct (g (mk_change basis wt j)) eqn:Eg; simpl; rewrite IH.
  - rewrite (N.eqb_sym j i). destruct (N.eqb i j) eqn:Eij; simpl; [|reflexivity].
    apply N.eqb_eq in Eij; subst j. rewrite Eg. reflexivity.
  - destruct (N.eqb i j) eqn:Eij; simpl; [|reflexivity].
    apply N.eqb_eq in Eij; subst j. rewrite Eg. rewrite !andb_false_r. reflexivity.
Qed.

Lemma emitted_has : forall S l i,
  match S with Some x => x | None => [[]] end = P ->
  iter_changes basis wt S = ICOk l ->
  has_cid i (filter_excluded E l) = memN i (all_ids basis wt) && fsel (mk_change basis wt i).
Proof.
  intros S l i HP H.
  assert (H' : (if forallb (versioned_somewhere cs0) P
                then ICOk (phase1 cs0 P ++ phase2 cs0 (phase1 cs0 P)) else ICNotVersioned) = ICOk l).
  { rewrite <- HP. exact H. }
  clear H. destruct (forallb (versioned_somewhere cs0) P); [|discriminate]. injection H' as <-.
  rewrite filter_excluded_eq, filter_app. unfold has_cid. rewrite existsb_app.
  fold (has_cid i (filter (fun c => negb (oinside E (c_oldp c) || oinside E (c_newp c))) (phase1 cs0 P))).
  rewrite phase1_eq, filter_filter_and. unfold cs0 at 1, all_changes. rewrite has_cid_filter_map.
  fold (fsel (mk_change basis wt i)).
  match goal with |- ?a || ?b = _ => destruct b eqn:Eb end; [|apply orb_false_r].
  rewrite orb_true_r. symmetry.
  apply existsb_exists in Eb as [c [Hc Hid]]. apply N.eqb_eq in Hid.
  apply filter_In in Hc as [Hc Hex]. rewrite <- phase1_eq in Hc.
  destruct (phase2_hit c Hc) as [Hin [Hch Hh]].
  pose proof (all_changes_from basis wt c Hin) as Hfrom. unfold from_trees in Hfrom. rewrite Hid in Hfrom.
  rewrite <- Hfrom. unfold fsel. rewrite Hch, Hh, Hex. simpl. rewrite andb_true_r.
  unfold cs0, all_changes in Hin. apply in_map_iff in Hin as [j [Hj Hjin]].
  assert (j = i) by (rewrite <- Hid, <- Hj; reflexivity). subst j.
  unfold memN. apply existsb_exists. exists i. split; [assumption|apply N.eqb_refl].
Qed.

End Closed.

Lemma lookup_In : forall t i e, lookup t i = Some e -> In (i, e) t.
Proof.
  induction t as [|[j x] r IH]; intros i e H; simpl in H; [discriminate|].
  destruct (N.eqb i j) eqn:E.
  - apply N.eqb_eq in E; subst. injection H as ->. left; reflexivity.
  - right. apply IH. assumption.
Qed.

Lemma lookup_in_ids : forall t i e, lookup t i = Some e -> memN i (ids t) = true.
Proof.
  intros t i e H. apply lookup_In in H. unfold memN. apply existsb_exists. exists i.
  split; [|apply N.eqb_refl]. unfold ids. apply in_map_iff. exists (i, e). split; [reflexivity|assumption].
Qed.

Lemma changed_in_ids : forall basis wt i, changed basis wt i = true -> memN i (all_ids basis wt) = true.
Proof.
  intros basis wt i H.
  assert (Happ : forall a b, memN i (a ++ b) = memN i a || memN i b)
    by (intros; unfold memN; apply existsb_app).
  unfold all_ids. rewrite Happ.
  destruct (memN i (ids basis)) eqn:Eb; [reflexivity|]. simpl. unfold memN at 1.
  unfold changed in H. destruct (lookup basis i) as [b|] eqn:Lb.
  - rewrite (lookup_in_ids basis i b Lb) in Eb. discriminate.
  - destruct (lookup wt i) as [w|] eqn:Lw; [|discriminate].
    apply existsb_exists. exists i. split; [|apply N.eqb_refl]. apply filter_In. split.
    + pose proof (lookup_in_ids wt i w Lw) as Hm. unfold memN in Hm. apply existsb_exists in Hm as [k [Hk Ek]].
      apply N.eqb_eq in Ek; subst k. assumption.
    + rewrite Eb. reflexivity.
Qed.

Lemma kind_eqb_eq : forall a b, kind_eqb a b = true -> a = b.
Proof. destruct a, b; simpl; intros; congruence. Qed.

Lemma unchanged_committed : forall basis wt i, rev_normal basis = true ->
  changed basis wt i = false -> committed_entry (lookup wt i) = lookup basis i.
Proof.
  intros basis wt i Hn H. unfold changed in H.
  destruct (lookup basis i) as [b|] eqn:Lb; destruct (lookup wt i) as [w|] eqn:Lw; simpl in H;
    try discriminate; [|reflexivity].
  apply negb_false_iff in H.
  pose proof (lookup_In basis i b Lb) as Hin. unfold rev_normal in Hn. rewrite forallb_forall in Hn.
  specialize (Hn (i, b) Hin). unfold rev_entry_ok, normal_entry in Hn. simpl in Hn.
  apply andb_true_iff in Hn as [Hm Hx]. apply negb_true_iff in Hm. apply Bool.eqb_prop in Hx.
  unfold entry_eqb in H.
  apply andb_true_iff in H as [H Hmiss]. apply andb_true_iff in H as [H Hex].
  apply andb_true_iff in H as [H Hcont]. apply andb_true_iff in H as [H Hkind].
  apply andb_true_iff in H as [Hpar Hname].
  apply N.eqb_eq in Hpar. apply N.eqb_eq in Hname. apply N.eqb_eq in Hcont.
  apply kind_eqb_eq in Hkind. apply Bool.eqb_prop in Hex. apply Bool.eqb_prop in Hmiss.
  unfold committed_entry. rewrite <- Hmiss, Hm. rewrite <- Hex, <- Hx, <- Hpar, <- Hname, <- Hkind, <- Hcont.
  destruct b as [bp bn bk bc bx bm]. cbn [e_parent e_name e_kind e_content e_exec e_missing] in *.
  rewrite Hm. reflexivity.
Qed.

(* the main theorem of the data half *)
Theorem commit_eq_substitute : forall basis wt S excl t wt',
  rev_normal basis = true ->
  selection_closed basis wt S excl = true ->
  commit basis wt S excl = COk t wt' ->
  forall i, lookup t i = subst_lookup basis wt (selected basis wt S excl) i.
Proof.
  intros basis wt S excl t wt' Hn Hc H i.
  destruct (commit_lookup basis wt S excl t wt' H) as [cs [Hs [Ht _]]].
  rewrite Ht. unfold selected_changes in Hs.
  destruct (iter_changes basis wt (option_map min_sel S)) as [l|] eqn:Ei; [|discriminate].
  injection Hs as <-.
  unfold selection_closed in Hc. apply andb_true_iff in Hc as [Hg1 Hg2].
  rewrite forallb_forall in Hg1. rewrite forallb_forall in Hg2.
  assert (HP : match option_map min_sel S with Some x => x | None => [[]] end = sel_paths S)
    by (destruct S; reflexivity).
  unfold subst_lookup.
  rewrite (emitted_has basis wt (sel_paths S) (min_sel excl)) with (S := option_map min_sel S); try assumption.
  - assert (Hsel : selected basis wt S excl i =
                   hit (sel_paths S) (mk_change basis wt i) &&
                   negb (oinside (min_sel excl) (tpath basis i) || oinside (min_sel excl) (tpath wt i)))
      by reflexivity.
    unfold fsel. change (c_changed (mk_change basis wt i)) with (changed basis wt i).
    change (c_oldp (mk_change basis wt i)) with (tpath basis i).
    change (c_newp (mk_change basis wt i)) with (tpath wt i).
    rewrite Hsel.
    destruct (changed basis wt i) eqn:Ech.
    + rewrite (changed_in_ids basis wt i Ech). simpl. reflexivity.
    + rewrite andb_false_r. simpl.
      match goal with |- _ = (if ?b then _ else _) => destruct b end; [|reflexivity].
      symmetry. apply unchanged_committed; assumption.
  - intros c Hin. specialize (Hg1 c Hin). apply andb_true_iff in Hg1 as [Hg1 _]. assumption.
  - intros c n Hin Hch Hh Hnp. specialize (Hg2 c Hin). rewrite Hch, Hh, Hnp in Hg2. assumption.
Qed.

(* every selected, not excluded id is committed -- no guard needed *)
Theorem selected_are_committed_partial : forall basis wt S excl t wt',
  commit basis wt S excl = COk t wt' ->
  exists cs, selected_changes basis wt (option_map min_sel S) (min_sel excl) = Some cs /\
  forall i, changed basis wt i = true -> selected basis wt S excl i = true -> has_cid i cs = true.
Proof.
  intros basis wt S excl t wt' H.
  destruct (commit_lookup basis wt S excl t wt' H) as [cs [Hs _]].
  exists cs. split; [assumption|]. intros i Hch Hsel.
  unfold selected_changes in Hs.
  destruct (iter_changes basis wt (option_map min_sel S)) as [l|] eqn:Ei; [|discriminate].
  injection Hs as <-. unfold iter_changes in Ei.
  destruct (forallb _ _); [|discriminate]. injection Ei as <-.
  set (cs0 := all_changes basis wt) in *.
  set (P := match option_map min_sel S with Some x => x | None => [[]] end) in *.
  assert (HP : P = sel_paths S) by (destruct S; reflexivity).
  unfold selected in Hsel. apply andb_true_iff in Hsel as [Hh Hx].
  apply existsb_exists. exists (mk_change basis wt i). split; [|apply N.eqb_refl].
  unfold filter_excluded. apply filter_In. split.
  - apply in_or_app. left. unfold phase1. apply filter_In. split.
    + unfold cs0, all_changes. apply in_map. pose proof (changed_in_ids basis wt i Hch) as Hm.
      unfold memN in Hm. apply existsb_exists in Hm as [k [Hk Ek]]. apply N.eqb_eq in Ek; subst; assumption.
    + apply andb_true_iff. split; [exact Hch|].
      (* the search set only grows *)
      assert (Hgrow : forall n Q p, is_inside_any Q p = true -> is_inside_any (search_closure n cs0 Q) p = true).
      { induction n as [|n IH]; intros Q p Hq; simpl; [assumption|].
        apply IH. rewrite is_inside_any_app, Hq. reflexivity. }
      unfold hit, mk_change. cbn [c_oldp c_newp]. rewrite <- HP in Hh. apply orb_true_iff in Hh. apply orb_true_iff.
      destruct Hh as [Hh|Hh]; [left|right]; unfold oinside in *;
        [destruct (tpath basis i)|destruct (tpath wt i)]; try discriminate; apply Hgrow; assumption.
  - simpl. apply negb_true_iff in Hx. 
    destruct (oinside (min_sel excl) (tpath basis i)), (oinside (min_sel excl) (tpath wt i)); simpl in *;
      try discriminate; reflexivity.
Qed.

(* a successful commit produces a valid revision tree that has a root *)
Theorem commit_result_valid : forall basis wt S excl t wt',
  commit basis wt S excl = COk t wt' -> valid_rev_tree t = true /\ fresh t root_id = false.
Proof.
  intros basis wt S excl t wt' H. unfold commit in H.
  destruct (selected_changes _ _ _ _) as [cs|]; [|discriminate].
  destruct (apply_delta basis (record (filter_iter_changes cs))) as [r|] eqn:Ea; [|discriminate].
  injection H as <- _. unfold apply_delta in Ea.
  destruct (_ && _ && valid_rev_tree _ && negb _) eqn:Ec; [|discriminate]. injection Ea as <-.
  apply andb_true_iff in Ec as [Ec Hr]. apply andb_true_iff in Ec as [_ Hv].
  apply negb_true_iff in Hr. split; assumption.
Qed.
