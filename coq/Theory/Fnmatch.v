(* Theory/Fnmatch.v -- facts about the fnmatch model (Model/Fnmatch.v):
   the backtracking matcher decides exactly the declarative language [gm];
   glob-free patterns match only themselves; "*" matches everything. *)
From Coq Require Import NArith List Bool Lia.
From BV Require Import Model.Fnmatch.
Import ListNotations.
Open Scope N_scope.

Lemma gmatch_star_eq : forall p s,
  gmatch (TStar :: p) s =
  gmatch p s || match s with [] => false | _ :: s' => gmatch (TStar :: p) s' end.
Proof. intros p s; destruct s; reflexivity. Qed.

Lemma gmatch_one_eq : forall t p c s,
  is_star t = false -> gmatch (t :: p) (c :: s) = tok_ok t c && gmatch p s.
Proof. intros t p c s H; destruct t; try reflexivity; discriminate. Qed.

Lemma gmatch_one_nil : forall t p, is_star t = false -> gmatch (t :: p) [] = false.
Proof. intros t p H; destruct t; try reflexivity; discriminate. Qed.

Lemma gmatch_star_sound : forall p,
  (forall s, gmatch p s = true -> gm p s) ->
  forall s, gmatch (TStar :: p) s = true -> gm (TStar :: p) s.
Proof.
  intros p IH s; induction s as [|c s IHs]; intro H; rewrite gmatch_star_eq in H.
  - rewrite orb_false_r in H. apply (gm_star p [] []). apply IH; exact H.
  - apply orb_true_iff in H; destruct H as [H|H].
    + apply (gm_star p [] (c :: s)). apply IH; exact H.
    + specialize (IHs H). inversion IHs as [| t p0 c0 s0 Hs _ _ |p0 s1 s2 Hg]; subst.
      * discriminate.
      * apply (gm_star p (c :: s1) s2); exact Hg.
Qed.

Lemma gmatch_sound : forall p s, gmatch p s = true -> gm p s.
Proof.
  induction p as [|t p IH]; intros s H.
  - destruct s; [constructor|discriminate].
  - destruct (is_star t) eqn:Et.
    + destruct t; try discriminate. apply gmatch_star_sound; assumption.
    + destruct s as [|c s]; [rewrite gmatch_one_nil in H by exact Et; discriminate|].
      rewrite gmatch_one_eq in H by exact Et.
      apply andb_true_iff in H; destruct H as [H1 H2].
      apply gm_one; auto.
Qed.

Lemma gmatch_complete : forall p s, gm p s -> gmatch p s = true.
Proof.
  intros p s H; induction H as [|t p c s Ht Hc _ IH|p s1 s2 _ IH].
  - reflexivity.
  - rewrite gmatch_one_eq by exact Ht. rewrite Hc, IH; reflexivity.
  - induction s1 as [|c s1 IH1].
    + rewrite gmatch_star_eq. cbn [app]. rewrite IH; reflexivity.
    + rewrite gmatch_star_eq. cbn [app]. rewrite IH1. apply orb_true_r.
Qed.

(* the executable matcher decides exactly the declarative language *)
Theorem gmatch_correct : forall p s, gmatch p s = true <-> gm p s.
Proof. intros p s; split; [apply gmatch_sound|apply gmatch_complete]. Qed.

Theorem fnmatch_correct : forall name pat,
  fnmatch name pat = true <-> gm (translate pat) name.
Proof. intros; apply gmatch_correct. Qed.

(* ---- glob-free patterns ---------------------------------------------------- *)
Lemma translate_aux_plain : forall pat fuel b,
  plain pat = true -> (length pat <= fuel)%nat ->
  translate_aux fuel pat b = map TLit pat.
Proof.
  induction pat as [|c pat IH]; intros fuel b Hp Hl.
  - destruct fuel; reflexivity.
  - destruct fuel as [|f]; [cbn in Hl; lia|].
    cbn [plain forallb] in Hp. apply andb_true_iff in Hp; destruct Hp as [Hc Hp].
    unfold plain_char in Hc.
    apply andb_true_iff in Hc; destruct Hc as [Hc H3].
    apply andb_true_iff in Hc; destruct Hc as [H1 H2].
    apply negb_true_iff in H1, H2, H3.
    cbn [translate_aux map]. rewrite H1, H2, H3.
    f_equal. apply IH; [exact Hp|cbn in Hl; lia].
Qed.

Lemma translate_plain : forall pat, plain pat = true -> translate pat = map TLit pat.
Proof. intros pat H; apply translate_aux_plain; [exact H|lia]. Qed.

Lemma gmatch_lits : forall p s, gmatch (map TLit p) s = true <-> s = p.
Proof.
  induction p as [|c p IH]; intros s.
  - destruct s; cbn; split; intro H; try reflexivity; discriminate.
  - destruct s as [|d s]; cbn [map gmatch tok_ok].
    + split; intro H; discriminate.
    + rewrite andb_true_iff, N.eqb_eq, IH. split.
      * intros [-> ->]; reflexivity.
      * intro H; injection H as -> ->; auto.
Qed.

(* a section-name segment without * ? [ matches exactly itself *)
Theorem fnmatch_plain : forall name pat,
  plain pat = true -> (fnmatch name pat = true <-> name = pat).
Proof.
  intros name pat Hp. unfold fnmatch. rewrite translate_plain by exact Hp.
  apply gmatch_lits.
Qed.

Lemma gmatch_star_all : forall s, gmatch [TStar] s = true.
Proof.
  induction s as [|c s IH]; [reflexivity|].
  rewrite gmatch_star_eq, IH. apply orb_true_r.
Qed.

Theorem fnmatch_star : forall name, fnmatch name [cSTAR] = true.
Proof. intro name; apply gmatch_star_all. Qed.

(* '?' matches exactly the one-character names *)
Theorem fnmatch_qm : forall name, fnmatch name [cQM] = true <-> exists c, name = [c].
Proof.
  intro name; unfold fnmatch; cbn. destruct name as [|c [|d s]]; cbn; split; intro H;
    try discriminate; try (destruct H as [? ?]; discriminate); eauto.
Qed.
