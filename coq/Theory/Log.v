(* Theory/Log.v -- proofs for C25 over Model/Log.v (the view calculation of log). *)
From Coq Require Import List Arith Bool Lia Permutation.
From BV Require Import Lib.Dag Theory.DagFacts Lib.DagMergeSort Theory.DagMergeSortFacts
                       Theory.DagMergeSortMainline Theory.DagMergeSortRevnos
                       Model.RevSpec Theory.RevSpec Model.Log Theory.LogRbd.
Import ListNotations.

(* the filter of reverse_by_depth on views: an entry needs a revno *)
Definition has_revno (a : revid * option revno) : bool :=
  match snd a with Some _ => true | None => false end.

(* a merge-sorted entry as a view revision *)
Definition whole_view (e : ms4) : view := view_of e (m_depth e).

(* ---- the batch loop without filter, limit or error is the identity ------------------ *)

Lemma take_batch_all levels count (l : list view) :
  (forall v, In v l -> levels = 0 \/ v_depth v < levels) ->
  take_batch levels None count l = (l, count, false).
Proof.
  induction l as [|v l IH]; intros H; cbn [take_batch]; [reflexivity|].
  assert (E : negb (levels =? 0) && (levels <=? v_depth v) = false).
  { destruct (H v (or_introl eq_refl)) as [->|L]; [reflexivity|].
    rewrite (proj2 (Nat.leb_gt _ _) L). apply andb_false_r. }
  rewrite E, IH; [reflexivity | intros; apply H; right; assumption].
Qed.

Lemma log_batches_all levels : forall fuel num count (l : list view),
  length l < fuel -> 1 <= num ->
  (forall v, In v l -> levels = 0 \/ v_depth v < levels) ->
  log_batches fuel num levels None count l None = (l, None).
Proof.
  induction fuel as [|f IH]; intros num count l L N H; [lia|]. cbn [log_batches].
  destruct (num <=? length l) eqn:C.
  - apply Nat.leb_le in C.
    rewrite take_batch_all
      by (intros v Hv; apply H; rewrite <- (firstn_skipn num l); apply in_or_app; left; exact Hv).
    rewrite IH.
    + rewrite firstn_skipn. reflexivity.
    + rewrite skipn_length. lia.
    + assert (1 <= num + num / 2) by lia. lia.
    + intros v Hv. apply H. rewrite <- (firstn_skipn num l). apply in_or_app. right. exact Hv.
  - rewrite take_batch_all by exact H. reflexivity.
Qed.

(* ---- the whole history ------------------------------------------------------------------ *)

Lemma iter_whole b rule :
  iter_merge_sorted_revisions b None None rule false = merge_sort (br_g b) (br_tip b).
Proof. rewrite <- (iter_all b). reflexivity. Qed.

Lemma rebase_initial_zero l : rebase_initial (Some 0) l = map whole_view l.
Proof. induction l as [|e l IH]; cbn [rebase_initial map]; [reflexivity|]. cbn [Nat.eqb]. rewrite IH. reflexivity. Qed.

Lemma rebase_initial_head0 l : match l with [] => True | e :: _ => m_depth e = 0 end ->
  rebase_initial None l = map whole_view l.
Proof.
  destruct l as [|e l]; [reflexivity|]. intros H. cbn [rebase_initial map]. rewrite H. cbn [Nat.eqb].
  rewrite rebase_initial_zero. unfold whole_view. rewrite H. reflexivity.
Qed.

Lemma merge_sort_depths g tip : map m_depth (merge_sort g tip) = map e_depth (merge_sorted g tip).
Proof.
  unfold merge_sort. rewrite <- (with_eom_fst g (merge_sorted g tip)) at 2. rewrite map_map. reflexivity.
Qed.

Section Whole.
  Variable b : branch.
  Variable t : revid.
  Hypothesis W : wf_dag (br_g b) = true.
  Hypothesis T : br_tip b = Some t.
  Hypothesis L : t < length (br_g b).

  Let ms := merge_sort (br_g b) (br_tip b).

  Lemma ms_head0 : match ms with [] => True | e :: _ => m_depth e = 0 end.
  Proof.
    unfold ms. rewrite T. destruct (merge_sorted_steps (br_g b) t W L) as [_ H].
    unfold merge_sort. destruct (merge_sorted (br_g b) (Some t)) as [|h l]; [exfalso; exact H|].
    cbn [with_eom]. exact H.
  Qed.

  (* _calc_view_revisions for the whole history, newest first, with merges *)
  Lemma calc_view_whole_reverse :
    calc_view b None None false true false false = (map whole_view ms, None).
  Proof.
    unfold calc_view. cbn [andb oeqb]. rewrite T. cbn [negb].
    unfold generate_all. cbn [andb]. unfold graph_view. cbn [negb]. rewrite iter_whole.
    fold ms. rewrite (rebase_initial_head0 _ ms_head0). reflexivity.
  Qed.

  Lemma whole_view_id l : map v_id (map whole_view l) = map m_id l.
  Proof. rewrite map_map. reflexivity. Qed.
  Lemma whole_view_depth l : map v_depth (map whole_view l) = map m_depth l.
  Proof. rewrite map_map. reflexivity. Qed.

  Lemma limits_none : revision_limits b None None = None.
  Proof. unfold revision_limits. rewrite T. reflexivity. Qed.

  (* log of the whole branch (reverse, all levels, no limit): every merge-sorted
     entry, in merge-sorted order, with its revno and depth *)
  Theorem log_whole_reverse :
    log_revisions b None None false 0 0 false = (map whole_view ms, None).
  Proof.
    unfold log_revisions. rewrite limits_none. cbn [Nat.eqb negb orb].
    rewrite calc_view_whole_reverse.
    apply log_batches_all; [lia | lia | intros; left; reflexivity].
  Qed.

  (* ... hence every present revision of the tip's ancestry exactly once *)
  Theorem log_whole_each_once :
    Permutation (map v_id (fst (log_revisions b None None false 0 0 false)))
                (filter (present (br_g b)) (ancestors (br_g b) [t])).
  Proof.
    rewrite log_whole_reverse. cbn [fst]. rewrite whole_view_id. unfold ms.
    rewrite merge_sort_ids, T. apply merge_sorted_perm; assumption.
  Qed.

  (* the views are depth-well-formed and all carry a revno *)
  Lemma whole_views_wf : wf_depths (map whole_view ms) = true.
  Proof.
    unfold wf_depths. change (map snd (map whole_view ms)) with (map v_depth (map whole_view ms)).
    rewrite whole_view_depth. unfold ms. rewrite merge_sort_depths, T.
    destruct (merge_sorted_steps (br_g b) t W L) as [S0 H0].
    assert (G : forall l lim, steps l -> match l with [] => True | h :: _ => e_depth h <= lim end ->
                okd 0 lim (map e_depth l) = true).
    { induction l as [|e l IH]; intros lim S1 H; [reflexivity|].
      cbn [map okd]. cbn [steps] in S1. destruct S1 as [A B].
      rewrite (proj2 (Nat.leb_le _ _) H). cbn [Nat.leb andb].
      apply IH; [exact B | destruct l; [trivial | exact A]]. }
    apply G; [exact S0|]. destruct (merge_sorted (br_g b) (Some t)); [trivial | lia].
  Qed.

  Lemma whole_views_revno : forallb (fun x => has_revno (fst x)) (map whole_view ms) = true.
  Proof. apply forallb_forall. intros x Hx. apply in_map_iff in Hx as [e [<- _]]. reflexivity. Qed.

  (* forward = reverse_by_depth of reverse *)
  Theorem log_whole_forward :
    log_revisions b None None true 0 0 false =
    (reverse_by_depth has_revno (fst (log_revisions b None None false 0 0 false)), None).
  Proof.
    rewrite log_whole_reverse. cbn [fst].
    unfold log_revisions. rewrite limits_none. cbn [Nat.eqb negb orb].
    unfold calc_view. cbn [andb oeqb]. rewrite T. cbn [negb].
    unfold generate_all. cbn [andb]. unfold graph_view. cbn [negb]. rewrite iter_whole.
    fold ms. change (map (fun e : ms4 => view_of e (m_depth e)) ms) with (map whole_view ms).
    change (fun a : revid * option revno => match snd a with Some _ => true | None => false end) with has_revno.
    rewrite rebase_noop_if_zero.
    - apply log_batches_all; [lia | lia | intros; left; reflexivity].
    - (* the tip is a depth-0 entry of the result *)
      pose proof ms_head0 as H0. destruct ms as [|e l] eqn:E.
      + exfalso. unfold ms in E. rewrite T in E. unfold merge_sort in E.
        destruct (merge_sorted_head (br_g b) t L) as [rv [rest Eh]]. rewrite Eh in E. discriminate.
      + exists (whole_view e). split; [|exact H0].
        eapply Permutation_in; [symmetry; apply reverse_by_depth_perm|].
        apply filter_In. split; [left; reflexivity | reflexivity].
  Qed.

  (* ... and reverse = reverse_by_depth of forward: the two orders determine each other *)
  Theorem log_whole_reverse_of_forward :
    reverse_by_depth has_revno (fst (log_revisions b None None true 0 0 false)) =
    fst (log_revisions b None None false 0 0 false).
  Proof.
    rewrite log_whole_forward. cbn [fst]. rewrite log_whole_reverse. cbn [fst].
    apply reverse_by_depth_involutive; [apply whole_views_wf | apply whole_views_revno].
  Qed.
End Whole.

(* ---- level 1 = the left-hand history --------------------------------------------------------- *)

Lemma count_down_ids n l : map v_id (count_down n l) = l.
Proof. revert n. induction l as [|r l IH]; intros n; cbn [count_down map]; [reflexivity|]. rewrite IH. reflexivity. Qed.

Lemma count_down_depth n l v : In v (count_down n l) -> v_depth v = 0.
Proof.
  revert n. induction l as [|r l IH]; intros n; cbn [count_down]; [contradiction|].
  intros [<-|H]; [reflexivity | apply (IH _ H)].
Qed.

Lemma count_down_nth n l i r : nth_error l i = Some r ->
  nth_error (count_down n l) i = Some ((r, Some [n - i]), 0).
Proof.
  revert n i. induction l as [|x l IH]; intros n i; [destruct i; discriminate|].
  destruct i as [|i]; cbn [nth_error count_down].
  - intros H. injection H as ->. rewrite Nat.sub_0_r. reflexivity.
  - intros H. rewrite (IH (n - 1) i H). replace (n - 1 - i) with (n - S i) by lia. reflexivity.
Qed.

Section Level1.
  Variable b : branch.
  Variable t : revid.
  Hypothesis T : br_tip b = Some t.

  Lemma calc_view_level1 forward delayed :
    calc_view b None None forward false delayed false =
    ((if forward then rev (count_down (last_revno b) (lh b)) else count_down (last_revno b) (lh b)), None).
  Proof.
    unfold calc_view. cbn [andb oeqb]. rewrite T. cbn [negb linear_view andb orb].
    destruct forward; reflexivity.
  Qed.

  (* log -n1 of the whole branch: exactly the left-hand history, newest first,
     numbered last_revno, last_revno - 1, ... *)
  Theorem log_level1_reverse :
    log_revisions b None None false 1 0 false = (count_down (last_revno b) (lh b), None).
  Proof.
    unfold log_revisions, revision_limits. rewrite T. cbn [limit_revno Nat.eqb negb orb].
    rewrite calc_view_level1.
    apply log_batches_all; [lia | lia | intros v Hv; right; rewrite (count_down_depth _ _ v Hv); lia].
  Qed.

  Theorem log_level1_forward :
    log_revisions b None None true 1 0 false = (rev (count_down (last_revno b) (lh b)), None).
  Proof.
    unfold log_revisions, revision_limits. rewrite T. cbn [limit_revno Nat.eqb negb orb].
    rewrite calc_view_level1.
    apply log_batches_all; [lia | lia |].
    intros v Hv. right. apply in_rev in Hv. rewrite (count_down_depth _ _ v Hv). lia.
  Qed.

  Corollary log_level1_is_lefthand :
    map v_id (fst (log_revisions b None None false 1 0 false)) = lefthand (br_g b) t /\
    map v_id (fst (log_revisions b None None true 1 0 false)) = rev (lefthand (br_g b) t).
  Proof.
    rewrite log_level1_reverse, log_level1_forward. cbn [fst]. rewrite map_rev, count_down_ids.
    unfold lh. rewrite T. split; reflexivity.
  Qed.
End Level1.

(* the level filter applied to the merge-sorted view gives the same revisions
   as the linear fast path *)
Lemma depth0_with_eom g l :
  map m_id (filter (fun e => m_depth e =? 0) (with_eom g l)) = map e_id (depth0 l).
Proof.
  induction l as [|e l IH]; [reflexivity|]. cbn [with_eom filter depth0].
  unfold m_depth at 1. cbn [fst]. fold (depth0 l).
  destruct (e_depth e =? 0); cbn [map]; rewrite IH; reflexivity.
Qed.

Theorem linear_eq_graph_whole b t : wf_dag (br_g b) = true -> br_tip b = Some t ->
  t < length (br_g b) -> lefthand_present (br_g b) t = true ->
  map v_id (filter (fun v => v_depth v <? 1) (fst (log_revisions b None None false 0 0 false))) =
  map v_id (fst (log_revisions b None None false 1 0 false)).
Proof.
  intros W T L P. rewrite (log_whole_reverse b t W T L), (log_level1_reverse b t T). cbn [fst].
  rewrite count_down_ids. unfold lh. rewrite T. cbn [lefthand_opt].
  rewrite <- (depth0_is_lefthand (br_g b) t W L P), <- (depth0_with_eom (br_g b)).
  fold (merge_sort (br_g b) (Some t)).
  induction (merge_sort (br_g b) (Some t)) as [|e l IH]; [reflexivity|].
  cbn [map filter]. unfold whole_view at 1, view_of, v_depth. cbn [snd].
  destruct (m_depth e) as [|d]; cbn [Nat.ltb Nat.leb Nat.eqb map]; [f_equal|]; exact IH.
Qed.

(* ---- ranges on the linear path ------------------------------------------------------------------ *)

Definition mk_view (b : branch) (r : revid) : view := ((r, compute_revno b r), 0).

Lemma lin_walk_found b s excl pre post : ~ In s pre ->
  lin_walk b (Some s) excl (pre ++ s :: post) =
  (map (mk_view b) pre ++ (if excl then [] else [mk_view b s]), true).
Proof.
  induction pre as [|r pre IH]; intros N; cbn [app lin_walk map oeqb].
  - rewrite Nat.eqb_refl. reflexivity.
  - assert (E : (s =? r) = false) by (apply Nat.eqb_neq; intros ->; apply N; left; reflexivity).
    rewrite E, IH; [reflexivity | intros X; apply N; right; exact X].
Qed.

Lemma lin_walk_not_found b s excl l : ~ In s l -> lin_walk b (Some s) excl l = (map (mk_view b) l, false).
Proof.
  induction l as [|r l IH]; intros N; cbn [lin_walk map oeqb]; [reflexivity|].
  assert (E : (s =? r) = false) by (apply Nat.eqb_neq; intros ->; apply N; left; reflexivity).
  rewrite E, IH; [reflexivity | intros X; apply N; right; exact X].
Qed.

(* a range whose start is on the left-hand history of its end: exactly the segment between them *)
Theorem linear_view_range b s e pre post excl : wf_dag (br_g b) = true ->
  lefthand (br_g b) e = pre ++ s :: post ->
  linear_view b (Some s) (Some e) excl =
  (map (mk_view b) pre ++ (if excl then [] else [mk_view b s]), None).
Proof.
  intros W E. unfold linear_view. cbn [lefthand_opt]. rewrite E.
  assert (N : ~ In s pre).
  { pose proof (lefthand_NoDup (br_g b) e W) as ND. rewrite E in ND.
    apply NoDup_remove_2 in ND. intros X. apply ND. apply in_or_app. left. exact X. }
  rewrite (lin_walk_found b s excl pre post N). reflexivity.
Qed.

(* ... and a start that is not there ends the generator with the internal exception *)
Theorem linear_view_not_found b s e excl : ~ In s (lefthand (br_g b) e) ->
  linear_view b (Some s) (Some e) excl =
  (map (mk_view b) (lefthand (br_g b) e), Some StartNotLinearAncestor).
Proof.
  intros N. unfold linear_view. cbn [lefthand_opt]. rewrite (lin_walk_not_found b s excl _ N). reflexivity.
Qed.

Theorem calc_view_range_level1 b tip s e pre post forward delayed : wf_dag (br_g b) = true ->
  br_tip b = Some tip -> s <> e -> lefthand (br_g b) e = pre ++ s :: post ->
  calc_view b (Some s) (Some e) forward false delayed false =
  ((if forward then rev (map (mk_view b) (pre ++ [s])) else map (mk_view b) (pre ++ [s])), None).
Proof.
  intros W T Ne E. unfold calc_view. cbn [andb oeqb]. rewrite T.
  rewrite (proj2 (Nat.eqb_neq s e) Ne). cbn [andb negb].
  rewrite (linear_view_range b s e pre post false W E). rewrite map_app. cbn [map].
  destruct forward; cbn [orb]; [reflexivity|].
  destruct (is_obvious_ancestor b (Some s) (Some e)); reflexivity.
Qed.

(* ---- the escaping internal exception ------------------------------------------------------------- *)

(* the only way _StartNotLinearAncestor can come out of _calc_view_revisions *)
Theorem calc_view_internal_error_guarded b start end_ forward gen_merge delayed excl :
  snd (calc_view b start end_ forward gen_merge delayed excl) = Some StartNotLinearAncestor ->
  forward = false /\ gen_merge = false /\ (exists s, start = Some s) /\
  is_obvious_ancestor b start end_ = true /\
  snd (linear_view b start end_ excl) = Some StartNotLinearAncestor.
Proof.
  unfold calc_view.
  destruct (excl && oeqb start end_); [discriminate|].
  destruct (br_tip b); [|discriminate].
  assert (Slow : forall u, snd (match generate_all b start end_ forward delayed excl with
                  | inl vs => (if forward then rebase_merge_depth (reverse_by_depth
                       (fun a : revid * option revno => match snd a with Some _ => true | None => false end) vs) else vs, None)
                  | inr e => ([], Some e) end) = Some StartNotLinearAncestor -> u).
  { intros u. unfold generate_all.
    set (end' := match start, end_ with Some _, None => br_tip b | _, _ => end_ end).
    destruct delayed.
    - destruct (linear_view b start end' excl) as [lin err].
      destruct (split_at_merge (br_g b) lin) as [ini [mr|]].
      + destruct (match start, end' with Some s, Some e => negb (is_ancestor (br_g b) s e) | _, _ => false end);
          discriminate.
      + destruct err; discriminate.
    - discriminate. }
  destruct (match end_ with
            | Some e => if oeqb start end_ && (negb gen_merge || negb (has_merges (br_g b) e)) then Some e else None
            | None => None end); [discriminate|].
  destruct gen_merge; cbn [negb]; [apply Slow|].
  destruct (linear_view b start end_ excl) as [lin err] eqn:El.
  destruct forward; cbn [orb].
  - destruct err; [apply Slow | discriminate].
  - destruct start as [s|]; cbn [andb].
    + destruct (is_obvious_ancestor b (Some s) end_) eqn:O; cbn [negb].
      * cbn [snd]. intros ->. repeat split. exists s. reflexivity.
      * destruct err; [apply Slow | discriminate].
    + cbn [snd]. intros ->. exfalso. unfold linear_view in El.
      destruct end_ as [e|].
      * destruct (lin_walk b None excl (lefthand_opt (br_g b) (Some e))). rewrite orb_true_r in El. discriminate.
      * discriminate.
Qed.

(* ---- the linear path and the level filter agree entry by entry ------------------------------ *)

Definition mainline_view (g : dag) (r : revid) : view := ((r, Some [length (lefthand g r)]), 0).

Lemma count_down_lefthand g : wf_dag g = true -> forall t,
  count_down (length (lefthand g t)) (lefthand g t) = map (mainline_view g) (lefthand g t).
Proof.
  intros W t. induction t as [t IH] using lt_wf_ind.
  destruct (Nat.lt_ge_cases t (length g)) as [L|G].
  - rewrite (lefthand_unfold g t W L).
    destruct (parents g t) as [|p ps] eqn:E.
    + cbn [length count_down map]. unfold mainline_view. rewrite (lefthand_unfold g t W L), E. reflexivity.
    + cbn [length count_down map]. replace (S (length (lefthand g p)) - 1) with (length (lefthand g p)) by lia.
      assert (Hp : In p (parents g t)) by (rewrite E; left; reflexivity).
      destruct (wf_parents g t p W Hp) as [Lt|Gp].
      * rewrite (IH p Lt). change (mainline_view g t) with ((t, Some [length (lefthand g t)]), 0).
        rewrite (lefthand_unfold g t W L), E. reflexivity.
      * rewrite (lefthand_ghost g p Gp). cbn [length count_down map].
        change (mainline_view g t) with ((t, Some [length (lefthand g t)]), 0).
        change (mainline_view g p) with ((p, Some [length (lefthand g p)]), 0).
        rewrite (lefthand_unfold g t W L), E, (lefthand_ghost g p Gp). reflexivity.
  - rewrite (lefthand_ghost g t G). cbn [length count_down map]. unfold mainline_view.
    rewrite (lefthand_ghost g t G). reflexivity.
Qed.

Lemma whole_view_eq (e : ms_entry) (b0 : bool) :
  whole_view (e, b0) = ((e_id e, Some (e_revno e)), e_depth e).
Proof. reflexivity. Qed.

Lemma filter_whole_cons g e l :
  filter (fun v => v_depth v <? 1) (map whole_view (with_eom g (e :: l))) =
  (if e_depth e =? 0 then [((e_id e, Some (e_revno e)), e_depth e)] else []) ++
  filter (fun v => v_depth v <? 1) (map whole_view (with_eom g l)).
Proof.
  cbn [with_eom map filter]. rewrite whole_view_eq. unfold v_depth at 1. cbn [snd].
  destruct (e_depth e); reflexivity.
Qed.

Theorem linear_eq_graph_whole_full b (t : revid) : wf_dag (br_g b) = true -> br_tip b = Some t ->
  t < length (br_g b) -> lefthand_present (br_g b) t = true ->
  filter (fun v => v_depth v <? 1) (fst (log_revisions b None None false 0 0 false)) =
  fst (log_revisions b None None false 1 0 false).
Proof.
  intros W T L P. rewrite (log_whole_reverse b t W T L), (log_level1_reverse b t T). cbn [fst].
  unfold last_revno, lh. rewrite T. cbn [lefthand_opt]. rewrite (count_down_lefthand (br_g b) W t).
  rewrite <- (depth0_is_lefthand (br_g b) t W L P).
  pose proof (merge_sorted_shape (br_g b) t W L P) as Sh.
  pose proof (depth0_is_lefthand (br_g b) t W L P) as D0.
  unfold merge_sort.
  assert (G : forall l, (forall e, In e l -> In e (merge_sorted (br_g b) (Some t))) ->
              (forall e, In e (depth0 l) -> In (e_id e) (lefthand (br_g b) t)) ->
              filter (fun v => v_depth v <? 1) (map whole_view (with_eom (br_g b) l)) =
              map (mainline_view (br_g b)) (map e_id (depth0 l))).
  { induction l as [|e l IH]; intros Hsub Hml; [reflexivity|].
    rewrite filter_whole_cons. cbn [depth0 filter]. fold (depth0 l).
    assert (IH' : filter (fun v => v_depth v <? 1) (map whole_view (with_eom (br_g b) l)) =
                  map (mainline_view (br_g b)) (map e_id (depth0 l))).
    { apply IH; [intros e' He'; apply Hsub; right; exact He'|].
      intros e' He'. apply Hml. cbn [depth0 filter]. destruct (e_depth e =? 0); [right|]; exact He'. }
    rewrite IH'. destruct (e_depth e =? 0) eqn:Ed; [|reflexivity].
    cbn [app map]. f_equal. apply Nat.eqb_eq in Ed. unfold mainline_view.
    destruct (Sh e (Hsub e (or_introl eq_refl))) as [[_ Er]|[Hout _]].
    - rewrite Er, Ed. reflexivity.
    - exfalso. apply Hout. apply Hml. cbn [depth0 filter]. rewrite (proj2 (Nat.eqb_eq _ _) Ed). left. reflexivity. }
  apply G; [auto|]. intros e He. rewrite <- D0. apply in_map. exact He.
Qed.

(* ---- examples: the hypotheses are satisfiable by non-trivial values ------------------------------- *)

Example ex_rbd :
  wf_depths [(0, 0); (1, 1); (2, 2); (3, 1); (4, 0)] = true /\
  reverse_by_depth (fun _ : nat => true) [(0, 0); (1, 1); (2, 2); (3, 1); (4, 0)] =
    [(4, 0); (0, 0); (3, 1); (1, 1); (2, 2)].
Proof. split; reflexivity. Qed.

(* ex_nested (Theory/RevSpec.v) has a merge of a merge: depths 0, 1 and 2 *)
Example ex_log_nested :
  map (fun v => (v_id v, v_depth v)) (fst (log_revisions ex_nested None None false 0 0 false)) =
    [(8, 0); (7, 0); (6, 1); (5, 2); (4, 1); (3, 1); (2, 0); (1, 0); (0, 0)] /\
  map v_id (fst (log_revisions ex_nested None None true 0 0 false)) = [0; 1; 2; 7; 3; 4; 6; 5; 8] /\
  map v_id (fst (calc_view ex_nested (Some 1) (Some 7) false false true false)) = [7; 2; 1] /\
  lefthand (br_g ex_nested) 7 = [7; 2] ++ 1 :: [0].
Proof. vm_compute. repeat split. Qed.

(* ---- no internal exception escapes ------------------------------------------------------------ *)

(* two revisions on one development line (same base revno, same branch number):
   the lower numbered one is on the left-hand history of the higher numbered one *)
Definition lines_ok (b : branch) : Prop :=
  forall es ee a k x y, In es (merge_sorted (br_g b) (br_tip b)) -> In ee (merge_sorted (br_g b) (br_tip b)) ->
  e_revno es = [a; k; x] -> e_revno ee = [a; k; y] -> x <= y ->
  In (e_id es) (lefthand (br_g b) (e_id ee)).

Lemma dict_get_entry (l : list ms4) r d : NoDup (map m_id l) ->
  dict_get r (revno_map_of l) = Some d -> exists e, In e l /\ m_id e = r /\ m_revno e = d.
Proof.
  intros N H. rewrite (revno_map_of_nodup l N) in H.
  assert (Nk : NoDup (keys (map entry_kv l))) by (unfold keys; rewrite map_map; exact N).
  apply (dict_get_In _ _ _ Nk) in H. apply in_map_iff in H as [e [E He]].
  exists e. unfold entry_kv in E. injection E as <- <-. repeat split. exact He.
Qed.

Lemma nth_error_skipn' {A} (l : list A) n i : nth_error (skipn n l) i = nth_error l (n + i).
Proof.
  revert l. induction n as [|n IH]; intros l; [reflexivity|].
  destruct l as [|x l]; [destruct i; reflexivity | apply IH].
Qed.

Section NoLeak.
  Variable b : branch.
  Variable t : revid.
  Hypothesis W : wf_dag (br_g b) = true.
  Hypothesis T : br_tip b = Some t.
  Hypothesis L : t < length (br_g b).
  Hypothesis P : lefthand_present (br_g b) t = true.

  (* what a dotted revno says about a revision *)
  Lemma dotted_cases s d : revision_id_to_dotted_revno b (Some s) = Ok d ->
    (exists n, d = [S n] /\ nth_error (history b) n = Some s) \/
    (~ In s (lh b) /\ length d = 3 /\
     exists e, In e (merge_sorted (br_g b) (br_tip b)) /\ e_id e = s /\ e_revno e = d).
  Proof.
    unfold revision_id_to_dotted_revno.
    destruct (revision_id_to_revno b (Some s)) as [n|err] eqn:E.
    - intros H. injection H as <-. left. destruct n as [|n].
      + exfalso. unfold revision_id_to_revno in E. destruct (index_of s (lh b)) as [i|] eqn:Ei; [|discriminate].
        apply index_of_nth in Ei. assert (i < length (lh b)) by (apply nth_error_Some; congruence).
        injection E as E. unfold last_revno in E. lia.
      + exists n. split; [reflexivity | apply (revision_id_to_revno_spec b s n W); exact E].
    - assert (Nm : ~ In s (lh b)).
      { unfold revision_id_to_revno in E. destruct (index_of s (lh b)) eqn:X; [discriminate|].
        apply index_of_none_notin. exact X. }
      unfold revno_map. rewrite iter_all.
      destruct (dict_get s (revno_map_of (merge_sort (br_g b) (br_tip b)))) as [d'|] eqn:Ed; [|discriminate].
      intros H. injection H as <-. right. split; [exact Nm|].
      destruct (dict_get_entry (merge_sort (br_g b) (br_tip b)) s d') as [e4 [He4 [Ei Er]]]; [|exact Ed|].
      { rewrite merge_sort_ids. apply merge_sorted_NoDup. exact W. }
      assert (He : In (fst e4) (merge_sorted (br_g b) (br_tip b))).
      { rewrite <- (with_eom_fst (br_g b) (merge_sorted (br_g b) (br_tip b))). apply in_map. exact He4. }
      assert (He' := He). rewrite T in He'.
      destruct (merge_sorted_shape (br_g b) t W L P (fst e4) He') as [[Hin _]|[_ L3]].
      + exfalso. apply Nm. unfold lh. rewrite T. cbn [lefthand_opt]. rewrite <- Ei. exact Hin.
      + split; [rewrite <- Er; exact L3|]. exists (fst e4). repeat split; assumption.
  Qed.

  Lemma mainline_order ns ne s e : ns <= ne ->
    nth_error (history b) ns = Some s -> nth_error (history b) ne = Some e ->
    In s (lefthand (br_g b) e).
  Proof.
    intros Le Hs He. unfold history in *.
    assert (Ls : ns < length (lh b)) by (rewrite <- rev_length; apply nth_error_Some; congruence).
    assert (Lee : ne < length (lh b)) by (rewrite <- rev_length; apply nth_error_Some; congruence).
    rewrite nth_error_rev in Hs, He by assumption.
    unfold lh in *. rewrite T in *. cbn [lefthand_opt] in *.
    rewrite (lefthand_skipn (br_g b) W _ t e He).
    set (ie := length (lefthand (br_g b) t) - S ne) in *.
    set (is_ := length (lefthand (br_g b) t) - S ns) in *.
    assert (X : nth_error (skipn ie (lefthand (br_g b) t)) (is_ - ie) = Some s).
    { rewrite nth_error_skipn'. replace (ie + (is_ - ie)) with is_ by (unfold ie, is_; lia). exact Hs. }
    eapply nth_error_In. exact X.
  Qed.

  Lemma lines_ok_holds : lines_ok b.
  Proof.
    unfold lines_ok. rewrite T. intros es ee a k x y. apply (merge_sorted_same_line (br_g b) t W L).
  Qed.

  Theorem obvious_is_linear s end_ excl :
    is_obvious_ancestor b (Some s) end_ = true -> snd (linear_view b (Some s) end_ excl) = None.
  Proof.
    intros O. pose proof lines_ok_holds as LO.
    assert (Hin : In s (lefthand_opt (br_g b) (match end_ with Some e => Some e | None => br_tip b end))).
    { unfold is_obvious_ancestor in O. destruct end_ as [e|].
      - destruct (revision_id_to_dotted_revno b (Some s)) as [sd|] eqn:Es; [|discriminate].
        destruct (revision_id_to_dotted_revno b (Some e)) as [ed|] eqn:Ee; [|discriminate].
        destruct (dotted_cases s sd Es) as [[ns [-> Hs]]|[_ [Ls3 [es [Hes [Eis Ers]]]]]];
        destruct (dotted_cases e ed Ee) as [[ne [-> He]]|[_ [Le3 [ee [Hee [Eie Ere]]]]]].
        + cbn [lefthand_opt]. apply Nat.leb_le in O. apply (mainline_order ns ne s e); [lia | exact Hs | exact He].
        + destruct ed as [|? [|? [|? [|? ?]]]]; cbn in Le3; try lia; discriminate.
        + destruct sd as [|? [|? [|? [|? ?]]]]; cbn in Ls3; try lia; discriminate.
        + destruct sd as [|s0 [|s1 [|s2 [|? ?]]]]; cbn in Ls3; try lia.
          destruct ed as [|e0 [|e1 [|e2 [|? ?]]]]; cbn in Le3; try lia.
          destruct ((s0 =? e0) && (s1 =? e1)) eqn:C; [|discriminate].
          apply andb_true_iff in C as [C0 C1]. apply Nat.eqb_eq in C0, C1. subst e0 e1.
          apply Nat.leb_le in O. cbn [lefthand_opt]. rewrite <- Eis, <- Eie.
          apply (LO es ee s0 s1 s2 e2 Hes Hee Ers Ere O).
      - destruct (revision_id_to_dotted_revno b (Some s)) as [sd|] eqn:Es; [|discriminate].
        destruct (dotted_cases s sd Es) as [[ns [-> Hs]]|[_ [Ls3 _]]].
        + rewrite T. cbn [lefthand_opt]. apply in_rev. fold (lefthand_opt (br_g b) (Some t)).
          rewrite <- T. fold (lh b). fold (history b). eapply nth_error_In. exact Hs.
        + destruct sd as [|? [|? [|? [|? ?]]]]; cbn in Ls3; try lia; discriminate. }
    unfold linear_view.
    assert (G : forall l, In s l -> snd (lin_walk b (Some s) excl l) = true).
    { induction l as [|r l IH]; [contradiction|]. intros H. cbn [lin_walk oeqb].
      destruct (s =? r) eqn:E; [reflexivity|]. apply Nat.eqb_neq in E.
      destruct H as [H|H]; [congruence|]. specialize (IH H).
      destruct (lin_walk b (Some s) excl l). exact IH. }
    specialize (G _ Hin).
    destruct end_ as [e|]; destruct (lin_walk b (Some s) excl _) as [vs found]; cbn [snd] in *; rewrite G; reflexivity.
  Qed.

  (* _calc_view_revisions never ends with the internal _StartNotLinearAncestor *)
  Theorem calc_view_no_internal_error start end_ forward gen_merge delayed excl :
    snd (calc_view b start end_ forward gen_merge delayed excl) <> Some StartNotLinearAncestor.
  Proof.
    intros H.
    destruct (calc_view_internal_error_guarded b start end_ forward gen_merge delayed excl H)
      as [_ [_ [[s ->] [O E]]]].
    rewrite (obvious_is_linear s end_ excl O) in E. discriminate.
  Qed.
End NoLeak.
