(* Theory/Log.v -- proofs for C25 over Model/Log.v (the view calculation of log). *)
From Coq Require Import List Arith Bool Lia Permutation.
From BV Require Import Lib.Dag Theory.DagFacts Lib.DagMergeSort Theory.DagMergeSortFacts
                       Model.RevSpec Theory.RevSpec Model.Log Theory.LogRbd.
Import ListNotations.

(* the filter of reverse_by_depth on views: an entry needs a revno *)
Definition has_revno (a : revid * option revno) : bool :=
  match snd a with Some _ => true | None => false end.

(* a merge-sorted entry as a view revision *)
Definition whole_view (e : ms4) : view := view_of e (m_depth e).

(* ---- the batch loop without filter, limit or error is the identity ------------------ *)

Lemma take_batch_all levels count (l : list view) :
  (forall v, In v l -> levels = 0 \/ v_depth v < levels) ->
  take_batch levels None count l = (l, count, false).
Proof.
  induction l as [|v l IH]; intros H; cbn [take_batch]; [reflexivity|].
  assert (E : negb (levels =? 0) && (levels <=? v_depth v) = false).
  { destruct (H v (or_introl eq_refl)) as [->|L]; [reflexivity|].
    rewrite (proj2 (Nat.leb_gt _ _) L). apply andb_false_r. }
  rewrite E, IH; [reflexivity | intros; apply H; right; assumption].
Qed.

Lemma log_batches_all levels : forall fuel num count (l : list view),
  length l < fuel -> 1 <= num ->
  (forall v, In v l -> levels = 0 \/ v_depth v < levels) ->
  log_batches fuel num levels None count l None = (l, None).
Proof.
  induction fuel as [|f IH]; intros num count l L N H; [lia|]. cbn [log_batches].
  destruct (num <=? length l) eqn:C.
  - apply Nat.leb_le in C.
    rewrite take_batch_all
      by (intros v Hv; apply H; rewrite <- (firstn_skipn num l); apply in_or_app; left; exact Hv).
    rewrite IH.
    + rewrite firstn_skipn. reflexivity.
    + rewrite skipn_length. lia.
    + assert (1 <= num + num / 2) by lia. lia.
    + intros v Hv. apply H. rewrite <- (firstn_skipn num l). apply in_or_app. right. exact Hv.
  - rewrite take_batch_all by exact H. reflexivity.
Qed.

(* ---- the whole history ------------------------------------------------------------------ *)

Lemma iter_whole b rule :
  iter_merge_sorted_revisions b None None rule false = merge_sort (br_g b) (br_tip b).
Proof. rewrite <- (iter_all b). reflexivity. Qed.

Lemma rebase_initial_zero l : rebase_initial (Some 0) l = map whole_view l.
Proof. induction l as [|e l IH]; cbn [rebase_initial map]; [reflexivity|]. cbn [Nat.eqb]. rewrite IH. reflexivity. Qed.

Lemma rebase_initial_head0 l : match l with [] => True | e :: _ => m_depth e = 0 end ->
  rebase_initial None l = map whole_view l.
Proof.
  destruct l as [|e l]; [reflexivity|]. intros H. cbn [rebase_initial map]. rewrite H. cbn [Nat.eqb].
  rewrite rebase_initial_zero. unfold whole_view. rewrite H. reflexivity.
Qed.

Lemma merge_sort_depths g tip : map m_depth (merge_sort g tip) = map e_depth (merge_sorted g tip).
Proof.
  unfold merge_sort. rewrite <- (with_eom_fst g (merge_sorted g tip)) at 2. rewrite map_map. reflexivity.
Qed.

Section Whole.
  Variable b : branch.
  Variable t : revid.
  Hypothesis W : wf_dag (br_g b) = true.
  Hypothesis T : br_tip b = Some t.
  Hypothesis L : t < length (br_g b).

  Let ms := merge_sort (br_g b) (br_tip b).

  Lemma ms_head0 : match ms with [] => True | e :: _ => m_depth e = 0 end.
  Proof.
    unfold ms. rewrite T. destruct (merge_sorted_steps (br_g b) t W L) as [_ H].
    unfold merge_sort. destruct (merge_sorted (br_g b) (Some t)) as [|h l]; [exfalso; exact H|].
    cbn [with_eom]. exact H.
  Qed.

  (* _calc_view_revisions for the whole history, newest first, with merges *)
  Lemma calc_view_whole_reverse delayed_irrelevant :
    calc_view b None None false true false false = (map whole_view ms, None) /\
    delayed_irrelevant = delayed_irrelevant.
  Proof.
    split; [|reflexivity]. unfold calc_view. cbn [andb oeqb]. rewrite T. cbn [negb].
    unfold generate_all. cbn [andb]. unfold graph_view. cbn [negb]. rewrite iter_whole.
    rewrite (rebase_initial_head0 _ ms_head0). reflexivity.
  Qed.

  Lemma whole_view_id l : map v_id (map whole_view l) = map m_id l.
  Proof. rewrite map_map. reflexivity. Qed.
  Lemma whole_view_depth l : map v_depth (map whole_view l) = map m_depth l.
  Proof. rewrite map_map. reflexivity. Qed.

  Lemma limits_none : revision_limits b None None = None.
  Proof. unfold revision_limits. rewrite T. reflexivity. Qed.

  (* log of the whole branch (reverse, all levels, no limit): every merge-sorted
     entry, in merge-sorted order, with its revno and depth *)
  Theorem log_whole_reverse :
    log_revisions b None None false 0 0 false = (map whole_view ms, None).
  Proof.
    unfold log_revisions. rewrite limits_none. cbn [Nat.eqb negb orb].
    rewrite (proj1 (calc_view_whole_reverse 0)).
    apply log_batches_all; [lia | lia | intros; left; reflexivity].
  Qed.

  (* ... hence every present revision of the tip's ancestry exactly once *)
  Theorem log_whole_each_once :
    Permutation (map v_id (fst (log_revisions b None None false 0 0 false)))
                (filter (present (br_g b)) (ancestors (br_g b) [t])).
  Proof.
    rewrite log_whole_reverse. cbn [fst]. rewrite whole_view_id. unfold ms.
    rewrite merge_sort_ids, T. apply merge_sorted_perm; assumption.
  Qed.

  (* the views are depth-well-formed and all carry a revno *)
  Lemma whole_views_wf : wf_depths (map whole_view ms) = true.
  Proof.
    unfold wf_depths. change (map snd (map whole_view ms)) with (map v_depth (map whole_view ms)).
    rewrite whole_view_depth. unfold ms. rewrite merge_sort_depths, T.
    destruct (merge_sorted_steps (br_g b) t W L) as [S0 H0].
    assert (G : forall l lim, steps l -> match l with [] => True | h :: _ => e_depth h <= lim end ->
                okd 0 lim (map e_depth l) = true).
    { induction l as [|e l IH]; intros lim S1 H; [reflexivity|].
      cbn [map okd]. cbn [steps] in S1. destruct S1 as [A B].
      rewrite (proj2 (Nat.leb_le _ _) H). cbn [Nat.leb andb].
      apply IH; [exact B | destruct l; [trivial | exact A]]. }
    apply G; [exact S0|]. destruct (merge_sorted (br_g b) (Some t)); [trivial | lia].
  Qed.

  Lemma whole_views_revno : forallb (fun x => has_revno (fst x)) (map whole_view ms) = true.
  Proof. apply forallb_forall. intros x Hx. apply in_map_iff in Hx as [e [<- _]]. reflexivity. Qed.

  (* forward = reverse_by_depth of reverse *)
  Theorem log_whole_forward :
    log_revisions b None None true 0 0 false =
    (reverse_by_depth has_revno (fst (log_revisions b None None false 0 0 false)), None).
  Proof.
    rewrite log_whole_reverse. cbn [fst].
    unfold log_revisions. rewrite limits_none. cbn [Nat.eqb negb orb].
    unfold calc_view. cbn [andb oeqb]. rewrite T. cbn [negb].
    unfold generate_all. cbn [andb]. unfold graph_view. cbn [negb]. rewrite iter_whole.
    fold ms. change (map (fun e : ms4 => view_of e (m_depth e)) ms) with (map whole_view ms).
    change (fun a : revid * option revno => match snd a with Some _ => true | None => false end) with has_revno.
    rewrite rebase_noop_if_zero.
    - apply log_batches_all; [lia | lia | intros; left; reflexivity].
    - (* the tip is a depth-0 entry of the result *)
      pose proof ms_head0 as H0. destruct ms as [|e l] eqn:E.
      + exfalso. unfold ms in E. rewrite T in E. unfold merge_sort in E.
        destruct (merge_sorted_head (br_g b) t L) as [rv [rest Eh]]. rewrite Eh in E. discriminate.
      + exists (whole_view e). split; [|exact H0].
        eapply Permutation_in; [symmetry; apply reverse_by_depth_perm|].
        apply filter_In. split; [left; reflexivity | reflexivity].
  Qed.

  (* ... and reverse = reverse_by_depth of forward: the two orders determine each other *)
  Theorem log_whole_reverse_of_forward :
    reverse_by_depth has_revno (fst (log_revisions b None None true 0 0 false)) =
    fst (log_revisions b None None false 0 0 false).
  Proof.
    rewrite log_whole_forward. cbn [fst]. rewrite log_whole_reverse. cbn [fst].
    apply reverse_by_depth_involutive; [apply whole_views_wf | apply whole_views_revno].
  Qed.
End Whole.
