(* Theory/SmartLP.v -- LengthPrefixedBodyDecoder (C29, C30). *)
From Coq Require Import String ZArith NArith Bool List Lia.
From BV Require Import Lib.Bytes Model.Smart Theory.SmartNum Theory.SmartSeg.
Import ListNotations.
Open Scope N_scope.

Lemma prefixb_app p s t : prefixb p s = true -> prefixb p (s ++ t) = true.
Proof.
  revert s; induction p as [|x p IH]; intros s H; [reflexivity|].
  destruct s as [|y s]; cbn [prefixb app] in *; [discriminate|].
  apply andb_prop in H. destruct H as [H1 H2]. rewrite H1, (IH _ H2). reflexivity.
Qed.

Lemma prefixb_length p s : prefixb p s = true -> (length p <= length s)%nat.
Proof.
  revert s; induction p as [|x p IH]; intros s H; cbn [length]; [lia|].
  destruct s as [|y s]; cbn [prefixb length] in *; [discriminate|].
  apply andb_prop in H. destruct H as [_ H2]. specialize (IH _ H2). lia.
Qed.

Lemma prefixb_self_app p t : prefixb p (p ++ t) = true.
Proof. induction p as [|x p IH]; cbn [prefixb app]; [reflexivity|]. rewrite N.eqb_refl, IH. reflexivity. Qed.

Lemma skipn_app_le {A} n (l1 l2 : list A) : (n <= length l1)%nat -> skipn n (l1 ++ l2) = skipn n l1 ++ l2.
Proof. intros H. rewrite skipn_app. replace (n - length l1)%nat with 0%nat by lia. reflexivity. Qed.
Lemma firstn_app_le {A} n (l1 l2 : list A) : (n <= length l1)%nat -> firstn n (l1 ++ l2) = firstn n l1.
Proof. intros H. rewrite firstn_app. replace (n - length l1)%nat with 0%nat by lia. cbn [firstn]. apply app_nil_r. Qed.
Lemma firstn_app_ge {A} n (l1 l2 : list A) : (length l1 <= n)%nat ->
  firstn n (l1 ++ l2) = l1 ++ firstn (n - length l1) l2.
Proof. intros H. rewrite firstn_app, (firstn_all2 l1 H). reflexivity. Qed.
Lemma skipn_app_ge {A} n (l1 l2 : list A) : (length l1 <= n)%nat ->
  skipn n (l1 ++ l2) = skipn (n - length l1) l2.
Proof. intros H. rewrite skipn_app, (skipn_all2 l1 H). reflexivity. Qed.

Lemma lp_trailer_step_app body t b :
  lp_accept (lp_trailer_step body t) b = lp_trailer_step body (t ++ b).
Proof.
  unfold lp_trailer_step. destruct (prefixb DONE t) eqn:E.
  - rewrite (prefixb_app _ _ b E). cbn [lp_accept]. f_equal.
    apply prefixb_length in E. change (length DONE) with 5%nat in E.
    symmetry. apply skipn_app_le. exact E.
  - cbn [lp_accept]. reflexivity.
Qed.

Lemma lp_body_step_app l body x b :
  lp_accept (lp_body_step l body x) b = lp_body_step l body (x ++ b).
Proof.
  unfold lp_body_step. rewrite app_length.
  destruct (l <=? N.of_nat (length x)) eqn:E.
  - apply N.leb_le in E.
    assert (E' : (l <=? N.of_nat (length x + length b)) = true) by (apply N.leb_le; lia).
    rewrite E', lp_trailer_step_app.
    rewrite firstn_app_le by lia. rewrite skipn_app_le by lia. reflexivity.
  - apply N.leb_gt in E. cbn [lp_accept]. unfold lp_body_step.
    destruct (l - N.of_nat (length x) <=? N.of_nat (length b)) eqn:E2.
    + apply N.leb_le in E2.
      assert (E' : (l <=? N.of_nat (length x + length b)) = true) by (apply N.leb_le; lia).
      rewrite E'. rewrite firstn_app_ge by lia. rewrite skipn_app_ge by lia.
      replace (N.to_nat l - length x)%nat with (N.to_nat (l - N.of_nat (length x))) by lia.
      rewrite <- !app_assoc. reflexivity.
    + apply N.leb_gt in E2.
      assert (E' : (l <=? N.of_nat (length x + length b)) = false) by (apply N.leb_gt; lia).
      rewrite E'. rewrite <- app_assoc. f_equal. lia.
Qed.

(* segmentation independence of LengthPrefixedBodyDecoder.accept_bytes, every state *)
Theorem lp_accept_app s a b : lp_accept (lp_accept s a) b = lp_accept s (a ++ b).
Proof.
  destruct s as [buf|l body|body t|body u|]; cbn [lp_accept].
  - rewrite app_assoc. unfold find_nl.
    destruct (find_byte NL (buf ++ a)) as [[line rest]|] eqn:E.
    + rewrite (find_byte_app_some _ _ _ _ b E).
      destruct (parse_dec line); [apply lp_body_step_app|reflexivity].
    + cbn [lp_accept]. reflexivity.
  - apply lp_body_step_app.
  - rewrite lp_trailer_step_app, app_assoc. reflexivity.
  - rewrite app_assoc. reflexivity.
  - reflexivity.
Qed.

Lemma NL_not_dec : is_dec_char NL = false. Proof. reflexivity. Qed.

(* the single-segment round trip *)
Lemma lp_length_line n rest :
  lp_accept lp_init (print_dec n ++ NL :: rest) = lp_body_step n [] rest.
Proof.
  unfold lp_init. cbn [lp_accept app]. unfold find_nl.
  rewrite (find_byte_first NL (print_dec n) rest (print_dec_no NL n NL_not_dec)).
  rewrite parse_print_dec. reflexivity.
Qed.

Theorem lp_roundtrip_one body tail :
  lp_accept lp_init (encode_bulk_data body ++ tail) = LpDone body tail.
Proof.
  unfold encode_bulk_data. rewrite <- !app_assoc. cbn [app]. rewrite lp_length_line.
  unfold lp_body_step. rewrite app_length.
  assert (E : (N.of_nat (length body) <=? N.of_nat (length body + length (DONE ++ tail))) = true)
    by (apply N.leb_le; lia).
  rewrite E, Nat2N.id.
  rewrite firstn_app_ge by lia. rewrite skipn_app_ge by lia.
  rewrite Nat.sub_diag. cbn [firstn skipn app]. rewrite app_nil_r.
  unfold lp_trailer_step. change (prefixb DONE (DONE ++ tail)) with true. reflexivity.
Qed.

Lemma encode_bulk_nonempty body : encode_bulk_data body <> [].
Proof.
  unfold encode_bulk_data. intros E. apply (f_equal (@length N)) in E.
  rewrite !app_length in E. cbn [length] in E. lia.
Qed.

(* C29, bulk bodies: any segmentation of encode(body) ++ tail *)
Theorem lp_decode_encode_any_segmentation body tail segs :
  concat segs = encode_bulk_data body ++ tail ->
  fold_left lp_accept segs lp_init = LpDone body tail.
Proof.
  intros H. destruct segs as [|seg segs].
  - cbn [concat] in H. symmetry in H. apply app_eq_nil in H. destruct H as [H _].
    exfalso. exact (encode_bulk_nonempty body H).
  - rewrite (fold_accept_init _ lp_accept lp_accept_app). cbn [concat] in H |- *. rewrite H. apply lp_roundtrip_one.
Qed.

(* read_pending_data between the accepts does not lose or duplicate body bytes *)
Definition lp_prepend (p : bytes) (s : lp_state) : lp_state :=
  match s with
  | LpBody l b => LpBody l (p ++ b)
  | LpTrailer b t => LpTrailer (p ++ b) t
  | LpDone b u => LpDone (p ++ b) u
  | _ => s
  end.

Lemma lp_trailer_step_prepend p body t :
  lp_trailer_step (p ++ body) t = lp_prepend p (lp_trailer_step body t).
Proof. unfold lp_trailer_step. destruct (prefixb DONE t); reflexivity. Qed.

Lemma lp_body_step_prepend p l body x :
  lp_body_step l (p ++ body) x = lp_prepend p (lp_body_step l body x).
Proof.
  unfold lp_body_step. destruct (l <=? N.of_nat (length x)).
  - rewrite <- app_assoc. apply lp_trailer_step_prepend.
  - cbn [lp_prepend]. rewrite app_assoc. reflexivity.
Qed.

Definition lp_has_body (s : lp_state) : bool :=
  match s with LpBody _ _ | LpTrailer _ _ | LpDone _ _ => true | _ => false end.

Lemma lp_accept_prepend p s a : lp_has_body s = true ->
  lp_accept (lp_prepend p s) a = lp_prepend p (lp_accept s a).
Proof.
  destruct s as [buf|l body|body t|body u|]; intros H; try discriminate; cbn [lp_prepend lp_accept].
  - apply lp_body_step_prepend.
  - apply lp_trailer_step_prepend.
  - reflexivity.
Qed.

Lemma lp_read_split s : lp_has_body s = true -> s = lp_prepend (fst (lp_read s)) (snd (lp_read s)).
Proof. destruct s; intros H; try discriminate; cbn; rewrite app_nil_r; reflexivity. Qed.

Lemma lp_has_body_accept s a : lp_has_body s = true -> lp_has_body (lp_accept s a) = true.
Proof.
  destruct s as [buf|l body|body t|body u|]; intros H; try discriminate; cbn [lp_accept].
  - unfold lp_body_step, lp_trailer_step. destruct (l <=? _); [destruct (prefixb _ _)|]; reflexivity.
  - unfold lp_trailer_step. destruct (prefixb _ _); reflexivity.
  - reflexivity.
Qed.

Lemma lp_fold_prepend : forall segs p t, lp_has_body t = true ->
  fold_left lp_accept segs (lp_prepend p t) = lp_prepend p (fold_left lp_accept segs t).
Proof.
  induction segs as [|x segs IH]; intros p t Ht; cbn [fold_left]; [reflexivity|].
  rewrite (lp_accept_prepend p t x Ht). apply IH. apply lp_has_body_accept. exact Ht.
Qed.

Lemma lp_has_body_fold : forall segs t, lp_has_body t = true ->
  lp_has_body (fold_left lp_accept segs t) = true.
Proof.
  induction segs as [|x segs IH]; intros t Ht; cbn [fold_left]; [exact Ht|].
  apply IH. apply lp_has_body_accept. exact Ht.
Qed.

Lemma lp_prepend_obs p t : lp_has_body t = true ->
  lp_body (lp_prepend p t) = p ++ lp_body t /\
  lp_finished (lp_prepend p t) = lp_finished t /\ lp_unused (lp_prepend p t) = lp_unused t.
Proof. destruct t; intros H; try discriminate; repeat split; reflexivity. Qed.

(* what read_pending_data removed is exactly what is missing later *)
Lemma lp_read_later segs s :
  fst (lp_read s) ++ lp_body (fold_left lp_accept segs (snd (lp_read s))) = lp_body (fold_left lp_accept segs s) /\
  lp_finished (fold_left lp_accept segs (snd (lp_read s))) = lp_finished (fold_left lp_accept segs s) /\
  lp_unused (fold_left lp_accept segs (snd (lp_read s))) = lp_unused (fold_left lp_accept segs s).
Proof.
  destruct (lp_has_body s) eqn:Hb.
  - remember (lp_read s) as r eqn:Er.
    assert (Hs : s = lp_prepend (fst r) (snd r)) by (subst r; apply lp_read_split; exact Hb).
    assert (Hb' : lp_has_body (snd r) = true) by (subst r; destruct s; try discriminate; reflexivity).
    clear Er. rewrite Hs.
    rewrite (lp_fold_prepend _ _ _ Hb').
    destruct (lp_prepend_obs (fst r) _ (lp_has_body_fold segs _ Hb')) as [P1 [P2 P3]].
    rewrite P1, P2, P3. repeat split; reflexivity.
  - assert (Hr : lp_read s = ([], s)) by (destruct s; try discriminate; reflexivity).
    rewrite Hr. cbn [fst snd app]. repeat split; reflexivity.
Qed.

(* draining or not draining after a segment gives the same total *)
Lemma lp_consume_drain_irrelevant : forall segs s got,
  fst (lp_consume s segs got) = got ++ lp_body (fold_left lp_accept (map fst segs) s) /\
  lp_finished (snd (lp_consume s segs got)) = lp_finished (fold_left lp_accept (map fst segs) s) /\
  lp_unused (snd (lp_consume s segs got)) = lp_unused (fold_left lp_accept (map fst segs) s).
Proof.
  induction segs as [|[seg drain] segs IH]; intros s got; cbn [lp_consume map fold_left fst snd].
  - destruct s; cbn; rewrite ?app_nil_r; repeat split; reflexivity.
  - destruct drain; [|apply IH].
    destruct (IH (snd (lp_read (lp_accept s seg))) (got ++ fst (lp_read (lp_accept s seg)))) as [I1 [I2 I3]].
    destruct (lp_read_later (map fst segs) (lp_accept s seg)) as [K1 [K2 K3]].
    rewrite I1, I2, I3, <- K1, K2, K3, <- app_assoc. repeat split; reflexivity.
Qed.

Theorem lp_consume_roundtrip body tail (segs : list (bytes * bool)) :
  concat (map fst segs) = encode_bulk_data body ++ tail ->
  fst (lp_consume lp_init segs []) = body /\
  lp_finished (snd (lp_consume lp_init segs [])) = true /\
  lp_unused (snd (lp_consume lp_init segs [])) = tail.
Proof.
  intros H. destruct (lp_consume_drain_irrelevant segs lp_init []) as [I1 [I2 I3]].
  rewrite I1, I2, I3, (lp_decode_encode_any_segmentation body tail _ H). repeat split; reflexivity.
Qed.

(* ----------------------------------------------------------------- C30 *)

Ltac len_lia := repeat (rewrite app_length || (progress (cbn [app length DONE]))); lia.

(* the state after every proper prefix of an encoded body *)
Lemma lp_prefix_ok body p q :
  p ++ q = encode_bulk_data body -> q <> [] ->
  lp_finished (lp_accept lp_init p) = false /\
  (0 < lp_hint (lp_accept lp_init p) <= Z.of_nat (length q))%Z.
Proof.
  unfold encode_bulk_data. intros H Hq.
  set (n := N.of_nat (length body)) in *.
  apply app_eq_app in H. destruct H as [l [[H1 H2]|[H1 H2]]].
  - (* p = digits ++ l *)
    destruct l as [|c l].
    + (* exactly the digits: still expecting the length *)
      rewrite app_nil_r in H1. subst p. cbn [app] in H2. subst q.
      unfold lp_init. cbn [lp_accept app]. unfold find_nl.
      rewrite (find_byte_absent _ _ (print_dec_no NL n NL_not_dec)).
      cbn [lp_finished lp_hint]. split; [reflexivity|].
      len_lia.
    + cbn [app] in H2. inversion H2 as [[Hc H3]]. subst c p. clear H2.
      rewrite lp_length_line.
      apply app_eq_app in H3. destruct H3 as [l2 [[H4 H5]|[H4 H5]]].
      * (* body = l ++ l2, q = l2 ++ DONE *)
        subst q. destruct l2 as [|c2 l2].
        { (* the whole body has arrived, none of the trailer *)
          rewrite app_nil_r in H4. subst l. cbn [app].
          unfold lp_body_step. assert (E : (n <=? N.of_nat (length body)) = true) by (apply N.leb_le; lia).
          rewrite E. subst n. rewrite Nat2N.id, firstn_all, skipn_all.
          unfold lp_trailer_step. change (prefixb DONE []) with false. cbn [lp_finished lp_hint app]. change (length DONE) with 5%nat. change (@length N []) with 0%nat. split; [reflexivity|lia]. }
        unfold lp_body_step.
        assert (E : (n <=? N.of_nat (length l)) = false).
        { apply N.leb_gt. subst n body. rewrite app_length. cbn [length]. lia. }
        rewrite E. cbn [lp_finished lp_hint]. split; [reflexivity|].
        subst n body. len_lia.
      * (* l = body ++ l2 : in the trailer *)
        subst l. unfold lp_body_step. rewrite app_length.
        assert (E : (n <=? N.of_nat (length body + length l2)) = true) by (apply N.leb_le; lia).
        rewrite E. subst n. rewrite Nat2N.id.
        rewrite firstn_app_ge by lia. rewrite skipn_app_ge by lia.
        rewrite Nat.sub_diag. cbn [firstn skipn app]. rewrite app_nil_r.
        assert (Hl2 : (length l2 < 5)%nat).
        { apply (f_equal (@length N)) in H5. rewrite app_length in H5. change (length DONE) with 5%nat in H5.
          destruct q; [congruence|cbn [length] in H5; lia]. }
        assert (Hnp : prefixb DONE l2 = false).
        { destruct (prefixb DONE l2) eqn:Ep; [|reflexivity].
          apply prefixb_length in Ep. change (length DONE) with 5%nat in Ep. lia. }
        unfold lp_trailer_step. rewrite Hnp. cbn [lp_finished lp_hint]. split; [reflexivity|].
        apply (f_equal (@length N)) in H5. rewrite app_length in H5. change (length DONE) with 5%nat in H5. lia.
  - (* p is a prefix of the digits *)
    assert (Hno : memb NL p = false).
    { pose proof (print_dec_no NL n NL_not_dec) as Hm. rewrite H1 in Hm.
      unfold memb in *. rewrite existsb_app in Hm. apply orb_false_elim in Hm. tauto. }
    unfold lp_init. cbn [lp_accept app]. unfold find_nl. rewrite (find_byte_absent _ _ Hno).
    cbn [lp_finished lp_hint]. split; [reflexivity|].
    subst q. len_lia.
Qed.

Lemma lp_init_ok body :
  lp_finished lp_init = false /\ (0 < lp_hint lp_init <= Z.of_nat (length (encode_bulk_data body)))%Z.
Proof.
  split; [reflexivity|]. unfold encode_bulk_data. cbn [lp_hint lp_init]. len_lia.
Qed.

Lemma lp_done_ok body : lp_finished (lp_accept lp_init (encode_bulk_data body)) = true.
Proof. rewrite <- (app_nil_r (encode_bulk_data body)), lp_roundtrip_one. reflexivity. Qed.
