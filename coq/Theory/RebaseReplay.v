(* Theory/RebaseReplay.v -- the order in which rebase() replays a plan (7ede022:
   topo_sort of  old parents + the entries whose new id is a new parent).

   - [replay_deps_first]: for ANY replace map with pairwise different keys and
     new ids, in ANY admissible result l of that topo_sort the entry a new
     parent refers to comes strictly before the entry that uses it;
   - [plan_order_dep_sorted]: for every plan of generate_simple_plan (any skip)
     the plan's own order is an admissible result: the dependency relation has
     no cycle, topo_sort cannot fail. *)
From Coq Require Import List Arith Bool Lia.
From BV Require Import Lib.Dag Lib.DagTopo Lib.PyDict Theory.DagFacts Theory.DagTopoFacts
  Model.Rebase Theory.Rebase.
Import ListNotations.

(* ---- dep_sortedb ------------------------------------------------------------- *)

Lemma dep_sorted_cons dep r l : dep_sortedb dep (r :: l) = true <->
  ~ In r l /\ (forall d, In d (dep r) -> ~ In d l) /\ dep_sortedb dep l = true.
Proof.
  cbn [dep_sortedb]. rewrite !andb_true_iff, negb_true_iff, memb_false, forallb_forall.
  split.
  - intros [[H1 H2] H3]. repeat split; [exact H1 | | exact H3].
    intros d Hd. specialize (H2 d Hd). apply negb_true_iff, memb_false in H2. exact H2.
  - intros [H1 [H2 H3]]. repeat split; [exact H1 | | exact H3].
    intros d Hd. apply negb_true_iff, memb_false. exact (H2 d Hd).
Qed.

Lemma dep_sorted_split dep l1 r l2 : dep_sortedb dep (l1 ++ r :: l2) = true ->
  forall d, In d (dep r) -> ~ In d l2.
Proof.
  induction l1 as [|x l1 IH]; cbn [app]; intros H.
  - apply dep_sorted_cons in H as [_ [H _]]. exact H.
  - apply dep_sorted_cons in H as [_ [_ H]]. exact (IH H).
Qed.

Lemma dep_sorted_intro dep l :
  (forall l1 r l2, l = l1 ++ r :: l2 -> ~ In r l2 /\ forall d, In d (dep r) -> ~ In d l2) ->
  dep_sortedb dep l = true.
Proof.
  induction l as [|r l IH]; intros H; [reflexivity|].
  apply dep_sorted_cons. destruct (H [] r l eq_refl) as [A B]. repeat split; [exact A | exact B |].
  apply IH. intros l1 r' l2 E. apply (H (r :: l1) r' l2). rewrite E. reflexivity.
Qed.

(* a dependency comes strictly before its user *)
Lemma dep_index dep l d r i j : dep_sortedb dep l = true -> In d (dep r) -> d <> r ->
  index_of d l = Some i -> index_of r l = Some j -> i < j.
Proof.
  intros T Hd Hne Hi Hj.
  destruct (index_of_split r l j Hj) as [l1 [l2 [-> [HL HN]]]].
  pose proof (dep_sorted_split dep l1 r l2 T d Hd) as Hl2.
  destruct (in_dec Nat.eq_dec d l1) as [Hin|Hnin].
  - destruct (index_of_In d l1 Hin) as [k Hk].
    pose proof (index_of_lt d l1 k Hk) as Hlt.
    destruct (index_of_split d l1 k Hk) as [a [b [-> [Ha Hna]]]].
    rewrite <- app_assoc in Hi. cbn [app] in Hi. rewrite (index_of_middle d a _ Hna) in Hi.
    inversion Hi. subst i. rewrite app_length in HL. cbn [length] in HL. lia.
  - rewrite (index_of_app_notin d l1 _ Hnin) in Hi. cbn [index_of] in Hi.
    destruct (d =? r) eqn:E; [apply Nat.eqb_eq in E; contradiction|].
    destruct (index_of d l2) as [k|] eqn:K; cbn [option_map] in Hi; [|discriminate].
    exfalso. apply Hl2. apply (index_of_Some_In d l2 k K).
Qed.

(* ---- new_to_old ------------------------------------------------------------------ *)

Lemma new_to_old_in (m : rmap) p o : new_to_old m p = Some o -> exists ps, In (o, (p, ps)) m.
Proof.
  induction m as [|[o' [n ps]] m IH]; cbn [new_to_old fst snd]; [discriminate|].
  destruct (new_to_old m p) as [x|] eqn:E.
  - intros H. inversion H; subst x. destruct (IH eq_refl) as [ps' Hin]. exists ps'. right. exact Hin.
  - destruct (p =? n) eqn:En; [|discriminate]. apply Nat.eqb_eq in En. subst n.
    intros H. inversion H; subst o'. exists ps. left. reflexivity.
Qed.

Lemma new_to_old_of (m : rmap) o p ps :
  NoDup (map (fun e => fst (snd e)) m) -> In (o, (p, ps)) m -> new_to_old m p = Some o.
Proof.
  induction m as [|e m IH]; intros ND Hin; [contradiction|].
  cbn [map] in ND. inversion ND as [|? ? Hn ND']; subst. cbn [new_to_old].
  destruct Hin as [->|Hin].
  - cbn [fst snd] in *. destruct (new_to_old m p) as [x|] eqn:E.
    + exfalso. apply Hn. destruct (new_to_old_in m p x E) as [ps' Hx].
      apply in_map_iff. exists (x, (p, ps')). split; [reflexivity|exact Hx].
    + rewrite Nat.eqb_refl. reflexivity.
  - rewrite (IH ND' Hin). reflexivity.
Qed.

Lemma rm_get_of (m : rmap) k v : NoDup (map fst m) -> In (k, v) m -> rm_get m k = Some v.
Proof.
  unfold rm_get. induction m as [|[k' v'] m IH]; intros ND Hin; [contradiction|].
  cbn [map fst] in ND. inversion ND as [|? ? Hn ND']; subst. cbn [dict_get].
  destruct Hin as [E|Hin].
  - inversion E; subst. rewrite Nat.eqb_refl. reflexivity.
  - destruct (k =? k') eqn:Ek; [|exact (IH ND' Hin)].
    apply Nat.eqb_eq in Ek. subst k'. exfalso. apply Hn.
    apply in_map_iff. exists (k, v). split; [reflexivity|exact Hin].
Qed.

(* ---- rebase() replays dependencies first --------------------------------------------- *)

Theorem replay_deps_first g (m : rmap) l old new ps p o' ps' i j :
  NoDup (map fst m) -> NoDup (map (fun e => fst (snd e)) m) ->
  dep_sortedb (plan_deps g m) l = true ->
  In (old, (new, ps)) m -> In p ps -> In (o', (p, ps')) m -> o' <> old ->
  index_of o' l = Some i -> index_of old l = Some j -> i < j.
Proof.
  intros NDk NDn T Hold Hp Ho Hne Hi Hj.
  apply (dep_index (plan_deps g m) l o' old i j T); [|exact Hne|exact Hi|exact Hj].
  unfold plan_deps. rewrite (rm_get_of m old (new, ps) NDk Hold).
  apply in_or_app. right. apply in_flat_map. exists p. split; [exact Hp|].
  rewrite (new_to_old_of m o' p ps' NDn Ho). left. reflexivity.
Qed.

(* the old-graph order is kept too *)
Theorem replay_parents_first g (m : rmap) l old q i j :
  wf_dag g = true -> dep_sortedb (plan_deps g m) l = true ->
  rm_get m old <> None -> In q (parents g old) ->
  index_of q l = Some i -> index_of old l = Some j -> i < j.
Proof.
  intros W T Hk Hq Hi Hj.
  apply (dep_index (plan_deps g m) l q old i j T); [| |exact Hi|exact Hj].
  - unfold plan_deps. destruct (rm_get m old) as [[n ps]|]; [|congruence].
    apply in_or_app. left. exact Hq.
  - intros ->. destruct (wf_parents g old old W Hq) as [L|L]; [lia|].
    apply parents_present in Hq. lia.
Qed.

(* for the plans of generate_simple_plan the plan's own order is an admissible
   replay order: topo_sort(dependencies) has something to return *)
Theorem plan_order_dep_sorted g gen todo_set order start stop onto skip m :
  wf_dag g = true ->
  (forall r r' ps ps', gen r ps = gen r' ps' -> r = r') ->
  (forall r ps x, (x = onto \/ exists c, In x (parents g c)) -> gen r ps <> x) ->
  topo_sortedb g order = true ->
  simple_plan g gen todo_set order start stop onto skip = Ok m ->
  dep_sortedb (plan_deps g m) (map fst m) = true.
Proof.
  intros W Inj Fresh T H.
  destruct (new_ids_distinct g gen W _ _ _ _ _ _ _ Inj T H) as [NDk NDn].
  destruct (plan_spec g gen W _ _ _ _ _ _ _ T H) as [todo [f [R [Hk [_ S]]]]].
  pose proof (replayed_topo g _ _ _ _ T R) as Tt.
  apply dep_sorted_intro. intros l1 r l2 E.
  (* split m accordingly *)
  assert (Em : exists m1 e m2, m = m1 ++ e :: m2 /\ map fst m1 = l1 /\ fst e = r /\ map fst m2 = l2).
  { clear - E. revert l1 E. induction m as [|e m IH]; intros l1 E; [destruct l1; discriminate|].
    destruct l1 as [|x l1]; cbn [map app] in E; injection E as Ex El; subst.
    - exists [], e, m. repeat split.
    - destruct (IH l1 El) as [m1 [e' [m2 [-> [A [B C]]]]]].
      exists (e :: m1), e', m2. cbn [map app]. rewrite A. repeat split; assumption. }
  destruct Em as [m1 [[old [new ps]] [m2 [Em [E1 [E2 E3]]]]]]. cbn [fst] in E2. subst r l1 l2.
  assert (NDs : ~ In old (map fst m2) /\ ~ In old (map fst m1)).
  { rewrite Em, map_app in NDk. cbn [map fst] in NDk. split.
    - apply NoDup_remove_2 in NDk. intros Hin. apply NDk. apply in_or_app. right. exact Hin.
    - apply NoDup_remove_2 in NDk. intros Hin. apply NDk. apply in_or_app. left. exact Hin. }
  split; [apply NDs|].
  intros d Hd. unfold plan_deps in Hd.
  rewrite (rm_get_of m old (new, ps) NDk) in Hd by (rewrite Em; apply in_or_app; right; left; reflexivity).
  apply in_app_or in Hd as [Hd|Hd].
  - (* an old parent: the keys are a filter of a topological order *)
    intros Hin. rewrite Hk in E. 
    assert (Hsub : exists t1 t2, todo = t1 ++ old :: t2 /\ forall x, In x (map fst m2) -> In x t2).
    { clear - E Tt Em NDk Hk. 
      assert (Hm : map fst m = map fst m1 ++ old :: map fst m2) by (rewrite Em, map_app; reflexivity).
      rewrite Hk in Hm. clear Em Hk NDk E.
      revert Hm. generalize (map fst m1) (map fst m2). clear m m1 m2.
      induction todo as [|t todo IH]; intros a b Hm; [destruct a; discriminate|].
      cbn [filter] in Hm. apply topo_sorted_cons in Tt as [Tn [_ Tt']].
      destruct (f t) eqn:Ft.
      - destruct a as [|x a]; cbn [app] in Hm; injection Hm as Hx Hl.
        + subst t. exists [], todo. split; [reflexivity|]. intros x Hx. rewrite <- Hl in Hx.
          apply filter_In in Hx. apply Hx.
        + subst x. destruct (IH Tt' a b Hl) as [t1 [t2 [-> Hs]]]. exists (t :: t1), t2. split; [reflexivity|exact Hs].
      - destruct (IH Tt' a b Hm) as [t1 [t2 [-> Hs]]]. exists (t :: t1), t2. split; [reflexivity|exact Hs]. }
    destruct Hsub as [t1 [t2 [Et Hs]]]. rewrite Et in Tt.
    apply topo_sorted_split in Tt as [_ [_ Tt]]. exact (Tt d Hd (Hs d Hin)).
  - apply in_flat_map in Hd as [p [Hp Hd]].
    destruct (new_to_old m p) as [o|] eqn:No; [|contradiction]. destruct Hd as [<-|[]].
    destruct (new_to_old_in m p o No) as [ps' Ho].
    assert (Gen : p = gen o ps').
    { apply in_split in Ho as [a [b Eo]]. destruct (S a o p ps' b Eo) as [G _]. exact G. }
    destruct (S m1 old new ps m2 Em) as [_ [_ [_ E4]]].
    destruct (E4 p Hp) as [->|[[o'' [ps'' [_ G]]]|[Hpar _]]].
    + exfalso. apply (Fresh o ps' onto); [left; reflexivity|symmetry; exact Gen].
    + assert (o = o'').
      { assert (Ho'' : In (o'', (p, ps'')) m) by (rewrite Em; apply in_or_app; left; exact G).
        pose proof (new_to_old_of m o'' p ps'' NDn Ho'') as X. congruence. }
      subst o''. intros Hin.
      rewrite Em, map_app in NDk. cbn [map fst] in NDk.
      assert (Hin1 : In o (map fst m1)) by (apply in_map_iff; exists (o, (p, ps'')); split; [reflexivity|exact G]).
      clear - NDk Hin Hin1. induction (map fst m1) as [|x l IH]; [contradiction|].
      cbn [app] in NDk. inversion NDk as [|? ? Hn ND']; subst. destruct Hin1 as [->|Hin1].
      * apply Hn. apply in_or_app. right. right. exact Hin.
      * exact (IH ND' Hin1).
    + exfalso. apply (Fresh o ps' p); [right; exists old; exact Hpar|symmetry; exact Gen].
Qed.
