(* Theory/NoLoss.v -- lemmas and proofs for C12 over Model/NoLoss.v. *)
From Coq Require Import NArith List Bool String Ascii Lia.
From BV Require Import Lib.Bytes Lib.Obs Lib.DecBytes Model.TextMerge Theory.TextMerge Model.NoLoss.
Import ListNotations.
Open Scope N_scope.

(* ================================================================== Part 1: the decision (finite) *)

(* the branch structure of _alter_files collapses to this formula *)
Lemma keep_content_spec c :
  keep_content c =
    is_file (wt_kind c) && (backups c || is_none (target_kind c)) && negb (mm_match c)
    && (negb (in_basis c) || negb (sha_eq_basis c)).
Proof. destruct c as [[[]|] [[]|] [] [] [] [] []]; reflexivity. Qed.

(* ... i.e. exactly: user-edited, and (backups requested or nothing to put in its place) *)
Lemma keep_content_iff c :
  keep_content c = (backups c || is_none (target_kind c)) && user_edited_chg c.
Proof. destruct c as [[[]|] [[]|] [] [] [] [] []]; reflexivity. Qed.

Lemma decision_keeps c :
  backups c = true -> user_edited_chg c = true ->
  alter_action c = ABackup \/ alter_action c = AKeepInPlace.
Proof. destruct c as [[[]|] [[]|] [] [] [] [] []]; cbv; intros; try discriminate; auto. Qed.

(* whatever [backups] says: nothing in the target tree -> user-edited content stays where it is *)
Lemma decision_target_none c :
  user_edited_chg c = true -> target_kind c = None -> alter_action c = AKeepInPlace.
Proof. destruct c as [[[]|] [[]|] [] [] [] [] []]; cbv; intros; try discriminate; auto. Qed.

(* only user-edited file content is ever kept / backed up *)
Lemma decision_exact c : keep_content c = true -> user_edited_chg c = true.
Proof. destruct c as [[[]|] [[]|] [] [] [] [] []]; cbv; intros; try discriminate; auto. Qed.

(* the decision before cd17d15: an edited file that the basis lacks and the target tree has was not kept *)
Lemma decision_old_refuted :
  exists c, backups c = true /\ user_edited_chg c = true /\ target_versioned c = is_some (target_kind c)
            /\ keep_content_old c = false /\ keep_content c = true.
Proof.
  exists {| wt_kind := Some KFile; target_kind := Some KFile; backups := true; mm_match := false;
            in_basis := false; target_versioned := true; sha_eq_basis := false |}.
  repeat split.
Qed.

(* content that is not a regular file is never kept: retargeted symlinks, directories *)
Lemma decision_nonfile c : is_file (wt_kind c) = false -> keep_content c = false.
Proof. destruct c as [[[]|] [[]|] [] [] [] [] []]; cbv; intros; try discriminate; auto. Qed.

(* ================================================================== generic list facts *)

Lemma memn_In n l : memn n l = true <-> In n l.
Proof.
  unfold memn. rewrite existsb_exists. split.
  - intros [x [Hx E]]. apply tbeq_eq in E. subst. exact Hx.
  - intros H. exists n. split; [exact H|apply tbeq_refl].
Qed.

Lemma memn_false n l : memn n l = false <-> ~ In n l.
Proof. rewrite <- memn_In. destruct (memn n l); split; congruence. Qed.

Lemma beq_false a b : bytes_eqb a b = false <-> a <> b.
Proof. rewrite <- tbeq_eq. destruct (bytes_eqb a b); split; congruence. Qed.

Lemma lookup_In {A} n (m : list (bytes * A)) v : lookup n m = Some v -> In (n, v) m.
Proof.
  induction m as [|[k w] m IH]; simpl; [discriminate|].
  destruct (bytes_eqb n k) eqn:E.
  - intros H. injection H as <-. apply tbeq_eq in E. subst. left. reflexivity.
  - intros H. right. auto.
Qed.

Lemma NoDup_lookup_In {A} n (m : list (bytes * A)) v :
  NoDup (names m) -> In (n, v) m -> lookup n m = Some v.
Proof.
  induction m as [|[k w] m IH]; simpl; intros Hd Hin; [tauto|].
  inversion Hd as [|? ? Hk Hd']; subst.
  destruct Hin as [E|Hin].
  - injection E as -> ->. rewrite tbeq_refl. reflexivity.
  - destruct (bytes_eqb n k) eqn:E.
    + apply tbeq_eq in E. subst. exfalso. apply Hk. unfold names. apply in_map_iff.
      exists (k, v). split; [reflexivity|exact Hin].
    + auto.
Qed.

Lemma nodupb_NoDup l : nodupb l = true -> NoDup l.
Proof.
  induction l as [|a l IH]; simpl; intros H; constructor.
  - apply andb_true_iff in H as [H _]. apply negb_true_iff in H. apply memn_false. exact H.
  - apply andb_true_iff in H as [_ H]. auto.
Qed.

Lemma NoDup_names_filter {A} (f : bytes * A -> bool) (m : list (bytes * A)) :
  NoDup (names m) -> NoDup (names (filter f m)).
Proof.
  unfold names. induction m as [|a m IH]; simpl; intros H; [constructor|].
  inversion H as [|? ? Ha H']; subst. destruct (f a); simpl; auto.
  constructor; auto. intros Hin. apply Ha. apply in_map_iff in Hin as [x [E Hx]].
  apply filter_In in Hx as [Hx _]. apply in_map_iff. exists x. auto.
Qed.

Lemma filter_length_le {A} (f : A -> bool) l : (List.length (filter f l) <= List.length l)%nat.
Proof. induction l as [|a l IH]; simpl; [lia|]. destruct (f a); simpl; lia. Qed.

Lemma filter_drop_lt c used :
  In c used -> (List.length (filter (fun x => negb (bytes_eqb c x)) used) < List.length used)%nat.
Proof.
  induction used as [|a l IH]; simpl; [tauto|]. intros [->|H].
  - rewrite tbeq_refl. simpl. pose proof (filter_length_le (fun x => negb (bytes_eqb c x)) l). lia.
  - specialize (IH H). destruct (negb (bytes_eqb c a)); simpl; lia.
Qed.

Lemma prefixb_refl p : prefixb p p = true.
Proof. induction p as [|x p IH]; simpl; [reflexivity|]. rewrite N.eqb_refl. exact IH. Qed.

Lemma prefixb_app p s t : prefixb p s = true -> prefixb p (s ++ t) = true.
Proof.
  revert s. induction p as [|x p IH]; intros s; simpl; [reflexivity|].
  destruct s as [|y s]; simpl; [discriminate|]. intros H. apply andb_true_iff in H as [H1 H2].
  rewrite H1. simpl. auto.
Qed.

Lemma NoDup_snoc {A} (l : list A) b : NoDup l -> ~ In b l -> NoDup (l ++ [b]).
Proof.
  induction l as [|a l IH]; simpl; intros Hd Hn; [constructor; [simpl; tauto|constructor]|].
  inversion Hd as [|? ? Ha Hd']; subst. constructor.
  - intros Hin. apply in_app_or in Hin as [Hin|[->|[]]]; tauto.
  - apply IH; tauto.
Qed.

Lemma memb_app c a b : memb c (a ++ b) = memb c a || memb c b.
Proof. unfold memb. apply existsb_app. Qed.

(* ================================================================== backup names *)

Lemma backup_name_inj n j k : backup_name n j = backup_name n k -> j = k.
Proof.
  unfold backup_name. intros H. apply app_inv_head in H. simpl in H. injection H as H.
  apply app_inv_tail in H. pose proof (parse_print_dec j) as Pj. rewrite H, parse_print_dec in Pj.
  congruence.
Qed.

Lemma backup_name_prefix n k : prefixb n (backup_name n k) = true.
Proof. unfold backup_name. apply prefixb_app. apply prefixb_refl. Qed.

Definition ends_tilde (m : bytes) : bool := suffixb [TILDE] m.

Lemma backup_name_tilde n k : ends_tilde (backup_name n k) = true.
Proof.
  unfold ends_tilde, suffixb, backup_name.
  replace (n ++ [46; TILDE] ++ print_dec k ++ [TILDE]) with ((n ++ [46; TILDE] ++ print_dec k) ++ [TILDE])
    by (rewrite <- !app_assoc; reflexivity).
  rewrite rev_app_distr. reflexivity.
Qed.

Lemma avail_gen_form norm n : forall fuel used k,
  exists j, k <= j /\ avail_gen norm n used k fuel = backup_name n j.
Proof.
  induction fuel as [|f IH]; intros used k; cbn [avail_gen].
  - exists k. split; [lia|reflexivity].
  - destruct (memn (norm (backup_name n k)) used).
    + destruct (IH (filter (fun x => negb (bytes_eqb (norm (backup_name n k)) x)) used) (N.succ k)) as [j [Hj E]].
      exists j. split; [lia|exact E].
    + exists k. split; [lia|reflexivity].
Qed.

(* the name found is free: length used candidates cannot all be taken (pigeonhole, via dropping) *)
Lemma avail_gen_fresh norm n :
  (forall j, norm (backup_name n j) = backup_name n j) ->
  forall fuel used k, (List.length used <= fuel)%nat -> ~ In (avail_gen norm n used k fuel) used.
Proof.
  intros Hn. induction fuel as [|f IH]; intros used k Hl; cbn [avail_gen].
  - destruct used; [simpl; tauto|simpl in Hl; lia].
  - rewrite Hn. destruct (memn (backup_name n k) used) eqn:M.
    + apply memn_In in M. pose proof (filter_drop_lt _ _ M) as Hlt.
      set (used' := filter (fun x => negb (bytes_eqb (backup_name n k) x)) used) in *.
      assert (Hl' : (List.length used' <= f)%nat) by lia.
      specialize (IH used' (N.succ k) Hl'). intros Hin. apply IH.
      destruct (avail_gen_form norm n f used' (N.succ k)) as [j [Hj E]].
      apply filter_In. split; [exact Hin|].
      apply negb_true_iff. apply beq_false. rewrite E. intros Heq. apply backup_name_inj in Heq. lia.
    + apply memn_false. exact M.
Qed.

Lemma avail_fresh n used : ~ In (avail n used) used.
Proof. unfold avail. apply (avail_gen_fresh (fun c => c)); [reflexivity|lia]. Qed.

Lemma avail_form n used : exists k, avail n used = backup_name n k.
Proof. unfold avail. destruct (avail_gen_form (fun c => c) n (List.length used) used 1) as [j [_ E]]. eauto. Qed.

(* ================================================================== Part 2: revert *)

Lemma plan_name_name s target bk n p : plan_name s target bk n = Some p -> np_name p = n.
Proof.
  unfold plan_name. destruct (negb _); [discriminate|].
  destruct (changed_content _ _); intros H; injection H as <-; reflexivity.
Qed.

Lemma plans_In s target bk ns p :
  In p (plans s target bk ns) -> plan_name s target bk (np_name p) = Some p.
Proof.
  induction ns as [|a ns IH]; simpl; [tauto|].
  destruct (plan_name s target bk a) eqn:E; [|exact IH].
  intros [<-|H]; [|auto]. rewrite (plan_name_name _ _ _ _ _ E). exact E.
Qed.

Lemma removed_names_In n ps :
  In n (removed_names ps) -> exists p, In p ps /\ goes_away p = true /\ np_name p = n.
Proof.
  unfold removed_names. intros H. apply in_map_iff in H as [p [E H]]. apply filter_In in H as [H1 H2].
  exists p. auto.
Qed.

Lemma backups_of_In d ps : forall used p nd,
  In p ps -> np_act p = ABackup -> lookup (np_name p) d = Some nd ->
  exists used', In (avail (np_name p) used', nd) (backups_of used ps d).
Proof.
  induction ps as [|q ps IH]; intros used p nd Hin Ha Hl; [destruct Hin|].
  destruct Hin as [->|Hin]; cbn [backups_of].
  - rewrite Ha, Hl. eexists. left. reflexivity.
  - destruct (np_act q); try (eapply IH; eassumption).
    destruct (lookup (np_name q) d); [|eapply IH; eassumption].
    destruct (IH (avail (np_name q) used :: used) p nd Hin Ha Hl) as [u' H]. exists u'. right. exact H.
Qed.

Lemma mk_chg_user_edited s target bk n c :
  user_edited s n c -> memn n (inv s) = true ->
  let g := mk_chg s target bk n in
  user_edited_chg g = true /\ backups g = bk /\ (lookup n target = None -> target_kind g = None).
Proof.
  intros [Hd [Hm Hb]] Hv. unfold mk_chg, wt_node. rewrite Hv, Hd, Hm. cbn.
  unfold user_edited_chg. cbn.
  repeat split.
  - destruct (lookup n (basis s)) as [[b| |]|] eqn:B; cbn; try reflexivity.
    destruct (bytes_eqb c b) eqn:E; [|reflexivity]. apply tbeq_eq in E. subst. congruence.
  - intros H. rewrite H. reflexivity.
Qed.

(* the core: user-edited file content survives a revert whenever backups are on or the target has no entry *)
Lemma revert_keeps target sel bk s s' n c :
  revert target sel bk s = Some s' -> user_edited s n c ->
  bk = true \/ lookup n target = None ->
  exists n', In (n', NFile c) (disk s')
             /\ (n' = n \/ n' = n ++ MOVED \/ exists k, n' = backup_name n k).
Proof.
  intros Hr Hu Hg. pose proof Hu as [Hd [Hm Hb]]. unfold revert in Hr.
  set (cs := cands s target sel) in *. set (ps := plans s target bk cs) in *.
  destruct (nodupb _ && _); [|discriminate]. injection Hr as <-. cbn [disk].
  destruct (memn n (removed_names ps)) eqn:G.
  - apply memn_In in G. apply removed_names_In in G as [p [Hp [Hga Hnm]]].
    pose proof (plans_In _ _ _ _ _ Hp) as Hpl. rewrite Hnm in Hpl. unfold plan_name in Hpl.
    destruct (negb _); [discriminate|].
    destruct (changed_content _ _); injection Hpl as Hpl; subst p; cbn in Hga, Hnm;
      [|discriminate].
    destruct (memn n (inv s)) eqn:V.
    + destruct (mk_chg_user_edited s target bk n c Hu V) as [H1 [H3 H4]].
      assert (Hact : alter_action (mk_chg s target bk n) = ABackup).
      { destruct Hg as [->|Hg].
        - destruct (decision_keeps _ H3 H1) as [A|A]; [exact A|].
          unfold goes_away in Hga. cbn in Hga. rewrite A in Hga. discriminate.
        - rewrite (decision_target_none _ H1 (H4 Hg)) in Hga. discriminate. }
      destruct (backups_of_In (disk s) ps (names (disk s)) _ (NFile c) Hp Hact Hd) as [u' Hin].
      cbn [np_name] in Hin. destruct (avail_form n u') as [k Hk].
      exists (avail n u'). split.
      * apply in_or_app. right. apply in_or_app. left. exact Hin.
      * right. right. exists k. exact Hk.
    + (* unversioned: iter_changes reports no working-tree kind, nothing is removed *)
      unfold goes_away in Hga. cbn in Hga. unfold alter_action, mk_chg, wt_node in Hga. rewrite V in Hga.
      cbn in Hga. discriminate.
  - apply lookup_In in Hd.
    set (f := fun kv : bytes * node => negb (memn (fst kv) (removed_names ps))).
    assert (Hin : In (n, NFile c) (filter f (disk s))).
    { apply filter_In. split; [exact Hd|]. unfold f. cbn. rewrite G. reflexivity. }
    apply (in_map (move_aside (names (creations ps)))) in Hin. unfold move_aside at 1 in Hin. cbn [fst snd] in Hin.
    destruct (memn n (names (creations ps))).
    + exists (n ++ MOVED). split; [apply in_or_app; left; exact Hin|auto].
    + exists n. split; [apply in_or_app; left; exact Hin|auto].
Qed.

Lemma revert_nodup target sel bk s s' : revert target sel bk s = Some s' -> NoDup (names (disk s')).
Proof.
  unfold revert. destruct (nodupb _ && _) eqn:E; [|discriminate]. intros H. injection H as <-. cbn [disk].
  apply andb_true_iff in E as [E _]. apply nodupb_NoDup. exact E.
Qed.

(* witnesses (all replayed on the real code by the corpus of harness/props/c12.py) *)
Definition nA : bytes := [97].
Definition nB : bytes := [98].
Definition s_added : state :=
  {| basis := [(nB, NFile [103; 10])]; inv := [nA; nB];
     disk := [(nA, NFile (b_ "USER EDIT")); (nB, NFile [103; 10])]; mm := [] |}.
Definition t_added : fmap := [(nA, NFile (b_ "one")); (nB, NFile [103; 10])].

(* the witness of the repaired finding C12-revert-added-file-no-backup: the edit now goes to a.~1~ *)
Example revert_added_ex :
  exists s', revert t_added (Some [nA]) true s_added = Some s'
             /\ user_edited s_added nA (b_ "USER EDIT")
             /\ In (backup_name nA 1, NFile (b_ "USER EDIT")) (disk s').
Proof.
  eexists. split; [vm_compute; reflexivity|]. split.
  - repeat split; vm_compute; congruence.
  - vm_compute. tauto.
Qed.

Definition s_link : state :=
  {| basis := [(nA, NLink (b_ "t1"))]; inv := [nA]; disk := [(nA, NLink (b_ "USER"))]; mm := [] |}.
Lemma revert_symlink_refuted :
  exists s', revert (basis s_link) None true s_link = Some s'
             /\ forall n', ~ In (n', NLink (b_ "USER")) (disk s').
Proof.
  eexists. split; [vm_compute; reflexivity|].
  intros n' H. cbn in H. repeat (destruct H as [H|H]; [discriminate|]). exact H.
Qed.

(* hypotheses satisfiable, all three outcomes *)
Definition s_ex : state :=
  {| basis := [(nA, NFile (b_ "one"))]; inv := [nA; nB];
     disk := [(nA, NFile (b_ "EDIT")); (nB, NFile (b_ "new")); (nA ++ [46; 126; 49; 126], NFile (b_ "old"))];
     mm := [] |}.
Example revert_ex :
  exists s', revert (basis s_ex) None true s_ex = Some s'
    /\ user_edited s_ex nA (b_ "EDIT")
    /\ In (backup_name nA 2, NFile (b_ "EDIT")) (disk s') /\ In (nB, NFile (b_ "new")) (disk s').
Proof.
  eexists. split; [vm_compute; reflexivity|]. split; [repeat split; vm_compute; congruence|].
  split; vm_compute; tauto.
Qed.

(* ================================================================== Part 3: remove *)

(* the guard: a named path that ends in '~' is one the loop backs up rather than deletes.  It stands for "the
   loop runs in reverse sorted order" (a backup name n.~k~ sorts after n, so it has been handled before n is
   renamed onto it); the model takes the loop order as given and does not sort. *)
Definition rm_guard (s : state) (files : list bytes) : bool :=
  forallb (fun m => negb (ends_tilde m) || to_backup s m) files.

Lemma In_remove_key {A} m (d : list (bytes * A)) k v : k <> m -> In (k, v) d -> In (k, v) (remove_key m d).
Proof.
  intros Hne Hin. unfold remove_key. apply filter_In. split; [exact Hin|]. cbn.
  apply negb_true_iff. apply beq_false. congruence.
Qed.

Lemma not_In_remove_key {A} m (d : list (bytes * A)) : ~ In m (names (remove_key m d)).
Proof.
  unfold names, remove_key. intros H. apply in_map_iff in H as [[k v] [E H]]. cbn in E. subst k.
  apply filter_In in H as [_ H]. cbn in H. rewrite tbeq_refl in H. discriminate.
Qed.

Lemma names_app {A} (a b : list (bytes * A)) : names (a ++ b) = names a ++ names b.
Proof. unfold names. apply map_app. Qed.

Lemma disk_set_disk a d : disk (set_disk a d) = d.
Proof. reflexivity. Qed.

Section RemoveInv.
Variables (s0 : state) (n : bytes) (nd : node).
Hypothesis Hprot : to_backup s0 n = true.

Definition rinv (a : state) : Prop :=
  NoDup (names (disk a))
  /\ exists n', prefixb n n' = true /\ In (n', nd) (disk a) /\ (n' = n \/ ends_tilde n' = true).

Lemma remove_one_inv a m :
  negb (ends_tilde m) || to_backup s0 m = true ->
  rinv a -> rinv (remove_one false false s0 a m).
Proof.
  intros Htl [Hnd [n' [Hpre [Hin Hform]]]].
  unfold remove_one. cbn [negb].
  destruct (lookup m (disk a)) as [ndm|] eqn:L; [|split; eauto].
  assert (Hsame : n' = m -> ndm = nd).
  { intros ->. rewrite (NoDup_lookup_In _ _ _ Hnd Hin) in L. congruence. }
  set (need := match ndm with NDir (_ :: _) => true | _ => true && to_backup s0 m end).
  destruct need eqn:N.
  - unfold rinv. rewrite !disk_set_disk.
    set (b := avail m (names (disk a))).
    pose proof (avail_fresh m (names (disk a))) as Hfresh. fold b in Hfresh.
    destruct (avail_form m (names (disk a))) as [j Hb]. fold b in Hb.
    split.
    + rewrite names_app. cbn. apply NoDup_snoc.
      * apply NoDup_names_filter. apply NoDup_names_filter. exact Hnd.
      * apply not_In_remove_key.
    + destruct (bytes_eqb n' m) eqn:E.
      * apply tbeq_eq in E. rewrite (Hsame E). exists b. split; [|split].
        -- rewrite Hb. subst n'. apply prefixb_app. exact Hpre.
        -- apply in_or_app. right. left. reflexivity.
        -- right. rewrite Hb. apply backup_name_tilde.
      * apply beq_false in E. exists n'. split; [exact Hpre|]. split; [|exact Hform].
        apply in_or_app. left. apply In_remove_key.
        -- intros ->. apply Hfresh. unfold names. apply in_map_iff. exists (b, nd). auto.
        -- apply In_remove_key; assumption.
  - unfold rinv. rewrite !disk_set_disk. split; [apply NoDup_names_filter; exact Hnd|].
    destruct (bytes_eqb n' m) eqn:E.
    + exfalso. apply tbeq_eq in E. pose proof (Hsame E) as ->. subst n'. unfold need in N.
      assert (Hb : to_backup s0 m = false).
      { destruct nd as [| |[|]]; cbn in N; try exact N; discriminate. }
      destruct Hform as [->|Ht]; [congruence|]. rewrite Ht, Hb in Htl. discriminate.
    + apply beq_false in E. exists n'. split; [exact Hpre|]. split; [|exact Hform].
      apply In_remove_key; assumption.
Qed.
End RemoveInv.

Lemma remove_fold_inv s0 n nd keep : forall files a,
  to_backup s0 n = true ->
  forallb (fun m => negb (ends_tilde m) || to_backup s0 m) files = true ->
  rinv n nd a -> rinv n nd (fold_left (remove_one keep false s0) files a).
Proof.
  induction files as [|m files IH]; intros a Hp Hg Hi; [exact Hi|].
  cbn [fold_left]. cbn [forallb] in Hg. apply andb_true_iff in Hg as [Hm Hg].
  destruct keep.
  - cbn [remove_one]. apply IH; assumption.
  - apply IH; try assumption. apply remove_one_inv; assumption.
Qed.

Lemma forallb_dedup f l : forallb f l = true -> forallb f (dedup l) = true.
Proof.
  induction l as [|a l IH]; simpl; [auto|]. intros H. apply andb_true_iff in H as [H1 H2].
  destruct (memn a l); simpl; [auto|]. rewrite H1. auto.
Qed.

(* remove without --force: what the loop would back up stays on disk, under its own name or a longer one *)
Theorem remove_preserves s files keep n nd :
  NoDup (names (disk s)) -> rm_guard s files = true ->
  lookup n (disk s) = Some nd -> to_backup s n = true ->
  exists n', prefixb n n' = true /\ In (n', nd) (disk (remove files keep false s)).
Proof.
  intros Hd Hg Hl Hp.
  assert (Hi : rinv n nd s).
  { split; [exact Hd|]. exists n. split; [apply prefixb_refl|]. split; [apply lookup_In; exact Hl|auto]. }
  pose proof (remove_fold_inv s n nd keep (dedup files) s Hp (forallb_dedup _ _ Hg) Hi) as H.
  unfold remove. cbn [disk]. destruct H as [_ [n' [H1 [H2 _]]]]. exists n'. split; assumption.
Qed.

(* --keep: nothing on disk changes at all, whatever --force says *)
Theorem remove_keep_disk s files force : disk (remove files true force s) = disk s.
Proof.
  unfold remove. cbn [disk].
  assert (H : forall l a, fold_left (remove_one true force s) l a = a).
  { induction l as [|m l IH]; intros a; [reflexivity|]. cbn [fold_left remove_one]. apply IH. }
  rewrite H. reflexivity.
Qed.

(* unknown: not versioned (whether or not its path is a path of the basis);
   modified: versioned, added or changed and present *)
Lemma to_backup_unknown s n : memn n (inv s) = false -> to_backup s n = true.
Proof. intros H1. unfold to_backup. rewrite H1. reflexivity. Qed.

Lemma to_backup_modified s n nd :
  memn n (inv s) = true -> lookup n (disk s) = Some nd ->
  lookup n (basis s) = None \/ changed_content (lookup n (basis s)) (Some nd) = true ->
  to_backup s n = true.
Proof.
  intros H1 H2 H3. unfold to_backup. rewrite H1, H2. destruct H3 as [-> | ->]; [reflexivity|].
  cbn. apply orb_true_r.
Qed.

(* the witnesses of the repaired findings, now preserved *)
(* "rm --keep f", edit f, "rm f" (86c5d42) *)
Definition s_kept : state :=
  {| basis := [(nA, NFile (b_ "one"))]; inv := []; disk := [(nA, NFile (b_ "EDITED"))]; mm := [] |}.
Example remove_kept_ex : disk (remove [nA] false false s_kept) = [(backup_name nA 1, NFile (b_ "EDITED"))].
Proof. reflexivity. Qed.

(* "%41" with an existing "%41.~1~" (b356f06): the next free name is used *)
Definition nP : bytes := [37; 52; 49].
Definition s_pct : state :=
  {| basis := [(nP, NFile (b_ "one"))]; inv := [nP];
     disk := [(nP, NFile (b_ "EDIT 2")); (backup_name nP 1, NFile (b_ "PRECIOUS"))]; mm := [] |}.
Example remove_percent_ex :
  disk (remove [nP] false false s_pct)
  = [(backup_name nP 1, NFile (b_ "PRECIOUS")); (backup_name nP 2, NFile (b_ "EDIT 2"))].
Proof. reflexivity. Qed.

(* with --force (and no --keep) unknown content IS deleted: force is what it takes *)
Definition s_unk : state := {| basis := []; inv := []; disk := [(nA, NFile (b_ "unk"))]; mm := [] |}.
Example remove_force_deletes : disk (remove [nA] false true s_unk) = [].
Proof. reflexivity. Qed.
Example remove_noforce_ex :
  rm_guard s_unk [nA] = true /\ to_backup s_unk nA = true
  /\ disk (remove [nA] false false s_unk) = [(backup_name nA 1, NFile (b_ "unk"))].
Proof. repeat split. Qed.

(* without the guard the MODEL (which does not sort) can lose a backup: a versioned, missing "a.~1~" named
   after "a".  The real loop handles "a.~1~" first (reverse sorted), see notes. *)

(* ================================================================== Part 4: one path through a merge *)

Lemma text_merge_unflagged o b t ot rs ls :
  text_merge o b t ot rs = Some (ls, false) ->
  has_conflict rs = false /\ ls = clean_lines b t ot rs.
Proof.
  unfold text_merge. destruct (o_show_base o && o_reprocess o); [discriminate|].
  intros H. cbv zeta in H.
  set (raw := merge_lines START (o_show_base o) (newline_of t) b t ot rs) in *.
  assert (Hf : existsb (prefixb START) raw = false) by congruence.
  assert (Hls : map post_line raw = ls) by congruence. clear H. unfold raw in *. clear raw.
  assert (Hc : has_conflict rs = false).
  { destruct (has_conflict rs) eqn:E; [|reflexivity].
    rewrite (conflict_flagged (o_show_base o) b t ot (newline_of t) rs E) in Hf. discriminate. }
  split; [exact Hc|]. subst ls.
  rewrite map_post_id.
  - apply merge_lines_clean. exact Hc.
  - intros l Hl. destruct (prefixb START l) eqn:P; [|reflexivity].
    assert (existsb (prefixb START) (merge_lines START (o_show_base o) (newline_of t) b t ot rs) = true)
      by (apply existsb_exists; eauto).
    congruence.
Qed.

Definition base_lines (base : option (list line)) : list line := match base with Some b => b | None => [] end.

Theorem merge_keeps_local_or_clean o base this tv sid other rs r :
  merge_entry o base this tv sid other rs = Some r ->
  (r_main r = Some (text this) \/ r_this r = Some (text this) \/ r_moved r = Some (text this))
  \/ (exists b, base = Some b /\ text b = text this /\ r_main r = option_map text other /\ r_conf r = ""%string)
  \/ (exists ot, other = Some ot /\ has_conflict rs = false /\ r_conf r = ""%string
                 /\ r_main r = Some (text (clean_lines (base_lines base) this ot rs))).
Proof.
  unfold merge_entry. destruct tv; cbn [negb].
  - destruct base as [b|], other as [ot|].
    + (* both present: C19's merge_file *)
      destruct (merge_file o b this ot rs (wt0 this)) as [w|] eqn:M; [|discriminate].
      intros H. injection H as <-. unfold merge_file in M.
      destruct (bytes_eqb (text b) (text ot)) eqn:E1; [injection M as <-; left; left; reflexivity|].
      destruct (bytes_eqb (text this) (text ot)) eqn:E2; [injection M as <-; left; left; reflexivity|].
      destruct (bytes_eqb (text b) (text this)) eqn:E3.
      * injection M as <-. right. left. exists b. apply tbeq_eq in E3. repeat split; auto.
      * destruct (text_merge o b this ot rs) as [[ls [|]]|] eqn:T; [| |discriminate]; injection M as <-.
        -- left. right. left. reflexivity.
        -- apply text_merge_unflagged in T as [Hc ->]. right. right. exists ot. repeat split; auto.
    + destruct (bytes_eqb (text this) (text b)) eqn:E; intros H; injection H as <-.
      * right. left. exists b. apply tbeq_eq in E. repeat split; auto.
      * left. right. left. reflexivity.
    + destruct sid.
      * destruct (bytes_eqb (text this) (text ot)); [intros H; injection H as <-; left; left; reflexivity|].
        destruct (text_merge o [] this ot rs) as [[ls [|]]|] eqn:T; [| |discriminate]; intros H; injection H as <-.
        -- left. right. left. reflexivity.
        -- apply text_merge_unflagged in T as [Hc ->]. right. right. exists ot. repeat split; auto.
      * intros H. injection H as <-. left. right. right. reflexivity.
    + intros H. injection H as <-. left. left. reflexivity.
  - (* unversioned on disk *)
    destruct base as [b|], other as [ot|]; try (intros H; injection H as <-; left; left; reflexivity).
    + destruct (bytes_eqb (text b) (text ot)); intros H; injection H as <-; left; left; reflexivity.
    + intros H. injection H as <-. left. right. right. reflexivity.
Qed.

(* a locally changed file (relative to BASE) is never silently replaced *)
Corollary merge_keeps_user_edited o b this tv sid other rs r :
  merge_entry o (Some b) this tv sid other rs = Some r -> text b <> text this ->
  (r_main r = Some (text this) \/ r_this r = Some (text this) \/ r_moved r = Some (text this))
  \/ (exists ot, other = Some ot /\ has_conflict rs = false /\ r_conf r = ""%string
                 /\ r_main r = Some (text (clean_lines b this ot rs))).
Proof.
  intros H Hne. destruct (merge_keeps_local_or_clean _ _ _ _ _ _ _ _ H) as [K|[[b' [E [Ht _]]]|K]]; auto.
  injection E as <-. contradiction.
Qed.

Example merge_ex_conflict :
  exists r, merge_entry {| o_reprocess := false; o_show_base := false |} (Some [b_ "a"]) [b_ "A"] true true
              (Some [b_ "B"]) [IConflict 0 1 0 1 0 1] = Some r
            /\ r_this r = Some (b_ "A") /\ r_conf r = "text"%string.
Proof. eexists. split; [vm_compute; reflexivity|]. split; reflexivity. Qed.

(* ================================================================== uncommit *)
Theorem uncommit_tree_untouched nb s :
  disk (uncommit_tree nb s) = disk s /\ inv (uncommit_tree nb s) = inv s /\ mm (uncommit_tree nb s) = mm s.
Proof. repeat split. Qed.

(* ================================================================== merge-hashes after a merge *)
(* a path is recorded in merge_modified() only if the merge wrote its content: OTHER's text, or the output of
   text_merge -- never the untouched local file (so a later revert cannot mistake a user edit for merge output) *)
Theorem merge_recorded_was_written o base this tv sid other rs r :
  merge_entry o base this tv sid other rs = Some r -> r_mm r = true ->
  exists ot, other = Some ot /\
    (r_main r = Some (text ot)
     \/ exists ls flag, text_merge o (base_lines base) this ot rs = Some (ls, flag) /\ r_main r = Some (text ls)).
Proof.
  unfold merge_entry. destruct tv; cbn [negb].
  - destruct base as [b|], other as [ot|].
    + destruct (merge_file o b this ot rs (wt0 this)) as [w|] eqn:M; [|discriminate].
      intros H Hm. injection H as <-. cbn in Hm. apply andb_true_iff in Hm as [E1 E2].
      apply negb_true_iff in E1, E2. unfold merge_file in M. rewrite E1, E2 in M.
      exists ot. split; [reflexivity|].
      destruct (bytes_eqb (text b) (text this)); [injection M as <-; left; reflexivity|].
      destruct (text_merge o b this ot rs) as [[ls [|]]|] eqn:T; [| |discriminate]; injection M as <-;
        right; eexists; eexists; (split; [exact T|reflexivity]).
    + destruct (bytes_eqb (text this) (text b)); intros H Hm; injection H as <-; discriminate.
    + destruct sid.
      * destruct (bytes_eqb (text this) (text ot)); [intros H Hm; injection H as <-; discriminate|].
        destruct (text_merge o [] this ot rs) as [[ls [|]]|] eqn:T; [| |discriminate]; intros H Hm; injection H as <-;
          exists ot; (split; [reflexivity|]); right; eexists; eexists; (split; [exact T|reflexivity]).
      * intros H Hm. injection H as <-. exists ot. split; [reflexivity|]. left. reflexivity.
    + intros H Hm. injection H as <-. discriminate.
  - destruct base as [b|], other as [ot|]; try (intros H Hm; injection H as <-; discriminate).
    + destruct (bytes_eqb (text b) (text ot)); intros H Hm; injection H as <-; discriminate.
    + intros H Hm. injection H as <-. exists ot. split; [reflexivity|]. left. reflexivity.
Qed.

(* ================================================================== Part 5: switch --store *)
Lemma sstep_refused st op st' : sstep st op = (st', true) -> st' = st.
Proof.
  destruct op as [n t|to store]; cbn; [intros H; discriminate H|].
  destruct store; [|intros H; discriminate H].
  destruct (s_tree st); [|destruct (stored st (s_cur st))].
  - match goal with |- context [match ?x with Some _ => _ | None => _ end] => destruct x end; intros H; discriminate H.
  - intros H. injection H as <-. reflexivity.
  - match goal with |- context [match ?x with Some _ => _ | None => _ end] => destruct x end; intros H; discriminate H.
Qed.

(* a switch (with or without --store, refused or not) neither loses nor invents uncommitted work: everything is
   in the tree or stored in one of the branches *)
Lemma sstep_switch_conserves st to store st' r x :
  sstep st (OSwitch to store) = (st', r) -> (In x (all_work st) <-> In x (all_work st')).
Proof.
  destruct st as [cur tr sf stt]. unfold sstep, all_work, stored, set_stored, set_tree. cbn.
  destruct store; [|intros H; injection H as <- <-; cbn; tauto].
  destruct tr as [|e tr]; destruct cur, to, sf as [ef|], stt as [et|]; cbn; intros H; injection H as <- <-; cbn;
    rewrite ?in_app_iff; cbn; rewrite ?in_app_iff, ?app_nil_r; cbn; tauto.
Qed.

Definition is_switch (op : sop) : bool := match op with OSwitch _ _ => true | _ => false end.
Fixpoint srun (st : sst) (ops : list sop) : sst :=
  match ops with [] => st | op :: t => srun (fst (sstep st op)) t end.

Theorem switch_store_conserves : forall ops st x,
  forallb is_switch ops = true -> (In x (all_work st) <-> In x (all_work (srun st ops))).
Proof.
  induction ops as [|op ops IH]; intros st x H; [reflexivity|].
  cbn [forallb] in H. apply andb_true_iff in H as [H1 H2]. destruct op as [|to store]; [discriminate|].
  cbn [srun]. destruct (sstep st (OSwitch to store)) as [st' r] eqn:E. cbn [fst].
  rewrite (sstep_switch_conserves _ _ _ _ _ x E). apply IH. exact H2.
Qed.

(* an edit replaces the uncommitted text of that name in the tree and touches nothing stored *)
Lemma sstep_edit st n t :
  sstep st (OEdit n t) = (set_tree st ((n, t) :: remove_key n (s_tree st)), false).
Proof. reflexivity. Qed.

Example switch_store_ex :
  let ops := [OEdit [102] (b_ "one"); OSwitch true true; OSwitch false false; OEdit [102] (b_ "two");
              OSwitch true true] in
  snd (sstep (srun sst0 (firstn 4 ops)) (OSwitch true true)) = true
  /\ all_work (srun sst0 ops) = [([102], b_ "two"); ([102], b_ "one")].
Proof. split; reflexivity. Qed.
