(* Theory/GitIdsRefs.v -- C36: list lemmas, revision ids, branch/tag names <-> refs. *)
From Coq Require Import ZArith NArith List Bool Lia ZifyBool String.
From BV Require Import Lib.Bytes Model.GitIds Theory.GitIdsCodec.
Import ListNotations.
Open Scope N_scope.

(* ------------------------------------------------------------------ *)
(* list / bytes lemmas                                                *)
(* ------------------------------------------------------------------ *)

Lemma Some_inj : forall (A : Type) (a b : A), Some a = Some b -> a = b.
Proof. intros A a b H. injection H as H. exact H. Qed.

Lemma bytes_eqb_refl : forall a, bytes_eqb a a = true.
Proof.
  unfold bytes_eqb. induction a as [|x a IH]; [reflexivity|].
  rewrite N.eqb_refl. exact IH.
Qed.

Lemma bytes_eqb_eq : forall a b, bytes_eqb a b = true -> a = b.
Proof.
  unfold bytes_eqb. induction a as [|x a IH]; intros [|y b] H; try discriminate; [reflexivity|].
  apply andb_prop in H. destruct H as [H1 H2].
  apply N.eqb_eq in H1. subst y. f_equal. apply IH. exact H2.
Qed.

Lemma bytes_eqb_neq : forall a b, a <> b -> bytes_eqb a b = false.
Proof.
  intros a b H. destruct (bytes_eqb a b) eqn:E; [|reflexivity].
  apply bytes_eqb_eq in E. contradiction.
Qed.

Lemma prefixb_app : forall p s, prefixb p (p ++ s) = true.
Proof.
  induction p as [|x p IH]; intros s; [reflexivity|].
  change ((x :: p) ++ s) with (x :: (p ++ s)).
  change (prefixb (x :: p) (x :: (p ++ s))) with ((x =? x) && prefixb p (p ++ s)).
  rewrite N.eqb_refl, IH. reflexivity.
Qed.

Lemma prefixb_split : forall p s, prefixb p s = true -> s = p ++ skipn (List.length p) s.
Proof.
  induction p as [|x p IH]; intros s H; [reflexivity|].
  destruct s as [|y s]; [discriminate|].
  change (prefixb (x :: p) (y :: s)) with ((x =? y) && prefixb p s) in H.
  apply andb_prop in H. destruct H as [H1 H2]. apply N.eqb_eq in H1. subst y.
  change (skipn (List.length (x :: p)) (x :: s)) with (skipn (List.length p) s).
  change ((x :: p) ++ skipn (List.length p) s) with (x :: (p ++ skipn (List.length p) s)).
  f_equal. apply IH. exact H2.
Qed.

Lemma skipn_app_len : forall (p s : list N), skipn (List.length p) (p ++ s) = s.
Proof. induction p as [|x p IH]; intros s; [reflexivity|]. exact (IH s). Qed.

Lemma skipn_app_len' : forall (p s : list N) n, n = List.length p -> skipn n (p ++ s) = s.
Proof. intros p s n ->. apply skipn_app_len. Qed.

Lemma memb_false_neq : forall c x s, memb c (x :: s) = false -> (x =? c) = false /\ memb c s = false.
Proof.
  intros c x s H. unfold memb in *. cbn [existsb] in H.
  apply orb_false_elim in H. destruct H as [H1 H2]. rewrite N.eqb_sym. split; assumption.
Qed.

Lemma split1_aux_app : forall sep p cur s,
  memb sep p = false ->
  split1_aux sep cur (p ++ sep :: s) = (rev cur ++ p) :: split1_aux sep [] s.
Proof.
  intros sep p. induction p as [|x p IH]; intros cur s H.
  - change ([] ++ sep :: s) with (sep :: s). cbn [split1_aux]. rewrite N.eqb_refl, app_nil_r.
    reflexivity.
  - apply memb_false_neq in H. destruct H as [H1 H2].
    change ((x :: p) ++ sep :: s) with (x :: (p ++ sep :: s)). cbn [split1_aux].
    rewrite H1, (IH _ _ H2). cbn [rev]. rewrite <- app_assoc. reflexivity.
Qed.

Lemma split1_aux_nomatch : forall sep p cur,
  memb sep p = false -> split1_aux sep cur p = [rev cur ++ p].
Proof.
  intros sep p. induction p as [|x p IH]; intros cur H.
  - cbn [split1_aux]. rewrite app_nil_r. reflexivity.
  - apply memb_false_neq in H. destruct H as [H1 H2].
    cbn [split1_aux]. rewrite H1, (IH _ H2). cbn [rev]. rewrite <- app_assoc. reflexivity.
Qed.

Lemma split1_app : forall sep p s,
  memb sep p = false -> split1 sep (p ++ sep :: s) = p :: split1 sep s.
Proof. intros. unfold split1. rewrite split1_aux_app by assumption. reflexivity. Qed.

Lemma split1_nomatch : forall sep p, memb sep p = false -> split1 sep p = [p].
Proof. intros. unfold split1. rewrite split1_aux_nomatch by assumption. reflexivity. Qed.

Lemma split1_aux_nonempty : forall sep s cur, exists a l, split1_aux sep cur s = a :: l.
Proof.
  intros sep s. induction s as [|x s IH]; intros cur.
  - eexists; eexists; reflexivity.
  - cbn [split1_aux]. destruct (x =? sep); [eexists; eexists; reflexivity|apply IH].
Qed.

Lemma wf_bytes_skip : forall p s, wf_bytes (p ++ s) = true -> wf_bytes s = true.
Proof.
  intros p s H. rewrite wf_bytes_app in H. apply andb_prop in H. tauto.
Qed.

(* ------------------------------------------------------------------ *)
(* revision ids                                                       *)
(* ------------------------------------------------------------------ *)

(* class level: every git_rev_id except ZERO_SHA, any mapping prefix *)
Theorem revid_class_roundtrip_guarded : forall prefix sha,
  bytes_eqb sha ZERO_SHA = false ->
  revision_id_bzr_to_foreign prefix (revision_id_foreign_to_bzr prefix sha) = Some sha.
Proof.
  intros prefix sha H. unfold revision_id_foreign_to_bzr, revision_id_bzr_to_foreign.
  rewrite H. rewrite app_assoc, prefixb_app. cbn [negb]. f_equal.
  apply skipn_app_len'. rewrite app_length. reflexivity.
Qed.

Theorem revid_class_roundtrip_refuted :
  revision_id_bzr_to_foreign PREFIX_V1 (revision_id_foreign_to_bzr PREFIX_V1 ZERO_SHA) = None.
Proof. reflexivity. Qed.

(* the other direction, class level *)
Theorem revid_class_back_guarded : forall prefix r sha,
  revision_id_bzr_to_foreign prefix r = Some sha -> bytes_eqb sha ZERO_SHA = false ->
  revision_id_foreign_to_bzr prefix sha = r.
Proof.
  intros prefix r sha H Hz. unfold revision_id_bzr_to_foreign in H.
  destruct (prefixb (prefix ++ [58]) r) eqn:P; [|discriminate].
  cbn [negb] in H. injection H as <-.
  unfold revision_id_foreign_to_bzr. rewrite Hz.
  apply prefixb_split in P. rewrite app_length in P.
  rewrite app_assoc. symmetry. exact P.
Qed.

Theorem revid_class_back_refuted :
  exists r sha, revision_id_bzr_to_foreign PREFIX_V1 r = Some sha /\
                revision_id_foreign_to_bzr PREFIX_V1 sha <> r.
Proof.
  exists (PREFIX_V1 ++ [58] ++ ZERO_SHA), ZERO_SHA. split; [reflexivity|].
  vm_compute. discriminate.
Qed.

(* registry level: EVERY git_rev_id, both registered mappings *)
Definition registered (prefix : bytes) : Prop := prefix = PREFIX_V1 \/ prefix = PREFIX_EXP.

Theorem revid_registry_roundtrip : forall prefix sha,
  registered prefix ->
  registry_bzr_to_foreign (revision_id_foreign_to_bzr prefix sha)
  = Ok (sha, if bytes_eqb sha ZERO_SHA then None else Some prefix).
Proof.
  intros prefix sha Hreg. unfold revision_id_foreign_to_bzr.
  destruct (bytes_eqb sha ZERO_SHA) eqn:Z.
  - apply bytes_eqb_eq in Z. subst sha. reflexivity.
  - unfold registry_bzr_to_foreign.
    assert (Hcls := revid_class_roundtrip_guarded prefix sha Z).
    unfold revision_id_foreign_to_bzr in Hcls. rewrite Z in Hcls.
    change ([58] ++ sha) with (58 :: sha) in *.
    destruct Hreg as [-> | ->].
    + replace (bytes_eqb (PREFIX_V1 ++ 58 :: sha) NULL_REVISION) with false by reflexivity.
      replace (prefixb (asc "git-") (PREFIX_V1 ++ 58 :: sha)) with true by reflexivity.
      cbn [negb].
      rewrite (split1_app 58 PREFIX_V1 sha) by reflexivity.
      unfold split1. destruct (split1_aux_nonempty 58 sha []) as [a [l ->]].
      replace (registry_get PREFIX_V1) with (Some PREFIX_V1) by reflexivity.
      rewrite Hcls. reflexivity.
    + replace (bytes_eqb (PREFIX_EXP ++ 58 :: sha) NULL_REVISION) with false by reflexivity.
      replace (prefixb (asc "git-") (PREFIX_EXP ++ 58 :: sha)) with true by reflexivity.
      cbn [negb].
      rewrite (split1_app 58 PREFIX_EXP sha) by reflexivity.
      unfold split1. destruct (split1_aux_nonempty 58 sha []) as [a [l ->]].
      replace (registry_get PREFIX_EXP) with (Some PREFIX_EXP) by reflexivity.
      rewrite Hcls. reflexivity.
Qed.

(* ------------------------------------------------------------------ *)
(* branch / tag names and refs                                        *)
(* ------------------------------------------------------------------ *)

Definition REFS_SLASH : str := asc "refs/".

Lemma ref_to_branch_name_heads : forall b,
  ref_to_branch_name (LOCAL_BRANCH_PREFIX ++ b)
  = match utf8_decode false b with Some s => Ok s | None => Err "UnicodeDecodeError" end.
Proof.
  intros b. unfold ref_to_branch_name.
  replace (bytes_eqb (LOCAL_BRANCH_PREFIX ++ b) HEAD) with false by reflexivity.
  rewrite prefixb_app, skipn_app_len. reflexivity.
Qed.

Lemma ref_to_tag_name_tags : forall b,
  ref_to_tag_name (LOCAL_TAG_PREFIX ++ b)
  = match utf8_decode false b with Some s => Ok s | None => Err "UnicodeDecodeError" end.
Proof.
  intros b. unfold ref_to_tag_name. rewrite prefixb_app, skipn_app_len. reflexivity.
Qed.

(* name -> ref -> name, under the exact guard *)
Theorem branch_name_roundtrip_guarded : forall name r,
  prefixb REFS_SLASH name = false ->
  branch_name_to_ref name = Some r -> ref_to_branch_name r = Ok name.
Proof.
  intros name r Hg H. unfold branch_name_to_ref in H.
  destruct name as [|c name]; [injection H as <-; reflexivity|].
  fold REFS_SLASH in H. rewrite Hg in H. cbn [negb] in H.
  destruct (utf8_encode false (c :: name)) as [b|] eqn:E; [|discriminate].
  cbn [option_map] in H. apply Some_inj in H. subst r.
  rewrite ref_to_branch_name_heads, (utf8_encode_decode_strict _ _ E). reflexivity.
Qed.

Theorem branch_name_roundtrip_refuted :
  exists name r, branch_name_to_ref name = Some r /\ ref_to_branch_name r <> Ok name.
Proof.
  exists (asc "refs/heads/x"), (asc "refs/heads/x"). split; [reflexivity|].
  vm_compute. discriminate.
Qed.

Theorem branch_name_roundtrip_refuted_error :
  exists name r, branch_name_to_ref name = Some r /\ ref_to_branch_name r = Err "ValueError".
Proof. exists (asc "refs/tags/x"), (asc "refs/tags/x"). split; reflexivity. Qed.

(* tags: no guard needed *)
Theorem tag_name_roundtrip : forall name r,
  tag_name_to_ref name = Some r -> ref_to_tag_name r = Ok name.
Proof.
  intros name r H. unfold tag_name_to_ref in H.
  destruct (utf8_encode false name) as [b|] eqn:E; [|discriminate].
  cbn [option_map] in H. apply Some_inj in H. subst r.
  rewrite ref_to_tag_name_tags, (utf8_encode_decode_strict _ _ E). reflexivity.
Qed.

(* ref -> name -> ref *)
Theorem ref_branch_roundtrip_guarded : forall ref name,
  wf_bytes ref = true ->
  ref_to_branch_name ref = Ok name ->
  prefixb REFS_SLASH name = false ->
  (name = [] -> ref = HEAD) ->
  branch_name_to_ref name = Some ref.
Proof.
  intros ref name Hwf H Hg Hne. unfold ref_to_branch_name in H.
  destruct (bytes_eqb ref HEAD) eqn:EH.
  - injection H as <-. apply bytes_eqb_eq in EH. subst ref. reflexivity.
  - destruct (prefixb LOCAL_BRANCH_PREFIX ref) eqn:P; [|discriminate].
    destruct (utf8_decode false (skipn (List.length LOCAL_BRANCH_PREFIX) ref)) as [s|] eqn:D;
      [|discriminate].
    injection H as <-. apply prefixb_split in P.
    assert (Hwf' : wf_bytes (skipn (List.length LOCAL_BRANCH_PREFIX) ref) = true).
    { rewrite P in Hwf. exact (wf_bytes_skip _ _ Hwf). }
    pose proof (utf8_decode_encode false _ _ Hwf' D) as E.
    destruct s as [|c s].
    + specialize (Hne eq_refl). subst ref. discriminate.
    + unfold branch_name_to_ref. fold REFS_SLASH. rewrite Hg. cbn [negb]. rewrite E.
      cbn [option_map]. f_equal. symmetry. exact P.
Qed.

Theorem ref_branch_roundtrip_refuted :
  exists ref name, ref_to_branch_name ref = Ok name /\ branch_name_to_ref name <> Some ref.
Proof.
  exists (asc "refs/heads/refs/x"), (asc "refs/x"). split; [reflexivity|].
  vm_compute. discriminate.
Qed.

Theorem ref_tag_roundtrip : forall ref name,
  wf_bytes ref = true -> ref_to_tag_name ref = Ok name -> tag_name_to_ref name = Some ref.
Proof.
  intros ref name Hwf H. unfold ref_to_tag_name in H.
  destruct (prefixb LOCAL_TAG_PREFIX ref) eqn:P; [|discriminate].
  destruct (utf8_decode false (skipn (List.length LOCAL_TAG_PREFIX) ref)) as [s|] eqn:D;
    [|discriminate].
  injection H as <-. apply prefixb_split in P.
  assert (Hwf' : wf_bytes (skipn (List.length LOCAL_TAG_PREFIX) ref) = true).
  { rewrite P in Hwf. exact (wf_bytes_skip _ _ Hwf). }
  unfold tag_name_to_ref. rewrite (utf8_decode_encode false _ _ Hwf' D).
  cbn [option_map]. f_equal. symmetry. exact P.
Qed.
