(* Theory/OsUtilsDate.v -- lemmas about the date part of Model/OsUtils.v (C47):
   the proleptic Gregorian calendar (400-year eras), fixed-width decimal fields,
   and the round trip unpack_highres_date (format_highres_date ...). *)
From Coq Require Import String Ascii ZArith NArith List Bool Lia.
From BV Require Import Lib.Bytes Lib.Obs Model.OsUtils Theory.OsUtilsLines.
Import ListNotations.
Open Scope Z_scope.

Ltac dm := Z.div_mod_to_equations; lia.

(* ------------------------------------------------------------------ *)
(* 1. calendar                                                         *)
(* ------------------------------------------------------------------ *)
Definition month_carry (m : Z) : Z := if m <=? 2 then 1 else 0.

(* one era (146097 days) checked exhaustively; everything else is algebra on the era number *)
Definition doe_ok (doe : Z) : bool :=
  match civil_of_doe doe with
  | (yoe, m, d) =>
      (0 <=? yoe) && (yoe <=? 399) && (1 <=? m) && (m <=? 12) && (1 <=? d)
      && (d <=? days_in_month (yoe + month_carry m) m)
      && (doe_of_civil yoe m d =? doe)
      && (if doe <=? 146036 then yoe + month_carry m <=? 399 else yoe + month_carry m =? 400)
  end.
Fixpoint check_range (n : nat) (z : Z) : bool :=
  match n with
  | O => true
  | S k => doe_ok z && check_range k (z + 1)
  end.

Lemma doe_check : check_range (Z.to_nat 146097) 0 = true.
Proof. vm_compute. reflexivity. Qed.

Lemma check_range_sound n : forall s z,
  check_range n s = true -> s <= z < s + Z.of_nat n -> doe_ok z = true.
Proof.
  induction n as [|n IH]; intros s z Hc Hz; [lia|].
  cbn [check_range] in Hc. apply andb_true_iff in Hc as [H1 H2].
  destruct (Z.eq_dec z s) as [->|Hne]; [exact H1|].
  apply (IH (s + 1)); [exact H2|lia].
Qed.

Lemma doe_ok_all doe : 0 <= doe < 146097 -> doe_ok doe = true.
Proof.
  intros H. apply (check_range_sound _ 0 doe doe_check). rewrite Z2Nat.id; lia.
Qed.

Lemma is_leap_era a e : is_leap (a + e * 400) = is_leap a.
Proof.
  unfold is_leap.
  replace ((a + e * 400) mod 4) with (a mod 4) by dm.
  replace ((a + e * 400) mod 100) with (a mod 100) by dm.
  replace ((a + e * 400) mod 400) with (a mod 400) by dm.
  reflexivity.
Qed.

Lemma days_in_month_era a e m : days_in_month (a + e * 400) m = days_in_month a m.
Proof. unfold days_in_month. rewrite is_leap_era. reflexivity. Qed.

Lemma civil_roundtrip z :
  match civil_from_days z with
  | (y, m, d) => days_from_civil y m d = z /\ 1 <= m <= 12 /\ 1 <= d <= days_in_month y m
  end.
Proof.
  unfold civil_from_days.
  set (z' := z + 719468). set (era := z' / 146097). set (doe := z' mod 146097).
  assert (Hdoe : 0 <= doe < 146097) by (subst doe; apply Z.mod_pos_bound; lia).
  pose proof (doe_ok_all doe Hdoe) as Hok. unfold doe_ok in Hok.
  destruct (civil_of_doe doe) as [[yoe m] d].
  repeat (apply andb_true_iff in Hok as [Hok ?]).
  fold (month_carry m).
  assert (Hy : 0 <= yoe <= 399) by lia.
  assert (Hm : 1 <= m <= 12) by lia.
  assert (Hd : doe_of_civil yoe m d = doe) by lia.
  split; [|split; [exact Hm|]].
  - unfold days_from_civil. fold (month_carry m).
    replace (yoe + era * 400 + month_carry m - month_carry m) with (yoe + era * 400) by ring.
    replace ((yoe + era * 400) / 400) with era by dm.
    replace ((yoe + era * 400) mod 400) with yoe by dm.
    rewrite Hd. subst doe era. dm.
  - replace (yoe + era * 400 + month_carry m) with (yoe + month_carry m + era * 400) by ring.
    rewrite days_in_month_era. lia.
Qed.

(* years 0..9999 are exactly the timestamps 0000-01-01T00:00:00 .. 9999-12-31T23:59:59 *)
Definition TS_MIN : Z := -62167219200.
Definition TS_MAX : Z := 253402300799.

Lemma year_bounds ts : TS_MIN <= ts <= TS_MAX -> 0 <= year_of_ts ts <= 9999.
Proof.
  unfold TS_MIN, TS_MAX, year_of_ts, civil_from_days. intros Hts.
  set (z' := ts / 86400 + 719468). set (era := z' / 146097). set (doe := z' mod 146097).
  assert (Hz : -60 <= z' <= 3652364) by (subst z'; dm).
  assert (Hdoe : 0 <= doe < 146097) by (subst doe; apply Z.mod_pos_bound; lia).
  assert (Hera : -1 <= era <= 24) by (subst era; dm).
  assert (Hrel : z' = 146097 * era + doe) by (subst era doe; apply Z.div_mod; lia).
  pose proof (doe_ok_all doe Hdoe) as Hok. unfold doe_ok in Hok.
  destruct (civil_of_doe doe) as [[yoe m] d].
  repeat (apply andb_true_iff in Hok as [Hok ?]).
  fold (month_carry m). cbn [fst].
  assert (Hy : 0 <= yoe <= 399) by lia.
  assert (Hc : 0 <= month_carry m <= 1) by (unfold month_carry; destruct (m <=? 2); lia).
  destruct (doe <=? 146036) eqn:E.
  - apply Z.leb_le in E. assert (yoe + month_carry m <= 399) by lia.
    assert (0 <= era) by lia. lia.
  - apply Z.leb_gt in E. assert (yoe + month_carry m = 400) by lia.
    assert (era <= 23) by lia. lia.
Qed.

(* ------------------------------------------------------------------ *)
(* 2. decimal fields                                                   *)
(* ------------------------------------------------------------------ *)
Lemma digit_cases q : 0 <= q <= 9 ->
  q = 0 \/ q = 1 \/ q = 2 \/ q = 3 \/ q = 4 \/ q = 5 \/ q = 6 \/ q = 7 \/ q = 8 \/ q = 9.
Proof. lia. Qed.

Lemma digit_ok q : 0 <= q <= 9 -> is_digit (digit q) = true /\ dval (digit q) = q.
Proof.
  intros H. destruct (digit_cases q H) as [->|[->|[->|[->|[->|[->|[->|[->|[->| ->]]]]]]]]];
    split; reflexivity.
Qed.

Lemma digit_neq c q : 0 <= q <= 9 -> is_digit c = false -> N.eqb c (digit q) = false.
Proof.
  intros H Hc. destruct (N.eqb c (digit q)) eqn:E; [|reflexivity].
  apply N.eqb_eq in E. subst. destruct (digit_ok q H) as [Hd _]. congruence.
Qed.

Lemma parse2_digits p q : 0 <= p <= 9 -> 0 <= q <= 9 -> parse2 (digit p) (digit q) = Some (p * 10 + q).
Proof.
  intros Hp Hq. unfold parse2.
  destruct (digit_ok p Hp) as [-> ->]. destruct (digit_ok q Hq) as [-> ->]. reflexivity.
Qed.

Lemma parse_dt_digits a1 a2 a3 a4 b1 b2 c1 c2 e1 e2 f1 f2 g1 g2 :
  0 <= a1 <= 9 -> 0 <= a2 <= 9 -> 0 <= a3 <= 9 -> 0 <= a4 <= 9 -> 0 <= b1 <= 9 -> 0 <= b2 <= 9 ->
  0 <= c1 <= 9 -> 0 <= c2 <= 9 -> 0 <= e1 <= 9 -> 0 <= e2 <= 9 -> 0 <= f1 <= 9 -> 0 <= f2 <= 9 ->
  0 <= g1 <= 9 -> 0 <= g2 <= 9 ->
  parse_dt [digit a1; digit a2; digit a3; digit a4; DASH; digit b1; digit b2; DASH; digit c1; digit c2;
            SP; digit e1; digit e2; COLON; digit f1; digit f2; COLON; digit g1; digit g2]
  = let y := (a1 * 10 + a2) * 100 + (a3 * 10 + a4) in
    let m := b1 * 10 + b2 in let d := c1 * 10 + c2 in
    let hh := e1 * 10 + e2 in let mi := f1 * 10 + f2 in let ss := g1 * 10 + g2 in
    if (1 <=? m) && (m <=? 12) && (1 <=? d) && (d <=? days_in_month y m)
       && (hh <? 24) && (mi <? 60) && (ss <? 60)
    then Some (days_from_civil y m d * 86400 + hh * 3600 + mi * 60 + ss)
    else None.
Proof.
  intros. cbv beta iota delta [parse_dt]. rewrite !N.eqb_refl. cbv beta iota delta [andb].
  rewrite !parse2_digits by assumption. reflexivity.
Qed.

Lemma d4_value y : 0 <= y <= 9999 ->
  (y / 1000 * 10 + (y / 100) mod 10) * 100 + ((y / 10) mod 10 * 10 + y mod 10) = y.
Proof. intros. dm. Qed.
Lemma d2_value z : z / 10 * 10 + z mod 10 = z.
Proof. dm. Qed.

Lemma parse_dt_fmt y m d hh mi ss :
  0 <= y <= 9999 -> 1 <= m <= 12 -> 1 <= d <= days_in_month y m ->
  0 <= hh < 24 -> 0 <= mi < 60 -> 0 <= ss < 60 ->
  parse_dt (fmt_fields y m d hh mi ss)
  = Some (days_from_civil y m d * 86400 + hh * 3600 + mi * 60 + ss).
Proof.
  intros Hy Hm Hd Hh Hi Hs.
  assert (Hdm : days_in_month y m <= 31).
  { unfold days_in_month. destruct (m =? 2); [destruct (is_leap y); lia|].
    destruct ((m =? 4) || (m =? 6) || (m =? 9) || (m =? 11)); lia. }
  unfold fmt_fields, d4, d2. cbn [app].
  rewrite parse_dt_digits by dm.
  cbv zeta. rewrite d4_value by exact Hy. rewrite !d2_value.
  replace ((1 <=? m) && (m <=? 12) && (1 <=? d) && (d <=? days_in_month y m)
           && (hh <? 24) && (mi <? 60) && (ss <? 60)) with true; [reflexivity|].
  symmetry. repeat (apply andb_true_iff; split); lia.
Qed.

Lemma fmt_fields_length y m d hh mi ss : length (fmt_fields y m d hh mi ss) = 19%nat.
Proof. reflexivity. Qed.

Lemma memb_d2 c z : 0 <= z < 100 -> is_digit c = false -> memb c (d2 z) = false.
Proof.
  intros Hz Hc. unfold memb, d2. cbn [existsb].
  rewrite !digit_neq by (try exact Hc; dm). reflexivity.
Qed.

Lemma memb_d4 c z : 0 <= z <= 9999 -> is_digit c = false -> memb c (d4 z) = false.
Proof.
  intros Hz Hc. unfold memb, d4. cbn [existsb].
  rewrite !digit_neq by (try exact Hc; dm). reflexivity.
Qed.

Lemma memb_app c (a l : bytes) : memb c (a ++ l) = memb c a || memb c l.
Proof. apply existsb_app. Qed.
Lemma memb_cons c x (l : bytes) : memb c (x :: l) = N.eqb c x || memb c l.
Proof. reflexivity. Qed.

Lemma fmt_fields_no_dot y m d hh mi ss :
  0 <= y <= 9999 -> 0 <= m < 100 -> 0 <= d < 100 -> 0 <= hh < 100 -> 0 <= mi < 100 -> 0 <= ss < 100 ->
  memb DOT (fmt_fields y m d hh mi ss) = false.
Proof.
  intros. unfold fmt_fields.
  repeat (rewrite ?memb_app, ?memb_cons).
  rewrite memb_d4, !memb_d2 by (assumption || reflexivity). reflexivity.
Qed.

(* fixed-width digits *)
Lemma digits_fixed_val k : forall z acc a,
  0 <= z < 10 ^ Z.of_nat k ->
  digits_val (digits_fixed k z acc) a = digits_val acc (a * 10 ^ Z.of_nat k + z).
Proof.
  induction k as [|k IH]; intros z acc a Hz.
  - simpl in *. f_equal. lia.
  - rewrite Nat2Z.inj_succ, Z.pow_succ_r in * by lia.
    cbn [digits_fixed]. rewrite IH by dm.
    cbn [digits_val].
    destruct (digit_ok (z mod 10)) as [-> ->]; [dm|].
    f_equal. dm.
Qed.

Lemma digits_fixed_length k : forall z acc, length (digits_fixed k z acc) = (k + length acc)%nat.
Proof.
  induction k as [|k IH]; intros z acc; [reflexivity|].
  cbn [digits_fixed]. rewrite IH. simpl. lia.
Qed.

Lemma digits_fixed_memb c k : forall z acc,
  is_digit c = false -> memb c (digits_fixed k z acc) = memb c acc.
Proof.
  induction k as [|k IH]; intros z acc Hc; [reflexivity|].
  cbn [digits_fixed]. rewrite IH by exact Hc. rewrite memb_cons.
  rewrite digit_neq; [reflexivity|dm|exact Hc].
Qed.

(* ------------------------------------------------------------------ *)
(* 3. the string structure seen by unpack_highres_date                 *)
(* ------------------------------------------------------------------ *)
Lemma firstn_app_exact {A} (a l : list A) : firstn (length a) (a ++ l) = a.
Proof. induction a as [|x a IH]; [destruct l; reflexivity|]. simpl. rewrite IH. reflexivity. Qed.
Lemma skipn_app_exact {A} (a l : list A) : skipn (length a) (a ++ l) = l.
Proof. induction a as [|x a IH]; [reflexivity|]. simpl. exact IH. Qed.

Section Structure.
Variables W B C D : bytes.
Hypothesis W_sp : memb SP W = false.
Hypothesis W_dot : memb DOT W = false.
Hypothesis B_dot : memb DOT B = false.
Hypothesis C_sp : memb SP C = false.

Let date : bytes := W ++ SP :: B ++ DOT :: C ++ SP :: D.
Let dot : nat := (length W + 1 + length B)%nat.

Lemma st_space : find_byte SP date = Some (length W).
Proof. apply memchr_found. exact W_sp. Qed.

Lemma st_weekday : firstn (length W) date = W.
Proof. apply firstn_app_exact. Qed.

Lemma st_date_assoc : date = (W ++ SP :: B) ++ DOT :: C ++ SP :: D.
Proof. unfold date. rewrite <- app_assoc. reflexivity. Qed.

Lemma st_dot_len : length (W ++ SP :: B) = dot.
Proof. unfold dot. rewrite app_length. simpl. lia. Qed.

Lemma st_dot : find_byte DOT date = Some dot.
Proof.
  rewrite st_date_assoc, <- st_dot_len. apply memchr_found.
  rewrite memb_app, memb_cons, W_dot, B_dot. reflexivity.
Qed.

Lemma st_base : slice (length W + 1) dot date = B.
Proof.
  unfold slice, dot.
  replace (length W + 1 + length B - (length W + 1))%nat with (length B) by lia.
  unfold date. replace (W ++ SP :: B ++ DOT :: C ++ SP :: D)
    with ((W ++ [SP]) ++ B ++ DOT :: C ++ SP :: D) by (rewrite <- app_assoc; reflexivity).
  replace (length W + 1)%nat with (length (W ++ [SP])) by (rewrite app_length; reflexivity).
  rewrite skipn_app_exact. apply firstn_app_exact.
Qed.

Lemma st_skip_dot : skipn dot date = DOT :: C ++ SP :: D.
Proof. rewrite st_date_assoc, <- st_dot_len. apply skipn_app_exact. Qed.

Lemma st_offset_loc : find_byte SP (skipn dot date) = Some (1 + length C)%nat.
Proof.
  rewrite st_skip_dot.
  change (DOT :: C ++ SP :: D) with ((DOT :: C) ++ SP :: D).
  replace (1 + length C)%nat with (length (DOT :: C)) by reflexivity.
  apply memchr_found. rewrite memb_cons, C_sp. reflexivity.
Qed.

Lemma st_fract : slice dot (dot + (1 + length C)) date = DOT :: C.
Proof.
  unfold slice. replace (dot + (1 + length C) - dot)%nat with (length (DOT :: C)) by (simpl; lia).
  rewrite st_skip_dot. change (DOT :: C ++ SP :: D) with ((DOT :: C) ++ SP :: D).
  apply firstn_app_exact.
Qed.

Lemma st_offset : skipn (dot + 1 + (1 + length C)) date = D.
Proof.
  rewrite st_date_assoc.
  replace ((W ++ SP :: B) ++ DOT :: C ++ SP :: D) with (((W ++ SP :: B) ++ DOT :: C ++ [SP]) ++ D)
    by (rewrite <- !app_assoc; cbn [app]; rewrite <- app_assoc; reflexivity).
  replace (dot + 1 + (1 + length C))%nat with (length ((W ++ SP :: B) ++ DOT :: C ++ [SP])).
  - apply skipn_app_exact.
  - rewrite app_length, st_dot_len. cbn [length]. rewrite app_length. simpl. lia.
Qed.

Lemma unpack_structure :
  unpack_highres_date date =
  if negb (existsb (bytes_eqb W) WEEKDAYS) then UErr else
  match parse_dt B with
  | None => UErr
  | Some base_time =>
      match parse_fract (DOT :: C) with
      | None => UErr
      | Some fract =>
          match parse_i32 D with
          | None => UErr
          | Some offset =>
              let offset_hours := Z.quot offset 100 in
              let offset_minutes := Z.rem offset 100 in
              if in_i32 (offset_hours * 3600) && in_i32 (offset_minutes * 60)
                 && in_i32 (offset_hours * 3600 + offset_minutes * 60)
              then UOk (base_time - (offset_hours * 3600 + offset_minutes * 60)) fract
                       (offset_hours * 3600 + offset_minutes * 60)
              else UPanic
          end
      end
  end.
Proof.
  unfold unpack_highres_date.
  rewrite st_space. cbv beta iota zeta.
  rewrite st_weekday, st_dot. cbv beta iota zeta.
  rewrite st_base, st_offset_loc. cbv beta iota zeta.
  rewrite st_fract, st_offset. reflexivity.
Qed.
End Structure.

(* ------------------------------------------------------------------ *)
(* 4. pieces of format_highres_date                                    *)
(* ------------------------------------------------------------------ *)
Lemma dayname_ok days :
  let W := dayname days in
  memb SP W = false /\ memb DOT W = false /\ existsb (bytes_eqb W) WEEKDAYS = true.
Proof.
  unfold dayname. set (k := (days + 4) mod 7).
  assert (Hk : 0 <= k < 7) by (subst k; apply Z.mod_pos_bound; lia).
  assert (Hc : k = 0 \/ k = 1 \/ k = 2 \/ k = 3 \/ k = 4 \/ k = 5 \/ k = 6) by lia.
  destruct Hc as [->|[->|[->|[->|[->|[->| ->]]]]]]; vm_compute; auto.
Qed.

Lemma time_of_day sod :
  0 <= sod < 86400 ->
  0 <= sod / 3600 < 24 /\ 0 <= (sod / 60) mod 60 < 60 /\ 0 <= sod mod 60 < 60 /\
  sod / 3600 * 3600 + (sod / 60) mod 60 * 60 + sod mod 60 = sod.
Proof. intros. dm. Qed.

Lemma format_dt_roundtrip ts :
  0 <= year_of_ts ts <= 9999 ->
  exists W F, format_dt ts = Some (W ++ SP :: F) /\
              memb SP W = false /\ memb DOT W = false /\ existsb (bytes_eqb W) WEEKDAYS = true /\
              memb DOT F = false /\ parse_dt F = Some ts.
Proof.
  unfold year_of_ts, format_dt. intros Hy.
  set (days := ts / 86400) in *. set (sod := ts mod 86400).
  assert (Hsod : 0 <= sod < 86400) by (subst sod; apply Z.mod_pos_bound; lia).
  pose proof (civil_roundtrip days) as Hc.
  destruct (civil_from_days days) as [[y m] d]. simpl in Hy.
  destruct Hc as [Hdays [Hm Hd]].
  replace ((0 <=? y) && (y <=? 9999)) with true by (symmetry; apply andb_true_iff; split; lia).
  destruct (dayname_ok days) as [H1 [H2 H3]].
  destruct (time_of_day sod Hsod) as [Hh [Hi [Hs Hsum]]].
  assert (Hdm : days_in_month y m <= 31).
  { unfold days_in_month. destruct (m =? 2); [destruct (is_leap y); lia|].
    destruct ((m =? 4) || (m =? 6) || (m =? 9) || (m =? 11)); lia. }
  eexists. eexists. split; [reflexivity|].
  split; [exact H1|]. split; [exact H2|]. split; [exact H3|]. split.
  - apply fmt_fields_no_dot; lia.
  - rewrite parse_dt_fmt by lia. f_equal. rewrite Hdays. subst days sod. dm.
Qed.

Lemma parse_fract_nine n :
  0 <= n < NANO -> parse_fract (DOT :: digits_fixed 9 n []) = Some (n, 9%nat).
Proof.
  intros Hn. unfold parse_fract.
  pose proof (digits_fixed_length 9 n []) as Hl.
  assert (Hv : digits_val (digits_fixed 9 n []) 0 = digits_val [] (0 * 10 ^ Z.of_nat 9 + n)).
  { apply digits_fixed_val. unfold NANO in Hn. simpl. lia. }
  destruct (digits_fixed 9 n []) as [|x r]; [discriminate|].
  rewrite N.eqb_refl, Hl, Hv. cbn [digits_val]. rewrite Z.mul_0_l, Z.add_0_l. reflexivity.
Qed.

Lemma parse_i32_offset sign hh mm :
  0 <= hh < 100 -> 0 <= mm < 60 -> (sign = PLUS \/ sign = DASH) ->
  parse_i32 (sign :: d2 hh ++ d2 mm) =
  Some (if N.eqb sign DASH then - (hh * 100 + mm) else hh * 100 + mm).
Proof.
  intros Hh Hm Hs. unfold parse_i32, d2. cbn [app].
  assert (Hb : (N.eqb sign PLUS || N.eqb sign DASH) = true) by (destruct Hs as [->| ->]; reflexivity).
  rewrite Hb. cbn [digits_val].
  destruct (digit_ok (hh / 10)) as [-> ->]; [dm|].
  destruct (digit_ok (hh mod 10)) as [-> ->]; [dm|].
  destruct (digit_ok (mm / 10)) as [-> ->]; [dm|].
  destruct (digit_ok (mm mod 10)) as [-> ->]; [dm|].
  replace ((((0 * 10 + hh / 10) * 10 + hh mod 10) * 10 + mm / 10) * 10 + mm mod 10)
    with (hh * 100 + mm) by dm.
  unfold I32_MIN, I32_MAX.
  destruct (N.eqb sign DASH);
    (replace ((-2147483648 <=? _) && (_ <=? 2147483647)) with true; [reflexivity|];
     symmetry; apply andb_true_iff; split; lia).
Qed.

(* ------------------------------------------------------------------ *)
(* 5. the round trip                                                   *)
(* ------------------------------------------------------------------ *)
Lemma nanos_identity secs frac9 :
  0 <= frac9 <= NANO ->
  (secs + carry_of frac9) * NANO + frac9 mod NANO = secs * NANO + frac9.
Proof.
  unfold carry_of, NANO. intros H. destruct (frac9 =? 1000000000) eqn:E.
  - apply Z.eqb_eq in E. subst. rewrite Z.mod_same by lia. lia.
  - apply Z.eqb_neq in E. rewrite Z.mod_small by lia. lia.
Qed.

Lemma date_roundtrip secs frac9 offset :
  date_in_range secs frac9 offset = true ->
  exists s, format_highres_date secs frac9 offset = Some s /\
            unpack_highres_date s = UOk (secs + carry_of frac9) (frac9 mod NANO, 9%nat) offset.
Proof.
  unfold date_in_range. intros H. repeat (apply andb_true_iff in H as [H ?]).
  assert (Hf : 0 <= frac9 <= NANO) by lia.
  assert (Ho60 : offset mod 60 = 0) by lia.
  assert (Hoabs : Z.abs offset < 360000) by lia.
  assert (Hyr : 0 <= year_of_ts (secs + carry_of frac9 + offset) <= 9999) by lia.
  clear - Hf Ho60 Hoabs Hyr.
  unfold format_highres_date, fraction_str.
  (* the carry *)
  assert (Hsec : (if (digit (frac9 / NANO) =? 49)%N then secs + 1 else secs) = secs + carry_of frac9).
  { unfold carry_of, NANO in *. destruct (frac9 =? 1000000000) eqn:E.
    - apply Z.eqb_eq in E. subst. reflexivity.
    - apply Z.eqb_neq in E. replace (frac9 / 1000000000) with 0 by dm. simpl. lia. }
  cbv beta iota zeta. rewrite Hsec. cbn [tl].
  destruct (format_dt_roundtrip _ Hyr) as [W [F [Hfmt [HW1 [HW2 [HW3 [HF Hparse]]]]]]].
  rewrite Hfmt. eexists. split; [reflexivity|].
  set (hh := Z.abs offset / 3600). set (mm := (Z.abs offset / 60) mod 60).
  assert (Hhh : 0 <= hh < 100) by (subst hh; dm).
  assert (Hmm : 0 <= mm < 60) by (subst mm; dm).
  unfold pad2.
  replace (hh <? 100) with true by (symmetry; apply Z.ltb_lt; lia).
  replace (mm <? 100) with true by (symmetry; apply Z.ltb_lt; lia).
  set (sign := if offset <? 0 then DASH else PLUS).
  set (n9 := digits_fixed 9 (frac9 mod NANO) []).
  replace ((W ++ SP :: F) ++ (DOT :: n9) ++ SP :: sign :: d2 hh ++ d2 mm)
    with (W ++ SP :: F ++ DOT :: n9 ++ SP :: sign :: d2 hh ++ d2 mm)
    by (rewrite <- !app_assoc; reflexivity).
  rewrite unpack_structure; try assumption.
  2:{ subst n9. rewrite digits_fixed_memb; reflexivity. }
  rewrite HW3. cbn [negb]. rewrite Hparse.
  subst n9. rewrite parse_fract_nine by (unfold NANO in *; apply Z.mod_pos_bound; lia).
  rewrite parse_i32_offset; [|exact Hhh|exact Hmm|subst sign; destruct (offset <? 0); auto].
  cbv beta iota zeta.
  assert (Hoff : (let o := if (sign =? DASH)%N then - (hh * 100 + mm) else hh * 100 + mm in
                  Z.quot o 100 * 3600 + Z.rem o 100 * 60) = offset).
  { cbv zeta. subst sign. destruct (offset <? 0) eqn:En.
    - apply Z.ltb_lt in En. rewrite N.eqb_refl.
      rewrite Z.quot_opp_l, Z.rem_opp_l by lia.
      rewrite Z.quot_div_nonneg, Z.rem_mod_nonneg by lia.
      subst hh mm. replace (Z.abs offset) with (- offset) in * by lia. dm.
    - apply Z.ltb_ge in En. replace (PLUS =? DASH)%N with false by reflexivity.
      rewrite Z.quot_div_nonneg, Z.rem_mod_nonneg by lia.
      subst hh mm. replace (Z.abs offset) with offset in * by lia. dm. }
  cbv zeta in Hoff.
  set (o := if (sign =? DASH)%N then - (hh * 100 + mm) else hh * 100 + mm) in *.
  assert (Hq : -100 < Z.quot o 100 < 100 /\ -100 < Z.rem o 100 < 100).
  { subst o. destruct (sign =? DASH)%N.
    - rewrite Z.quot_opp_l, Z.rem_opp_l by lia.
      rewrite Z.quot_div_nonneg, Z.rem_mod_nonneg by lia. dm.
    - rewrite Z.quot_div_nonneg, Z.rem_mod_nonneg by lia. dm. }
  replace (in_i32 (Z.quot o 100 * 3600) && in_i32 (Z.rem o 100 * 60)
           && in_i32 (Z.quot o 100 * 3600 + Z.rem o 100 * 60)) with true.
  - rewrite Hoff. f_equal. lia.
  - symmetry. unfold in_i32, I32_MIN, I32_MAX.
    repeat (apply andb_true_iff; split); lia.
Qed.

(* the guard "whole minutes" is necessary: the format has no seconds in the offset *)
Lemma date_subminute_offset_refuted :
  exists secs frac9 offset s,
    0 <= frac9 < NANO /\ Z.abs offset < 360000 /\
    format_highres_date secs frac9 offset = Some s /\
    unpack_highres_date s = UOk (secs + offset) (frac9, 9%nat) 0 /\
    offset <> 0.
Proof.
  exists 10, 0, 30. eexists. split; [unfold NANO; lia|]. split; [reflexivity|].
  split; [vm_compute; reflexivity|]. split; [vm_compute; reflexivity|discriminate].
Qed.

Example date_in_range_example :
  date_in_range 1700000000 123456789 (-12600) = true /\
  date_in_range (-2) 1000000000 3600 = true /\
  date_in_range 1 999999999 0 = true.
Proof. vm_compute. auto. Qed.

Lemma date_in_range_of_bounds secs frac9 offset :
  0 <= frac9 <= NANO -> offset mod 60 = 0 -> Z.abs offset < 360000 ->
  TS_MIN <= secs + carry_of frac9 + offset <= TS_MAX ->
  date_in_range secs frac9 offset = true.
Proof.
  intros Hf Ho Ha Ht. pose proof (year_bounds _ Ht) as Hy.
  unfold date_in_range. repeat (apply andb_true_iff; split).
  - apply Z.leb_le; lia.
  - apply Z.leb_le; lia.
  - apply Z.eqb_eq; exact Ho.
  - apply Z.ltb_lt; exact Ha.
  - apply Z.leb_le; lia.
  - apply Z.leb_le; lia.
Qed.

Lemma date_roundtrip_bounds secs frac9 offset :
  0 <= frac9 <= NANO -> offset mod 60 = 0 -> Z.abs offset < 360000 ->
  TS_MIN <= secs + carry_of frac9 + offset <= TS_MAX ->
  exists s, format_highres_date secs frac9 offset = Some s /\
            unpack_highres_date s = UOk (secs + carry_of frac9) (frac9 mod NANO, 9%nat) offset /\
            (secs + carry_of frac9) * NANO + frac9 mod NANO = secs * NANO + frac9.
Proof.
  intros Hf Ho Ha Ht.
  destruct (date_roundtrip secs frac9 offset (date_in_range_of_bounds _ _ _ Hf Ho Ha Ht)) as [s [H1 H2]].
  exists s. split; [exact H1|]. split; [exact H2|]. apply nanos_identity. exact Hf.
Qed.

Example date_bounds_example :
  exists s, format_highres_date (-2) 1000000000 (-12600) = Some s /\
            unpack_highres_date s = UOk (-1) (0, 9%nat) (-12600).
Proof. eexists. split; [vm_compute; reflexivity|]. vm_compute. reflexivity. Qed.
