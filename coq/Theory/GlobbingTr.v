(* Theory/GlobbingTr.v -- the translators are correct w.r.t. the documented semantics:
   for every token list and every name,
     prefix_k . translate k toks . \Z   matches name   <->   the reference matcher accepts it. *)
From Coq Require Import NArith List Bool Arith Relations Lia.
From BV Require Import Model.Globbing Theory.GlobbingRe.
Import ListNotations.
Local Open Scope N_scope.

Definition notsl (c : N) : bool := negb (c =? cSlash).

(* ------------------------------------------------------------------ *)
(* the reference matcher, token by token *)

Lemma star_of_spec (g : str -> bool) : forall s,
  star_of g s = true <-> exists s1 s2, s = s1 ++ s2 /\ forallb notsl s1 = true /\ g s2 = true.
Proof.
  induction s as [|x s IH]; simpl.
  - rewrite orb_false_r. split.
    + intros H. exists [], []. auto.
    + intros (s1 & s2 & H & _ & Hg). destruct s1; [|discriminate]. simpl in H. subst s2. exact Hg.
  - rewrite orb_true_iff, andb_true_iff, IH. split.
    + intros [H|[Hx (s1 & s2 & -> & Hs1 & Hg)]].
      * exists [], (x :: s). auto.
      * exists (x :: s1), s2. simpl. unfold notsl at 1. rewrite Hx. auto.
    + intros (s1 & s2 & H & Hs1 & Hg). destruct s1 as [|y s1].
      * simpl in H. subst s2. left; exact Hg.
      * simpl in H. injection H as <- ->. simpl in Hs1. apply andb_true_iff in Hs1. destruct Hs1 as [Hy Hs1].
        right. split; [exact Hy|]. exists s1, s2. auto.
Qed.

Lemma dirs_of_spec (g : str -> bool) : forall s,
  dirs_of g s = true <-> exists d s2, s = d ++ cSlash :: s2 /\ g s2 = true.
Proof.
  induction s as [|x s IH]; simpl.
  - split; [discriminate|]. intros (d & s2 & H & _). destruct d; discriminate.
  - rewrite orb_true_iff, andb_true_iff, IH. split.
    + intros [[Hx Hg]|(d & s2 & -> & Hg)].
      * apply N.eqb_eq in Hx. subst x. exists [], s. auto.
      * exists (x :: d), s2. auto.
    + intros (d & s2 & H & Hg). destruct d as [|y d].
      * simpl in H. injection H as -> ->. left. split; [apply N.eqb_refl|exact Hg].
      * simpl in H. injection H as <- ->. right. exists d, s2. auto.
Qed.

(* the strings one token stands for *)
Definition tok_lang (t : tok) (s1 : str) : Prop :=
  match t with
  | TLit c | TEsc c => s1 = [c]
  | TQuest => exists x, s1 = [x] /\ notsl x = true
  | TClass neg body => exists x, s1 = [x] /\ set_mem neg body x = true
  | TStar => forallb notsl s1 = true
  | TDirs => s1 = [] \/ exists d, s1 = d ++ [cSlash]
  end.

Lemma one_char (P : N -> bool) (g : str -> bool) s :
  match s with x :: s' => P x && g s' | [] => false end = true <->
  exists s1 s2, s = s1 ++ s2 /\ (exists x, s1 = [x] /\ P x = true) /\ g s2 = true.
Proof.
  split.
  - destruct s as [|x s']; [discriminate|]. intros H. apply andb_true_iff in H. destruct H as [Hp Hg].
    exists [x], s'. split; [reflexivity|]. split; [exists x; auto|exact Hg].
  - intros (s1 & s2 & -> & (x & -> & Hp) & Hg). simpl. rewrite Hp, Hg. reflexivity.
Qed.

Lemma gm_cons t ts s :
  gm (t :: ts) s = true <-> exists s1 s2, s = s1 ++ s2 /\ tok_lang t s1 /\ gm ts s2 = true.
Proof.
  destruct t as [c|c| | | |neg body]; simpl gm; unfold tok_lang.
  - rewrite (one_char (fun x => x =? c)). split.
    + intros (s1 & s2 & H & (x & Hx & Hc) & Hg). apply N.eqb_eq in Hc. subst x. exists s1, s2. auto.
    + intros (s1 & s2 & H & Hx & Hg). exists s1, s2. split; [exact H|]. split; [|exact Hg].
      exists c. split; [exact Hx|apply N.eqb_refl].
  - rewrite (one_char (fun x => x =? c)). split.
    + intros (s1 & s2 & H & (x & Hx & Hc) & Hg). apply N.eqb_eq in Hc. subst x. exists s1, s2. auto.
    + intros (s1 & s2 & H & Hx & Hg). exists s1, s2. split; [exact H|]. split; [|exact Hg].
      exists c. split; [exact Hx|apply N.eqb_refl].
  - apply star_of_spec.
  - apply (one_char notsl).
  - rewrite orb_true_iff, dirs_of_spec. split.
    + intros [H|(d & s2 & -> & Hg)].
      * exists [], s. auto.
      * exists (d ++ [cSlash]), s2. rewrite <- app_assoc. split; [reflexivity|]. split; [right; exists d; reflexivity|exact Hg].
    + intros (s1 & s2 & -> & [->|(d & ->)] & Hg).
      * left; exact Hg.
      * right. exists d, s2. rewrite <- app_assoc. auto.
  - apply (one_char (set_mem neg body)).
Qed.

(* ------------------------------------------------------------------ *)
(* the regex side, token by token *)

Lemma star_char (P : N -> bool) (R : str -> str -> Prop) :
  (forall x y, R x y <-> exists c, x = c :: y /\ P c = true) ->
  forall w w', clos_refl_trans_1n str R w w' <-> exists s1, w = s1 ++ w' /\ forallb P s1 = true.
Proof.
  intros HR w w'. split.
  - intros H. induction H as [x|x y z Hxy Hyz IH].
    + exists []. auto.
    + apply HR in Hxy. destruct Hxy as (c & -> & Hc). destruct IH as (s1 & -> & Hs).
      exists (c :: s1). simpl. rewrite Hc. auto.
  - intros (s1 & -> & Hs). induction s1 as [|c s1 IH]; simpl.
    + constructor.
    + simpl in Hs. apply andb_true_iff in Hs. destruct Hs as [Hc Hs].
      eapply Relation_Operators.rt1n_trans; [|apply IH; exact Hs].
      apply HR. exists c. auto.
Qed.

Lemma set_notsl c : set_mem true [cSlash] c = notsl c.
Proof.
  unfold set_mem, notsl, cSlash. simpl. unfold in_items. simpl. rewrite orb_false_r.
  destruct (N.eqb_spec c 47) as [->|Hne]; [reflexivity|].
  destruct (N.leb_spec 47 c), (N.leb_spec c 47); simpl; try reflexivity. lia.
Qed.

(* strings that a match inside the kind's context can run over: for the basename kinds
   no slash (the prefix's lookahead guarantees it) *)
Definition okc (k : kind) (c : N) : bool := kind_eqb k KFull || notsl c.
Definition okstr (k : kind) (w : str) : Prop := forallb (okc k) w = true.

Lemma okstr_app k a b : okstr k (a ++ b) <-> okstr k a /\ okstr k b.
Proof. unfold okstr. rewrite forallb_app, andb_true_iff. reflexivity. Qed.

Lemma okstr_base_sl k w : k <> KFull -> okstr k w -> forallb notsl w = true.
Proof.
  unfold okstr. intros Hk H. apply forallb_forall. intros x Hx.
  rewrite forallb_forall in H. specialize (H x Hx).
  unfold okc in H. destruct k; simpl in H; try exact H. contradiction.
Qed.

Lemma okstr_intro k w : (k <> KFull -> forallb notsl w = true) -> okstr k w.
Proof.
  unfold okstr. intros H2. apply forallb_forall. intros x Hx. unfold okc.
  destruct k; simpl; try reflexivity.
  - assert (Hk : KExt <> KFull) by discriminate. specialize (H2 Hk). rewrite forallb_forall in H2. apply H2; exact Hx.
  - assert (Hk : KBase <> KFull) by discriminate. specialize (H2 Hk). rewrite forallb_forall in H2. apply H2; exact Hx.
Qed.

Lemma forallb_tt (l : str) : forallb (fun _ => true) l = true.
Proof. induction l; simpl; auto. Qed.

(* inside (?s:...) :  .*  runs over anything *)
Lemma M_any_star w w' :
  M (RStar RAny) true w w' <-> exists s1, w = s1 ++ w'.
Proof.
  simpl. rewrite (star_char (fun _ => true)).
  - split; [intros (s1 & H & _); exists s1; exact H|intros (s1 & H); exists s1; split; [exact H|apply forallb_tt]].
  - intros x y. split.
    + intros (c & -> & _). exists c. auto.
    + intros (c & -> & _). exists c. auto.
Qed.

Lemma M_notsl_star s w w' :
  M (RStar (RSet true [cSlash])) s w w' <-> exists s1, w = s1 ++ w' /\ forallb notsl s1 = true.
Proof.
  simpl. apply star_char. intros x y. split.
  - intros (c & -> & Hc). exists c. rewrite set_notsl in Hc. auto.
  - intros (c & -> & Hc). exists c. rewrite set_notsl. auto.
Qed.

(* .*/  inside (?s:...) *)
Lemma M_dirs w w' :
  M dirs_re true w w' <-> exists d, w = d ++ cSlash :: w'.
Proof.
  unfold dirs_re. change (M (RCat (RStar RAny) (RChr false cSlash)) true w w')
    with (exists w1, M (RStar RAny) true w w1 /\ w1 = cSlash :: w').
  split.
  - intros (w1 & H1 & ->). apply M_any_star in H1. exact H1.
  - intros (d & ->). exists (cSlash :: w'). split; [|reflexivity]. apply M_any_star. exists d. reflexivity.
Qed.

Lemma tok_M k t w w1 : okstr k w ->
  (M (re_of_tok k t) false w w1 <-> exists s1, w = s1 ++ w1 /\ tok_lang t s1).
Proof.
  intros Hok. destruct t as [c|c| | | |neg body]; unfold tok_lang.
  - simpl. split; [intros ->; exists [c]; auto|intros (s1 & -> & ->); reflexivity].
  - simpl. split; [intros ->; exists [c]; auto|intros (s1 & -> & ->); reflexivity].
  - (* TStar *)
    destruct k.
    + change (M (re_of_tok KExt TStar) false w w1) with (M (RStar RAny) true w w1). rewrite M_any_star. split.
      * intros (s1 & ->). exists s1. split; [reflexivity|].
        apply okstr_app in Hok. eapply okstr_base_sl; [|apply Hok]. discriminate.
      * intros (s1 & -> & Hs). exists s1. reflexivity.
    + change (M (re_of_tok KBase TStar) false w w1) with (M (RStar RAny) true w w1). rewrite M_any_star. split.
      * intros (s1 & ->). exists s1. split; [reflexivity|].
        apply okstr_app in Hok. eapply okstr_base_sl; [|apply Hok]. discriminate.
      * intros (s1 & -> & Hs). exists s1. reflexivity.
    + change (re_of_tok KFull TStar) with (RStar (RSet true [cSlash])). apply M_notsl_star.
  - (* TQuest *)
    destruct k.
    + simpl. split.
      * intros (c & -> & _). exists [c]. split; [reflexivity|]. exists c. split; [reflexivity|].
        change (c :: w1) with ([c] ++ w1) in Hok. apply okstr_app in Hok.
        assert (Hk : KExt <> KFull) by discriminate.
        pose proof (okstr_base_sl _ _ Hk (proj1 Hok)) as H. simpl in H. rewrite andb_true_r in H. exact H.
      * intros (s1 & -> & x & -> & Hx). exists x. auto.
    + simpl. split.
      * intros (c & -> & _). exists [c]. split; [reflexivity|]. exists c. split; [reflexivity|].
        change (c :: w1) with ([c] ++ w1) in Hok. apply okstr_app in Hok.
        assert (Hk : KBase <> KFull) by discriminate.
        pose proof (okstr_base_sl _ _ Hk (proj1 Hok)) as H. simpl in H. rewrite andb_true_r in H. exact H.
      * intros (s1 & -> & x & -> & Hx). exists x. auto.
    + simpl. split.
      * intros (c & -> & Hc). rewrite set_notsl in Hc. exists [c]. split; [reflexivity|]. exists c. auto.
      * intros (s1 & -> & x & -> & Hx). exists x. rewrite set_notsl. auto.
  - (* TDirs *)
    change (M (re_of_tok k TDirs) false w w1) with (M dirs_re true w w1 \/ w1 = w). rewrite M_dirs. split.
    + intros [(d & ->)| ->].
      * exists (d ++ [cSlash]). rewrite <- app_assoc. split; [reflexivity|]. right. exists d; reflexivity.
      * exists []. auto.
    + intros (s1 & -> & [->|(d & ->)]).
      * right; reflexivity.
      * left. exists d. rewrite <- app_assoc. reflexivity.
  - simpl. split.
    + intros (c & -> & Hc). exists [c]. split; [reflexivity|]. exists c. auto.
    + intros (s1 & -> & x & -> & Hx). exists x. auto.
Qed.

(* the heart: translate k toks, run inside a context string w, consumes exactly the strings
   the reference matcher accepts *)
Theorem translate_sem k : forall toks w w', okstr k w ->
  (M (translate k toks) false w w' <-> exists s, w = s ++ w' /\ gm toks s = true).
Proof.
  induction toks as [|t ts IH]; intros w w' Hok.
  - simpl. split.
    + intros ->. exists []. auto.
    + intros (s & -> & Hs). destruct s; [reflexivity|discriminate].
  - change (M (translate k (t :: ts)) false w w')
      with (exists w1, M (re_of_tok k t) false w w1 /\ M (translate k ts) false w1 w').
    split.
    + intros (w1 & H1 & H2). apply (tok_M k t w w1 Hok) in H1. destruct H1 as (s1 & -> & Hl).
      apply okstr_app in Hok. apply (IH _ _ (proj2 Hok)) in H2. destruct H2 as (s2 & -> & Hg).
      exists (s1 ++ s2). rewrite <- app_assoc. split; [reflexivity|].
      apply gm_cons. exists s1, s2. auto.
    + intros (s & -> & Hg). apply gm_cons in Hg. destruct Hg as (s1 & s2 & -> & Hl & Hg).
      rewrite <- app_assoc in Hok. rewrite <- app_assoc.
      exists (s2 ++ w'). split.
      * apply (tok_M k t _ _ Hok). exists s1. auto.
      * apply okstr_app in Hok. apply (IH _ _ (proj2 Hok)). exists s2. auto.
Qed.

(* ------------------------------------------------------------------ *)
(* last component *)

Lemma mem_false_notsl w : mem cSlash w = false <-> forallb notsl w = true.
Proof.
  unfold mem. induction w as [|x w IH]; simpl; [tauto|].
  rewrite orb_false_iff, andb_true_iff, IH. unfold notsl. rewrite negb_true_iff, (N.eqb_sym x cSlash). tauto.
Qed.

Lemma mem_app c a b : mem c (a ++ b) = mem c a || mem c b.
Proof. unfold mem. apply existsb_app. Qed.

Lemma mem_cons c x r : mem c (x :: r) = (c =? x) || mem c r.
Proof. reflexivity. Qed.

Lemma basename_spec : forall name w0,
  (mem cSlash w0 = false /\ (w0 = name \/ exists d, name = d ++ cSlash :: w0)) <-> w0 = basename name.
Proof.
  induction name as [|c r IH]; intros w0.
  - simpl. split.
    + intros [_ [->|(d & H)]]; [reflexivity|destruct d; discriminate].
    + intros ->. split; [reflexivity|left; reflexivity].
  - simpl basename. destruct (mem cSlash r) eqn:Er.
    + rewrite <- IH. split.
      * intros [Hm [->|(d & H)]].
        -- rewrite mem_cons, Er, orb_true_r in Hm. discriminate.
        -- split; [exact Hm|]. destruct d as [|y d].
           ++ simpl in H. injection H as -> ->. congruence.
           ++ simpl in H. injection H as <- ->. right. exists d. reflexivity.
      * intros [Hm [->|(d & ->)]].
        -- congruence.
        -- split; [exact Hm|]. right. exists (c :: d). reflexivity.
    + destruct (N.eqb_spec c cSlash) as [->|Hne].
      * split.
        -- intros [Hm [->|(d & H)]].
           ++ rewrite mem_cons, N.eqb_refl in Hm. discriminate.
           ++ destruct d as [|y d]; simpl in H.
              ** injection H as ->. reflexivity.
              ** injection H as <- ->. rewrite mem_app, mem_cons, N.eqb_refl, orb_true_r in Er. discriminate.
        -- intros ->. split; [exact Er|]. right. exists []. reflexivity.
      * split.
        -- intros [Hm [->|(d & H)]]; [reflexivity|].
           destruct d as [|y d]; simpl in H.
           ++ injection H as -> ->. contradiction.
           ++ injection H as <- ->. rewrite mem_app, mem_cons, N.eqb_refl, orb_true_r in Er. discriminate.
        -- intros ->. split; [|left; reflexivity].
           rewrite mem_cons, Er, orb_false_r. apply N.eqb_neq. intros H; apply Hne; symmetry; exact H.
Qed.

Lemma basename_suffix name : exists d, name = d ++ basename name.
Proof.
  destruct (proj2 (basename_spec name (basename name)) eq_refl) as [_ [H|(d & H)]].
  - exists []. simpl. symmetry; exact H.
  - exists (d ++ [cSlash]). rewrite <- app_assoc. exact H.
Qed.

Lemma basename_nosl name : forallb notsl (basename name) = true.
Proof.
  apply mem_false_notsl. apply (proj2 (basename_spec name (basename name)) eq_refl).
Qed.

(* (?s:(?:.*/)?(?!.*/))  leaves exactly the last component *)
Lemma prefix_base name w1 :
  M (prefix_re KBase) false name w1 <-> w1 = basename name.
Proof.
  rewrite <- basename_spec.
  change (M (prefix_re KBase) false name w1)
    with (exists w0, (M dirs_re true name w0 \/ w0 = name) /\ (w1 = w0 /\ ~ (exists w2, M dirs_re true w0 w2))).
  split.
  - intros (w0 & Hd & -> & Hn). split.
    + destruct (mem cSlash w0) eqn:Em; [|reflexivity]. exfalso. apply Hn.
      unfold mem in Em. apply existsb_exists in Em. destruct Em as (x & Hin & Hx). apply N.eqb_eq in Hx. subst x.
      apply in_split in Hin. destruct Hin as (l1 & l2 & ->). exists l2. apply M_dirs. exists l1. reflexivity.
    + destruct Hd as [Hd| ->]; [|left; reflexivity]. apply M_dirs in Hd. destruct Hd as (d & ->). right. exists d. reflexivity.
  - intros [Hm Hd]. exists w1. split; [|split; [reflexivity|]].
    + destruct Hd as [->|(d & ->)]; [right; reflexivity|]. left. apply M_dirs. exists d. reflexivity.
    + intros (w2 & H2). apply M_dirs in H2. destruct H2 as (d & ->).
      rewrite mem_app, mem_cons, N.eqb_refl, orb_true_r in Hm. discriminate.
Qed.

(* ------------------------------------------------------------------ *)
(* the three kinds *)

Theorem full_correct toks name :
  hit (prefix_re KFull) (translate KFull toks) name <-> gm toks name = true.
Proof.
  rewrite hit_iff.
  assert (Hok : okstr KFull name) by (apply okstr_intro; intros H; contradiction).
  split.
  - intros (w1 & H1 & H2). simpl in H1. subst w1.
    apply (translate_sem KFull toks _ _ Hok) in H2. destruct H2 as (s & Hs & Hg).
    rewrite app_nil_r in Hs. subst s. exact Hg.
  - intros Hg. exists name. split; [reflexivity|].
    apply (translate_sem KFull toks _ _ Hok). exists name. rewrite app_nil_r. auto.
Qed.

Theorem base_correct toks name :
  hit (prefix_re KBase) (translate KBase toks) name <-> gm toks (basename name) = true.
Proof.
  rewrite hit_iff.
  assert (Hok : okstr KBase (basename name)) by (apply okstr_intro; intros _; apply basename_nosl).
  split.
  - intros (w1 & H1 & H2). apply prefix_base in H1. subst w1.
    apply (translate_sem KBase toks _ _ Hok) in H2. destruct H2 as (s & Hs & Hg).
    rewrite app_nil_r in Hs. rewrite Hs. exact Hg.
  - intros Hg. exists (basename name). split; [apply prefix_base; reflexivity|].
    apply (translate_sem KBase toks _ _ Hok). exists (basename name). rewrite app_nil_r. auto.
Qed.

Lemma translate_ext toks : translate KExt toks = translate KBase toks.
Proof. induction toks as [|t ts IH]; simpl; [reflexivity|]. rewrite IH. destruct t; reflexivity. Qed.

(* the extension kind: prefix (?s:(?:.*/)?(?!.*/)(?:.*\.)) and the translation of pattern[2:]
   together mean the basename pattern  * . toks *)
Theorem ext_correct toks name :
  hit (prefix_re KExt) (translate KExt toks) name
  <-> gm (TStar :: TLit cDot :: toks) (basename name) = true.
Proof.
  rewrite <- (base_correct (TStar :: TLit cDot :: toks) name).
  rewrite translate_ext. rewrite !hit_iff.
  change (translate KBase (TStar :: TLit cDot :: toks))
    with (RCat (RS (RStar RAny)) (RCat (RChr (special cDot) cDot) (translate KBase toks))).
  split.
  - intros (w1 & H1 & H2).
    destruct H1 as (wa & Ha & wb & Hb & wc & Hc & Hdot).
    exists wb. split; [exists wa; split; [exact Ha|exact Hb]|].
    exists wc. split; [exact Hc|]. exists w1. split; [exact Hdot|exact H2].
  - intros (w1 & H1 & H2).
    destruct H1 as (wa & Ha & Hb).
    destruct H2 as (wc & Hc & wd & Hdot & H2).
    exists wd. split; [|exact H2].
    exists wa. split; [exact Ha|]. exists w1. split; [exact Hb|]. exists wc. split; [exact Hc|exact Hdot].
Qed.

(* ------------------------------------------------------------------ *)
(* whole patterns *)

Lemma tokB_ext r : tokB 0 (cStar :: cDot :: r) = TStar :: TLit cDot :: tokB 0 r.
Proof. reflexivity. Qed.

Lemma startswith_2 a b p : startswith [a; b] p = true -> exists r, p = a :: b :: r.
Proof.
  destruct p as [|x [|y r]]; simpl; try discriminate.
  - rewrite andb_false_r. discriminate.
  - intros H. apply andb_true_iff in H. destruct H as [Ha H]. apply andb_true_iff in H. destruct H as [Hb _].
    apply N.eqb_eq in Ha, Hb. subst. exists r; reflexivity.
Qed.

(* the single-pattern regex of a pattern: prefix and translator of its kind *)
Definition pat_hit (p name : str) : Prop :=
  hit (prefix_re (identify p)) (compile (identify p) p) name.

Theorem pattern_correct p name :
  startswith sRE p = false ->
  (pat_hit p name <-> glob_match p name = true).
Proof.
  intros Hre. unfold pat_hit, glob_match, identify, compile. rewrite Hre. simpl orb.
  destruct (mem cSlash p) eqn:Es.
  - apply full_correct.
  - destruct (startswith [cStar; cDot] p) eqn:Ee.
    + destruct (startswith_2 _ _ _ Ee) as (r & ->).
      change (tokenize KExt (cStar :: cDot :: r)) with (tokB 0 r).
      change (tokenize KBase (cStar :: cDot :: r)) with (tokB 0 (cStar :: cDot :: r)).
      rewrite tokB_ext. apply ext_correct.
    + apply base_correct.
Qed.

Lemma wf_pat_not_re p : wf_pat p = true -> startswith sRE p = false.
Proof.
  unfold wf_pat, opaque. intros H. apply andb_true_iff in H. destruct H as [H _].
  apply negb_true_iff in H. apply orb_false_iff in H. destruct H as [H _].
  apply orb_false_iff in H. tauto.
Qed.

Lemma hit_run pre a w :
  hit pre a w <-> existsb (fun w1 => existsb eol_ok (run a false w1)) (run pre false w) = true.
Proof.
  rewrite hit_iff, existsb_exists. split.
  - intros (w1 & H1 & H2). exists w1. split; [apply run_correct; exact H1|].
    apply existsb_exists. exists []. split; [apply run_correct; exact H2|reflexivity].
  - intros (w1 & H1 & H2). apply existsb_exists in H2. destruct H2 as (w2 & H2 & H3).
    apply eol_ok_iff in H3. subst w2.
    exists w1. split; [apply run_correct; exact H1|apply run_correct; exact H2].
Qed.

(* the names that the code before commit 37b5ed8 got wrong (finding C48-newline, repaired):
   '*' matches "x\ny", 'foo' does not match "foo\n" *)
Example newline_names_now_right :
  hit (prefix_re KBase) (translate KBase [TStar]) [120; 10; 121] /\
  ~ hit (prefix_re KBase) (translate KBase [TLit 102; TLit 111; TLit 111]) [102; 111; 111; 10].
Proof.
  split.
  - apply hit_run. vm_compute. reflexivity.
  - rewrite hit_run. vm_compute. discriminate.
Qed.

(* the reference matcher per kind, on tokens *)
Definition ref_match (k : kind) (toks : list tok) (name : str) : bool :=
  match k with
  | KFull => gm toks name
  | KBase => gm toks (basename name)
  | KExt => gm (TStar :: TLit cDot :: toks) (basename name)
  end.

Theorem translate_correct k toks name :
  hit (prefix_re k) (translate k toks) name <-> ref_match k toks name = true.
Proof.
  destruct k; simpl ref_match.
  - apply ext_correct.
  - apply base_correct.
  - apply full_correct.
Qed.
