(* Theory/UploadExact.v -- C43, part 5: the executable guard and the
   end-to-end theorem for the incremental upload. *)
From Coq Require Import NArith List Bool Arith Lia.
From BV Require Import Lib.Bytes Lib.FS43 Model.Upload
  Theory.UploadMoves Theory.UploadPhases Theory.UploadRenames Theory.UploadItems.
Import ListNotations.
Open Scope list_scope.

Definition mem (p : path) (l : list path) : bool := existsb (path_eqb p) l.
Definition node_eqb (a b : node) : bool :=
  match a, b with
  | File c1 x1, File c2 x2 => bytes_eqb c1 c2 && Bool.eqb x1 x2
  | Dir, Dir => true
  | Link t1, Link t2 => name_eqb t1 t2
  | _, _ => false
  end.
Definition onode_eqb (a b : option node) : bool :=
  match a, b with
  | Some x, Some y => node_eqb x y
  | None, None => true
  | _, _ => false
  end.
Definition isNone {A} (o : option A) : bool := negb (isSome o).
Definition is_fileb (o : option node) : bool := match o with Some (File _ _) => true | _ => false end.
Fixpoint antib (l : list path) : bool :=
  match l with
  | [] => true
  | x :: r => forallb (fun y => negb (prefixb x y) && negb (prefixb y x)) r && antib r
  end.
Fixpoint nodupb (l : list path) : bool :=
  match l with [] => true | x :: r => negb (mem x r) && nodupb r end.
(* "the directory p is to be created in exists as a directory in h" *)
Definition par_okb (h : path -> option node) (p : path) : bool :=
  match parent p with [] => true | q => is_dirb (h q) end.

Section Guard.
  Variables old new : tree.

  Let R := d_removed old new.
  Let RN := d_renamed old new.
  Let RNm := moves_of RN.          (* renamed on the remote *)
  Let RNr := recs_of RN.           (* kind / symlink target changed too: removed and re-created *)
  Let KC := d_kind_changed old new.
  Let AD := d_created old new.     (* added + re-created, by new path *)
  Let MD := d_modified old new.

  Definition g_prs : list (nat * change) := numbered 0 RNm.
  Definition g_rmp : list path := map epath R.
  Definition g_rmd : list path := dir_paths R.
  Definition g_rcp : list path := map (fun c => epath (c_old c)) RNr.
  Definition g_gone : list path := g_rmp ++ g_rcp.
  Definition g_oldpaths : list path := map epath (ents old).
  Definition g_newpaths : list path := map epath (ents new).

  (* closed forms of the remote after each phase, from the old tree *)
  Definition F1 (p : path) : option node := if mem p g_gone then None else tlook old p.
  Definition F3 : path -> option node := ren_formP g_prs F1.
  Definition F5 : path -> option node := upd_all (map kc_item KC) F3.
  Definition F6 : path -> option node := upd_all (map add_item AD) F5.
  Definition F7 : path -> option node := upd_all (map kc_item MD) F6.

  (* every path at which one of the closed forms can be defined *)
  Definition g_univ : list path :=
    g_oldpaths ++ g_newpaths ++
    flat_map (fun kc => flat_map (fun q => match under (oldp kc) q with
                                           | Some s => [newp kc ++ s]
                                           | None => []
                                           end) g_oldpaths) g_prs.

  Definition g_clean : bool :=
    forallb clean_hd g_oldpaths && forallb clean_hd g_newpaths.

  (* all paths named by the delta are tree paths *)
  Definition g_members : bool :=
    forallb (fun e => mem (epath e) g_oldpaths) R
    && forallb (fun c => mem (epath (c_old c)) g_oldpaths && mem (epath (c_new c)) g_newpaths) RN
    && forallb (fun c => mem (epath (c_new c)) g_newpaths) KC
    && forallb (fun e => mem (epath e) g_newpaths) AD
    && forallb (fun c => mem (epath (c_new c)) g_newpaths) MD.

  (* removed entries: listed parents first; the old tree has them *)
  Definition g_removed : bool :=
    pf_okb g_rmp
    && forallb (fun e => onode_eqb (tlook old (epath e)) (Some (enode e))) R
    (* whatever the old tree has below a removed directory is gone too or is
       moved away by a rename *)
    && forallb (fun d => forallb (fun q => negb (strictb d q) || ex_old g_prs q || mem q g_gone)
                                 g_oldpaths) g_rmd.

  (* re-created entries are leaves of the old tree, apart from the renamed ones *)
  Definition g_recreated : bool :=
    nodupb g_rcp
    && forallb (fun c =>
         let p0 := epath (c_old c) in
         onode_eqb (tlook old p0) (Some (enode (c_old c)))
         && negb (mem p0 g_rmp)
         && forallb (fun q => negb (strictb p0 q)) g_oldpaths
         && forallb (fun c' => negb (prefixb p0 (epath (c_old c')))
                               && negb (prefixb (epath (c_old c')) p0)) RNm) RNr.

  Definition g_renamed : bool :=
    forallb (fun c =>
      let p0 := epath (c_old c) in let p1 := epath (c_new c) in
      onode_eqb (tlook old p0) (Some (enode (c_old c)))
      && negb (mem p0 g_rmp)
      (* upload_file(old path) needs the old directory *)
      && match put_of c with
         | Some _ => match parent p0 with
                     | [] => true
                     | q => is_dirb (tlook old q) && negb (mem q g_gone)
                     end
         | None => true
         end
      (* no deferred directory deletion below the old path *)
      && forallb (fun d => negb (prefixb p0 d)) g_rmd
      (* the new path is free once everything is staged and deleted *)
      && forallb (fun q => negb (prefixb p1 q) || ex_old g_prs q || mem q g_gone) g_oldpaths
      (* the directory of the new path exists and stays where it is *)
      && match parent p1 with
         | [] => true
         | q => is_dirb (tlook old q) && negb (mem q g_gone) && negb (ex_old g_prs q)
         end) RNm
    (* no renamed entry below another renamed entry; no two new paths nested *)
    && antib (map (fun c => epath (c_old c)) RNm)
    && antib (map (fun c => epath (c_new c)) RNm).

  Definition g_kind_changed : bool :=
    nodupb (map (fun c => epath (c_new c)) KC)
    && forallb (fun c =>
         let p := epath (c_new c) in
         onode_eqb (F3 p) (Some (enode (c_old c)))
         && par_okb F3 p
         && match enode (c_old c) with
            | Dir => forallb (fun q => negb (strictb p q) || isNone (F3 q)) g_univ
            | _ => true
            end) KC.

  Definition g_added : bool :=
    pf_okb (map epath AD)
    && forallb (fun e =>
         let p := epath e in
         isNone (F5 p)
         && (par_okb F5 p
             || existsb (fun e' => path_eqb (epath e') (parent p) && is_dir_entry e') AD)) AD.

  Definition non_dirb (o : option node) : bool :=
    match o with Some Dir | None => false | Some _ => true end.

  Definition g_modified : bool :=
    nodupb (map (fun c => epath (c_new c)) MD)
    && forallb (fun c =>
         let p := epath (c_new c) in
         non_dirb (Some (enode (c_new c))) && non_dirb (F6 p) && par_okb F6 p) MD.

  (* the declarative result IS the new tree *)
  Definition g_result : bool :=
    forallb (fun q => onode_eqb (F7 q) (tlook new q)) g_univ.

  Definition upload_guard : bool :=
    match tign new with [] => true | _ => false end
    && g_clean && g_members && g_removed && g_recreated && g_renamed
    && g_kind_changed && g_added && g_modified && g_result.
End Guard.

(* ---------- small facts ---------- *)
Lemma mem_true p l : mem p l = true <-> In p l.
Proof. apply mem_In. Qed.
Lemma mem_false p l : mem p l = false <-> ~ In p l.
Proof.
  split.
  - intros H I. apply mem_true in I. congruence.
  - intros H. destruct (mem p l) eqn:E; [|reflexivity]. apply mem_true in E. contradiction.
Qed.

Lemma bytes_eqb_eq a b : bytes_eqb a b = true -> a = b.
Proof.
  unfold bytes_eqb. revert b; induction a as [|x a IH]; intros [|y b]; try discriminate; auto.
  intros H. apply andb_true_iff in H as [H1 H2]. apply N.eqb_eq in H1. subst.
  f_equal. apply IH. exact H2.
Qed.

Lemma node_eqb_eq a b : node_eqb a b = true -> a = b.
Proof.
  destruct a, b; simpl; try discriminate; auto.
  - intros H. apply andb_true_iff in H as [H1 H2]. apply bytes_eqb_eq in H1.
    apply Bool.eqb_prop in H2. congruence.
  - intros H. destruct (name_eqb_spec t t0); congruence.
Qed.

Lemma onode_eqb_eq a b : onode_eqb a b = true -> a = b.
Proof.
  destruct a, b; simpl; try discriminate; auto. intros H. f_equal. apply node_eqb_eq; exact H.
Qed.

Lemma tlook_In t p : tlook t p <> None -> In p (map epath (ents t)).
Proof.
  unfold tlook, find_path. destruct (find _ (ents t)) as [e|] eqn:F; [|congruence].
  intros _. apply find_some in F as [I E]. destruct (path_eqb_spec (epath e) p) as [<-|]; [|discriminate].
  apply in_map; exact I.
Qed.

Lemma antib_anti l : antib l = true -> anti l.
Proof.
  induction l as [|x l IH]; simpl; [auto|].
  intros H. apply andb_true_iff in H as [H1 H2]. split; [|auto].
  intros y I. rewrite forallb_forall in H1. specialize (H1 y I).
  apply andb_true_iff in H1 as [A B]. split; [destruct (prefixb x y)|destruct (prefixb y x)];
    simpl in *; congruence.
Qed.

Lemma nodupb_NoDup l : nodupb l = true -> NoDup l.
Proof.
  induction l as [|x l IH]; simpl; intros H; constructor.
  - apply andb_true_iff in H as [H _]. apply negb_true_iff in H. apply mem_false in H. exact H.
  - apply andb_true_iff in H as [_ H]. auto.
Qed.

Lemma anti_tmp (prs : list (nat * change)) :
  NoDup (map fst prs) -> anti (map (fun kc => [Tmp (fst kc)]) prs).
Proof.
  induction prs as [|kc prs IH]; simpl; intros ND; [auto|].
  inversion ND as [|? ? NI ND']; subst. split; [|auto].
  intros y I. apply in_map_iff in I as (kc' & <- & I).
  assert (fst kc <> fst kc') as NE by (intros E; apply NI; rewrite E; apply in_map; exact I).
  unfold incomp, prefixb. simpl.
  destruct (Nat.eqb_spec (fst kc) (fst kc')); [congruence|].
  destruct (Nat.eqb_spec (fst kc') (fst kc)); [congruence|]. auto.
Qed.

Lemma numbered_keys n l : map fst (numbered n l) = seq n (length l).
Proof.
  unfold numbered. revert n; induction l as [|c l IH]; intros n; simpl; [reflexivity|].
  rewrite IH. reflexivity.
Qed.
Lemma numbered_snd n l : map snd (numbered n l) = l.
Proof.
  unfold numbered. revert n; induction l as [|c l IH]; intros n; simpl; [reflexivity|].
  rewrite IH. reflexivity.
Qed.
Lemma numbered_In n l kc : In kc (numbered n l) -> In (snd kc) l.
Proof. intros I. rewrite <- (numbered_snd n l). apply in_map; exact I. Qed.
Lemma numbered_length n l : length (numbered n l) = length l.
Proof. rewrite <- (map_length fst), numbered_keys, seq_length. reflexivity. Qed.

(* ---------- the end-to-end proof ---------- *)
Section Exact.
  Variables old new : tree.
  Variable revid : N.
  Variable f : fs.
  Hypothesis G : upload_guard old new = true.
  Hypothesis D0 : dom_ok f.
  Hypothesis AG : forall p, p <> [NMark] -> look f p = tlook old p.
  Hypothesis MK : look f [NMark] <> Some Dir.

  Let R := d_removed old new.
  Let RN := d_renamed old new.
  Let RNm := moves_of RN.
  Let RNr := recs_of RN.
  Let KC := d_kind_changed old new.
  Let AD := d_created old new.
  Let MD := d_modified old new.
  Let prs := g_prs old new.
  Let rmp := g_rmp old new.
  Let rmd := g_rmd old new.
  Let rcp := g_rcp old new.
  Let gone := g_gone old new.

  Lemma G_parts :
    tign new = [] /\ g_clean old new = true /\ g_members old new = true /\
    g_removed old new = true /\ g_renamed old new = true /\ g_kind_changed old new = true /\
    g_added old new = true /\ g_modified old new = true /\ g_result old new = true /\
    g_recreated old new = true.
  Proof.
    unfold upload_guard in G.
    repeat (apply andb_true_iff in G as [G ?]).
    destruct (tign new); [|discriminate]. repeat split; assumption.
  Qed.

  Lemma old_clean q : In q (g_oldpaths old) -> clean_hd q = true.
  Proof.
    destruct G_parts as (_ & C & _). unfold g_clean in C. apply andb_true_iff in C as [C _].
    rewrite forallb_forall in C. apply C.
  Qed.
  Lemma new_clean q : In q (g_newpaths new) -> clean_hd q = true.
  Proof.
    destruct G_parts as (_ & C & _). unfold g_clean in C. apply andb_true_iff in C as [_ C].
    rewrite forallb_forall in C. apply C.
  Qed.
  Lemma tlook_old_clean q : tlook old q <> None -> clean_hd q = true.
  Proof. intros H. apply old_clean. apply tlook_In; exact H. Qed.
  Lemma tlook_old_tmp k s : tlook old (Tmp k :: s) = None.
  Proof.
    destruct (tlook old (Tmp k :: s)) eqn:E; [|reflexivity].
    assert (clean_hd (Tmp k :: s) = true) as C by (apply tlook_old_clean; congruence). discriminate.
  Qed.
  Lemma AG' p : clean_hd p = true -> look f p = tlook old p.
  Proof. intros C. apply AG. apply clean_ne_mark; exact C. Qed.

  (* membership facts from g_members *)
  Lemma M_parts :
    (forall e, In e R -> In (epath e) (g_oldpaths old)) /\
    (forall c, In c RN -> In (epath (c_old c)) (g_oldpaths old) /\ In (epath (c_new c)) (g_newpaths new)) /\
    (forall c, In c KC -> In (epath (c_new c)) (g_newpaths new)) /\
    (forall e, In e AD -> In (epath e) (g_newpaths new)) /\
    (forall c, In c MD -> In (epath (c_new c)) (g_newpaths new)).
  Proof.
    destruct G_parts as (_ & _ & M & _). unfold g_members in M.
    repeat (apply andb_true_iff in M as [M ?]).
    repeat split.
    - intros e I. rewrite forallb_forall in M. apply mem_true. apply M; exact I.
    - rewrite forallb_forall in H2. specialize (H2 c H3). apply andb_true_iff in H2 as [A _].
      apply mem_true; exact A.
    - rewrite forallb_forall in H2. specialize (H2 c H3). apply andb_true_iff in H2 as [_ A].
      apply mem_true; exact A.
    - intros c I. rewrite forallb_forall in H1. apply mem_true. apply H1; exact I.
    - intros e I. rewrite forallb_forall in H0. apply mem_true. apply H0; exact I.
    - intros c I. rewrite forallb_forall in H. apply mem_true. apply H; exact I.
  Qed.

  Lemma rmp_clean p : In p rmp -> clean_hd p = true.
  Proof.
    intros I. apply in_map_iff in I as (e & <- & I). apply old_clean.
    destruct M_parts as (M & _). apply M; exact I.
  Qed.
  Lemma rmd_rmp p : In p rmd -> In p rmp.
  Proof. apply dir_paths_incl. Qed.

  Lemma prs_In kc : In kc prs -> In (snd kc) RNm.
  Proof. apply numbered_In. Qed.
  Lemma RNm_RN c : In c RNm -> In c RN /\ recreate c = false.
  Proof.
    intros I. apply filter_In in I as [I H]. split; [exact I|]. apply negb_true_iff; exact H.
  Qed.
  Lemma RNr_RN c : In c RNr -> In c RN /\ recreate c = true.
  Proof. intros I. apply filter_In in I. exact I. Qed.
  Lemma prs_clean kc : In kc prs -> clean_hd (oldp kc) = true /\ clean_hd (newp kc) = true.
  Proof.
    intros I. apply prs_In, RNm_RN in I as [I _]. destruct M_parts as (_ & M & _). destruct (M _ I) as [A B].
    split; [apply old_clean; exact A|apply new_clean; exact B].
  Qed.
  Lemma prs_keys : NoDup (map fst prs).
  Proof. unfold prs, g_prs. rewrite numbered_keys. apply seq_NoDup. Qed.

  (* ----- facts of the guard about one renamed entry ----- *)
  Record rn_ok (c : change) : Prop := {
    rn_old : tlook old (epath (c_old c)) = Some (enode (c_old c));
    rn_nrm : ~ In (epath (c_old c)) rmp;
    rn_put : put_of c <> None ->
             match parent (epath (c_old c)) with
             | [] => True
             | q => tlook old q = Some Dir /\ ~ In q gone
             end;
    rn_rmd : forall d, In d rmd -> prefixb (epath (c_old c)) d = false;
    rn_free : forall q, In q (g_oldpaths old) -> prefixb (epath (c_new c)) q = true ->
                        ex_old prs q = true \/ In q gone;
    rn_par : match parent (epath (c_new c)) with
             | [] => True
             | q => tlook old q = Some Dir /\ ~ In q gone /\ ex_old prs q = false
             end
  }.

  Lemma is_dirb_Some o : is_dirb o = true -> o = Some Dir.
  Proof. destruct o as [[]|]; simpl; congruence. Qed.

  Lemma RN_ok c : In c RNm -> rn_ok c.
  Proof.
    intros Ic. destruct G_parts as (_ & _ & _ & _ & GR & _). unfold g_renamed in GR.
    apply andb_true_iff in GR as [GR _]. apply andb_true_iff in GR as [GR _].
    rewrite forallb_forall in GR. specialize (GR c Ic). cbv zeta in GR.
    repeat (apply andb_true_iff in GR as [GR ?]).
    constructor.
    - apply onode_eqb_eq; exact GR.
    - apply mem_false. apply negb_true_iff. exact H3.
    - intros NP. destruct (put_of c); [|congruence].
      destruct (parent (epath (c_old c))); [trivial|].
      apply andb_true_iff in H2 as [A B]. split; [apply is_dirb_Some; exact A|].
      apply mem_false. apply negb_true_iff. exact B.
    - intros d Id. rewrite forallb_forall in H1. specialize (H1 d Id).
      apply negb_true_iff; assumption.
    - intros q Iq Pq. rewrite forallb_forall in H0. specialize (H0 q Iq).
      rewrite Pq in H0. simpl in H0. apply orb_true_iff in H0 as [A|A]; [left; exact A|].
      right. apply mem_true; exact A.
    - destruct (parent (epath (c_new c))); [trivial|].
      apply andb_true_iff in H as [H C]. apply andb_true_iff in H as [A B].
      split; [apply is_dirb_Some; exact A|]. split.
      + apply mem_false. apply negb_true_iff. exact B.
      + apply negb_true_iff. exact C.
  Qed.

  Lemma RN_anti :
    anti (map (fun c => epath (c_old c)) RNm) /\ anti (map (fun c => epath (c_new c)) RNm).
  Proof.
    destruct G_parts as (_ & _ & _ & _ & GR & _). unfold g_renamed in GR.
    apply andb_true_iff in GR as [GR B]. apply andb_true_iff in GR as [_ A].
    split; apply antib_anti; assumption.
  Qed.

  (* a renamed (not re-created) entry keeps its kind; it is uploaded again only if it is a file *)
  Lemma put_not_dir c : recreate c = false -> put_of c <> None -> enode (c_old c) <> Dir.
  Proof.
    unfold recreate, put_of, reupload. intros RC NP ED. apply NP. rewrite ED in *.
    destruct (enode (c_new c)); simpl in *; try discriminate; reflexivity.
  Qed.

  (* ----- facts about one re-created entry ----- *)
  Record rc_ok (c : change) : Prop := {
    rc_old : tlook old (epath (c_old c)) = Some (enode (c_old c));
    rc_nrm : ~ In (epath (c_old c)) rmp;
    rc_leaf : forall q, In q (g_oldpaths old) -> strictb (epath (c_old c)) q = false;
    rc_inc : forall c', In c' RNm -> incomp (epath (c_old c)) (epath (c_old c'))
  }.

  Lemma RC_parts : NoDup rcp /\ forall c, In c RNr -> rc_ok c.
  Proof.
    destruct G_parts as (_ & _ & _ & _ & _ & _ & _ & _ & _ & GC). unfold g_recreated in GC.
    apply andb_true_iff in GC as [GC1 GC2]. split; [apply nodupb_NoDup; exact GC1|].
    intros c Ic. rewrite forallb_forall in GC2. specialize (GC2 c Ic). cbv zeta in GC2.
    repeat (apply andb_true_iff in GC2 as [GC2 ?]).
    constructor.
    - apply onode_eqb_eq; exact GC2.
    - apply mem_false. apply negb_true_iff. exact H1.
    - intros q Iq. rewrite forallb_forall in H0. apply negb_true_iff. apply H0; exact Iq.
    - intros c' Ic'. rewrite forallb_forall in H. specialize (H c' Ic').
      apply andb_true_iff in H as [A B]. split; apply negb_true_iff; assumption.
  Qed.

  Lemma rcp_In p : In p rcp -> exists c, In c RNr /\ p = epath (c_old c).
  Proof. intros I. apply in_map_iff in I as (c & <- & I). eauto. Qed.

  Lemma rcp_clean p : In p rcp -> clean_hd p = true.
  Proof.
    intros I. apply rcp_In in I as (c & Ic & ->). apply tlook_old_clean.
    destruct RC_parts as [_ RC]. rewrite (rc_old _ (RC c Ic)). discriminate.
  Qed.

  Lemma gone_split p : In p gone <-> In p rmp \/ In p rcp.
  Proof. unfold gone, g_gone. apply in_app_iff. Qed.

  (* nothing of the old tree is below (or at, unless it is that entry) a re-created old path *)
  Lemma rc_prefix_old p q : In p rcp -> prefixb p q = true -> tlook old q <> None -> q = p.
  Proof.
    intros I P T. apply rcp_In in I as (c & Ic & ->). destruct RC_parts as [_ RC].
    apply prefixb_true in P as (s & ->). destruct s as [|x s]; [apply app_nil_r|].
    exfalso. pose proof (rc_leaf _ (RC c Ic) _ (tlook_In _ _ T)) as L.
    rewrite (proj2 (strictb_true _ _)) in L by eauto. discriminate.
  Qed.

  (* ----- phase 1 ----- *)
  Lemma R_facts :
    pf_okb rmp = true /\
    (forall e, In e R -> tlook old (epath e) = Some (enode e)) /\
    (forall d q, In d rmd -> In q (g_oldpaths old) -> strictb d q = true ->
                 ex_old prs q = true \/ In q gone).
  Proof.
    destruct G_parts as (_ & _ & _ & GR & _). unfold g_removed in GR.
    apply andb_true_iff in GR as [GR C]. apply andb_true_iff in GR as [A B].
    split; [exact A|]. split.
    - intros e I. rewrite forallb_forall in B. apply onode_eqb_eq. apply B; exact I.
    - intros d q Id Iq S. rewrite forallb_forall in C. specialize (C d Id).
      rewrite forallb_forall in C. specialize (C q Iq). rewrite S in C. simpl in C.
      apply orb_true_iff in C as [C|C]; [left; exact C|right; apply mem_true; exact C].
  Qed.

  Lemma phase1_run :
    exists u1, run (map rm_cmd R) (ust0 f) = (u1, None) /\ pren u1 = [] /\ ntmp u1 = 0%nat /\
               ph1 f R u1.
  Proof.
    destruct R_facts as (PF & HL & _).
    destruct (phase1 f R [] (ust0 f)) as (u1 & E & A & B & P).
    - constructor; simpl; auto.
      + intros p [].
      + intros p [].
    - exact PF.
    - simpl. apply pf_okb_NoDup; exact PF.
    - intros e I. rewrite AG'; [apply HL; exact I|].
      apply tlook_old_clean. rewrite (HL e I). discriminate.
    - exists u1. simpl in *. auto.
  Qed.

  Lemma F1_old q : F1 old new q <> None -> In q (g_oldpaths old).
  Proof. unfold F1. destruct (mem _ _); [congruence|apply tlook_In]. Qed.

  Lemma clean_tmp_hd p : clean_hd p = true -> tmp_hd p = false.
  Proof. destruct p as [|[] p]; simpl; congruence. Qed.

  (* ----- after phase 1 ----- *)
  Section After1.
    Variable u1 : ust.
    Hypothesis P1 : ph1 f R u1.
    Hypothesis PR1 : pren u1 = [].
    Hypothesis NT1 : ntmp u1 = 0%nat.
    Let look1 := look (ufs u1).

    Lemma pdel_rmd d : In d (pdel u1) -> In d rmd.
    Proof. apply (p1_incl _ _ _ P1). Qed.

    (* the remote after the removals, deferred directories aside *)
    Lemma L1 p : ~ In p (pdel u1) -> p <> [NMark] ->
                 look1 p = if mem p rmp then None else tlook old p.
    Proof.
      intros NP NM. destruct (mem p rmp) eqn:E.
      - apply mem_true in E. destruct (p1_done _ _ _ P1 p E) as [[A _]|[_ B]]; [exact A|contradiction].
      - apply mem_false in E. unfold look1. rewrite (p1_same _ _ _ P1 p E). apply AG; exact NM.
    Qed.

    Lemma L1d d : In d (pdel u1) -> look1 d = Some Dir.
    Proof.
      intros I. destruct (p1_done _ _ _ P1 d (rmd_rmp _ (pdel_rmd _ I))) as [[_ B]|[A _]];
        [contradiction|exact A].
    Qed.

    Lemma L1mark : look1 [NMark] = look f [NMark].
    Proof.
      unfold look1. apply (p1_same _ _ _ P1). intros I. apply rmp_clean in I. discriminate.
    Qed.

    Lemma not_pdel_clean p : clean_hd p = false -> ~ In p (pdel u1).
    Proof.
      intros C I. apply pdel_rmd, rmd_rmp, rmp_clean in I. congruence.
    Qed.

    Lemma L1_keep p : ~ In p rmp -> clean_hd p = true -> look1 p = tlook old p.
    Proof.
      intros NI C. rewrite L1.
      - rewrite (proj2 (mem_false _ _) NI). reflexivity.
      - intros Ip. apply NI. apply rmd_rmp, pdel_rmd; exact Ip.
      - apply clean_ne_mark; exact C.
    Qed.

    Lemma TF1 k s : look1 (Tmp k :: s) = None.
    Proof.
      rewrite L1.
      - destruct (mem _ _); [reflexivity|apply tlook_old_tmp].
      - apply not_pdel_clean; reflexivity.
      - discriminate.
    Qed.

    (* nothing on the remote below a re-created old path *)
    Lemma rc_leaf1 p x s : In p rcp -> look1 (p ++ x :: s) = None.
    Proof.
      intros I. pose proof (rcp_clean _ I) as C.
      assert (clean_hd (p ++ x :: s) = true) as CQ by (destruct p as [|[] r]; simpl in *; congruence).
      assert (tlook old (p ++ x :: s) = None) as TN.
      { destruct (tlook old (p ++ x :: s)) eqn:T; [|reflexivity]. exfalso.
        assert (p ++ x :: s = p) as E by (apply rc_prefix_old; [exact I|apply prefixb_app|congruence]).
        rewrite <- (app_nil_r p) in E at 2. apply app_inv_head in E. discriminate. }
      destruct (in_dec (list_eq_dec (fun a b => reflect_dec _ _ (name_eqb_spec a b))) (p ++ x :: s) (pdel u1)) as [Ip|Np].
      - exfalso. apply pdel_rmd, rmd_rmp in Ip. apply in_map_iff in Ip as (e & E & Ie).
        destruct R_facts as (_ & HL & _). rewrite <- E, (HL e Ie) in TN. discriminate.
      - rewrite L1 by (auto using clean_ne_mark). destruct (mem _ _); [reflexivity|exact TN].
    Qed.

    (* -- the rename loop: staging moves and leaf deletions -- *)
    Lemma stage_pre : moves_pre (map stageP prs) (ufs u1).
    Proof.
      destruct RN_anti as [AA AB].
      constructor.
      - intros m I. apply in_map_iff in I as (kc & <- & I).
        pose proof (RN_ok _ (prs_In _ I)) as OK. destruct (prs_clean _ I) as [CO CN].
        destruct (RNm_RN _ (prs_In _ I)) as [_ NR].
        simpl. unfold oldp in *. exists (enode (c_old (snd kc))). split.
        + change (look1 (epath (c_old (snd kc))) = Some (enode (c_old (snd kc)))).
          rewrite L1_keep; [apply (rn_old _ OK)|apply (rn_nrm _ OK)|exact CO].
        + intros NP. split; [apply put_not_dir; assumption|].
          pose proof (rn_put _ OK NP) as PP. unfold parent_ok.
          destruct (parent (epath (c_old (snd kc)))) as [|y q] eqn:EP; [reflexivity|].
          destruct PP as [PD PN]. change (is_dirb (look1 (y :: q)) = true).
          rewrite L1_keep.
          * rewrite PD. reflexivity.
          * intros Ip. apply PN. apply gone_split; left; exact Ip.
          * apply tlook_old_clean. congruence.
      - rewrite map_map. simpl.
        replace (map (fun x => oldp x) prs) with (map (fun c => epath (c_old c)) (map snd prs))
          by (rewrite map_map; reflexivity).
        unfold prs, g_prs. rewrite numbered_snd. exact AA.
      - rewrite map_map. simpl. apply anti_tmp. apply prs_keys.
      - intros m m' I I'. apply in_map_iff in I as (kc & <- & I). apply in_map_iff in I' as (kc' & <- & I').
        simpl. destruct (prs_clean _ I) as [CO _]. split.
        + apply clean_not_under_tmp; exact CO.
        + apply tmp_not_under_clean; exact CO.
      - intros m s I. apply in_map_iff in I as (kc & <- & I). simpl. apply TF1.
      - intros m I. apply in_map_iff in I as (kc & <- & I). simpl. split; [reflexivity|].
        intros m' I'. apply in_map_iff in I' as (kc' & <- & I'). simpl.
        destruct (prs_clean _ I') as [CO _]. destruct (oldp kc'); [discriminate|reflexivity].
    Qed.

    Lemma mixed_ok :
      exists fS, run_items (mixed 0 RN) (ufs u1) = (fS, None) /\ dom_ok fS /\
                 forall p, look fS p = moved (map stageP prs) (cut rcp look1) p.
    Proof.
      destruct RC_parts as [NDr RC].
      destruct (mixed_simultaneous (mixed 0 RN) (ufs u1) (p1_dom _ _ _ P1)) as (fS & E & D & L).
      - rewrite mvs_of_mixed. exact stage_pre.
      - rewrite rms_of_mixed. exact NDr.
      - intros a d I. rewrite mvs_of_mixed.
        assert (exists c, In c RNr /\ a = epath (c_old c) /\ d = is_dir_node (enode (c_old c))) as (c & Ic & -> & ->).
        { clear - I. unfold RNr, recs_of. generalize 0%nat as n. revert I. generalize 0%nat.
          induction RN as [|c l IH]; intros n I m; simpl in *; [destruct I|].
          destruct (recreate c) eqn:RCc; simpl in I.
          - destruct I as [I|I].
            + inversion I; subst. exists c. split; [left; reflexivity|auto].
            + destruct (IH _ I m) as (c' & A & B). exists c'. split; [right; exact A|exact B].
          - destruct I as [I|I]; [discriminate|]. apply (IH _ I m). }
        pose proof (RC c Ic) as OK.
        assert (clean_hd (epath (c_old c)) = true) as C
          by (apply rcp_clean; apply in_map_iff; exists c; auto).
        constructor.
        + exists (enode (c_old c)). split.
          * change (look1 (epath (c_old c)) = Some (enode (c_old c))).
            rewrite L1_keep; [apply (rc_old _ OK)|apply (rc_nrm _ OK)|exact C].
          * unfold is_dir_node. destruct (enode (c_old c)); split; congruence.
        + intros x s. apply rc_leaf1. apply in_map_iff. exists c. auto.
        + intros m I'. apply in_map_iff in I' as (kc & <- & Ik). simpl. split; [|split].
          * apply (rc_inc _ OK). apply prs_In; exact Ik.
          * split; [apply clean_not_under_tmp; exact C|apply tmp_not_under_clean; exact C].
          * destruct (epath (c_old c)); [discriminate|reflexivity].
      - exists fS. split; [exact E|]. split; [exact D|].
        intros p. rewrite L, mvs_of_mixed, rms_of_mixed. reflexivity.
    Qed.

    (* -- the deferred deletions, then the final renames -- *)
    Section AfterStage.
      Variable fS : fs.
      Hypothesis DS : dom_ok fS.
      Hypothesis LS : forall p, look fS p = moved (map stageP prs) (cut rcp look1) p.

      Lemma LS_clean q : tmp_hd q = false ->
        look fS q = if ex_old prs q then None else cut rcp look1 q.
      Proof.
        intros T. rewrite LS. unfold moved. rewrite find_tgt_stg_clean by exact T.
        rewrite ex_src_stg. reflexivity.
      Qed.

      Lemma ex_old_rmd d : In d rmd -> ex_old prs d = false.
      Proof.
        intros I. unfold ex_old. destruct (existsb _ prs) eqn:E; [|reflexivity].
        apply existsb_exists in E as (kc & Ik & P).
        pose proof (rn_rmd _ (RN_ok _ (prs_In _ Ik)) d I) as A. unfold oldp in P. congruence.
      Qed.

      Lemma cut_rmd d : In d rmd -> existsb (fun a => prefixb a d) rcp = false.
      Proof.
        intros I. apply cut_false. intros a Ia.
        destruct (prefixb a d) eqn:P; [|reflexivity]. exfalso.
        assert (tlook old d <> None) as T.
        { apply rmd_rmp in I. apply in_map_iff in I as (e & <- & Ie).
          destruct R_facts as (_ & HL & _). rewrite (HL e Ie). discriminate. }
        pose proof (rc_prefix_old a d Ia P T) as E. subst d.
        apply rcp_In in Ia as (c & Ic & E). destruct RC_parts as [_ RC].
        apply (rc_nrm _ (RC c Ic)). rewrite <- E. apply rmd_rmp; exact I.
      Qed.

      Lemma deletions_ok :
        exists f4, rmdirs (rev (pdel u1)) fS = (f4, None) /\ dom_ok f4 /\
                   forall p, look f4 p = if mem p (pdel u1) then None else look fS p.
      Proof.
        destruct R_facts as (_ & _ & CL).
        rewrite rmdirs_eq.
        destruct (rmdirs_ok (rev (pdel u1)) fS DS) as (f4 & E & D4 & L4).
        - apply NoDup_rev. apply pf_okb_NoDup. apply (p1_pf _ _ _ P1).
        - intros d I. apply in_rev in I. pose proof (pdel_rmd _ I) as Ir.
          rewrite LS_clean by (apply clean_tmp_hd, rmp_clean, rmd_rmp; exact Ir).
          rewrite (ex_old_rmd _ Ir). unfold cut. rewrite (cut_rmd _ Ir). apply L1d; exact I.
        - intros l1 d l2 EL x s.
          assert (pdel u1 = rev l2 ++ d :: rev l1) as EP.
          { rewrite <- (rev_involutive (pdel u1)), EL, rev_app_distr. simpl.
            rewrite <- app_assoc. reflexivity. }
          assert (In d (pdel u1)) as Id by (rewrite EP; apply in_or_app; right; left; reflexivity).
          pose proof (pdel_rmd _ Id) as Idr.
          set (q := d ++ x :: s).
          assert (strictb d q = true) as SQ by (apply strictb_true; unfold q; eauto).
          assert (clean_hd q = true) as CQ.
          { pose proof (rmp_clean _ (rmd_rmp _ Idr)) as C. unfold q.
            destruct d as [|[] r]; simpl in *; congruence. }
          rewrite LS_clean by (apply clean_tmp_hd; exact CQ).
          destruct (ex_old prs q) eqn:EO; [left; reflexivity|].
          unfold cut. destruct (existsb (fun a => prefixb a q) rcp) eqn:EC; [left; reflexivity|].
          destruct (in_dec (list_eq_dec (fun a b => reflect_dec _ _ (name_eqb_spec a b))) q (pdel u1)) as [Iq|Nq].
          + right. apply in_rev.
            apply (pf_okb_later (rev l2) d (rev l1) q).
            * rewrite <- EP. apply (p1_pf _ _ _ P1).
            * rewrite <- EP. exact Iq.
            * exact SQ.
          + left. rewrite L1 by (auto using clean_ne_mark).
            destruct (mem q rmp) eqn:EM; [reflexivity|].
            destruct (tlook old q) eqn:T; [|reflexivity]. exfalso.
            assert (In q (g_oldpaths old)) as IO by (apply tlook_In; congruence).
            destruct (CL d q Idr IO SQ) as [A|A]; [congruence|].
            apply gone_split in A as [A|A].
            * apply mem_true in A. congruence.
            * assert (existsb (fun a => prefixb a q) rcp = true) as C
                by (apply existsb_exists; exists q; split; [exact A|apply prefixb_refl]).
              congruence.
        - exists f4. split; [exact E|]. split; [exact D4|].
          intros p. rewrite L4. unfold mem.
          replace (existsb (path_eqb p) (rev (pdel u1))) with (existsb (path_eqb p) (pdel u1)); [reflexivity|].
          destruct (existsb (path_eqb p) (pdel u1)) eqn:E1; symmetry.
          + apply mem_In. apply -> in_rev. apply mem_In. exact E1.
          + destruct (existsb (path_eqb p) (rev (pdel u1))) eqn:E2; [|reflexivity].
            apply mem_In in E2. apply in_rev in E2. apply mem_In in E2. congruence.
      Qed.

      Section AfterDeletions.
        Variable f4 : fs.
        Hypothesis D4 : dom_ok f4.
        Hypothesis L4 : forall p, look f4 p = if mem p (pdel u1) then None else look fS p.

        (* what the renames are applied to: the old tree without what is gone *)
        Definition H1 (p : path) : option node :=
          if mem p (pdel u1) then None else cut rcp look1 p.

        Lemma H1_F1 p : p <> [NMark] -> H1 p = F1 old new p.
        Proof.
          intros NM. unfold H1, F1. fold gone.
          destruct (mem p (pdel u1)) eqn:EP.
          - apply mem_true in EP. apply pdel_rmd, rmd_rmp in EP.
            rewrite (proj2 (mem_true _ _)); [reflexivity|]. apply gone_split; left; exact EP.
          - apply mem_false in EP. unfold cut.
            destruct (existsb (fun a => prefixb a p) rcp) eqn:EC.
            + apply existsb_exists in EC as (a & Ia & Pa).
              destruct (mem p gone) eqn:EG; [reflexivity|].
              destruct (tlook old p) eqn:T; [|reflexivity]. exfalso.
              assert (p = a) as -> by (apply (rc_prefix_old a p Ia Pa); congruence).
              apply mem_false in EG. apply EG. apply gone_split; right; exact Ia.
            + rewrite L1 by assumption.
              assert (~ In p rcp) as NR.
              { intros I. assert (existsb (fun a => prefixb a p) rcp = true) as C
                  by (apply existsb_exists; exists p; split; [exact I|apply prefixb_refl]). congruence. }
              destruct (mem p rmp) eqn:EM.
              * apply mem_true in EM. rewrite (proj2 (mem_true _ _)); [reflexivity|].
                apply gone_split; left; exact EM.
              * apply mem_false in EM. rewrite (proj2 (mem_false _ _)); [reflexivity|].
                intros I. apply gone_split in I as [I|I]; contradiction.
        Qed.

        Lemma H1_mark : H1 [NMark] = look f [NMark].
        Proof.
          unfold H1. rewrite (proj2 (mem_false _ _)) by (apply not_pdel_clean; reflexivity).
          unfold cut. rewrite cut_false; [apply L1mark|].
          intros a Ia. apply rcp_clean in Ia. destruct a as [|[] r]; simpl in *; try discriminate; reflexivity.
        Qed.

        Lemma H1_tmp k s : H1 (Tmp k :: s) = None.
        Proof.
          unfold H1. destruct (mem _ _); [reflexivity|]. unfold cut.
          destruct (existsb _ rcp); [reflexivity|apply TF1].
        Qed.

        Lemma L4_moved p : look f4 p = moved (map stageP prs) H1 p.
        Proof.
          rewrite L4, LS. unfold moved.
          destruct (find_tgt (map stageP prs) p) as [[m s]|] eqn:EF.
          - (* a temporary: not a deferred directory *)
            apply find_tgt_In in EF as [Im EQ]. apply in_map_iff in Im as (kc & <- & Ik).
            simpl in EQ. subst p.
            rewrite (proj2 (mem_false _ _)) by (apply not_pdel_clean; reflexivity).
            unfold src. simpl.
            assert (cut rcp look1 (oldp kc ++ s) = H1 (oldp kc ++ s)) as EH.
            { unfold H1. rewrite (proj2 (mem_false _ _)); [reflexivity|].
              intros Ip. apply pdel_rmd in Ip.
              pose proof (rn_rmd _ (RN_ok _ (prs_In _ Ik)) _ Ip) as A.
              unfold oldp in A. rewrite prefixb_app in A. discriminate. }
            destruct s, (put_of (snd kc)) as [[t x]|]; auto.
          - destruct (mem p (pdel u1)) eqn:EP.
            + apply mem_true in EP. unfold H1. rewrite (proj2 (mem_true _ _) EP).
              destruct (ex_src _ p); reflexivity.
            + unfold H1. rewrite EP. reflexivity.
        Qed.

        Lemma L4_clean q : tmp_hd q = false -> look f4 q = if ex_old prs q then None else H1 q.
        Proof.
          intros T. rewrite L4_moved. unfold moved. rewrite find_tgt_stg_clean by exact T.
          rewrite ex_src_stg. reflexivity.
        Qed.

        Lemma fin_pre : moves_pre (map finP prs) f4.
        Proof.
          destruct RN_anti as [AA AB].
          constructor.
          - intros m I. apply in_map_iff in I as (kc & <- & I). simpl.
            pose proof (RN_ok _ (prs_In _ I)) as OK. destruct (prs_clean _ I) as [CO CN].
            assert (H1 (oldp kc) = Some (enode (c_old (snd kc)))) as LO.
            { rewrite H1_F1 by (apply clean_ne_mark; exact CO). unfold F1, oldp. fold gone.
              rewrite (proj2 (mem_false _ _)); [apply (rn_old _ OK)|].
              intros Ig. apply gone_split in Ig as [Ig|Ig]; [apply (rn_nrm _ OK); exact Ig|].
              apply rcp_In in Ig as (c & Ic & E). destruct RC_parts as [_ RC].
              destruct (rc_inc _ (RC c Ic) _ (prs_In _ I)) as [A _].
              rewrite <- E, prefixb_refl in A. discriminate. }
            assert (look f4 [Tmp (fst kc)] <> None) as NN.
            { rewrite L4_moved. unfold moved. rewrite find_tgt_stg_tmp, (find_key _ _ prs_keys I).
              unfold src. simpl. destruct (put_of (snd kc)) as [[t x]|]; [discriminate|].
              rewrite app_nil_r, LO. discriminate. }
            destruct (look f4 [Tmp (fst kc)]) as [nd|]; [|congruence].
            exists nd. split; [reflexivity|]. intros C; congruence.
          - rewrite map_map. simpl. apply anti_tmp. apply prs_keys.
          - rewrite map_map. simpl.
            replace (map (fun x => newp x) prs) with (map (fun c => epath (c_new c)) (map snd prs))
              by (rewrite map_map; reflexivity).
            unfold prs, g_prs. rewrite numbered_snd. exact AB.
          - intros m m' I I'. apply in_map_iff in I as (kc & <- & I). apply in_map_iff in I' as (kc' & <- & I').
            simpl. destruct (prs_clean _ I') as [_ CN]. split.
            + apply tmp_not_under_clean; exact CN.
            + apply clean_not_under_tmp; exact CN.
          - intros m s I. apply in_map_iff in I as (kc & <- & I). simpl.
            pose proof (RN_ok _ (prs_In _ I)) as OK. destruct (prs_clean _ I) as [CO CN].
            set (q := newp kc ++ s).
            assert (clean_hd q = true) as CQ.
            { unfold q. destruct (newp kc) as [|[] r]; simpl in *; congruence. }
            rewrite L4_clean by (apply clean_tmp_hd; exact CQ).
            destruct (ex_old prs q) eqn:EO; [reflexivity|].
            rewrite H1_F1 by (apply clean_ne_mark; exact CQ).
            destruct (F1 old new q) eqn:EF; [|reflexivity]. exfalso.
            assert (In q (g_oldpaths old)) as IO by (apply F1_old; congruence).
            destruct (rn_free _ OK q IO) as [A|A].
            + unfold q, newp. apply prefixb_app.
            + congruence.
            + unfold F1 in EF. fold gone in EF. rewrite (proj2 (mem_true _ _) A) in EF. discriminate.
          - intros m I. apply in_map_iff in I as (kc & <- & I). simpl.
            pose proof (RN_ok _ (prs_In _ I)) as OK. destruct (prs_clean _ I) as [CO CN].
            split.
            + pose proof (rn_par _ OK) as PP. unfold parent_ok, newp.
              destruct (parent (epath (c_new (snd kc)))) as [|y q] eqn:EP; [reflexivity|].
              destruct PP as (PD & PN & PE).
              assert (clean_hd (y :: q) = true) as CQ by (apply tlook_old_clean; congruence).
              rewrite L4_clean by (apply clean_tmp_hd; exact CQ). rewrite PE.
              rewrite H1_F1 by (apply clean_ne_mark; exact CQ).
              unfold F1. fold gone. rewrite (proj2 (mem_false _ _) PN), PD. reflexivity.
            + intros m' I'. apply in_map_iff in I' as (kc' & <- & I'). simpl.
              destruct (clean_parent _ CN) as [E|C].
              * rewrite E. reflexivity.
              * apply tmp_not_under_clean; exact C.
        Qed.

        (* the remote after the rename loop, the deletions and the final renames *)
        Lemma L5_form f5 :
          (forall p, look f5 p = moved (map finP prs) (look f4) p) ->
          (forall p, p <> [NMark] -> look f5 p = F3 old new p) /\ look f5 [NMark] = look f [NMark].
        Proof.
          intros L5.
          assert (forall p, look f5 p = ren_formP prs H1 p) as L5'.
          { intros p. rewrite L5, (moved_ext _ _ _ L4_moved).
            apply stage_finish_form; [apply prs_keys|apply prs_clean|apply H1_tmp]. }
          split.
          - intros p NM. rewrite L5'. unfold F3. fold prs. unfold ren_formP.
            destruct (find_newP prs p) as [[kc s]|] eqn:EF.
            + apply find_newP_In in EF as [Ik EQ]. destruct (prs_clean _ Ik) as [CO _].
              assert (H1 (oldp kc ++ s) = F1 old new (oldp kc ++ s)) as EL
                by (apply H1_F1; apply clean_app_ne_mark; exact CO).
              unfold src. simpl. destruct s, (put_of (snd kc)) as [[t x]|]; auto.
            + destruct (ex_old prs p); [reflexivity|]. apply H1_F1; exact NM.
          - rewrite L5'. unfold ren_formP.
            assert (find_newP prs [NMark] = None) as E1.
            { destruct (find_newP prs [NMark]) as [[kc s]|] eqn:EF; [|reflexivity].
              apply find_newP_In in EF as [Ik EQ]. destruct (prs_clean _ Ik) as [_ CN].
              symmetry in EQ. apply clean_app_ne_mark in EQ; [destruct EQ|exact CN]. }
            assert (ex_old prs [NMark] = false) as E2.
            { unfold ex_old. destruct (existsb _ prs) eqn:E; [|reflexivity].
              apply existsb_exists in E as (kc & Ik & P). destruct (prs_clean _ Ik) as [CO _].
              apply prefixb_true in P as (s & EQ). symmetry in EQ.
              apply clean_app_ne_mark in EQ; [destruct EQ|exact CO]. }
            rewrite E1, E2. apply H1_mark.
        Qed.
      End AfterDeletions.
    End AfterStage.
  End After1.

  (* ----- supports of the closed forms ----- *)
  Lemma univ_old q : In q (g_oldpaths old) -> In q (g_univ old new).
  Proof. intros I. unfold g_univ. apply in_or_app; left; exact I. Qed.
  Lemma univ_new q : In q (g_newpaths new) -> In q (g_univ old new).
  Proof. intros I. unfold g_univ. apply in_or_app; right. apply in_or_app; left; exact I. Qed.

  Lemma S3 q : F3 old new q <> None -> In q (g_univ old new).
  Proof.
    unfold F3, ren_formP. fold prs.
    destruct (find_newP prs q) as [[kc s]|] eqn:EF.
    - apply find_newP_In in EF as [Ik ->]. intros H.
      assert (In (oldp kc ++ s) (g_oldpaths old)) as IO.
      { unfold src in H. simpl in H.
        destruct M_parts as (_ & M & _). destruct (M _ (proj1 (RNm_RN _ (prs_In _ Ik)))) as [A _].
        destruct s as [|y s].
        - rewrite app_nil_r. exact A.
        - apply F1_old. destruct (put_of (snd kc)) as [[t x]|]; exact H. }
      unfold g_univ. apply in_or_app; right. apply in_or_app; right.
      apply in_flat_map. exists kc. split; [exact Ik|].
      apply in_flat_map. exists (oldp kc ++ s). split; [exact IO|].
      rewrite under_app. left; reflexivity.
    - destruct (ex_old prs q); [congruence|]. intros H. apply univ_old. apply F1_old; exact H.
  Qed.

  Lemma upd_all_cases l h q :
    upd_all l h q <> None -> In q (map fst l) \/ h q <> None.
  Proof.
    unfold upd_all. destruct (find _ l) as [it|] eqn:E; [|auto].
    intros _. left. apply find_some in E as [I E].
    destruct (path_eqb_spec (fst it) q) as [<-|]; [|discriminate]. apply in_map; exact I.
  Qed.

  Lemma upd_all_notin l h q : ~ In q (map fst l) -> upd_all l h q = h q.
  Proof.
    intros NI. unfold upd_all. destruct (find _ l) as [it|] eqn:E; [|reflexivity].
    exfalso. apply NI. apply find_some in E as [I E].
    destruct (path_eqb_spec (fst it) q) as [<-|]; [|discriminate]. apply in_map; exact I.
  Qed.

  Lemma kc_items_new (l : list change) :
    (forall c, In c l -> In (epath (c_new c)) (g_newpaths new)) ->
    forall q, In q (map fst (map kc_item l)) -> In q (g_newpaths new).
  Proof.
    intros H q I. rewrite map_map in I. apply in_map_iff in I as (c & <- & I). apply H; exact I.
  Qed.
  Lemma add_items_new (l : list entry) :
    (forall e, In e l -> In (epath e) (g_newpaths new)) ->
    forall q, In q (map fst (map add_item l)) -> In q (g_newpaths new).
  Proof.
    intros H q I. rewrite map_map in I. apply in_map_iff in I as (c & <- & I). apply H; exact I.
  Qed.

  Lemma S7 q : F7 old new q <> None -> In q (g_univ old new).
  Proof.
    destruct M_parts as (_ & _ & MK' & MA & MM).
    unfold F7, F6, F5. intros H.
    destruct (upd_all_cases _ _ _ H) as [I|H1]; [apply univ_new; exact (kc_items_new MD MM q I)|].
    destruct (upd_all_cases _ _ _ H1) as [I|H2]; [apply univ_new; exact (add_items_new AD MA q I)|].
    destruct (upd_all_cases _ _ _ H2) as [I|H3]; [apply univ_new; exact (kc_items_new KC MK' q I)|].
    apply S3; exact H3.
  Qed.

  Lemma result_new q : F7 old new q = tlook new q.
  Proof.
    destruct G_parts as (_ & _ & _ & _ & _ & _ & _ & _ & GR). unfold g_result in GR.
    rewrite forallb_forall in GR.
    destruct (in_dec (list_eq_dec (fun a b => reflect_dec _ _ (name_eqb_spec a b))) q (g_univ old new)) as [I|NI].
    - apply onode_eqb_eq. apply GR; exact I.
    - destruct (F7 old new q) eqn:E1.
      + exfalso. apply NI. apply S7. congruence.
      + destruct (tlook new q) eqn:E2; [|reflexivity].
        exfalso. apply NI. apply univ_new. apply tlook_In. congruence.
  Qed.

  (* ----- transfer of facts from a closed form to the remote ----- *)
  Lemma par_ok_transfer (g : fs) (F : path -> option node) p :
    clean_hd p = true -> (forall q, q <> [NMark] -> look g q = F q) ->
    par_okb F p = true -> parent_ok g p = true.
  Proof.
    intros C A H. unfold parent_ok, par_okb in *.
    destruct (parent p) as [|y r] eqn:EP; [reflexivity|].
    rewrite A; [exact H|].
    destruct (clean_parent _ C) as [E|C']; [congruence|]. rewrite EP in C'.
    apply clean_ne_mark; exact C'.
  Qed.

  Lemma phase_transfer (g g' : fs) l (F : path -> option node) :
    (forall q, look g' q = upd_all l (look g) q) ->
    (forall q, q <> [NMark] -> look g q = F q) ->
    (forall q, In q (map fst l) -> clean_hd q = true) ->
    (forall q, q <> [NMark] -> look g' q = upd_all l F q) /\ look g' [NMark] = look g [NMark].
  Proof.
    intros L A C. split.
    - intros q NM. rewrite L. apply upd_all_ext. apply A; exact NM.
    - rewrite L. apply upd_all_notin. intros I. apply C in I. discriminate.
  Qed.

  Lemma run_cons_ok c cs u u1 r :
    exec_cmd c u = (u1, None) -> run cs u1 = r -> run (c :: cs) u = r.
  Proof. intros H1 H2. simpl. rewrite H1. exact H2. Qed.

  Lemma exec_FR u f3 :
    renames (pren u) (ufs u) = (f3, None) ->
    exec_cmd FinishRenames u = (mkust f3 (pdel u) [] (ntmp u), None).
  Proof. intros H. simpl. rewrite H. reflexivity. Qed.
  Lemma exec_FD u f4 :
    rmdirs (rev (pdel u)) (ufs u) = (f4, None) ->
    exec_cmd FinishDeletions u = (mkust f4 [] (pren u) (ntmp u), None).
  Proof. intros H. simpl. rewrite H. reflexivity. Qed.

  (* ----- kind changes, additions, modifications, marker ----- *)
  Lemma tail_run u4 :
    dom_ok (ufs u4) ->
    (forall p, p <> [NMark] -> look (ufs u4) p = F3 old new p) ->
    look (ufs u4) [NMark] = look f [NMark] ->
    exists u', run (flat_map kc_cmds KC ++ map (fun e => create_cmd (epath e) (enode e)) AD
                    ++ map mod_cmd MD ++ [SetRevid revid]) u4 = (u', None) /\
               pdel u' = pdel u4 /\ pren u' = pren u4 /\
               (forall p, p <> [NMark] -> look (ufs u') p = tlook new p) /\
               look (ufs u') [NMark] = Some (File [revid] false) /\ dom_ok (ufs u').
  Proof.
    intros D4 A4 M4.
    destruct G_parts as (_ & _ & _ & _ & _ & GK & GA & GM & _ & _).
    destruct M_parts as (_ & _ & MK' & MA & MM).
    (* kind changes *)
    unfold g_kind_changed in GK. apply andb_true_iff in GK as [GK1 GK2].
    rewrite forallb_forall in GK2.
    destruct (phase_kc KC u4 D4) as (u5 & E5 & D5 & PD5 & PR5 & NT5 & L5).
    { rewrite map_map. simpl. apply nodupb_NoDup. exact GK1. }
    { intros c I. specialize (GK2 c I). cbv zeta in GK2.
      repeat (apply andb_true_iff in GK2 as [GK2 ?]).
      pose proof (new_clean _ (MK' c I)) as C.
      unfold kc_pre. cbv zeta.
      split; [apply clean_ne_nil; exact C|]. split.
      - rewrite A4 by (apply clean_ne_mark; exact C). apply onode_eqb_eq; exact GK2.
      - split; [eapply par_ok_transfer; eauto|].
        intros ED x s. rewrite ED in H. rewrite forallb_forall in H.
        rewrite A4 by (apply clean_app_ne_mark; exact C).
        destruct (F3 old new (epath (c_new c) ++ x :: s)) eqn:EF; [|reflexivity].
        exfalso. assert (In (epath (c_new c) ++ x :: s) (g_univ old new)) as IU by (apply S3; congruence).
        specialize (H _ IU). rewrite EF in H.
        rewrite (proj2 (strictb_true _ _)) in H by eauto. discriminate. }
    destruct (phase_transfer (ufs u4) (ufs u5) (map kc_item KC) (F3 old new) L5 A4) as [A5 M5].
    { intros q I. apply new_clean. exact (kc_items_new KC MK' q I). }
    change (forall q, q <> [NMark] -> look (ufs u5) q = F5 old new q) in A5.
    (* additions *)
    unfold g_added in GA. apply andb_true_iff in GA as [GA1 GA2].
    rewrite forallb_forall in GA2.
    destruct (phase_add AD u5 D5 GA1) as (u6 & E6 & D6 & PD6 & PR6 & NT6 & L6).
    { intros e I. specialize (GA2 e I). cbv zeta in GA2.
      repeat (apply andb_true_iff in GA2 as [GA2 ?]).
      pose proof (new_clean _ (MA e I)) as C.
      split; [|split; [apply clean_ne_nil; exact C|split; [|exact Logic.I]]].
      - rewrite A5 by (apply clean_ne_mark; exact C).
        unfold isNone in GA2. destruct (F5 old new (epath e)); [discriminate|reflexivity].
      - apply orb_true_iff in H as [P|P].
        + left. eapply par_ok_transfer; eauto.
        + right. apply existsb_exists in P as (e' & I' & P). apply andb_true_iff in P as [P1 P2].
          exists e'. split; [exact I'|]. split.
          * destruct (path_eqb_spec (epath e') (parent (epath e))); [assumption|discriminate].
          * unfold is_dir_entry in P2. destruct (enode e'); congruence. }
    destruct (phase_transfer (ufs u5) (ufs u6) (map add_item AD) (F5 old new) L6 A5) as [A6 M6].
    { intros q I. apply new_clean. exact (add_items_new AD MA q I). }
    change (forall q, q <> [NMark] -> look (ufs u6) q = F6 old new q) in A6.
    (* modifications *)
    unfold g_modified in GM. apply andb_true_iff in GM as [GM1 GM2].
    rewrite forallb_forall in GM2.
    destruct (phase_mod MD u6 D6) as (u7 & E7 & D7 & PD7 & PR7 & NT7 & L7).
    { rewrite map_map. simpl. apply nodupb_NoDup. exact GM1. }
    { intros c I. specialize (GM2 c I). cbv zeta in GM2.
      repeat (apply andb_true_iff in GM2 as [GM2 ?]).
      pose proof (new_clean _ (MM c I)) as C.
      split; [|split; [apply clean_ne_nil; exact C|split]].
      - simpl in GM2. destruct (enode (c_new c)); try discriminate; congruence.
      - rewrite A6 by (apply clean_ne_mark; exact C).
        destruct (F6 old new (epath (c_new c))) as [[c0 x0| |t0]|]; try discriminate; eexists; split;
          try reflexivity; congruence.
      - eapply par_ok_transfer; eauto. }
    destruct (phase_transfer (ufs u6) (ufs u7) (map kc_item MD) (F6 old new) L7 A6) as [A7 M7].
    { intros q I. apply new_clean. exact (kc_items_new MD MM q I). }
    change (forall q, q <> [NMark] -> look (ufs u7) q = F7 old new q) in A7.
    (* the marker *)
    assert (look (ufs u7) [NMark] = look f [NMark]) as MK7 by congruence.
    assert (exists u8, exec_cmd (SetRevid revid) u7 = (u8, None) /\ pdel u8 = pdel u7 /\ pren u8 = pren u7 /\
                       dom_ok (ufs u8) /\
                       forall q, look (ufs u8) q = if path_eqb q [NMark] then Some (File [revid] false)
                                                   else look (ufs u7) q) as (u8 & E8 & PD8 & PR8 & D8 & L8).
    { simpl. unfold t_put. simpl.
      destruct (look (ufs u7) [NMark]) as [[]|] eqn:EL;
        try (eexists; split; [reflexivity|]; simpl;
             split; [reflexivity|]; split; [reflexivity|]; split; [apply dom_ok_set; exact D7|reflexivity]).
      exfalso. apply MK. congruence. }
    exists u8. split.
    - eapply run_app_ok; [exact E5|]. eapply run_app_ok; [exact E6|].
      eapply run_app_ok; [exact E7|]. eapply run_cons_ok; [exact E8|reflexivity].
    - split; [congruence|]. split; [congruence|]. split; [|split; [|exact D8]].
      + intros p NM. rewrite L8, path_eqb_neq by exact NM. rewrite A7 by exact NM. apply result_new.
      + rewrite L8, path_eqb_refl. reflexivity.
  Qed.

  (* ----- the whole incremental upload ----- *)
  Theorem incremental_exact :
    exists u', run (upload_incremental old new revid) (ust0 f) = (u', None) /\
               (forall p, p <> [NMark] -> look (ufs u') p = tlook new p) /\
               look (ufs u') [NMark] = Some (File [revid] false) /\
               pdel u' = [] /\ pren u' = [] /\ dom_ok (ufs u').
  Proof.
    destruct G_parts as (IG & _).
    unfold upload_incremental.
    rewrite (cmds_removed_noign _ _ IG), (cmds_renamed_noign _ _ IG),
      (cmds_kind_changed_noign _ _ IG), (cmds_added_noign _ _ IG), (cmds_modified_noign _ _ IG).
    fold R RN KC AD MD.
    destruct phase1_run as (u1 & E1 & PR1 & NT1 & P1).
    destruct (mixed_ok u1 P1) as (fS & ES & DS & LS).
    assert (run (flat_map ren_cmd RN) u1 =
            (mkust fS (pdel u1)
                   (pren u1 ++ map (fun m => (m_a m, m_b m)) (map finP (numbered (ntmp u1) (moves_of RN))))
                   (ntmp u1 + length (moves_of RN)), None)) as E2.
    { apply run_stage. rewrite NT1. exact ES. }
    set (u2 := mkust fS _ _ _) in E2.
    destruct (deletions_ok u1 P1 fS DS LS) as (f4 & E4 & D4 & L4).
    assert (exec_cmd FinishDeletions u2 = (mkust f4 [] (pren u2) (ntmp u2), None)) as EFD.
    { apply (exec_FD u2 f4). exact E4. }
    destruct (moves_simultaneous _ _ D4 (fin_pre u1 P1 fS LS f4 L4)) as (f5 & E5 & D5 & L5).
    set (u3 := mkust f4 [] (pren u2) (ntmp u2)) in EFD.
    assert (exec_cmd FinishRenames u3 = (mkust f5 [] [] (ntmp u2), None)) as EFR.
    { apply (exec_FR u3 f5). unfold u3, u2. simpl. rewrite PR1, NT1. simpl.
      rewrite renames_moves. exact E5. }
    destruct (L5_form u1 P1 fS LS f4 L4 f5 L5) as [A5 M5].
    destruct (tail_run (mkust f5 [] [] (ntmp u2)) D5 A5 M5)
      as (u' & ET & PD & PR & AN & MN & DN).
    exists u'. split.
    - eapply run_app_ok; [exact E1|]. eapply run_app_ok; [exact E2|].
      simpl app. eapply run_cons_ok; [exact EFD|]. eapply run_cons_ok; [exact EFR|]. exact ET.
    - repeat split; auto.
  Qed.
End Exact.

(* ---------- a sequence of commits, each followed by an upload ---------- *)
Fixpoint incr_chain (prev : tree) (ts : list tree) (k : N) (f : fs) : fs * option err :=
  match ts with
  | [] => (f, None)
  | t :: r => match run (upload_incremental prev t k) (ust0 f) with
              | (u, None) => incr_chain t r (N.succ k) (ufs u)
              | (u, Some e) => (ufs u, Some e)
              end
  end.

Fixpoint guard_chain (prev : tree) (ts : list tree) : bool :=
  match ts with
  | [] => true
  | t :: r => upload_guard prev t && guard_chain t r
  end.

Lemma last_cons {A} (ts : list A) : forall t prev, last (t :: ts) prev = last ts t.
Proof.
  induction ts as [|x ts IH]; intros t prev; [reflexivity|].
  change (last (t :: x :: ts) prev) with (last (x :: ts) prev). rewrite !IH. reflexivity.
Qed.

Theorem chain_exact : forall ts prev k f,
  guard_chain prev ts = true -> dom_ok f ->
  (forall p, p <> [NMark] -> look f p = tlook prev p) -> look f [NMark] <> Some Dir ->
  exists f', incr_chain prev ts k f = (f', None) /\
             forall p, p <> [NMark] -> look f' p = tlook (last ts prev) p.
Proof.
  induction ts as [|t ts IH]; intros prev k f G D A M.
  - exists f. split; [reflexivity|exact A].
  - simpl in G. apply andb_true_iff in G as [G1 G2].
    destruct (incremental_exact prev t k f G1 D A M) as (u' & E & A' & M' & _ & _ & D').
    destruct (IH t (N.succ k) (ufs u') G2 D' A') as (f' & E' & A'').
    { rewrite M'. discriminate. }
    exists f'. split.
    + simpl. rewrite E. exact E'.
    + intros p NM. rewrite A'' by exact NM. rewrite last_cons. reflexivity.
Qed.
