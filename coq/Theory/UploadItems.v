(* Theory/UploadItems.v -- C43, part 4: the kind-change, addition and
   modification phases are point-wise updates of the remote. *)
From Coq Require Import NArith List Bool Arith Lia.
From BV Require Import Lib.Bytes Lib.FS43 Model.Upload Theory.UploadMoves Theory.UploadPhases.
Import ListNotations.
Open Scope list_scope.

Definition upd_all (l : list (path * node)) (h : path -> option node) (q : path) : option node :=
  match find (fun it => path_eqb (fst it) q) l with
  | Some it => Some (snd it)
  | None => h q
  end.

Definition upd1 (p : path) (n : node) (h : path -> option node) (q : path) : option node :=
  if path_eqb q p then Some n else h q.

Lemma upd_all_cons p n l h q :
  ~ In p (map fst l) ->
  upd_all l (upd1 p n h) q = upd_all ((p, n) :: l) h q.
Proof.
  intros NI. unfold upd_all. simpl. unfold upd1.
  destruct (path_eqb_spec p q) as [->|NE].
  - rewrite path_eqb_refl.
    destruct (find _ l) as [it|] eqn:F; [|reflexivity].
    exfalso. apply find_some in F as [I E]. destruct (path_eqb_spec (fst it) q) as [<-|]; [|discriminate].
    apply NI. apply in_map; exact I.
  - rewrite (path_eqb_neq q p) by congruence. reflexivity.
Qed.

Lemma upd_all_ext l h1 h2 q : h1 q = h2 q -> upd_all l h1 q = upd_all l h2 q.
Proof. intros H. unfold upd_all. destruct (find _ l); auto. Qed.

(* a command sequence whose net effect is "set p to n" *)
Definition sets (cs : list cmd) (p : path) (n : node) (u : ust) : Prop :=
  exists u', run cs u = (u', None) /\ dom_ok (ufs u') /\ pdel u' = pdel u /\
             pren u' = pren u /\ ntmp u' = ntmp u /\
             forall q, look (ufs u') q = upd1 p n (look (ufs u)) q.

Lemma parent_ne (p : path) : p <> [] -> parent p <> p.
Proof.
  intros N E. destruct (path_parent_last p N) as (x & H). rewrite E in H.
  rewrite <- (app_nil_r p) in H at 1. apply app_inv_head in H. discriminate.
Qed.

Lemma parent_ok_nil f : parent_ok f [] = true.
Proof. reflexivity. Qed.

Lemma create_sets p n u :
  dom_ok (ufs u) -> look (ufs u) p = None -> parent_ok (ufs u) p = true ->
  sets [create_cmd p n] p n u.
Proof.
  intros D L P. unfold sets. destruct n as [c x| |t]; simpl.
  - unfold t_put. rewrite P, L. simpl. eexists. split; [reflexivity|]. simpl.
    split; [apply dom_ok_set; exact D|]. repeat split; reflexivity.
  - unfold t_mkdir. rewrite P, L. simpl. eexists. split; [reflexivity|]. simpl.
    split; [apply dom_ok_set; exact D|]. repeat split; reflexivity.
  - unfold force_clear, t_stat. rewrite L. simpl. unfold t_symlink. rewrite under_app, P, L. simpl.
    eexists. split; [reflexivity|]. simpl.
    split; [apply dom_ok_set; exact D|]. repeat split; reflexivity.
Qed.

Definition del_cmd (o : node) (p : path) : cmd :=
  match o with Dir => DeleteDir p | _ => DeleteFile p end.

Lemma replace_sets p o n u :
  dom_ok (ufs u) -> p <> [] -> look (ufs u) p = Some o -> parent_ok (ufs u) p = true ->
  (o = Dir -> forall x s, look (ufs u) (p ++ x :: s) = None) ->
  sets [del_cmd o p; create_cmd p n] p n u.
Proof.
  intros D NE L P CH.
  assert (exists u1, exec_cmd (del_cmd o p) u = (u1, None) /\ ufs u1 = fs_del p (ufs u) /\
                     pdel u1 = pdel u /\ pren u1 = pren u /\ ntmp u1 = ntmp u) as (u1 & E1 & F1 & A & B & C).
  { destruct o; simpl.
    - unfold t_delete. rewrite L. simpl. eexists. split; [reflexivity|]. simpl. auto.
    - unfold t_rmdir. rewrite L. rewrite has_child_false_intro by (apply CH; reflexivity).
      simpl. eexists. split; [reflexivity|]. simpl. auto.
    - unfold t_delete. rewrite L. simpl. eexists. split; [reflexivity|]. simpl. auto. }
  destruct (create_sets p n u1) as (u' & E' & D' & A' & B' & C' & L').
  - rewrite F1. apply dom_ok_del; exact D.
  - rewrite F1, look_del, path_eqb_refl. reflexivity.
  - rewrite F1. rewrite <- P. apply parent_ok_ext. intros _.
    rewrite look_del, path_eqb_neq; [reflexivity|apply parent_ne; exact NE].
  - exists u'. split.
    + change [del_cmd o p; create_cmd p n] with ([del_cmd o p] ++ [create_cmd p n]).
      eapply run_app_ok; [|exact E']. simpl. rewrite E1. reflexivity.
    + split; [exact D'|]. split; [congruence|]. split; [congruence|]. split; [congruence|].
      intros q. rewrite L', F1. unfold upd1. rewrite look_del.
      destruct (path_eqb q p); reflexivity.
Qed.

Lemma mem_In p l : existsb (path_eqb p) l = true <-> In p l.
Proof.
  rewrite existsb_exists. split.
  - intros (x & I & E). destruct (path_eqb_spec p x) as [->|]; [exact I|discriminate].
  - intros I. exists p. split; [exact I|apply path_eqb_refl].
Qed.

(* ---------- kind changes ---------- *)
Definition kc_cmds (c : change) : list cmd :=
  [del_cmd (enode (c_old c)) (epath (c_new c)); create_cmd (epath (c_new c)) (enode (c_new c))].
Definition kc_item (c : change) : path * node := (epath (c_new c), enode (c_new c)).

Lemma cmds_kind_changed_noign new l :
  tign new = [] -> cmds_kind_changed new l = flat_map kc_cmds l.
Proof.
  intros H. unfold cmds_kind_changed. apply flat_map_ext. intros c.
  rewrite is_ignored_nil by exact H. unfold kc_cmds, del_cmd. destruct (enode (c_old c)); reflexivity.
Qed.

Lemma kc_item_In c l : In c l -> In (epath (c_new c)) (map fst (map kc_item l)).
Proof. intros I. rewrite map_map. apply in_map_iff. exists c. split; [reflexivity|exact I]. Qed.

Definition kc_pre (f : fs) (c : change) : Prop :=
  let p := epath (c_new c) in
  p <> [] /\
  look f p = Some (enode (c_old c)) /\
  parent_ok f p = true /\
  (enode (c_old c) = Dir -> forall x s, look f (p ++ x :: s) = None).

Lemma phase_kc : forall l u,
  dom_ok (ufs u) ->
  NoDup (map fst (map kc_item l)) ->
  (forall c, In c l -> kc_pre (ufs u) c) ->
  exists u', run (flat_map kc_cmds l) u = (u', None) /\ dom_ok (ufs u') /\
             pdel u' = pdel u /\ pren u' = pren u /\ ntmp u' = ntmp u /\
             forall q, look (ufs u') q = upd_all (map kc_item l) (look (ufs u)) q.
Proof.
  induction l as [|c l IH]; intros u D ND H.
  - exists u. repeat split; auto.
  - destruct (H c (or_introl eq_refl)) as (NE & L & P & CH).
    set (p := epath (c_new c)) in *.
    destruct (replace_sets p (enode (c_old c)) (enode (c_new c)) u D NE L P CH)
      as (u1 & E1 & D1 & A1 & B1 & C1 & L1).
    simpl in ND. inversion ND as [|? ? NI ND']; subst.
    destruct (IH u1 D1 ND') as (u' & E' & D' & A' & B' & C' & L').
    { intros c' I. destruct (H c' (or_intror I)) as (NE' & L0 & P0 & CH0).
      set (p' := epath (c_new c')) in *.
      assert (p' <> p) as NPP.
      { intros E. apply NI. fold p. rewrite <- E. apply kc_item_In; exact I. }
      unfold kc_pre. fold p'. split; [exact NE'|]. split.
      - rewrite L1. unfold upd1. rewrite path_eqb_neq by exact NPP. exact L0.
      - split.
        + rewrite <- P0. apply parent_ok_ext. intros PN. rewrite L1. unfold upd1.
          destruct (path_eqb_spec (parent p') p) as [E|_]; [|reflexivity].
          exfalso. destruct (path_parent_last p' NE') as (x & Ex). rewrite E in Ex.
          destruct (enode (c_old c)) eqn:EO.
          * unfold parent_ok in P0. rewrite E in P0. destruct p; [congruence|].
            rewrite L in P0. discriminate.
          * specialize (CH eq_refl x []). rewrite <- Ex, L0 in CH. discriminate.
          * unfold parent_ok in P0. rewrite E in P0. destruct p; [congruence|].
            rewrite L in P0. discriminate.
        + intros ED x s. rewrite L1. unfold upd1.
          destruct (path_eqb_spec (p' ++ x :: s) p) as [E|_]; [|apply CH0; exact ED].
          exfalso. specialize (CH0 ED x s). rewrite E, L in CH0. discriminate. }
    exists u'. split.
    + simpl flat_map. unfold kc_cmds at 1. fold p.
      change (?a :: ?b :: ?r) with ([a; b] ++ r).
      eapply run_app_ok; [exact E1|exact E'].
    + split; [exact D'|]. split; [congruence|]. split; [congruence|]. split; [congruence|].
      intros q. rewrite L'. rewrite (upd_all_ext _ _ _ _ (L1 q)).
      apply upd_all_cons. exact NI.
Qed.

(* ---------- additions ---------- *)
Definition add_item (e : entry) : path * node := (epath e, enode e).

Lemma cmds_added_noign new l :
  tign new = [] -> cmds_added new l = map (fun e => create_cmd (epath e) (enode e)) l.
Proof.
  intros H. unfold cmds_added. apply flat_map_single. intros e. apply is_ignored_nil; exact H.
Qed.

Section AddGen.
(* generic in the creating command: [create_cmd] for the incremental upload,
   the *_robustly variants for the full upload *)
Variable mk : path -> node -> cmd.
Variable lk : path -> node -> Prop.
Hypothesis mk_sets : forall p n u,
  dom_ok (ufs u) -> look (ufs u) p = None -> parent_ok (ufs u) p = true -> lk p n ->
  sets [mk p n] p n u.

Definition add_pre (f : fs) (l : list entry) (e : entry) : Prop :=
  look f (epath e) = None /\ epath e <> [] /\
  (parent_ok f (epath e) = true \/
   exists e', In e' l /\ epath e' = parent (epath e) /\ enode e' = Dir) /\
  lk (epath e) (enode e).

Lemma phase_add_gen : forall l u,
  dom_ok (ufs u) ->
  pf_okb (map epath l) = true ->
  (forall e, In e l -> add_pre (ufs u) l e) ->
  exists u', run (map (fun e => mk (epath e) (enode e)) l) u = (u', None) /\ dom_ok (ufs u') /\
             pdel u' = pdel u /\ pren u' = pren u /\ ntmp u' = ntmp u /\
             forall q, look (ufs u') q = upd_all (map add_item l) (look (ufs u)) q.
Proof.
  induction l as [|e l IH]; intros u D PF H.
  - exists u. repeat split; auto.
  - destruct (H e (or_introl eq_refl)) as (L & NE & PA & LK).
    simpl in PF. apply andb_true_iff in PF as [PF1 PF2].
    assert (NoDup (map epath (e :: l))) as ND
      by (apply pf_okb_NoDup; simpl; rewrite PF1, PF2; reflexivity).
    inversion ND as [|? ? NI ND']; subst.
    assert (parent_ok (ufs u) (epath e) = true) as P.
    { destruct PA as [P|(e' & I & EP & _)]; [exact P|exfalso].
      destruct I as [<-|I].
      - symmetry in EP. exact (parent_ne _ NE EP).
      - rewrite forallb_forall in PF1. specialize (PF1 (epath e') (in_map _ _ _ I)).
        rewrite EP in PF1. destruct (parent_prefix (epath e)) as (t & Et).
        rewrite Et in PF1 at 2. rewrite prefixb_app in PF1. discriminate. }
    destruct (mk_sets (epath e) (enode e) u D L P LK) as (u1 & E1 & D1 & A1 & B1 & C1 & L1).
    destruct (IH u1 D1 PF2) as (u' & E' & D' & A' & B' & C' & L').
    { intros e2 I. destruct (H e2 (or_intror I)) as (L2 & NE2 & PA2 & LK2).
      assert (epath e2 <> epath e) as NPP by (intros E; apply NI; rewrite <- E; apply in_map; exact I).
      split; [|split; [exact NE2|split; [|exact LK2]]].
      - rewrite L1. unfold upd1. rewrite path_eqb_neq by exact NPP. exact L2.
      - destruct PA2 as [P2|(e' & [<-|I'] & EP & ED)].
        + left. rewrite <- P2. apply parent_ok_ext. intros PN. rewrite L1. unfold upd1.
          destruct (path_eqb_spec (parent (epath e2)) (epath e)) as [E|_]; [|reflexivity].
          exfalso. unfold parent_ok in P2. rewrite E in P2. destruct (epath e); [congruence|].
          rewrite L in P2. discriminate.
        + left. unfold parent_ok. rewrite <- EP. destruct (epath e); [reflexivity|].
          rewrite L1. unfold upd1. rewrite path_eqb_refl, ED. reflexivity.
        + right. exists e'. auto. }
    exists u'. split.
    + simpl map. change (?a :: ?r) with ([a] ++ r).
      eapply run_app_ok; [exact E1|exact E'].
    + split; [exact D'|]. split; [congruence|]. split; [congruence|]. split; [congruence|].
      intros q. rewrite L'. rewrite (upd_all_ext _ _ _ _ (L1 q)).
      apply (upd_all_cons (epath e) (enode e)). unfold add_item. rewrite map_map. exact NI.
Qed.
End AddGen.

Definition no_cond (p : path) (n : node) : Prop := True.

Definition phase_add :=
  phase_add_gen create_cmd no_cond
    (fun p n u D L P _ => create_sets p n u D L P).

(* ---------- modifications ---------- *)
Definition mod_cmd (c : change) : cmd :=
  match enode (c_new c) with
  | File cc x => UploadFile (epath (c_new c)) cc x
  | Link t => SymlinkRobust (epath (c_new c)) t
  | Dir => Raise NotImplemented
  end.

Lemma cmds_modified_noign new l : tign new = [] -> cmds_modified new l = map mod_cmd l.
Proof.
  intros H. unfold cmds_modified. apply flat_map_single. intros c. apply is_ignored_nil; exact H.
Qed.

Lemma exec_symlink_robust p t u f1 :
  force_clear true p (ufs u) = (f1, None) ->
  exec_cmd (SymlinkRobust p t) u =
  with_fs (mkust f1 (pdel u) (pren u) (ntmp u)) (t_symlink (parent p ++ [t]) p f1).
Proof. intros H. unfold exec_cmd. rewrite H. reflexivity. Qed.

Lemma relink_sets p t cur u :
  dom_ok (ufs u) -> p <> [] -> look (ufs u) p = Some cur -> cur <> Dir ->
  parent_ok (ufs u) p = true ->
  sets [SymlinkRobust p t] p (Link t) u.
Proof.
  intros D NE L ND P.
  assert (force_clear true p (ufs u) = (fs_del p (ufs u), None)) as FC.
  { unfold force_clear, t_stat. rewrite L. unfold t_delete. rewrite L.
    destruct cur; try congruence; reflexivity. }
  assert (parent_ok (fs_del p (ufs u)) p = true) as P'.
  { rewrite <- P. apply parent_ok_ext. intros _.
    rewrite look_del, path_eqb_neq; [reflexivity|apply parent_ne; exact NE]. }
  unfold sets. cbn [run]. rewrite (exec_symlink_robust _ _ _ _ FC).
  unfold t_symlink. rewrite under_app, P'. simpl. rewrite path_eqb_refl. simpl.
  eexists. split; [reflexivity|]. simpl.
  split; [apply dom_ok_set; apply dom_ok_del; exact D|].
  repeat split; try reflexivity.
  intros q. unfold upd1. destruct (path_eqb q p); reflexivity.
Qed.

(* the new node is a file or a symlink; whatever is there is not a directory *)
Definition mod_pre (f : fs) (c : change) : Prop :=
  enode (c_new c) <> Dir /\ epath (c_new c) <> [] /\
  (exists cur, look f (epath (c_new c)) = Some cur /\ cur <> Dir) /\
  parent_ok f (epath (c_new c)) = true.

Lemma phase_mod : forall l u,
  dom_ok (ufs u) ->
  NoDup (map fst (map kc_item l)) ->
  (forall c, In c l -> mod_pre (ufs u) c) ->
  exists u', run (map mod_cmd l) u = (u', None) /\ dom_ok (ufs u') /\
             pdel u' = pdel u /\ pren u' = pren u /\ ntmp u' = ntmp u /\
             forall q, look (ufs u') q = upd_all (map kc_item l) (look (ufs u)) q.
Proof.
  induction l as [|c l IH]; intros u D ND H.
  - exists u. repeat split; auto.
  - destruct (H c (or_introl eq_refl)) as (EN & NE & (cur & L & ND0) & P).
    set (p := epath (c_new c)) in *.
    simpl in ND. inversion ND as [|? ? NI ND']; subst.
    assert (exists u1, exec_cmd (mod_cmd c) u = (u1, None) /\ dom_ok (ufs u1) /\
                       pdel u1 = pdel u /\ pren u1 = pren u /\ ntmp u1 = ntmp u /\
                       forall q, look (ufs u1) q = upd1 p (enode (c_new c)) (look (ufs u)) q)
      as (u1 & E1 & D1 & A1 & B1 & C1 & L1).
    { unfold mod_cmd. fold p. destruct (enode (c_new c)) as [cc x| |t]; [|congruence|].
      - simpl. unfold t_put. rewrite P, L. simpl.
        eexists. split; [destruct cur; try congruence; reflexivity|]. simpl.
        split; [apply dom_ok_set; exact D|]. repeat split; reflexivity.
      - destruct (relink_sets p t cur u D NE L ND0 P) as (u1 & R1 & X).
        exists u1. split; [|exact X]. cbn [run] in R1.
        destruct (exec_cmd (SymlinkRobust p t) u) as [u2 [e|]]; [discriminate|]. exact R1. }
    destruct (IH u1 D1 ND') as (u' & E' & D' & A' & B' & C' & L').
    { intros c' I. destruct (H c' (or_intror I)) as (EN' & NE' & (cur' & L0 & ND1) & P0).
      set (p' := epath (c_new c')) in *.
      assert (p' <> p) as NPP.
      { intros E. apply NI. fold p. rewrite <- E. apply kc_item_In; exact I. }
      split; [exact EN'|]. split; [exact NE'|]. split.
      - exists cur'. fold p'. rewrite L1. unfold upd1. rewrite path_eqb_neq by exact NPP. auto.
      - fold p'. rewrite <- P0. apply parent_ok_ext. intros PN. rewrite L1. unfold upd1.
        destruct (path_eqb_spec (parent p') p) as [E|_]; [|reflexivity].
        exfalso. unfold parent_ok in P0. rewrite E in P0. destruct p; [congruence|].
        rewrite L in P0. destruct cur; try congruence; discriminate. }
    exists u'. split.
    + simpl. rewrite E1. exact E'.
    + split; [exact D'|]. split; [congruence|]. split; [congruence|]. split; [congruence|].
      intros q. rewrite L'. rewrite (upd_all_ext _ _ _ _ (L1 q)).
      apply upd_all_cons. exact NI.
Qed.
