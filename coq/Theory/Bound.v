(* Theory/Bound.v -- proofs about Model/Bound.v (C23).
   Single-step facts hold for every state; the reachability invariants are
   proved by induction over arbitrary operation sequences. *)
From Coq Require Import List Arith Bool Lia.
From BV Require Import Lib.Dag Theory.DagFacts Model.BranchUpdate Theory.BranchUpdate Model.Bound.
Import ListNotations.

(* ---- small list facts ----------------------------------------------------- *)

Lemma nth_upd_same {A} (f : A -> A) : forall l i c,
  nth_error l i = Some c -> nth_error (upd_nth i f l) i = Some (f c).
Proof.
  induction l as [|x l IH]; intros [|i] c H; cbn in *; try discriminate.
  - injection H as ->. reflexivity.
  - apply IH. exact H.
Qed.

Lemma nth_upd_other {A} (f : A -> A) : forall l i j,
  j <> i -> nth_error (upd_nth i f l) j = nth_error l j.
Proof.
  induction l as [|x l IH]; intros [|i] [|j] H; cbn; try reflexivity.
  - contradiction.
  - apply IH. intros ->. apply H. reflexivity.
Qed.

Lemma Forall_upd_nth {A} (P : A -> Prop) (f : A -> A) : forall l i,
  Forall P l -> (forall x, P x -> P (f x)) -> Forall P (upd_nth i f l).
Proof.
  induction l as [|x l IH]; intros [|i] H Hf; cbn; try constructor;
    inversion H; subst; auto.
Qed.

Lemma Forall_nth {A} (P : A -> Prop) l i c : Forall P l -> nth_error l i = Some c -> P c.
Proof. intros H Hn. rewrite Forall_forall in H. apply H. eapply nth_error_In. exact Hn. Qed.

Lemma opt_eqb_spec a b : opt_eqb a b = true <-> a = b.
Proof.
  destruct a as [x|], b as [y|]; cbn; split; intros H; try discriminate; try reflexivity.
  - apply Nat.eqb_eq in H. subst. reflexivity.
  - injection H as ->. apply Nat.eqb_refl.
Qed.

Lemma opt_eqb_false a b : opt_eqb a b = false <-> a <> b.
Proof.
  destruct (opt_eqb a b) eqn:E; split; intros H; try discriminate; try reflexivity.
  - exfalso. apply H. apply opt_eqb_spec. exact E.
  - intros ->. assert (X : opt_eqb b b = true) by (apply opt_eqb_spec; reflexivity). congruence.
Qed.

Lemma branch_eta b : mkB (tip b) (revno b) = b.
Proof. destruct b; reflexivity. Qed.

(* ---- tree parents ----------------------------------------------------------- *)

Lemma filter_rest_incl h : forall rest acc x, In x (filter_rest h acc rest) -> In x rest.
Proof.
  induction rest as [|p rest IH]; intros acc x H; cbn in *; [exact H|].
  destruct (memb p h && negb (memb p acc)).
  - destruct H as [->|H]; [left; reflexivity | right; eapply IH; exact H].
  - right. eapply IH. exact H.
Qed.

Lemma filter_parents_incl g ps x : In x (filter_parents g ps) -> In x ps.
Proof.
  destruct ps as [|p rest]; cbn; [tauto|].
  intros [->|H]; [left; reflexivity | right; eapply filter_rest_incl; exact H].
Qed.

Lemma filter_parents_hd g p rest : hd_error (filter_parents g (p :: rest)) = Some p.
Proof. reflexivity. Qed.

Lemma In_tl {A} (x : A) l : In x (tl l) -> In x l.
Proof. destruct l; cbn; [tauto | right; assumption]. Qed.

(* what _update_tree leaves as parents *)
Local Opaque filter_parents.
Lemma update_tree_parents_incl g tps rev old ps x :
  update_tree_parents g tps rev old = Some ps -> In x ps ->
  In x tps \/ rev = Some x \/ old = Some x.
Proof.
  unfold update_tree_parents. destruct (opt_eqb (hd_error tps) rev).
  - destruct old as [o|]; [|intros H; injection H as <-; intros Hx; left; exact Hx].
    destruct (opt_eqb (Some o) (hd_error tps)); intros H; injection H as <-; intros Hx; [left; exact Hx|].
    apply filter_parents_incl in Hx. apply in_app_or in Hx as [Hx|[<-|[]]]; [left; exact Hx | right; right; reflexivity].
  - destruct rev as [r|]; [|discriminate]. intros H; injection H as <-. intros Hx.
    apply filter_parents_incl in Hx. destruct Hx as [<-|Hx]; [right; left; reflexivity|].
    apply in_app_or in Hx as [Hx|Hx].
    + apply In_tl in Hx. apply filter_parents_incl in Hx.
      destruct Hx as [<-|Hx]; [right; left; reflexivity|].
      left. apply In_tl. exact Hx.
    + destruct old as [o|]; cbn in Hx; [|contradiction].
      destruct Hx as [<-|[]]. right. right. reflexivity.
Qed.

Lemma update_tree_parents_hd g tps r old ps :
  update_tree_parents g tps (Some r) old = Some ps -> hd_error ps = Some r.
Proof.
  unfold update_tree_parents. destruct (opt_eqb (hd_error tps) (Some r)) eqn:E.
  - apply opt_eqb_spec in E.
    destruct old as [o|]; [|intros H; injection H as <-; exact E].
    destruct (opt_eqb (Some o) (hd_error tps)); intros H; injection H as <-; [exact E|].
    destruct tps as [|p rest]; [discriminate|]. cbn in E. injection E as ->. reflexivity.
  - intros H; injection H as <-. reflexivity.
Qed.

Lemma update_tree_parents_some g tps r old : exists ps, update_tree_parents g tps (Some r) old = Some ps.
Proof.
  unfold update_tree_parents. destruct (opt_eqb (hd_error tps) (Some r)); [|eexists; reflexivity].
  destruct old as [o|]; [|eexists; reflexivity].
  destruct (opt_eqb (Some o) (hd_error tps)); eexists; reflexivity.
Qed.

(* ---- ancestor-or-equal on optional tips --------------------------------------- *)

Definition leo (g : dag) (a b : option revid) : Prop := is_anc_opt g a b = true.

Lemma leo_refl g a : wf_dag g = true -> leo g a a.
Proof. intros W. destruct a as [x|]; cbn; [apply (is_ancestor_refl g x W) | reflexivity]. Qed.

Lemma leo_trans g a b c : wf_dag g = true -> leo g a b -> leo g b c -> leo g a c.
Proof.
  intros W. unfold leo. destruct a as [x|], b as [y|], c as [z|]; cbn; try congruence.
  apply (is_ancestor_trans g x y z W).
Qed.

Lemma leo_none g a : leo g a None -> a = None.
Proof. destruct a; cbn; [discriminate | reflexivity]. Qed.

Lemma leo_antisym g a b : wf_dag g = true -> leo g a b -> leo g b a -> a = b.
Proof.
  intros W. unfold leo. destruct a as [x|], b as [y|]; cbn; try congruence.
  intros H1 H2. f_equal. apply (is_ancestor_antisym g x y W H1 H2).
Qed.

(* a graph without ghosts *)
Definition closed (g : dag) : Prop := forall ps p, In ps g -> In p ps -> p < length g.

Lemma closed_fresh g : closed g -> fresh_next g = true.
Proof.
  intros C. unfold fresh_next. apply forallb_forall. intros ps Hps.
  apply negb_true_iff. apply memb_false. intros Hin. specialize (C ps _ Hps Hin). lia.
Qed.

Lemma closed_extend g ps : closed g -> (forall p, In p ps -> p < length g) -> closed (g ++ [ps]).
Proof.
  intros C H ps' p Hps' Hp. rewrite app_length. cbn.
  apply in_app_or in Hps' as [Hi|[<-|[]]].
  - specialize (C ps' p Hi Hp). lia.
  - specialize (H p Hp). lia.
Qed.

Lemma wf_extend_closed g ps : wf_dag g = true -> closed g ->
  (forall p, In p ps -> p < length g) -> wf_dag (g ++ [ps]) = true.
Proof.
  intros W C H. apply wf_extend; [exact W | | apply closed_fresh; exact C].
  apply forallb_forall. intros p Hp. apply orb_true_iff. left. apply Nat.ltb_lt. apply H. exact Hp.
Qed.

Lemma leo_extend g ps a b : wf_dag g = true -> closed g ->
  (forall p, In p ps -> p < length g) ->
  (forall t, b = Some t -> t < length g) ->
  leo g a b -> leo (g ++ [ps]) a b.
Proof.
  intros W C H Hb. unfold leo. destruct a as [x|], b as [y|]; cbn; try congruence.
  intros L. rewrite is_ancestor_extend; [exact L | exact W | apply wf_extend_closed; assumption
                                         | apply closed_fresh; exact C |].
  specialize (Hb y eq_refl). lia.
Qed.

(* the new revision descends from each of its parents *)
Lemma leo_new g ps o : wf_dag (g ++ [ps]) = true ->
  (o = None \/ exists p, o = Some p /\ In p ps) -> leo (g ++ [ps]) o (Some (length g)).
Proof.
  intros W' [->|[p [-> Hp]]]; [reflexivity|]. unfold leo. cbn.
  apply (is_ancestor_spec _ p (length g) W').
  eapply reach_step; [rewrite parents_new; exact Hp | apply reach_refl].
Qed.

(* ---- _update_revisions(stop_revision=None) in closed form ---------------------- *)

Lemma ur_overwrite g tgt src :
  update_revisions g tgt false src None true =
  match tip src with None => Ok tgt | Some s => Ok (mkB (Some s) (revno src)) end.
Proof. unfold update_revisions, eff_stop. destruct (tip src); reflexivity. Qed.

Lemma ur_closed g tgt src : wf_dag g = true ->
  update_revisions g tgt false src None false =
  match tip src with
  | None => Ok tgt
  | Some s => match tip tgt with
              | None => Ok (mkB (Some s) (revno src))
              | Some t => if is_ancestor g s t then Ok tgt
                          else if is_ancestor g t s then Ok (mkB (Some s) (revno src))
                          else Err DivergedBranches
              end
  end.
Proof.
  intros W. destruct (tip src) as [s|] eqn:Hs.
  - rewrite (update_shape g W tgt false src None false s Hs).
    destruct (tip tgt) as [t|]; [|reflexivity].
    destruct (is_ancestor g s t); [reflexivity|]. destruct (is_ancestor g t s); reflexivity.
  - unfold update_revisions, eff_stop. rewrite Hs. reflexivity.
Qed.

(* a successful pull step: unchanged (the target contains the source) or moved to the source *)
Lemma ur_ok g tgt src b' : wf_dag g = true ->
  update_revisions g tgt false src None false = Ok b' ->
  (b' = tgt /\ leo g (tip src) (tip tgt)) \/
  (b' = mkB (tip src) (revno src) /\ tip src <> None /\ leo g (tip tgt) (tip src)).
Proof.
  intros W. rewrite (ur_closed g tgt src W). unfold leo.
  destruct (tip src) as [s|]; [|intros H; injection H as <-; left; split; reflexivity].
  destruct (tip tgt) as [t|]; cbn.
  - destruct (is_ancestor g s t) eqn:E1; [intros H; injection H as <-; left; split; reflexivity|].
    destruct (is_ancestor g t s) eqn:E2; [|discriminate].
    intros H; injection H as <-. right. split; [reflexivity | split; [discriminate | reflexivity]].
  - intros H; injection H as <-. right. split; [reflexivity | split; [discriminate | reflexivity]].
Qed.

(* the tip a pull step produces depends only on the tips *)
Lemma ur_tip_congr g a b src a' : wf_dag g = true -> tip a = tip b ->
  update_revisions g a false src None false = Ok a' ->
  exists b', update_revisions g b false src None false = Ok b' /\ tip b' = tip a'.
Proof.
  intros W E. rewrite !(ur_closed g _ src W). rewrite <- E.
  destruct (tip src) as [s|].
  - destruct (tip a) as [t|] eqn:Ha.
    + destruct (is_ancestor g s t).
      * intros H; injection H as <-. exists b. split; [reflexivity | congruence].
      * destruct (is_ancestor g t s); [|discriminate].
        intros H; injection H as <-. eexists; split; reflexivity.
    + intros H; injection H as <-. eexists; split; reflexivity.
  - intros H; injection H as <-. exists b. split; [reflexivity | congruence].
Qed.

(* ---- the same with a stop revision (pull -r) ----------------------------------------- *)

Lemma proceed_form g tgt src stop s :
  proceed g tgt false src stop s =
  match stop_revno g tgt src stop s with
  | None => Err GhostRevisionsHaveNoRevno
  | Some n => Ok (mkB (Some s) n)
  end.
Proof. unfold proceed. destruct (stop_revno g tgt src stop s); reflexivity. Qed.

Lemma urs_closed g tgt src stop : wf_dag g = true ->
  update_revisions g tgt false src stop false =
  match eff_stop src stop with
  | None => Ok tgt
  | Some s => match tip tgt with
              | None => proceed g tgt false src stop s
              | Some t => if is_ancestor g s t then Ok tgt
                          else if is_ancestor g t s then proceed g tgt false src stop s
                          else Err DivergedBranches
              end
  end.
Proof.
  intros W. destruct (eff_stop src stop) as [s|] eqn:Hs.
  - rewrite (update_shape g W tgt false src stop false s Hs). reflexivity.
  - unfold update_revisions. rewrite Hs. reflexivity.
Qed.

(* a successful step: unchanged (the target contains the requested revision) or moved onto it *)
Lemma urs_ok g tgt src stop b' : wf_dag g = true ->
  update_revisions g tgt false src stop false = Ok b' ->
  (b' = tgt /\ leo g (eff_stop src stop) (tip tgt)) \/
  (tip b' = eff_stop src stop /\ eff_stop src stop <> None /\ leo g (tip tgt) (eff_stop src stop)).
Proof.
  intros W. rewrite (urs_closed g tgt src stop W). unfold leo.
  destruct (eff_stop src stop) as [s|]; [|intros H; injection H as <-; left; split; reflexivity].
  rewrite proceed_form.
  destruct (tip tgt) as [t|]; cbn.
  - destruct (is_ancestor g s t) eqn:E1; [intros H; injection H as <-; left; split; reflexivity|].
    destruct (is_ancestor g t s) eqn:E2; [|discriminate].
    destruct (stop_revno g tgt src stop s); [|discriminate].
    intros H; injection H as <-. right. split; [reflexivity | split; [discriminate | reflexivity]].
  - destruct (stop_revno g tgt src stop s); [|discriminate].
    intros H; injection H as <-. right. split; [reflexivity | split; [discriminate | reflexivity]].
Qed.

(* the target already contains the requested revision: unchanged *)
Lemma urs_contained g tgt src stop : wf_dag g = true ->
  leo g (eff_stop src stop) (tip tgt) -> update_revisions g tgt false src stop false = Ok tgt.
Proof.
  intros W. rewrite (urs_closed g tgt src stop W). unfold leo.
  destruct (eff_stop src stop) as [s|]; [|reflexivity].
  destruct (tip tgt) as [t|]; cbn; [|discriminate]. intros ->. reflexivity.
Qed.

(* whether a revno can be computed does not depend on the revno recorded for a known tip *)
Lemma lookup_none_app r k1 k2 : lookup r (k1 ++ k2) = None <-> lookup r k1 = None /\ lookup r k2 = None.
Proof.
  induction k1 as [|[k n] k1 IH]; cbn; [tauto|].
  destruct (k =? r); [|exact IH]. split; [discriminate | intros [H _]; discriminate].
Qed.

Lemma distance_known_none_congr g k1 k2 :
  (forall r, lookup r k1 = None <-> lookup r k2 = None) ->
  forall f r, distance_known_fuel g k1 f r = None <-> distance_known_fuel g k2 f r = None.
Proof.
  intros K. induction f as [|f IH]; intros r; cbn [distance_known_fuel]; [tauto|].
  destruct (lookup r k1) as [n1|] eqn:E1, (lookup r k2) as [n2|] eqn:E2.
  - split; discriminate.
  - exfalso. apply K in E2. congruence.
  - exfalso. apply K in E1. congruence.
  - destruct (present g r); [|split; reflexivity].
    destruct (parents g r) as [|p ps]; [split; discriminate|].
    specialize (IH p).
    destruct (distance_known_fuel g k1 f p), (distance_known_fuel g k2 f p); cbn; split; intros H;
      try discriminate; try reflexivity; exfalso; destruct IH as [I1 I2];
      [specialize (I2 eq_refl) | specialize (I1 eq_refl)]; discriminate.
Qed.

Lemma known_of_keys (a b : branch) : tip a = tip b -> forall r, lookup r (known_of a) = None <-> lookup r (known_of b) = None.
Proof.
  intros E r. unfold known_of. rewrite <- E. destruct (tip a) as [t|]; cbn; [|tauto].
  destruct (t =? r); [split; discriminate | tauto].
Qed.

Lemma stop_revno_none_congr g a b src stop s : tip a = tip b ->
  stop_revno g a src stop s = None <-> stop_revno g b src stop s = None.
Proof.
  intros E. unfold stop_revno. destruct stop as [st|]; [|tauto]. unfold distance_known.
  apply distance_known_none_congr. intros x. rewrite !lookup_none_app.
  pose proof (known_of_keys a b E x). tauto.
Qed.

(* the tip a pull step produces depends only on the tips *)
Lemma urs_tip_congr g a b src stop a' : wf_dag g = true -> tip a = tip b ->
  update_revisions g a false src stop false = Ok a' ->
  exists b', update_revisions g b false src stop false = Ok b' /\ tip b' = tip a'.
Proof.
  intros W E. rewrite !(urs_closed g _ src stop W). rewrite <- E.
  destruct (eff_stop src stop) as [s|]; [|intros H; injection H as <-; exists b; split; [reflexivity | congruence]].
  rewrite !proceed_form.
  assert (P : forall a', match stop_revno g a src stop s with
                         | None => Err GhostRevisionsHaveNoRevno | Some n => Ok (mkB (Some s) n) end = Ok a' ->
              exists b', match stop_revno g b src stop s with
                         | None => Err GhostRevisionsHaveNoRevno | Some n => Ok (mkB (Some s) n) end = Ok b'
                         /\ tip b' = tip a').
  { intros x. pose proof (stop_revno_none_congr g a b src stop s E) as C.
    destruct (stop_revno g a src stop s) as [n|]; [|discriminate].
    destruct (stop_revno g b src stop s) as [n'|].
    - intros H; injection H as <-. eexists. split; reflexivity.
    - exfalso. destruct C as [_ C]. specialize (C eq_refl). discriminate. }
  destruct (tip a) as [t|] eqn:Ha.
  - destruct (is_ancestor g s t).
    + intros H; injection H as <-. exists b. split; [reflexivity | congruence].
    + destruct (is_ancestor g t s); [apply P | discriminate].
  - apply P.
Qed.

(* the requested revision of a pull is on the source's left-hand history *)
Lemma In_last {A} (l : list A) d : l <> [] -> In (last l d) l.
Proof.
  induction l as [|x l IH]; [contradiction|]. intros _. destruct l as [|y l]; [left; reflexivity|].
  right. apply IH. discriminate.
Qed.

Lemma eff_stop_back g sb back : wf_dag g = true ->
  leo g (eff_stop sb (stop_back g sb back)) (tip sb) /\
  (tip sb = None -> eff_stop sb (stop_back g sb back) = None).
Proof.
  intros W. unfold stop_back, eff_stop. destruct back as [k|]; [|split; [apply leo_refl; exact W | tauto]].
  destruct (tip sb) as [t|] eqn:Ht; [|split; [reflexivity | tauto]].
  split; [|discriminate]. unfold leo, is_anc_opt.
  apply (is_ancestor_spec g _ t W). apply lefthand_reach.
  destruct (lefthand_head g t) as [l Hl].
  destruct (Nat.lt_ge_cases k (length (lefthand g t))) as [L|G].
  - apply nth_In. exact L.
  - rewrite nth_overflow by exact G. apply In_last. rewrite Hl. discriminate.
Qed.

(* ---- commit: single-step facts (any state) ------------------------------------ *)

Definition new_branch (s : sys) (ref : branch) : branch := mkB (Some (length (graph s))) (S (revno ref)).

(* the write list of a bound, non-local commit: master, then local, then tree *)
Theorem bound_commit_plan s i c ws :
  is_bound c = true -> commit_plan s i c false = inr ws ->
  ws = [WMaster (new_branch s (mbranch s)); WLocal i (new_branch s (mbranch s)); WTree i [length (graph s)]]
  /\ tip (lbranch c) = tip (mbranch s)
  /\ (tip (mbranch s) = None \/ hd_error (tparents c) = tip (mbranch s)).
Proof.
  intros B. unfold commit_plan. rewrite B. cbn [negb andb].
  assert (Hh : heavy c = true) by (unfold is_bound in B; apply andb_true_iff in B; tauto).
  unfold branch_of, wbranch. rewrite Hh.
  destruct (opt_eqb (tip (lbranch c)) (tip (mbranch s))) eqn:E1; cbn [negb]; [|discriminate].
  destruct (opt_eqb (tip (mbranch s)) (hd_error (tparents c))) eqn:E2; cbn [negb andb].
  - intros H; injection H as <-. split; [reflexivity|]. split; [apply opt_eqb_spec; exact E1|].
    right. symmetry. apply opt_eqb_spec. exact E2.
  - destruct (tip (mbranch s)) eqn:Et; cbn [is_some]; [discriminate|].
    intros H; injection H as <-. split; [reflexivity|]. split; [apply opt_eqb_spec; exact E1 | left; reflexivity].
Qed.

(* C23_bound_commit_both *)
Theorem bound_commit_both s i c s' :
  nth_error (cos s) i = Some c -> is_bound c = true ->
  commit s i false None = (Done, s') ->
  let nb := new_branch s (mbranch s) in
  graph s' = graph s ++ [tparents c] /\
  mbranch s' = nb /\
  nth_error (cos s') i = Some (mkC (heavy c) nb (bound c) [length (graph s)]) /\
  (forall j, j <> i -> nth_error (cos s') j = nth_error (cos s) j).
Proof.
  intros Hc B. unfold commit. rewrite Hc.
  destruct (commit_plan s i c false) as [e|ws] eqn:P; [discriminate|].
  destruct (bound_commit_plan s i c ws B P) as [-> _].
  intros H; injection H as <-. cbn.
  split; [reflexivity|]. split; [reflexivity|]. split.
  - rewrite (nth_upd_same _ _ _ _ (nth_upd_same _ _ _ _ Hc)). reflexivity.
  - intros j Hj. rewrite !nth_upd_other by exact Hj. reflexivity.
Qed.

(* C23_refused_when_master_moved *)
Theorem refused_when_master_moved s i c f :
  nth_error (cos s) i = Some c -> is_bound c = true ->
  tip (lbranch c) <> tip (mbranch s) ->
  commit s i false f = (Fail BoundBranchOutOfDate, s).
Proof.
  intros Hc B Hne. unfold commit. rewrite Hc. unfold commit_plan. rewrite B. cbn [negb andb].
  assert (Hh : heavy c = true) by (unfold is_bound in B; apply andb_true_iff in B; tauto).
  unfold branch_of. rewrite Hh. apply opt_eqb_false in Hne. rewrite Hne. reflexivity.
Qed.

(* the reference branch has a tip the tree is not based on: OutOfDateTree *)
Theorem stale_tree_refused s i c loc f t :
  nth_error (cos s) i = Some c ->
  (loc = true -> is_bound c = true) ->
  (loc = false -> is_bound c = true -> tip (lbranch c) = tip (mbranch s)) ->
  tip (if negb loc && is_bound c then mbranch s else branch_of s c) = Some t ->
  hd_error (tparents c) <> Some t ->
  commit s i loc f = (Fail OutOfDateTree, s).
Proof.
  intros Hc Hl Hb Ht Hne. unfold commit. rewrite Hc. unfold commit_plan.
  destruct loc.
  - rewrite (Hl eq_refl). cbn [negb andb] in *. rewrite Ht.
    assert (X : opt_eqb (Some t) (hd_error (tparents c)) = false)
      by (apply opt_eqb_false; congruence).
    rewrite X. reflexivity.
  - cbn [negb andb] in *. destruct (is_bound c) eqn:B.
    + assert (Hh : heavy c = true) by (unfold is_bound in B; apply andb_true_iff in B; tauto).
      unfold branch_of. rewrite Hh. rewrite (Hb eq_refl eq_refl).
      assert (Y : opt_eqb (tip (mbranch s)) (tip (mbranch s)) = true) by (apply opt_eqb_spec; reflexivity).
      rewrite Y. cbn [negb]. rewrite Ht.
      assert (X : opt_eqb (Some t) (hd_error (tparents c)) = false)
        by (apply opt_eqb_false; congruence).
      rewrite X. reflexivity.
    + rewrite Ht.
      assert (X : opt_eqb (Some t) (hd_error (tparents c)) = false)
        by (apply opt_eqb_false; congruence).
      rewrite X. reflexivity.
Qed.

(* any refusal (an error other than the injected fault) leaves the state unchanged *)
Theorem refusal_unchanged s i loc f e s' :
  commit s i loc f = (Fail e, s') -> e <> InjectedFault -> s' = s.
Proof.
  unfold commit. destruct (nth_error (cos s) i) as [c|]; [|intros H; injection H as _ <-; reflexivity].
  destruct (commit_plan s i c loc) as [e'|ws]; [intros H; injection H as _ <-; reflexivity|].
  destruct f as [k|]; [|discriminate].
  destruct (k <? length ws); [|discriminate].
  intros H; injection H as <- _. intros X. contradiction X. reflexivity.
Qed.

(* C23_master_first: a bound commit interrupted before its k-th write *)
Theorem master_first s i c k o s' :
  nth_error (cos s) i = Some c -> is_bound c = true ->
  commit s i false (Some k) = (o, s') ->
  let new := length (graph s) in
  exists c', nth_error (cos s') i = Some c' /\
    (tip (mbranch s') = tip (mbranch s) \/ tip (mbranch s') = Some new) /\
    (lbranch c' = lbranch c \/ (tip (lbranch c') = Some new /\ mbranch s' = lbranch c')) /\
    (tparents c' = tparents c \/ (tparents c' = [new] /\ tip (lbranch c') = Some new)) /\
    (forall j, j <> i -> nth_error (cos s') j = nth_error (cos s) j).
Proof.
  intros Hc B. unfold commit. rewrite Hc.
  destruct (commit_plan s i c false) as [e|ws] eqn:P.
  - intros H; injection H as _ <-. exists c. repeat split; auto.
  - destruct (bound_commit_plan s i c ws B P) as [-> _].
    destruct k as [|[|[|k]]]; cbn; intros H; injection H as _ <-; cbn.
    + exists c. repeat split; auto.
    + exists c. repeat split; auto.
    + eexists. split; [eapply nth_upd_same; exact Hc|]. cbn.
      split; [right; reflexivity|]. split; [right; split; reflexivity|]. split; [left; reflexivity|].
      intros j Hj. rewrite nth_upd_other by exact Hj. reflexivity.
    + eexists. split; [eapply nth_upd_same; eapply nth_upd_same; exact Hc|]. cbn.
      split; [right; reflexivity|]. split; [right; split; reflexivity|]. split; [right; split; reflexivity|].
      intros j Hj. rewrite !nth_upd_other by exact Hj. reflexivity.
Qed.

(* C23_local_commit_only_local *)
Theorem local_commit_only_local s i f o s' :
  commit s i true f = (o, s') ->
  mbranch s' = mbranch s /\
  (forall j, j <> i -> nth_error (cos s') j = nth_error (cos s) j) /\
  (o = Done -> exists c, nth_error (cos s) i = Some c /\ is_bound c = true /\
                nth_error (cos s') i = Some (mkC (heavy c) (new_branch s (lbranch c)) (bound c) [length (graph s)]) /\
                graph s' = graph s ++ [tparents c]).
Proof.
  unfold commit. destruct (nth_error (cos s) i) as [c|] eqn:Hc;
    [|intros H; injection H as <- <-; repeat split; auto; discriminate].
  unfold commit_plan. destruct (is_bound c) eqn:B; cbn [negb andb];
    [|intros H; injection H as <- <-; repeat split; auto; discriminate].
  assert (Hh : heavy c = true) by (unfold is_bound in B; apply andb_true_iff in B; tauto).
  unfold branch_of, wbranch. rewrite Hh.
  destruct (negb (opt_eqb (tip (lbranch c)) (hd_error (tparents c))) && is_some (tip (lbranch c)));
    [intros H; injection H as <- <-; repeat split; auto; discriminate|].
  cbn [app length].
  assert (Full : forall o s', (Done, apply_writes (mkS (graph s ++ [tparents c]) (mbranch s) (cos s))
             [WLocal i (mkB (Some (length (graph s))) (S (revno (lbranch c)))); WTree i [length (graph s)]]) = (o, s') ->
           mbranch s' = mbranch s /\
           (forall j, j <> i -> nth_error (cos s') j = nth_error (cos s) j) /\
           (o = Done -> exists c0, Some c = Some c0 /\ is_bound c0 = true /\
              nth_error (cos s') i = Some (mkC (heavy c0) (new_branch s (lbranch c0)) (bound c0) [length (graph s)]) /\
              graph s' = graph s ++ [tparents c0])).
  { intros o0 s0 H; injection H as <- <-. cbn. split; [reflexivity|]. split.
    - intros j Hj. rewrite !nth_upd_other by exact Hj. reflexivity.
    - intros _. exists c. split; [reflexivity|]. split; [exact B|]. split; [|reflexivity].
      rewrite (nth_upd_same _ _ _ _ (nth_upd_same _ _ _ _ Hc)). reflexivity. }
  destruct f as [k|]; [|apply Full].
  destruct k as [|[|k]]; cbn [Nat.ltb Nat.leb]; try apply Full.
  - intros H; injection H as <- <-. cbn. repeat split; auto; discriminate.
  - intros H; injection H as <- <-. cbn. split; [reflexivity|]. split; [|discriminate].
    intros j Hj. rewrite nth_upd_other by exact Hj. reflexivity.
Qed.

(* ---- update ------------------------------------------------------------------------ *)

(* C23_update_equalises (guard: the master has a tip) *)
Theorem update_equalises s i c t :
  nth_error (cos s) i = Some c -> is_bound c = true -> tip (mbranch s) = Some t ->
  exists ps,
    update s i = (Done, mkS (graph s) (mbranch s)
                          (upd_nth i (fun c => mkC (heavy c) (lbranch c) (bound c) ps)
                             (upd_nth i (fun c => mkC (heavy c) (mbranch s) (bound c) (tparents c)) (cos s))))
    /\ hd_error ps = Some t.
Proof.
  intros Hc B Ht. unfold update. rewrite Hc, B. rewrite ur_overwrite, Ht.
  cbn [tip]. destruct (update_tree_parents_some (graph s) (tparents c) t
    (if is_anc_opt (graph s) (tip (lbranch c)) (Some t) then None else tip (lbranch c))) as [ps Hps].
  rewrite Hps. exists ps. split; [|eapply update_tree_parents_hd; exact Hps].
  cbn. unfold set_co. cbn. rewrite <- Ht. rewrite branch_eta. reflexivity.
Qed.

Corollary update_equalises_obs s i c t :
  nth_error (cos s) i = Some c -> is_bound c = true -> tip (mbranch s) = Some t ->
  exists s' c', update s i = (Done, s') /\ graph s' = graph s /\ mbranch s' = mbranch s /\
    nth_error (cos s') i = Some c' /\ lbranch c' = mbranch s /\ hd_error (tparents c') = Some t /\
    bound c' = bound c /\ heavy c' = heavy c /\
    (forall j, j <> i -> nth_error (cos s') j = nth_error (cos s) j).
Proof.
  intros Hc B Ht. destruct (update_equalises s i c t Hc B Ht) as [ps [H Hh]].
  eexists. eexists. split; [exact H|]. cbn.
  split; [reflexivity|]. split; [reflexivity|].
  split; [rewrite (nth_upd_same _ _ _ _ (nth_upd_same _ _ _ _ Hc)); reflexivity|]. cbn.
  split; [reflexivity|]. split; [exact Hh|]. split; [reflexivity|]. split; [reflexivity|].
  intros j Hj. rewrite !nth_upd_other by exact Hj. reflexivity.
Qed.

(* an unbound or lightweight checkout: only the tree moves, onto the branch tip *)
Theorem update_tree_only s i c t :
  nth_error (cos s) i = Some c -> is_bound c = false -> tip (branch_of s c) = Some t ->
  exists ps, update s i = (Done, apply_write s (WTree i ps)) /\ hd_error ps = Some t.
Proof.
  intros Hc B Ht. unfold update. rewrite Hc, B, Ht.
  destruct (update_tree_parents_some (graph s) (tparents c) t None) as [ps Hps].
  rewrite Hps. exists ps. split; [reflexivity | eapply update_tree_parents_hd; exact Hps].
Qed.

(* ---- update never drops the local commits ------------------------------------------ *)

(* every member of a list of present revisions is dominated by a head of the list *)
Lemma heads_dominate g l : wf_dag g = true -> (forall y, In y l -> y < length g) ->
  forall n x, length g - x <= n -> In x l ->
  exists h, In h (heads g l) /\ is_ancestor g x h = true.
Proof.
  intros W Hl. induction n as [|n IH]; intros x Hn Hx.
  - specialize (Hl x Hx). lia.
  - destruct (dominated g l x) eqn:D.
    + unfold dominated in D. apply existsb_exists in D as [k [Hk Hc]].
      apply andb_true_iff in Hc as [H1 H2]. apply negb_true_iff in H1. apply Nat.eqb_neq in H1.
      assert (R : reach g x k) by (apply (is_ancestor_spec g x k W); exact H2).
      pose proof (Hl x Hx) as Lx.
      destruct (reach_le g x k W R) as [E|[L|G]]; [congruence | | lia].
      destruct (IH k) as [h [Hh Ha]]; [lia | exact Hk|].
      exists h. split; [exact Hh | apply (is_ancestor_trans g x k h W H2 Ha)].
    + exists x. split; [|apply (is_ancestor_refl g x W)].
      apply heads_spec. split; [exact Hx|]. apply dominated_false. exact D.
Qed.

(* set_parent_trees keeps every head *)
Lemma filter_rest_keeps hs : forall rest acc p, In p rest -> memb p hs = true ->
  In p acc \/ In p (filter_rest hs acc rest).
Proof.
  induction rest as [|q rest IH]; intros acc p Hp Hm; [contradiction|]. cbn.
  destruct Hp as [->|Hp].
  - rewrite Hm. destruct (memb p acc) eqn:E; cbn.
    + left. apply memb_In. exact E.
    + right. left. reflexivity.
  - destruct (memb q hs && negb (memb q acc)).
    + destruct (IH (q :: acc) p Hp Hm) as [[->|H]|H].
      * right. left. reflexivity.
      * left. exact H.
      * right. right. exact H.
    + apply IH; assumption.
Qed.

Local Transparent filter_parents.
Lemma filter_parents_keeps_heads g l h : In h (heads g l) -> In h (filter_parents g l).
Proof.
  intros Hh. assert (Hin : In h l) by (apply heads_spec in Hh; tauto).
  destruct l as [|p rest]; [contradiction|]. cbn [filter_parents].
  destruct Hin as [->|Hin]; [left; reflexivity|].
  destruct (filter_rest_keeps (heads g (p :: rest)) rest [p] h Hin) as [[->|[]]|H].
  - apply memb_In. exact Hh.
  - left. reflexivity.
  - right. exact H.
Qed.
Local Opaque filter_parents.

(* the parent list _update_tree sets when the branch was pivoted from o to m *)
Lemma utp_pivot g tps m o : o <> m ->
  exists L, update_tree_parents g tps (Some m) (Some o) = Some (filter_parents g L) /\
            In o L /\ (forall y, In y L -> In y tps \/ y = m \/ y = o).
Proof.
  intros Hne. assert (Hne' : (o =? m) = false) by (apply Nat.eqb_neq; exact Hne).
  unfold update_tree_parents. destruct (opt_eqb (hd_error tps) (Some m)) eqn:E.
  - apply opt_eqb_spec in E. rewrite E. cbn [opt_eqb]. rewrite Hne'.
    exists (tps ++ [o]). split; [reflexivity|]. split; [apply in_or_app; right; left; reflexivity|].
    intros y Hy. apply in_app_or in Hy as [Hy|[<-|[]]]; [left; exact Hy | right; right; reflexivity].
  - eexists. split; [reflexivity|]. split.
    + right. apply in_or_app. right. left. reflexivity.
    + intros y [<-|Hy]; [right; left; reflexivity|].
      apply in_app_or in Hy as [Hy|[<-|[]]]; [|right; right; reflexivity].
      apply In_tl in Hy. apply filter_parents_incl in Hy. destruct Hy as [<-|Hy]; [right; left; reflexivity|].
      left. apply In_tl. exact Hy.
Qed.

(* C23_update_keeps_local_work: whatever the tree was based on and whatever its pending
   merges, the pivoted-out local tip stays in the ancestry of one of the tree's parents *)
Theorem update_keeps_local_work s i c m o :
  wf_dag (graph s) = true ->
  (forall p, In p (tparents c) -> p < length (graph s)) -> m < length (graph s) -> o < length (graph s) ->
  nth_error (cos s) i = Some c -> is_bound c = true ->
  tip (mbranch s) = Some m -> tip (lbranch c) = Some o ->
  is_ancestor (graph s) o m = false ->
  exists s' c' p, update s i = (Done, s') /\ nth_error (cos s') i = Some c' /\
                  lbranch c' = mbranch s /\ In p (tparents c') /\ is_ancestor (graph s) o p = true.
Proof.
  intros W Hps Lm Lo Hc B Hm Ho Hnot.
  assert (Hne : o <> m).
  { intros ->. rewrite (is_ancestor_refl (graph s) m W) in Hnot. discriminate. }
  destruct (utp_pivot (graph s) (tparents c) m o Hne) as [L [HL [HoL Hsub]]].
  assert (HLlt : forall y, In y L -> y < length (graph s)).
  { intros y Hy. destruct (Hsub y Hy) as [H|[-> | ->]]; [apply Hps; exact H | exact Lm | exact Lo]. }
  destruct (heads_dominate (graph s) L W HLlt (length (graph s)) o) as [h [Hh Ha]]; [lia | exact HoL|].
  assert (U : update s i = (Done, apply_write (apply_write s (WLocal i (mkB (Some m) (revno (mbranch s)))))
                                              (WTree i (filter_parents (graph s) L)))).
  { unfold update. rewrite Hc, B, ur_overwrite, Hm. cbn [tip]. rewrite Ho. cbn [is_anc_opt]. rewrite Hnot. unfold revid in *.
    rewrite HL. reflexivity. }
  eexists. eexists. exists h. split; [exact U|]. cbn.
  split; [rewrite (nth_upd_same _ _ _ _ (nth_upd_same _ _ _ _ Hc)); reflexivity|]. cbn.
  split; [rewrite <- Hm; apply branch_eta|].
  split; [apply filter_parents_keeps_heads; exact Hh | exact Ha].
Qed.

(* without pending merges, and whatever the tree was based on (up to date, or left
   behind its branch by an interrupted commit), the parents are exactly [m; o] *)
Theorem update_pivots_exact s i c m o b :
  wf_dag (graph s) = true ->
  nth_error (cos s) i = Some c -> is_bound c = true ->
  tip (mbranch s) = Some m -> tip (lbranch c) = Some o -> tparents c = [b] ->
  is_ancestor (graph s) o m = false ->
  exists s' c', update s i = (Done, s') /\ nth_error (cos s') i = Some c' /\
                lbranch c' = mbranch s /\ tparents c' = [m; o].
Proof.
  intros W Hc B Hm Ho Hp Hnot.
  assert (Hne : o <> m).
  { intros ->. rewrite (is_ancestor_refl (graph s) m W) in Hnot. discriminate. }
  assert (Hne' : (o =? m) = false) by (apply Nat.eqb_neq; exact Hne).
  assert (Hh : memb o (heads (graph s) [m; o]) = true).
  { apply memb_In. apply heads_spec. split; [right; left; reflexivity|].
    intros k' [<-|[<-|[]]] Hk; [exact Hnot | contradiction Hk; reflexivity]. }
  assert (T : update_tree_parents (graph s) [b] (Some m) (Some o) = Some [m; o]).
  { unfold update_tree_parents. cbn [hd_error opt_eqb tl].
    Local Transparent filter_parents.
    destruct (b =? m) eqn:Eb.
    - apply Nat.eqb_eq in Eb. subst b. rewrite Hne'.
      cbn [app filter_parents filter_rest]. rewrite Hh. cbn [memb existsb]. rewrite Hne'. reflexivity.
    - cbn [filter_parents filter_rest tl app opt_list]. rewrite Hh. cbn [memb existsb]. rewrite Hne'. reflexivity. }
  Local Opaque filter_parents.
  unfold update. rewrite Hc, B, ur_overwrite, Hm. cbn [tip]. rewrite Ho. cbn [is_anc_opt]. rewrite Hnot, Hp, T.
  eexists. eexists. split; [reflexivity|]. cbn.
  split; [rewrite (nth_upd_same _ _ _ _ (nth_upd_same _ _ _ _ Hc)); reflexivity|]. cbn.
  split; [rewrite <- Hm; apply branch_eta | reflexivity].
Qed.

(* regression: the state an interrupted --local commit leaves (branch tip written,
   tree not); before the repair of _update_tree the old tip 1 was dropped *)
Definition stale_tree_witness : sys := run (init [false; true; false] true) [Commit 1 true (Some 1)].

(* the refutation of the unguarded statement: a --local commit in a checkout of
   an empty master, then update: the local branch stays ahead *)
Definition empty_master_witness : sys := run (init [true] false) [Commit 0 true None].

Theorem update_equalises_refuted :
  exists s i c s' c',
    s = empty_master_witness /\
    nth_error (cos s) i = Some c /\ is_bound c = true /\
    update s i = (Done, s') /\ nth_error (cos s') i = Some c' /\
    tip (lbranch c') <> tip (mbranch s').
Proof.
  eexists. exists 0. eexists. eexists. eexists.
  split; [reflexivity|]. split; [reflexivity|]. split; [reflexivity|].
  split; [reflexivity|]. split; [reflexivity|]. cbn. discriminate.
Qed.

(* ---- pull ---------------------------------------------------------------------------- *)

Lemma pull_master_unfold s i c :
  nth_error (cos s) i = Some c -> heavy c = true ->
  pull s i SMaster None =
  match update_revisions (graph s) (lbranch c) false (mbranch s) None false with
  | Err e => (Fail (BU e), s)
  | Ok l' => let s2 := apply_write s (WLocal i l') in
             if branch_eqb l' (lbranch c) then (Done, s2)
             else (Done, apply_write s2 (WTree i (filter_parents (graph s) (opt_list (tip l') ++ tl (tparents c)))))
  end.
Proof.
  intros Hc Hh. unfold pull. rewrite Hc. cbn [negb]. rewrite andb_false_r.
  unfold branch_of, wbranch. rewrite Hh. reflexivity.
Qed.

(* C23_pull_from_master: without unmerged local commits the pull equalises *)
Theorem pull_from_master_equalises s i c :
  wf_dag (graph s) = true ->
  nth_error (cos s) i = Some c -> heavy c = true ->
  leo (graph s) (tip (lbranch c)) (tip (mbranch s)) ->
  exists s' c', pull s i SMaster None = (Done, s') /\ mbranch s' = mbranch s /\
    nth_error (cos s') i = Some c' /\ tip (lbranch c') = tip (mbranch s) /\
    (forall j, j <> i -> nth_error (cos s') j = nth_error (cos s) j).
Proof.
  intros W Hc Hh L. rewrite (pull_master_unfold s i c Hc Hh).
  assert (U : exists l', update_revisions (graph s) (lbranch c) false (mbranch s) None false = Ok l'
                         /\ tip l' = tip (mbranch s)).
  { rewrite (ur_closed _ _ _ W). unfold leo in L.
    destruct (tip (mbranch s)) as [m|] eqn:Hm.
    - destruct (tip (lbranch c)) as [t|] eqn:Hl; cbn in L.
      + destruct (is_ancestor (graph s) m t) eqn:E.
        * exists (lbranch c). split; [reflexivity|]. rewrite Hl. f_equal.
          apply (is_ancestor_antisym (graph s) t m W L E).
        * rewrite L. eexists. split; reflexivity.
      + eexists. split; reflexivity.
    - exists (lbranch c). split; [reflexivity|]. apply (leo_none (graph s)). exact L. }
  destruct U as [l' [-> Hl']]. cbn zeta.
  destruct (branch_eqb l' (lbranch c)).
  - eexists. eexists. split; [reflexivity|]. cbn. split; [reflexivity|].
    split; [apply nth_upd_same; exact Hc|]. cbn. split; [exact Hl'|].
    intros j Hj. rewrite nth_upd_other by exact Hj. reflexivity.
  - eexists. eexists. split; [reflexivity|]. cbn. split; [reflexivity|].
    split; [apply nth_upd_same; apply nth_upd_same; exact Hc|]. cbn. split; [exact Hl'|].
    intros j Hj. rewrite !nth_upd_other by exact Hj. reflexivity.
Qed.

(* a successful pull from the master always leaves the master's tip in the local branch *)
Theorem pull_from_master_contains s i c s' :
  wf_dag (graph s) = true ->
  nth_error (cos s) i = Some c -> heavy c = true ->
  pull s i SMaster None = (Done, s') ->
  mbranch s' = mbranch s /\
  exists c', nth_error (cos s') i = Some c' /\ leo (graph s) (tip (mbranch s)) (tip (lbranch c')).
Proof.
  intros W Hc Hh. rewrite (pull_master_unfold s i c Hc Hh).
  destruct (update_revisions (graph s) (lbranch c) false (mbranch s) None false) as [l'|e] eqn:U; [|discriminate].
  assert (L : leo (graph s) (tip (mbranch s)) (tip l')).
  { destruct (ur_ok _ _ _ _ W U) as [[-> H]|[-> [_ H]]]; [exact H | apply leo_refl; exact W]. }
  cbn zeta. destruct (branch_eqb l' (lbranch c)); intros H; injection H as <-; cbn.
  - split; [reflexivity|]. eexists. split; [apply nth_upd_same; exact Hc | exact L].
  - split; [reflexivity|]. eexists. split; [apply nth_upd_same; apply nth_upd_same; exact Hc | exact L].
Qed.

(* diverged: DivergedBranches and nothing changes *)
Theorem pull_diverged_refused s i c t m :
  wf_dag (graph s) = true ->
  nth_error (cos s) i = Some c -> heavy c = true ->
  tip (lbranch c) = Some t -> tip (mbranch s) = Some m ->
  is_ancestor (graph s) t m = false -> is_ancestor (graph s) m t = false ->
  pull s i SMaster None = (Fail (BU DivergedBranches), s).
Proof.
  intros W Hc Hh Ht Hm E1 E2. rewrite (pull_master_unfold s i c Hc Hh).
  rewrite (ur_closed _ _ _ W), Hm, Ht, E2, E1. reflexivity.
Qed.

(* any successful pull -- any source, with or without a stop revision -- keeps an
   in-step bound checkout in step *)
Lemma pull_in_step_master_source s i c stop :
  wf_dag (graph s) = true ->
  nth_error (cos s) i = Some c -> heavy c = true ->
  tip (lbranch c) = tip (mbranch s) ->
  leo (graph s) (eff_stop (mbranch s) stop) (tip (mbranch s)) ->
  forall s',
  match update_revisions (graph s) (lbranch c) false (mbranch s) stop false with
  | Err e => (Fail (BU e), s)
  | Ok l' => let s2 := apply_write s (WLocal i l') in
             if branch_eqb l' (lbranch c) then (Done, s2)
             else (Done, apply_write s2 (WTree i (filter_parents (graph s) (opt_list (tip l') ++ tl (tparents c)))))
  end = (Done, s') ->
  exists c', nth_error (cos s') i = Some c' /\ tip (lbranch c') = tip (mbranch s').
Proof.
  intros W Hc Hh E L s'. rewrite (urs_contained _ _ _ _ W) by (rewrite E; exact L). cbn zeta.
  destruct (branch_eqb (lbranch c) (lbranch c)); intros H; injection H as <-; cbn.
  - eexists. split; [apply nth_upd_same; exact Hc | exact E].
  - eexists. split; [apply nth_upd_same; apply nth_upd_same; exact Hc | exact E].
Qed.

Theorem pull_keeps_in_step s i c sr back s' :
  wf_dag (graph s) = true ->
  nth_error (cos s) i = Some c -> is_bound c = true ->
  tip (lbranch c) = tip (mbranch s) ->
  pull s i sr back = (Done, s') ->
  exists c', nth_error (cos s') i = Some c' /\ tip (lbranch c') = tip (mbranch s').
Proof.
  intros W Hc B E.
  assert (Hh : heavy c = true) by (unfold is_bound in B; apply andb_true_iff in B; tauto).
  unfold pull. rewrite Hc, B. cbn [andb]. unfold wbranch, branch_of. rewrite Hh.
  destruct sr as [|j].
  - cbn [negb]. cbn zeta. apply (pull_in_step_master_source s i c _ W Hc Hh E).
    apply (eff_stop_back (graph s) (mbranch s) back W).
  - destruct (nth_error (cos s) j) as [cj|]; [|discriminate].
    destruct (heavy cj) eqn:Hj; cbn [negb]; cbn zeta.
    + destruct (update_revisions (graph s) (mbranch s) false (lbranch cj) _ false) as [m'|e] eqn:U; [|discriminate].
      destruct (urs_tip_congr (graph s) (mbranch s) (lbranch c) (lbranch cj) _ m' W (eq_sym E) U) as [l' [U' Hl']].
      cbn [apply_write graph]. rewrite U'. cbn zeta.
      destruct (branch_eqb l' (lbranch c)); intros H; injection H as <-; cbn.
      * eexists. split; [apply nth_upd_same; exact Hc | exact Hl'].
      * eexists. split; [apply nth_upd_same; apply nth_upd_same; exact Hc | exact Hl'].
    + apply (pull_in_step_master_source s i c _ W Hc Hh E).
      apply (eff_stop_back (graph s) (mbranch s) back W).
Qed.

(* pull -r from a third branch into an in-step bound checkout: master and local end on
   the same tip, which is the old one or the REQUESTED revision (not the source's tip) *)
Theorem pull_stop_both s i c j cj back s' :
  wf_dag (graph s) = true ->
  nth_error (cos s) i = Some c -> is_bound c = true ->
  nth_error (cos s) j = Some cj -> heavy cj = true ->
  tip (lbranch c) = tip (mbranch s) ->
  pull s i (SCo j) back = (Done, s') ->
  let e := eff_stop (lbranch cj) (stop_back (graph s) (lbranch cj) back) in
  (tip (mbranch s') = tip (mbranch s) \/ tip (mbranch s') = e) /\
  exists c', nth_error (cos s') i = Some c' /\ tip (lbranch c') = tip (mbranch s').
Proof.
  intros W Hc B Hj Hhj E P. split; [|apply (pull_keeps_in_step s i c (SCo j) back s' W Hc B E P)].
  assert (Hh : heavy c = true) by (unfold is_bound in B; apply andb_true_iff in B; tauto).
  revert P. unfold pull. rewrite Hc, B, Hj. cbn [andb]. unfold wbranch, branch_of. rewrite Hh, Hhj.
  cbn [negb]. cbn zeta.
  destruct (update_revisions (graph s) (mbranch s) false (lbranch cj) _ false) as [m'|e] eqn:U; [|discriminate].
  assert (Hm' : tip m' = tip (mbranch s) \/
                tip m' = eff_stop (lbranch cj) (stop_back (graph s) (lbranch cj) back)).
  { destruct (urs_ok _ _ _ _ _ W U) as [[-> _]|[X _]]; [left; reflexivity | right; exact X]. }
  cbn [apply_write graph].
  destruct (update_revisions (graph s) (lbranch c) false (lbranch cj) _ false) as [l'|e]; [|discriminate].
  cbn zeta. destruct (branch_eqb l' (lbranch c)); intros H; injection H as <-; cbn; exact Hm'.
Qed.

(* ---- reachable states: well-formedness ------------------------------------------------ *)

Definition tip_lt (n : nat) (b : branch) : Prop := forall t, tip b = Some t -> t < n.
Definition co_ok (n : nat) (c : checkout) : Prop :=
  tip_lt n (lbranch c) /\ (forall p, In p (tparents c) -> p < n).
Definition good (s : sys) : Prop :=
  wf_dag (graph s) = true /\ closed (graph s) /\
  tip_lt (length (graph s)) (mbranch s) /\ Forall (co_ok (length (graph s))) (cos s).

Definition write_ok (n : nat) (w : write) : Prop :=
  match w with
  | WMaster b => tip_lt n b
  | WLocal _ b => tip_lt n b
  | WTree _ ps => forall p, In p ps -> p < n
  end.

Lemma graph_apply_write s w : graph (apply_write s w) = graph s.
Proof. destruct w; reflexivity. Qed.

Lemma good_write s w : good s -> write_ok (length (graph s)) w -> good (apply_write s w).
Proof.
  intros [W [C [M F]]] Hw. unfold good. rewrite graph_apply_write.
  destruct w as [b|i b|i ps]; cbn in *.
  - repeat split; assumption.
  - repeat split; try assumption. apply Forall_upd_nth; [exact F|].
    intros x [_ Hx]. split; assumption.
  - repeat split; try assumption. apply Forall_upd_nth; [exact F|].
    intros x [Hx _]. split; assumption.
Qed.

Lemma good_writes ws : forall s, good s -> Forall (write_ok (length (graph s))) ws -> good (apply_writes s ws).
Proof.
  induction ws as [|w ws IH]; intros s G H; cbn; [exact G|].
  inversion H; subst. apply IH; [apply good_write; assumption|].
  rewrite graph_apply_write. assumption.
Qed.

Lemma Forall_firstn' {A} (P : A -> Prop) : forall k l, Forall P l -> Forall P (firstn k l).
Proof.
  induction k as [|k IH]; intros l H; cbn; [constructor|].
  destruct l as [|x l]; [constructor|]. inversion H; subst. constructor; [assumption | apply IH; assumption].
Qed.

Lemma tip_lt_mono n n' b : n <= n' -> tip_lt n b -> tip_lt n' b.
Proof. intros L H t Ht. specialize (H t Ht). lia. Qed.

Lemma co_ok_mono n n' c : n <= n' -> co_ok n c -> co_ok n' c.
Proof.
  intros L [H1 H2]. split; [eapply tip_lt_mono; eassumption|].
  intros p Hp. specialize (H2 p Hp). lia.
Qed.

Lemma good_extend s ps : good s -> (forall p, In p ps -> p < length (graph s)) ->
  good (mkS (graph s ++ [ps]) (mbranch s) (cos s)).
Proof.
  intros [W [C [M F]]] H. unfold good. cbn [graph mbranch cos]. rewrite app_length. cbn [length].
  split; [apply wf_extend_closed; assumption|].
  split; [apply closed_extend; assumption|].
  split; [eapply tip_lt_mono; [|exact M]; lia|].
  eapply Forall_impl; [|exact F]. intros c Hc. eapply co_ok_mono; [|exact Hc]. lia.
Qed.

Lemma commit_plan_ok s i c loc ws :
  commit_plan s i c loc = inr ws -> Forall (write_ok (S (length (graph s)))) ws.
Proof.
  unfold commit_plan.
  destruct (loc && negb (is_bound c)); [discriminate|].
  destruct (negb loc && is_bound c && _); [discriminate|].
  destruct (negb (opt_eqb _ _) && is_some _); [discriminate|].
  intros H; injection H as <-.
  assert (T : forall r, tip_lt (S (length (graph s))) (mkB (Some (length (graph s))) r)).
  { intros r t Ht. cbn in Ht. injection Ht as <-. lia. }
  apply Forall_app. split.
  - destruct (negb loc && is_bound c); [constructor; [apply T | constructor] | constructor].
  - constructor; [unfold wbranch; destruct (heavy c); apply T|].
    constructor; [|constructor]. cbn. intros p [<-|[]]. lia.
Qed.

Lemma good_commit s i loc f : good s -> good (snd (commit s i loc f)).
Proof.
  intros G. unfold commit. destruct (nth_error (cos s) i) as [c|] eqn:Hc; [|exact G].
  destruct (commit_plan s i c loc) as [e|ws] eqn:P; [exact G|].
  assert (Hps : forall p, In p (tparents c) -> p < length (graph s)).
  { destruct G as [_ [_ [_ F]]]. apply (Forall_nth _ _ _ _ F Hc). }
  pose proof (good_extend s (tparents c) G Hps) as G1.
  pose proof (commit_plan_ok s i c loc ws P) as Hws.
  assert (Hws' : Forall (write_ok (length (graph (mkS (graph s ++ [tparents c]) (mbranch s) (cos s))))) ws).
  { cbn [graph]. rewrite app_length. cbn [length]. replace (length (graph s) + 1) with (S (length (graph s))) by lia. exact Hws. }
  destruct f as [k|]; [destruct (k <? length ws)|]; cbn [snd];
    apply good_writes; try exact G1; try exact Hws'.
  apply Forall_firstn'. exact Hws'.
Qed.

Lemma ur_overwrite_tip_lt n g tgt src l' : tip_lt n tgt -> tip_lt n src ->
  update_revisions g tgt false src None true = Ok l' -> tip_lt n l'.
Proof.
  intros Ht Hs. rewrite ur_overwrite. destruct (tip src) as [x|] eqn:E; intros H; injection H as <-; [|exact Ht].
  intros t Hx. cbn in Hx. injection Hx as <-. apply Hs. exact E.
Qed.

(* in a graph without ghosts every ancestor of a present revision is present *)
Lemma reach_closed_lt g a b : closed g -> reach g a b -> b < length g -> a < length g.
Proof.
  intros C R. induction R as [r | a p r Hp Rap IH]; intros L; [exact L|].
  apply IH. apply (C (parents g r) p); [|exact Hp].
  unfold parents. apply nth_In. exact L.
Qed.

Lemma eff_stop_back_lt g sb back : wf_dag g = true -> closed g -> tip_lt (length g) sb ->
  forall x, eff_stop sb (stop_back g sb back) = Some x -> x < length g.
Proof.
  intros W C Hs x Hx. destruct (eff_stop_back g sb back W) as [L N].
  rewrite Hx in L. destruct (tip sb) as [t|] eqn:Ht; [|specialize (N eq_refl); congruence].
  unfold leo in L. cbn in L. apply (is_ancestor_spec g x t W) in L.
  apply (reach_closed_lt g x t C L). apply Hs. exact Ht.
Qed.

Lemma urs_tip_lt g tgt sb back l' : wf_dag g = true -> closed g ->
  tip_lt (length g) tgt -> tip_lt (length g) sb ->
  update_revisions g tgt false sb (stop_back g sb back) false = Ok l' -> tip_lt (length g) l'.
Proof.
  intros W C Ht Hs U. destruct (urs_ok g tgt sb _ l' W U) as [[-> _]|[E _]]; [exact Ht|].
  intros t Hx. rewrite E in Hx. apply (eff_stop_back_lt g sb back W C Hs t Hx).
Qed.

Lemma good_update s i : good s -> good (snd (update s i)).
Proof.
  intros G. pose proof G as [W [C [M F]]]. unfold update.
  destruct (nth_error (cos s) i) as [c|] eqn:Hc; [|exact G].
  destruct (Forall_nth _ _ _ _ F Hc) as [Hl Hp].
  destruct (is_bound c).
  - destruct (update_revisions (graph s) (lbranch c) false (mbranch s) None true) as [l'|e] eqn:U; [|exact G].
    pose proof (ur_overwrite_tip_lt _ _ _ _ _ Hl M U) as Hl'.
    assert (G1 : good (apply_write s (WLocal i l'))) by (apply good_write; [exact G | exact Hl']).
    destruct (update_tree_parents _ _ _ _) as [ps|] eqn:T; cbn [snd]; [|exact G1].
    apply good_write; [exact G1|]. rewrite graph_apply_write. cbn. intros p Hin.
    destruct (update_tree_parents_incl _ _ _ _ _ _ T Hin) as [H|[H|H]].
    + apply Hp. exact H.
    + apply Hl'. exact H.
    + destruct (is_anc_opt _ _ _); [discriminate|]. apply Hl. exact H.
  - destruct (update_tree_parents _ _ _ _) as [ps|] eqn:T; cbn [snd]; [|exact G].
    apply good_write; [exact G|]. cbn. intros p Hin.
    destruct (update_tree_parents_incl _ _ _ _ _ _ T Hin) as [H|[H|H]]; [apply Hp; exact H | | discriminate].
    unfold branch_of in H. destruct (heavy c); [apply Hl | apply M]; exact H.
Qed.

Lemma good_pull s i sr back : good s -> good (snd (pull s i sr back)).
Proof.
  intros G. pose proof G as [W [C [M F]]]. unfold pull.
  destruct (nth_error (cos s) i) as [c|] eqn:Hc; [|exact G].
  destruct (Forall_nth _ _ _ _ F Hc) as [Hl Hp].
  set (source := match sr with SMaster => _ | SCo j => _ end).
  assert (Hsrc : forall sb sim, source = Some (sb, sim) -> tip_lt (length (graph s)) sb).
  { subst source. destruct sr as [|j]; intros sb sim H.
    - injection H as <- _. exact M.
    - destruct (nth_error (cos s) j) as [cj|] eqn:Hj; [|discriminate]. injection H as <- _.
      unfold branch_of. destruct (heavy cj); [|exact M]. apply (Forall_nth _ _ _ _ F Hj). }
  destruct source as [[sb sim]|]; [|exact G].
  specialize (Hsrc sb sim eq_refl). cbn zeta.
  set (am := if is_bound c && negb sim then _ else _).
  assert (Ham : forall s1, am = inr s1 -> good s1 /\ graph s1 = graph s /\ tip_lt (length (graph s)) (branch_of s1 c)).
  { subst am. intros s1. destruct (is_bound c && negb sim).
    - destruct (update_revisions (graph s) (mbranch s) false sb _ false) as [m'|e] eqn:U; [|discriminate].
      intros H; injection H as <-.
      pose proof (urs_tip_lt _ _ _ _ _ W C M Hsrc U) as Hm'.
      split; [exact (good_write s (WMaster m') G Hm')|]. split; [reflexivity|].
      unfold branch_of. destruct (heavy c); [exact Hl | exact Hm'].
    - intros H; injection H as <-. split; [exact G|]. split; [reflexivity|].
      unfold branch_of. destruct (heavy c); [exact Hl | exact M]. }
  destruct am as [e|s1]; [exact G|].
  destruct (Ham s1 eq_refl) as [G1 [Eg Hold]].
  destruct (update_revisions (graph s) (branch_of s1 c) false sb _ false) as [l'|e] eqn:U; [|exact G1].
  pose proof (urs_tip_lt _ _ _ _ _ W C Hold Hsrc U) as Hl'.
  assert (G2 : good (apply_write s1 (wbranch i c l'))).
  { apply good_write; [exact G1|]. rewrite Eg. unfold wbranch. destruct (heavy c); exact Hl'. }
  destruct (branch_eqb l' (branch_of s1 c)); cbn [snd]; [exact G2|].
  apply good_write; [exact G2|]. rewrite graph_apply_write, Eg. cbn. intros p Hin.
  apply filter_parents_incl in Hin. apply in_app_or in Hin as [Hin|Hin].
  - destruct (tip l') as [t|] eqn:Et; cbn in Hin; [|contradiction].
    destruct Hin as [<-|[]]. apply Hl'. exact Et.
  - apply Hp. apply In_tl. exact Hin.
Qed.

Lemma good_set_bound s i b : good s -> good (snd (set_bound s i b)).
Proof.
  intros G. pose proof G as [W [C [M F]]]. unfold set_bound.
  destruct (nth_error (cos s) i) as [c|]; [|exact G]. destruct (heavy c); [|exact G].
  cbn. repeat split; try assumption. apply Forall_upd_nth; [exact F|]. intros x Hx. exact Hx.
Qed.

(* ---- two committers ------------------------------------------------------------------------ *)

Lemma graph_apply_writes ws : forall s, graph (apply_writes s ws) = graph s.
Proof.
  induction ws as [|w ws IH]; intros s; [reflexivity|].
  unfold apply_writes in *. cbn [fold_left]. rewrite IH. apply graph_apply_write.
Qed.

Lemma commit_graph_len s i loc f : length (graph s) <= length (graph (snd (commit s i loc f))).
Proof.
  unfold commit. destruct (nth_error (cos s) i) as [c|]; [|cbn; lia].
  destruct (commit_plan s i c loc) as [e|ws]; [cbn; lia|].
  destruct f as [k|]; [destruct (k <? length ws)|]; cbn [snd]; rewrite (graph_apply_writes _ _); cbn [graph];
    rewrite app_length; lia.
Qed.

Lemma good_commit_race s i j : good s -> good (snd (commit_race s i j)).
Proof.
  intros G. unfold commit_race. destruct (nth_error (cos s) i) as [c|] eqn:Hc; [|exact G].
  destruct (is_bound c && opt_eqb (tip (lbranch c)) (tip (mbranch s)) && negb (i =? j)); [|apply good_commit; exact G].
  assert (Hps : forall p, In p (tparents c) -> p < length (graph s)).
  { destruct G as [_ [_ [_ F]]]. apply (Forall_nth _ _ _ _ F Hc). }
  pose proof (good_extend s (tparents c) G Hps) as G0.
  set (s0 := mkS (graph s ++ [tparents c]) (mbranch s) (cos s)) in *.
  pose proof (good_commit s0 j false None G0) as G1.
  pose proof (commit_graph_len s0 j false None) as L.
  set (s1 := snd (commit s0 j false None)) in *.
  assert (Ln : length (graph s) < length (graph s1)).
  { subst s0. cbn [graph] in L. rewrite app_length in L. cbn [length] in L. lia. }
  cbn zeta. destruct (negb (opt_eqb _ _) && is_some _); cbn [snd]; [exact G1|].
  apply good_writes; [exact G1|].
  assert (T : forall r, tip_lt (length (graph s1)) (mkB (Some (length (graph s))) r)).
  { intros r t Ht. cbn in Ht. injection Ht as <-. exact Ln. }
  constructor; [apply T|]. constructor; [apply T|]. constructor; [|constructor].
  cbn. intros p [<-|[]]. exact Ln.
Qed.

(* the look at the master under its lock: when the other committer has moved the
   master (to a revision the tree is not based on), the commit is refused with
   OutOfDateTree, keeps the other committer's state and writes nothing *)
Theorem race_refused s i j c x :
  nth_error (cos s) i = Some c -> is_bound c = true ->
  tip (lbranch c) = tip (mbranch s) -> i <> j ->
  let s1 := snd (commit (mkS (graph s ++ [tparents c]) (mbranch s) (cos s)) j false None) in
  tip (mbranch s1) = Some x -> hd_error (tparents c) <> Some x ->
  commit_race s i j = (Fail OutOfDateTree, s1).
Proof.
  intros Hc B E Hij s1 Hx Hne. unfold commit_race. rewrite Hc, B.
  assert (E' : opt_eqb (tip (lbranch c)) (tip (mbranch s)) = true) by (apply opt_eqb_spec; exact E).
  apply Nat.eqb_neq in Hij. rewrite E', Hij. cbn [andb negb]. cbn zeta. fold s1. rewrite Hx.
  assert (X : opt_eqb (Some x) (hd_error (tparents c)) = false) by (apply opt_eqb_false; congruence).
  rewrite X. reflexivity.
Qed.

(* and when it is not refused the master was (still) where the tree is based *)
Theorem race_done_based s i j c s' :
  nth_error (cos s) i = Some c -> is_bound c = true ->
  tip (lbranch c) = tip (mbranch s) -> i <> j ->
  commit_race s i j = (Done, s') ->
  let s1 := snd (commit (mkS (graph s ++ [tparents c]) (mbranch s) (cos s)) j false None) in
  (tip (mbranch s1) = None \/ tip (mbranch s1) = hd_error (tparents c)) /\
  tip (mbranch s') = Some (length (graph s)).
Proof.
  intros Hc B E Hij. unfold commit_race. rewrite Hc, B.
  assert (E' : opt_eqb (tip (lbranch c)) (tip (mbranch s)) = true) by (apply opt_eqb_spec; exact E).
  apply Nat.eqb_neq in Hij. rewrite E', Hij. cbn [andb negb]. cbn zeta.
  set (s1 := snd (commit _ j false None)).
  destruct (opt_eqb (tip (mbranch s1)) (hd_error (tparents c))) eqn:E2; cbn [negb andb].
  - intros H; injection H as <-. split; [right; apply opt_eqb_spec; exact E2 | reflexivity].
  - destruct (tip (mbranch s1)) eqn:Et; cbn [is_some]; [discriminate|].
    intros H; injection H as <-. split; [left; reflexivity | reflexivity].
Qed.

Lemma good_step s o : good s -> good (snd (step s o)).
Proof.
  destruct o; cbn [step]; [apply good_commit | apply good_update | apply good_pull
                          | apply good_set_bound | apply good_set_bound | apply good_commit_race].
Qed.

Lemma good_init kinds root : good (init kinds root).
Proof.
  unfold good, init. destruct root; cbn [graph mbranch cos length].
  - split; [reflexivity|]. split; [intros ps p [<-|[]] []|].
    split; [intros t H; injection H as <-; lia|].
    apply Forall_forall. intros c Hc. apply in_map_iff in Hc as [h [<- _]]. split; cbn.
    + intros t H; injection H as <-; lia.
    + intros p [<-|[]]. lia.
  - split; [reflexivity|]. split; [intros ps p []|].
    split; [intros t H; discriminate|].
    apply Forall_forall. intros c Hc. apply in_map_iff in Hc as [h [<- _]]. split; cbn.
    + intros t H; discriminate.
    + intros p [].
Qed.

Theorem good_run ops : forall s, good s -> good (run s ops).
Proof.
  induction ops as [|o ops IH]; intros s G; cbn; [exact G|]. apply IH. apply good_step. exact G.
Qed.

(* ---- reachable states: nobody is ahead of the master ----------------------------------- *)

Definition behind_co (g : dag) (m : branch) (c : checkout) : Prop :=
  heavy c = true -> bound c = true /\ leo g (tip (lbranch c)) (tip m).
Definition behind (s : sys) : Prop := Forall (behind_co (graph s) (mbranch s)) (cos s).

(* operations other than --local commits and unbind *)
Definition nolocal (o : op) : bool :=
  match o with Commit _ loc _ => negb loc | Unbind _ => false | CommitRace _ _ => false | _ => true end.

Lemma behind_wmaster s b : wf_dag (graph s) = true -> behind s ->
  leo (graph s) (tip (mbranch s)) (tip b) -> behind (apply_write s (WMaster b)).
Proof.
  intros W B L. unfold behind in *. cbn. eapply Forall_impl; [|exact B].
  intros c Hc Hh. destruct (Hc Hh) as [Hb Hl]. split; [exact Hb|].
  eapply leo_trans; eassumption.
Qed.

Lemma behind_wlocal s i b : behind s ->
  leo (graph s) (tip b) (tip (mbranch s)) -> behind (apply_write s (WLocal i b)).
Proof.
  intros B L. unfold behind in *. cbn. apply Forall_upd_nth; [exact B|].
  intros c Hc Hh. cbn in *. destruct (Hc Hh) as [Hb _]. split; [exact Hb | exact L].
Qed.

Lemma behind_wtree s i ps : behind s -> behind (apply_write s (WTree i ps)).
Proof.
  intros B. unfold behind in *. cbn. apply Forall_upd_nth; [exact B|].
  intros c Hc Hh. cbn in *. exact (Hc Hh).
Qed.

Lemma behind_extend s ps : good s -> behind s -> (forall p, In p ps -> p < length (graph s)) ->
  behind (mkS (graph s ++ [ps]) (mbranch s) (cos s)).
Proof.
  intros [W [C [M _]]] B H. unfold behind in *. cbn. eapply Forall_impl; [|exact B].
  intros c Hc Hh. destruct (Hc Hh) as [Hb Hl]. split; [exact Hb|].
  apply leo_extend; assumption.
Qed.

(* a non-local commit in a lightweight checkout (or the master's own tree) *)
Lemma light_commit_plan s i c ws :
  heavy c = false -> commit_plan s i c false = inr ws ->
  ws = [WMaster (new_branch s (mbranch s)); WTree i [length (graph s)]]
  /\ (tip (mbranch s) = None \/ hd_error (tparents c) = tip (mbranch s)).
Proof.
  intros Hh. unfold commit_plan, is_bound, branch_of, wbranch. rewrite Hh. cbn [negb andb].
  destruct (opt_eqb (tip (mbranch s)) (hd_error (tparents c))) eqn:E2; cbn [negb andb].
  - intros H; injection H as <-. split; [reflexivity|]. right. symmetry. apply opt_eqb_spec. exact E2.
  - destruct (tip (mbranch s)) eqn:Et; cbn [is_some]; [discriminate|].
    intros H; injection H as <-. split; [reflexivity | left; reflexivity].
Qed.

Lemma hd_error_In {A} (l : list A) x : hd_error l = Some x -> In x l.
Proof. destruct l; cbn; [discriminate | intros H; injection H as ->; left; reflexivity]. Qed.

Lemma behind_commit s i f : good s -> behind s -> behind (snd (commit s i false f)).
Proof.
  intros G B. unfold commit. destruct (nth_error (cos s) i) as [c|] eqn:Hc; [|exact B].
  destruct (commit_plan s i c false) as [e|ws] eqn:P; [exact B|].
  assert (Hps : forall p, In p (tparents c) -> p < length (graph s)).
  { destruct G as [_ [_ [_ F]]]. apply (Forall_nth _ _ _ _ F Hc). }
  pose proof (good_extend s (tparents c) G Hps) as G1.
  pose proof (behind_extend s (tparents c) G B Hps) as B0.
  set (s1 := mkS (graph s ++ [tparents c]) (mbranch s) (cos s)) in *.
  set (nb := new_branch s (mbranch s)).
  assert (W1 : wf_dag (graph s1) = true) by (destruct G1 as [X _]; exact X).
  assert (Hnew : (tip (mbranch s) = None \/ hd_error (tparents c) = tip (mbranch s)) ->
                 leo (graph s1) (tip (mbranch s1)) (tip nb)).
  { intros D. subst s1 nb. cbn [graph mbranch new_branch tip]. apply leo_new; [exact W1|].
    destruct D as [D|D]; [left; exact D|].
    destruct (tip (mbranch s)) as [p|]; [|left; reflexivity].
    right. exists p. split; [reflexivity | apply hd_error_In; exact D]. }
  destruct (heavy c) eqn:Hh.
  - assert (Bc : is_bound c = true).
    { unfold is_bound. rewrite Hh. unfold behind in B. destruct (Forall_nth _ _ _ _ B Hc Hh) as [X _]. rewrite X. reflexivity. }
    destruct (bound_commit_plan s i c ws Bc P) as [-> [_ D]].
    fold nb.
    pose proof (behind_wmaster s1 nb W1 B0 (Hnew D)) as B1.
    assert (B2 : behind (apply_write (apply_write s1 (WMaster nb)) (WLocal i nb))).
    { apply behind_wlocal; [exact B1|]. cbn [apply_write mbranch graph]. apply leo_refl. exact W1. }
    pose proof (behind_wtree _ i [length (graph s)] B2) as B3.
    destruct f as [[|[|[|k]]]|]; cbn [snd Nat.ltb Nat.leb length firstn apply_writes fold_left]; assumption.
  - destruct (light_commit_plan s i c ws Hh P) as [-> D].
    fold nb.
    pose proof (behind_wmaster s1 nb W1 B0 (Hnew D)) as B1.
    pose proof (behind_wtree _ i [length (graph s)] B1) as B2.
    destruct f as [[|[|k]]|]; cbn [snd Nat.ltb Nat.leb length firstn apply_writes fold_left]; assumption.
Qed.

Lemma behind_update s i : good s -> behind s -> behind (snd (update s i)).
Proof.
  intros G B. pose proof G as [W _]. unfold update.
  destruct (nth_error (cos s) i) as [c|] eqn:Hc; [|exact B].
  destruct (is_bound c) eqn:Bc.
  - assert (Hh : heavy c = true) by (unfold is_bound in Bc; apply andb_true_iff in Bc; tauto).
    rewrite ur_overwrite.
    assert (B1 : forall l', match tip (mbranch s) with None => Ok (lbranch c) | Some t => Ok (mkB (Some t) (revno (mbranch s))) end = Ok l' ->
                 behind (apply_write s (WLocal i l'))).
    { intros l' H. apply behind_wlocal; [exact B|].
      destruct (tip (mbranch s)) as [t|] eqn:Et; injection H as <-.
      - cbn [tip]. apply leo_refl. exact W.
      - rewrite <- Et. destruct (Forall_nth _ _ _ _ B Hc Hh) as [_ X]. exact X. }
    destruct (match tip (mbranch s) with None => _ | Some t => _ end) as [l'|e]; [|exact B].
    specialize (B1 l' eq_refl).
    destruct (update_tree_parents _ _ _ _); cbn [snd]; [apply behind_wtree; exact B1 | exact B1].
  - destruct (update_tree_parents _ _ _ _); cbn [snd]; [apply behind_wtree; exact B | exact B].
Qed.

Lemma behind_pull s i sr back : good s -> behind s -> behind (snd (pull s i sr back)).
Proof.
  intros G B. pose proof G as [W [C [M F]]]. unfold pull.
  destruct (nth_error (cos s) i) as [c|] eqn:Hc; [|exact B].
  set (source := match sr with SMaster => _ | SCo j => _ end).
  (* whatever the source is, its tip is in the master's ancestry; a source that "is the master" is the master *)
  assert (Hsrc : forall sb sim, source = Some (sb, sim) ->
                   leo (graph s) (tip sb) (tip (mbranch s)) /\ (sim = true -> sb = mbranch s)).
  { subst source. destruct sr as [|j]; intros sb sim H.
    - injection H as <- _. split; [apply leo_refl; exact W | reflexivity].
    - destruct (nth_error (cos s) j) as [cj|] eqn:Hj; [|discriminate]. injection H as <- <-.
      unfold branch_of. destruct (heavy cj) eqn:Hhj.
      + split; [|discriminate]. destruct (Forall_nth _ _ _ _ B Hj Hhj) as [_ X]. exact X.
      + split; [apply leo_refl; exact W | reflexivity]. }
  destruct source as [[sb sim]|]; [|exact B].
  destruct (Hsrc sb sim eq_refl) as [Ls Hsim]. cbn zeta.
  (* the requested revision is on the source's history, hence in the master's ancestry too *)
  set (stop := stop_back (graph s) sb back).
  assert (Le : leo (graph s) (eff_stop sb stop) (tip (mbranch s))).
  { eapply leo_trans; [exact W | apply (eff_stop_back (graph s) sb back W) | exact Ls]. }
  destruct (heavy c) eqn:Hh.
  - (* heavyweight target: by the invariant it is bound *)
    destruct (Forall_nth _ _ _ _ B Hc Hh) as [Hb Ll].
    unfold is_bound, wbranch, branch_of. rewrite Hh, Hb. cbn [andb].
    destruct sim; cbn [negb].
    + (* from the master: only the local branch moves, to the requested revision or not at all *)
      destruct (update_revisions (graph s) (lbranch c) false sb stop false) as [l'|e] eqn:U; [|exact B].
      assert (B1 : behind (apply_write s (WLocal i l'))).
      { apply behind_wlocal; [exact B|].
        destruct (urs_ok _ _ _ _ _ W U) as [[-> _]|[E _]]; [exact Ll | rewrite E; exact Le]. }
      destruct (branch_eqb l' (lbranch c)); cbn [snd]; [exact B1 | apply behind_wtree; exact B1].
    + (* from another checkout: the master first *)
      destruct (update_revisions (graph s) (mbranch s) false sb stop false) as [m'|e] eqn:Um; [|exact B].
      assert (Lm : leo (graph s) (tip (mbranch s)) (tip m') /\ leo (graph s) (eff_stop sb stop) (tip m')).
      { destruct (urs_ok _ _ _ _ _ W Um) as [[-> X]|[E [_ X]]].
        - split; [apply leo_refl; exact W | exact X].
        - rewrite E. split; [exact X | apply leo_refl; exact W]. }
      destruct Lm as [Lm Lsm].
      pose proof (behind_wmaster s m' W B Lm) as B1.
      cbn [apply_write graph].
      destruct (update_revisions (graph s) (lbranch c) false sb stop false) as [l'|e] eqn:U; [|exact B1].
      assert (B2 : behind (apply_write (apply_write s (WMaster m')) (WLocal i l'))).
      { apply behind_wlocal; [exact B1|]. cbn [apply_write graph mbranch].
        destruct (urs_ok _ _ _ _ _ W U) as [[-> _]|[E _]].
        - eapply leo_trans; [exact W | exact Ll | exact Lm].
        - rewrite E. exact Lsm. }
      destruct (branch_eqb l' (lbranch c)); cbn [snd]; [exact B2 | apply behind_wtree; exact B2].
  - (* lightweight target: the master itself is pulled into *)
    unfold is_bound, wbranch, branch_of. rewrite Hh. cbn [andb].
    destruct (update_revisions (graph s) (mbranch s) false sb stop false) as [l'|e] eqn:U; [|exact B].
    assert (B1 : behind (apply_write s (WMaster l'))).
    { apply behind_wmaster; [exact W | exact B|].
      destruct (urs_ok _ _ _ _ _ W U) as [[-> _]|[E [_ X]]]; [apply leo_refl; exact W | rewrite E; exact X]. }
    destruct (branch_eqb l' (mbranch s)); cbn [snd]; [exact B1 | apply behind_wtree; exact B1].
Qed.

Lemma behind_bind s i : behind s -> behind (snd (set_bound s i true)).
Proof.
  intros B. unfold set_bound. destruct (nth_error (cos s) i) as [c|]; [|exact B].
  destruct (heavy c); [|exact B]. unfold behind in *. cbn. apply Forall_upd_nth; [exact B|].
  intros x Hx Hh. cbn in *. destruct (Hx Hh) as [_ L]. split; [reflexivity | exact L].
Qed.

Lemma behind_step s o : good s -> behind s -> nolocal o = true -> behind (snd (step s o)).
Proof.
  intros G B N. destruct o as [i loc f|i|i sr back|i|i|i j]; cbn [step nolocal] in *.
  - destruct loc; [discriminate|]. apply behind_commit; assumption.
  - apply behind_update; assumption.
  - apply behind_pull; assumption.
  - apply behind_bind; assumption.
  - discriminate.
  - discriminate.
Qed.

Lemma behind_init kinds root : behind (init kinds root).
Proof.
  unfold behind, init. cbn [graph mbranch cos]. apply Forall_forall. intros c Hc.
  apply in_map_iff in Hc as [h [<- _]]. intros Hh. cbn in *. split; [exact Hh|].
  apply leo_refl. destruct root; reflexivity.
Qed.

(* the invariant, for every sequence of operations without --local commits and unbind
   (faults included): no heavyweight checkout is ever ahead of, or diverged from, the master *)
Theorem never_ahead ops : forall s, good s -> behind s -> forallb nolocal ops = true ->
  good (run s ops) /\ behind (run s ops).
Proof.
  induction ops as [|o ops IH]; intros s G B N; cbn; [split; assumption|].
  cbn in N. apply andb_true_iff in N as [N1 N2].
  apply IH; [apply good_step; exact G | apply behind_step; assumption | exact N2].
Qed.

Theorem reachable_never_ahead kinds root ops c :
  forallb nolocal ops = true ->
  let s := run (init kinds root) ops in
  In c (cos s) -> heavy c = true ->
  is_anc_opt (graph s) (tip (lbranch c)) (tip (mbranch s)) = true.
Proof.
  intros N s Hc Hh.
  destruct (never_ahead ops (init kinds root) (good_init kinds root) (behind_init kinds root) N) as [_ B].
  unfold behind in B. rewrite Forall_forall in B. destruct (B c Hc Hh) as [_ L]. exact L.
Qed.

(* in every reachable state (the bounds come from [good]) *)
Corollary update_keeps_local_work_good s i c m o :
  good s -> nth_error (cos s) i = Some c -> is_bound c = true ->
  tip (mbranch s) = Some m -> tip (lbranch c) = Some o ->
  is_ancestor (graph s) o m = false ->
  exists s' c' p, update s i = (Done, s') /\ nth_error (cos s') i = Some c' /\
                  lbranch c' = mbranch s /\ In p (tparents c') /\ is_ancestor (graph s) o p = true.
Proof.
  intros [W [_ [M F]]] Hc B Hm Ho Hnot. destruct (Forall_nth _ _ _ _ F Hc) as [Hl Hp].
  apply (update_keeps_local_work s i c m o); try assumption; [apply M; exact Hm | apply Hl; exact Ho].
Qed.
