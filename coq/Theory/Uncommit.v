(* Theory/Uncommit.v -- proofs about Model/Uncommit.v (C16), for arbitrary
   well-formed revision graphs. *)
From Coq Require Import List Arith Bool Lia.
From BV Require Import Lib.Dag Theory.DagFacts Model.Uncommit.
Import ListNotations.

(* ---- the left-hand walk --------------------------------------------------- *)

(* removing revisions down to revno [new] from a ghost-free left-hand history:
   the new tip is the element (cur - new) of the history (null: when the
   history is exhausted) and the merged parents of every removed mainline
   revision are collected *)
Lemma walk_spec g : forall lh cur new pm,
  forallb (present g) lh = true -> new <= cur ->
  walk g lh cur new pm =
  Ok (nth_error lh (cur - new),
      pm ++ flat_map (fun r => rev (merged g r)) (firstn (cur - new) lh)).
Proof.
  induction lh as [|r rest IH]; intros cur new pm P L.
  - cbn [walk]. destruct (cur - new); cbn; rewrite app_nil_r; reflexivity.
  - cbn [walk forallb] in *. apply andb_true_iff in P as [P1 P2].
    unfold ghost. rewrite P1. cbn [negb].
    destruct (cur =? new) eqn:E.
    + apply Nat.eqb_eq in E. subst. rewrite Nat.sub_diag. cbn. rewrite app_nil_r. reflexivity.
    + apply Nat.eqb_neq in E. rewrite IH; [|exact P2|lia].
      replace (cur - new) with (S (cur - 1 - new)) by lia.
      cbn [nth_error firstn flat_map]. rewrite app_assoc. reflexivity.
Qed.

Lemma rev_flat_map_rev {A B} (f : A -> list B) l :
  rev (flat_map (fun r => rev (f r)) l) = flat_map f (rev l).
Proof.
  induction l as [|a l IH]; [reflexivity|].
  cbn [flat_map rev]. rewrite rev_app_distr, rev_involutive, IH, flat_map_app.
  cbn [flat_map]. rewrite app_nil_r. reflexivity.
Qed.

(* uncommitting down to revno k: new tip and new parent list *)
Theorem plan_spec g b tp k :
  forallb (present g) (lefthand_opt g (tip b)) = true -> k <= revno b ->
  let lh := lefthand_opt g (tip b) in
  let d := revno b - k in
  plan g b (Some tp) k =
  Ok (nth_error lh d,
      opt_list (nth_error lh d) ++ flat_map (merged g) (rev (firstn d lh)) ++ rev (tl tp)).
Proof.
  intros P L lh d. unfold plan. fold lh.
  rewrite (walk_spec g lh (revno b) k (tl tp) P L). fold d.
  rewrite rev_app_distr, rev_flat_map_rev. reflexivity.
Qed.

Theorem plan_spec_no_tree g b k :
  forallb (present g) (lefthand_opt g (tip b)) = true -> k <= revno b ->
  let lh := lefthand_opt g (tip b) in
  plan g b None k = Ok (nth_error lh (revno b - k), opt_list (nth_error lh (revno b - k))).
Proof.
  intros P L lh. unfold plan. fold lh.
  rewrite (walk_spec g lh (revno b) k [] P L). reflexivity.
Qed.

(* ---- general shape of a successful uncommit -------------------------------- *)

Lemma uncommit_ok g b t m k keep loc b' t' m' :
  uncommit g b t m k keep loc = Ok (b', t', m') ->
  exists new_tip ps,
    plan g b (option_map tparents t) k = Ok (new_tip, ps) /\
    tip b' = new_tip /\ revno b' = k /\
    tagd b' = (if keep then tagd b else remove_tags g (tagd b) (tip b) ps) /\
    match t with
    | None => t' = None
    | Some ts => exists ts', t' = Some ts' /\ set_parent_ids g ts ps = Ok ts'
    end /\
    match m with
    | None => m' = None
    | Some mb => exists mb', m' = Some mb' /\
                 (if loc then tip mb' = tip mb /\ revno mb' = revno mb
                  else tip mb' = new_tip /\ revno mb' = k /\ opt_eqb (tip b) (tip mb) = true)
    end.
Proof.
  unfold uncommit. intros H.
  destruct loc.
  - destruct m as [mb|]; [|discriminate]. cbn [negb] in H.
    destruct (plan g b (option_map tparents t) k) as [[nt ps]|e]; [|discriminate].
    exists nt, ps. split; [reflexivity|].
    destruct t as [ts|].
    + destruct (set_parent_ids g ts ps) as [ts'|e] eqn:E; [|discriminate].
      injection H as <- <- <-. cbn. repeat split; try reflexivity.
      * exists ts'. split; reflexivity.
      * eexists. split; [reflexivity|]. split; reflexivity.
    + injection H as <- <- <-. cbn. repeat split; try reflexivity.
      eexists. split; [reflexivity|]. split; reflexivity.
  - destruct (match m with Some mb => negb (opt_eqb (tip b) (tip mb)) | None => false end) eqn:OOD;
      [discriminate|].
    destruct (plan g b (option_map tparents t) k) as [[nt ps]|e]; [|discriminate].
    exists nt, ps. split; [reflexivity|].
    assert (M : forall mtags, match m with
                 | None => @None bstate = None
                 | Some mb => exists mb', Some (mkS nt k (mtags mb)) = Some mb' /\
                     tip mb' = nt /\ revno mb' = k /\ opt_eqb (tip b) (tip mb) = true
                 end).
    { intros mtags. destruct m as [mb|]; [|reflexivity]. eexists. split; [reflexivity|].
      cbn. split; [reflexivity|]. split; [reflexivity|]. apply negb_false_iff in OOD. exact OOD. }
    destruct t as [ts|].
    + destruct (set_parent_ids g ts ps) as [ts'|e] eqn:E; [|discriminate].
      injection H as <- <- <-. cbn. repeat split; try reflexivity.
      * exists ts'. split; reflexivity.
      * destruct m as [mb|]; [|reflexivity]. apply (M (fun mb => if keep then tagd mb else _)).
    + injection H as <- <- <-. cbn. repeat split; try reflexivity.
      destruct m as [mb|]; [|reflexivity]. apply (M (fun mb => if keep then tagd mb else _)).
Qed.

(* ---- tags -------------------------------------------------------------------- *)

(* a tag is dropped exactly when its revision is in the ancestry of the old tip
   and of none of the new parents (new tip and re-recorded pending merges) *)
Theorem remove_tags_spec g tags o ps nr : wf_dag g = true ->
  (In nr (remove_tags g tags (Some o) ps) <->
   In nr tags /\ ~ (reach g (snd nr) o /\ forall p, In p ps -> ~ reach g (snd nr) p)).
Proof.
  intros W. unfold remove_tags, removed_tag.
  rewrite filter_In, negb_true_iff, memb_false, (find_unique_ancestors_spec g o ps (snd nr) W).
  reflexivity.
Qed.

Theorem keep_tags_keeps g b t m k loc b' t' m' :
  uncommit g b t m k true loc = Ok (b', t', m') -> tagd b' = tagd b.
Proof.
  intros H. apply uncommit_ok in H as [nt [ps [_ [_ [_ [H _]]]]]]. exact H.
Qed.

(* ---- files --------------------------------------------------------------------- *)

Theorem files_untouched g b ts m k keep loc b' t' m' :
  uncommit g b (Some ts) m k keep loc = Ok (b', t', m') ->
  exists ts', t' = Some ts' /\ tfiles ts' = tfiles ts.
Proof.
  intros H. apply uncommit_ok in H as [nt [ps [_ [_ [_ [_ [[ts' [-> S]] _]]]]]]].
  exists ts'. split; [reflexivity|]. unfold set_parent_ids in S.
  destruct ps as [|p ps'].
  - injection S as <-. reflexivity.
  - destruct (ghost g p); [discriminate|]. injection S as <-. reflexivity.
Qed.

(* ---- the tree's basis ------------------------------------------------------------ *)

Theorem basis_is_tip_guarded g b ts m k keep loc b' ts' m' x :
  uncommit g b (Some ts) m k keep loc = Ok (b', Some ts', m') ->
  tip b' = Some x -> hd_error (tparents ts') = Some x.
Proof.
  intros H Hx. apply uncommit_ok in H as [nt [ps [P [T [_ [_ [[ts2 [E S]] _]]]]]]].
  injection E as <-. rewrite T in Hx. subst nt.
  unfold plan in P. cbn [option_map] in P.
  destruct (walk g (lefthand_opt g (tip b)) (revno b) k (tl (tparents ts))) as [[nt pm]|e]; [|discriminate].
  injection P as -> <-. unfold set_parent_ids in S. rewrite Hx in S. cbn [opt_list app] in S.
  destruct (ghost g x); [discriminate|]. injection S as <-. reflexivity.
Qed.

Definition refute_g : dag := [[]; []; [0; 1]].
Theorem basis_is_tip_refuted :
  exists g b ts b' ts',
    wf_dag g = true /\ distance_opt g (tip b) = Some (revno b) /\
    filter_parents g (tparents ts) = tparents ts /\ hd_error (tparents ts) = tip b /\
    uncommit g b (Some ts) None 0 false false = Ok (b', Some ts', None) /\
    tip b' = None /\ tparents ts' = [1].
Proof.
  exists refute_g, (mkS (Some 2) 2 []), (mkT [2] []), (mkS None 0 []), (mkT [1] []).
  repeat split; reflexivity.
Qed.

(* ---- bound branches ---------------------------------------------------------------- *)

Theorem bound_master_follows g b t mb k keep b' t' m' :
  uncommit g b t (Some mb) k keep false = Ok (b', t', m') ->
  exists mb', m' = Some mb' /\ tip mb' = tip b' /\ revno mb' = revno b' /\
              opt_eqb (tip b) (tip mb) = true.
Proof.
  intros H. apply uncommit_ok in H as [nt [ps [_ [T [R [_ [_ [mb' [-> [M1 [M2 M3]]]]]]]]]]].
  exists mb'. rewrite T, R. repeat split; assumption.
Qed.

Theorem bound_out_of_date g b t mb k keep :
  opt_eqb (tip b) (tip mb) = false ->
  uncommit g b t (Some mb) k keep false = Err BoundBranchOutOfDate.
Proof. intros H. unfold uncommit. rewrite H. reflexivity. Qed.

Theorem local_keeps_master g b t mb k keep b' t' m' :
  uncommit g b t (Some mb) k keep true = Ok (b', t', m') ->
  exists mb', m' = Some mb' /\ tip mb' = tip mb /\ revno mb' = revno mb.
Proof.
  intros H. apply uncommit_ok in H as [nt [ps [_ [_ [_ [_ [_ [mb' [-> [M1 M2]]]]]]]]]].
  exists mb'. repeat split; assumption.
Qed.

Theorem local_requires_bound g b t k keep :
  uncommit g b t None k keep true = Err LocalRequiresBoundBranch.
Proof. reflexivity. Qed.

(* ---- the new revno is right ---------------------------------------------------------- *)

Theorem new_tip_revno g b t m k keep loc b' t' m' : wf_dag g = true ->
  distance_opt g (tip b) = Some (revno b) -> k <= revno b ->
  uncommit g b t m k keep loc = Ok (b', t', m') ->
  distance_opt g (tip b') = Some (revno b').
Proof.
  intros W C L H.
  apply uncommit_ok in H as [nt [ps [P [T [R _]]]]]. rewrite T, R. clear T R.
  destruct (tip b) as [o|] eqn:Ho.
  - cbn [distance_opt] in C. apply (distance_length g o _ W) in C as [C1 C2].
    assert (Pr : forallb (present g) (lefthand_opt g (tip b)) = true) by (rewrite Ho; exact C2).
    assert (N : nt = nth_error (lefthand g o) (revno b - k)).
    { destruct t as [ts|]; cbn [option_map] in P.
      - rewrite (plan_spec g b (tparents ts) k Pr L) in P. rewrite Ho in P. cbn [lefthand_opt] in P.
        injection P as <- _. reflexivity.
      - rewrite (plan_spec_no_tree g b k Pr L) in P. rewrite Ho in P. cbn [lefthand_opt] in P.
        injection P as <- _. reflexivity. }
    destruct nt as [r|]; cbn [distance_opt].
    + rewrite (lefthand_nth_distance g o (revno b - k) r W C2 (eq_sym N)). f_equal. lia.
    + symmetry in N. apply nth_error_None in N. f_equal. lia.
  - cbn [distance_opt] in C. injection C as C. assert (k = 0) by lia. subst k.
    unfold plan in P. rewrite Ho in P. cbn [lefthand_opt walk] in P.
    destruct t; cbn in P; injection P as <- _; reflexivity.
Qed.

(* ---- uncommit after commit ------------------------------------------------------------- *)

Lemma filter_all {A} (f : A -> bool) l : forallb f l = true -> filter f l = l.
Proof.
  induction l as [|x l IH]; cbn; intros H; [reflexivity|].
  apply andb_true_iff in H as [H1 H2]. rewrite H1, IH; [reflexivity | exact H2].
Qed.

Lemma filter_parents_heads g1 g2 l : heads g1 l = heads g2 l -> filter_parents g1 l = filter_parents g2 l.
Proof. intros H. unfold filter_parents. destruct l as [|p rest]; [reflexivity|]. rewrite H. reflexivity. Qed.

Definition valid_parents (g : dag) (ps : list revid) : bool :=
  forallb (fun p => (p <? length g) || (S (length g) <=? p)) ps.

Lemma ps_not_new g ps : valid_parents g ps = true -> forall p, In p ps -> p <> length g.
Proof.
  intros V p Hp. unfold valid_parents in V. rewrite forallb_forall in V. specialize (V p Hp).
  apply orb_true_iff in V as [A|A]; [apply Nat.ltb_lt in A | apply Nat.leb_le in A]; lia.
Qed.

Lemma only_new_is_unique g ps r : wf_dag (g ++ [ps]) = true ->
  In r (find_unique_ancestors (g ++ [ps]) (length g) ps) -> r = length g.
Proof.
  intros W' H. apply (find_unique_ancestors_spec _ _ _ r W') in H as [R X].
  inversion R as [|a p r' Hp Hap]; subst; [reflexivity|].
  rewrite parents_new in Hp. exfalso. apply (X p Hp Hap).
Qed.

Lemma tags_survive g ps tags : wf_dag (g ++ [ps]) = true ->
  forallb (fun nr => negb (snd nr =? length g)) tags = true ->
  remove_tags (g ++ [ps]) tags (Some (length g)) ps = tags.
Proof.
  intros W' T. unfold remove_tags. apply filter_all. rewrite forallb_forall in T. apply forallb_forall.
  intros nr Hnr. specialize (T nr Hnr). apply negb_true_iff in T. apply Nat.eqb_neq in T.
  apply negb_true_iff. unfold removed_tag. apply memb_false. intros H.
  apply T. apply (only_new_is_unique g ps _ W' H).
Qed.

Lemma walk_after_commit g ps n : wf_dag g = true -> fresh_next g = true ->
  valid_parents g ps = true ->
  match ps with p :: _ => p < length g | [] => True end ->
  walk (g ++ [ps]) (lefthand (g ++ [ps]) (length g)) (S n) n (@nil nat) = Ok (hd_error ps, rev (tl ps)).
Proof.
  intros W F V Hp.
  assert (W' : wf_dag (g ++ [ps]) = true) by (apply wf_extend; assumption).
  assert (LN : length g < length (g ++ [ps])) by (rewrite app_length; cbn; lia).
  assert (GN : ghost (g ++ [ps]) (length g) = false).
  { unfold ghost, present. apply negb_false_iff. apply Nat.ltb_lt. exact LN. }
  assert (NE : (S n =? n) = false) by (apply Nat.eqb_neq; lia).
  rewrite (lefthand_unfold _ _ W' LN), parents_new.
  cbn [walk]. rewrite GN, NE. unfold merged at 1. rewrite parents_new. cbn [app].
  replace (S n - 1) with n by lia.
  destruct ps as [|t0 more]; [reflexivity|].
  assert (T0 : t0 <> length g) by lia.
  rewrite (lefthand_extend g (t0 :: more) t0 W F T0).
  destruct (lefthand_head g t0) as [l HL]. rewrite HL. cbn [walk].
  assert (G0 : ghost (g ++ [t0 :: more]) t0 = false).
  { unfold ghost, present. apply negb_false_iff. apply Nat.ltb_lt. lia. }
  rewrite G0, Nat.eqb_refl. reflexivity.
Qed.

Lemma parents_back (ps : list revid) : opt_list (hd_error ps) ++ rev (rev (tl ps)) = ps.
Proof. rewrite rev_involutive. destruct ps; reflexivity. Qed.

Lemma set_parent_ids_ok g ts ps :
  match ps with p :: _ => ghost g p = false | [] => True end ->
  set_parent_ids g ts ps = Ok (mkT (filter_parents g ps) (tfiles ts)).
Proof. intros H. unfold set_parent_ids. destruct ps as [|p l]; [reflexivity|]. rewrite H. reflexivity. Qed.

Theorem uncommit_commit_id g ps tipb n tags files keep :
  wf_dag g = true -> fresh_next g = true -> valid_parents g ps = true ->
  tipb = hd_error ps ->                                   (* the tree is up to date with the branch *)
  match ps with p :: _ => p < length g | [] => True end -> (* ... whose tip is a present revision *)
  filter_parents g ps = ps ->                             (* as left by set_parent_ids *)
  forallb (fun nr => negb (snd nr =? length g)) tags = true -> (* no tag on the not yet existing revision *)
  let b := mkS tipb n tags in
  let t := mkT ps files in
  uncommit (commit_graph g t) (commit_branch g b) (Some (commit_tree g t)) None n keep false
  = Ok (b, Some t, None).
Proof.
  intros W F V Hup Hpres Hfp Htags b t.
  assert (W' : wf_dag (g ++ [ps]) = true) by (apply wf_extend; assumption).
  unfold commit_graph, commit_branch, commit_tree, b, t. cbn [tparents tfiles tip revno tagd].
  unfold uncommit. cbn [negb option_map tparents tip revno tagd].
  unfold plan. cbn [tip revno lefthand_opt tl].
  rewrite (walk_after_commit g ps n W F V Hpres).
  rewrite parents_back.
  rewrite set_parent_ids_ok.
  - cbn [tfiles].
    rewrite (filter_parents_heads (g ++ [ps]) g ps (heads_extend g ps ps W W' F (ps_not_new g ps V))), Hfp.
    rewrite (tags_survive g ps tags W' Htags). subst tipb. destruct keep; reflexivity.
  - destruct ps as [|p l]; [exact I|]. unfold ghost, present. apply negb_false_iff. apply Nat.ltb_lt.
    rewrite app_length. cbn. lia.
Qed.

(* ---- bound branches and tags (after commit 495a382) --------------------------------------- *)

(* the names of the tags uncommit removes from the branch are also removed from the
   master (bound or local=True alike: BasicTags.delete_tag does it) *)
Theorem bound_master_tags g b t mb k loc b' t' m' :
  uncommit g b t (Some mb) k false loc = Ok (b', t', m') ->
  exists nt ps mb', plan g b (option_map tparents t) k = Ok (nt, ps) /\ m' = Some mb' /\
    tagd b' = remove_tags g (tagd b) (tip b) ps /\
    tagd mb' = delete_names (map fst (filter (fun nr => removed_tag g (tip b) ps nr) (tagd b))) (tagd mb).
Proof.
  unfold uncommit. intros H.
  destruct loc.
  - cbn [negb] in H.
    destruct (plan g b (option_map tparents t) k) as [[nt ps]|e]; [|discriminate].
    exists nt, ps. destruct t as [ts|].
    + destruct (set_parent_ids g ts ps) as [ts'|e]; [|discriminate].
      injection H as <- _ <-. eexists. repeat split.
    + injection H as <- _ <-. eexists. repeat split.
  - destruct (negb (opt_eqb (tip b) (tip mb))); [discriminate|].
    destruct (plan g b (option_map tparents t) k) as [[nt ps]|e]; [|discriminate].
    exists nt, ps. destruct t as [ts|].
    + destruct (set_parent_ids g ts ps) as [ts'|e]; [|discriminate].
      injection H as <- _ <-. eexists. repeat split.
    + injection H as <- _ <-. eexists. repeat split.
Qed.

(* ---- the round trip in a bound branch, with --local ------------------------------------ *)

Lemma filter_none {A} (f : A -> bool) (l : list A) :
  forallb (fun x => negb (f x)) l = true -> filter f l = [].
Proof.
  induction l as [|x l IH]; cbn; intros H; [reflexivity|].
  apply andb_true_iff in H as [H1 H2]. apply negb_true_iff in H1. rewrite H1. apply IH. exact H2.
Qed.

Lemma delete_no_names tags : delete_names [] tags = tags.
Proof. unfold delete_names. apply filter_all. induction tags as [|x l IH]; [reflexivity | exact IH]. Qed.

Lemma nothing_removed g ps tags : wf_dag (g ++ [ps]) = true ->
  forallb (fun nr => negb (snd nr =? length g)) tags = true ->
  filter (fun nr => removed_tag (g ++ [ps]) (Some (length g)) ps nr) tags = [].
Proof.
  intros W' T. apply filter_none. rewrite forallb_forall in T. apply forallb_forall.
  intros nr Hnr. specialize (T nr Hnr). apply negb_true_iff in T. apply Nat.eqb_neq in T.
  apply negb_true_iff. unfold removed_tag. apply memb_false. intros H.
  apply T. apply (only_new_is_unique g ps _ W' H).
Qed.

(* commit(local=True) then uncommit(local=True) in a bound branch whose master [mb]
   is anywhere (at the old tip, or behind it after earlier local commits):
   branch, tree and master are all exactly what they were *)
Theorem local_uncommit_commit_id g ps tipb n tags files keep mb :
  wf_dag g = true -> fresh_next g = true -> valid_parents g ps = true ->
  tipb = hd_error ps ->
  match ps with p :: _ => p < length g | [] => True end ->
  filter_parents g ps = ps ->
  forallb (fun nr => negb (snd nr =? length g)) tags = true ->
  let b := mkS tipb n tags in
  let t := mkT ps files in
  uncommit (commit_graph g t) (commit_branch g b) (Some (commit_tree g t)) (Some mb) n keep true
  = Ok (b, Some t, Some mb).
Proof.
  intros W F V Hup Hpres Hfp Htags b t.
  assert (W' : wf_dag (g ++ [ps]) = true) by (apply wf_extend; assumption).
  unfold commit_graph, commit_branch, commit_tree, b, t. cbn [tparents tfiles tip revno tagd].
  unfold uncommit. cbn [negb option_map tparents tip revno tagd].
  unfold plan. cbn [tip revno lefthand_opt tl].
  rewrite (walk_after_commit g ps n W F V Hpres).
  rewrite parents_back.
  rewrite set_parent_ids_ok.
  - cbn [tfiles].
    rewrite (filter_parents_heads (g ++ [ps]) g ps (heads_extend g ps ps W W' F (ps_not_new g ps V))), Hfp.
    rewrite (tags_survive g ps tags W' Htags), (nothing_removed g ps tags W' Htags).
    cbn [map]. rewrite delete_no_names. subst tipb. destruct mb as [mt mr mtags].
    cbn [tip revno tagd]. destruct keep; reflexivity.
  - destruct ps as [|p l]; [exact I|]. unfold ghost, present. apply negb_false_iff. apply Nat.ltb_lt.
    rewrite app_length. cbn. lia.
Qed.

(* the mixed sequence: a non-local uncommit of a local commit is refused *)
Theorem local_commit_nonlocal_uncommit_refused g b t mb k keep :
  tip mb <> Some (length g) ->
  uncommit (commit_graph g t) (commit_branch g b) (Some (commit_tree g t)) (Some mb) k keep false
  = Err BoundBranchOutOfDate.
Proof.
  intros H. apply bound_out_of_date. unfold commit_branch. cbn [tip].
  destruct (tip mb) as [x|]; cbn; [|reflexivity].
  apply Nat.eqb_neq. intros E. apply H. rewrite E. reflexivity.
Qed.
