(* Theory/Uncommit.v -- proofs about Model/Uncommit.v (C16), for arbitrary
   well-formed revision graphs. *)
From Coq Require Import List Arith Bool Lia.
From BV Require Import Lib.Dag Theory.DagFacts Model.Uncommit.
Import ListNotations.

(* ---- the left-hand walk --------------------------------------------------- *)

(* removing revisions down to revno [new] from a ghost-free left-hand history:
   the new tip is the element (cur - new) of the history (null: when the
   history is exhausted) and the merged parents of every removed mainline
   revision are collected *)
Lemma walk_spec g : forall lh cur new pm,
  forallb (present g) lh = true -> new <= cur ->
  walk g lh cur new pm =
  Ok (nth_error lh (cur - new),
      pm ++ flat_map (fun r => rev (merged g r)) (firstn (cur - new) lh)).
Proof.
  induction lh as [|r rest IH]; intros cur new pm P L.
  - cbn [walk]. destruct (cur - new); cbn; rewrite app_nil_r; reflexivity.
  - cbn [walk forallb] in *. apply andb_true_iff in P as [P1 P2].
    unfold ghost. rewrite P1. cbn [negb].
    destruct (cur =? new) eqn:E.
    + apply Nat.eqb_eq in E. subst. rewrite Nat.sub_diag. cbn. rewrite app_nil_r. reflexivity.
    + apply Nat.eqb_neq in E. rewrite IH; [|exact P2|lia].
      replace (cur - new) with (S (cur - 1 - new)) by lia.
      cbn [nth_error firstn flat_map]. rewrite app_assoc. reflexivity.
Qed.

Lemma rev_flat_map_rev {A B} (f : A -> list B) l :
  rev (flat_map (fun r => rev (f r)) l) = flat_map f (rev l).
Proof.
  induction l as [|a l IH]; [reflexivity|].
  cbn [flat_map rev]. rewrite rev_app_distr, rev_involutive, IH, flat_map_app.
  cbn [flat_map]. rewrite app_nil_r. reflexivity.
Qed.

(* uncommitting down to revno k: new tip and new parent list *)
Theorem plan_spec g b tp k :
  forallb (present g) (lefthand_opt g (tip b)) = true -> k <= revno b ->
  let lh := lefthand_opt g (tip b) in
  let d := revno b - k in
  plan g b (Some tp) k =
  Ok (nth_error lh d,
      opt_list (nth_error lh d) ++ flat_map (merged g) (rev (firstn d lh)) ++ rev (tl tp)).
Proof.
  intros P L lh d. unfold plan. fold lh.
  rewrite (walk_spec g lh (revno b) k (tl tp) P L). fold d.
  rewrite rev_app_distr, rev_flat_map_rev. reflexivity.
Qed.

Theorem plan_spec_no_tree g b k :
  forallb (present g) (lefthand_opt g (tip b)) = true -> k <= revno b ->
  let lh := lefthand_opt g (tip b) in
  plan g b None k = Ok (nth_error lh (revno b - k), opt_list (nth_error lh (revno b - k))).
Proof.
  intros P L lh. unfold plan. fold lh.
  rewrite (walk_spec g lh (revno b) k [] P L). reflexivity.
Qed.

(* ---- general shape of a successful uncommit -------------------------------- *)

Lemma uncommit_ok g b t m k keep loc b' t' m' :
  uncommit g b t m k keep loc = Ok (b', t', m') ->
  exists new_tip ps,
    plan g b (option_map tparents t) k = Ok (new_tip, ps) /\
    tip b' = new_tip /\ revno b' = k /\
    tagd b' = (if keep then tagd b else remove_tags g (tagd b) (tip b) ps) /\
    match t with
    | None => t' = None
    | Some ts => exists ts', t' = Some ts' /\ set_parent_ids g ts ps = Ok ts'
    end /\
    match m with
    | None => m' = None
    | Some mb => exists mb', m' = Some mb' /\
                 (if loc then tip mb' = tip mb /\ revno mb' = revno mb
                  else tip mb' = new_tip /\ revno mb' = k /\ opt_eqb (tip b) (tip mb) = true)
    end.
Proof.
  unfold uncommit. intros H.
  destruct loc.
  - destruct m as [mb|]; [|discriminate]. cbn [negb] in H.
    destruct (plan g b (option_map tparents t) k) as [[nt ps]|e]; [|discriminate].
    exists nt, ps. split; [reflexivity|].
    destruct t as [ts|].
    + destruct (set_parent_ids g ts ps) as [ts'|e] eqn:E; [|discriminate].
      injection H as <- <- <-. cbn. repeat split; try reflexivity.
      * exists ts'. split; reflexivity.
      * eexists. split; [reflexivity|]. split; reflexivity.
    + injection H as <- <- <-. cbn. repeat split; try reflexivity.
      eexists. split; [reflexivity|]. split; reflexivity.
  - destruct (match m with Some mb => negb (opt_eqb (tip b) (tip mb)) | None => false end) eqn:OOD;
      [discriminate|].
    destruct (plan g b (option_map tparents t) k) as [[nt ps]|e]; [|discriminate].
    exists nt, ps. split; [reflexivity|].
    assert (M : forall mtags, match m with
                 | None => @None bstate = None
                 | Some mb => exists mb', Some (mkS nt k (mtags mb)) = Some mb' /\
                     tip mb' = nt /\ revno mb' = k /\ opt_eqb (tip b) (tip mb) = true
                 end).
    { intros mtags. destruct m as [mb|]; [|reflexivity]. eexists. split; [reflexivity|].
      cbn. split; [reflexivity|]. split; [reflexivity|]. apply negb_false_iff in OOD. exact OOD. }
    destruct t as [ts|].
    + destruct (set_parent_ids g ts ps) as [ts'|e] eqn:E; [|discriminate].
      injection H as <- <- <-. cbn. repeat split; try reflexivity.
      * exists ts'. split; reflexivity.
      * destruct m as [mb|]; [|reflexivity]. apply (M (fun mb => if keep then tagd mb else _)).
    + injection H as <- <- <-. cbn. repeat split; try reflexivity.
      destruct m as [mb|]; [|reflexivity]. apply (M (fun mb => if keep then tagd mb else _)).
Qed.

(* ---- tags -------------------------------------------------------------------- *)

(* a tag is dropped exactly when its revision is in the ancestry of the old tip
   and of none of the new parents (new tip and re-recorded pending merges) *)
Theorem remove_tags_spec g tags o ps nr : wf_dag g = true ->
  (In nr (remove_tags g tags (Some o) ps) <->
   In nr tags /\ ~ (reach g (snd nr) o /\ forall p, In p ps -> ~ reach g (snd nr) p)).
Proof.
  intros W. unfold remove_tags, removed_tag.
  rewrite filter_In, negb_true_iff, memb_false, (find_unique_ancestors_spec g o ps (snd nr) W).
  reflexivity.
Qed.

Theorem keep_tags_keeps g b t m k loc b' t' m' :
  uncommit g b t m k true loc = Ok (b', t', m') -> tagd b' = tagd b.
Proof.
  intros H. apply uncommit_ok in H as [nt [ps [_ [_ [_ [H _]]]]]]. exact H.
Qed.

(* ---- files --------------------------------------------------------------------- *)

Theorem files_untouched g b ts m k keep loc b' t' m' :
  uncommit g b (Some ts) m k keep loc = Ok (b', t', m') ->
  exists ts', t' = Some ts' /\ tfiles ts' = tfiles ts.
Proof.
  intros H. apply uncommit_ok in H as [nt [ps [_ [_ [_ [_ [[ts' [-> S]] _]]]]]]].
  exists ts'. split; [reflexivity|]. unfold set_parent_ids in S.
  destruct ps as [|p ps'].
  - injection S as <-. reflexivity.
  - destruct (ghost g p); [discriminate|]. injection S as <-. reflexivity.
Qed.

(* ---- the tree's basis ------------------------------------------------------------ *)

Theorem basis_is_tip_guarded g b ts m k keep loc b' ts' m' x :
  uncommit g b (Some ts) m k keep loc = Ok (b', Some ts', m') ->
  tip b' = Some x -> hd_error (tparents ts') = Some x.
Proof.
  intros H Hx. apply uncommit_ok in H as [nt [ps [P [T [_ [_ [[ts2 [E S]] _]]]]]]].
  injection E as <-. rewrite T in Hx. subst nt.
  unfold plan in P. cbn [option_map] in P.
  destruct (walk g (lefthand_opt g (tip b)) (revno b) k (tl (tparents ts))) as [[nt pm]|e]; [|discriminate].
  injection P as -> <-. cbn [opt_list app] in S. unfold set_parent_ids in S.
  destruct (ghost g x); [discriminate|]. injection S as <-. reflexivity.
Qed.

Definition refute_g : dag := [[]; []; [0; 1]].
Theorem basis_is_tip_refuted :
  exists g b ts b' ts',
    wf_dag g = true /\ distance_opt g (tip b) = Some (revno b) /\
    filter_parents g (tparents ts) = tparents ts /\ hd_error (tparents ts) = tip b /\
    uncommit g b (Some ts) None 0 false false = Ok (b', Some ts', None) /\
    tip b' = None /\ tparents ts' = [1].
Proof.
  exists refute_g, (mkS (Some 2) 2 []), (mkT [2] []), (mkS None 0 []), (mkT [1] []).
  repeat split; reflexivity.
Qed.

(* ---- bound branches ---------------------------------------------------------------- *)

Theorem bound_master_follows g b t mb k keep b' t' m' :
  uncommit g b t (Some mb) k keep false = Ok (b', t', m') ->
  exists mb', m' = Some mb' /\ tip mb' = tip b' /\ revno mb' = revno b' /\
              opt_eqb (tip b) (tip mb) = true.
Proof.
  intros H. apply uncommit_ok in H as [nt [ps [_ [T [R [_ [_ [mb' [-> [M1 [M2 M3]]]]]]]]]]].
  exists mb'. rewrite T, R. repeat split; assumption.
Qed.

Theorem bound_out_of_date g b t mb k keep :
  opt_eqb (tip b) (tip mb) = false ->
  uncommit g b t (Some mb) k keep false = Err BoundBranchOutOfDate.
Proof. intros H. unfold uncommit. rewrite H. reflexivity. Qed.

Theorem local_keeps_master g b t mb k keep b' t' m' :
  uncommit g b t (Some mb) k keep true = Ok (b', t', m') ->
  exists mb', m' = Some mb' /\ tip mb' = tip mb /\ revno mb' = revno mb.
Proof.
  intros H. apply uncommit_ok in H as [nt [ps [_ [_ [_ [_ [_ [mb' [-> [M1 M2]]]]]]]]]].
  exists mb'. repeat split; assumption.
Qed.

Theorem local_requires_bound g b t k keep :
  uncommit g b t None k keep true = Err LocalRequiresBoundBranch.
Proof. reflexivity. Qed.

(* ---- the new revno is right ---------------------------------------------------------- *)

Theorem new_tip_revno g b t m k keep loc b' t' m' x : wf_dag g = true ->
  distance_opt g (tip b) = Some (revno b) -> k <= revno b ->
  uncommit g b t m k keep loc = Ok (b', t', m') ->
  distance_opt g (tip b') = Some (revno b').
Proof.
  intros W C L H. clear x.
  apply uncommit_ok in H as [nt [ps [P [T [R _]]]]]. rewrite T, R. clear T R.
  destruct (tip b) as [o|] eqn:Ho.
  - cbn [distance_opt] in C. apply (distance_length g o _ W) in C as [C1 C2].
    assert (Pr : forallb (present g) (lefthand_opt g (tip b)) = true) by (rewrite Ho; exact C2).
    assert (N : nt = nth_error (lefthand g o) (revno b - k)).
    { destruct t as [ts|]; cbn [option_map] in P.
      - rewrite (plan_spec g b (tparents ts) k Pr L) in P. rewrite Ho in P. cbn [lefthand_opt] in P.
        injection P as <- _. reflexivity.
      - rewrite (plan_spec_no_tree g b k Pr L) in P. rewrite Ho in P. cbn [lefthand_opt] in P.
        injection P as <- _. reflexivity. }
    destruct nt as [r|]; cbn [distance_opt].
    + rewrite (lefthand_nth_distance g o (revno b - k) r W C2 (eq_sym N)). f_equal. lia.
    + symmetry in N. apply nth_error_None in N. f_equal. lia.
  - cbn [distance_opt] in C. injection C as C. assert (k = 0) by lia. subst k.
    unfold plan in P. rewrite Ho in P. cbn [lefthand_opt walk] in P.
    destruct t; cbn in P; injection P as <- _; reflexivity.
Qed.

(* ---- uncommit after commit ------------------------------------------------------------- *)

Lemma filter_all {A} (f : A -> bool) l : forallb f l = true -> filter f l = l.
Proof.
  induction l as [|x l IH]; cbn; intros H; [reflexivity|].
  apply andb_true_iff in H as [H1 H2]. rewrite H1, IH; [reflexivity | exact H2].
Qed.

Section Roundtrip.
Variable g : dag.
Hypothesis W : wf_dag g = true.
Hypothesis F : fresh_next g = true.
Variable ps : list revid.       (* the tree's parents: tip first, then pending merges *)
Hypothesis V : forallb (fun p => (p <? length g) || (S (length g) <=? p)) ps = true.

Let N := length g.
Let g' := g ++ [ps].

Lemma ps_not_new : forall p, In p ps -> p <> N.
Proof.
  intros p Hp. rewrite forallb_forall in V. specialize (V p Hp).
  apply orb_true_iff in V as [A|A]; [apply Nat.ltb_lt in A | apply Nat.leb_le in A]; unfold N; lia.
Qed.

Lemma wf_g' : wf_dag g' = true.
Proof. apply wf_extend; assumption. Qed.

Lemma only_new_is_unique r : In r (find_unique_ancestors g' N ps) -> r = N.
Proof.
  intros H. apply (find_unique_ancestors_spec g' N ps r wf_g') in H as [R X].
  inversion R as [|a p r' Hp Hap]; subst; [reflexivity|].
  unfold g', N in Hp. rewrite parents_new in Hp. exfalso. apply (X p Hp Hap).
Qed.

Lemma tags_survive tags : forallb (fun nr => negb (snd nr =? N)) tags = true ->
  remove_tags g' tags (Some N) ps = tags.
Proof.
  intros T. unfold remove_tags. apply filter_all. rewrite forallb_forall in *.
  intros nr Hnr. specialize (T nr Hnr). apply negb_true_iff in T. apply Nat.eqb_neq in T.
  apply negb_true_iff. unfold removed_tag. apply memb_false. intros H.
  apply T. apply only_new_is_unique. exact H.
Qed.

Lemma filter_parents_extend : filter_parents g' ps = filter_parents g ps.
Proof.
  unfold filter_parents. destruct ps as [|p rest] eqn:E; [reflexivity|].
  rewrite <- E. unfold g'. rewrite (heads_extend g ps ps W); [reflexivity | | exact F | exact ps_not_new].
  apply wf_g'.
Qed.

Theorem uncommit_commit_id tipb n tags files keep :
  opt_list tipb = firstn 1 ps ->                         (* the tree is up to date with the branch *)
  match tipb with Some x => x < length g | None => True end ->
  filter_parents g ps = ps ->                            (* as left by set_parent_ids *)
  forallb (fun nr => negb (snd nr =? N)) tags = true ->  (* no tag on the not yet existing revision *)
  let b := mkS tipb n tags in
  let t := mkT ps files in
  uncommit (commit_graph g t) (commit_branch g b) (Some (commit_tree g t)) None n keep false
  = Ok (b, Some t, None).
Proof.
  intros Hup Hpres Hfp Htags b t.
  unfold commit_graph, commit_branch, commit_tree, b, t. cbn [tparents tfiles tip revno tagd].
  fold N. fold g'.
  assert (LN : N < length g') by (unfold g', N; rewrite app_length; cbn; lia).
  assert (GN : ghost g' N = false).
  { unfold ghost, present. apply negb_false_iff. apply Nat.ltb_lt. exact LN. }
  assert (NE : (S n =? n) = false) by (apply Nat.eqb_neq; lia).
  unfold uncommit. cbn [negb option_map tparents tip revno tagd].
  unfold plan. cbn [tip revno lefthand_opt tl].
  rewrite (lefthand_unfold g' N wf_g' LN).
  assert (PN : parents g' N = ps) by (unfold g', N; apply parents_new).
  rewrite PN.
  destruct ps as [|t0 more] eqn:E.
  - (* first commit: the tree had no parents *)
    cbn in Hup. destruct tipb; [discriminate|].
    cbn [walk]. rewrite GN, NE. cbn [walk]. unfold merged. rewrite PN.
    cbn [tl rev app opt_list set_parent_ids tfiles].
    rewrite <- E. rewrite (tags_survive tags Htags). destruct keep; reflexivity.
  - cbn in Hup. destruct tipb as [x|]; [|discriminate]. injection Hup as ->.
    assert (T0 : t0 <> N) by (apply ps_not_new; rewrite E; left; reflexivity).
    rewrite <- E in *.
    unfold g' at 1. rewrite (lefthand_extend g ps t0 W F T0).
    destruct (lefthand_head g t0) as [l HL]. rewrite HL.
    cbn [walk]. rewrite GN, NE.
    assert (G0 : ghost g' t0 = false).
    { unfold ghost, present. apply negb_false_iff. apply Nat.ltb_lt. unfold N in LN. lia. }
    rewrite G0. replace (S n - 1) with n by lia. rewrite Nat.eqb_refl.
    unfold merged. rewrite PN.
    assert (PS : opt_list (Some t0) ++ rev ([] ++ rev (tl ps)) = ps).
    { cbn [app opt_list]. rewrite rev_involutive. rewrite E. reflexivity. }
    rewrite PS. unfold set_parent_ids. rewrite E at 1. rewrite G0.
    rewrite filter_parents_extend, Hfp. cbn [tfiles].
    rewrite (tags_survive tags Htags). destruct keep; reflexivity.
Qed.

End Roundtrip.
