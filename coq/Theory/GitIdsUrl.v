(* Theory/GitIdsUrl.v -- C36: git URL + branch/ref  <->  breezy URL with segment
   parameters; GitBranch parent location. *)
From Coq Require Import ZArith NArith List Bool Lia ZifyBool String.
From BV Require Import Lib.Bytes Model.GitIds Theory.GitIdsCodec Theory.GitIdsRefs.
Import ListNotations.
Open Scope N_scope.

(* ------------------------------------------------------------------ *)
(* "clean" text: ASCII, no white space, none of , / =                  *)
(* ------------------------------------------------------------------ *)

Definition cleanc (c : N) : bool :=
  negb (is_ws c) && negb (c =? 44) && negb (c =? 47) && negb (c =? 61) && (c <? 128).
Definition clean (s : str) : bool := forallb cleanc s.

Lemma clean_cons : forall c s, clean (c :: s) = cleanc c && clean s.
Proof. reflexivity. Qed.

Lemma clean_app : forall a b, clean (a ++ b) = clean a && clean b.
Proof. intros. apply forallb_app. Qed.

Lemma clean_memb : forall c s, clean s = true -> cleanc c = false -> memb c s = false.
Proof.
  intros c s. induction s as [|x s IH]; intros H Hc; [reflexivity|].
  rewrite clean_cons in H. apply andb_prop in H. destruct H as [Hx Hs].
  unfold memb. cbn [existsb]. fold (memb c s). rewrite (IH Hs Hc), orb_false_r.
  destruct (N.eqb_spec c x) as [E|E]; [|reflexivity].
  subst x. rewrite Hx in Hc. discriminate.
Qed.

Lemma clean_rev : forall s, clean (rev s) = clean s.
Proof.
  induction s as [|x s IH]; [reflexivity|].
  cbn [rev]. rewrite clean_app, IH, !clean_cons. cbn [clean forallb].
  rewrite andb_true_r. apply andb_comm.
Qed.

Lemma drop_ws_clean : forall s, clean s = true -> drop_ws s = s.
Proof.
  intros [|c s] H; [reflexivity|].
  rewrite clean_cons in H. apply andb_prop in H. destruct H as [Hc _].
  unfold cleanc in Hc. cbn [drop_ws].
  destruct (is_ws c); [discriminate|reflexivity].
Qed.

Lemma trim_clean : forall s, clean s = true -> trim s = s.
Proof.
  intros s H. unfold trim. rewrite (drop_ws_clean s H).
  rewrite drop_ws_clean by (rewrite clean_rev; exact H). apply rev_involutive.
Qed.

Lemma clean_ascii : forall s, clean s = true -> is_ascii s = true.
Proof.
  induction s as [|c s IH]; intros H; [reflexivity|].
  rewrite clean_cons in H. apply andb_prop in H. destruct H as [Hc Hs].
  unfold is_ascii. cbn [forallb]. fold (is_ascii s). rewrite (IH Hs), andb_true_r.
  unfold cleanc in Hc. apply andb_prop in Hc. tauto.
Qed.

Lemma cleanc_44 : cleanc 44 = false. Proof. reflexivity. Qed.
Lemma cleanc_47 : cleanc 47 = false. Proof. reflexivity. Qed.
Lemma cleanc_61 : cleanc 61 = false. Proof. reflexivity. Qed.

(* ------------------------------------------------------------------ *)
(* percent-encoding                                                   *)
(* ------------------------------------------------------------------ *)

Lemma always_safe_cleanc : forall b, always_safe b = true -> cleanc b = true /\ (b =? 37) = false.
Proof.
  intros b H. unfold always_safe, is_alnum in H. unfold cleanc, is_ws. split; lia.
Qed.

Lemma hexdig_cleanc : forall n, n < 16 -> cleanc (hexdig n) = true.
Proof.
  intros n H. unfold hexdig. destruct (n <? 10) eqn:E.
  - remember (48 + n) as d eqn:Hd. unfold cleanc, is_ws. lia.
  - remember (55 + n) as d eqn:Hd. unfold cleanc, is_ws. lia.
Qed.

Lemma hexval_hexdig : forall n, n < 16 -> hexval (hexdig n) = Some n.
Proof.
  intros n H. unfold hexdig. destruct (n <? 10) eqn:E.
  - remember (48 + n) as d eqn:Hd. unfold hexval.
    replace ((48 <=? d) && (d <? 58)) with true by lia. f_equal. lia.
  - remember (55 + n) as d eqn:Hd. unfold hexval.
    replace ((48 <=? d) && (d <? 58)) with false by lia.
    replace ((65 <=? d) && (d <? 71)) with true by lia. f_equal. lia.
Qed.

Lemma quote_byte_nil : forall b,
  quote_byte [] b = if always_safe b then [b] else [37; hexdig (b / 16); hexdig (b mod 16)].
Proof. intros b. unfold quote_byte. cbn [memb existsb]. rewrite orb_false_r. reflexivity. Qed.

Lemma quote_byte_clean : forall b, b < 256 -> clean (quote_byte [] b) = true.
Proof.
  intros b Hb. rewrite quote_byte_nil. destruct (always_safe b) eqn:S.
  - rewrite clean_cons. rewrite (proj1 (always_safe_cleanc b S)). reflexivity.
  - assert (H1 : b / 16 < 16) by lia. assert (H2 : b mod 16 < 16) by lia.
    rewrite !clean_cons, (hexdig_cleanc _ H1), (hexdig_cleanc _ H2). reflexivity.
Qed.

Lemma quote_clean : forall bs, wf_bytes bs = true -> clean (quote_from_bytes [] bs) = true.
Proof.
  induction bs as [|b bs IH]; intros H; [reflexivity|].
  unfold wf_bytes in H. rewrite forallb_cons in H. apply andb_prop in H. destruct H as [Hb Hs].
  unfold wf_byte in Hb. unfold quote_from_bytes. cbn [flat_map].
  rewrite clean_app. fold (quote_from_bytes [] bs).
  rewrite quote_byte_clean by lia. rewrite (IH Hs). reflexivity.
Qed.

Lemma pd_cons_other : forall c r,
  (c =? 37) = false -> percent_decode_aux 0 (c :: r) = c :: percent_decode_aux 0 r.
Proof. intros c r H. cbn [percent_decode_aux]. rewrite H. reflexivity. Qed.

Lemma pd_cons_pct : forall h l r x y,
  hexval h = Some x -> hexval l = Some y ->
  percent_decode_aux 0 (37 :: h :: l :: r) = (x * 16 + y) :: percent_decode_aux 0 r.
Proof.
  intros h l r x y Hx Hy.
  change (percent_decode_aux 0 (37 :: h :: l :: r))
    with (match (match hexval h, hexval l with
                 | Some x, Some y => Some (x * 16 + y)
                 | _, _ => None
                 end) with
          | Some v => v :: percent_decode_aux 2 (h :: l :: r)
          | None => 37 :: percent_decode_aux 0 (h :: l :: r)
          end).
  rewrite Hx, Hy. reflexivity.
Qed.

Lemma percent_decode_quote_byte : forall b rest, b < 256 ->
  percent_decode_aux 0 (quote_byte [] b ++ rest) = b :: percent_decode_aux 0 rest.
Proof.
  intros b rest Hb. rewrite quote_byte_nil. destruct (always_safe b) eqn:S.
  - change ([b] ++ rest) with (b :: rest).
    apply pd_cons_other. exact (proj2 (always_safe_cleanc b S)).
  - assert (H1 : b / 16 < 16) by lia. assert (H2 : b mod 16 < 16) by lia.
    change ([37; hexdig (b / 16); hexdig (b mod 16)] ++ rest)
      with (37 :: hexdig (b / 16) :: hexdig (b mod 16) :: rest).
    rewrite (pd_cons_pct _ _ _ _ _ (hexval_hexdig _ H1) (hexval_hexdig _ H2)).
    f_equal. lia.
Qed.

Theorem percent_decode_quote : forall bs, wf_bytes bs = true ->
  percent_decode (quote_from_bytes [] bs) = bs.
Proof.
  unfold percent_decode.
  induction bs as [|b bs IH]; intros H; [reflexivity|].
  unfold wf_bytes in H. rewrite forallb_cons in H. apply andb_prop in H. destruct H as [Hb Hs].
  unfold wf_byte in Hb. unfold quote_from_bytes. cbn [flat_map]. fold (quote_from_bytes [] bs).
  rewrite percent_decode_quote_byte by lia. rewrite (IH Hs). reflexivity.
Qed.

(* ------------------------------------------------------------------ *)
(* UTF-8 encoding of ASCII text and of concatenations                  *)
(* ------------------------------------------------------------------ *)

Lemma utf8_encode_ascii : forall se s, is_ascii s = true -> utf8_encode se s = Some s.
Proof.
  intros se. induction s as [|c s IH]; intros H; [reflexivity|].
  unfold is_ascii in H. rewrite forallb_cons in H. apply andb_prop in H. destruct H as [Hc Hs].
  rewrite utf8_encode_cons. unfold enc_cp. rewrite Hc. fold (is_ascii s) in Hs.
  rewrite (IH Hs). reflexivity.
Qed.

Lemma utf8_encode_app_some : forall se a b x y,
  utf8_encode se a = Some x -> utf8_encode se b = Some y ->
  utf8_encode se (a ++ b) = Some (x ++ y).
Proof.
  intros se. induction a as [|c a IH]; intros b x y Ha Hb.
  - cbn [utf8_encode] in Ha. apply Some_inj in Ha. subst x. exact Hb.
  - rewrite utf8_encode_cons in Ha.
    destruct (enc_cp se c) as [e|] eqn:He; [|discriminate].
    destruct (utf8_encode se a) as [x'|] eqn:Hx; [|discriminate].
    apply Some_inj in Ha. subst x.
    change ((c :: a) ++ b) with (c :: (a ++ b)). rewrite utf8_encode_cons, He.
    rewrite (IH b x' y eq_refl Hb). rewrite app_assoc. reflexivity.
Qed.

(* ------------------------------------------------------------------ *)
(* last path segment                                                  *)
(* ------------------------------------------------------------------ *)

Lemma memb_app : forall c a b, memb c (a ++ b) = memb c a || memb c b.
Proof. intros. unfold memb. apply existsb_app. Qed.

Lemma split_last_slash_noslash : forall t, memb 47 t = false -> split_last_slash t = ([], t).
Proof.
  intros [|c t] H; [reflexivity|]. cbn [split_last_slash]. rewrite H. reflexivity.
Qed.

Lemma split_last_slash_app : forall L t,
  memb 47 t = false ->
  split_last_slash (L ++ t) = (fst (split_last_slash L), snd (split_last_slash L) ++ t).
Proof.
  induction L as [|c L IH]; intros t H.
  - apply split_last_slash_noslash. exact H.
  - change ((c :: L) ++ t) with (c :: (L ++ t)). cbn [split_last_slash].
    change (c :: (L ++ t)) with ((c :: L) ++ t) at 1. rewrite memb_app, H, orb_false_r.
    destruct (memb 47 (c :: L)) eqn:M.
    + rewrite (IH t H). destruct (split_last_slash L) as [p s]. reflexivity.
    + reflexivity.
Qed.

Lemma split_last_slash_cat : forall L, fst (split_last_slash L) ++ snd (split_last_slash L) = L.
Proof.
  induction L as [|c L IH]; [reflexivity|].
  cbn [split_last_slash]. destruct (memb 47 (c :: L)).
  - destruct (split_last_slash L) as [p s]. cbn [fst snd app] in *. f_equal. exact IH.
  - reflexivity.
Qed.

Lemma ends_with_slash_last : forall u, ends_with_slash u = true -> exists a, u = a ++ [47].
Proof.
  intros u H. unfold ends_with_slash in H. destruct (rev u) as [|x t] eqn:R; [discriminate|].
  exists (rev t). apply (f_equal (@rev N)) in R. rewrite rev_involutive in R. cbn [rev] in R.
  destruct (N.eqb_spec x 47) as [E|E].
  - subst x. exact R.
  - exfalso. destruct x as [|p]; [discriminate|].
    do 6 (destruct p as [p|p|]; try discriminate). contradiction.
Qed.

Lemma ends_with_slash_app : forall a b,
  b <> [] -> memb 47 b = false -> ends_with_slash (a ++ b) = false.
Proof.
  intros a b Hne Hm. destruct (ends_with_slash (a ++ b)) eqn:E; [|reflexivity].
  exfalso. apply ends_with_slash_last in E. destruct E as [a' E].
  destruct (exists_last Hne) as [b0 [y Hb]]. subst b.
  rewrite app_assoc in E. apply app_inj_tail in E. destruct E as [_ Ey]. subst y.
  rewrite memb_app in Hm. apply orb_false_elim in Hm. destruct Hm as [_ Hm].
  vm_compute in Hm. discriminate.
Qed.

Definition last_seg (u : str) : str := snd (split_last_slash u).

(* the guard of the URL round trip: no comma in the last path segment (with and
   without the trailing slash that split_segment_parameters strips) *)
Definition plain (L : str) : bool :=
  negb (memb 44 (last_seg (strip_trailing_slash L))) && negb (memb 44 (last_seg L)).

Lemma plain_split : forall L, plain L = true -> split_segment_parameters L = Some (L, []).
Proof.
  intros L H. unfold plain in H. apply andb_prop in H. destruct H as [H1 _].
  unfold split_segment_parameters, split_segment_parameters_raw. unfold last_seg in H1.
  destruct (split_last_slash (strip_trailing_slash L)) as [pre seg]. cbn [snd] in H1.
  rewrite H1. reflexivity.
Qed.

Lemma split_once_app : forall c a b, memb c a = false -> split_once c (a ++ c :: b) = Some (a, b).
Proof.
  intros c a b. induction a as [|x a IH]; intros H.
  - change ([] ++ c :: b) with (c :: b). cbn [split_once]. rewrite N.eqb_refl. reflexivity.
  - apply memb_false_neq in H. destruct H as [H1 H2].
    change ((x :: a) ++ c :: b) with (x :: (a ++ c :: b)). cbn [split_once].
    rewrite H1, (IH H2). reflexivity.
Qed.

(* splitting what join produced *)
Lemma split_joined : forall L key q,
  plain L = true -> clean key = true -> clean q = true ->
  split_segment_parameters (L ++ 44 :: key ++ 61 :: q) = Some (L, [(key, q)]).
Proof.
  intros L key q HL Hk Hq.
  assert (M47 : memb 47 (44 :: key ++ 61 :: q) = false).
  { unfold memb. cbn [existsb]. fold (memb 47 (key ++ 61 :: q)).
    rewrite memb_app. rewrite (clean_memb 47 key Hk cleanc_47).
    unfold memb. cbn [existsb]. fold (memb 47 q). rewrite (clean_memb 47 q Hq cleanc_47).
    reflexivity. }
  assert (M44 : memb 44 (key ++ 61 :: q) = false).
  { rewrite memb_app. rewrite (clean_memb 44 key Hk cleanc_44).
    unfold memb. cbn [existsb]. fold (memb 44 q). rewrite (clean_memb 44 q Hq cleanc_44).
    reflexivity. }
  unfold plain in HL. apply andb_prop in HL. destruct HL as [_ H2].
  apply negb_true_iff in H2. unfold last_seg in H2.
  unfold split_segment_parameters, split_segment_parameters_raw.
  assert (S : strip_trailing_slash (L ++ 44 :: key ++ 61 :: q) = L ++ 44 :: key ++ 61 :: q).
  { unfold strip_trailing_slash. rewrite ends_with_slash_app; [reflexivity|discriminate|exact M47]. }
  rewrite S, (split_last_slash_app L _ M47).
  pose proof (split_last_slash_cat L) as Hcat.
  destruct (split_last_slash L) as [p s]. cbn [fst snd] in *.
  rewrite memb_app. replace (memb 44 (44 :: key ++ 61 :: q)) with true by reflexivity.
  rewrite orb_true_r. cbn [negb].
  rewrite (split1_app 44 s _ H2), (split1_nomatch 44 _ M44). cbn [map].
  rewrite Hcat.
  (* trim of "key=value" *)
  assert (Tq : trim q = q) by (apply trim_clean; exact Hq).
  assert (Tk : trim key = key) by (apply trim_clean; exact Hk).
  assert (T : trim (key ++ 61 :: q) = key ++ 61 :: q).
  { unfold trim.
    assert (D1 : drop_ws (key ++ 61 :: q) = key ++ 61 :: q).
    { destruct key as [|k key]; [reflexivity|].
      rewrite clean_cons in Hk. apply andb_prop in Hk. destruct Hk as [Hc _].
      unfold cleanc in Hc. change ((k :: key) ++ 61 :: q) with (k :: (key ++ 61 :: q)).
      cbn [drop_ws]. destruct (is_ws k); [discriminate|reflexivity]. }
    rewrite D1.
    assert (D2 : drop_ws (rev (key ++ 61 :: q)) = rev (key ++ 61 :: q)).
    { rewrite rev_app_distr. cbn [rev]. rewrite <- !app_assoc.
      destruct (rev q) as [|x t] eqn:R.
      - reflexivity.
      - assert (Hx : clean (x :: t) = true) by (rewrite <- R, clean_rev; exact Hq).
        rewrite clean_cons in Hx. apply andb_prop in Hx. destruct Hx as [Hc _].
        unfold cleanc in Hc. change ((x :: t) ++ [61] ++ rev key) with (x :: (t ++ [61] ++ rev key)).
        cbn [drop_ws]. destruct (is_ws x); [discriminate|reflexivity]. }
    rewrite D2. apply rev_involutive. }
  rewrite T. cbn [collect_params].
  rewrite (split_once_app 61 key q (clean_memb 61 key Hk cleanc_61)).
  rewrite Tk, Tq. reflexivity.
Qed.

(* join_segment_parameters with one new parameter on a plain URL *)
Lemma join_single : forall L key q,
  plain L = true -> clean key = true -> clean q = true ->
  join_segment_parameters L [(key, q)] = Ok (L ++ 44 :: key ++ 61 :: q).
Proof.
  intros L key q HL Hk Hq. unfold join_segment_parameters.
  rewrite (plain_split L HL). cbn [existsb fst snd fold_left pinsert sort_params fold_right
                                  sort_insert map].
  rewrite (clean_memb 61 key Hk cleanc_61). cbn [orb].
  rewrite memb_app, (clean_memb 44 key Hk cleanc_44).
  replace (memb 44 ([61] ++ q)) with (memb 44 q) by reflexivity.
  rewrite (clean_memb 44 q Hq cleanc_44). cbn [orb join]. reflexivity.
Qed.

(* ------------------------------------------------------------------ *)
(* the way back: bzr_url_to_git_url on a joined URL                    *)
(* ------------------------------------------------------------------ *)

Definition valid_str (s : str) : Prop := exists e, utf8_encode false s = Some e.

Lemma K_REF_clean : clean K_REF = true. Proof. reflexivity. Qed.
Lemma K_BRANCH_clean : clean K_BRANCH = true. Proof. reflexivity. Qed.

Lemma joined_valid : forall L key q,
  valid_str L -> clean key = true -> clean q = true ->
  valid_str (L ++ 44 :: key ++ 61 :: q).
Proof.
  intros L key q [e He] Hk Hq.
  assert (A : is_ascii (44 :: key ++ 61 :: q) = true).
  { unfold is_ascii. rewrite forallb_cons, forallb_app, forallb_cons.
    fold (is_ascii key). fold (is_ascii q).
    rewrite (clean_ascii key Hk), (clean_ascii q Hq). reflexivity. }
  eexists. apply utf8_encode_app_some; [exact He|]. apply utf8_encode_ascii. exact A.
Qed.

Lemma back_plain : forall L, valid_str L -> plain L = true ->
  bzr_url_to_git_url L = Ok (L, None, None).
Proof.
  intros L [e He] HL. unfold bzr_url_to_git_url. rewrite He, (plain_split L HL). reflexivity.
Qed.

Lemma back_ref : forall L r,
  valid_str L -> plain L = true -> wf_bytes r = true ->
  bzr_url_to_git_url (L ++ 44 :: K_REF ++ 61 :: quote_from_bytes [] r) = Ok (L, None, Some r).
Proof.
  intros L r HV HL Hr.
  pose proof (quote_clean r Hr) as Hq.
  destruct (joined_valid L K_REF _ HV K_REF_clean Hq) as [e He].
  unfold bzr_url_to_git_url. rewrite He, (split_joined L K_REF _ HL K_REF_clean Hq).
  replace (pget K_BRANCH [(K_REF, quote_from_bytes [] r)]) with (@None str) by reflexivity.
  replace (pget K_REF [(K_REF, quote_from_bytes [] r)]) with (Some (quote_from_bytes [] r))
    by reflexivity.
  rewrite (utf8_encode_ascii false _ (clean_ascii _ Hq)), (percent_decode_quote r Hr).
  reflexivity.
Qed.

Lemma back_branch : forall L b eb,
  valid_str L -> plain L = true -> utf8_encode false b = Some eb ->
  bzr_url_to_git_url (L ++ 44 :: K_BRANCH ++ 61 :: quote_from_bytes [] eb) = Ok (L, Some b, None).
Proof.
  intros L b eb HV HL Hb.
  pose proof (utf8_encode_wf _ _ _ Hb) as Hwf.
  pose proof (quote_clean eb Hwf) as Hq.
  destruct (joined_valid L K_BRANCH _ HV K_BRANCH_clean Hq) as [e He].
  unfold bzr_url_to_git_url. rewrite He, (split_joined L K_BRANCH _ HL K_BRANCH_clean Hq).
  replace (pget K_BRANCH [(K_BRANCH, quote_from_bytes [] eb)])
    with (Some (quote_from_bytes [] eb)) by reflexivity.
  replace (pget K_REF [(K_BRANCH, quote_from_bytes [] eb)]) with (@None str) by reflexivity.
  unfold unescape. rewrite (clean_ascii _ Hq). cbn [negb].
  rewrite (percent_decode_quote eb Hwf), (utf8_encode_decode_strict b eb Hb). reflexivity.
Qed.

(* ------------------------------------------------------------------ *)
(* git_url_to_bzr_url: the parameter part                              *)
(* ------------------------------------------------------------------ *)

(* what git_url_to_bzr_url does to (branch, ref) before quoting them:
   HEAD means nothing, a refs/heads/ ref becomes a branch name *)
Definition norm_br (branch : option str) (ref : option bytes) : option bytes * option str :=
  let '(ref, branch) :=
    match ref with
    | Some r => if bytes_eqb r HEAD then (None, None) else (ref, branch)
    | None => (ref, branch)
    end in
  if nonempty ref then
    match ref with
    | Some r => match ref_to_branch_name r with
                | Ok b => match branch_name_to_ref b with
                          | Some r' => if bytes_eqb r' r then (None, Some b) else (ref, None)
                          | None => (ref, None)
                          end
                | Err _ => (ref, None)
                end
    | None => (ref, branch)
    end
  else (ref, branch).

Definition attach_norm (location : str) (rb : option bytes * option str) : res str :=
  let '(ref, branch) := rb in
  if nonempty ref || nonempty branch then
    let p_ref := match ref with
                 | Some (c :: r) => Ok [(K_REF, quote_from_bytes [] (c :: r))]
                 | _ => Ok []
                 end in
    let p_branch := match branch with
                    | Some (c :: b) => match quote_str [] (c :: b) with
                                       | Some q => Ok [(K_BRANCH, q)]
                                       | None => Err "TypeError"
                                       end
                    | _ => Ok []
                    end in
    match p_ref, p_branch with
    | Ok a, Ok b => join_segment_parameters location (a ++ b)
    | Err e, _ => Err e
    | _, Err e => Err e
    end
  else Ok location.

Lemma attach_params_norm : forall L branch ref,
  attach_params L branch ref = attach_norm L (norm_br branch ref).
Proof.
  intros L branch ref. unfold attach_params, attach_norm, norm_br.
  destruct ref as [r|]; [destruct (bytes_eqb r HEAD)|]; reflexivity.
Qed.

Definition ne_opt {A} (o : option (list A)) : option (list A) :=
  if nonempty o then o else None.

Definition valid_opt (o : option str) : Prop :=
  match o with Some b => valid_str b | None => True end.
Definition wf_opt (o : option bytes) : Prop :=
  match o with Some r => wf_bytes r = true | None => True end.

(* after normalisation at most one of the two is non-empty, and the branch is encodable *)
Lemma norm_br_shape : forall branch ref rf br,
  valid_opt branch -> wf_opt ref -> norm_br branch ref = (rf, br) ->
  (nonempty rf = true -> br = None /\ wf_opt rf) /\ valid_opt br.
Proof.
  intros branch ref rf br Hb Hr H. unfold norm_br in H.
  destruct ref as [r|].
  - destruct (bytes_eqb r HEAD).
    + cbn [nonempty] in H. inversion H; subst. split; [discriminate|exact I].
    + destruct (nonempty (Some r)) eqn:N.
      * destruct (ref_to_branch_name r) as [b|e] eqn:RB.
        -- assert (VB : valid_str b).
           { unfold ref_to_branch_name in RB.
             destruct (bytes_eqb r HEAD); [inversion RB; subst; exists []; reflexivity|].
             destruct (prefixb LOCAL_BRANCH_PREFIX r) eqn:P; [|discriminate].
             destruct (utf8_decode false (skipn (List.length LOCAL_BRANCH_PREFIX) r)) as [s|] eqn:D;
               [|discriminate].
             inversion RB; subst. apply prefixb_split in P. cbn [wf_opt] in Hr.
             rewrite P in Hr. apply wf_bytes_skip in Hr.
             eexists. exact (utf8_decode_encode false _ _ Hr D). }
           destruct (branch_name_to_ref b) as [r'|].
           ++ destruct (bytes_eqb r' r).
              ** inversion H; subst. split; [discriminate|exact VB].
              ** inversion H; subst. split; [intros _; split; [reflexivity|exact Hr]|exact I].
           ++ inversion H; subst. split; [intros _; split; [reflexivity|exact Hr]|exact I].
        -- inversion H; subst. split; [intros _; split; [reflexivity|exact Hr]|exact I].
      * inversion H; subst. rewrite N. split; [discriminate|exact Hb].
  - cbn [nonempty] in H. inversion H; subst. split; [discriminate|exact Hb].
Qed.

(* THE round trip on the parameter part *)
Theorem attach_roundtrip : forall L branch ref,
  valid_str L -> plain L = true -> valid_opt branch -> wf_opt ref ->
  exists u, attach_params L branch ref = Ok u /\
            bzr_url_to_git_url u
            = Ok (L, ne_opt (snd (norm_br branch ref)), ne_opt (fst (norm_br branch ref))).
Proof.
  intros L branch ref HV HL Hb Hr. rewrite attach_params_norm.
  destruct (norm_br branch ref) as [rf br] eqn:N.
  destruct (norm_br_shape _ _ _ _ Hb Hr N) as [S1 S2]. cbn [fst snd].
  unfold attach_norm.
  destruct rf as [[|c r]|].
  - (* ref = b"" *)
    destruct br as [[|d b]|]; cbn [nonempty orb ne_opt].
    + exists L. split; [reflexivity|]. apply back_plain; assumption.
    + destruct S2 as [eb Heb]. unfold quote_str. rewrite Heb. cbn [option_map app].
      exists (L ++ 44 :: K_BRANCH ++ 61 :: quote_from_bytes [] eb). split.
      * apply join_single; [exact HL|reflexivity|].
        apply quote_clean. exact (utf8_encode_wf _ _ _ Heb).
      * apply back_branch; assumption.
    + exists L. split; [reflexivity|]. apply back_plain; assumption.
  - destruct (S1 eq_refl) as [-> Hwf]. cbn [nonempty orb ne_opt app wf_opt] in *.
    exists (L ++ 44 :: K_REF ++ 61 :: quote_from_bytes [] (c :: r)). split.
    + apply join_single; [exact HL|reflexivity|]. apply quote_clean. exact Hwf.
    + apply back_ref; assumption.
  - destruct br as [[|d b]|]; cbn [nonempty orb ne_opt].
    + exists L. split; [reflexivity|]. apply back_plain; assumption.
    + destruct S2 as [eb Heb]. unfold quote_str. rewrite Heb. cbn [option_map app].
      exists (L ++ 44 :: K_BRANCH ++ 61 :: quote_from_bytes [] eb). split.
      * apply join_single; [exact HL|reflexivity|].
        apply quote_clean. exact (utf8_encode_wf _ _ _ Heb).
      * apply back_branch; assumption.
    + exists L. split; [reflexivity|]. apply back_plain; assumption.
Qed.

(* quoting the commas *)
Lemma quote_commas_cons : forall c l,
  quote_commas (c :: l) = (if c =? 44 then [37; 50; 67] else [c]) ++ quote_commas l.
Proof.
  intros c l. unfold quote_commas. rewrite !replace1_flat_map. cbn [flat_map].
  rewrite (N.eqb_sym 44 c). reflexivity.
Qed.

Lemma quote_commas_no_comma : forall l, memb 44 (quote_commas l) = false.
Proof.
  induction l as [|c l IH]; [reflexivity|].
  rewrite quote_commas_cons, memb_app, IH, orb_false_r.
  destruct (N.eqb_spec c 44) as [E|E]; [reflexivity|].
  unfold memb. cbn [existsb]. rewrite orb_false_r. apply N.eqb_neq. congruence.
Qed.

Lemma quote_commas_valid : forall l, valid_str l -> valid_str (quote_commas l).
Proof.
  induction l as [|c l IH]; intros [e He]; [exists []; reflexivity|].
  rewrite utf8_encode_cons in He.
  destruct (enc_cp false c) as [a|] eqn:Ha; [|discriminate].
  destruct (utf8_encode false l) as [b|] eqn:Hb; [|discriminate].
  destruct (IH (ex_intro _ b Hb)) as [b2 Hb2].
  rewrite quote_commas_cons.
  destruct (c =? 44).
  - eexists. apply utf8_encode_app_some; [|exact Hb2]. reflexivity.
  - eexists. apply utf8_encode_app_some; [|exact Hb2].
    rewrite utf8_encode_cons, Ha. reflexivity.
Qed.

Lemma memb_last_seg : forall c u, memb c u = false -> memb c (last_seg u) = false.
Proof.
  intros c u H. unfold last_seg. rewrite <- (split_last_slash_cat u), memb_app in H.
  apply orb_false_elim in H. tauto.
Qed.

Lemma memb_removelast : forall c (u : str), memb c u = false -> memb c (removelast u) = false.
Proof.
  intros c u H. destruct u as [|x u]; [reflexivity|].
  assert (Hne : x :: u <> []) by discriminate.
  rewrite (app_removelast_last 0 Hne), memb_app in H.
  apply orb_false_elim in H. tauto.
Qed.

Lemma memb_strip_trailing_slash : forall c u,
  memb c u = false -> memb c (strip_trailing_slash u) = false.
Proof.
  intros c u H. unfold strip_trailing_slash.
  destruct (negb (ends_with_slash u)); [exact H|].
  destruct (scheme_re u) as [[sch path]|]; [|apply memb_removelast; exact H].
  destruct (index_of 47 path) as [i|]; [|exact H].
  destruct (Nat.eqb (S i) (List.length path)); [exact H|apply memb_removelast; exact H].
Qed.

Lemma no_comma_plain : forall L, memb 44 L = false -> plain L = true.
Proof.
  intros L H. unfold plain.
  rewrite (memb_last_seg 44 _ (memb_strip_trailing_slash 44 L H)), (memb_last_seg 44 L H).
  reflexivity.
Qed.

(* the whole function: [L] is what the first half of git_url_to_bzr_url made of the location;
   the URL that comes back is L with its commas quoted -- for EVERY L *)
Theorem url_roundtrip : forall ssh_reser location L branch ref,
  url_head ssh_reser location = HCont L ->
  valid_str L -> valid_opt branch -> wf_opt ref ->
  (branch = None \/ ref = None) ->
  exists u, git_url_to_bzr_url ssh_reser location branch ref = Ok u /\
            bzr_url_to_git_url u
            = Ok (quote_commas L, ne_opt (snd (norm_br branch ref)), ne_opt (fst (norm_br branch ref))).
Proof.
  intros ssh_reser location L branch ref HH HV Hb Hr Hone.
  unfold git_url_to_bzr_url. rewrite HH.
  destruct (attach_roundtrip (quote_commas L) branch ref (quote_commas_valid L HV)
              (no_comma_plain _ (quote_commas_no_comma L)) Hb Hr) as [u [H1 H2]].
  exists u. split; [|exact H2].
  destruct Hone as [-> | ->]; [exact H1|destruct branch; exact H1].
Qed.

(* known git schemes other than ssh are left alone *)
Lemma url_head_known : forall ssh_reser location,
  existsb (bytes_eqb (url_scheme location)) KNOWN_GIT_SCHEMES = true ->
  bytes_eqb (url_scheme location) (asc "ssh") = false ->
  url_head ssh_reser location = HCont location.
Proof.
  intros ssh_reser location H1 H2. unfold url_head. rewrite H1, H2. reflexivity.
Qed.

(* readable special cases of [norm_br] *)
Lemma norm_br_branch : forall b, norm_br (Some b) None = (None, Some b).
Proof. reflexivity. Qed.

Lemma norm_br_ref_other : forall r e,
  bytes_eqb r HEAD = false -> ref_to_branch_name r = Err e ->
  norm_br None (Some r) = (if nonempty (Some r) then Some r else Some r, None).
Proof.
  intros r e H1 H2. unfold norm_br. rewrite H1. destruct (nonempty (Some r)); [|reflexivity].
  rewrite H2. reflexivity.
Qed.

Lemma norm_br_ref_heads : forall name e, name <> [] ->
  prefixb REFS_SLASH name = false ->
  utf8_encode false name = Some e ->
  norm_br None (Some (LOCAL_BRANCH_PREFIX ++ e)) = (None, Some name).
Proof.
  intros name e Hne Hg He. unfold norm_br.
  replace (bytes_eqb (LOCAL_BRANCH_PREFIX ++ e) HEAD) with false by reflexivity.
  replace (nonempty (Some (LOCAL_BRANCH_PREFIX ++ e))) with true by reflexivity.
  rewrite ref_to_branch_name_heads, (utf8_encode_decode_strict _ _ He).
  assert (B : branch_name_to_ref name = Some (LOCAL_BRANCH_PREFIX ++ e)).
  { unfold branch_name_to_ref. destruct name as [|c name]; [contradiction|].
    fold REFS_SLASH. rewrite Hg, He. reflexivity. }
  rewrite B, bytes_eqb_refl. reflexivity.
Qed.

(* a comma in the last segment (used to be read back as a segment parameter) *)
Example url_roundtrip_comma_example :
  git_url_to_bzr_url (fun l => l) (asc "git://h/r,a=b") (Some (asc "x")) None
    = Ok (asc "git://h/r%2Ca=b,branch=x") /\
  bzr_url_to_git_url (asc "git://h/r%2Ca=b,branch=x") = Ok (asc "git://h/r%2Ca=b", Some (asc "x"), None) /\
  git_url_to_bzr_url (fun l => l) (asc "git://h/r,a") None None = Ok (asc "git://h/r%2Ca") /\
  bzr_url_to_git_url (asc "git://h/r%2Ca") = Ok (asc "git://h/r%2Ca", None, None).
Proof. repeat split; vm_compute; reflexivity. Qed.

(* ------------------------------------------------------------------ *)
(* parent location                                                    *)
(* ------------------------------------------------------------------ *)

(* the ref a (branch, ref) pair denotes: what set_parent stores as branch.<name>.merge *)
Definition eff_ref (branch : option str) (ref : option bytes) : option bytes :=
  if nonempty branch then match branch with Some b => branch_name_to_ref b | None => None end
  else if nonempty ref then ref
  else Some HEAD.

Lemma merge_get_set : forall k v m, merge_get k (merge_set k v m) = Some v.
Proof.
  intros k v m. induction m as [|[k' v'] m IH].
  - cbn [merge_set merge_get]. rewrite bytes_eqb_refl. reflexivity.
  - cbn [merge_set]. destruct (bytes_eqb k k') eqn:E.
    + cbn [merge_get]. rewrite bytes_eqb_refl. reflexivity.
    + cbn [merge_get]. rewrite E. exact IH.
Qed.

(* set_parent then _get_parent_location (any named branch) *)
Theorem parent_roundtrip_guarded : forall ssh_reser rel name location cfg L branch ref v,
  name <> [] ->
  bzr_url_to_git_url location = Ok (L, branch, ref) ->
  eff_ref branch ref = Some v ->
  exists cfg', set_parent rel name location cfg = Ok cfg' /\
               get_parent_location ssh_reser name cfg'
               = match git_url_to_bzr_url ssh_reser (rel L) None (Some v) with
                 | Ok l => Ok (Some l)
                 | Err e => Err e
                 end.
Proof.
  intros ssh_reser rel name location cfg L branch ref v Hn HB HE.
  unfold set_parent. rewrite HB. destruct name as [|n0 name]; [contradiction|].
  unfold eff_ref in HE.
  destruct (nonempty branch) eqn:NB.
  - destruct branch as [b|]; [|discriminate]. rewrite HE.
    eexists. split; [reflexivity|].
    unfold get_parent_location. cbn [cfg_url cfg_merge]. rewrite merge_get_set. reflexivity.
  - destruct (nonempty ref) eqn:NR.
    + destruct ref as [r|]; [|discriminate]. apply Some_inj in HE. subst v.
      eexists. split; [reflexivity|].
      unfold get_parent_location. cbn [cfg_url cfg_merge]. rewrite merge_get_set. reflexivity.
    + apply Some_inj in HE. subst v.
      eexists. split; [reflexivity|].
      unfold get_parent_location. cbn [cfg_url cfg_merge]. rewrite merge_get_set. reflexivity.
Qed.

(* ... and the URL read back splits into the same location and an equivalent
   (branch, ref): end-to-end statement for plain locations of a known scheme *)
Theorem parent_location_equivalent : forall ssh_reser rel name location cfg L branch ref v,
  name <> [] ->
  bzr_url_to_git_url location = Ok (L, branch, ref) ->
  eff_ref branch ref = Some v -> wf_bytes v = true ->
  rel L = L -> url_head ssh_reser L = HCont L -> valid_str L ->
  exists cfg' u, set_parent rel name location cfg = Ok cfg' /\
                 get_parent_location ssh_reser name cfg' = Ok (Some u) /\
                 bzr_url_to_git_url u
                 = Ok (quote_commas L,
                       ne_opt (snd (norm_br None (Some v))), ne_opt (fst (norm_br None (Some v)))).
Proof.
  intros ssh_reser rel name location cfg L branch ref v Hn HB HE Hv Hrel HH HV.
  destruct (parent_roundtrip_guarded ssh_reser rel name location cfg L branch ref v Hn HB HE)
    as [cfg' [H1 H2]].
  rewrite Hrel in H2.
  destruct (url_roundtrip ssh_reser L L None (Some v) HH HV I Hv (or_introl eq_refl))
    as [u [H3 H4]].
  exists cfg', u. split; [exact H1|]. split; [|exact H4].
  rewrite H2, H3. reflexivity.
Qed.

(* the (branch, ref) pair that comes back denotes exactly the ref that went in
   (since the repair c5a74d8 also for refs/heads/refs/x and refs/heads/) *)
Theorem norm_br_eff : forall r,
  r <> [] -> bytes_eqb r HEAD = false ->
  eff_ref (ne_opt (snd (norm_br None (Some r)))) (ne_opt (fst (norm_br None (Some r)))) = Some r.
Proof.
  intros r Hne Hh. unfold norm_br. rewrite Hh.
  destruct r as [|c r]; [contradiction|]. cbn [nonempty].
  destruct (ref_to_branch_name (c :: r)) as [b|e] eqn:RB; [|reflexivity].
  destruct (branch_name_to_ref b) as [r'|] eqn:BR; [|reflexivity].
  destruct (bytes_eqb r' (c :: r)) eqn:E; [|reflexivity].
  apply bytes_eqb_eq in E. subst r'. cbn [fst snd].
  destruct b as [|d b].
  - cbn [branch_name_to_ref] in BR. apply Some_inj in BR. rewrite <- BR in Hh. discriminate.
  - unfold ne_opt, eff_ref. cbn [nonempty]. exact BR.
Qed.

(* a branch that is not called like its remote (the defect repaired in /repo: the merge
   ref used to be looked up under branch.<remote>) *)
Theorem parent_roundtrip_example :
  exists cfg',
    set_parent (fun l => l) (asc "foo") (asc "git://h/r,branch=b")
               {| cfg_url := None; cfg_merge := [] |} = Ok cfg' /\
    bzr_url_to_git_url (asc "git://h/r,branch=b") = Ok (asc "git://h/r", Some (asc "b"), None) /\
    get_parent_location (fun l => l) (asc "foo") cfg' = Ok (Some (asc "git://h/r,branch=b")).
Proof.
  exists {| cfg_url := Some (asc "git://h/r"); cfg_merge := [(asc "foo", asc "refs/heads/b")] |}.
  split; [vm_compute; reflexivity|]. split; vm_compute; reflexivity.
Qed.
