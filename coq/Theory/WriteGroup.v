(* Theory/WriteGroup.v -- lemmas, the state invariant and the main theorems about
   Model/WriteGroup.v (property C06). *)
From Coq Require Import List Bool NArith Lia.
From BV Require Import Lib.Obs Model.WriteGroup.
Import ListNotations.
Open Scope N_scope.

(* ---------- membership helpers ---------- *)
Lemma mem_In : forall k l, mem k l = true <-> In k l.
Proof.
  intros k l. unfold mem. rewrite existsb_exists. split.
  - intros [x [Hx He]]. apply N.eqb_eq in He. subst x. exact Hx.
  - intro H. exists k. split; [exact H | apply N.eqb_refl].
Qed.

Lemma mem_false_In : forall k l, mem k l = false <-> ~ In k l.
Proof.
  intros k l. rewrite <- mem_In. destruct (mem k l); split; intro H; try discriminate; try reflexivity.
  exfalso. apply H. reflexivity.
Qed.

Lemma name_eqb_eq : forall a b : name, name_eqb a b = true <-> a = b.
Proof.
  unfold name_eqb. induction a as [|x a IH]; intros [|y b]; simpl; split; intro H;
    try reflexivity; try discriminate.
  - apply andb_true_iff in H. destruct H as [H1 H2]. apply N.eqb_eq in H1. apply IH in H2. subst. reflexivity.
  - inversion H; subst. rewrite N.eqb_refl. simpl. apply IH. reflexivity.
Qed.

Lemma nmem_In : forall n l, nmem n l = true <-> In n l.
Proof.
  intros n l. unfold nmem. rewrite existsb_exists. split.
  - intros [x [Hx He]]. apply name_eqb_eq in He. subst x. exact Hx.
  - intro H. exists n. split; [exact H | apply name_eqb_eq; reflexivity].
Qed.

Lemma nmem_false_In : forall n l, nmem n l = false <-> ~ In n l.
Proof.
  intros n l. rewrite <- nmem_In. destruct (nmem n l); split; intro H; try discriminate; try reflexivity.
  exfalso. apply H. reflexivity.
Qed.

Lemma nremove_all_nil : forall l, nremove_all [] l = l.
Proof. unfold nremove_all. induction l as [|x l IH]; simpl; [reflexivity|]. f_equal. exact IH. Qed.

Lemma nremove_all_In : forall ns l x, In x (nremove_all ns l) <-> In x l /\ ~ In x ns.
Proof.
  intros ns l x. unfold nremove_all. rewrite filter_In. rewrite negb_true_iff, nmem_false_In. tauto.
Qed.

Lemma NoDup_snoc : forall (A : Type) (l : list A) x, NoDup l -> ~ In x l -> NoDup (l ++ [x]).
Proof.
  intros A l x Hn Hx. induction l as [|y l IH]; simpl.
  - constructor; [intros []|constructor].
  - inversion Hn; subst. constructor.
    + rewrite in_app_iff. intros [H|[H|[]]]; [contradiction|]. subst. apply Hx. left. reflexivity.
    + apply IH; [assumption|]. intro H. apply Hx. right. exact H.
Qed.

Lemma concat_toks : forall (wres : list name) (wnew : list N),
  List.concat (wres ++ (if wnew then [] else [wnew])) = List.concat wres ++ wnew.
Proof.
  intros wres [|k wnew].
  - rewrite !app_nil_r. reflexivity.
  - rewrite concat_app. simpl. rewrite app_nil_r. reflexivity.
Qed.

Lemma in_concat_iff : forall (l : list name) k, In k (List.concat l) <-> exists p, In p l /\ In k p.
Proof. intros l k. apply in_concat. Qed.

Section Theory.
  Variable C : catalog.
  Variable is_gc : bool.

  Notation step := (step C is_gc).
  Notation run := (run C is_gc).
  Notation revs_of := (revs_of C).
  Notation check_new_inventories := (check_new_inventories C).
  Notation refs_ok := (refs_ok C is_gc).
  Notation resume_toks := (resume_toks).

  Lemma run_app : forall a b s, run (a ++ b) s = run b (run a s).
  Proof. induction a as [|o a IH]; intros b s; simpl; [reflexivity|apply IH]. Qed.

  Lemma revs_of_app : forall a b, revs_of (a ++ b) = revs_of a ++ revs_of b.
  Proof. intros. unfold WriteGroup.revs_of. apply filter_app. Qed.

  (* ---------- one-step characterisations ---------- *)
  Lemma step_start : forall s, wg s = None -> broken s = false ->
    step Start s = (St (listed s) (upload s) (Some (WG [] [])) (mcp s) (newrevs s) false, ROk).
  Proof. intros s Hw Hb. unfold WriteGroup.step. rewrite Hb, Hw. reflexivity. Qed.

  Lemma step_ins : forall s w k, wg s = Some w -> broken s = false ->
    step (Ins k) s =
      (St (listed s) (upload s) (Some (WG (wnew w ++ [k]) (wres w))) (mcp_after_insert C is_gc s k)
          (if kind_eqb (kind_of C k) KRev then newrevs s ++ [k] else newrevs s) false, ROk).
  Proof. intros s w k Hw Hb. unfold WriteGroup.step. rewrite Hb, Hw. reflexivity. Qed.

  Lemma step_abort : forall s w, wg s = Some w -> broken s = false ->
    step Abort s = (St (listed s) (nremove_all (wres w) (upload s)) None (mcp s) [] false, ROk).
  Proof. intros s w Hw Hb. unfold WriteGroup.step. rewrite Hb, Hw. reflexivity. Qed.

  Lemma commit_ok_inv : forall s s', step Commit s = (s', ROk) ->
    exists w, wg s = Some w /\ broken s = false /\ mcp s = [] /\
      (is_gc = true -> check_new_inventories s = true) /\
      refs_ok (view s) (wnew w) = true /\ forallb (refs_ok (view s)) (wres w) = true /\
      s' = St (listed s ++ (if wnew w then [] else [wnew w]) ++ wres w)
              (nremove_all (wres w) (upload s)) None (mcp s) [] false.
  Proof.
    intros s s'. unfold WriteGroup.step.
    destruct (broken s) eqn:Hb; [discriminate|].
    destruct (wg s) as [w|] eqn:Hw; [|discriminate].
    destruct (mcp s) as [|m ms] eqn:Hm; simpl; [|discriminate].
    destruct (is_gc && negb (check_new_inventories s)) eqn:Hc; [discriminate|].
    destruct (refs_ok (view s) (wnew w) && forallb (refs_ok (view s)) (wres w)) eqn:Hr; simpl; [|discriminate].
    intro H. inversion H; subst s'. clear H.
    apply andb_true_iff in Hr. destruct Hr as [Hr1 Hr2].
    exists w. repeat split; try assumption; try reflexivity.
    intro Hg. rewrite Hg in Hc. simpl in Hc. apply negb_false_iff in Hc. exact Hc.
  Qed.

  (* ---------- T1: abort ---------- *)
  Lemma run_inserts_shape : forall ks s w, broken s = false -> wg s = Some w ->
    let s' := run (map Ins ks) s in
    listed s' = listed s /\ upload s' = upload s /\ broken s' = false /\
    wg s' = Some (WG (wnew w ++ ks) (wres w)) /\
    (is_gc = true -> mcp s = [] -> mcp s' = []).
  Proof.
    induction ks as [|k ks IH]; intros s w Hb Hw; simpl.
    - rewrite app_nil_r. destruct w. repeat split; try assumption; try reflexivity. intros _ H; exact H.
    - rewrite (step_ins s w k Hw Hb). simpl.
      set (s1 := St _ _ _ _ _ _).
      destruct (IH s1 (WG (wnew w ++ [k]) (wres w)) eq_refl eq_refl) as (H1 & H2 & H4 & H5 & H6).
      simpl in *. repeat split; try assumption.
      + rewrite H5. simpl. rewrite <- app_assoc. reflexivity.
      + intros Hg Hm. apply H6; [exact Hg|]. unfold mcp_after_insert. rewrite Hg, Hm. reflexivity.
  Qed.

  Theorem abort_invisible : forall s ks, wg s = None -> broken s = false ->
    let s' := run (Start :: map Ins ks ++ [Abort]) s in
    listed s' = listed s /\ upload s' = upload s /\ visible s' = visible s /\
    wg s' = None /\ broken s' = false.
  Proof.
    intros s ks Hw Hb. simpl. rewrite (step_start s Hw Hb). simpl.
    set (s1 := St _ _ _ _ _ _). rewrite run_app.
    destruct (run_inserts_shape ks s1 (WG [] []) eq_refl eq_refl) as (H1 & H2 & H4 & H5 & _).
    simpl in *. set (s2 := run (map Ins ks) s1) in *.
    rewrite (step_abort s2 _ H5 H4). simpl. rewrite nremove_all_nil.
    unfold visible. simpl. rewrite H1, H2. repeat split; reflexivity.
  Qed.

  (* abort while every delete on upload/ FAILS (with or without suppress_errors), for ANY write
     group, resumed or not: all clean-up steps still run, so nothing of the group stays visible on
     disk or to the object, and the object can start its next write group; the resumed packs could
     not be deleted and are still suspended in upload/ *)
  Theorem abort_fault_any : forall s w sup, wg s = Some w -> broken s = false ->
    let s' := fst (step (AbortF sup) s) in
    listed s' = listed s /\ upload s' = upload s /\ visible s' = visible s /\
    view s' = visible s /\ wg s' = None /\ broken s' = false /\ newrevs s' = [] /\
    snd (step Start s') = ROk.
  Proof.
    intros s w sup Hw Hb.
    assert (Hst : step (AbortF sup) s =
              (St (listed s) (upload s) None (mcp s) [] false, if sup then ROk else RErr ETransport)).
    { unfold WriteGroup.step. rewrite Hb, Hw. reflexivity. }
    cbv zeta. rewrite Hst. cbn [fst]. set (s' := St _ _ _ _ _ _).
    rewrite (step_start s' eq_refl eq_refl).
    unfold view, visible. simpl. rewrite app_nil_r. repeat split; reflexivity.
  Qed.

  Lemma abort_fault_same_state : forall s w sup, wg s = Some w -> broken s = false -> wres w = [] ->
    fst (step (AbortF sup) s) = fst (step Abort s).
  Proof.
    intros s w sup Hw Hb Hr. unfold WriteGroup.step. rewrite Hb, Hw, Hr. simpl.
    rewrite nremove_all_nil. reflexivity.
  Qed.

  Theorem abort_fault_invisible : forall s ks sup, wg s = None -> broken s = false ->
    let s' := run (Start :: map Ins ks ++ [AbortF sup]) s in
    listed s' = listed s /\ upload s' = upload s /\ visible s' = visible s /\ view s' = view s /\
    wg s' = None /\ broken s' = false /\
    snd (step Start s') = ROk /\
    s' = run (Start :: map Ins ks ++ [Abort]) s.
  Proof.
    intros s ks sup Hw Hb.
    assert (Heq : run (Start :: map Ins ks ++ [AbortF sup]) s = run (Start :: map Ins ks ++ [Abort]) s).
    { simpl. rewrite (step_start s Hw Hb). simpl. set (s1 := St _ _ _ _ _ _). rewrite !run_app.
      destruct (run_inserts_shape ks s1 (WG [] []) eq_refl eq_refl) as (_ & _ & H4 & H5 & _).
      simpl in H5. simpl. apply (abort_fault_same_state _ _ sup H5 H4). reflexivity. }
    cbv zeta. rewrite Heq.
    destruct (abort_invisible s ks Hw Hb) as (H1 & H2 & H3 & H4 & H5).
    set (s' := run (Start :: map Ins ks ++ [Abort]) s) in *.
    repeat split; try assumption.
    - unfold view. rewrite H3, H4, Hw. reflexivity.
    - rewrite (step_start s' H4 H5). reflexivity.
  Qed.

  (* for groupcompress repositories the whole writer state is restored *)
  Theorem abort_restores_state_gc : forall s ks, is_gc = true ->
    wg s = None -> broken s = false -> mcp s = [] -> newrevs s = [] ->
    run (Start :: map Ins ks ++ [Abort]) s = s.
  Proof.
    intros s ks Hg Hw Hb Hm Hn. simpl. rewrite (step_start s Hw Hb). simpl.
    set (s1 := St _ _ _ _ _ _). rewrite run_app.
    destruct (run_inserts_shape ks s1 (WG [] []) eq_refl eq_refl) as (H1 & H2 & H4 & H5 & H6).
    simpl in *. set (s2 := run (map Ins ks) s1) in *.
    rewrite (step_abort s2 _ H5 H4). simpl. rewrite nremove_all_nil.
    rewrite H1, H2, (H6 Hg Hm). clear H1 H2 H4 H5 H6 s2 s1.
    destruct s as [l u g m n b]; simpl in *. subst. reflexivity.
  Qed.

  (* abort of a resumed write group: pack-names unchanged, exactly the resumed packs leave upload/ *)
  Theorem abort_resumed : forall s ts r ks, wg s = None -> broken s = false ->
    resume_toks (upload s) [] ts = RsOk r ->
    let s' := run (Resume ts :: map Ins ks ++ [Abort]) s in
    listed s' = listed s /\ upload s' = nremove_all r (upload s) /\ wg s' = None /\ broken s' = false.
  Proof.
    intros s ts r ks Hw Hb Hr.
    assert (Hst : step (Resume ts) s =
              (St (listed s) (upload s) (Some (WG [] r))
                  (mcp s ++ missing_comp C is_gc (visible s ++ List.concat r) (List.concat r))
                  (revs_of (List.concat r)) false, ROk)).
    { unfold WriteGroup.step. rewrite Hb, Hw, Hr. reflexivity. }
    simpl. rewrite Hst. simpl.
    set (s1 := St _ _ _ _ _ _). rewrite run_app.
    destruct (run_inserts_shape ks s1 (WG [] r) eq_refl eq_refl) as (H1 & H2 & H4 & H5 & _).
    simpl in *. set (s2 := run (map Ins ks) s1) in *.
    rewrite (step_abort s2 _ H5 H4). simpl. rewrite H1, H2. repeat split; reflexivity.
  Qed.

  (* ---------- the state invariant ---------- *)
  Definition Inv (s : state) : Prop :=
    broken s = false ->
    (is_gc = true -> mcp s = []) /\
    match wg s with
    | Some w => (forall n, In n (wres w) -> In n (upload s)) /\ NoDup (wres w) /\
                newrevs s = revs_of (List.concat (wres w)) ++ revs_of (wnew w)
    | None => newrevs s = []
    end.

  Lemma resume_toks_ok : forall up ts acc r,
    resume_toks up acc ts = RsOk r ->
    (forall n, In n acc -> In n up) -> NoDup acc ->
    (forall n, In n r -> In n up) /\ NoDup r.
  Proof.
    induction ts as [|t ts IH]; intros acc r H Hin Hnd; simpl in H.
    - inversion H; subst. split; assumption.
    - destruct t as [n|]; [|discriminate].
      destruct (nmem n up) eqn:Hu; simpl in H; [|discriminate].
      destruct (nmem n acc) eqn:Hd; [discriminate|].
      apply (IH (acc ++ [n]) r H).
      + intros m Hm. apply in_app_iff in Hm. destruct Hm as [Hm|[Hm|[]]]; [apply Hin; exact Hm|].
        subst. apply nmem_In. exact Hu.
      + apply NoDup_snoc; [exact Hnd|]. apply nmem_false_In. exact Hd.
  Qed.

  Lemma Inv_init : Inv init.
  Proof. intros _. split; [intros; reflexivity|reflexivity]. Qed.

  Lemma Inv_step : forall o s, Inv s -> Inv (fst (step o s)).
  Proof.
    intros o s HI. unfold WriteGroup.step.
    destruct (broken s) eqn:Hb; [exact HI|].
    destruct (HI Hb) as [Hm Hw]. clear HI.
    destruct o as [|k| | |ts| | |sup|]; destruct (wg s) as [w|] eqn:Ew; simpl;
      try (intros _; rewrite ?Ew; split; [exact Hm|exact Hw]);
      try (intros _; split; [exact Hm|reflexivity]).
    - (* Start *) intros _. split; [exact Hm|]. simpl. repeat split; [intros n []|constructor|].
      rewrite Hw. reflexivity.
    - (* Ins *) intros _. destruct Hw as (H1 & H2 & H3). split.
      + intros Hg. unfold mcp_after_insert. rewrite Hg, (Hm Hg). reflexivity.
      + simpl. repeat split; try assumption.
        rewrite revs_of_app, app_assoc, <- H3.
        assert (Hk : revs_of [k] = if kind_eqb (kind_of C k) KRev then [k] else []).
        { unfold WriteGroup.revs_of. simpl. destruct (kind_eqb (kind_of C k) KRev); reflexivity. }
        rewrite Hk.
        destruct (kind_eqb (kind_of C k) KRev); [reflexivity|rewrite app_nil_r; reflexivity].
    - (* Resume *)
      destruct (resume_toks (upload s) [] ts) as [r|r|] eqn:Hr; simpl.
      + intros _. split; [intro Hg; unfold missing_comp; rewrite Hg, (Hm Hg); reflexivity|]. simpl.
        destruct (resume_toks_ok _ _ _ _ Hr) as [Ha Hb'];
          [intros n []|constructor|].
        repeat split; try assumption. rewrite app_nil_r. reflexivity.
      + intros _. split; [exact Hm|reflexivity].
      + intro H; discriminate.
    - (* Commit *)
      destruct (mcp s) as [|m ms] eqn:Em; simpl.
      + destruct (is_gc && negb (check_new_inventories s)); simpl.
        * intros _. rewrite Ew. split; [intro Hg; exact Em|exact Hw].
        * destruct (refs_ok (view s) (wnew w) && forallb (refs_ok (view s)) (wres w)); simpl.
          -- intros _. split; [intros; reflexivity|reflexivity].
          -- intro H; discriminate.
      + intros _. rewrite Ew. split; [intro Hg; specialize (Hm Hg); discriminate|exact Hw].
    - (* Reopen *) intros _. split; [intros; reflexivity|reflexivity].
  Qed.

  Theorem Inv_run : forall ops s, Inv s -> Inv (run ops s).
  Proof.
    induction ops as [|o ops IH]; intros s H; simpl; [exact H|]. apply IH. apply Inv_step. exact H.
  Qed.

  (* ---------- T2: suspend ; [reopen] ; resume ; commit  =  commit ---------- *)
  Definition suspend_resume (reopen : bool) (s : state) : state :=
    match step Suspend s with
    | (s1, RToks ts) => run ((if reopen then [Reopen] else []) ++ [Resume (map TName ts)]) s1
    | (s1, _) => s1
    end.

  Lemma resume_all : forall up l acc,
    (forall n, In n l -> In n up) -> NoDup (acc ++ l) ->
    resume_toks up acc (map TName l) = RsOk (acc ++ l).
  Proof.
    induction l as [|n l IH]; intros acc Hin Hnd; simpl.
    - rewrite app_nil_r. reflexivity.
    - assert (Hu := Hin n (or_introl eq_refl)).
      apply nmem_In in Hu. rewrite Hu. simpl.
      assert (Hacc : nmem n acc = false).
      { apply nmem_false_In. intro H. apply NoDup_remove_2 in Hnd. apply Hnd.
        apply in_app_iff. left. exact H. }
      rewrite Hacc.
      replace (acc ++ n :: l) with ((acc ++ [n]) ++ l) in * by (rewrite <- app_assoc; reflexivity).
      apply IH; [|exact Hnd]. intros m Hm. apply Hin. right. exact Hm.
  Qed.

  Lemma check_ext : forall a b, view a = view b -> newrevs a = newrevs b ->
    check_new_inventories a = check_new_inventories b.
  Proof. intros a b Hv Hn. unfold WriteGroup.check_new_inventories. rewrite Hv, Hn. reflexivity. Qed.

  Lemma refs_ok_nil : forall v, refs_ok v [] = true.
  Proof. intro v. unfold WriteGroup.refs_ok. destruct is_gc; reflexivity. Qed.

  Lemma nremove_snoc : forall (wres up : list name) (n : name), ~ In n up ->
    nremove_all (wres ++ [n]) (up ++ [n]) = nremove_all wres up.
  Proof.
    intros wres up n Hn. unfold nremove_all. rewrite filter_app. simpl.
    assert (H1 : nmem n (wres ++ [n]) = true) by (apply nmem_In, in_app_iff; right; left; reflexivity).
    rewrite H1. simpl. rewrite app_nil_r. apply filter_ext_in. intros x Hx. f_equal.
    destruct (nmem x wres) eqn:E.
    - apply nmem_In. apply in_app_iff. left. apply nmem_In. exact E.
    - apply nmem_false_In. intro H. apply in_app_iff in H. destruct H as [H|[H|[]]].
      + apply nmem_false_In in E. contradiction.
      + subst. contradiction.
  Qed.

  Theorem suspend_resume_commit : forall (reopen : bool) s w,
    Inv s -> broken s = false -> wg s = Some w ->
    (* pack names are content hashes: the new pack is not byte-identical to a suspended one *)
    ~ In (wnew w) (upload s) ->
    (* the object's missing-compression-parent memory agrees (as to emptiness) with what the
       write group really lacks; see mcp_agrees_fresh for when this is guaranteed *)
    (mcp s = [] <-> missing_comp C is_gc (view s) (wg_items w) = []) ->
    let a := step Commit (suspend_resume reopen s) in
    let b := step Commit s in
    snd a = snd b /\
    (forall k, In k (visible (fst a)) <-> In k (visible (fst b))) /\
    (snd b = ROk -> upload (fst a) = upload (fst b) /\ wg (fst a) = wg (fst b)).
  Proof.
    intros reopen s w HI Hb Hw Hfresh Hmcp.
    destruct (HI Hb) as [Hgm Hwi]. rewrite Hw in Hwi. destruct Hwi as (Hup & Hnd & Hnr).
    set (toks := wres w ++ (if wnew w then [] else [wnew w])).
    set (up := if wnew w then upload s else upload s ++ [wnew w]).
    assert (Hsus : step Suspend s = (St (listed s) up None (mcp s) [] false, RToks toks)).
    { unfold WriteGroup.step. rewrite Hb, Hw. unfold up, toks.
      destruct (wnew w) as [|k l] eqn:En; [reflexivity|].
      apply nmem_false_In in Hfresh. rewrite Hfresh. reflexivity. }
    assert (Htoks_up : forall n, In n toks -> In n up).
    { intros n Hn. unfold toks, up in *. apply in_app_iff in Hn. destruct Hn as [Hn|Hn].
      - destruct (wnew w); [apply Hup; exact Hn|apply in_app_iff; left; apply Hup; exact Hn].
      - destruct (wnew w) as [|k l]; [destruct Hn|]. destruct Hn as [Hn|[]]. subst.
        apply in_app_iff. right. left. reflexivity. }
    assert (Htoks_nd : NoDup toks).
    { unfold toks. destruct (wnew w) as [|k l] eqn:En; [rewrite app_nil_r; exact Hnd|].
      apply NoDup_snoc; [exact Hnd|]. intro H. apply Hfresh. apply Hup. exact H. }
    assert (Hrs : resume_toks up [] (map TName toks) = RsOk toks).
    { apply (resume_all up toks []); [exact Htoks_up|exact Htoks_nd]. }
    set (m2 := (if reopen then [] else mcp s) ++
               missing_comp C is_gc (visible s ++ List.concat toks) (List.concat toks)).
    assert (Hs2 : suspend_resume reopen s =
                  St (listed s) up (Some (WG [] toks)) m2 (revs_of (List.concat toks)) false).
    { unfold suspend_resume. rewrite Hsus. unfold m2.
      destruct reopen; simpl; unfold WriteGroup.step; simpl; rewrite Hrs; reflexivity. }
    assert (Hct : List.concat toks = List.concat (wres w) ++ wnew w) by apply concat_toks.
    assert (Hm2 : m2 = [] <-> mcp s = []).
    { unfold m2. rewrite Hct.
      replace (visible s ++ List.concat (wres w) ++ wnew w) with (view s)
        by (unfold view; rewrite Hw; reflexivity).
      fold (wg_items w). destruct reopen; simpl.
      - symmetry. exact Hmcp.
      - split; intro H.
        + apply app_eq_nil in H. apply H.
        + rewrite H. simpl. apply Hmcp. exact H. }
    set (s2 := suspend_resume reopen s) in *.
    assert (Hview : view s2 = view s).
    { rewrite Hs2. unfold view, visible, wg_items. simpl. rewrite Hw. unfold wg_items.
      rewrite Hct, app_nil_r. reflexivity. }
    assert (Hnew : newrevs s2 = newrevs s).
    { rewrite Hs2. simpl. rewrite Hct, revs_of_app. symmetry. exact Hnr. }
    assert (Hchk : check_new_inventories s2 = check_new_inventories s) by (apply check_ext; assumption).
    assert (Hrefs : refs_ok (view s2) [] && forallb (refs_ok (view s2)) toks =
                    refs_ok (view s) (wnew w) && forallb (refs_ok (view s)) (wres w)).
    { rewrite Hview, refs_ok_nil. simpl. unfold toks. rewrite forallb_app.
      destruct (wnew w) as [|k l]; simpl.
      - rewrite refs_ok_nil, andb_true_r. reflexivity.
      - rewrite andb_true_r. apply andb_comm. }
    (* now evaluate both commits *)
    cbv zeta. unfold WriteGroup.step.
    assert (Hb2 : broken s2 = false) by (rewrite Hs2; reflexivity).
    assert (Hw2 : wg s2 = Some (WG [] toks)) by (rewrite Hs2; reflexivity).
    assert (Hmm : mcp s2 = [] <-> mcp s = []) by (rewrite Hs2; exact Hm2).
    rewrite Hb2, Hw2, Hb, Hw, Hchk. simpl wnew. simpl wres. rewrite Hrefs.
    assert (Hvis2 : forall k, In k (visible s2) <-> In k (visible s)).
    { intro k. rewrite Hs2. unfold visible. simpl. tauto. }
    destruct (mcp s2) as [|m' ms'] eqn:E2; destruct (mcp s) as [|m ms] eqn:E1; simpl.
    2: { exfalso. assert (Hx := proj1 Hmm eq_refl). discriminate Hx. }
    2: { exfalso. assert (Hx := proj2 Hmm eq_refl). discriminate Hx. }
    2: { split; [reflexivity|split; [exact Hvis2|intro Hx; discriminate Hx]]. }
    destruct (is_gc && negb (check_new_inventories s)); simpl;
      [split; [reflexivity|split; [exact Hvis2|intro Hx; discriminate Hx]]|].
    destruct (refs_ok (view s) (wnew w) && forallb (refs_ok (view s)) (wres w)); simpl.
    - split; [reflexivity|]. split.
      + intro k. unfold visible. simpl. rewrite Hs2. simpl.
        rewrite !concat_app, !in_app_iff. fold toks. rewrite Hct, in_app_iff.
        destruct (wnew w) as [|k0 l]; simpl; rewrite ?app_nil_r; tauto.
      + intros _. rewrite Hs2. simpl. split; [|reflexivity]. unfold up, toks.
        destruct (wnew w) as [|k0 l]; [rewrite app_nil_r; reflexivity|].
        apply nremove_snoc. exact Hfresh.
    - split; [reflexivity|split; [exact Hvis2|intro Hx; discriminate Hx]].
  Qed.

  (* ---------- when does the guard hold?  a write group built by inserts on an object whose
     memory was empty (e.g. a fresh object) ---------- *)
  Lemma In_remove : forall c k l, In c (remove k l) <-> In c l /\ c <> k.
  Proof.
    intros c k l. unfold remove. rewrite filter_In, negb_true_iff, N.eqb_neq.
    split; intros [H1 H2]; split; auto.
  Qed.

  Lemma missing_fold_In : forall v items acc c,
    In c (fold_left (fun acc k => match comp_of C k with
                                  | Some c' => if mem c' v || mem c' acc then acc else acc ++ [c']
                                  | None => acc end) items acc) <->
    In c acc \/ (~ In c v /\ exists k, In k items /\ comp_of C k = Some c).
  Proof.
    intros v. induction items as [|k items IH]; intros acc c; simpl.
    - split; [intro H; left; exact H|]. intros [H|(_ & k & [] & _)]. exact H.
    - rewrite IH. clear IH. destruct (comp_of C k) as [c'|] eqn:Ek.
      + destruct (mem c' v || mem c' acc) eqn:Ec.
        * split.
          -- intros [H|(Hv & k0 & Hk0 & Hc0)]; [left; exact H|]. right. split; [exact Hv|].
             exists k0. split; [right; exact Hk0|exact Hc0].
          -- intros [H|(Hv & k0 & [Hk0|Hk0] & Hc0)]; [left; exact H| |].
             ++ subst k0. rewrite Ek in Hc0. inversion Hc0; subst c'.
                apply orb_true_iff in Ec. destruct Ec as [Ec|Ec]; apply mem_In in Ec;
                  [contradiction|left; exact Ec].
             ++ right. split; [exact Hv|]. exists k0. split; assumption.
        * apply orb_false_iff in Ec. destruct Ec as [Ev Ea]. apply mem_false_In in Ev.
          split.
          -- intros [H|(Hv & k0 & Hk0 & Hc0)].
             ++ apply in_app_iff in H. destruct H as [H|[H|[]]]; [left; exact H|]. subst c'.
                right. split; [exact Ev|]. exists k. split; [left; reflexivity|exact Ek].
             ++ right. split; [exact Hv|]. exists k0. split; [right; exact Hk0|exact Hc0].
          -- intros [H|(Hv & k0 & [Hk0|Hk0] & Hc0)].
             ++ left. apply in_app_iff. left. exact H.
             ++ subst k0. rewrite Ek in Hc0. inversion Hc0; subst c'.
                left. apply in_app_iff. right. left. reflexivity.
             ++ right. split; [exact Hv|]. exists k0. split; assumption.
      + split.
        * intros [H|(Hv & k0 & Hk0 & Hc0)]; [left; exact H|]. right. split; [exact Hv|].
          exists k0. split; [right; exact Hk0|exact Hc0].
        * intros [H|(Hv & k0 & [Hk0|Hk0] & Hc0)]; [left; exact H| |].
          -- subst k0. rewrite Ek in Hc0. discriminate Hc0.
          -- right. split; [exact Hv|]. exists k0. split; assumption.
  Qed.

  Lemma missing_comp_In : forall v items c,
    In c (missing_comp C is_gc v items) <->
    (is_gc = false /\ ~ In c v /\ exists k, In k items /\ comp_of C k = Some c).
  Proof.
    intros v items c. unfold missing_comp. destruct is_gc.
    - split; [intros []|intros [H _]; discriminate H].
    - rewrite missing_fold_In. split.
      + intros [[]|H]. split; [reflexivity|exact H].
      + intros [_ H]. right. exact H.
  Qed.

  (* the memory is exactly the set of compression parents the group lacks *)
  Definition mcp_exact (s : state) : Prop :=
    match wg s with
    | Some w => forall c, In c (mcp s) <-> In c (missing_comp C is_gc (view s) (wg_items w))
    | None => True
    end.

  Lemma mcp_exact_ins : forall s w k, wg s = Some w -> broken s = false ->
    mcp_exact s -> mcp_exact (fst (step (Ins k) s)).
  Proof.
    intros s w k Hw Hb HJ. rewrite (step_ins s w k Hw Hb). unfold mcp_exact in *. rewrite Hw in HJ. simpl.
    assert (Hitems : wg_items (WG (wnew w ++ [k]) (wres w)) = wg_items w ++ [k])
      by (unfold wg_items; simpl; apply app_assoc).
    rewrite Hitems.
    set (s1 := St _ _ _ _ _ _).
    assert (Hview : view s1 = view s ++ [k]).
    { unfold view. simpl. rewrite Hw, Hitems. apply app_assoc. }
    rewrite Hview. intro c. rewrite missing_comp_In. unfold mcp_after_insert.
    rewrite In_remove, in_app_iff. specialize (HJ c). rewrite missing_comp_In in HJ.
    destruct is_gc eqn:Hg.
    - split.
      + intros [[H|[]] _]. apply HJ in H. destruct H as [H _]. discriminate H.
      + intros [H _]. discriminate H.
    - split.
      + intros [[H|H] Hne].
        * apply HJ in H. destruct H as (_ & Hv & k0 & Hk0 & Hc0).
          split; [reflexivity|]. split.
          -- rewrite in_app_iff. intros [Hx|[Hx|[]]]; [contradiction|]. apply Hne. symmetry. exact Hx.
          -- exists k0. split; [apply in_app_iff; left; exact Hk0|exact Hc0].
        * destruct (comp_of C k) as [p|] eqn:Ek; [|destruct H].
          destruct (mem p (view s) || mem p (mcp s)) eqn:Ec; [destruct H|].
          destruct H as [H|[]]. subst p. apply orb_false_iff in Ec. destruct Ec as [Ev _].
          apply mem_false_In in Ev. split; [reflexivity|]. split.
          -- rewrite in_app_iff. intros [Hx|[Hx|[]]]; [contradiction|]. apply Hne. symmetry. exact Hx.
          -- exists k. split; [apply in_app_iff; right; left; reflexivity|exact Ek].
      + intros (_ & Hv & k0 & Hk0 & Hc0). rewrite in_app_iff in Hv.
        assert (Hv1 : ~ In c (view s)) by (intro Hx; apply Hv; left; exact Hx).
        assert (Hne : c <> k) by (intro Hx; apply Hv; right; left; symmetry; exact Hx).
        split; [|exact Hne].
        apply in_app_iff in Hk0. destruct Hk0 as [Hk0|[Hk0|[]]].
        * left. apply HJ. split; [reflexivity|]. split; [exact Hv1|]. exists k0. split; assumption.
        * subst k0. rewrite Hc0.
          destruct (mem c (view s) || mem c (mcp s)) eqn:Ec.
          -- apply orb_true_iff in Ec. destruct Ec as [Ec|Ec]; apply mem_In in Ec;
               [contradiction|left; exact Ec].
          -- right. left. reflexivity.
  Qed.

  Lemma mcp_exact_inserts : forall ks s w, wg s = Some w -> broken s = false ->
    mcp_exact s -> mcp_exact (run (map Ins ks) s).
  Proof.
    induction ks as [|k ks IH]; intros s w Hw Hb HJ; simpl; [exact HJ|].
    assert (H1 := mcp_exact_ins s w k Hw Hb HJ). revert H1.
    rewrite (step_ins s w k Hw Hb). simpl. intro H1.
    eapply IH; [reflexivity|reflexivity|exact H1].
  Qed.

  Lemma same_In_nil : forall (a b : list N), (forall c, In c a <-> In c b) -> (a = [] <-> b = []).
  Proof.
    intros a b H. split; intro E; subst.
    - destruct b as [|x b]; [reflexivity|]. exfalso. apply (proj2 (H x)). left. reflexivity.
    - destruct a as [|x a]; [reflexivity|]. exfalso. apply (proj1 (H x)). left. reflexivity.
  Qed.

  Theorem mcp_agrees_fresh : forall s0 ks, wg s0 = None -> broken s0 = false -> mcp s0 = [] ->
    let s := run (Start :: map Ins ks) s0 in
    broken s = false /\ wg s = Some (WG ks []) /\
    (mcp s = [] <-> missing_comp C is_gc (view s) (wg_items (WG ks [])) = []).
  Proof.
    intros s0 ks Hw Hb Hm. simpl. rewrite (step_start s0 Hw Hb). simpl.
    set (s1 := St _ _ _ _ _ _).
    destruct (run_inserts_shape ks s1 (WG [] []) eq_refl eq_refl) as (_ & _ & H4 & H5 & _).
    simpl in H5. split; [exact H4|]. split; [exact H5|].
    assert (HJ : mcp_exact (run (map Ins ks) s1)).
    { apply (mcp_exact_inserts ks s1 (WG [] [])); try reflexivity.
      unfold mcp_exact. simpl. intro c. rewrite Hm, missing_comp_In. split; [intros []|].
      intros (_ & _ & k & [] & _). }
    unfold mcp_exact in HJ. rewrite H5 in HJ. apply same_In_nil. exact HJ.
  Qed.

  (* ---------- T3: a commit that raises leaves the disk alone ---------- *)
  Theorem commit_error_disk_unchanged : forall s s' e, step Commit s = (s', RErr e) ->
    listed s' = listed s /\ upload s' = upload s /\ visible s' = visible s /\
    (e <> ECheckFinish -> s' = s).
  Proof.
    intros s s' e. unfold WriteGroup.step.
    destruct (broken s); [discriminate|].
    destruct (wg s) as [w|]; [|intro H; inversion H; subst; repeat split; reflexivity].
    destruct (mcp s) as [|m ms]; simpl; [|intro H; inversion H; subst; repeat split; reflexivity].
    destruct (is_gc && negb (check_new_inventories s)); simpl;
      [intro H; inversion H; subst; repeat split; reflexivity|].
    destruct (refs_ok (view s) (wnew w) && forallb (refs_ok (view s)) (wres w)); simpl;
      [discriminate|].
    intro H; inversion H; subst. unfold visible. simpl. repeat split; try reflexivity.
    intro Hne. exfalso. apply Hne. reflexivity.
  Qed.

  Definition finish_safe (s : state) : bool :=
    match wg s with
    | Some w => refs_ok (view s) (wnew w) && forallb (refs_ok (view s)) (wres w)
    | None => true
    end.

  Theorem commit_error_state_unchanged_guarded : forall s s' e,
    finish_safe s = true -> step Commit s = (s', RErr e) -> s' = s.
  Proof.
    intros s s' e Hf H. destruct (commit_error_disk_unchanged s s' e H) as (_ & _ & _ & Hs).
    apply Hs. intro He. subst e. revert H. unfold WriteGroup.step, finish_safe in *.
    destruct (broken s); [discriminate|].
    destruct (wg s) as [w|]; [|discriminate].
    destruct (mcp s); simpl; [|discriminate].
    destruct (is_gc && negb (check_new_inventories s)); simpl; [discriminate|].
    rewrite Hf. simpl. discriminate.
  Qed.

  (* ---------- T4: what an accepted commit guarantees ---------- *)
  Lemma visible_after_commit : forall s w k,
    wg s = Some w ->
    In k (List.concat (listed s ++ (if wnew w then [] else [wnew w]) ++ wres w)) <-> In k (view s).
  Proof.
    intros s w k Hw. unfold view, visible, wg_items. rewrite Hw. unfold wg_items.
    rewrite !concat_app, !in_app_iff.
    destruct (wnew w) as [|k0 l]; simpl; rewrite ?app_nil_r; tauto.
  Qed.

  Definition comp_closed (l : list N) : Prop :=
    forall k c, In k l -> comp_of C k = Some c -> In c l.

  Theorem commit_ok_comp_closed : is_gc = false -> forall s s',
    comp_closed (visible s) -> step Commit s = (s', ROk) -> comp_closed (visible s').
  Proof.
    intros Hg s s' Hcl H. destruct (commit_ok_inv s s' H) as (w & Hw & Hb & Hm & _ & Hr1 & Hr2 & Hs').
    assert (Hv' : visible s' = List.concat (listed s ++ (if wnew w then [] else [wnew w]) ++ wres w))
      by (subst s'; reflexivity).
    rewrite Hv'. intros k c Hk Hc.
    apply (visible_after_commit s w) in Hk; [|exact Hw].
    apply (visible_after_commit s w); [exact Hw|].
    assert (Hrefs : forall p, refs_ok (view s) p = true -> In k p -> In c (view s)).
    { intros p Hp Hkp. unfold WriteGroup.refs_ok in Hp. rewrite Hg in Hp.
      rewrite forallb_forall in Hp. specialize (Hp k Hkp). rewrite Hc in Hp. apply mem_In. exact Hp. }
    unfold view in Hk. rewrite Hw in Hk. apply in_app_iff in Hk. destruct Hk as [Hk|Hk].
    - unfold view. apply in_app_iff. left. apply (Hcl k c Hk Hc).
    - unfold wg_items in Hk. apply in_app_iff in Hk. destruct Hk as [Hk|Hk].
      + apply in_concat_iff in Hk. destruct Hk as (p & Hp & Hkp).
        rewrite forallb_forall in Hr2. apply (Hrefs p (Hr2 p Hp) Hkp).
      + apply (Hrefs (wnew w) Hr1 Hk).
  Qed.

  Lemma fold_dedup_In : forall l acc x, In x acc \/ In x l -> In x (fold_left dedup_add l acc).
  Proof.
    induction l as [|y l IH]; intros acc x H; simpl.
    - destruct H as [H|[]]. exact H.
    - apply IH. unfold dedup_add. destruct (mem y acc) eqn:E.
      + destruct H as [H|[H|H]]; [left; exact H| |right; exact H].
        subst. left. apply mem_In. exact E.
      + destruct H as [H|[H|H]]; [left; apply in_app_iff; left; exact H| |right; exact H].
        subst. left. apply in_app_iff. right. left. reflexivity.
  Qed.

  (* every revision of the write group has its inventory, both chk roots, and every text its
     inventory names -- except entries it shares with an inventory q that is present but whose
     revision is not part of this write group (a parent inventory) *)
  Theorem commit_ok_new_revisions_complete : is_gc = true -> forall s s',
    step Commit s = (s', ROk) ->
    forall r, In r (newrevs s) ->
      let i := inv_of_rev C r in
      In i (visible s') /\ In (ie_root C i) (visible s') /\ In (pid_root C i) (visible s') /\
      forall t, In t (chk_entries C (ie_root C i)) ->
        In t (visible s') \/
        exists q, In q (visible s') /\ ~ In q (map (inv_of_rev C) (newrevs s)) /\
                  In t (chk_entries C (ie_root C q)).
  Proof.
    intros Hg s s' H r Hr i.
    destruct (commit_ok_inv s s' H) as (w & Hw & Hb & Hm & Hchk & _ & _ & Hs').
    specialize (Hchk Hg).
    assert (Hvis : forall k, In k (visible s') <-> In k (view s)).
    { intro k. subst s'. unfold visible. simpl. apply visible_after_commit. exact Hw. }
    unfold WriteGroup.check_new_inventories in Hchk.
    set (v := view s) in *.
    set (corr := map (inv_of_rev C) (newrevs s)) in *.
    destruct (forallb (fun i0 => mem i0 v) corr) eqn:E1; simpl in Hchk; [|discriminate].
    set (all := filter (fun i0 => mem i0 v)
                  (fold_left dedup_add (corr ++ flat_map (inv_parents C) corr) [])) in *.
    set (ponly := filter (fun i0 => negb (mem i0 corr)) all) in *.
    destruct (forallb (fun c => mem c v) (flat_map (fun i0 => [ie_root C i0; pid_root C i0]) all)) eqn:E2;
      simpl in Hchk; [|discriminate].
    assert (Hic : In i corr) by (apply in_map; exact Hr).
    assert (Hiv : In i v).
    { rewrite forallb_forall in E1. apply mem_In. apply E1. exact Hic. }
    assert (Hiall : In i all).
    { unfold all. apply filter_In. split; [|apply mem_In; exact Hiv].
      apply fold_dedup_In. right. apply in_app_iff. left. exact Hic. }
    rewrite forallb_forall in E2.
    assert (Hroots : forall c, In c [ie_root C i; pid_root C i] -> In c v).
    { intros c Hc. apply mem_In. apply E2. apply in_flat_map. exists i. split; assumption. }
    split; [apply Hvis; exact Hiv|].
    split; [apply Hvis, Hroots; left; reflexivity|].
    split; [apply Hvis, Hroots; right; left; reflexivity|].
    intros t Ht.
    assert (Hpon : forall c, In c (map (ie_root C) ponly) ->
              exists q, In q v /\ ~ In q corr /\ c = ie_root C q).
    { intros c Hc. apply in_map_iff in Hc. destruct Hc as (q & Hq & Hqp).
      unfold ponly in Hqp. apply filter_In in Hqp. destruct Hqp as [Hqa Hqc].
      unfold all in Hqa. apply filter_In in Hqa. destruct Hqa as [_ Hqv].
      exists q. repeat split; [apply mem_In; exact Hqv| |symmetry; exact Hq].
      apply mem_false_In. apply negb_true_iff. exact Hqc. }
    rewrite forallb_forall in Hchk.
    destruct (mem (ie_root C i) (map (ie_root C) ponly)) eqn:Eu.
    - right. apply mem_In in Eu. destruct (Hpon _ Eu) as (q & Hqv & Hqc & Hq).
      exists q. repeat split; [apply Hvis; exact Hqv|exact Hqc|rewrite <- Hq; exact Ht].
    - destruct (mem t (flat_map (chk_entries C) (map (ie_root C) ponly))) eqn:Et.
      + right. apply mem_In in Et. apply in_flat_map in Et. destruct Et as (c & Hc & Htc).
        destruct (Hpon _ Hc) as (q & Hqv & Hqc & Hq).
        exists q. repeat split; [apply Hvis; exact Hqv|exact Hqc|rewrite <- Hq; exact Htc].
      + left. apply Hvis. apply mem_In. apply Hchk. apply filter_In. split; [|rewrite Et; reflexivity].
        apply in_flat_map. exists (ie_root C i). split; [|exact Ht].
        apply filter_In. split; [apply in_map; exact Hic|rewrite Eu; reflexivity].
  Qed.
End Theory.

(* ---------- machine-checked refutations (witnesses replayed on the real code) ---------- *)

(* an aborted write group leaves the knit index's missing-compression-parent memory behind:
   the next, perfectly valid write group of the same object is refused *)
Theorem abort_stale_refuted :
  exists ks k,
    snd (step cat_knit false Commit (run cat_knit false (Start :: map Ins ks ++ [Abort; Start; Ins k]) init))
      = RErr ECheck /\
    snd (step cat_knit false Commit (run cat_knit false [Start; Ins k] init)) = ROk.
Proof. exists [43], 42. vm_compute. split; reflexivity. Qed.

(* suspend ; reopen ; resume ; commit vs commit WITHOUT the guard: after an aborted group left a
   stale missing compression parent in the object's memory, the direct commit of a complete group is
   refused, while the same group suspended and resumed by a fresh object is accepted *)
Theorem suspend_reopen_resume_commit_stale_refuted :
  exists ops,
    let s := run cat_knit false ops init in
    snd (step cat_knit false Commit s) = RErr ECheck /\
    snd (step cat_knit false Commit (suspend_resume cat_knit false true s)) = ROk.
Proof. exists [Start; Ins 43; Abort; Start; Ins 42]. vm_compute. split; reflexivity. Qed.

(* behaviour that was repaired by /repo commit 3775d0a and must stay repaired: a fresh object that
   resumes a knit group with a pending missing compression parent REFUSES the commit cleanly *)
Theorem resumed_missing_parent_is_refused :
  let s := run cat_knit false [Start; Ins 43] init in
  step cat_knit false Commit (suspend_resume cat_knit false true s) =
    (suspend_resume cat_knit false true s, RErr ECheck).
Proof. vm_compute. reflexivity. Qed.

(* repaired by /repo 8028393 (was resume_again_same_object_refuted): on the SAME object a write
   group that was resumed once can be suspended and resumed again, and then commits *)
Theorem resume_again_same_object_works :
  let s := run cat_2a true [Start; Ins 41; Suspend; Resume [TName [41]]] init in
  broken (suspend_resume cat_2a true false s) = false /\
  snd (step cat_2a true Commit (suspend_resume cat_2a true false s)) = ROk.
Proof. vm_compute. split; reflexivity. Qed.
