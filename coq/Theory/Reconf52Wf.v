(* Theory/Reconf52Wf.v -- C52: what the Reconfigure factories guarantee about the plans they build
   (finite case analysis over the facts Reconfigure.__init__ collects). *)
From Coq Require Import List Bool Arith String.
Import ListNotations.
From BV Require Import Lib.Obs Lib.Dag Model.Reconf52.
Open Scope string_scope.
Open Scope nat_scope.
Open Scope list_scope.

Definition has_local (w : world) : bool := is_some (local_of w).
Definition has_ref (w : world) : bool := is_some (refd_of w).

(* what the factories guarantee about the plans they hand to apply() *)
Definition plan_wf (p : plan) (w : world) : bool :=
  implb (p_destroy_branch p) (p_create_reference p && has_local w)
  && implb (p_destroy_reference p) (p_create_branch p && has_ref w)
  && implb (p_create_branch p) (negb (has_local w) && negb (p_create_reference p)
                                && (p_destroy_reference p || negb (has_ref w))
                                && (is_some (find_repo w) || p_create_repository p))
  && implb (p_create_reference p) (negb (has_ref w) && negb (p_create_repository p)
                                   && (p_destroy_branch p || negb (has_local w)))
  && implb (p_create_repository p) (negb (is_some (w_repo w)) && negb (p_destroy_repository p))
  && implb (p_destroy_repository p) (is_some (w_repo w) && negb (p_create_branch p))
  && implb (p_destroy_repository p && p_create_reference p)
           (match w_repo w with Some r => negb (r_shared r) | None => false end)
  && implb (p_destroy_tree p) (is_some (w_tree w) && negb (p_create_tree p))
  && implb (p_create_tree p) (negb (is_some (w_tree w)))
  && implb (p_unbind p) (has_local w && negb (p_bind p))
  && implb (p_bind p) (p_create_branch p || (has_local w && negb (p_destroy_branch p)))
  && implb (has_ref w && negb (p_destroy_reference p)) (negb (p_create_branch p) && negb (p_create_reference p)).

Lemma factory_wf w t p : factory w t = inl p -> plan_wf p w = true.
Proof.
  destruct w as [g rp ou br tr inn sib far].
  unfold factory, plan_wf, has_local, has_ref, facts_of, find_repo, local_of, refd_of, wants,
         set_use_shared, plan_changes, changes_planned.
  cbn [w_repo w_outer w_branch w_tree w_inner w_sib w_far].
  destruct t as [| | | | | |[]]; destruct rp as [[[] [] ?]|]; destruct ou as [[[] [] ?]|];
    destruct tr; (destruct br as [|[? ? [[[] ?]|] ? ?]|[|[|[|l]]]]; cbn;
    [..|destruct inn|destruct sib|destruct far|]); cbn;
    intros H; try discriminate H; injection H as <-; reflexivity.
Qed.

