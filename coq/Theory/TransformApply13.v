(* Theory/TransformApply13.v -- theorems about run_with_fault (Lib/FSFault13.v) for every
   program, and their instances for the transform model (Model/TransformApply13.v). *)
From Coq Require Import List String Bool Arith Lia NArith.
From BV Require Import Lib.FSFault13 Model.TransformApply13.
Import ListNotations.
Open Scope list_scope.

(* the file system the try-block (renames, then executable bits) leaves when it completes / stops *)
Definition phase_fs (g : prog) (flt : fault) (f0 : fs) : fs :=
  let '(f1, _, _, _, _) := run_try g flt f0 in f1.

(* ---------------------------------------------------------------- before the commit point *)

Theorem phase_fault_restores : forall b g flt f0 inv0,
  wf f0 ->
  o_stage (run_with_fault b g flt f0 inv0) = SPhase ->
  o_dirty (run_with_fault b g flt f0 inv0) = false ->
  o_fs (run_with_fault b g flt f0 inv0) = f0 /\
  o_inv (run_with_fault b g flt f0 inv0) = inv0 /\
  exists x, o_exc (run_with_fault b g flt f0 inv0) = Some x /\ forall e, x <> XRollback e.
Proof.
  intros b g flt f0 inv0 Hwf. unfold run_with_fault.
  destruct (run_try g flt f0) as [[[[f1 j] d] tr1] [x|]] eqn:Hrun.
  - destruct (rollback j f1 tr1) as [[f2 tr2] [er|]] eqn:Hrb; simpl; intros _ Hd; subst d;
      destruct (run_try_invariant g flt f0 f1 j tr1 x Hwf Hrun) as (Hu & Hx);
      destruct (rollback_undoes _ _ _ tr1 Hu) as [tr' Hr']; [congruence|].
    rewrite Hr' in Hrb. injection Hrb as <- _.
    split; [reflexivity|]. split; [reflexivity|].
    exists x. split; [reflexivity | exact Hx].
  - destruct (run_del false (g_deletions g) (kdel flt) (ferr flt) f1 tr1) as [[[f2 tr2] [er|]] k2];
      simpl; [discriminate|].
    destruct (run_fin g (kfin flt) (ferr flt) f2 tr2) as [[f3 tr3] [x|]]; simpl; discriminate.
Qed.

(* every fault before the commit point (other than an ENOENT, which the code deliberately
   swallows on some renames) does raise, i.e. the run ends in stage SPhase *)
Lemma run_phase_fault_stops : forall ops k e f j d tr,
  e <> ENOENT -> k < List.length ops ->
  exists f1 j1 d1 tr1 x, run_phase ops (Some k) e f j d tr = (f1, j1, d1, tr1, Some x).
Proof.
  induction ops as [|op ops IH]; intros k e f j d tr He Hk; simpl in Hk; [lia|].
  destruct op as [skip from to]; simpl.
  destruct k as [|k]; simpl.
  - replace (skip && is_enoent e) with false
      by (destruct e; try congruence; destruct skip; reflexivity).
    repeat eexists.
  - destruct (rename from to f) as [f'|er].
    + apply IH; [exact He | lia].
    + destruct (skip && is_enoent er); [apply IH; [exact He | lia] | repeat eexists].
Qed.

Lemma run_chmods_fault_stops : forall cs k e f mj tr,
  k < List.length cs ->
  exists f2 mj2 tr2 x, run_chmods cs (Some k) e f mj tr = (f2, mj2, tr2, Some x).
Proof.
  induction cs as [|[p b] cs IH]; intros k e f mj tr Hk; simpl in Hk; [lia|]. simpl.
  destruct (lookup f p); [|repeat eexists].
  destruct k as [|k]; simpl; [repeat eexists|].
  destruct (chmod p b f) as [f'|er]; [apply IH; lia | repeat eexists].
Qed.

Theorem phase_fault_raises : forall b g k e f0 inv0,
  e <> ENOENT -> k < List.length (g_phase g) + List.length (g_chmods g) ->
  o_stage (run_with_fault b g (FPhase k e) f0 inv0) = SPhase.
Proof.
  intros b g k e f0 inv0 He Hk.
  assert (G : exists f1 j d tr x, run_try g (FPhase k e) f0 = (f1, j, d, tr, Some x)).
  { unfold run_try. simpl kphase. simpl ferr.
    destruct (Nat.ltb_spec k (List.length (g_phase g))) as [Hlt|Hge].
    - destruct (run_phase_fault_stops (g_phase g) k e f0 [] false [] He Hlt)
        as (f1 & j1 & d1 & tr1 & x & Hr).
      rewrite Hr. repeat eexists.
    - destruct (run_phase (g_phase g) (Some k) e f0 [] false []) as [[[[f1 j] d] tr1] [x|]];
        [repeat eexists|].
      unfold k_after. destruct (Nat.ltb_spec k (List.length (g_phase g))) as [?|_]; [lia|].
      destruct (run_chmods_fault_stops (g_chmods g) (k - List.length (g_phase g)) e f1 [] tr1)
        as (f2 & mj & tr2 & x & Hc); [lia|].
      rewrite Hc. destruct (restore_modes mj f2 tr2) as [[f3 tr3] [er|]]; repeat eexists. }
  destruct G as (f1 & j & d & tr & x & Hr). unfold run_with_fault. rewrite Hr.
  destruct (rollback j f1 tr) as [[f2 tr2] [er|]]; reflexivity.
Qed.

(* ---------------------------------------------------------------- after the commit point *)

Lemma filter_filter_absorb : forall {A} (P Q : A -> bool) l,
  (forall a, P a = true -> Q a = true) -> filter P (filter Q l) = filter P l.
Proof.
  intros A P Q l H. induction l as [|a l IH]; simpl; [reflexivity|].
  destruct (Q a) eqn:EQ; simpl.
  - rewrite IH. reflexivity.
  - destruct (P a) eqn:EP; [rewrite (H _ EP) in EQ; discriminate | exact IH].
Qed.

Lemma visible_remove : forall roots p f,
  under_any roots p = true -> visible roots (remove p f) = visible roots f.
Proof.
  intros roots p f H. unfold visible, remove. apply filter_filter_absorb.
  intros [q n] Hv. simpl in *. destruct (path_eq_dec q p) as [->|]; [|reflexivity].
  rewrite H in Hv. discriminate.
Qed.

Lemma delete_any_remove : forall p f f', delete_any p f = Ok f' -> f' = remove p f.
Proof.
  intros p f f' H. unfold delete_any in H.
  destruct (lookup f p) as [[| |]|]; try discriminate;
    try (injection H as <-; reflexivity).
  destruct (has_child f p); [discriminate | injection H as <-; reflexivity].
Qed.

Lemma run_del_visible : forall roots skip ps k e f tr f' tr' r k',
  forallb (under_any roots) ps = true ->
  run_del skip ps k e f tr = (f', tr', r, k') ->
  visible roots f' = visible roots f.
Proof.
  induction ps as [|p ps IH]; intros k e f tr f' tr' r k' Hh H; simpl in *.
  - injection H as <- _ _ _. reflexivity.
  - apply andb_true_iff in Hh. destruct Hh as [Hp Hps].
    destruct (tick k) as [fire k1].
    destruct (if fire then Err e else delete_any p f) as [f1|er] eqn:Hd.
    + destruct fire; [discriminate|].
      apply delete_any_remove in Hd. subst f1.
      rewrite (IH _ _ _ _ _ _ _ _ Hps H). apply visible_remove. exact Hp.
    + destruct (skip && is_enoent er).
      * eapply IH; eauto.
      * injection H as <- _ _ _. reflexivity.
Qed.

Definition hidden_prog (roots : list path) (g : prog) : bool :=
  forallb (under_any roots) (g_deletions g) && forallb (under_any roots) (g_fin_files g) &&
  under_any roots (g_limbodir g) && under_any roots (g_deletiondir g).

Lemma run_fin_visible : forall roots g k e f tr f' tr' x,
  hidden_prog roots g = true ->
  run_fin g k e f tr = (f', tr', x) -> visible roots f' = visible roots f.
Proof.
  intros roots g k e f tr f' tr' x Hh H. unfold hidden_prog in Hh.
  apply andb_true_iff in Hh. destruct Hh as [Hh H4].
  apply andb_true_iff in Hh. destruct Hh as [Hh H3].
  apply andb_true_iff in Hh. destruct Hh as [H1 H2].
  unfold run_fin in H.
  destruct (run_del true (g_fin_files g) k e f tr) as [[[f1 tr1] r1] k1] eqn:E1.
  pose proof (run_del_visible roots _ _ _ _ _ _ _ _ _ _ H2 E1) as V1.
  destruct r1; [injection H as <- _ _; exact V1|].
  destruct (run_del false [g_limbodir g] k1 e f1 tr1) as [[[f2 tr2] r2] k2] eqn:E2.
  assert (V2 : visible roots f2 = visible roots f1).
  { eapply run_del_visible; [|exact E2]. simpl. rewrite H3. reflexivity. }
  destruct r2; [injection H as <- _ _; congruence|].
  destruct (run_del false [g_deletiondir g] k2 e f2 tr2) as [[[f3 tr3] r3] k3] eqn:E3.
  assert (V3 : visible roots f3 = visible roots f2).
  { eapply run_del_visible; [|exact E3]. simpl. rewrite H4. reflexivity. }
  destruct r3; injection H as <- _ _; congruence.
Qed.

(* Classification of every outcome, for both orders of the last two steps.
   [b = true] is the code as it is; with [b = false] (the order before c37d45c) the inventory
   in stage SDel is still the OLD one while the visible disk is already the NEW layout. *)
Theorem outcome_classification : forall b roots g flt f0 inv0,
  wf f0 -> hidden_prog roots g = true ->
  o_dirty (run_with_fault b g flt f0 inv0) = false ->
  match o_stage (run_with_fault b g flt f0 inv0) with
  | SPhase => o_fs (run_with_fault b g flt f0 inv0) = f0 /\
              o_inv (run_with_fault b g flt f0 inv0) = inv0
  | SDel => visible roots (o_fs (run_with_fault b g flt f0 inv0)) = visible roots (phase_fs g flt f0) /\
            o_inv (run_with_fault b g flt f0 inv0) = (if b then g_inv_new g else inv0)
  | SFin | SDone =>
            visible roots (o_fs (run_with_fault b g flt f0 inv0)) = visible roots (phase_fs g flt f0) /\
            o_inv (run_with_fault b g flt f0 inv0) = g_inv_new g
  end.
Proof.
  intros b roots g flt f0 inv0 Hwf Hh Hd.
  destruct (o_stage (run_with_fault b g flt f0 inv0)) eqn:Hs.
  - destruct (phase_fault_restores b g flt f0 inv0 Hwf Hs Hd) as (H1 & H2 & _). auto.
  - revert Hs. clear Hd. unfold run_with_fault, phase_fs.
    destruct (run_try g flt f0)
      as [[[[f1 j] d] tr1] [x|]] eqn:Hrun.
    + destruct (rollback j f1 tr1) as [[f2 tr2] [er|]]; simpl; discriminate.
    + destruct (run_del false (g_deletions g) (kdel flt) (ferr flt) f1 tr1)
        as [[[f2 tr2] [er|]] k2] eqn:Hdel; simpl.
      * intros _. split; [|reflexivity].
        unfold hidden_prog in Hh. repeat (apply andb_true_iff in Hh; destruct Hh as [Hh ?]).
        eapply run_del_visible; [exact Hh | exact Hdel].
      * destruct (run_fin g (kfin flt) (ferr flt) f2 tr2) as [[f3 tr3] [x|]]; simpl; discriminate.
  - revert Hs. clear Hd. unfold run_with_fault, phase_fs.
    destruct (run_try g flt f0)
      as [[[[f1 j] d] tr1] [x|]] eqn:Hrun.
    + destruct (rollback j f1 tr1) as [[f2 tr2] [er|]]; simpl; discriminate.
    + destruct (run_del false (g_deletions g) (kdel flt) (ferr flt) f1 tr1)
        as [[[f2 tr2] [er|]] k2] eqn:Hdel; simpl; [discriminate|].
      destruct (run_fin g (kfin flt) (ferr flt) f2 tr2) as [[f3 tr3] [x|]] eqn:Hfin; simpl; [|discriminate].
      intros _. split; [|reflexivity].
      rewrite (run_fin_visible roots _ _ _ _ _ _ _ _ Hh Hfin).
      unfold hidden_prog in Hh. repeat (apply andb_true_iff in Hh; destruct Hh as [Hh ?]).
      eapply run_del_visible; [exact Hh | exact Hdel].
  - revert Hs. clear Hd. unfold run_with_fault, phase_fs.
    destruct (run_try g flt f0)
      as [[[[f1 j] d] tr1] [x|]] eqn:Hrun.
    + destruct (rollback j f1 tr1) as [[f2 tr2] [er|]]; simpl; discriminate.
    + destruct (run_del false (g_deletions g) (kdel flt) (ferr flt) f1 tr1)
        as [[[f2 tr2] [er|]] k2] eqn:Hdel; simpl; [discriminate|].
      destruct (run_fin g (kfin flt) (ferr flt) f2 tr2) as [[f3 tr3] [x|]] eqn:Hfin; simpl; [discriminate|].
      intros _. split; [|reflexivity].
      rewrite (run_fin_visible roots _ _ _ _ _ _ _ _ Hh Hfin).
      unfold hidden_prog in Hh. repeat (apply andb_true_iff in Hh; destruct Hh as [Hh ?]).
      eapply run_del_visible; [exact Hh | exact Hdel].
Qed.

Lemma apply_prog_inv_new : forall x, g_inv_new (apply_prog x) = x_inv_new x.
Proof.
  intros x. unfold apply_prog, compile.
  destruct (removal_ops x (rev (sort_pt (x_tree_paths x))) (init_lstate x)) as [[rops dels] l1].
  destruct (insertion_ops x (new_paths x l1) l1) as [iops l2]. reflexivity.
Qed.

(* ---------------------------------------------------------------- concrete witnesses *)

Definition ctl : path := [".bzr"; "checkout"]%string.
Definition ctl_roots : list path := [[".bzr"]%string].

(* tree { f, g }; transform: delete f, rename g -> h *)
Definition w_fs : fs :=
  [([], Dir); ([".bzr"]%string, Dir); (ctl, Dir); (ctl ++ ["limbo"]%string, Dir);
   (ctl ++ ["pending-deletion"]%string, Dir);
   (["f"]%string, File [70%N] false); (["g"]%string, File [71%N] false)].
Definition w_inv0 : list path := [[]; ["f"]; ["g"]]%string.
Definition w_x : xform :=
  {| x_limbodir := ctl ++ ["limbo"]%string; x_deletiondir := ctl ++ ["pending-deletion"]%string;
     x_tree_paths := [([], "new-0"); (["f"], "new-1"); (["g"], "new-2")]%string;
     x_removed := ["new-1"]%string;
     x_new_name := [("new-2", "h")]%string; x_new_parent := [("new-2", "new-0")]%string;
     x_new_contents := []; x_new_id := []; x_new_exec := []; x_limbo_files := [];
     x_limbo_children_names := []; x_needs_rename := []; x_stale := [];
     x_final_paths := [("new-0", []); ("new-1", ["f"]); ("new-2", ["h"])]%string;
     x_inv_new := [[]; ["h"]]%string |}.

Lemma w_fs_wf : wf w_fs.
Proof. apply wfb_wf. vm_compute. reflexivity. Qed.

Lemma w_hidden : hidden_prog ctl_roots (apply_prog w_x) = true.
Proof. vm_compute. reflexivity. Qed.

(* OLD order (before c37d45c): the new layout on disk, the old layout in the inventory *)
Lemma old_order_fault_in_deletions_witness :
  let o := apply_model_old w_x (FDel 0 EIO) w_fs w_inv0 in
  o_stage o = SDel /\ o_dirty o = false /\
  visible ctl_roots (o_fs o) = [([], Dir); (["h"]%string, File [71%N] false)] /\
  visible ctl_roots (o_fs o) = visible ctl_roots (o_fs (apply_model w_x FNone w_fs w_inv0)) /\
  visible ctl_roots (o_fs o) <> visible ctl_roots w_fs /\
  o_inv o = w_inv0 /\ w_inv0 <> x_inv_new w_x.
Proof. vm_compute. repeat split; discriminate. Qed.

(* the code as it is: the same fault leaves a consistent NEW state *)
Lemma fault_in_deletions_witness :
  let o := apply_model w_x (FDel 0 EIO) w_fs w_inv0 in
  o_stage o = SDel /\
  visible ctl_roots (o_fs o) = visible ctl_roots (o_fs (apply_model w_x FNone w_fs w_inv0)) /\
  o_inv o = x_inv_new w_x.
Proof. vm_compute. repeat split. Qed.

(* executable bits: tree { a }, transform: set_executability(True, a); new executable file z.
   Since 54fc383 the bits are set after all renames and put back when a later step fails. *)
Definition c_fs : fs :=
  [([], Dir); ([".bzr"]%string, Dir); (ctl, Dir); (ctl ++ ["limbo"]%string, Dir);
   (ctl ++ ["pending-deletion"]%string, Dir); (ctl ++ ["limbo"; "new-2"]%string, File [90%N] false);
   (["a"]%string, File [65%N] false)].
Definition c_x : xform :=
  {| x_limbodir := ctl ++ ["limbo"]%string; x_deletiondir := ctl ++ ["pending-deletion"]%string;
     x_tree_paths := [([], "new-0"); (["a"], "new-1")]%string;
     x_removed := [];
     x_new_name := [("new-2", "z")]%string; x_new_parent := [("new-2", "new-0")]%string;
     x_new_contents := [("new-2"%string, false)]; x_new_id := ["new-2"]%string;
     x_new_exec := [("new-1"%string, true); ("new-2"%string, true)];
     x_limbo_files := [("new-2"%string, ctl ++ ["limbo"; "new-2"]%string)];
     x_limbo_children_names := []; x_needs_rename := ["new-2"]%string; x_stale := [];
     x_final_paths := [("new-0", []); ("new-1", ["a"]); ("new-2", ["z"])]%string;
     x_inv_new := [[]; ["a"]; ["z"]]%string |}.

(* rename z, chmod a, chmod z raises: a gets its old mode back, z goes back to limbo *)
Lemma exec_change_restored_witness :
  let o := apply_model c_x (FPhase 2 EIO) c_fs [[]; ["a"]%string] in
  wf c_fs /\ o_stage o = SPhase /\ o_dirty o = false /\ List.length (o_trace o) = 5 /\ o_fs o = c_fs /\
  lookup (o_fs (apply_model c_x FNone c_fs [[]; ["a"]%string])) ["a"]%string = Some (File [65%N] true).
Proof.
  split; [apply wfb_wf; vm_compute; reflexivity|].
  vm_compute. repeat split.
Qed.

(* a rename that replaces an existing file is not undone by the reverse rename *)
Definition k_fs : fs := [([], Dir); (["a"]%string, File [65%N] false); (["b"]%string, File [66%N] false)].
Definition k_prog : prog :=
  {| g_phase := [PRename false ["a"]%string ["b"]%string; PRename false ["nope"]%string ["c"]%string];
     g_chmods := []; g_deletions := []; g_inv_new := []; g_fin_files := []; g_limbodir := ["l"]%string; g_deletiondir := ["p"]%string |}.

Lemma clobbering_rename_witness :
  let o := run_with_fault false k_prog FNone k_fs [] in
  wf k_fs /\ o_stage o = SPhase /\ o_dirty o = true /\ lookup (o_fs o) ["b"]%string = None.
Proof.
  split; [apply wfb_wf; vm_compute; reflexivity|].
  vm_compute. repeat split.
Qed.

(* the hypotheses of the main theorem are satisfiable by a non-trivial value: a fault at the
   third rename of the witness transform is rolled back through two journal entries *)
Example restores_nontrivial :
  let o := apply_model w_x (FPhase 2 EIO) w_fs w_inv0 in
  wf w_fs /\ o_stage o = SPhase /\ o_dirty o = false /\ List.length (o_trace o) = 5 /\ o_fs o = w_fs.
Proof.
  split; [exact w_fs_wf|]. vm_compute. repeat split.
Qed.
