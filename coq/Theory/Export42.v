(* Theory/Export42.v -- proofs about the export model (C42):
   the string-level selection of _export_iter_entries equals the component-level
   specification, the tar / dir / zip item builders emit exactly the re-rooted
   sub-tree (zip: guarded + refuted), re-rooting is injective, get_root_name /
   guess_format strip / recognise every registered extension. *)
From Coq Require Import ZArith NArith List Bool String Lia FinFun.
From BV Require Import Lib.Bytes Lib.Obs Model.Eol Model.Export42.
Import ListNotations.
Open Scope N_scope.

Local Opaque N.eqb.

(* ------------------------------------------------------------------ *)
(* bytes basics *)
Lemma bytes_eqb_eq a b : bytes_eqb a b = true <-> a = b.
Proof.
  revert b; induction a as [|x a IH]; intros [|y b]; simpl; split; intro H;
    try reflexivity; try discriminate.
  - apply andb_true_iff in H as [H1 H2]. apply N.eqb_eq in H1. apply IH in H2. congruence.
  - inversion H; subst. apply andb_true_iff; split; [apply N.eqb_refl | apply IH; reflexivity].
Qed.

Lemma bytes_eqb_refl a : bytes_eqb a a = true.
Proof. apply bytes_eqb_eq; reflexivity. Qed.

Lemma bytes_eqb_neq a b : bytes_eqb a b = false <-> a <> b.
Proof.
  split; intro H.
  - intro E. apply bytes_eqb_eq in E. congruence.
  - destruct (bytes_eqb a b) eqn:E; [apply bytes_eqb_eq in E; contradiction | reflexivity].
Qed.

Lemma prefixb_app p r : prefixb p (p ++ r) = true.
Proof. induction p as [|x p IH]; simpl; [reflexivity|]. rewrite N.eqb_refl; exact IH. Qed.

Lemma prefixb_split p s : prefixb p s = true -> s = p ++ skipn (List.length p) s.
Proof.
  revert s; induction p as [|x p IH]; intros s H; simpl in *; [reflexivity|].
  destruct s as [|y s]; [discriminate|].
  apply andb_true_iff in H as [H1 H2]. apply N.eqb_eq in H1; subst y.
  simpl. f_equal. apply IH; exact H2.
Qed.

Lemma prefixb_app_or p a b :
  prefixb p (a ++ b) = true -> prefixb p a = true \/ prefixb a p = true.
Proof.
  revert a; induction p as [|x p IH]; intros a H; [left; reflexivity|].
  destruct a as [|y a]; [right; reflexivity|].
  simpl in *. apply andb_true_iff in H as [H1 H2].
  destruct (IH a H2) as [H|H]; [left|right]; rewrite H.
  - rewrite H1; reflexivity.
  - rewrite N.eqb_sym, H1; reflexivity.
Qed.

(* ------------------------------------------------------------------ *)
(* splitc / join *)
Lemma splitc_nonnil s : splitc s <> [].
Proof.
  destruct s as [|c s]; simpl; [discriminate|].
  destruct (c =? SL); [discriminate|]. destruct (splitc s); discriminate.
Qed.

Lemma splitc_app a b : splitc (a ++ SL :: b) = splitc a ++ splitc b.
Proof.
  induction a as [|c a IH]; simpl; [reflexivity|].
  destruct (c =? SL) eqn:E.
  - rewrite IH; reflexivity.
  - rewrite IH. destruct (splitc a) as [|h t] eqn:Ea; [exfalso; eapply splitc_nonnil; eauto|].
    reflexivity.
Qed.

Lemma join_splitc s : join [SL] (splitc s) = s.
Proof.
  induction s as [|c s IH]; [reflexivity|]. simpl.
  destruct (c =? SL) eqn:E.
  - apply N.eqb_eq in E; subst c.
    destruct (splitc s) as [|h t] eqn:Es; [exfalso; eapply splitc_nonnil; eauto|].
    simpl in *. rewrite IH; reflexivity.
  - destruct (splitc s) as [|h t] eqn:Es; [exfalso; eapply splitc_nonnil; eauto|].
    destruct t as [|h2 t]; simpl in *; rewrite <- IH; reflexivity.
Qed.

Lemma splitc_inj a b : splitc a = splitc b -> a = b.
Proof. intro H. rewrite <- (join_splitc a), <- (join_splitc b), H; reflexivity. Qed.

Lemma join_app (a r : list bytes) :
  a <> [] -> r <> [] -> join [SL] (a ++ r) = join [SL] a ++ SL :: join [SL] r.
Proof.
  induction a as [|x a IH]; intros Ha Hr; [congruence|].
  destruct a as [|y a].
  - destruct r as [|z r]; [congruence|]. reflexivity.
  - change (join [SL] ((x :: y :: a) ++ r)) with (x ++ [SL] ++ join [SL] ((y :: a) ++ r)).
    rewrite IH by (assumption || discriminate).
    change (join [SL] (x :: y :: a)) with (x ++ [SL] ++ join [SL] (y :: a)).
    rewrite <- !app_assoc. reflexivity.
Qed.

Lemma splitc_noslash s : memb SL s = false -> splitc s = [s].
Proof.
  induction s as [|c s IH]; intro H; [reflexivity|].
  unfold memb in H. simpl in H. apply orb_false_iff in H as [H1 H2].
  simpl. rewrite N.eqb_sym, H1. rewrite IH by exact H2. reflexivity.
Qed.

Lemma splitc_comps_noslash s : Forall (fun c => memb SL c = false) (splitc s).
Proof.
  induction s as [|c s IH]; simpl; [repeat constructor|].
  destruct (c =? SL) eqn:E; [constructor; [reflexivity|exact IH]|].
  destruct (splitc s) as [|h t]; [repeat constructor; unfold memb; simpl; rewrite N.eqb_sym, E; reflexivity|].
  inversion IH; subst. constructor; [|assumption].
  unfold memb in *. simpl. rewrite N.eqb_sym, E. assumption.
Qed.

Lemma last_in_forall {A} (P : A -> Prop) (l : list A) d : l <> [] -> Forall P l -> P (last l d).
Proof.
  induction l as [|x l IH]; intros Hn Hf; [congruence|].
  inversion Hf; subst. destruct l as [|y l]; [assumption|].
  apply IH; [discriminate|assumption].
Qed.

Lemma splitc_basename s : splitc (basename s) = [basename s].
Proof.
  apply splitc_noslash. unfold basename.
  apply (last_in_forall (fun c => memb SL c = false)); [apply splitc_nonnil | apply splitc_comps_noslash].
Qed.

Lemma is_root_splitc s : is_root (splitc s) = is_empty s.
Proof.
  destruct s as [|c s]; [reflexivity|]. simpl.
  pose proof (splitc_nonnil s) as Hn.
  destruct (c =? SL); destruct (splitc s) as [|h t]; try congruence; reflexivity.
Qed.

(* startswith(q) for a slash-free q looks at the first component only *)
Lemma prefixb_first_comp q s :
  memb SL q = false -> prefixb q s = prefixb q (hd [] (splitc s)).
Proof.
  revert s; induction q as [|x q IH]; intros s Hq; [reflexivity|].
  unfold memb in Hq; simpl in Hq. apply orb_false_iff in Hq as [Hx Hq].
  destruct s as [|c s]; [reflexivity|]. simpl.
  destruct (c =? SL) eqn:E.
  - apply N.eqb_eq in E; subst c. simpl. rewrite N.eqb_sym, Hx. reflexivity.
  - pose proof (IH s Hq) as IHs.
    destruct (splitc s) as [|h t] eqn:Es; [exfalso; eapply splitc_nonnil; eauto|].
    simpl in *. rewrite IHs. reflexivity.
Qed.

Lemma special_splitc p : prefixb dot_bzr p = special_comps (splitc p).
Proof.
  rewrite (prefixb_first_comp dot_bzr p) by (vm_compute; reflexivity).
  unfold special_comps. pose proof (splitc_nonnil p).
  destruct (splitc p); [congruence|reflexivity].
Qed.

(* ------------------------------------------------------------------ *)
(* strip_prefix *)
Lemma strip_prefix_app a r : strip_prefix a (a ++ r) = Some r.
Proof. induction a as [|x a IH]; simpl; [reflexivity|]. rewrite bytes_eqb_refl; exact IH. Qed.

Lemma strip_prefix_self a : strip_prefix a a = Some [].
Proof. rewrite <- (app_nil_r a) at 2. apply strip_prefix_app. Qed.

Lemma strip_prefix_some a l r : strip_prefix a l = Some r -> l = a ++ r.
Proof.
  revert l; induction a as [|x a IH]; intros l H; simpl in *; [congruence|].
  destruct l as [|y l]; [discriminate|].
  destruct (bytes_eqb x y) eqn:E; [|discriminate].
  apply bytes_eqb_eq in E; subst y. simpl; f_equal; apply IH; exact H.
Qed.

(* ------------------------------------------------------------------ *)
(* filtermap *)
Lemma filtermap_map {A B C} (f : B -> option C) (g : A -> B) l :
  filtermap f (map g l) = filtermap (fun x => f (g x)) l.
Proof. induction l as [|x l IH]; simpl; [reflexivity|]. rewrite IH; reflexivity. Qed.

Lemma map_filtermap {A B C} (f : A -> option B) (g : B -> C) l :
  map g (filtermap f l) = filtermap (fun x => option_map g (f x)) l.
Proof.
  induction l as [|x l IH]; simpl; [reflexivity|].
  destruct (f x); simpl; rewrite IH; reflexivity.
Qed.

Lemma filtermap_ext {A B} (f g : A -> option B) l :
  (forall x, In x l -> f x = g x) -> filtermap f l = filtermap g l.
Proof.
  induction l as [|x l IH]; intro H; simpl; [reflexivity|].
  rewrite (H x) by (left; reflexivity). rewrite IH by (intros; apply H; right; assumption).
  reflexivity.
Qed.

Lemma in_filtermap {A B} (f : A -> option B) l y :
  In y (filtermap f l) <-> exists x, In x l /\ f x = Some y.
Proof.
  induction l as [|x l IH]; simpl; [split; [tauto|intros [? [[] _]]]|].
  destruct (f x) eqn:E; simpl; rewrite IH; split.
  - intros [H|[x' [H1 H2]]]; [subst; eauto | eauto].
  - intros [x' [[H|H] H2]]; [subst; left; congruence | right; eauto].
  - intros [x' [H1 H2]]; eauto.
  - intros [x' [[H|H] H2]]; [subst; congruence | eauto].
Qed.

(* ------------------------------------------------------------------ *)
(* _export_iter_entries = the component-level selection *)
Definition lift (p : bytes * entry) : cpath * entry := (splitc (fst p), snd p).

Lemma iter1_spec sd e :
  option_map lift (iter1 sd e)
  = spec1 true (option_map splitc sd) (abstract e).
Proof.
  unfold iter1, spec1, abstract; cbn [fst snd].
  rewrite is_root_splitc.
  destruct (is_empty (e_path e)) eqn:Hemp; [reflexivity|].
  unfold is_special_path. rewrite <- special_splitc. cbn [andb].
  destruct (prefixb dot_bzr (e_path e)); [reflexivity|].
  destruct sd as [s|]; cbn [option_map spec_rel fst snd]; [|reflexivity].
  destruct (bytes_eqb (e_path e) s) eqn:Heq.
  + apply bytes_eqb_eq in Heq; subst s.
    rewrite <- (app_nil_r (splitc (e_path e))) at 2. rewrite strip_prefix_app.
    destruct (e_kind e); cbn [option_map]; unfold lift; cbn [fst snd]; try reflexivity;
      rewrite splitc_basename; reflexivity.
  + destruct (prefixb (s ++ [SL]) (e_path e)) eqn:Hp.
    * apply prefixb_split in Hp. rewrite app_length in Hp; simpl in Hp.
      rewrite <- app_assoc in Hp; simpl in Hp.
      cbn [option_map]; unfold lift; cbn [fst snd].
      set (r := skipn (List.length s + 1) (e_path e)) in *.
      rewrite Hp at 1. rewrite splitc_app, strip_prefix_app.
      pose proof (splitc_nonnil r). destruct (splitc r) eqn:Er; [congruence|]. reflexivity.
    * cbn [option_map].
      destruct (strip_prefix (splitc s) (splitc (e_path e))) as [rel|] eqn:Hs; [|reflexivity].
      exfalso. apply strip_prefix_some in Hs.
      destruct rel as [|r0 rel].
      -- rewrite app_nil_r in Hs. apply splitc_inj in Hs. apply bytes_eqb_neq in Heq. congruence.
      -- assert (e_path e = s ++ SL :: join [SL] (r0 :: rel)) as Hx.
         { rewrite <- (join_splitc (e_path e)), Hs, join_app
             by (apply splitc_nonnil || discriminate).
           rewrite join_splitc; reflexivity. }
         rewrite Hx in Hp.
         replace (s ++ SL :: join [SL] (r0 :: rel)) with ((s ++ [SL]) ++ join [SL] (r0 :: rel)) in Hp
           by (rewrite <- app_assoc; reflexivity).
         rewrite prefixb_app in Hp. discriminate.
Qed.

Theorem select_exact sd es :
  map lift (export_iter_entries sd es)
  = spec_select true (option_map splitc (norm_subdir sd)) (map abstract es).
Proof.
  unfold export_iter_entries, spec_select.
  rewrite map_filtermap, filtermap_map.
  apply filtermap_ext; intros e _. apply iter1_spec.
Qed.

(* ------------------------------------------------------------------ *)
(* subdir normalisation: trailing slashes are dropped, "" means the whole tree *)
Lemma rstrip_repeat k : rstrip_sl (repeat SL k) = [].
Proof. induction k as [|k IH]; [reflexivity|]. cbn [repeat rstrip_sl]. rewrite IH, N.eqb_refl; reflexivity. Qed.

Lemma rstrip_sl_app s k :
  s <> [] -> ends_with_sl s = false -> rstrip_sl (s ++ repeat SL k) = s.
Proof.
  unfold ends_with_sl.
  induction s as [|c s IH]; intros Hn Hl; [congruence|].
  destruct s as [|c2 s].
  - cbn [app rstrip_sl]. rewrite rstrip_repeat. cbn [last] in Hl. rewrite Hl; reflexivity.
  - change ((c :: c2 :: s) ++ repeat SL k) with (c :: ((c2 :: s) ++ repeat SL k)).
    cbn [rstrip_sl]. rewrite IH by (discriminate || exact Hl). reflexivity.
Qed.

Theorem norm_subdir_trailing s k :
  s <> [] -> ends_with_sl s = false -> norm_subdir (Some (s ++ repeat SL k)) = Some s.
Proof.
  intros Hn Hl. unfold norm_subdir.
  assert (is_empty (s ++ repeat SL k) = false) as He by (destruct s; [congruence|reflexivity]).
  rewrite He, rstrip_sl_app by assumption. reflexivity.
Qed.

Lemma norm_subdir_empty : norm_subdir (Some []) = None /\ norm_subdir None = None.
Proof. split; reflexivity. Qed.

(* ------------------------------------------------------------------ *)
(* pathjoin and the root prefix *)
Definition good_final (fp : bytes) : Prop :=
  forallb (fun c => negb (is_empty c)) (splitc fp) = true.

Lemma good_final_head fp : good_final fp -> exists c r, fp = c :: r /\ (c =? SL) = false.
Proof.
  unfold good_final. destruct fp as [|c r]; [discriminate|].
  cbn [splitc]. destruct (c =? SL) eqn:E; [cbn; discriminate|]. eauto.
Qed.

Lemma last_app_nonnil {A} (a b : list A) d : b <> [] -> last (a ++ b) d = last b d.
Proof.
  induction a as [|x a IH]; intro Hb; [reflexivity|].
  cbn [app]. rewrite <- (IH Hb). destruct (a ++ b) eqn:E; [apply app_eq_nil in E as [_ ?]; congruence|].
  reflexivity.
Qed.

Lemma ends_with_sl_split s : s <> [] -> ends_with_sl s = true -> s = removelast s ++ [SL].
Proof.
  intros Hn H. unfold ends_with_sl in H. apply N.eqb_eq in H.
  rewrite (app_removelast_last 0 Hn) at 1. rewrite H; reflexivity.
Qed.

Lemma splitc_trailing s : splitc (s ++ [SL]) = splitc s ++ [[]].
Proof. apply (splitc_app s []). Qed.

Lemma good_final_no_trailing fp : good_final fp -> ends_with_sl fp = false.
Proof.
  intro G. destruct (ends_with_sl fp) eqn:E; [|reflexivity].
  destruct (good_final_head fp G) as [c [r [Hfp _]]].
  assert (fp <> []) as Hn by (subst; discriminate).
  apply ends_with_sl_split in E; [|exact Hn].
  unfold good_final in G. rewrite E, splitc_trailing, forallb_app in G.
  apply andb_true_iff in G as [_ G]. cbn in G. discriminate.
Qed.

Lemma pathjoin_good root fp : good_final fp -> pathjoin root fp = root_prefix root ++ fp.
Proof.
  intro G. destruct (good_final_head fp G) as [c [r [Hfp Hc]]]. subst fp.
  unfold pathjoin, root_prefix. rewrite Hc.
  destruct (is_empty root); [reflexivity|].
  destruct (ends_with_sl root); [reflexivity|]. rewrite <- app_assoc; reflexivity.
Qed.

Lemma splitc_root_prefix root fp :
  splitc (root_prefix root ++ fp) = root_comps root ++ splitc fp.
Proof.
  unfold root_prefix, root_comps.
  destruct (is_empty root) eqn:He; [reflexivity|].
  assert (root <> []) as Hn by (destruct root; [discriminate|discriminate]).
  destruct (ends_with_sl root) eqn:Hs.
  - apply ends_with_sl_split in Hs; [|exact Hn].
    remember (removelast root) as r eqn:Hr. clear Hr. rewrite Hs.
    rewrite <- app_assoc. cbn [app]. rewrite splitc_app.
    rewrite splitc_trailing, removelast_last. reflexivity.
  - rewrite <- app_assoc. cbn [app]. apply splitc_app.
Qed.

Lemma splitc_pathjoin root fp :
  good_final fp -> splitc (pathjoin root fp) = root_comps root ++ splitc fp.
Proof. intro G. rewrite pathjoin_good by exact G. apply splitc_root_prefix. Qed.

(* every member name starts with the root prefix *)
Theorem pathjoin_under_root root fp :
  good_final fp -> prefixb (root_prefix root) (pathjoin root fp) = true.
Proof. intro G. rewrite pathjoin_good by exact G. apply prefixb_app. Qed.

(* ------------------------------------------------------------------ *)
(* selected final paths are good when the tree paths are *)
Lemma forallb_strip {P : bytes -> bool} a l r :
  strip_prefix a l = Some r -> forallb P l = true -> forallb P r = true.
Proof.
  intros H F. apply strip_prefix_some in H. subst l. rewrite forallb_app in F.
  apply andb_true_iff in F as [_ F]; exact F.
Qed.

Lemma forallb_last {P : bytes -> bool} (l : list bytes) d :
  l <> [] -> forallb P l = true -> P (last l d) = true.
Proof.
  intros Hn F. rewrite forallb_forall in F. apply F.
  rewrite (app_removelast_last d Hn) at 2. apply in_or_app; right; left; reflexivity.
Qed.

Lemma spec1_good skip sd ce rel e :
  wf_comps (fst ce) = true -> spec1 skip sd ce = Some (rel, e) ->
  forallb (fun c => negb (is_empty c)) rel = true /\ rel <> [] /\ e = snd ce.
Proof.
  unfold spec1, wf_comps. intros W H.
  destruct (is_root (fst ce)) eqn:R; [discriminate|].
  assert (fst ce <> [] /\ forallb (fun c => negb (is_empty c)) (fst ce) = true) as [Hne W'].
  { revert R W. generalize (fst ce) as cs. intros cs R W. destruct cs as [|b cs]; [discriminate W|].
    split; [discriminate|exact W]. }
  clear W. rename W' into W.
  destruct (skip && special_comps (fst ce)); [discriminate|].
  unfold spec_rel in H.
  destruct sd as [s|].
  - destruct (strip_prefix s (fst ce)) as [[|r0 r]|] eqn:S; cbn [option_map] in H; [| |discriminate].
    + destruct (e_kind (snd ce)); cbn [option_map] in H; try discriminate;
        inversion H; subst; (split; [|split; [discriminate|reflexivity]]);
        cbn [forallb]; rewrite (forallb_last _ _ Hne W); reflexivity.
    + inversion H; subst. split; [|split; [discriminate|reflexivity]].
      eapply forallb_strip; eauto.
  - cbn [option_map] in H. inversion H; subst. auto.
Qed.

Lemma wf_entries_in es e : wf_entries es = true -> In e es -> wf_comps (splitc (e_path e)) = true.
Proof. unfold wf_entries. rewrite forallb_forall. auto. Qed.

Lemma selected_good sd es fp e :
  wf_entries es = true -> In (fp, e) (export_iter_entries sd es) ->
  good_final fp /\ In e es.
Proof.
  intros W H. unfold export_iter_entries in H. apply in_filtermap in H as [e0 [Hin Hsel]].
  pose proof (iter1_spec (norm_subdir sd) e0) as HS. rewrite Hsel in HS.
  cbn [option_map] in HS. symmetry in HS.
  apply spec1_good in HS; [|apply (wf_entries_in es); assumption].
  unfold lift in HS; cbn [fst snd abstract] in HS. destruct HS as [G [_ He]].
  subst e0. split; assumption.
Qed.

(* ------------------------------------------------------------------ *)
(* tar: the members decode to exactly the re-rooted selection *)
Lemma strip_one_sl_dir s : strip_one_sl (s ++ [SL]) = s.
Proof.
  unfold strip_one_sl, ends_with_sl. rewrite last_last, N.eqb_refl. apply removelast_last.
Qed.

Lemma tar_decode_item filtered root force fe :
  good_final (fst fe) ->
  tar_decode (prepare_tarball_item filtered root force fe)
  = (root_comps root ++ splitc (fst fe), node_of filtered (snd fe)).
Proof.
  intro G. destruct fe as [fp e]. unfold prepare_tarball_item, tar_decode, node_of. cbn [fst snd] in *.
  destruct (e_kind e); cbn [t_type t_name t_content t_mode t_link].
  - rewrite splitc_pathjoin by exact G. destruct (e_exec e); reflexivity.
  - rewrite strip_one_sl_dir, splitc_pathjoin by exact G. reflexivity.
  - rewrite splitc_pathjoin by exact G. reflexivity.
Qed.

Lemma spec_export_via_select filtered rootc sd es :
  spec_export filtered true rootc (option_map splitc (norm_subdir sd)) (map abstract es)
  = map (fun fe => (rootc ++ splitc (fst fe), node_of filtered (snd fe)))
        (export_iter_entries sd es).
Proof.
  unfold spec_export. rewrite <- select_exact, map_map. reflexivity.
Qed.

Theorem tar_entries_exact filtered root sd force es :
  wf_entries es = true ->
  map tar_decode (tarball_items filtered root sd force es)
  = spec_export filtered true (root_comps root)
                (option_map splitc (norm_subdir sd)) (map abstract es).
Proof.
  intros W. unfold tarball_items.
  rewrite spec_export_via_select, map_map. apply map_ext_in. intros [fp e] Hin.
  apply tar_decode_item. apply (selected_good sd es fp e W Hin).
Qed.

(* ------------------------------------------------------------------ *)
(* dir: same, without a root *)
Theorem dir_entries_exact filtered sd force pre es :
  wf_entries es = true -> pre <> DNonEmpty ->
  exists items,
    dir_items filtered sd force pre es = Ok items /\
    map dir_decode items
    = spec_export filtered true [] (option_map splitc (norm_subdir sd)) (map abstract es).
Proof.
  intros W Hpre. exists (map (dir_item filtered force) (export_iter_entries sd es)).
  split.
  - unfold dir_items. destruct pre; congruence.
  - rewrite spec_export_via_select, map_map. apply map_ext_in. intros [fp e] _.
    unfold dir_item, dir_decode, node_of. cbn [fst snd app].
    destruct (e_kind e); reflexivity.
Qed.

(* a refused export changes nothing: no item is produced *)
Theorem dir_nonempty_refused filtered sd force es :
  dir_items filtered sd force DNonEmpty es = Er "BzrError".
Proof. reflexivity. Qed.

(* ------------------------------------------------------------------ *)
(* zip: exact (executable bits included, since 552504a) for trees without symlinks *)
Definition zip_guard (es : list entry) : Prop :=
  forall e, In e es -> e_kind e <> KLink.

Lemma ends_with_sl_pathjoin root fp :
  good_final fp -> ends_with_sl (pathjoin root fp) = false.
Proof.
  intro G. rewrite pathjoin_good by exact G.
  destruct (good_final_head fp G) as [c [r [Hfp _]]].
  pose proof (good_final_no_trailing fp G) as Ht.
  unfold ends_with_sl in *. rewrite last_app_nonnil by (subst; discriminate). exact Ht.
Qed.

Lemma zip_decode_item filtered root force fe :
  good_final (fst fe) -> e_kind (snd fe) <> KLink ->
  zip_decode (zip_item filtered root force fe)
  = (root_comps root ++ splitc (fst fe), node_of filtered (snd fe)).
Proof.
  intros G Hl. destruct fe as [fp e]. unfold zip_item, zip_decode, node_of. cbn [fst snd] in *.
  destruct (e_kind e) eqn:K; cbn [z_name z_attr z_content]; [| |congruence].
  - rewrite ends_with_sl_pathjoin by exact G.
    rewrite splitc_pathjoin by exact G. destruct (e_exec e); reflexivity.
  - unfold ends_with_sl at 1. rewrite last_last, N.eqb_refl, removelast_last.
    rewrite splitc_pathjoin by exact G. reflexivity.
Qed.

Theorem zip_entries_exact_guarded filtered root sd force es :
  wf_entries es = true -> zip_guard es ->
  map zip_decode (zip_items filtered root sd force es)
  = spec_export filtered true (root_comps root)
                (option_map splitc (norm_subdir sd)) (map abstract es).
Proof.
  intros W Z. unfold zip_items.
  rewrite spec_export_via_select, map_map. apply map_ext_in. intros [fp e] Hin.
  destruct (selected_good sd es fp e W Hin) as [G Hine].
  apply zip_decode_item; [exact G | exact (Z e Hine)].
Qed.

(* witnesses: a symlink becomes a regular file, and a symlink l collides with a file l.lnk *)
Definition root_entry : entry := mkE [] KDir [] false [] 0 false.
Definition w_exec : list entry := [root_entry; mkE [120] KFile [97] true [] 0 false].
Definition w_link : list entry := [root_entry; mkE [108] KLink [] false [116] 0 false].
Definition w_coll : list entry :=
  [root_entry; mkE [108] KLink [] false [116] 0 false; mkE [108;46;108;110;107] KFile [97] false [] 0 false].

Theorem zip_symlink_refuted :
  exists es, wf_entries es = true /\ NoDup (map e_path es) /\
    map zip_decode (zip_items false [82] None (Some 0%Z) es)
    <> spec_export false true (root_comps [82]) None (map abstract es).
Proof.
  exists w_link. split; [reflexivity|]. split; [|vm_compute; discriminate].
  repeat constructor; cbn; intuition discriminate.
Qed.

Theorem zip_names_collide_refuted :
  exists es, wf_entries es = true /\ NoDup (map e_path es) /\
    ~ NoDup (map z_name (zip_items false [82] None (Some 0%Z) es)).
Proof.
  exists w_coll. split; [reflexivity|]. split.
  - repeat constructor; cbn; intuition discriminate.
  - intro H. vm_compute in H. inversion H as [|x l Hnin _]; subst. apply Hnin. left; reflexivity.
Qed.

(* --filters changes file contents only: same paths, kinds, executable bits, symlink targets *)
Definition shape (p : cpath * node) : cpath * kind * bool * bytes :=
  (fst p, n_kind (snd p), n_exec (snd p), n_target (snd p)).

Theorem filters_only_change_content skip rootc sd ces :
  map shape (spec_export true skip rootc sd ces) = map shape (spec_export false skip rootc sd ces).
Proof.
  unfold spec_export. rewrite !map_map. apply map_ext. intros [rel e].
  unfold shape, node_of. cbn [fst snd]. destruct (e_kind e); reflexivity.
Qed.

(* ------------------------------------------------------------------ *)
(* re-rooting is injective: distinct tree paths stay distinct *)
Lemma NoDup_map_filtermap {A B C D} (f : A -> option B) (g : B -> D) (k : A -> C) (h : D -> C) l :
  (forall a b, In a l -> f a = Some b -> h (g b) = k a) ->
  NoDup (map k l) -> NoDup (map g (filtermap f l)).
Proof.
  induction l as [|a l IH]; intros Hh Hn; [constructor|].
  cbn [map] in Hn. inversion Hn as [|? ? Hnin Hn']; subst.
  cbn [filtermap]. destruct (f a) as [b|] eqn:E.
  - cbn [map]. constructor.
    + intro Hin. apply in_map_iff in Hin as [b' [Hg Hin]].
      apply in_filtermap in Hin as [a' [Ha' Hf']].
      apply Hnin. apply in_map_iff. exists a'. split; [|exact Ha'].
      rewrite <- (Hh a' b' (or_intror Ha') Hf'), Hg. apply Hh; [left; reflexivity|exact E].
    + apply IH; [intros; eapply Hh; [right|]; eassumption | exact Hn'].
  - apply IH; [intros; eapply Hh; [right|]; eassumption | exact Hn'].
Qed.

(* the sub-directory names a directory of the tree, or nothing *)
Definition subdir_is_dir (sd : option cpath) (ces : list centry) : Prop :=
  forall s, sd = Some s -> forall ce, In ce ces -> fst ce = s -> e_kind (snd ce) = KDir.

Lemma spec_select_nodup skip sd ces :
  subdir_is_dir sd ces -> NoDup (map fst ces) -> NoDup (map fst (spec_select skip sd ces)).
Proof.
  intros Hd Hn. unfold spec_select.
  apply (NoDup_map_filtermap (spec1 skip sd) fst fst
           (fun rel => match sd with Some s => s ++ rel | None => rel end)); [|exact Hn].
  intros ce [rel e] Hin H. cbn [fst]. unfold spec1 in H.
  destruct (is_root (fst ce)); [discriminate|].
  destruct (skip && special_comps (fst ce)); [discriminate|].
  unfold spec_rel in H. destruct sd as [s|]; cbn [option_map] in H.
  - destruct (strip_prefix s (fst ce)) as [[|r0 r]|] eqn:S; cbn [option_map] in H; [| |discriminate].
    + apply strip_prefix_some in S. rewrite app_nil_r in S.
      rewrite (Hd s eq_refl ce Hin S) in H. discriminate.
    + inversion H; subst. symmetry. apply strip_prefix_some; exact S.
  - inversion H; reflexivity.
Qed.

Theorem spec_export_nodup filtered skip rootc sd ces :
  subdir_is_dir sd ces -> NoDup (map fst ces) ->
  NoDup (map fst (spec_export filtered skip rootc sd ces)).
Proof.
  intros Hd Hn. unfold spec_export. rewrite map_map. cbn [fst].
  rewrite <- (map_map fst (fun r => rootc ++ r)).
  apply FinFun.Injective_map_NoDup; [intros a b; apply app_inv_head|].
  apply spec_select_nodup; assumption.
Qed.

Lemma abstract_nodup es : NoDup (map e_path es) -> NoDup (map fst (map abstract es)).
Proof.
  intro H. rewrite map_map. cbn [abstract fst]. rewrite <- (map_map e_path splitc).
  apply FinFun.Injective_map_NoDup; [intros a b; apply splitc_inj | exact H].
Qed.

(* tar members: decoded paths are pairwise distinct and all lie under the root *)
Theorem tar_paths_injective filtered root sd force es :
  wf_entries es = true -> NoDup (map e_path es) ->
  subdir_is_dir (option_map splitc (norm_subdir sd)) (map abstract es) ->
  let items := tarball_items filtered root sd force es in
  NoDup (map fst (map tar_decode items)) /\
  forall it, In it items -> exists rel, rel <> [] /\ fst (tar_decode it) = root_comps root ++ rel.
Proof.
  intros W Hn Hd items.
  pose proof (tar_entries_exact filtered root sd force es W) as Hx. fold items in Hx. split.
  - rewrite Hx. apply spec_export_nodup; [exact Hd | apply abstract_nodup; exact Hn].
  - intros it Hin. apply (in_map tar_decode) in Hin. rewrite Hx in Hin.
    unfold spec_export in Hin. apply in_map_iff in Hin as [[rel e] [Heq Hin]].
    exists rel. split; [|rewrite <- Heq; reflexivity].
    unfold spec_select in Hin. apply in_filtermap in Hin as [ce [Hce Hs]].
    apply in_map_iff in Hce as [e0 [He0 Hin0]]. subst ce.
    apply spec1_good in Hs; [tauto|]. cbn [abstract fst]. apply (wf_entries_in es); assumption.
Qed.

Lemma wf_comps_nonroot cs :
  wf_comps cs = true -> is_root cs = false -> forallb (fun c => negb (is_empty c)) cs = true.
Proof.
  intros W R. unfold wf_comps in W. destruct cs as [|c cs]; [discriminate|].
  rewrite R in W. exact W.
Qed.

(* ------------------------------------------------------------------ *)
(* exporting a sub-directory = exporting that sub-tree as a tree of its own *)
Lemma special_comps_prefix sc rel : sc <> [] -> special_comps (sc ++ rel) = special_comps sc.
Proof. destruct sc; [congruence|reflexivity]. Qed.

Theorem subdir_is_subtree filtered rootc sc ces :
  sc <> [] -> special_comps sc = false ->
  Forall (fun ce => wf_comps (fst ce) = true) ces ->
  subdir_is_dir (Some sc) ces ->
  spec_export filtered true rootc (Some sc) ces
  = spec_export filtered false rootc None (subtree sc ces).
Proof.
  intros Hsc Hsp Hwf Hd. unfold spec_export. f_equal.
  unfold spec_select, subtree.
  induction ces as [|ce ces IH]; [reflexivity|].
  inversion Hwf as [|? ? Hw Hwf']; subst.
  assert (subdir_is_dir (Some sc) ces) as Hd'.
  { intros s Hs ce' Hin. apply (Hd s Hs). right; exact Hin. }
  specialize (IH Hwf' Hd').
  cbn [filtermap]. unfold spec1 at 1, subtree1 at 1. unfold spec_rel.
  destruct ce as [cs e]. cbn [fst snd] in *.
  destruct (strip_prefix sc cs) as [[|r0 r]|] eqn:S.
  - (* the directory itself *)
    apply strip_prefix_some in S. rewrite app_nil_r in S.
    pose proof (Hd sc eq_refl (cs, e) (or_introl eq_refl) S) as Hk. cbn [snd] in Hk. rewrite Hk.
    destruct (is_root cs); [exact IH|]. destruct (true && special_comps cs); exact IH.
  - pose proof (strip_prefix_some _ _ _ S) as Hcs.
    assert (is_root cs = false) as Hr.
    { subst cs. destruct sc as [|s0 sc]; [congruence|]. destruct s0, sc; reflexivity. }
    rewrite Hr. rewrite Hcs, special_comps_prefix, Hsp by exact Hsc. cbn [andb option_map].
    cbn [filtermap]. unfold spec1 at 2. cbn [fst snd spec_rel andb option_map].
    assert (is_root (r0 :: r) = false) as Hr2.
    { apply (wf_comps_nonroot cs Hw) in Hr. rewrite Hcs, forallb_app in Hr.
      apply andb_true_iff in Hr as [_ Hw']. clear Hw. rename Hw' into Hw. cbn [forallb] in Hw.
      apply andb_true_iff in Hw as [Hw _]. destruct r0; [discriminate|]. reflexivity. }
    rewrite Hr2. f_equal. exact IH.
  - destruct (is_root cs); [exact IH|]. destruct (true && special_comps cs); exact IH.
Qed.

(* a special (control) sub-directory exports nothing *)
Theorem subdir_special_empty filtered rootc sc ces :
  sc <> [] -> special_comps sc = true ->
  spec_export filtered true rootc (Some sc) ces = [].
Proof.
  intros Hsc Hsp. unfold spec_export, spec_select.
  induction ces as [|ce ces IH]; [reflexivity|].
  cbn [filtermap]. unfold spec1 at 1.
  destruct (is_root (fst ce)); [exact IH|].
  destruct (special_comps (fst ce)) eqn:E; cbn [andb]; [exact IH|].
  unfold spec_rel. destruct (strip_prefix sc (fst ce)) as [rel|] eqn:S; [|exact IH].
  apply strip_prefix_some in S. rewrite S, special_comps_prefix, Hsp in E by exact Hsc. discriminate.
Qed.

Lemma filtermap_none_all {A B} (f : A -> option B) l :
  (forall x, In x l -> f x = None) -> filtermap f l = [].
Proof.
  induction l as [|x l IH]; intro H; [reflexivity|].
  cbn [filtermap]. rewrite (H x (or_introl eq_refl)). apply IH. intros; apply H; right; assumption.
Qed.

Lemma nodup_fst_unique {A B} (l : list (A * B)) k v p :
  NoDup (map fst l) -> In (k, v) l -> In p l -> fst p = k -> snd p = v.
Proof.
  induction l as [|a l IH]; intros Hn Hin Hp Hk; [destruct Hin|].
  cbn [map] in Hn. inversion Hn as [|x xs Hnin Hn' [Hx Hxs]]. clear Hn.
  destruct Hin as [Hin|Hin], Hp as [Hp|Hp].
  - destruct p as [pk pv]. cbn [fst snd] in *. congruence.
  - exfalso. apply Hnin. apply in_map_iff. exists p. split; [|exact Hp].
    rewrite Hin. cbn [fst]. exact Hk.
  - exfalso. apply Hnin. apply in_map_iff. exists (k, v). split; [|exact Hin].
    rewrite Hp. cbn [fst]. symmetry; exact Hk.
  - apply IH; auto.
Qed.

(* a file (or symlink) given as the sub-directory is exported alone, under its own name *)
Definition cpath_eq_dec : forall a b : cpath, {a = b} + {a <> b} := list_eq_dec (list_eq_dec N.eq_dec).

Theorem subdir_file filtered rootc sc ces e :
  In (sc, e) ces -> e_kind e <> KDir -> is_root sc = false -> special_comps sc = false ->
  NoDup (map fst ces) ->
  (forall ce rel, In ce ces -> fst ce = sc ++ rel -> rel = []) ->
  spec_export filtered true rootc (Some sc) ces = [(rootc ++ [last sc []], node_of filtered e)].
Proof.
  intros Hin Hk Hr Hsp Hn Hbelow. unfold spec_export.
  assert (spec_select true (Some sc) ces = [([last sc []], e)]) as ->; [|reflexivity].
  unfold spec_select.
  assert (forall ce, In ce ces ->
            spec1 true (Some sc) ce
            = if cpath_eq_dec (fst ce) sc then Some ([last sc []], snd ce) else None) as Hpt.
  { intros ce Hce. unfold spec1, spec_rel.
    destruct (cpath_eq_dec (fst ce) sc) as [Heq|Hne].
    - rewrite Heq, Hr, Hsp. cbn [andb]. rewrite strip_prefix_self.
      assert (snd ce = e) as He by (apply (nodup_fst_unique ces sc e ce Hn Hin Hce Heq)).
      rewrite He. destruct (e_kind e); [reflexivity|congruence|reflexivity].
    - destruct (is_root (fst ce)); [reflexivity|].
      destruct (true && special_comps (fst ce)); [reflexivity|].
      destruct (strip_prefix sc (fst ce)) as [rel|] eqn:S; [|reflexivity].
      apply strip_prefix_some in S. pose proof (Hbelow ce rel Hce S) as Hrel. subst rel.
      rewrite app_nil_r in S. congruence. }
  rewrite (filtermap_ext (spec1 true (Some sc))
             (fun ce => if cpath_eq_dec (fst ce) sc then Some ([last sc []], snd ce) else None) ces Hpt).
  clear Hpt Hbelow.
  induction ces as [|c ces IH]; [destruct Hin|].
  cbn [map] in Hn. inversion Hn as [|? ? Hnin Hn']; subst.
  cbn [filtermap]. destruct Hin as [Hin|Hin].
  - subst c. cbn [fst snd]. destruct (cpath_eq_dec sc sc); [|congruence]. f_equal.
    apply filtermap_none_all. intros c Hc.
    destruct (cpath_eq_dec (fst c) sc) as [Heq|Hne]; [|reflexivity].
    exfalso. apply Hnin. apply in_map_iff. exists c. split; [exact Heq|exact Hc].
  - destruct (cpath_eq_dec (fst c) sc) as [Heq|Hne].
    + exfalso. apply Hnin. apply in_map_iff. exists (sc, e). split; [symmetry; exact Heq|exact Hin].
    + apply IH; assumption.
Qed.

(* ------------------------------------------------------------------ *)
(* get_root_name / guess_format *)
Lemma suffixb_app_same ext stem : suffixb ext (stem ++ ext) = true.
Proof. unfold suffixb. rewrite rev_app_distr. apply prefixb_app. Qed.

Lemma suffixb_app_diff ext ext' stem :
  suffixb ext' ext = false -> suffixb ext ext' = false -> suffixb ext' (stem ++ ext) = false.
Proof.
  unfold suffixb. intros H1 H2. rewrite rev_app_distr.
  destruct (prefixb (rev ext') (rev ext ++ rev stem)) eqn:E; [|reflexivity].
  apply prefixb_app_or in E as [E|E]; congruence.
Qed.

Lemma suffixb_refl a : suffixb a a = true.
Proof. unfold suffixb. rewrite <- (app_nil_r (rev a)) at 2. apply prefixb_app. Qed.

Definition incomparable (exts : list (bytes * fmt)) : Prop :=
  forall e1 f1 e2 f2, In (e1, f1) exts -> In (e2, f2) exts ->
    (e1 = e2 /\ f1 = f2) \/ (suffixb e1 e2 = false /\ suffixb e2 e1 = false).

Definition incomparableb (exts : list (bytes * fmt)) : bool :=
  forallb (fun p1 => forallb (fun p2 =>
     (bytes_eqb (fst p1) (fst p2) && match snd p1, snd p2 with
        | FDir, FDir | FTar, FTar | FTgz, FTgz | FTbz2, FTbz2 | FTlzma, FTlzma | FTxz, FTxz | FZip, FZip => true
        | _, _ => false end)
     || (negb (suffixb (fst p1) (fst p2)) && negb (suffixb (fst p2) (fst p1)))) exts) exts.

Lemma incomparableb_sound exts : incomparableb exts = true -> incomparable exts.
Proof.
  unfold incomparableb, incomparable. intros H e1 f1 e2 f2 H1 H2.
  rewrite forallb_forall in H. specialize (H _ H1). rewrite forallb_forall in H. specialize (H _ H2).
  cbn [fst snd] in H. apply orb_true_iff in H as [H|H].
  - left. apply andb_true_iff in H as [Ha Hb]. apply bytes_eqb_eq in Ha. split; [exact Ha|].
    destruct f1, f2; try discriminate; reflexivity.
  - right. apply andb_true_iff in H as [Ha Hb].
    apply negb_true_iff in Ha. apply negb_true_iff in Hb. split; assumption.
Qed.

Lemma extension_map_incomparable : incomparable extension_map.
Proof. apply incomparableb_sound. vm_compute. reflexivity. Qed.

Lemma strip_first_ext_in exts ext f stem :
  incomparable exts -> In (ext, f) exts -> strip_first_ext exts (stem ++ ext) = stem.
Proof.
  induction exts as [|[e0 f0] exts IH]; intros Hinc Hin; [destruct Hin|].
  cbn [strip_first_ext].
  destruct (Hinc e0 f0 ext f (or_introl eq_refl) Hin) as [[He Hf]|[Ha Hb]].
  - subst e0. rewrite suffixb_app_same, app_length, Nat.add_sub.
    rewrite firstn_app, Nat.sub_diag, firstn_all. cbn [firstn]. apply app_nil_r.
  - rewrite (suffixb_app_diff ext e0 stem Ha Hb).
    destruct Hin as [Hin|Hin].
    + inversion Hin; subst. rewrite suffixb_refl in Ha. discriminate.
    + apply IH; [|exact Hin]. intros a fa b fb Ha' Hb'. apply Hinc; right; assumption.
Qed.

Lemma format_from_filename_in exts ext f stem :
  incomparable exts -> In (ext, f) exts -> format_from_filename exts (stem ++ ext) = Some f.
Proof.
  induction exts as [|[e0 f0] exts IH]; intros Hinc Hin; [destruct Hin|].
  cbn [format_from_filename].
  destruct (Hinc e0 f0 ext f (or_introl eq_refl) Hin) as [[He Hf]|[Ha Hb]].
  - subst e0 f0. rewrite suffixb_app_same. reflexivity.
  - rewrite (suffixb_app_diff ext e0 stem Ha Hb).
    destruct Hin as [Hin|Hin].
    + inversion Hin; subst. rewrite suffixb_refl in Ha. discriminate.
    + apply IH; [|exact Hin]. intros a fa b fb Ha' Hb'. apply Hinc; right; assumption.
Qed.

Lemma memb_app c a b : memb c (a ++ b) = memb c a || memb c b.
Proof. unfold memb. apply existsb_app. Qed.

Lemma ext_noslash ext f : In (ext, f) extension_map -> memb SL ext = false /\ (4 <= List.length ext)%nat.
Proof.
  intro H. cbn in H.
  repeat (destruct H as [H|H]; [inversion H; subst; split; [vm_compute; reflexivity | cbn; lia]|]).
  destruct H.
Qed.

Lemma basename_app dir rest : memb SL rest = false -> basename (dir ++ SL :: rest) = rest.
Proof.
  intro H. unfold basename. rewrite splitc_app, (splitc_noslash rest H).
  apply last_last.
Qed.

Lemma not_dash (s : bytes) : (2 <= List.length s)%nat -> bytes_eqb s [45] = false.
Proof.
  intro H. apply bytes_eqb_neq. intro E. subst s. cbn in H. lia.
Qed.

(* dest = [dir "/"] stem ext  for a registered ext: the root is stem, the format the one registered *)
Theorem root_name_strips ext f stem :
  In (ext, f) extension_map -> memb SL stem = false ->
  get_root_name (stem ++ ext) = stem /\ guess_format (stem ++ ext) = f /\
  forall dir, get_root_name (dir ++ SL :: stem ++ ext) = stem /\
              guess_format (dir ++ SL :: stem ++ ext) = f.
Proof.
  intros Hin Hs. destruct (ext_noslash ext f Hin) as [He Hl].
  assert (memb SL (stem ++ ext) = false) as Hse by (rewrite memb_app, Hs, He; reflexivity).
  split; [|split; [|intro dir; split]].
  - unfold get_root_name. rewrite not_dash by (rewrite app_length; lia).
    unfold basename. rewrite (splitc_noslash _ Hse). cbn [last].
    apply (strip_first_ext_in _ ext f); [apply extension_map_incomparable|exact Hin].
  - unfold guess_format.
    rewrite (format_from_filename_in _ ext f); [reflexivity|apply extension_map_incomparable|exact Hin].
  - unfold get_root_name. rewrite not_dash by (rewrite app_length; cbn [List.length]; rewrite app_length; lia).
    rewrite basename_app by exact Hse.
    apply (strip_first_ext_in _ ext f); [apply extension_map_incomparable|exact Hin].
  - unfold guess_format.
    replace (dir ++ SL :: stem ++ ext) with ((dir ++ SL :: stem) ++ ext)
      by (rewrite <- app_assoc; reflexivity).
    rewrite (format_from_filename_in _ ext f); [reflexivity|apply extension_map_incomparable|exact Hin].
Qed.

(* no registered extension: the name is kept and the format is "dir" *)
Theorem root_name_no_ext name :
  memb SL name = false -> bytes_eqb name [45] = false ->
  (forall ext f, In (ext, f) extension_map -> suffixb ext name = false) ->
  get_root_name name = name /\ guess_format name = FDir.
Proof.
  intros Hs Hd Hno. unfold get_root_name, guess_format. rewrite Hd.
  unfold basename. rewrite (splitc_noslash _ Hs). cbn [last].
  assert (forall exts, (forall ext f, In (ext, f) exts -> suffixb ext name = false) ->
            strip_first_ext exts name = name /\ format_from_filename exts name = None) as Hgen.
  { induction exts as [|[e0 f0] exts IH]; intro H; [split; reflexivity|].
    cbn [strip_first_ext format_from_filename]. rewrite (H e0 f0 (or_introl eq_refl)).
    apply IH. intros; eapply H; right; eassumption. }
  destruct (Hgen extension_map Hno) as [H1 H2]. rewrite H1, H2. split; reflexivity.
Qed.

Theorem root_name_dash : get_root_name [45] = [].
Proof. reflexivity. Qed.

(* ------------------------------------------------------------------ *)
(* export(): which builder runs, with which root and forced time stamp *)
Definition eff_root (root : option bytes) (dest : bytes) : bytes :=
  match root with Some r => r | None => get_root_name dest end.
Definition eff_force (pft filtered : bool) (rev_ts now : Z) : option Z :=
  if pft then None else Some (if filtered then now else rev_ts).

Theorem export_dispatch es format dest root sd pft filtered rev_ts now pre :
  let f := match format with Some f => f | None => guess_format dest end in
  export es format dest root sd pft filtered rev_ts now pre
  = match f with
    | FDir => match dir_items filtered sd (eff_force pft filtered rev_ts now) pre es with
              | Ok l => Ok (OutDir l) | Er x => Er x end
    | FZip => Ok (OutZip (zip_items filtered (eff_root root dest) sd (eff_force pft filtered rev_ts now) es))
    | f => Ok (OutTar f (tarball_items filtered (eff_root root dest) sd (eff_force pft filtered rev_ts now) es))
    end.
Proof.
  cbn zeta. unfold export, eff_root, eff_force.
  destruct (match format with Some f => f | None => guess_format dest end); reflexivity.
Qed.

(* ------------------------------------------------------------------ *)
(* the hypotheses of the main theorems are satisfiable by a non-trivial tree *)
Definition ex_tree : list entry :=
  [ root_entry;
    mkE [100] KDir [] false [] 1 false;                         (* d *)
    mkE [102] KFile [104;10] true [] 1 false;                   (* f, executable *)
    mkE [108] KLink [] false [100;47;103] 1 false;              (* l -> d/g *)
    mkE (dot_bzr ++ [105]) KFile [42] false [] 1 false;         (* .bzri *)
    mkE [100;47;101] KDir [] false [] 2 false;                  (* d/e (empty) *)
    mkE [100;47;103] KFile [103;10] false [] 2 true ].          (* d/g, eol = crlf applies *)

Example ex_tree_wf : wf_entries ex_tree = true /\ NoDup (map e_path ex_tree).
Proof.
  split; [reflexivity|].
  repeat constructor; cbn; intuition discriminate.
Qed.

Example ex_tar_whole :
  map tar_decode (tarball_items true [82] None (Some 7%Z) ex_tree)
  = [ ([[82]; [100]], mkN KDir [] false []);
           ([[82]; [102]], mkN KFile [104;10] true []);
           ([[82]; [108]], mkN KLink [] false [100;47;103]);
           ([[82]; [100]; [101]], mkN KDir [] false []);
           ([[82]; [100]; [103]], mkN KFile [103;13;10] false []) ].
Proof. vm_compute. reflexivity. Qed.

(* zip keeps the executable bit *)
Example ex_zip_exec :
  map zip_decode (zip_items false [82] None (Some 0%Z) w_exec) = [([[82]; [120]], mkN KFile [97] true [])].
Proof. vm_compute. reflexivity. Qed.

Example ex_tar_subdir :
  map tar_decode (tarball_items false [] (Some [100;47;47]) (Some 7%Z) ex_tree)
  = [ ([[101]], mkN KDir [] false []); ([[103]], mkN KFile [103;10] false []) ].
Proof. vm_compute. reflexivity. Qed.

Example ex_subdir_is_dir :
  subdir_is_dir (option_map splitc (norm_subdir (Some [100;47]))) (map abstract ex_tree).
Proof.
  intros s Hs ce Hin Hce. vm_compute in Hs. injection Hs as Hs'. rewrite <- Hs' in Hce. clear Hs' s.
  vm_compute in Hin.
  repeat (destruct Hin as [Hin|Hin]; [rewrite <- Hin in *; cbn [fst snd] in *; try discriminate Hce; reflexivity|]).
  destruct Hin.
Qed.

Example ex_root_name :
  get_root_name [47;116;109;112;47;112;107;103;45;49;46;48;46;116;97;114;46;103;122]  (* /tmp/pkg-1.0.tar.gz *)
  = [112;107;103;45;49;46;48] /\
  guess_format [47;116;109;112;47;112;107;103;45;49;46;48;46;116;97;114;46;103;122] = FTgz.
Proof. split; vm_compute; reflexivity. Qed.
