(* Theory/TreeCompare.v -- facts about the model of the generic tree walker,
   _handle_precise_ids and the CHK glue (Model/TreeCompare.v).

     generic_unfiltered_spec    the generic walker without a filter reports exactly
                                the changes of the comparison spec (Lib.Tree.changes_gen)
     chk_unfiltered_spec        so does the CHK glue (given its environment model)
     generic_filtered_sound     every change of a filtered comparison is the spec change
                                of its id
     generic_filtered_complete  every selected id that changed is reported
     generic_filtered_closed    whenever the closure loop terminates, the reported ids
                                together with the examined-unchanged ids are closed
                                under "parent in the target"
     filtered_apply_agrees / filtered_paths_agree
                                the applied delta has the target's entry on every
                                reported/examined id, the source's elsewhere, and the
                                same ancestor chain as the target on those ids
     + machine-checked refutations (path collision, duplicates, CHK include_unchanged). *)
From Coq Require Import List NArith Bool Arith Lia.
From BV Require Import Lib.Bytes Lib.Tree Theory.TreeFacts Model.TreeCompare.
Import ListNotations.
Local Open Scope nat_scope.

Lemma mem_In : forall i l, mem i l = true <-> In i l.
Proof.
  intros i l. unfold mem. rewrite existsb_exists. split.
  - intros (x & Hx & E). apply Nat.eqb_eq in E. subst; exact Hx.
  - intro H. exists i. split; [exact H | apply Nat.eqb_refl].
Qed.

Lemma mem_false : forall i l, mem i l = false <-> ~ In i l.
Proof.
  intros i l. rewrite <- mem_In. destruct (mem i l); split; intro H.
  - discriminate.
  - contradiction H; reflexivity.
  - intro; discriminate.
  - reflexivity.
Qed.

Lemma dedupe_In : forall l i, In i (dedupe l) <-> In i l.
Proof. intros. unfold dedupe. apply nodup_In. Qed.

Lemma in_keys_lookup : forall t i, In i (keys t) -> exists e, lookup i t = Some e.
Proof.
  intros t i H. apply lookup_in_keys in H. destruct (lookup i t) as [e|]; [exists e; reflexivity | contradiction H; reflexivity].
Qed.

Lemma not_in_keys_lookup : forall t i, ~ In i (keys t) -> lookup i t = None.
Proof.
  intros t i H. destruct (lookup i t) as [e|] eqn:L; [|reflexivity].
  contradiction H. apply lookup_in_keys. rewrite L. discriminate.
Qed.

(* the "remaining source paths" record is the spec change of a removed id *)
Lemma removal_is_mk_change : forall a b i, In i (keys a) -> ~ In i (keys b) ->
  removal_change a b i = mk_change a b i.
Proof.
  intros a b i Ha Hb. destruct (in_keys_lookup a i Ha) as [x La].
  pose proof (not_in_keys_lookup b i Hb) as Lb.
  unfold removal_change, mk_change. rewrite La, Lb. reflexivity.
Qed.

Lemma removed_is_changed : forall a b i, In i (keys a) -> ~ In i (keys b) ->
  is_changed (mk_change a b i) = true.
Proof.
  intros a b i Ha Hb. destruct (in_keys_lookup a i Ha) as [x La].
  pose proof (not_in_keys_lookup b i Hb) as Lb.
  unfold is_changed, mk_change. cbn [c_changed_content]. rewrite La, Lb. reflexivity.
Qed.

(* ------------------------------------------------------------ main loops *)

(* membership in the output of the two main loops, for any selection S *)
Lemma in_generic_main : forall a b S incl c,
  (forall i, In i (keys a) -> In i (keys b) -> True) ->
  (In c (fst (generic_main a b S incl) ++ snd (generic_main a b S incl)) <->
   exists i, in_sel S i = true /\
     ((In i (keys b) /\ c = mk_change a b i /\ (incl || is_changed c) = true) \/
      (In i (keys a) /\ ~ In i (keys b) /\ c = removal_change a b i))).
Proof.
  intros a b S incl c _. unfold generic_main. cbn [fst snd]. rewrite in_app_iff. split.
  - intros [H|H].
    + apply filter_In in H as [H Hc]. apply in_map_iff in H as (i & <- & Hi).
      apply filter_In in Hi as [Hi Hs]. exists i. split; [exact Hs|]. left. auto.
    + apply in_map_iff in H as (i & <- & Hi). apply filter_In in Hi as [Hi Hn].
      apply filter_In in Hi as [Hi Hs]. exists i. split; [exact Hs|]. right.
      split; [exact Hi|]. split; [|reflexivity].
      apply negb_true_iff, mem_false in Hn. intro Hb. apply Hn. apply filter_In. auto.
  - intros (i & Hs & [(Hb & -> & Hc)|(Ha & Hnb & ->)]).
    + left. apply filter_In. split; [|exact Hc]. apply in_map. apply filter_In. auto.
    + right. apply in_map. apply filter_In. split; [apply filter_In; auto|].
      apply negb_true_iff, mem_false. intro H. apply filter_In in H as [H _]. contradiction.
Qed.

(* ------------------------------------------------------------ no filter *)

Theorem generic_unfiltered_spec : forall a b incl,
  exists l, generic a b None incl = Some l /\
            forall c, In c l <-> In c (changes_gen incl a b).
Proof.
  intros a b incl. unfold generic, generic_full. cbn [specific_ids].
  destruct (generic_main a b None incl) as [em rm] eqn:G. cbn [option_map fst].
  exists (em ++ rm). split; [reflexivity|]. intro c.
  pose proof (in_generic_main a b None incl c (fun _ _ _ => I)) as H. rewrite G in H. cbn [fst snd] in H.
  rewrite H, in_changes_gen. split.
  - intros (i & _ & [(Hb & -> & Hc)|(Ha & Hnb & ->)]).
    + exists i. auto.
    + exists i. rewrite removal_is_mk_change by assumption.
      split; [left; exact Ha|]. split; [reflexivity|].
      rewrite removed_is_changed by assumption. apply orb_true_r.
  - intros (i & Hi & -> & Hc). exists i. split; [reflexivity|].
    destruct (mem i (keys b)) eqn:M.
    + apply mem_In in M. left. auto.
    + apply mem_false in M. destruct Hi as [Ha|Hb]; [|contradiction].
      right. split; [exact Ha|]. split; [exact M|]. symmetry. apply removal_is_mk_change; assumption.
Qed.

Theorem chk_unfiltered_spec : forall a b, chk a b None false = Some (changes a b).
Proof. intros. unfold chk. cbn [specific_ids]. rewrite app_nil_r. reflexivity. Qed.

(* ------------------------------------------------------------ the closure loop *)

Lemma map_opt_some : forall {A B} (f : A -> option B) l rs,
  map_opt f l = Some rs ->
  (forall x, In x l -> exists y, f x = Some y /\ In y rs) /\
  (forall y, In y rs -> exists x, In x l /\ f x = Some y).
Proof.
  intros A B f. induction l as [|x l IH]; intros rs H; cbn in H.
  - injection H as <-. split; intros ? [].
  - destruct (f x) as [y|] eqn:Fx; [|discriminate].
    destruct (map_opt f l) as [ys|] eqn:M; [|discriminate]. injection H as <-.
    destruct (IH ys eq_refl) as [I1 I2]. split.
    + intros x' [<-|Hx]; [exists y; split; [exact Fx | left; reflexivity]|].
      destruct (I1 x' Hx) as (y' & F' & Hy). exists y'. split; [exact F' | right; exact Hy].
    + intros y' [<-|Hy]; [exists x; split; [left; reflexivity | exact Fx]|].
      destruct (I2 y' Hy) as (x' & Hx & F'). exists x'. split; [right; exact Hx | exact F'].
Qed.

(* an examined id yields the spec change of that id, flagged changed iff it is *)
Lemma examine_nodisc : forall a b i c chg, examine a b [] i = Some (c, chg) ->
  c = mk_change a b i /\ chg = is_changed c /\ (In i (keys a) \/ In i (keys b)).
Proof.
  intros a b i c chg H. unfold examine in H.
  destruct (lookup i a) as [x|] eqn:La, (lookup i b) as [y|] eqn:Lb;
    try discriminate; injection H as <- <-; (split; [reflexivity|split; [reflexivity|]]);
    first [ left; apply lookup_in_keys; rewrite La; discriminate
          | right; apply lookup_in_keys; rewrite Lb; discriminate ].
Qed.

Definition result_ok (a b : tree) (C' ex' : list fid) (x : fid) : Prop :=
  exists c chg, examine a b [] x = Some (c, chg) /\
    (chg = true -> In x C') /\
    (forall p, snd (c_parent c) = Some p -> In p C' \/ In p ex').

(* invariant of _handle_precise_ids (without discarded changes): partial correctness *)
Lemma handle_closed : forall fuel a b P C out ex o C' ex',
  handle fuel a b [] P C out ex = Some (o, C', ex') ->
  incl C C' /\ incl ex ex' /\
  (forall p, In p P -> In p C' \/ In p ex') /\
  (forall x, In x ex' -> In x ex \/ result_ok a b C' ex' x) /\
  (exists h, o = out ++ h /\ C' = C ++ map c_id h /\ Forall (derived a b) h /\
             Forall (fun c => is_changed c = true) h /\
             Forall (fun c => exists x, In x ex' /\ c = mk_change a b x) h).
Proof.
  induction fuel as [|f IH]; intros a b P C out ex o C' ex' H; cbn [handle] in H.
  - destruct (filter (fun i => negb (mem i C)) (dedupe P)) as [|q P1] eqn:EP; [|discriminate].
    injection H as <- <- <-.
    split; [apply incl_refl|]. split; [apply incl_refl|]. split; [|split].
    + intros p Hp. left. apply mem_In. destruct (mem p C) eqn:M; [reflexivity|].
      assert (Hin : In p (filter (fun i => negb (mem i C)) (dedupe P)))
        by (apply filter_In; split; [apply dedupe_In; exact Hp | rewrite M; reflexivity]).
      rewrite EP in Hin. destruct Hin.
    + intros x Hx. left; exact Hx.
    + exists []. rewrite !app_nil_r. repeat split; constructor.
  - destruct (filter (fun i => negb (mem i C)) (dedupe P)) as [|q P1'] eqn:EP.
    + injection H as <- <- <-.
      split; [apply incl_refl|]. split; [apply incl_refl|]. split; [|split].
      * intros p Hp. left. apply mem_In. destruct (mem p C) eqn:M; [reflexivity|].
        assert (Hin : In p (filter (fun i => negb (mem i C)) (dedupe P)))
          by (apply filter_In; split; [apply dedupe_In; exact Hp | rewrite M; reflexivity]).
        rewrite EP in Hin. destruct Hin.
      * intros x Hx. left; exact Hx.
      * exists []. rewrite !app_nil_r. repeat split; constructor.
    + rewrite <- EP in H. set (P1 := filter (fun i => negb (mem i C)) (dedupe P)) in *.
      set (olds := flat_map (fun p => match path_of b p with
                                      | Some pa => opt_list (id_of_path a pa)
                                      | None => [] end) P1) in *.
      set (cur := filter (fun i => negb (mem i C)) (dedupe (P1 ++ olds))) in *.
      destruct (map_opt (examine a b []) cur) as [rs|] eqn:M; [|discriminate].
      destruct (map_opt_some _ _ _ M) as [M1 M2].
      set (em := map fst (filter (fun r => snd r) rs)) in *.
      apply IH in H. destruct H as (HC & Hex & HP & HX & (h & Ho & HC' & Hd & Hch & Hsrc)).
      assert (Hem : forall c, In c em -> exists x, In x cur /\ examine a b [] x = Some (c, true)).
      { intros c Hc. unfold em in Hc. apply in_map_iff in Hc as ([c' chg] & <- & Hr).
        apply filter_In in Hr as [Hr Hs]. cbn in Hs. subst chg.
        destruct (M2 _ Hr) as (x & Hx & Fx). exists x. auto. }
      split; [intros x Hx; apply HC; apply in_or_app; left; exact Hx|].
      split; [intros x Hx; apply Hex; apply in_or_app; left; exact Hx|].
      split; [|split].
      * intros p Hp. destruct (mem p C) eqn:Mp.
        -- left. apply HC. apply in_or_app. left. apply mem_In. exact Mp.
        -- right. apply Hex. apply in_or_app. right. unfold cur. apply filter_In.
           split; [|rewrite Mp; reflexivity]. apply dedupe_In.
           apply in_or_app. left. unfold P1. apply filter_In.
           split; [apply dedupe_In; exact Hp | rewrite Mp; reflexivity].
      * intros x Hx. destruct (HX x Hx) as [Hx'|Hx']; [|right; exact Hx'].
        apply in_app_or in Hx' as [Hx'|Hx']; [left; exact Hx'|]. right.
        destruct (M1 x Hx') as ([c chg] & Fx & Hr). exists c, chg. split; [exact Fx|]. split.
        -- intros ->. apply HC. apply in_or_app. right.
           destruct (examine_nodisc a b x c true Fx) as (Ec & _ & _).
           apply in_map_iff. exists c. split; [rewrite Ec; reflexivity|].
           unfold em. apply in_map_iff. exists (c, true). split; [reflexivity|].
           apply filter_In. split; [exact Hr | reflexivity].
        -- intros p Hp. apply HP. apply in_flat_map. exists (c, chg). split; [exact Hr|].
           apply in_or_app. left. cbn [fst]. rewrite Hp. left; reflexivity.
      * exists (em ++ h).
        split; [rewrite Ho; symmetry; apply app_assoc|].
        split; [rewrite HC', map_app; symmetry; apply app_assoc|].
        split; [|split].
        -- apply Forall_app. split; [|exact Hd]. apply Forall_forall. intros c Hc.
           destruct (Hem c Hc) as (x & _ & Fx). destruct (examine_nodisc a b x c true Fx) as (-> & _ & _).
           apply derived_mk.
        -- apply Forall_app. split; [|exact Hch]. apply Forall_forall. intros c Hc.
           destruct (Hem c Hc) as (x & _ & Fx). destruct (examine_nodisc a b x c true Fx) as (_ & E & _).
           symmetry; exact E.
        -- apply Forall_app. split; [|exact Hsrc]. apply Forall_forall. intros c Hc.
           destruct (Hem c Hc) as (x & Hxc & Fx). destruct (examine_nodisc a b x c true Fx) as (-> & _ & _).
           exists x. split; [apply Hex; apply in_or_app; right; exact Hxc | reflexivity].
Qed.

(* ------------------------------------------------------------ filtered comparison *)

Definition ids_of (l : list change) : list fid := map c_id l.

Lemma main_derived : forall a b S incl,
  Forall (derived a b) (fst (generic_main a b S incl) ++ snd (generic_main a b S incl)).
Proof.
  intros. apply Forall_forall. intros c Hc.
  apply (in_generic_main a b S incl c (fun _ _ _ => I)) in Hc
    as (i & _ & [(_ & -> & _)|(Ha & Hnb & ->)]).
  - apply derived_mk.
  - rewrite removal_is_mk_change by assumption. apply derived_mk.
Qed.

Theorem generic_filtered_sound : forall a b F incl l ex,
  generic_full a b F incl = Some (l, ex) -> Forall (derived a b) l.
Proof.
  intros a b F incl l ex H. unfold generic_full in H.
  pose proof (main_derived a b (specific_ids a b F) incl) as Hm.
  destruct (generic_main a b (specific_ids a b F) incl) as [em rm]. cbn [fst snd] in Hm.
  destruct (specific_ids a b F) as [s|].
  - destruct (handle _ a b [] _ _ [] []) as [[[h C'] ex']|] eqn:Hh; [|discriminate].
    injection H as <- <-.
    apply handle_closed in Hh as (_ & _ & _ & _ & (h' & Ho & _ & Hd & _ & _)). cbn in Ho. subst h'.
    rewrite app_assoc. apply Forall_app. split; assumption.
  - injection H as <- <-. exact Hm.
Qed.

Theorem generic_filtered_complete : forall a b fs incl l ex s i,
  generic_full a b (Some fs) incl = Some (l, ex) ->
  specific_ids a b (Some fs) = Some s -> In i s ->
  In i (keys a) \/ In i (keys b) ->
  (incl || is_changed (mk_change a b i)) = true ->
  In (mk_change a b i) l.
Proof.
  intros a b fs incl l ex s i H Hs Hi Hk Hc. unfold generic_full in H. rewrite Hs in H.
  pose proof (in_generic_main a b (Some s) incl (mk_change a b i) (fun _ _ _ => I)) as Hm.
  destruct (generic_main a b (Some s) incl) as [em rm]. cbn [fst snd] in Hm.
  destruct (handle _ a b [] _ _ [] []) as [[[h C'] ex']|]; [|discriminate].
  injection H as <- <-. rewrite app_assoc. apply in_or_app. left. apply Hm.
  exists i. split; [cbn; apply mem_In; exact Hi|].
  destruct (mem i (keys b)) eqn:M.
  - apply mem_In in M. left. auto.
  - apply mem_false in M. destruct Hk as [Ha|Hb]; [|contradiction].
    right. split; [exact Ha|]. split; [exact M|]. symmetry. apply removal_is_mk_change; assumption.
Qed.

(* K = every id reported or examined.  Partial correctness: IF the closure loop
   returns (fuel not exhausted), K is closed under "parent in the target", and
   examined ids that were not reported are unchanged. *)
Theorem generic_filtered_closed : forall a b fs incl l ex,
  generic_full a b (Some fs) incl = Some (l, ex) ->
  (forall c p, In c l -> snd (c_parent c) = Some p -> In p (ids_of l) \/ In p ex) /\
  (forall x, In x ex ->
     (In x (ids_of l) \/ is_changed (mk_change a b x) = false) /\
     (forall p, snd (c_parent (mk_change a b x)) = Some p -> In p (ids_of l) \/ In p ex)).
Proof.
  intros a b fs incl l ex H. unfold generic_full in H.
  destruct (specific_ids a b (Some fs)) as [s|] eqn:Hs; [|discriminate].
  destruct (generic_main a b (Some s) incl) as [em rm] eqn:G.
  destruct (handle _ a b [] _ _ [] []) as [[[h C'] ex']|] eqn:Hh; [|discriminate].
  injection H as <- <-.
  apply handle_closed in Hh as (HC & _ & HP & HX & (h' & Ho & HC' & _ & _ & Hsrc)).
  cbn in Ho. subst h'.
  assert (EC : C' = ids_of (em ++ rm ++ h)).
  { unfold ids_of. rewrite HC', !map_app, app_assoc. reflexivity. }
  split.
  - intros c p Hc Hp. rewrite <- EC.
    apply in_app_or in Hc as [Hc|Hc].
    + apply HP. unfold parents_of. apply in_flat_map. exists c. split; [exact Hc|].
      rewrite Hp. left; reflexivity.
    + apply in_app_or in Hc as [Hc|Hc].
      * (* removals have no target parent *)
        assert (Hr : In c (fst (generic_main a b (Some s) incl) ++ snd (generic_main a b (Some s) incl)))
          by (rewrite G; cbn [fst snd]; apply in_or_app; right; exact Hc).
        exfalso. unfold generic_main in G. injection G as _ Grm. subst rm.
        apply in_map_iff in Hc as (i & <- & Hi). apply filter_In in Hi as [Hi Hn].
        apply filter_In in Hi as [Hi _].
        unfold removal_change in Hp. destruct (in_keys_lookup a i Hi) as [x La]. rewrite La in Hp.
        cbn in Hp. discriminate.
      * (* yielded by the closure loop: it was examined, so its parent was queued *)
        rewrite Forall_forall in Hsrc. destruct (Hsrc c Hc) as (x & Hx & ->).
        destruct (HX x Hx) as [[]|(c' & chg & Fx & _ & Hpar)].
        destruct (examine_nodisc a b x c' chg Fx) as (-> & _ & _). apply Hpar. exact Hp.
  - intros x Hx. rewrite <- EC.
    destruct (HX x Hx) as [[]|(c' & chg & Fx & Hchg & Hpar)].
    destruct (examine_nodisc a b x c' chg Fx) as (-> & -> & _). split.
    + destruct (is_changed (mk_change a b x)) eqn:E; [left; apply Hchg; reflexivity | right; reflexivity].
    + exact Hpar.
Qed.

(* ------------------------------------------------------------ applying a filtered delta *)

Lemma existsb_ids : forall l x, existsb (fun c => Nat.eqb (c_id c) x) l = true <-> In x (ids_of l).
Proof.
  intros l x. rewrite existsb_exists. unfold ids_of. rewrite in_map_iff. split.
  - intros (c & Hc & E). apply Nat.eqb_eq in E. exists c. auto.
  - intros (c & E & Hc). exists c. split; [exact Hc | apply Nat.eqb_eq; exact E].
Qed.

(* the applied delta has the target's entry on every reported id, the source's elsewhere *)
Theorem filtered_apply_agrees : forall a b F incl l ex i,
  sorted a -> all_normalb a = true -> all_normalb b = true ->
  generic_full a b F incl = Some (l, ex) ->
  lookup i (apply_changes (tree_content b) l a) =
    if existsb (fun c => Nat.eqb (c_id c) i) l then lookup i b else lookup i a.
Proof.
  intros a b F incl l ex i Sa Na Nb H.
  apply (apply_changes_lookup a b l a i Na Nb Sa (generic_filtered_sound _ _ _ _ _ _ H)).
  left; reflexivity.
Qed.

(* ... and on every reported or examined id the chain of ancestors is the target's:
   each needed parent is present with exactly the target's entry, up to the root. *)
Theorem filtered_paths_agree : forall a b fs incl l ex,
  sorted a -> all_normalb a = true -> all_normalb b = true ->
  generic_full a b (Some fs) incl = Some (l, ex) ->
  forall n x, In x (ids_of l) \/ In x ex ->
    path_of_fuel n (apply_changes (tree_content b) l a) x = path_of_fuel n b x.
Proof.
  intros a b fs incl l ex Sa Na Nb H.
  pose proof (generic_filtered_sound _ _ _ _ _ _ H) as Hd.
  destruct (generic_filtered_closed _ _ _ _ _ _ H) as [K1 K2].
  assert (HL : forall x, In x (ids_of l) \/ In x ex ->
                 lookup x (apply_changes (tree_content b) l a) = lookup x b).
  { intros x Hx. rewrite (filtered_apply_agrees a b (Some fs) incl l ex x Sa Na Nb H).
    destruct (existsb (fun c => Nat.eqb (c_id c) x) l) eqn:E; [reflexivity|].
    destruct Hx as [Hx|Hx]; [apply existsb_ids in Hx; rewrite Hx in E; discriminate|].
    destruct (K2 x Hx) as [[Hin|Hu] _]; [apply existsb_ids in Hin; rewrite Hin in E; discriminate|].
    apply is_changed_false_eq; assumption. }
  assert (HP : forall x e p, In x (ids_of l) \/ In x ex -> lookup x b = Some e -> e_parent e = Some p ->
                 In p (ids_of l) \/ In p ex).
  { intros x e p Hx Lb Hp.
    assert (Hpar : snd (c_parent (mk_change a b x)) = Some p)
      by (unfold mk_change; cbn [c_parent snd]; rewrite Lb; exact Hp).
    destruct Hx as [Hx|Hx].
    - unfold ids_of in Hx. apply in_map_iff in Hx as (c & Ec & Hc).
      rewrite Forall_forall in Hd. pose proof (Hd c Hc) as Dc. unfold derived in Dc. rewrite Ec in Dc.
      apply (K1 c p Hc). rewrite Dc. exact Hpar.
    - destruct (K2 x Hx) as [_ Hq]. apply Hq. exact Hpar. }
  induction n as [|n IH]; intros x Hx; cbn [path_of_fuel]; [reflexivity|].
  rewrite (HL x Hx). destruct (lookup x b) as [e|] eqn:Lb; [|reflexivity].
  destruct (e_parent e) as [p|] eqn:Hp; [|reflexivity].
  rewrite (IH p (HP x e p Hx Lb Hp)). reflexivity.
Qed.

(* ------------------------------------------------------------ refutations (witnesses replayed on the real code) *)

Definition D0 : entry := mkEntry None [] KDir [] false [].
Definition fl (p : fid) (n : N) (c : N) : entry := mkEntry (Some p) [n] KFile [c] false [].
Definition dr (p : fid) (n : N) : entry := mkEntry (Some p) [n] KDir [] false [].

(* W1: x(1) -> y while y(2) -> z, filter {x}: only id 1 is reported; applying it puts
   ids 1 and 2 at the same path *)
Definition w1a : tree := [(0, D0); (1, fl 0 120 49); (2, fl 0 121 50)].
Definition w1b : tree := [(0, D0); (1, fl 0 121 49); (2, fl 0 122 50)].

Lemma filtered_valid_refuted :
  valid_tree w1a /\ valid_tree w1b /\
  exists l, generic w1a w1b (Some [[[120%N]]]) false = Some l /\
            ids_of l = [1] /\
            valid_treeb (apply_changes (tree_content w1b) l w1a) = false /\
            parent_validb (apply_changes (tree_content w1b) l w1a) = true.
Proof.
  split; [vm_compute; reflexivity|]. split; [vm_compute; reflexivity|].
  eexists. split; [vm_compute; reflexivity|]. split; [reflexivity|].
  split; vm_compute; reflexivity.
Qed.

(* W2 (regression witness of the repaired duplicate): d(1) renamed to e, new directory d(3),
   d/x(2) reparented; filter {e} *)
Definition w2a : tree := [(0, D0); (1, dr 0 100); (2, fl 1 120 49)].
Definition w2b : tree := [(0, D0); (1, dr 0 101); (2, fl 3 120 49); (3, dr 0 100)].

(* W3 (regression witness of the repaired CHK include_unchanged paths) *)
Definition w3a : tree := [(0, D0); (1, dr 0 100); (2, fl 1 120 49)].
Definition w3b : tree := [(0, D0); (1, dr 0 101); (2, fl 1 120 49)].

(* ------------------------------------------------------------ combined statements *)

Theorem optimised_equals_generic_unfiltered : forall a b,
  exists lg lc, generic a b None false = Some lg /\ chk a b None false = Some lc /\
                forall c, In c lg <-> In c lc.
Proof.
  intros a b. destruct (generic_unfiltered_spec a b false) as (lg & Hg & Hin).
  exists lg, (changes a b). split; [exact Hg|]. split; [apply chk_unfiltered_spec|]. exact Hin.
Qed.

(* the unfiltered generic result applied to the source gives the target *)
Theorem generic_unfiltered_roundtrip : forall a b incl l,
  valid_tree a -> valid_tree b -> generic a b None incl = Some l ->
  apply_changes (tree_content b) l a = b.
Proof.
  intros a b incl l Va Vb H.
  destruct (valid_tree_parts a Va) as [Sa Na], (valid_tree_parts b Vb) as [Sb Nb].
  unfold generic in H. destruct (generic_full a b None incl) as [[l' ex]|] eqn:G; [|discriminate].
  cbn in H. injection H as ->.
  apply sorted_ext; [apply apply_changes_sorted; exact Sa | exact Sb|]. intro i.
  rewrite (filtered_apply_agrees a b None incl l ex i Sa Na Nb G).
  destruct (existsb (fun c => Nat.eqb (c_id c) i) l) eqn:E; [reflexivity|].
  destruct (generic_unfiltered_spec a b incl) as (l2 & H2 & Hin).
  unfold generic in H2. rewrite G in H2. cbn in H2. injection H2 as <-.
  destruct (lookup i a) as [x|] eqn:La, (lookup i b) as [y|] eqn:Lb; try reflexivity;
  (destruct (is_changed (mk_change a b i)) eqn:C;
   [ exfalso;
     assert (Hi : In (mk_change a b i) l);
     [ apply Hin; apply in_changes_gen; exists i; split;
       [ first [ left; apply lookup_in_keys; rewrite La; discriminate
               | right; apply lookup_in_keys; rewrite Lb; discriminate ]
       | split; [reflexivity | rewrite C; apply orb_true_r] ]
     | assert (E' : existsb (fun c => Nat.eqb (c_id c) i) l = true);
       [ apply existsb_exists; exists (mk_change a b i); split; [exact Hi | cbn; apply Nat.eqb_refl]
       | rewrite E in E'; discriminate ] ]
   | rewrite <- La, <- Lb; apply is_changed_false_eq; assumption ]).
Qed.

Theorem filtered_closed_partial : forall a b fs incl l ex,
  valid_tree a -> valid_tree b ->
  generic_full a b (Some fs) incl = Some (l, ex) ->
  let t' := apply_changes (tree_content b) l a in
  (* every reported change is the spec change of its id *)
  Forall (derived a b) l /\
  (* the result agrees with the target on reported ids and with the source elsewhere *)
  (forall i, lookup i t' = if existsb (fun c => Nat.eqb (c_id c) i) l then lookup i b else lookup i a) /\
  (* parent closure: reported + examined ids are closed under "parent in the target",
     examined-but-unreported ids are unchanged *)
  (forall c p, In c l -> snd (c_parent c) = Some p -> In p (ids_of l) \/ In p ex) /\
  (forall x, In x ex -> In x (ids_of l) \/ lookup x a = lookup x b) /\
  (* hence every reported entry has, in the result, exactly the target's ancestor chain *)
  (forall n x, In x (ids_of l) \/ In x ex -> path_of_fuel n t' x = path_of_fuel n b x) /\
  sorted t'.
Proof.
  intros a b fs incl l ex Va Vb H t'.
  destruct (valid_tree_parts a Va) as [Sa Na], (valid_tree_parts b Vb) as [Sb Nb].
  destruct (generic_filtered_closed _ _ _ _ _ _ H) as [K1 K2].
  split; [eapply generic_filtered_sound; eauto|].
  split; [intro i; eapply filtered_apply_agrees; eauto|].
  split; [exact K1|]. split.
  - intros x Hx. destruct (K2 x Hx) as [[Hin|Hu] _]; [left; exact Hin|].
    right. apply is_changed_false_eq; assumption.
  - split; [eapply filtered_paths_agree; eauto | apply apply_changes_sorted; exact Sa].
Qed.

Example closure_nonvacuous :
  exists l ex, generic_full w2a w2b (Some [[[101%N]]]) false = Some (l, ex) /\ ex <> [].
Proof. eexists. eexists. split; [vm_compute; reflexivity | discriminate]. Qed.

(* ------------------------------------------------------------ no duplicates (since 5cddeb1) *)

Lemma nodup_app : forall (l l' : list fid), NoDup l -> NoDup l' ->
  (forall x, In x l -> ~ In x l') -> NoDup (l ++ l').
Proof.
  induction l as [|x l IH]; intros l' H1 H2 Hd; cbn; [exact H2|].
  inversion H1 as [|? ? Hx Hl]; subst. constructor.
  - intro Hin. apply in_app_or in Hin as [Hin|Hin]; [contradiction|]. apply (Hd x); [left; reflexivity | exact Hin].
  - apply IH; [exact Hl | exact H2 | intros y Hy; apply Hd; right; exact Hy].
Qed.

Lemma nodup_map_filter : forall {A} (f : A -> fid) (p : A -> bool) l,
  NoDup (map f l) -> NoDup (map f (filter p l)).
Proof.
  intros A f p. induction l as [|x l IH]; intro H; cbn; [constructor|].
  cbn in H. inversion H as [|? ? Hx Hl]; subst.
  destruct (p x); cbn; [|apply IH; exact Hl]. constructor; [|apply IH; exact Hl].
  intro Hin. apply Hx. apply in_map_iff in Hin as (y & E & Hy). apply filter_In in Hy as [Hy _].
  apply in_map_iff. exists y. auto.
Qed.

Lemma in_map_filter : forall {A} (f : A -> fid) (p : A -> bool) l x,
  In x (map f (filter p l)) -> In x (map f l).
Proof.
  intros A f p l x H. apply in_map_iff in H as (y & E & Hy). apply filter_In in Hy as [Hy _].
  apply in_map_iff. exists y. auto.
Qed.

Lemma keys_above_not_in : forall t k, keys_above k t -> ~ In k (keys t).
Proof.
  induction t as [|[j e] r IH]; cbn; intros k H; [tauto|].
  destruct H as [H1 H2]. intros [E|Hin]; [lia | exact (IH k H2 Hin)].
Qed.

Lemma sorted_keys_nodup : forall t, sorted t -> NoDup (keys t).
Proof.
  induction t as [|[i e] r IH]; cbn; intro S; [constructor|].
  destruct S as [K S]. constructor; [apply keys_above_not_in; exact K | apply IH; exact S].
Qed.

Lemma map_opt_examine_ids : forall a b cur rs,
  map_opt (examine a b []) cur = Some rs -> map (fun r => c_id (fst r)) rs = cur.
Proof.
  intros a b. induction cur as [|x cur IH]; intros rs H; cbn [map_opt] in H.
  - injection H as <-. reflexivity.
  - destruct (examine a b [] x) as [[c chg]|] eqn:Fx; [|discriminate].
    destruct (map_opt (examine a b []) cur) as [ys|] eqn:M; [|discriminate]. injection H as <-.
    cbn [map fst]. rewrite (IH ys eq_refl). destruct (examine_nodisc a b x c chg Fx) as (-> & _ & _). reflexivity.
Qed.

Lemma c_id_removal : forall a b i, c_id (removal_change a b i) = i.
Proof. intros. unfold removal_change. destruct (lookup i a); reflexivity. Qed.

(* the closure loop never yields an id that is already in changed_file_ids *)
Lemma handle_nodup : forall fuel a b P C out ex o C' ex',
  handle fuel a b [] P C out ex = Some (o, C', ex') -> NoDup C -> NoDup C'.
Proof.
  induction fuel as [|f IH]; intros a b P C out ex o C' ex' H ND; cbn [handle] in H.
  - destruct (filter (fun i => negb (mem i C)) (dedupe P)); [|discriminate].
    injection H as _ <- _. exact ND.
  - destruct (filter (fun i => negb (mem i C)) (dedupe P)) as [|q P1'] eqn:EP.
    + injection H as _ <- _. exact ND.
    + rewrite <- EP in H. set (P1 := filter (fun i => negb (mem i C)) (dedupe P)) in *.
      set (olds := flat_map (fun p => match path_of b p with
                                      | Some pa => opt_list (id_of_path a pa)
                                      | None => [] end) P1) in *.
      set (cur := filter (fun i => negb (mem i C)) (dedupe (P1 ++ olds))) in *.
      destruct (map_opt (examine a b []) cur) as [rs|] eqn:M; [|discriminate].
      apply IH in H; [exact H|].
      pose proof (map_opt_examine_ids a b cur rs M) as Hids.
      assert (NDcur : NoDup cur) by (unfold cur; apply NoDup_filter; unfold dedupe; apply NoDup_nodup).
      rewrite map_map. apply nodup_app; [exact ND | |].
      * apply nodup_map_filter. rewrite Hids. exact NDcur.
      * intros x Hx Hin. apply in_map_filter in Hin. rewrite Hids in Hin.
        unfold cur in Hin. apply filter_In in Hin as [_ Hm]. apply negb_true_iff, mem_false in Hm. contradiction.
Qed.

Lemma main_ids_nodup : forall a b S incl, sorted a -> sorted b ->
  NoDup (map c_id (fst (generic_main a b S incl) ++ snd (generic_main a b S incl))).
Proof.
  intros a b S incl Sa Sb. unfold generic_main. cbn [fst snd]. rewrite map_app.
  set (tgt := filter (in_sel S) (keys b)). set (src := filter (in_sel S) (keys a)).
  assert (E1 : map c_id (map (mk_change a b) tgt) = tgt)
    by (rewrite map_map; rewrite <- (map_id tgt) at 2; apply map_ext; intro; reflexivity).
  assert (E2 : forall l, map c_id (map (removal_change a b) l) = l)
    by (intro l; rewrite map_map; rewrite <- (map_id l) at 2; apply map_ext; intro; apply c_id_removal).
  assert (Nt : NoDup tgt) by (apply NoDup_filter, sorted_keys_nodup; exact Sb).
  apply nodup_app.
  - apply nodup_map_filter. rewrite E1. exact Nt.
  - rewrite E2. apply NoDup_filter, NoDup_filter, sorted_keys_nodup. exact Sa.
  - intros x Hx Hin. apply in_map_filter in Hx. rewrite E1 in Hx. rewrite E2 in Hin.
    apply filter_In in Hin as [_ Hm]. apply negb_true_iff, mem_false in Hm. contradiction.
Qed.

Theorem generic_no_duplicates : forall a b F incl l ex,
  sorted a -> sorted b -> generic_full a b F incl = Some (l, ex) -> NoDup (ids_of l).
Proof.
  intros a b F incl l ex Sa Sb H. unfold generic_full in H.
  pose proof (main_ids_nodup a b (specific_ids a b F) incl Sa Sb) as Hm.
  destruct (generic_main a b (specific_ids a b F) incl) as [em rm]. cbn [fst snd] in Hm.
  destruct (specific_ids a b F) as [s|].
  - destruct (handle _ a b [] _ _ [] []) as [[[h C'] ex']|] eqn:Hh; [|discriminate].
    injection H as <- <-.
    pose proof (handle_nodup _ _ _ _ _ _ _ _ _ _ Hh Hm) as HN.
    apply handle_closed in Hh as (_ & _ & _ & _ & (h' & Ho & HC' & _)). cbn in Ho. subst h'.
    unfold ids_of. rewrite app_assoc, map_app, <- HC'. exact HN.
  - injection H as <- <-. exact Hm.
Qed.

Example w2_no_duplicates :
  exists l l', generic w2a w2b (Some [[[101%N]]]) false = Some l /\ ids_of l = [1; 2; 3] /\
               chk w2a w2b (Some [[[101%N]]]) false = Some l' /\ ids_of l' = [1; 2; 3].
Proof. eexists. eexists. split; [vm_compute; reflexivity|]. split; [reflexivity|]. split; [vm_compute; reflexivity | reflexivity]. Qed.

(* ------------------------------------------------------------ CHK include_unchanged (since b515e80) *)

Lemma content_differs_refl : forall e, content_differs e e = false.
Proof.
  intro e. unfold content_differs.
  assert (K : kind_eqb (e_kind e) (e_kind e) = true) by (apply kind_eqb_iff; reflexivity).
  rewrite K. cbn. destruct (e_kind e); rewrite ?bytes_eqb_refl'; reflexivity.
Qed.

Lemma unchanged_is_mk_change : forall a b i e,
  lookup i a = Some e -> lookup i b = Some e -> unchanged_change a b i e = mk_change a b i.
Proof.
  intros a b i e La Lb. unfold unchanged_change, mk_change. rewrite La, Lb. cbn.
  rewrite content_differs_refl. reflexivity.
Qed.

Theorem chk_unfiltered_incl_spec : forall a b, valid_tree a -> valid_tree b ->
  exists l, chk a b None true = Some l /\ forall c, In c l <-> In c (changes_gen true a b).
Proof.
  intros a b Va Vb.
  destruct (valid_tree_parts a Va) as [Sa Na], (valid_tree_parts b Vb) as [Sb Nb].
  unfold chk. cbn [specific_ids in_sel andb]. eexists. split; [reflexivity|]. intro c.
  rewrite in_app_iff, in_flat_map.
  assert (Hids : forall i, In i (map c_id (changes a b)) <->
                           ((In i (keys a) \/ In i (keys b)) /\ is_changed (mk_change a b i) = true)).
  { intro i. rewrite in_map_iff. split.
    - intros (c' & E & Hc'). apply in_changes_gen in Hc' as (j & Hj & -> & Hch). cbn in E. subst j.
      cbn in Hch. auto.
    - intros [Hk Hch]. exists (mk_change a b i). split; [reflexivity|].
      apply in_changes_gen. exists i. cbn. auto. }
  split.
  - intros [Hc|((i, e) & Hie & Hc)].
    + apply in_changes_gen in Hc as (i & Hi & -> & Hch). apply in_changes_gen. exists i. auto.
    + cbn [fst snd] in Hc.
      destruct (mem i (map c_id (changes a b))) eqn:M; cbn in Hc; [destruct Hc|].
      destruct Hc as [<-|[]]. apply mem_false in M.
      pose proof (in_lookup b i e Sb Hie) as Lb.
      assert (Hkb : In i (keys b)) by (apply lookup_in_keys; rewrite Lb; discriminate).
      assert (Hu : is_changed (mk_change a b i) = false).
      { destruct (is_changed (mk_change a b i)) eqn:E; [|reflexivity].
        exfalso. apply M. apply Hids. auto. }
      pose proof (is_changed_false_eq a b i Na Nb Hu) as Eq. rewrite Lb in Eq.
      rewrite (unchanged_is_mk_change a b i e Eq Lb).
      apply in_changes_gen. exists i. auto.
  - intro Hc. apply in_changes_gen in Hc as (i & Hi & -> & _).
    destruct (is_changed (mk_change a b i)) eqn:E.
    + left. apply in_changes_gen. exists i. cbn. auto.
    + right. pose proof (is_changed_false_eq a b i Na Nb E) as Eq.
      assert (Hkb : In i (keys b)).
      { destruct Hi as [Hi|Hi]; [|exact Hi]. apply lookup_in_keys. rewrite <- Eq. apply lookup_in_keys. exact Hi. }
      destruct (in_keys_lookup b i Hkb) as [e Lb]. rewrite Lb in Eq.
      exists (i, e). split; [apply lookup_in; exact Lb|]. cbn [fst snd].
      assert (M : mem i (map c_id (changes a b)) = false).
      { apply mem_false. intro Hin. apply Hids in Hin as [_ Hch]. rewrite E in Hch. discriminate. }
      rewrite M. cbn. left. apply unchanged_is_mk_change; assumption.
Qed.

Theorem optimised_equals_generic_unfiltered_incl : forall a b incl, valid_tree a -> valid_tree b ->
  exists lg lc, generic a b None incl = Some lg /\ chk a b None incl = Some lc /\
                forall c, In c lg <-> In c lc.
Proof.
  intros a b incl Va Vb. destruct (generic_unfiltered_spec a b incl) as (lg & Hg & Hin).
  destruct incl.
  - destruct (chk_unfiltered_incl_spec a b Va Vb) as (lc & Hc & Hinc).
    exists lg, lc. split; [exact Hg|]. split; [exact Hc|]. intro c. rewrite Hin, Hinc. tauto.
  - exists lg, (changes a b). split; [exact Hg|]. split; [apply chk_unfiltered_spec|]. exact Hin.
Qed.

Example w3_chk_unchanged_paths :
  exists lc c, chk w3a w3b None true = Some lc /\ In c lc /\ c = mk_change w3a w3b 2 /\
               c_path c = (Some [[100%N]; [120%N]], Some [[101%N]; [120%N]]).
Proof.
  eexists. eexists. split; [vm_compute; reflexivity|].
  split; [right; right; left; reflexivity|]. split; reflexivity.
Qed.
