(* Theory/GitTree.v -- proofs for C35 (model: Model/GitTree.v). *)
From Coq Require Import NArith List Bool Lia Permutation Sorted.
From BV Require Import Lib.Bytes Lib.Obs Lib.SortUniq Model.GitTree.
Import ListNotations.
Open Scope N_scope.

(* ---- equality tests ------------------------------------------------------- *)
Lemma beqb_true a b : bytes_eqb a b = true -> a = b.
Proof.
  unfold bytes_eqb. revert b; induction a as [|x a IH]; intros [|y b] H; try discriminate; auto.
  apply andb_true_iff in H. destruct H as [H1 H2]. apply N.eqb_eq in H1. subst. f_equal. auto.
Qed.
Lemma beqb_refl a : bytes_eqb a a = true.
Proof. unfold bytes_eqb. induction a as [|x a IH]; auto. rewrite N.eqb_refl. exact IH. Qed.
Lemma path_eqb_true p q : path_eqb p q = true -> p = q.
Proof.
  revert q; induction p as [|a p IH]; intros [|b q] H; simpl in H; try discriminate; auto.
  apply andb_true_iff in H. destruct H as [H1 H2]. apply beqb_true in H1. subst. f_equal. auto.
Qed.
Lemma path_eqb_refl p : path_eqb p p = true.
Proof. induction p as [|a p IH]; simpl; auto. rewrite beqb_refl. exact IH. Qed.

(* ---- nested induction principles ------------------------------------------ *)
Section EInd.
  Variable P : etree -> Prop.
  Hypothesis Hf : forall c x, P (EFile c x).
  Hypothesis Hl : forall t, P (ELink t).
  Hypothesis Hd : forall ch, Forall (fun nc => P (snd nc)) ch -> P (EDir ch).
  Fixpoint etree_ind2 (t : etree) : P t :=
    match t with
    | EFile c x => Hf c x
    | ELink tg => Hl tg
    | EDir ch => Hd ch ((fix go (l : list (name * etree)) : Forall (fun nc => P (snd nc)) l :=
                           match l with
                           | [] => Forall_nil _
                           | nc :: r => Forall_cons nc (etree_ind2 (snd nc)) (go r)
                           end) ch)
    end.
End EInd.
Section KInd.
  Variable P : ktree -> Prop.
  Hypothesis Hf : forall k c x, P (KFile k c x).
  Hypothesis Hl : forall k t, P (KLink k t).
  Hypothesis Hd : forall k ch, Forall (fun nc => P (snd nc)) ch -> P (KDir k ch).
  Fixpoint ktree_ind2 (t : ktree) : P t :=
    match t with
    | KFile k c x => Hf k c x
    | KLink k tg => Hl k tg
    | KDir k ch => Hd k ch ((fix go (l : list (name * ktree)) : Forall (fun nc => P (snd nc)) l :=
                               match l with
                               | [] => Forall_nil _
                               | nc :: r => Forall_cons nc (ktree_ind2 (snd nc)) (go r)
                               end) ch)
    end.
End KInd.
Section GInd.
  Variable P : gobj -> Prop.
  Hypothesis Hb : forall d, P (GBlob d).
  Hypothesis Ht : forall es, Forall (fun e => P (snd e)) es -> P (GTree es).
  Fixpoint gobj_ind2 (g : gobj) : P g :=
    match g with
    | GBlob d => Hb d
    | GTree es => Ht es ((fix go (l : list (N * name * gobj)) : Forall (fun e => P (snd e)) l :=
                            match l with
                            | [] => Forall_nil _
                            | e :: r => Forall_cons e (gobj_ind2 (snd e)) (go r)
                            end) es)
    end.
End GInd.

(* ---- sorting helpers -------------------------------------------------------- *)
Lemma insert_map {A B} (k1 : A -> bytes) (k2 : B -> bytes) (f : A -> B) :
  (forall x, k2 (f x) = k1 x) ->
  forall x l, insert k2 (f x) (map f l) = map f (insert k1 x l).
Proof.
  intros Hk x l. induction l as [|y l IH]; simpl; [reflexivity|].
  rewrite !Hk. destruct (bytes_leb (k1 x) (k1 y)); simpl; [reflexivity|]. rewrite IH. reflexivity.
Qed.
Lemma isort_map {A B} (k1 : A -> bytes) (k2 : B -> bytes) (f : A -> B) :
  (forall x, k2 (f x) = k1 x) -> forall l, isort k2 (map f l) = map f (isort k1 l).
Proof.
  intros Hk l. induction l as [|x l IH]; simpl; [reflexivity|].
  rewrite IH. apply insert_map; exact Hk.
Qed.

(* the git entry order is a function of the entry SET *)
Theorem gsort_entry_set es1 es2 :
  Permutation es1 es2 -> NoDup (map gkey es1) -> gsort es1 = gsort es2.
Proof. apply isort_perm_invariant. Qed.

(* ---- incremental = from scratch ------------------------------------------- *)
Definition is_leaf (e : fent) : Prop := k_kind (f_node e) <> 0.

Lemma flatten_child p pf n k ch cn c e :
  In (cn, c) ch -> In e (flatten (p ++ [cn]) (fst k) cn c) -> In e (flatten p pf n (KDir k ch)).
Proof.
  intros Hin He. simpl. right.
  induction ch as [|[n' c'] r IH]; [contradiction|].
  apply in_or_app. destruct Hin as [Heq|Hin].
  - inversion Heq; subst. left; exact He.
  - right. apply IH; exact Hin.
Qed.

Section IncrTree.
  Variable sha : Type.
  Variable Hb : bytes -> sha.
  Variable Ht : list (N * name * sha) -> sha.
  Variable cache : key -> option sha.
  Variable sm : list (path * sha * bool).
  Variable um : umap.

  Definition gmap (e : N * name * gobj) : N * name * sha :=
    let '(m, n, g) := e in (m, n, gid Hb Ht g).

  Lemma gid_tree es : gid Hb Ht (GTree es) = Ht (map gmap es).
  Proof.
    simpl. f_equal. induction es as [|[[m n] g] r IH]; simpl; [reflexivity|]. rewrite IH. reflexivity.
  Qed.

  Definition skey (e : N * name * sha) : bytes :=
    let '(m, n, _) := e in if is_dir_mode m then n ++ [47] else n.

  Lemma skey_gmap e : skey (gmap e) = gkey e.
  Proof. destruct e as [[m n] g]. reflexivity. Qed.

  Lemma incr_tree_correct :
    forall t ae p pf n,
      (forall e, In e (flatten p pf n t) -> is_leaf e ->
                 leaf_id Hb cache sm (f_path e) (k_key (f_node e)) (k_data (f_node e))
                 = Hb (k_data (f_node e))) ->
      incr_tree Hb Ht cache sm um ae p t = option_map (gid Hb Ht) (to_git um ae p (erase t)).
  Proof.
    induction t as [k c x|k tg|k ch IH] using ktree_ind2; intros ae p pf n HL.
    - simpl. f_equal. apply (HL {| f_path := p; f_pfid := pf; f_name := n; f_node := KFile k c x |}).
      + left; reflexivity.
      + unfold is_leaf; simpl; discriminate.
    - simpl. f_equal. apply (HL {| f_path := p; f_pfid := pf; f_name := n; f_node := KLink k tg |}).
      + left; reflexivity.
      + unfold is_leaf; simpl; discriminate.
    - cbn [incr_tree to_git erase].
      set (goI := fix go (l : list (name * ktree)) : list (N * name * sha) :=
             match l with
             | [] => []
             | (n0, c) :: r =>
                 if banned n0 then go r
                 else match incr_tree Hb Ht cache sm um false (p ++ [n0]) c with
                      | Some i => (mode_of um (p ++ [n0]) (erase c), n0, i) :: go r
                      | None => go r
                      end
             end).
      set (goG := fix go (l : list (name * etree)) : list (N * name * gobj) :=
             match l with
             | [] => []
             | (n0, c) :: r =>
                 if banned n0 then go r
                 else match to_git um false (p ++ [n0]) c with
                      | Some g => (mode_of um (p ++ [n0]) c, n0, g) :: go r
                      | None => go r
                      end
             end).
      assert (Hgo : forall l, (forall nc, In nc l -> In nc ch) ->
                              goI l = map gmap (goG (map (fun nc => (fst nc, erase (snd nc))) l))).
      { induction l as [|[n0 c] r IHl]; intros Hsub; [reflexivity|].
        cbn [goI goG map fst snd].
        destruct (banned n0); [apply IHl; intros; apply Hsub; right; assumption|].
        assert (Hc : In (n0, c) ch) by (apply Hsub; left; reflexivity).
        rewrite Forall_forall in IH.
        pose proof (IH (n0, c) Hc false (p ++ [n0]) (fst k) n0) as IHc. cbn [snd] in IHc.
        rewrite IHc.
        2:{ intros e He Hl. apply HL; [|exact Hl]. eapply flatten_child; eassumption. }
        destruct (to_git um false (p ++ [n0]) (erase c)); cbn [option_map map gmap];
          rewrite IHl by (intros; apply Hsub; right; assumption); reflexivity. }
      rewrite (Hgo ch) by auto.
      destruct (goG (map (fun nc => (fst nc, erase (snd nc))) ch)) as [|e0 es0] eqn:E.
      + cbn [map]. destruct ae; reflexivity.
      + cbn [option_map]. rewrite gid_tree. unfold gsort.
        rewrite <- (isort_map gkey skey gmap skey_gmap).
        cbn [map]. reflexivity.
  Qed.
End IncrTree.

(* soundness of the shamap built by the first loop, and of ie_to_hexsha on leaves *)
Section LeafIds.
  Variable sha : Type.
  Variable Hb : bytes -> sha.
  Variable cache : key -> option sha.
  Variable others : list (list fent).
  Variable texts : key -> bytes.        (* the text stored under (file id, revision) *)

  Definition keys_ok (l : list fent) : Prop :=
    forall e, In e l -> is_leaf e -> texts (k_key (f_node e)) = k_data (f_node e).
  Definition cache_consistent : Prop :=
    forall k id, cache k = Some id -> id = Hb (texts k).

  Hypothesis Hcache : cache_consistent.
  Hypothesis Hothers : Forall keys_ok others.

  Lemma find_fid_In fid l e : find_fid fid l = Some e -> In e l.
  Proof.
    induction l as [|x l IH]; simpl; [discriminate|].
    destruct (bytes_eqb (f_fid x) fid); [intros H; inversion H; left; reflexivity|].
    intros H; right; auto.
  Qed.
  Lemma find_path_In p l e : find_path p l = Some e -> In e l /\ f_path e = p.
  Proof.
    induction l as [|x l IH]; simpl; [discriminate|].
    destruct (path_eqb (f_path x) p) eqn:E.
    - intros H; inversion H; subst. split; [left; reflexivity|apply path_eqb_true; exact E].
    - intros H. destruct (IH H). split; [right|]; assumption.
  Qed.

  Lemma find_unchanged_sound ps fid kind d pk :
    Forall keys_ok ps -> kind <> 0 ->
    find_unchanged ps fid kind d = Some pk -> texts pk = d.
  Proof.
    intros Hps Hk. induction ps as [|pt r IH]; simpl; [discriminate|].
    inversion Hps as [|? ? Hpt Hr]; subst.
    destruct (find_fid fid pt) as [e|] eqn:Ef; [|apply IH; assumption].
    destruct ((k_kind (f_node e) =? kind) && bytes_eqb (k_data (f_node e)) d) eqn:Ec; [|apply IH; assumption].
    intros H; inversion H; subst. apply andb_true_iff in Ec. destruct Ec as [E1 E2].
    apply N.eqb_eq in E1. apply beqb_true in E2. rewrite <- E2.
    apply Hpt; [eapply find_fid_In; exact Ef|]. unfold is_leaf. congruence.
  Qed.

  Lemma sm_get_In (sm : list (path * sha * bool)) p id :
    sm_get sm p = Some id -> exists y, In (p, id, y) sm.
  Proof.
    induction sm as [|[[q i] y] r IH]; simpl; [discriminate|].
    destruct (sm_get r p) as [x|] eqn:E.
    - intros H; inversion H; subst. destruct (IH eq_refl) as [y' Hy]. exists y'; right; exact Hy.
    - destruct (path_eqb q p) eqn:Eq; [|discriminate].
      intros H; inversion H; subst. apply path_eqb_true in Eq. subst. exists y; left; reflexivity.
  Qed.

  Variable cs : list change.
  Variable ft : list fent.
  Hypothesis Huniq : NoDup (map f_path ft).
  Hypothesis Hkeys : keys_ok ft.

  Lemma uniq_path e e' : In e ft -> In e' ft -> f_path e = f_path e' -> e = e'.
  Proof.
    clear Hkeys. induction ft as [|x l IH]; [contradiction|].
    simpl in Huniq. inversion Huniq as [|? ? Hn Hnd]; subst.
    intros [H1|H1] [H2|H2] Hp; subst; auto.
    - exfalso. apply Hn. rewrite Hp. apply in_map; exact H2.
    - exfalso. apply Hn. rewrite <- Hp. apply in_map; exact H1.
  Qed.

  Lemma first_loop_sound p id e :
    sm_get (first_loop Hb cache others cs ft) p = Some id ->
    In e ft -> f_path e = p -> id = Hb (k_data (f_node e)).
  Proof.
    intros Hs He Hp. apply sm_get_In in Hs. destruct Hs as [y Hy].
    unfold first_loop in Hy. apply in_flat_map in Hy. destruct Hy as [c [_ Hy]].
    destruct (c_banned c); [contradiction|].
    destruct (c_new c) as [q|]; [|contradiction].
    destruct (find_path q ft) as [e'|] eqn:Ef; [|contradiction].
    apply find_path_In in Ef. destruct Ef as [He' Hq].
    assert (Hd : forall i z, In (p, id, y) [(q, i, z)] -> i = Hb (k_data (f_node e')) -> id = Hb (k_data (f_node e))).
    { intros i z [H|[]] Hi. inversion H; subst.
      rewrite (uniq_path e e' He He'); [reflexivity|]. congruence. }
    destruct (k_kind (f_node e')) as [|[k'|[k'|k'|]|]] eqn:Ek; try contradiction.
    - (* 2: symlink *) eapply Hd; [exact Hy|reflexivity].
    - (* 1: file *)
      destruct (find_unchanged others (c_fid c) 1 (k_data (f_node e'))) as [pk|] eqn:Eu.
      + destruct (cache pk) as [i|] eqn:Ec.
        * eapply Hd; [exact Hy|]. rewrite (Hcache _ _ Ec). f_equal.
          eapply find_unchanged_sound; [exact Hothers| |exact Eu]. discriminate.
        * destruct (c_cc c); (eapply Hd; [exact Hy|reflexivity]).
      + eapply Hd; [exact Hy|reflexivity].
  Qed.

  Lemma leaf_ids_ok e :
    In e ft -> is_leaf e ->
    leaf_id Hb cache (first_loop Hb cache others cs ft) (f_path e) (k_key (f_node e)) (k_data (f_node e))
    = Hb (k_data (f_node e)).
  Proof.
    intros He Hl. unfold leaf_id.
    destruct (sm_get _ (f_path e)) as [id|] eqn:Es.
    - eapply first_loop_sound; [exact Es|exact He|reflexivity].
    - destruct (cache (k_key (f_node e))) as [id|] eqn:Ec; [|reflexivity].
      rewrite (Hcache _ _ Ec). f_equal. apply Hkeys; assumption.
  Qed.
End LeafIds.

Section Main.
  Variable sha : Type.
  Variable Hb : bytes -> sha.
  Variable Ht : list (N * name * sha) -> sha.

  Theorem incremental_eq_scratch :
    forall (texts : key -> bytes) (cache : key -> option sha) (others : list (list fent))
           (cs : list change) (um ump : umap) (base t : ktree) (parent_root : option sha),
      cache_consistent sha Hb cache texts ->
      keys_ok texts (flat t) -> Forall (keys_ok texts) others ->
      NoDup (map f_path (flat t)) ->
      (* iter_changes is complete: nothing reported (beyond banned targets) => same tree *)
      (dirty_dirs cs um = [] ->
         erase t = erase base /\ ump = um /\
         parent_root = Some (gid Hb Ht (to_git_root ump (erase base)))) ->
      incremental Hb Ht cache others cs um parent_root t = gid Hb Ht (to_git_root um (erase t)).
  Proof.
    intros texts cache others cs um ump base t proot Hc Hk Ho Hu Hcompl.
    unfold incremental. destruct (dirty_dirs cs um) as [|d ds] eqn:Ed.
    - destruct (Hcompl eq_refl) as [He [Hm Hp]]. subst ump. rewrite Hp, He. reflexivity.
    - rewrite (incr_tree_correct sha Hb Ht cache _ um t true [] [] []).
      + unfold to_git_root. destruct (to_git um true [] (erase t)) as [g|] eqn:Eg; [reflexivity|].
        simpl. reflexivity.
      + intros e He Hl. eapply leaf_ids_ok; eauto.
  Qed.
End Main.

(* Regression (the old code skipped a change whose new name is ".git" BEFORE marking its directories
   dirty; repaired by 4f049bc): renaming a file to ".git" as the only change now makes the root dirty
   and the incremental result is the from-scratch tree. *)
Definition wit_base : ktree :=
  KDir ([114], [48]) [([97; 97], KFile ([102], [48]) [65] false)].
Definition wit_t : ktree :=
  KDir ([114], [48]) [(DOTGIT, KFile ([102], [49]) [65] false)].

Lemma incremental_banned_rename_ok :
  let cs := changes (flat wit_base) (flat wit_t) in
  dirty_dirs cs [] <> [] /\
  incremental HbG HtG (cache_of [wit_base]) [] cs [] (Some (to_git_root [] (erase wit_base))) wit_t
  = gid HbG HtG (to_git_root [] (erase wit_t)).
Proof. split; vm_compute; [discriminate|reflexivity]. Qed.

(* every reported change makes something dirty: "nothing dirty" now means "iter_changes reported nothing" *)
Lemma dirty_nil_no_changes cs um :
  dirty_dirs cs um = [] ->
  forall c, In c cs -> c_old c = None /\ c_new c = None.
Proof.
  unfold dirty_dirs. intros H c Hc. apply app_eq_nil in H. destruct H as [H _].
  assert (Hn : flat_map (fun p => prefixes (dirname p)) (opt_list (c_old c) ++ opt_list (c_new c)) = []).
  { clear -H Hc. induction cs as [|x r IH]; [contradiction|]. simpl in H. apply app_eq_nil in H.
    destruct H as [H1 H2]. destruct Hc as [->|Hc]; auto. apply app_eq_nil in H1. apply H1. }
  destruct (c_old c) as [p|]; [simpl in Hn; destruct (dirname p); discriminate|].
  destruct (c_new c) as [p|]; [simpl in Hn; destruct (dirname p); discriminate|]. auto.
Qed.

(* the main theorem with the completeness of iter_changes stated on the change list itself
   (no reference to what the exporter considers dirty): possible since the repair 4f049bc *)
Theorem incremental_eq_scratch_changes :
  forall (sha : Type) (Hb : bytes -> sha) (Ht : list (N * name * sha) -> sha)
         (texts : key -> bytes) (cache : key -> option sha) (others : list (list fent))
         (cs : list change) (um ump : umap) (base t : ktree) (parent_root : option sha),
    cache_consistent sha Hb cache texts ->
    keys_ok texts (flat t) -> Forall (keys_ok texts) others ->
    NoDup (map f_path (flat t)) ->
    ((forall c, In c cs -> c_old c = None /\ c_new c = None) -> um = [] ->
       erase t = erase base /\ ump = um /\
       parent_root = Some (gid Hb Ht (to_git_root ump (erase base)))) ->
    incremental Hb Ht cache others cs um parent_root t = gid Hb Ht (to_git_root um (erase t)).
Proof.
  intros sha Hb Ht texts cache others cs um ump base t proot Hc Hk Ho Hu Hcompl.
  eapply incremental_eq_scratch; eauto.
  intros Hd. apply Hcompl.
  - eapply dirty_nil_no_changes; exact Hd.
  - unfold dirty_dirs in Hd. apply app_eq_nil in Hd. destruct Hd as [_ Hd].
    destruct um as [|[q m] r]; [reflexivity|]. simpl in Hd. destruct (dirname q); discriminate.
Qed.

(* ---- round trips ------------------------------------------------------------ *)
Definition nle {A} (a b : name * A) : Prop := bytes_leb (fst a) (fst b) = true.

Fixpoint wf_e (t : etree) : Prop :=
  match t with
  | EDir ch =>
      StronglySorted nle ch /\ NoDup (map fst ch) /\
      (fix go (l : list (name * etree)) : Prop :=
         match l with [] => True | nc :: r => wf_e (snd nc) /\ go r end) ch
  | _ => True
  end.

Lemma wf_e_children ch :
  (fix go (l : list (name * etree)) : Prop :=
     match l with [] => True | nc :: r => wf_e (snd nc) /\ go r end) ch ->
  Forall (fun nc => wf_e (snd nc)) ch.
Proof. induction ch as [|nc r IH]; intros H; constructor; destruct H; auto. Qed.

Definition F_of (e : N * name * gobj) : name * etree :=
  let '(m, n, g) := e in (n, of_git m g).

Lemma of_git_tree es m : of_git m (GTree es) = EDir (nsort (map F_of es)).
Proof.
  simpl. f_equal. f_equal. induction es as [|[[cm n] c] r IH]; simpl; [reflexivity|]. rewrite IH; reflexivity.
Qed.

Lemma mode_of_nil p t : mode_of [] p t = entry_mode t.
Proof. reflexivity. Qed.

Definition goD := fix go (l : list (name * etree)) : list (name * etree) :=
  match l with
  | [] => []
  | (n, c) :: r =>
      if banned n then go r
      else match drop_empty false c with
           | Some c' => (n, c') :: go r
           | None => go r
           end
  end.

Lemma goD_names l x : In x (map fst (goD l)) -> In x (map fst l).
Proof.
  induction l as [|[n c] r IH]; simpl; [auto|].
  destruct (banned n); [intros H; right; auto|].
  destruct (drop_empty false c); simpl; intros H.
  - destruct H as [H|H]; [left; exact H|right; auto].
  - right; auto.
Qed.
Lemma goD_nodup l : NoDup (map fst l) -> NoDup (map fst (goD l)).
Proof.
  induction l as [|[n c] r IH]; simpl; intros H; [constructor|].
  inversion H as [|? ? Hn Hr]; subst.
  destruct (banned n); [auto|]. destruct (drop_empty false c); simpl; [|auto].
  constructor; [|auto]. intros Hin. apply Hn. apply goD_names; exact Hin.
Qed.
Lemma goD_sorted l : StronglySorted nle l -> StronglySorted nle (goD l).
Proof.
  induction l as [|[n c] r IH]; simpl; intros H; [constructor|].
  inversion H as [|? ? Hs Hall]; subst.
  destruct (banned n); [auto|]. destruct (drop_empty false c) as [c'|]; [|auto].
  constructor; [auto|]. rewrite Forall_forall in *. intros [n2 c2] Hin.
  assert (Hn2 : In n2 (map fst r)).
  { apply goD_names. change n2 with (fst (n2, c2)). apply in_map; exact Hin. }
  apply in_map_iff in Hn2. destruct Hn2 as [[n3 c3] [Hf Hin3]]. simpl in Hf. subst n3.
  specialize (Hall _ Hin3). unfold nle in *. simpl in *. exact Hall.
Qed.

Lemma entry_mode_of_git_leaf t : match t with EDir _ => True | _ =>
  forall g, to_git [] false [] t = Some g -> of_git (entry_mode t) g = t end.
Proof.
  destruct t as [c x|tg|ch]; auto.
  - intros g H; inversion H; subst. destruct x; reflexivity.
  - intros g H; inversion H; subst. reflexivity.
Qed.

Theorem of_git_to_git :
  forall t ae p, wf_e t ->
    option_map (of_git (entry_mode t)) (to_git [] ae p t) = drop_empty ae t.
Proof.
  induction t as [c x|tg|ch IH] using etree_ind2; intros ae p Hwf.
  - simpl. destruct x; reflexivity.
  - reflexivity.
  - cbn [to_git drop_empty]. fold goD.
    set (goG := fix go (l : list (name * etree)) : list (N * name * gobj) :=
           match l with
           | [] => []
           | (n0, c) :: r =>
               if banned n0 then go r
               else match to_git [] false (p ++ [n0]) c with
                    | Some g => (mode_of [] (p ++ [n0]) c, n0, g) :: go r
                    | None => go r
                    end
           end).
    destruct Hwf as [Hs [Hnd Hch]]. apply wf_e_children in Hch.
    assert (HA : map F_of (goG ch) = goD ch).
    { clear Hs Hnd. induction ch as [|[n0 c] r IHr]; [reflexivity|].
      inversion IH as [|? ? IHc IHr']; subst. inversion Hch as [|? ? Hc Hr]; subst.
      cbn [goG goD]. destruct (banned n0); [auto|].
      specialize (IHc false (p ++ [n0]) Hc). cbn [snd] in IHc.
      destruct (to_git [] false (p ++ [n0]) c) as [g|]; cbn [option_map] in IHc; rewrite <- IHc.
      - cbn [map F_of]. rewrite mode_of_nil. f_equal. auto.
      - auto. }
    destruct (goG ch) as [|e0 es0] eqn:Eg.
    + simpl in HA. rewrite <- HA. destruct ae; reflexivity.
    + cbn [option_map entry_mode]. rewrite of_git_tree.
      assert (Hperm : Permutation (map F_of (gsort (e0 :: es0))) (map F_of (e0 :: es0))).
      { apply Permutation_map. apply isort_perm. }
      assert (HndD : NoDup (map fst (goD ch))) by (apply goD_nodup; exact Hnd).
      unfold nsort.
      rewrite (isort_perm_invariant _ _ _ Hperm).
      2:{ eapply Permutation_NoDup; [apply Permutation_map, Permutation_sym, Hperm|]. rewrite HA. exact HndD. }
      rewrite HA. rewrite isort_sorted_id; [|apply goD_sorted; exact Hs|exact HndD].
      destruct (goD ch) eqn:Ed; [discriminate HA|]. reflexivity.
Qed.

(* canonical git trees: what git itself writes (plus: no submodules) *)
Definition gle (a b : N * name * gobj) : Prop := bytes_leb (gkey a) (gkey b) = true.

Fixpoint canon (m : N) (g : gobj) : Prop :=
  match g with
  | GBlob _ => m = M_REG \/ m = M_EXE \/ m = M_LNK
  | GTree es =>
      m = M_DIR /\ StronglySorted gle es /\ NoDup (map gkey es) /\
      NoDup (map (fun e => fst (F_of e)) es) /\
      (fix go (l : list (N * name * gobj)) : Prop :=
         match l with
         | [] => True
         | e :: r => (let '(cm, n, c) := e in
                      banned n = false /\ canon cm c /\ c <> GTree []) /\ go r
         end) es
  end.

Definition centry (e : N * name * gobj) : Prop :=
  let '(cm, n, c) := e in banned n = false /\ canon cm c /\ c <> GTree [].

Lemma canon_children es :
  (fix go (l : list (N * name * gobj)) : Prop :=
     match l with
     | [] => True
     | e :: r => (let '(cm, n, c) := e in
                  banned n = false /\ canon cm c /\ c <> GTree []) /\ go r
     end) es -> Forall centry es.
Proof. induction es as [|e r IH]; intros H; constructor; destruct H; auto. Qed.

Lemma entry_mode_of_git m g : canon m g -> entry_mode (of_git m g) = m.
Proof.
  destruct g as [d|es]; intros H.
  - simpl in H. destruct H as [ -> | [ -> | -> ] ]; reflexivity.
  - destruct H as [-> _]. rewrite of_git_tree. reflexivity.
Qed.

Theorem to_git_of_git :
  forall g m ae p, canon m g -> (g <> GTree [] \/ ae = true) ->
    to_git [] ae p (of_git m g) = Some g.
Proof.
  induction g as [d|es IH] using gobj_ind2; intros m ae p Hc Hne.
  - simpl. destruct (is_lnk_mode m); reflexivity.
  - rewrite of_git_tree. destruct Hc as [_ [Hs [Hnd [Hndn Hch]]]]. apply canon_children in Hch.
    cbn [to_git].
    set (goG := fix go (l : list (name * etree)) : list (N * name * gobj) :=
           match l with
           | [] => []
           | (n0, c) :: r =>
               if banned n0 then go r
               else match to_git [] false (p ++ [n0]) c with
                    | Some g => (mode_of [] (p ++ [n0]) c, n0, g) :: go r
                    | None => go r
                    end
           end).
    (* the name-sorted children are the image of a permutation of es *)
    unfold nsort.
    rewrite (isort_map (fun e : N * name * gobj => fst (F_of e)) (fun nc : name * etree => fst nc) F_of)
      by reflexivity.
    set (es' := isort (fun e : N * name * gobj => fst (F_of e)) es).
    assert (Hp : Permutation es' es) by apply isort_perm.
    assert (HB : forall l, Forall centry l -> Forall (fun e => In e es) l -> goG (map F_of l) = l).
    { induction l as [|[[cm n] c] r IHl]; intros Hl Hin; [reflexivity|].
      inversion Hl as [|? ? Hce Hr]; subst. unfold centry in Hce. destruct Hce as [Hb [Hcc Hnz]]. inversion Hin as [|? ? Hi Hir]; subst.
      cbn [map F_of goG]. rewrite Hb.
      rewrite Forall_forall in IH. pose proof (IH _ Hi cm false (p ++ [n]) Hcc) as IHc. cbn [snd] in IHc.
      rewrite IHc by (left; exact Hnz).
      rewrite mode_of_nil, (entry_mode_of_git _ _ Hcc). f_equal. apply IHl; assumption. }
    rewrite HB.
    2:{ rewrite Forall_forall in *. intros e He. apply Hch. eapply Permutation_in; [exact Hp|exact He]. }
    2:{ rewrite Forall_forall. intros e He. eapply Permutation_in; [exact Hp|exact He]. }
    assert (Hg : gsort es' = es).
    { unfold gsort. rewrite (isort_perm_invariant gkey es' es Hp).
      - apply isort_sorted_id; assumption.
      - eapply Permutation_NoDup; [apply Permutation_map, Permutation_sym, Hp|exact Hnd]. }
    destruct es' as [|e1 r1] eqn:E'.
    + apply Permutation_nil in Hp. subst es.
      destruct Hne as [Hne | -> ]; [exfalso; apply Hne; reflexivity|reflexivity].
    + rewrite Hg. reflexivity.
Qed.
